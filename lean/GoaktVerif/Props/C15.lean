import GoaktVerif.Model.C15
import GoaktVerif.Model.C15Grain
import GoaktVerif.Spec.C15
import GoaktVerif.Lemmas.C15Final
import GoaktVerif.Lemmas.C15LossFinal

/-
C15 — "Every Ask (PID.Ask, the package-level Ask, SendSync, ReceiveContext.Ask, BatchAsk) returns either the
reply the target gave to that particular message or an error. A reply is never delivered to a different Ask call,
and a reply the target gives before the caller's deadline is not lost."

Model: `Model.C15` (small-step; receive-context pool, response-channel pool, mailbox recycling of the previous
sentinel, caller and responder protocols; any number of callers, any schedule, deadlines as explicit steps).
-/
namespace GoaktVerif.C15
open GoaktVerif.Model.C15

/-- every value received by an Ask was sent for that Ask (requests carry distinct ids, replies carry the id of
the request they answer) -/
def ownReply (c : Cfg) : Bool :=
  c.threads.all fun t => t.hist.all fun (op, r) =>
    match op, r with
    | .ask k, .reply v => v == k
    | _, _ => true

def noLoss (c : Cfg) : Bool := noLossLog c.log

def askIds (progs : List (List Op)) : List ReqId :=
  progs.flatten.filterMap fun | .ask k => some k | .handle => none

/-- well-formed workloads: request ids are distinct, and the mailbox has a single consumer (the dispatcher runs
one worker at a time on an actor — property C01) -/
def wf (progs : List (List Op)) : Bool :=
  decide (askIds progs).Nodup && decide ((progs.filter (·.contains .handle)).length ≤ 1)

/-- the full property for a variant of the protocol -/
def Holds (mode : Mode) : Prop :=
  ∀ progs, wf progs = true → ∀ acts : List Act,
    ownReply (runActs (init mode progs) acts) = true ∧ noLoss (runActs (init mode progs) acts) = true

/-- the full property, for the code as it is (since fix d1a16fa: `Mode.fixed`; both pools in use) -/
def C15_full : Prop := Holds .fixed

/-! ### the code before fix d1a16fa, refutation (a): an in-time reply is dropped — replayed on the real pre-fix code
(seeded/C15-revert-fix; the schedule is kept in corpus/C15 as a passing case) -/

def lossProgs : List (List Op) := [[.ask 1], [.ask 2, .ask 3, .ask 4], [.handle, .handle, .handle, .handle]]

/-- Ask(1) receives its reply but has not yet executed its final `responseClosed.Store(true)`.  Its context is
recycled by the next `Dequeue`, handed to Ask(4) and rebuilt (`responseClosed := false`).  Then the late store of
Ask(1) closes it, `Response` for request 4 loses its CAS and returns without sending, and Ask(4) times out. -/
def lossActs : List Act :=
  [.run 0, .run 1, .run 2, .run 2, .run 2, .run 0, .run 2, .run 2, .run 2, .run 1, .run 1, .run 1,
   .run 2, .run 2, .run 2, .run 1, .run 1, .run 1, .run 0, .run 2, .run 2, .timeout 1, .run 1, .run 1]

theorem C15_loss_witness :
    wf lossProgs = true ∧ noLoss (runActs (init .asIs lossProgs) lossActs) = false ∧
    (runActs (init .asIs lossProgs) lossActs).threads.map (·.hist.reverse) =
      [[(.ask 1, .reply 1)], [(.ask 2, .reply 2), (.ask 3, .reply 3), (.ask 4, .timeout)],
       [(.handle, .handled 1), (.handle, .handled 2), (.handle, .handled 3), (.handle, .handled 4)]] := by decide

/-! ### refutation (b): a reply is delivered to a different Ask — needs a preemption between the CAS and the
channel send inside `Response` (no instrumentable site there: proved on the model only) -/

def crossProgs : List (List Op) := [[.ask 1], [.ask 2], [.handle, .handle]]

/-- the responder wins the CAS for request 1 and is preempted; Ask(1) times out, closes, drains its (empty)
channel and pools it; Ask(2) takes that channel from the pool; the responder now sends reply 1 into it. -/
def crossActs : List Act :=
  [.run 0, .run 2, .run 2, .timeout 0, .run 0, .run 0, .run 1, .run 2, .run 1, .run 1]

theorem C15_cross_witness :
    wf crossProgs = true ∧ ownReply (runActs (init .asIs crossProgs) crossActs) = false ∧
    ((runActs (init .asIs crossProgs) crossActs).threads.map (·.hist.reverse)).take 2 =
      [[(.ask 1, .timeout)], [(.ask 2, .reply 1)]] := by decide

/-- the code as it was before fix d1a16fa (`Mode.asIs`) violates the property -/
theorem C15_asIs_refuted : ¬ Holds .asIs := by
  intro h
  have := (h lossProgs C15_loss_witness.1 lossActs).2
  rw [C15_loss_witness.2.1] at this
  cases this

/-- each clause fails on its own -/
theorem C15_asIs_refuted_ownReply :
    ¬ (∀ progs, wf progs = true → ∀ acts, ownReply (runActs (init .asIs progs) acts) = true) := by
  intro h
  have := h crossProgs C15_cross_witness.1 crossActs
  rw [C15_cross_witness.2.1] at this
  cases this

/-! ### the repaired protocol (`Mode.fixed`, fixes/C15-ask-no-late-store.diff): own reply, for every schedule

After its select the caller does not touch the receive context; the response channel is pooled only when the
reply has arrived.  Both pools stay in use.  Invariant `FInv` (Lemmas/C15Basic.lean): linear ownership of receive
contexts (pool / unbuilt caller / mailbox / sentinel), a pooled channel is empty and referenced by no pending
request, a buffered value carries the id of the request the channel was handed out for. -/

theorem ownReply_of_finv {c : Cfg} {own} (h : FInv c own) : ownReply c = true := by
  unfold ownReply
  rw [List.all_eq_true]
  intro t ht
  obtain ⟨tid, hlt, he⟩ := List.mem_iff_getElem.mp ht
  have hget : c.threads[tid]? = some t := by rw [List.getElem?_eq_getElem hlt, he]
  have hh := (h.thr tid t hget).2
  rw [List.all_eq_true]
  intro x hx
  obtain ⟨op, r⟩ := x
  cases op with
  | handle => rfl
  | ask k =>
    cases r with
    | reply v => simp only [beq_iff_eq]; exact hh k v hx
    | timeout => rfl
    | handled k' => rfl
    | empty => rfl

theorem C15_fixed_ownReply :
    ∀ progs, wf progs = true → ∀ acts : List Act, ownReply (runActs (init .fixed progs) acts) = true := by
  intro progs hwf acts
  have hcnt : (progs.filter hasH).length ≤ 1 := by
    simp only [wf, Bool.and_eq_true, decide_eq_true_eq] at hwf
    exact hwf.2
  obtain ⟨own0, h0⟩ := finv_init progs hcnt
  obtain ⟨own1, h1⟩ := finv_runActs acts _ own0 h0
  exact ownReply_of_finv h1

theorem askIds_eq (progs : List (List Op)) : askIds progs = progs.flatMap (·.filterMap askId) := by
  unfold askIds
  induction progs with
  | nil => rfl
  | cons p ps ih =>
    simp only [List.flatten_cons, List.filterMap_append, List.flatMap_cons]
    rw [← ih]
    congr 1

/-- no in-time reply is lost, for every schedule (invariant `NInv`, Lemmas/C15Loss*.lean: request ids occur once; a
pending context carries a built, not yet answered id and the caller waiting for that id waits on that context; a
caller at its select has its reply in its channel as soon as `Response` for it has returned) -/
theorem C15_fixed_noLoss :
    ∀ progs, wf progs = true → ∀ acts : List Act, noLoss (runActs (init .fixed progs) acts) = true := by
  intro progs hwf acts
  simp only [wf, Bool.and_eq_true, decide_eq_true_eq] at hwf
  obtain ⟨own0, h0⟩ := finv_init progs hwf.2
  have n0 := ninv_init progs (by rw [← askIds_eq]; exact hwf.1)
  obtain ⟨own1, _, n1⟩ := both_runActs acts _ own0 h0 n0
  exact n1.noloss

/-- the protocol as it is now satisfies the full property -/
theorem C15_holds : C15_full :=
  fun progs hwf acts => ⟨C15_fixed_ownReply progs hwf acts, C15_fixed_noLoss progs hwf acts⟩

/-- non-vacuity of `wf`: two callers with three requests and one worker -/
example : wf [[.ask 1, .ask 2], [.ask 3], [.handle, .handle, .handle]] = true := by decide

/-- the two refutation schedules are harmless on the repaired protocol (tests of the model, not theorems about all
schedules): no reply is lost, no reply is cross-delivered -/
example : noLoss (runActs (init .fixed lossProgs)
    [.run 0, .run 1, .run 2, .run 2, .run 2, .run 0, .run 2, .run 2, .run 2, .run 1, .run 1,
     .run 2, .run 2, .run 2, .run 1, .run 1, .run 2, .run 2, .run 2, .run 1]) = true := by decide

example : ownReply (runActs (init .fixed crossProgs) crossActs) = true := by decide

end GoaktVerif.C15

/-! ### the grain path (`actorSystem.localSend`, `Model.C15Grain`) still has the late store: finding C15-F3

A witness on the model (the same schedule is replayed on the real `localSend` / `grainMailbox` / `GrainContext` on every
run, corpus/C15/witness.case): AskGrain(1) times out legitimately and is starved before its late
`responseClosed.Store(true)`; the grain mailbox recycles its context, AskGrain(4) rebuilds it; the late store closes it and
`Response` for request 4 returns without sending. -/

namespace GoaktVerif.C15.Grain
open GoaktVerif.Model.C15Grain

def noLossLog : List Ev → Bool
  | [] => true
  | .timedOut k :: earlier => !earlier.contains (.respDone k) && noLossLog earlier
  | _ :: earlier => noLossLog earlier

def lossProgs : List (List Op) := [[.ask 1], [.ask 2, .ask 3, .ask 4], [.handle, .handle, .handle, .handle]]

def lossActs : List Act :=
  [.run 0, .run 0, .run 0, .run 0, .run 0, .timeout 0, .run 0, .run 2, .run 2, .run 2,
   .run 1, .run 1, .run 1, .run 1, .run 1, .run 2, .run 2, .run 2, .run 1,
   .run 1, .run 1, .run 1, .run 1, .run 1, .run 2, .run 2, .run 2, .run 1,
   .run 1, .run 1, .run 1, .run 1, .run 1, .run 0, .run 2, .run 2, .timeout 1, .run 1, .run 1]

theorem C15_grain_loss_witness :
    noLossLog (runActs (init false lossProgs) lossActs).log = false ∧
    (runActs (init false lossProgs) lossActs).threads.map (·.hist.reverse) =
      [[(.ask 1, .timeout)], [(.ask 2, .reply 2), (.ask 3, .reply 3), (.ask 4, .timeout)],
       [(.handle, .handled 1), (.handle, .handled 2), (.handle, .handled 3), (.handle, .handled 4)]] := by decide

/-- test (one schedule, not a theorem about all schedules): the same schedule is harmless once the late store is gone -/
example : noLossLog (runActs (init true lossProgs)
    [.run 0, .run 0, .run 0, .run 0, .run 0, .timeout 0, .run 0, .run 2, .run 2, .run 2,
     .run 1, .run 1, .run 1, .run 1, .run 1, .run 2, .run 2, .run 2, .run 1,
     .run 1, .run 1, .run 1, .run 1, .run 1, .run 2, .run 2, .run 2, .run 1,
     .run 1, .run 1, .run 1, .run 1, .run 1, .run 2, .run 2, .run 2, .run 1]).log = true := by decide

end GoaktVerif.C15.Grain

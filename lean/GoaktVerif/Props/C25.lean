/-
C25 — Message serializers round-trip and are chosen by type.

"For every message accepted by a configured serializer (protobuf, CBOR, JSON, the internal
 Terminated/PoisonPill/delivery serializers and user-registered serializers), deserializing its
 serialized form yields an equal message. The serializer chosen for a message is the one registered
 for its type, and a message no serializer supports yields an error rather than corrupt bytes."

Model: Model/C25.lean (frame layout, header checks, the three built-in serializers over abstract encoders,
`resolveSerializer`, `serializerDispatch.Serialize/Deserialize` with the proto fast path, the Terminated /
PoisonPill / delivery envelopes).  The third-party encoders are hypotheses (`ProtoLaw`, `RegLaw`, `EnvLaw`,
`Agree`), each with an `example` instance.

Reading of "chosen … is the one registered for its type": the rule documented on `WithClientSerializers`
("1. exact concrete type, 2. first registered interface the message implements").  Since fix C25-F1
`resolveSerializer` implements exactly that rule (`resolve_eq_doc`), and `C25_holds` proves the full statement.
-/
import GoaktVerif.Model.C25
import GoaktVerif.Model.C25Wire
import GoaktVerif.Spec.C25
import GoaktVerif.Lemmas.C25
import GoaktVerif.Lemmas.C25Dispatch
import GoaktVerif.Lemmas.C25Wire

namespace GoaktVerif.C25
open GoaktVerif.Model.C25 GoaktVerif.Spec.C25

/-! ## 1. the shared frame and the three built-in serializers -/

/-- what is assumed of protobuf for one message: it is a proto message with a registered, non-empty name,
    it marshals, and unmarshalling the produced payload under that name gives the message back -/
structure ProtoLaw {M} (c : ProtoCodec M) (m : M) (p : Bytes) : Prop where
  isProto : c.isProto m = true
  named : c.nameOf m ≠ []
  marshals : c.marshal m = some p
  registered : c.registered (c.nameOf m) = true
  roundtrip : c.unmarshal (c.nameOf m) p = some m
  fits : 8 + (c.nameOf m).length + p.length < 4294967296

theorem proto_roundtrip {M} (c : ProtoCodec M) (m : M) (p : Bytes) (h : ProtoLaw c m p) :
    protoSerialize c m = .ok (frame (c.nameOf m) p) ∧ protoDeserialize c (frame (c.nameOf m) p) = .ok m := by
  have hlen : (c.nameOf m).length ≠ 0 := fun h0 => h.named (List.eq_nil_of_length_eq_zero h0)
  constructor
  · unfold protoSerialize
    rw [h.isProto]
    simp only [Bool.not_true, Bool.false_eq_true, if_false]
    rw [if_neg hlen, h.marshals]
  · unfold protoDeserialize
    rw [unframe_frame _ _ h.fits]
    simp [protoDecodeFrame, h.registered, h.roundtrip]

/-- a value that is not a proto message never yields bytes -/
theorem proto_rejects_nonproto {M} (c : ProtoCodec M) (m : M) (h : c.isProto m = false) :
    protoSerialize c m = .error .notProto := by simp [protoSerialize, h]

/-- malformed input never reaches protobuf: the decoder is total and answers `invalidFrame` -/
theorem proto_malformed {M} (c : ProtoCodec M) (d : Bytes) (h : unframe d = none) :
    protoDeserialize c d = .error .invalidFrame := by simp [protoDeserialize, protoDecodeFrame, h]

structure RegLaw {M} (c : RegCodec M) (m : M) (p : Bytes) : Prop where
  notNil : c.isNil m = false
  registered : c.registered (c.nameOf m) = true
  marshals : c.marshal m = some p
  roundtrip : c.unmarshal (c.nameOf m) p = some m
  fits : 8 + (c.nameOf m).length + p.length < 4294967296

/-- CBOR and JSON serializers (same code shape) -/
theorem reg_roundtrip {M} (c : RegCodec M) (m : M) (p : Bytes) (h : RegLaw c m p) :
    regSerialize c m = .ok (frame (c.nameOf m) p) ∧ regDeserialize c (frame (c.nameOf m) p) = .ok m := by
  constructor
  · unfold regSerialize
    rw [h.notNil]
    simp only [Bool.false_eq_true, if_false]
    rw [h.registered]
    simp only [Bool.not_true, Bool.false_eq_true, if_false]
    rw [h.marshals]
  · unfold regDeserialize
    rw [unframe_frame _ _ h.fits]
    simp [regDecodeFrame, h.registered, h.roundtrip]

theorem reg_rejects_unregistered {M} (c : RegCodec M) (m : M) (h1 : c.isNil m = false)
    (h : c.registered (c.nameOf m) = false) : regSerialize c m = .error .notRegistered := by
  simp [regSerialize, h1, h]

/-- instance of `ProtoLaw`/`RegLaw`: the identity "encoder" on byte strings -/
def idProto : ProtoCodec Bytes :=
  { isProto := fun _ => true, nameOf := fun _ => [116], marshal := fun m => some m,
    registered := fun n => n == [116], unmarshal := fun _ p => some p }

example : ProtoLaw idProto [1, 2, 3] [1, 2, 3] :=
  ⟨rfl, by decide, rfl, by decide, rfl, by decide⟩

def idReg : RegCodec Bytes :=
  { isNil := fun _ => false, nameOf := fun _ => [116], marshal := fun m => some m,
    registered := fun n => n == [116], unmarshal := fun _ p => some p }

example : RegLaw idReg [7] [7] := ⟨rfl, by decide, rfl, rfl, by decide⟩

/-! ## 2. the dispatch -/

variable {M : Type}

/-- the chosen index is that of a registered entry whose type test passes -/
theorem resolve_accepts (es : List (Entry M)) (m : M) (i : Nat) (h : resolve es m = some i) :
    ∃ e : Entry M, es[i]? = some e ∧ e.accepts m = true :=
  resolveFrom_accepts es [] es m none i rfl (by intro j hj; cases hj) h

/-- the code's selection rule, part 1: an exact-type entry that accepts the message wins wherever it sits
    (the first such entry is chosen) -/
theorem resolve_exact_wins (es : List (Entry M)) (m : M) (j : Nat) (e : Entry M)
    (hj : es[j]? = some e) (ha : e.accepts m = true) (hx : e.exact = true)
    (hfirst : ∀ (j' : Nat) (e' : Entry M), j' < j → es[j']? = some e' → ¬ (e'.accepts m = true ∧ e'.exact = true)) :
    resolve es m = some j := by
  have := resolveFrom_exact es m 0 none j e hj ha hx hfirst
  simpa [resolve] using this

theorem resolve_none (es : List (Entry M)) (m : M) :
    resolve es m = none ↔ ∀ e ∈ es, e.accepts m = false := resolveFrom_none es m 0

/-- a message no entry accepts yields an error on the send path — never bytes -/
theorem send_unsupported (es : List (Entry M)) (m : M) (h : ∀ e ∈ es, e.accepts m = false) :
    sendSerialize es m = .error .noSerializer := by
  simp [sendSerialize, (resolve_none es m).mpr h]

/-- the bytes sent are exactly the chosen serializer's bytes -/
theorem send_bytes (es : List (Entry M)) (m : M) (d : Bytes) (h : sendSerialize es m = .ok d) :
    ∃ (i : Nat) (e : Entry M), resolve es m = some i ∧ es[i]? = some e ∧ e.accepts m = true ∧ e.ser m = .ok d := by
  unfold sendSerialize at h
  cases hr : resolve es m with
  | none => simp [hr] at h
  | some i =>
    obtain ⟨e, he, ha⟩ := resolve_accepts es m i hr
    simp only [hr, he] at h
    exact ⟨i, e, rfl, he, ha, h⟩

/-- `serializerDispatch.Serialize`: bytes, if any, are those of the first entry that encodes -/
theorem dispSerialize_first (es : List (Entry M)) (m : M) (d : Bytes) (h : dispSerialize es m = .ok d) :
    ∃ (j : Nat) (e : Entry M), es[j]? = some e ∧ e.ser m = .ok d ∧
      ∀ (j' : Nat) (e' : Entry M), j' < j → es[j']? = some e' → ∃ err, e'.ser m = .error err :=
  serLoop_ok es m d none h

/-- … and when no entry encodes the result is an error, never bytes -/
theorem dispSerialize_unsupported (es : List (Entry M)) (m : M) (h : ∀ e ∈ es, ∀ d, e.ser m ≠ .ok d) :
    ∃ err, dispSerialize es m = .error err := serLoop_all_fail es m none h

/-- `serializerDispatch.Deserialize` never invents a message: a result was decoded by a registered serializer -/
theorem dispDeserialize_sound (reg : Bytes → Bool) (es : List (Entry M)) (d : Bytes) (m : M)
    (h : dispDeserialize reg es d = .ok m) : ∃ e ∈ es, e.deser d = .ok m :=
  dispDeserialize_ok_mem reg es d m h

/-- THE DISPATCH ROUND TRIP.  If the message is sent with the serializer `resolveSerializer` picks, the chosen
    serializer decodes its own output (`hrt`) and no registered serializer mis-decodes that output (`Agree`),
    then the receive path — fast path included, whatever the registry says — returns the message. -/
theorem dispatch_roundtrip (reg : Bytes → Bool) (es : List (Entry M)) (m : M) (d : Bytes)
    (hsend : sendSerialize es m = .ok d)
    (hrt : ∀ e ∈ es, e.ser m = .ok d → e.deser d = .ok m)
    (hag : Agree es d m) :
    dispDeserialize reg es d = .ok m := by
  obtain ⟨i, e, _, he, _, hser⟩ := send_bytes es m d hsend
  have hmem : e ∈ es := List.mem_of_getElem? he
  exact dispDeserialize_agree reg es d m hag ⟨e, hmem, hrt e hmem hser⟩

/-- without `Agree` the round trip can fail: an earlier entry that decodes the frame to something else wins
    (this is what happens between CBORSerializer and JSONSerializer on one-digit integers, finding C25-F2) -/
def liar : Entry Nat := { accepts := fun _ => false, exact := true, ser := fun _ => .error .custom,
                          deser := fun _ => .ok 99, isProto := false }
def honest : Entry Nat := { accepts := fun _ => true, exact := true, ser := fun m => .ok [m],
                            deser := fun d => .ok (d.headD 0), isProto := false }

theorem agree_needed : sendSerialize [liar, honest] 5 = .ok [5] ∧
    dispDeserialize (fun _ => false) [liar, honest] [5] = .ok 99 := ⟨rfl, rfl⟩

example : Agree [honest] [5] 5 := by
  intro e he m' h
  simp only [List.mem_singleton] at he
  subst he
  simp [honest] at h
  exact h.symm

/-! ### documented rule = implemented rule (since fix C25-F1) -/

/-- the code's selection rule, part 2: it IS the rule documented on `WithClientSerializers` -/
theorem resolve_eq_doc (es : List (Entry M)) (m : M) : resolve es m = resolveDoc es m :=
  resolveFrom_eq_doc es m 0 none

/-- The full property over the dispatch: for every table, registry, message and frame —
    (a) round trip under the encoder laws, (b) the chosen serializer is the one the documented rule names,
    (c) an unsupported message yields an error. -/
def C25_full : Prop :=
  ∀ (es : List (Entry Nat)) (reg : Bytes → Bool) (m : Nat),
    (∀ d, sendSerialize es m = .ok d → (∀ e ∈ es, e.ser m = .ok d → e.deser d = .ok m) → Agree es d m →
        dispDeserialize reg es d = .ok m)
    ∧ resolve es m = resolveDoc es m
    ∧ ((∀ e ∈ es, e.accepts m = false) → sendSerialize es m = .error .noSerializer)

theorem C25_holds : C25_full := fun es reg m =>
  ⟨fun d hs hrt hag => dispatch_roundtrip reg es m d hs hrt hag, resolve_eq_doc es m, send_unsupported es m⟩

/-- the former witness of C25-F1: the seeded interface entry no longer shadows an exact-type registration -/
def ifaceEntry : Entry Nat := { accepts := fun _ => true, exact := false, ser := fun m => .ok [0, m],
                                deser := fun _ => .error .custom, isProto := true }
def exactEntry : Entry Nat := { accepts := fun m => m == 7, exact := true, ser := fun m => .ok [1, m],
                                deser := fun _ => .error .custom, isProto := false }

example : resolve [ifaceEntry, exactEntry] 7 = some 1 := by decide
example : resolve [ifaceEntry, exactEntry] 8 = some 0 := by decide

/-! ## 3. the internal envelopes -/

theorem poison_roundtrip : poisonDecode poisonEncode = true := by decide

theorem poison_only_magic (d : Bytes) : poisonDecode d = true ↔ d = poisonMagic := by
  unfold poisonDecode
  constructor
  · intro h
    simp only [Bool.and_eq_true, decide_eq_true_eq, beq_iff_eq] at h
    exact h.2
  · intro h; subst h; decide

/-- Terminated: any path text shorter than 4 GiB that is empty or parses, any int64 timestamp -/
theorem terminated_roundtrip (parse : Bytes → Bool) (t : Terminated)
    (hlen : t.path.length < 4294967296)
    (hlo : -9223372036854775808 ≤ t.nanos) (hhi : t.nanos < 9223372036854775808)
    (hp : t.path = [] ∨ parse t.path = true) :
    termDecode parse (termEncode t) = some t := by
  obtain ⟨path, nanos⟩ := t
  simp only at hlen hlo hhi hp
  have hlenEnc : (termEncode ⟨path, nanos⟩).length = 20 + path.length := by
    simp [termEncode, termMagic, be32_length, be64_length]; omega
  have htake : (termEncode ⟨path, nanos⟩).take 8 = termMagic := by simp [termEncode, termMagic]
  have hdrop8 : (termEncode ⟨path, nanos⟩).drop 8 = be32 path.length ++ (path ++ be64 (toU64 nanos)) := by
    simp [termEncode, termMagic]
  have hdrop12 : (termEncode ⟨path, nanos⟩).drop 12 = path ++ be64 (toU64 nanos) := by
    have : (termEncode ⟨path, nanos⟩).drop 12 = ((termEncode ⟨path, nanos⟩).drop 8).drop 4 := by
      rw [List.drop_drop]
    rw [this, hdrop8, drop4_be32]
  have hdropAll : (termEncode ⟨path, nanos⟩).drop (12 + path.length) = be64 (toU64 nanos) := by
    rw [← List.drop_drop, hdrop12]; simp
  have hu : toU64 nanos % 18446744073709551616 = toU64 nanos := by
    unfold toU64; omega
  unfold termDecode
  simp only [hlenEnc, htake, hdrop8, rd32_be32 _ hlen, hdrop12, hdropAll]
  have e1 : ¬ (20 + path.length < 20) := by omega
  have h64 : rd64 (be64 (toU64 nanos)) = toU64 nanos := by
    have := rd64_be64 (toU64 nanos) []
    simpa [hu] using this
  simp only [h64, toI64_toU64 nanos hlo hhi]
  have hpath : (path ++ be64 (toU64 nanos)).take path.length = path := by simp
  simp only [hpath]
  rcases hp with hp | hp
  · subst hp; simp
  · simp [e1, hp]
    omega

example : termDecode (fun _ => true) (termEncode ⟨[103, 111], -5⟩) = some ⟨[103, 111], -5⟩ := by decide

/-- protobuf on the delivery envelope as a hypothesis: what it marshals, it unmarshals -/
def EnvLaw (pc : EnvCodec) : Prop := ∀ e b, pc.marshal e = some b → pc.unmarshal b = some e

/-- the command ↔ envelope mapping itself is lossless on every valid, constructor-built command -/
theorem env_roundtrip (c : Cmd) (hv : c.valid = true) (hwf : c.wf = true) : c.toEnv.toCmd = .ok c := by
  cases c with
  | registerConsumer n => simp [Cmd.toEnv, Env.toCmd, hv]
  | registrationAck s n nonce => simp [Cmd.toEnv, Env.toCmd, hv]
  | request s nonce cf u v => simp [Cmd.toEnv, Env.toCmd, hv]
  | ack s nonce cf => simp [Cmd.toEnv, Env.toCmd, hv]
  | sequenced s id seq p ch f l =>
    cases ch with
    | true => simp [Cmd.toEnv, Env.toCmd, hv]
    | false =>
      simp [Cmd.wf] at hwf
      obtain ⟨hf, hl⟩ := hwf
      subst hf; subst hl
      simp [Cmd.toEnv, Env.toCmd, hv]

theorem delivery_roundtrip (pc : EnvCodec) (law : EnvLaw pc) (c : Cmd) (hv : c.valid = true) (hwf : c.wf = true)
    (b : Bytes) (hm : pc.marshal c.toEnv = some b) :
    deliveryEncode pc c = .ok (deliveryMagic ++ b) ∧ deliveryDecode pc (deliveryMagic ++ b) = .ok c := by
  constructor
  · simp [deliveryEncode, hv, hm]
  · have h1 : (deliveryMagic ++ b).take 8 = deliveryMagic := by simp [deliveryMagic]
    have h2 : (deliveryMagic ++ b).drop 8 = b := by simp [deliveryMagic]
    have h3 : ¬ ((deliveryMagic ++ b).length < 8) := by simp [deliveryMagic]
    unfold deliveryDecode
    simp only [h1, h2, law _ _ hm, env_roundtrip c hv hwf]
    have h4 : deliveryMagic.length = 8 := rfl
    simp
    omega

/-- The same with protobuf replaced by the concrete wire codec of Model/C25Wire.lean + Model/C25WireDec.lean, whose
    round trip is PROVED (`WireLemmas.decEnv_encEnv`): no hypothesis about protobuf is left, only sizes that fit
    (strings and payload below 4 GiB, int64 fields in range).  The encoder half of that codec is compared byte for
    byte with protobuf-go by the differential. -/
theorem delivery_roundtrip_wire (c : Cmd) (hv : c.valid = true) (hwf : c.wf = true)
    (hfit : Wire.envFits c.toEnv = true) :
    deliveryEncode Wire.wireEnvCodec c = .ok (deliveryMagic ++ Wire.encEnv c.toEnv)
    ∧ deliveryDecode Wire.wireEnvCodec (deliveryMagic ++ Wire.encEnv c.toEnv) = .ok c := by
  constructor
  · simp [deliveryEncode, hv, Wire.wireEnvCodec]
  · have h1 : (deliveryMagic ++ Wire.encEnv c.toEnv).take 8 = deliveryMagic := by simp [deliveryMagic]
    have h2 : (deliveryMagic ++ Wire.encEnv c.toEnv).drop 8 = Wire.encEnv c.toEnv := by simp [deliveryMagic]
    have h4 : deliveryMagic.length = 8 := rfl
    unfold deliveryDecode
    simp only [h1, h2, Wire.wireEnvCodec, WireLemmas.decEnv_encEnv _ hfit, env_roundtrip c hv hwf]
    simp
    omega

example : Wire.envFits (Cmd.sequenced [115] [109] 7 [1, 2] true true false).toEnv = true := by decide

/-- an invalid command yields an error, never bytes -/
theorem delivery_invalid (pc : EnvCodec) (c : Cmd) (hv : c.valid = false) :
    deliveryEncode pc c = .error .invalidMessage := by simp [deliveryEncode, hv]

/-- `EnvLaw` instance: a codec that stores the envelope in a table of one -/
example : EnvLaw { marshal := fun e => if e = .none then some [] else none,
                   unmarshal := fun b => if b = [] then some .none else none } := by
  intro e b h
  by_cases he : e = .none
  · subst he; simp at h; subst h; simp
  · simp [he] at h

/-! ### the envelopes and the framed serializers cannot capture each other's bytes -/

theorem unframe_rd32_le (d : Bytes) (h : (unframe d).isSome = true) : 8 ≤ d.length ∧ rd32 d ≤ d.length := by
  unfold unframe at h
  by_cases h8 : d.length < 8
  · simp [h8] at h
  · by_cases ht : d.length < rd32 d
    · simp [h8, ht] at h
    · omega

theorem rd32_of_take8 (d : Bytes) (a b c e f g i j : Nat) (h : d.take 8 = [a, b, c, e, f, g, i, j]) :
    rd32 d = a * 16777216 + b * 65536 + c * 256 + e := by
  rcases d with _ | ⟨x0, _ | ⟨x1, _ | ⟨x2, _ | ⟨x3, rest⟩⟩⟩⟩ <;> simp at h
  obtain ⟨h0, h1, h2, h3, _⟩ := h
  subst h0; subst h1; subst h2; subst h3
  rfl

/-- a well-formed frame shorter than 3.7 GB is never taken for a Terminated envelope … -/
theorem framed_not_terminated (parse : Bytes → Bool) (d : Bytes) (h : (unframe d).isSome = true)
    (hlen : d.length < 3735923824) : termDecode parse d = none := by
  obtain ⟨_, hle⟩ := unframe_rd32_le d h
  unfold termDecode
  by_cases hm : d.take 8 = termMagic
  · have := rd32_of_take8 d _ _ _ _ _ _ _ _ hm
    omega
  · simp [hm]

/-- … nor for a PoisonPill (unconditionally) … -/
theorem framed_not_poison (d : Bytes) (h : (unframe d).isSome = true) : poisonDecode d = false := by
  obtain ⟨_, hle⟩ := unframe_rd32_le d h
  cases hp : poisonDecode d with
  | false => rfl
  | true =>
    have hd := (poison_only_magic d).mp hp
    subst hd
    revert hle; decide

/-- … nor for a delivery envelope (frames shorter than 4 GiB) -/
theorem framed_not_delivery (pc : EnvCodec) (d : Bytes) (h : (unframe d).isSome = true)
    (hlen : d.length < 4294967295) : deliveryDecode pc d = .error .notEnvelope := by
  obtain ⟨_, hle⟩ := unframe_rd32_le d h
  unfold deliveryDecode
  by_cases hm : d.take 8 = deliveryMagic
  · have := rd32_of_take8 d _ _ _ _ _ _ _ _ hm
    omega
  · simp [hm]

/-- and the three envelopes reject one another's bytes: the magic numbers differ -/
theorem envelopes_disjoint (parse : Bytes → Bool) (pc : EnvCodec) (t : Terminated) (b : Bytes) :
    poisonDecode (termEncode t) = false ∧ poisonDecode (deliveryMagic ++ b) = false
    ∧ termDecode parse poisonEncode = none ∧ termDecode parse (deliveryMagic ++ b) = none
    ∧ deliveryDecode pc poisonEncode = .error .notEnvelope
    ∧ deliveryDecode pc (termEncode t) = .error .notEnvelope := by
  refine ⟨?_, ?_, ?_, ?_, ?_, ?_⟩
  · cases hp : poisonDecode (termEncode t) with
    | false => rfl
    | true =>
      have := (poison_only_magic _).mp hp
      simp [termEncode, termMagic, poisonMagic] at this
  · cases hp : poisonDecode (deliveryMagic ++ b) with
    | false => rfl
    | true =>
      have := (poison_only_magic _).mp hp
      simp [deliveryMagic, poisonMagic] at this
  · rfl
  · have : (deliveryMagic ++ b).take 8 ≠ termMagic := by simp [deliveryMagic, termMagic]
    simp [termDecode, this]
  · rfl
  · have : (termEncode t).take 8 ≠ deliveryMagic := by simp [termEncode, deliveryMagic, termMagic]
    simp [deliveryDecode, this]

/-! ## 4. summary -/

/-- everything that holds of the current code, in one statement -/
theorem C25_envelopes :
    poisonDecode poisonEncode = true
    ∧ (∀ (parse : Bytes → Bool) (t : Terminated), t.path.length < 4294967296 →
        -9223372036854775808 ≤ t.nanos → t.nanos < 9223372036854775808 →
        (t.path = [] ∨ parse t.path = true) → termDecode parse (termEncode t) = some t)
    ∧ (∀ (c : Cmd), c.valid = true → c.wf = true → c.toEnv.toCmd = .ok c) :=
  ⟨poison_roundtrip, terminated_roundtrip, env_roundtrip⟩

end GoaktVerif.C25

/-
C22 — Client load balancers always pick a configured node.

"For any number of prior calls, including after an internal counter wraps around, the cluster
 client's round-robin, random and least-load balancers return one of the configured nodes, and
 round-robin visits the nodes in cyclic order."

Tie: `Gen.C22.rrNext` is regenerated from client/round_robin.go on every run (go2lean);
`rrNext_refines` relates it to the Nat model for every cursor value and every pool size that fits
a Go slice (< 2^32); random/least-load are tied by the differential (E1).
-/
import GoaktVerif.Gen.C22
import GoaktVerif.Model.C22
import GoaktVerif.Spec.C22
import GoaktVerif.Lemmas.FixedWidth

namespace GoaktVerif.C22
open GoaktVerif.Model.C22 GoaktVerif.Spec.C22 GoaktVerif.FixedWidth

/-! ### tie: generated code = model, for all inputs -/

theorem rrNext_refines (len : Int64) (next : UInt32) (h0 : 0 < len.toInt) (h1 : len.toInt < 2^32) :
    (Gen.C22.rrNext len next).1.toInt = ((RR.step ⟨len.toInt.toNat, next.toNat⟩).1 : Int)
    ∧ (Gen.C22.rrNext len next).2.toNat = (RR.step ⟨len.toInt.toNat, next.toNat⟩).2.next := by
  unfold Gen.C22.rrNext RR.step
  have hs := int64_toInt32_toUInt32_toNat len (by omega) h1
  have hn := next.toNat_lt
  simp only [uint32_toUInt64_toInt64_toInt, UInt32.toNat_mod, UInt32.toNat_add, hs]
  refine ⟨by simp, ?_⟩
  have : (len.toInt.toNat) < 2^32 := by omega
  have hpos : 0 < len.toInt.toNat := by omega
  generalize len.toInt.toNat = m at *
  have h2 : next.toNat % m < m := Nat.mod_lt _ hpos
  have : UInt32.toNat 1 = 1 := rfl
  rw [this, Nat.mod_eq_of_lt (a := next.toNat % m + 1) (by omega)]

/-! ### round robin -/

theorem rr_step_in_range (s : RR) (h : 0 < s.n) : s.step.1 < s.n := Nat.mod_lt _ h

theorem rr_step_n (s : RR) : s.step.2.n = s.n := rfl

/-- the k-th later call returns `(next + k) mod n`: cyclic forever, whatever the cursor holds -/
theorem rr_run_eq (k : Nat) (s : RR) (h : 0 < s.n) :
    (RR.run k s).1 = (List.range k).map (fun j => (s.next + j) % s.n) := by
  induction k generalizing s with
  | zero => simp [RR.run]
  | succ k ih =>
    have ih' := ih s.step.2 (by simpa [rr_step_n] using h)
    simp only [RR.run, ih', List.range_succ_eq_map, List.map_cons, List.map_map]
    congr 1
    · simp [RR.step]
      intro a _
      congr 1; omega

theorem cyclic_of_run (n s k : Nat) :
    cyclic n ((List.range' s k).map (fun j => j % n)) = true := by
  induction k generalizing s with
  | zero => simp [cyclic]
  | succ k ih =>
    cases k with
    | zero => simp [cyclic]
    | succ k =>
      have := ih (s + 1)
      simp only [List.range'_succ, List.map_cons] at this ⊢
      simp only [cyclic, Bool.and_eq_true, beq_iff_eq]
      exact ⟨by rw [Nat.mod_add_mod], this⟩

/-- The full statement for round-robin: from ANY cursor value (so after any number of prior
    calls, any wrap, any `Set`), any number `k` of further calls on a non-empty pool return only
    configured indices, in cyclic order. -/
def rr_full : Prop :=
  ∀ (n next k : Nat), 0 < n → rrOK n (RR.run k ⟨n, next⟩).1 = true

theorem rr_holds : rr_full := by
  intro n next k hn
  rw [rr_run_eq k ⟨n, next⟩ hn]
  simp only [rrOK, Bool.and_eq_true]
  constructor
  · simp only [allInRange, List.all_map, List.all_eq_true]
    intro j _
    simpa using Nat.mod_lt _ hn
  · have := cyclic_of_run n next k
    rw [List.range'_eq_map_range] at this
    rw [List.map_map] at this
    exact this

example : rrOK 3 (RR.run 7 ⟨3, 4294967295⟩).1 = true := by decide  -- non-vacuous: cursor at the old wrap point

/-! ### random -/

/-- `nodes[r]` with `r = rand.IntN(len)`: the library contract `0 ≤ r < len` is the hypothesis -/
theorem random_in_range (n r : Nat) (h : r < n) : randomPick n r < n := h

/-! ### least load -/

theorem insertFront_perm (x : Node) (l : List Node) : (sortStable.insertFront x l).Perm (x :: l) := by
  induction l with
  | nil => simp [sortStable.insertFront]
  | cons y ys ih =>
    simp only [sortStable.insertFront]
    split
    · exact (List.Perm.cons y ih).trans (List.Perm.swap x y ys)
    · exact List.Perm.refl _

theorem sortStable_perm (l : List Node) : (sortStable l).Perm l := by
  induction l with
  | nil => simp [sortStable]
  | cons x xs ih =>
    simp only [sortStable]
    exact (insertFront_perm x _).trans (List.Perm.cons x ih)

/-- the pool after `Next` is a permutation of the pool before: no node is lost or invented,
    for any number of calls -/
theorem leastLoad_pool_perm (pool : List Node) : (leastLoadStep pool).2.Perm pool :=
  sortStable_perm pool

/-- `Next` on a non-empty pool returns a configured node -/
theorem leastLoad_mem (pool : List Node) (h : pool ≠ []) :
    ∃ nd ∈ pool, (leastLoadStep pool).1 = some nd.1 := by
  have hp := sortStable_perm pool
  cases hs : sortStable pool with
  | nil => rw [hs] at hp; exact absurd (List.Perm.nil_eq hp) (by simpa [eq_comm] using h)
  | cons a as =>
    refine ⟨a, ?_, by simp [leastLoadStep, hs]⟩
    exact hp.subset (by rw [hs]; exact List.mem_cons_self)

def headMin : List Node → Prop
  | [] => True
  | a :: as => ∀ b ∈ as, a.2 ≤ b.2

theorem insertFront_headMin (x : Node) (l : List Node) (h : headMin l) :
    headMin (sortStable.insertFront x l) := by
  cases l with
  | nil => simp [sortStable.insertFront, headMin]
  | cons y ys =>
    simp only [sortStable.insertFront]
    split
    · rename_i hlt
      intro b hb
      have : b ∈ x :: ys := (insertFront_perm x ys).subset hb
      rcases List.mem_cons.mp this with rfl | hb'
      · omega
      · exact h b hb'
    · rename_i hge
      intro b hb
      rcases List.mem_cons.mp hb with rfl | hb'
      · omega
      · have := h b hb'; omega

theorem sortStable_headMin (l : List Node) : headMin (sortStable l) := by
  induction l with
  | nil => simp [sortStable, headMin]
  | cons x xs ih => exact insertFront_headMin x _ ih

/-- the node returned has minimal weight among the configured nodes -/
theorem leastLoad_min (pool : List Node) (a : Node) (as : List Node) (hs : sortStable pool = a :: as) :
    ∀ b ∈ pool, a.2 ≤ b.2 := by
  intro b hb
  have hm := sortStable_headMin pool
  rw [hs] at hm
  have : b ∈ a :: as := by rw [← hs]; exact (sortStable_perm pool).symm.subset hb
  rcases List.mem_cons.mp this with rfl | h
  · exact Int.le_refl _
  · exact hm b h

/-- The full statement, all three balancers. -/
def C22_full : Prop :=
  rr_full
  ∧ (∀ n r, r < n → randomPick n r < n)
  ∧ (∀ pool : List Node, pool ≠ [] → (∃ nd ∈ pool, (leastLoadStep pool).1 = some nd.1) ∧ (leastLoadStep pool).2.Perm pool)

theorem C22_holds : C22_full :=
  ⟨rr_holds, random_in_range, fun pool h => ⟨leastLoad_mem pool h, leastLoad_pool_perm pool⟩⟩

example : (leastLoadStep [(0, 3), (1, 1), (2, 1)]).1 = some 1 := by decide

end GoaktVerif.C22

/-
C05 — The dispatcher never loses or duplicates a scheduled actor.

"Every actor handed to the dispatcher's ready queue is taken by exactly one worker (whether it sits
 in a worker's local ring, the global ring, or is stolen), no worker stays parked while work is
 queued and a worker is idle, and closing the dispatcher makes every worker exit."

Model: `Model/C05/Ring.lean` (the two ring buffers as arrays with head/tail/size, `grow`,
`stealHalf`) and `Model/C05/Queue.lean` (one transition per synchronisation site of
actor/ready_queue.go + dispatcher.signalStop's CAS; threads run arbitrary op lists).
All theorems below quantify over EVERY reachable configuration, i.e. every schedule of every
length, any number of workers `n`, any number of threads, any programs obeying the worker
discipline (`ProgsOk`: only worker `w` calls take(w)/pushLocal(w), as worker.run/reschedule do).

Reading of "no worker stays parked while work is queued and a worker is idle": the invariants
`no_lost_signal` (global queue) and `local_work_owner_awake` (local rings).  Work sitting in a BUSY
worker's local ring while a sibling is parked is NOT claimed: the code only wakes parked workers on
a global push, and the owner will take its local work itself on its next `take`.
-/
import GoaktVerif.Gen.C05
import GoaktVerif.Lemmas.C05.Close

namespace GoaktVerif.C05
open GoaktVerif.Model.C05

/-! ### tie of the constants to the source (regenerated on every run) -/

theorem consts_tie :
    Gen.C05.localQueueCap = (Model.C05.localQueueCap : Int) ∧
    Gen.C05.globalQueueInitialCap = (Model.C05.globalQueueInitialCap : Int) := by
  constructor <;> rfl

/-! ### ring arithmetic (List abstraction) -/

/-- `pushBack`/`globalQueue.push` append at the back, `popFront`/`pop` remove the front, `grow` keeps
the window, `stealHalf` hands out the head and moves the next ⌈size/2⌉-1 items (as many as fit), in order. -/
theorem ring_ops_are_list_ops :
    (∀ (r : Ring) x, r.WF → r.size < r.cap → (r.pushRaw x).toList = r.toList ++ [x]) ∧
    (∀ (r : Ring), r.WF → 0 < r.size → r.toList = r.popRaw.1 :: r.popRaw.2.toList) ∧
    (∀ (r : Ring), r.size ≤ r.cap → r.grow.toList = r.toList) ∧
    (∀ (r : Ring) x, r.WF → (r.gpush x).toList = r.toList ++ [x]) ∧
    (∀ (q d : Ring), q.WF → d.WF → 0 < q.size →
      ∃ mv, q.toList = (Ring.stealHalf q d).1 :: mv ++ (Ring.stealHalf q d).2.1.toList ∧
        (Ring.stealHalf q d).2.2.toList = d.toList ++ mv ∧
        mv.length = min ((q.size + 1) / 2 - 1) (d.cap - d.size)) :=
  ⟨fun _ x h hs => Ring.pushRaw_toList x h hs, fun _ h hs => Ring.popRaw_toList h hs,
   fun _ h => Ring.grow_toList h, fun _ x h => Ring.gpush_toList x h,
   fun _ _ hq hd hs => (Ring.stealHalf_spec hq hd hs).2.2.2.2⟩

/-! ### conservation -/

/-- all items currently in some ring -/
def items (s : Shared) : List Nat := s.rings.flatMap Ring.toList ++ s.global.toList

theorem count_items (s : Shared) (x : Nat) : (items s).count x = s.cnt x := by
  simp [items, Shared.cnt, List.count_flatMap, Function.comp_def]

/-- items removed from a ring: held by a thread between removal and return, or returned by a take -/
def removed (c : Cfg) : List Nat := c.threads.flatMap fun t => t.held ++ t.returned

theorem count_removed (c : Cfg) (x : Nat) :
    (removed c).count x = (c.threads.map fun t => t.held.count x + t.returned.count x).sum := by
  simp [removed, List.count_flatMap, Function.comp_def]

/-- CONSERVATION, every reachable configuration: the multiset of items stored into the rings equals
the multiset of items removed (each held by exactly one thread or returned by exactly one take)
plus the contents of all rings. Nothing is lost, nothing is duplicated. -/
theorem conservation {n : Nat} {progs : List (List Op)} (hp : ProgsOk n progs) {c : Cfg}
    (hr : Reachable (init n progs) c) :
    c.sh.pushed.Perm (removed c ++ items c.sh) := by
  have h := reachable_cinv (init_cinv hp) hr
  rw [List.perm_iff_count]
  intro x
  rw [List.count_append, count_items, count_removed, ← h.acct x]
  exact h.sinv.cons x

/-- once every thread has finished: pushed = returned by takes ⊎ left in the rings -/
theorem conservation_final {n : Nat} {progs : List (List Op)} (hp : ProgsOk n progs) {c : Cfg}
    (hr : Reachable (init n progs) c) (hdone : ∀ t ∈ c.threads, t.pc = none) :
    c.sh.pushed.Perm (c.threads.flatMap Thread.returned ++ items c.sh) := by
  have := conservation hp hr
  have e : removed c = c.threads.flatMap Thread.returned := by
    unfold removed
    have : ∀ l : List Thread, (∀ t ∈ l, t.pc = none) →
        (l.flatMap fun t => t.held ++ t.returned) = l.flatMap Thread.returned := by
      intro l
      induction l with
      | nil => intro _; rfl
      | cons t ts ih =>
        intro h
        simp only [List.flatMap_cons]
        rw [ih (fun u hu => h u (List.mem_cons_of_mem _ hu))]
        simp [Thread.held, h t List.mem_cons_self]
    exact this _ hdone
  rwa [e] at this

/-- shapes: every ring keeps `head < cap`, `size ≤ cap`, `tail = (head+size) % cap`, and no slot of a
live window is nil (so `take`'s nil checks never drop an item) -/
theorem rings_well_formed {n : Nat} {progs : List (List Op)} (hp : ProgsOk n progs) {c : Cfg}
    (hr : Reachable (init n progs) c) :
    (∀ r ∈ c.sh.rings, r.WF ∧ 0 ∉ r.toList) ∧ c.sh.global.WF ∧ 0 ∉ c.sh.global.toList := by
  have h := (reachable_cinv (init_cinv hp) hr).sinv
  exact ⟨fun r hr => ⟨h.lwf r hr, h.lnz r hr⟩, h.gwf, h.gnz⟩

/-! ### parking: mutual exclusion, exact `parked` count, no lost signal -/

/-- NO LOST SIGNAL, every reachable configuration (no discipline needed): while some worker waits
un-signalled on the condition variable, the global queue holds at most as many items as there are
pending wake-ups, plus one if a pusher still holds `parkMu` on its way to `Signal`. -/
theorem no_lost_signal {n : Nat} {progs : List (List Op)} {c : Cfg} (hr : Reachable (init n progs) c) :
    c.sh.waiters ≠ [] → c.sh.global.size ≤ c.sh.signalled.length + b2n (inPush c.holderPC) :=
  (reachable_pinv hr).vinv.p4

/-- the DESIGN wording: queued global work and a waiting worker ⇒ a signal is pending or a running
(non-parked) thread holds `parkMu` inside `push`, before its `Signal` -/
theorem no_lost_signal' {n : Nat} {progs : List (List Op)} {c : Cfg} (hr : Reachable (init n progs) c)
    (hq : 0 < c.sh.global.size) (hw : c.sh.waiters ≠ []) :
    c.sh.signalled ≠ [] ∨
    ∃ t, c.sh.parkMu = some t ∧ (c.pcOf t = some .pushStore ∨ c.pcOf t = some .pushSignal) := by
  have h := no_lost_signal hr hw
  by_cases hs : c.sh.signalled = []
  · right
    rw [hs] at h
    simp only [List.length_nil, Nat.zero_add] at h
    unfold Cfg.holderPC at h
    cases hm : c.sh.parkMu with
    | none => simp [hm, inPush, b2n] at h; omega
    | some t =>
      refine ⟨t, rfl, ?_⟩
      simp only [hm, Option.bind_some] at h
      cases hpc : c.pcOf t with
      | none => simp [hpc, inPush, b2n] at h; omega
      | some pc => cases pc <;> simp_all [inPush, b2n] <;> omega
  · exact Or.inl hs

/-- `parked` is exact: the worker between `parked++` and `Wait`, the waiters, the woken-not-yet-running -/
theorem parked_exact {n : Nat} {progs : List (List Op)} {c : Cfg} (hr : Reachable (init n progs) c) :
    c.sh.parked = b2n (isWait c.holderPC) + c.sh.waiters.length + c.sh.signalled.length :=
  (reachable_pinv hr).vinv.p2

/-- mutual exclusion on `parkMu` -/
theorem parkMu_mutex {n : Nat} {progs : List (List Op)} {c : Cfg} (hr : Reachable (init n progs) c)
    {t u : Nat} {p q : PC} (hp : c.pcOf t = some p) (hq : c.pcOf u = some q)
    (h1 : p.holdsPark = true) (h2 : q.holdsPark = true) : t = u := by
  have a := (reachable_pinv hr).p1 t p hp h1
  have b := (reachable_pinv hr).p1 u q hq h2
  rw [a] at b; exact Option.some.inj b

/-! ### local rings: queued local work implies an awake owner -/

/-- every reachable configuration: if worker `i`'s local ring is non-empty then worker `i` is not
parked — it is not even past `popFront` of its current `take` (only the owner, or the owner acting
as thief, ever fills ring `i`). -/
theorem local_work_owner_awake {n : Nat} {progs : List (List Op)} (hp : ProgsOk n progs) {c : Cfg}
    (hr : Reachable (init n progs) c) {i : Nat} (hi : i < n) (hne : 0 < (c.sh.getL i).ring.size) :
    ∀ pc, c.pcOf i = some pc → pc.idle = false := by
  intro pc hpc
  cases hid : pc.idle with
  | false => rfl
  | true =>
    have := (reachable_linv hp hr).l i pc hi hpc hid
    omega

/-- in particular the owner of a non-empty ring is neither about to wait nor waiting -/
theorem local_work_owner_not_parked {n : Nat} {progs : List (List Op)} (hp : ProgsOk n progs) {c : Cfg}
    (hr : Reachable (init n progs) c) {i : Nat} (hi : i < n) (hne : 0 < (c.sh.getL i).ring.size) (w : Nat) :
    c.pcOf i ≠ some (.pkWait w) ∧ c.pcOf i ≠ some (.pkWake w) := by
  constructor <;> intro h <;> have := local_work_owner_awake hp hr hi hne _ h <;> simp [PC.idle] at this

/-- the lock-free probe is sound for the owner: outside its own adding critical sections,
`sizeAtomic == 0` implies the ring is empty (so `popFront` never skips queued work) -/
theorem sizeAtomic_covers {n : Nat} {progs : List (List Op)} (hp : ProgsOk n progs) {c : Cfg}
    (hr : Reachable (init n progs) c) {i : Nat} (hi : i < n)
    (hpc : ∀ pc, c.pcOf i = some pc → pc.adding = false) :
    (c.sh.getL i).ring.size ≤ (c.sh.getL i).sizeAtomic :=
  (reachable_linv hp hr).m i hi hpc

/-! ### close -/

/-- `closed` is never reset -/
theorem closed_stable {c c' : Cfg} (hr : Reachable c c') (h : c.sh.closed = true) : c'.sh.closed = true :=
  reachable_closed_mono hr h

/-- after close nobody can start waiting: no thread sits between `parked++` and `cond.Wait` -/
theorem closed_no_new_waiter {n : Nat} {progs : List (List Op)} {c : Cfg} (hr : Reachable (init n progs) c)
    (hc : c.sh.closed = true) (t w : Nat) : c.pcOf t ≠ some (.pkWait w) := by
  intro h
  have hp := reachable_pinv hr
  have hm := hp.p1 t _ h rfl
  have hh : c.holderPC = some (.pkWait w) := by simp [Cfg.holderPC, hm, h]
  have := (hp.vinv.p3 (by rw [hh]; rfl)).2
  rw [hc] at this; cases this

/-- once close's critical section is over, every parked worker has been woken (is signalled) -/
theorem closed_all_woken {n : Nat} {progs : List (List Op)} {c : Cfg} (hr : Reachable (init n progs) c)
    (hc : c.sh.closed = true) (hb : c.holderPC ≠ some .clBroadcast) :
    c.sh.waiters = [] ∧ ∀ t w, c.pcOf t = some (.pkWake w) → t ∈ c.sh.signalled := by
  have hw : c.sh.waiters = [] := by
    rcases (reachable_pinv hr).vinv.p7 hc with h | h
    · exact h
    · exact absurd h hb
  refine ⟨hw, fun t w h => ?_⟩
  have := (reachable_winv hr).w2 t w h
  simpa [Shared.inCond, hw] using this

/-- a woken or newly arriving worker that gets `parkMu` on a closed queue returns (nil, false) at once:
`take` reports closed and `worker.run` exits; by `closed_stable` and `closed_no_new_waiter` it can never block again -/
theorem closed_parkAndTake_false (s : Shared) (tid w : Nat) (hc : s.closed = true) (hm : s.parkMu = none) :
    (exec s tid (.pkLock w)).2 = .ret .closed ∧
    (tid ∈ s.signalled → (exec s tid (.pkWake w)).2 = .ret .closed) :=
  ⟨pkLock_closed s tid w hc hm, pkWake_closed s tid w hc hm⟩

/-! ### the property -/

/-- C05 as read in the header, for all pools, programs, schedules -/
def C05_full : Prop :=
  ∀ (n : Nat) (progs : List (List Op)), ProgsOk n progs → ∀ c, Reachable (init n progs) c →
    -- exactly once: conservation, before and after completion
    c.sh.pushed.Perm (removed c ++ items c.sh) ∧
    ((∀ t ∈ c.threads, t.pc = none) → c.sh.pushed.Perm (c.threads.flatMap Thread.returned ++ items c.sh)) ∧
    -- no lost wake-up on the global queue
    (c.sh.waiters ≠ [] → c.sh.global.size ≤ c.sh.signalled.length + b2n (inPush c.holderPC)) ∧
    c.sh.parked = b2n (isWait c.holderPC) + c.sh.waiters.length + c.sh.signalled.length ∧
    -- local work implies an awake owner
    (∀ i, i < n → 0 < (c.sh.getL i).ring.size → ∀ pc, c.pcOf i = some pc → pc.idle = false) ∧
    -- close
    (c.sh.closed = true →
      (∀ c', Reachable c c' → c'.sh.closed = true) ∧
      (∀ t w, c.pcOf t ≠ some (.pkWait w)) ∧
      (c.holderPC ≠ some .clBroadcast → c.sh.waiters = [] ∧ ∀ t w, c.pcOf t = some (.pkWake w) → t ∈ c.sh.signalled) ∧
      (c.sh.parkMu = none → ∀ tid w, (exec c.sh tid (.pkLock w)).2 = .ret .closed ∧
        (tid ∈ c.sh.signalled → (exec c.sh tid (.pkWake w)).2 = .ret .closed)))

theorem C05_holds : C05_full := by
  intro n progs hp c hr
  refine ⟨conservation hp hr, conservation_final hp hr, no_lost_signal hr, parked_exact hr,
    fun i hi hne => local_work_owner_awake hp hr hi hne, fun hc => ⟨fun c' hr' => closed_stable hr' hc,
      closed_no_new_waiter hr hc, closed_all_woken hr hc, fun hm tid w => closed_parkAndTake_false c.sh tid w hc hm⟩⟩

/-! ### non-vacuity -/

/-- a program set satisfying `ProgsOk`: two workers (take; reschedule 7; run) and a producer (schedule 1, 2; signalStop) -/
def exProgs : List (List Op) := [[.take, .pushLocal 6, .run], [.take, .run], [.push 0, .push 1, .close]]

example : ProgsOk 2 exProgs := by
  intro tid p hp op hop
  match tid, hp with
  | 0, hp => simp [exProgs] at hp; subst hp; simp at hop; rcases hop with rfl | rfl | rfl <;> simp [Op.ok]
  | 1, hp => simp [exProgs] at hp; subst hp; simp at hop; rcases hop with rfl | rfl <;> simp [Op.ok]
  | 2, hp => simp [exProgs] at hp; subst hp; simp at hop; rcases hop with rfl | rfl | rfl <;> simp [Op.ok]
  | k + 3, hp => simp [exProgs] at hp

/-- run a schedule (TEST helper: evaluation of the executable model, not a proof about all schedules) -/
def runSched (c : Cfg) : List Nat → Cfg
  | [] => c
  | t :: ts => runSched (step c t).2 ts

theorem runSched_reachable (c0 c : Cfg) (hr : Reachable c0 c) (l : List Nat) : Reachable c0 (runSched c l) := by
  induction l generalizing c with
  | nil => exact hr
  | cons t ts ih => exact ih _ (Reachable.step c t hr)

/-- a reachable configuration in which a worker waits un-signalled while the pusher holds `parkMu` with
an item queued: the hypotheses of `no_lost_signal'` are satisfiable (TEST by evaluation) -/
example : let c := runSched (init 2 exProgs) [0, 0, 0, 0, 0, 2]
    c.sh.waiters = [0] ∧ c.sh.global.size = 1 ∧ c.sh.parkMu = some 2 ∧ c.pcOf 2 = some .pushStore := by decide

/-- a reachable closed configuration with a woken worker (hypotheses of the close clauses; TEST by evaluation) -/
example : let c := runSched (init 2 exProgs) [0, 0, 0, 0, 0, 2, 2, 2, 2, 2, 2, 2, 2, 2, 2]
    c.sh.closed = true ∧ c.sh.parkMu = none ∧ 0 ∈ c.sh.signalled := by decide

end GoaktVerif.C05

/-
C18 — Undeliverable messages surface as dead letters exactly once.

"Every message that the runtime accepts for delivery but then drops (full non-blocking mailbox, unhandled
 message, actor gone when a remote tell arrives, failed coalesced remote batch) is published once as a dead
 letter carrying the original message, sender and receiver, and the dead-letter count reported by the system
 matches the number published."

Model: Model/C18.lean — drop events (local: `handleReceivedErrorWithMessage`; remote: the failure branches of
`deliverRemoteTellMessage`; batch: `enqueueCoalescedFailure` + `drainCoalescedFailures`), the dead-letter actor's
two mailboxes and its `Receive`, count requests.  A history is any list of events, so every interleaving of
concurrent droppers, of the drain goroutine and of the dead-letter actor's turns is covered.

`C18_holds : C18_full`: for EVERY history of drop events, drain steps, dead-letter-actor turns and count requests
(fan-out queue of any capacity, hand-offs to a full queue included — since fix f8d2f6b they are dead-lettered
inline; before it that was finding C18-F1), after quiescence the published dead letters are a permutation of exactly
the dead letters owed (one per dropped user message, original message / sender / receiver / reason), the total
counter equals the number published, and every per-receiver counter equals the number published for that receiver.  `count_reply_*`: every count the system reports is the
number published when the request is served.
-/
import GoaktVerif.Model.C18
import GoaktVerif.Spec.C18
import GoaktVerif.Lemmas.C18

namespace GoaktVerif.C18
open GoaktVerif.Model.C18 GoaktVerif.Spec.C18

/-- a freshly started system whose fan-out queue holds `cap` batches (256 in goakt) -/
def init (cap : Nat) : Sys := { fqCap := cap }

theorem inv_init (cap : Nat) : Inv (init cap) [] :=
  ⟨rfl, rfl, rfl, by intro d; simp [init, pendBox, pendFq], rfl, by intro r; simp [init, lookupN, tally],
   by intro c hc; simp [init] at hc, by intro c hc; simp [init] at hc⟩

/-! ### quiescence -/

theorem inv_drain (s : Sys) (exp : List DL) (hi : Inv s exp) :
    Inv (drain s) exp ∧ (drain s).fq.length = s.fq.length - 1 := by
  have h := inv_step s exp .drain hi rfl
  simp only [step, expectedOf, List.append_nil] at h
  refine ⟨h, ?_⟩
  cases hfq : s.fq with
  | nil => simp [drain, hfq]
  | cons b rest =>
    have hfold := foldl_drainMsg b { s with fq := rest } (by simpa using hi.up1) (by simpa using hi.up2)
    simp [drain, hfq, hfold]

theorem inv_drainAll (n : Nat) (s : Sys) (exp : List DL) (hi : Inv s exp) :
    Inv (drainAll n s) exp ∧ (drainAll n s).fq.length = s.fq.length - n := by
  induction n generalizing s with
  | zero => exact ⟨hi, by simp [drainAll]⟩
  | succ n ih =>
    obtain ⟨h1, h2⟩ := inv_drain s exp hi
    obtain ⟨h3, h4⟩ := ih (drain s) h1
    exact ⟨h3, by rw [drainAll, h4, h2]; omega⟩

theorem handle_boxes (s : Sys) (c : Cmd) :
    (handle s c).sysBox = s.sysBox ∧ (handle s c).userBox = s.userBox ∧ (handle s c).fq = s.fq := by
  cases c with
  | send d => simp [handle]
  | count a => cases a <;> simp [handle]
  | publishAll => simp [handle]
  | postStart => simp [handle]

theorem dlStep_boxes (s : Sys) :
    (dlStep s).sysBox.length + (dlStep s).userBox.length = s.sysBox.length + s.userBox.length - 1
    ∧ (dlStep s).fq = s.fq := by
  unfold dlStep
  cases hsb : s.sysBox with
  | cons c rest =>
    cases c with
    | send d => simp [handle]
    | count a => cases a <;> simp [handle]
    | publishAll => simp [handle]
    | postStart => simp [handle]
  | nil =>
    cases hub : s.userBox with
    | cons c rest =>
      cases c with
      | send d => simp [handle]
      | count a => cases a <;> simp [handle]
      | publishAll => simp [handle]
      | postStart => simp [handle]
    | nil => simp [hsb, hub]

theorem inv_stepAll (n : Nat) (s : Sys) (exp : List DL) (hi : Inv s exp) :
    Inv (stepAll n s) exp
    ∧ (stepAll n s).sysBox.length + (stepAll n s).userBox.length = s.sysBox.length + s.userBox.length - n
    ∧ (stepAll n s).fq = s.fq := by
  induction n generalizing s with
  | zero => exact ⟨hi, by simp [stepAll], rfl⟩
  | succ n ih =>
    have h1 := inv_step s exp .dlStep hi rfl
    simp only [step, expectedOf, List.append_nil] at h1
    obtain ⟨hb, hf⟩ := dlStep_boxes s
    obtain ⟨h3, h4, h5⟩ := ih (dlStep s) h1
    exact ⟨h3, by rw [stepAll, h4, hb]; omega, by rw [stepAll, h5, hf]⟩

/-- after quiescence nothing is pending and the invariant still holds -/
theorem inv_quiesce (s : Sys) (exp : List DL) (hi : Inv s exp) :
    Inv (quiesce s) exp ∧ (quiesce s).sysBox = [] ∧ (quiesce s).userBox = [] ∧ (quiesce s).fq = [] := by
  unfold quiesce
  dsimp only
  obtain ⟨h1, h2⟩ := inv_drainAll s.fq.length s exp hi
  obtain ⟨h3, h4, h5⟩ := inv_stepAll ((drainAll s.fq.length s).sysBox.length + (drainAll s.fq.length s).userBox.length)
    (drainAll s.fq.length s) exp h1
  have hfq : (drainAll s.fq.length s).fq = [] := List.eq_nil_of_length_eq_zero (by omega)
  refine ⟨h3, ?_, ?_, by simpa [hfq] using h5⟩
  · exact List.eq_nil_of_length_eq_zero (by omega)
  · exact List.eq_nil_of_length_eq_zero (by omega)

/-! ### the property -/

/-- the events of the property's universe (see `okEv`): everything but the two dead-letter-actor commands that are
    no traffic -/
def traffic : Ev → Bool
  | .publishAll => false
  | .restartDL => false
  | _ => true

theorem guarded_of_traffic (evs : List Ev) (s : Sys) (h : evs.all traffic = true) : guarded s evs = true := by
  induction evs generalizing s with
  | nil => rfl
  | cons e es ih =>
    simp only [List.all_cons, Bool.and_eq_true] at h
    simp only [guarded, Bool.and_eq_true]
    refine ⟨?_, ih _ h.2⟩
    cases e <;> simp_all [okEv, traffic]

/-- The full statement: for EVERY history of drop events (all four causes, including hand-offs that find the
    fan-out queue full), drain-goroutine steps, dead-letter-actor turns and count requests on a running system with a
    fan-out queue of ANY capacity: once the system is quiescent the published dead letters are exactly (as a multiset)
    the dead letters owed, the total counter equals the number published and every per-receiver counter its tally. -/
def C18_full : Prop :=
  ∀ (cap : Nat) (evs : List Ev), evs.all traffic = true →
    let s := quiesce (run (init cap) evs)
    s.published.Perm (expected evs) ∧ s.counter = s.published.length ∧ (∀ r, lookupN s.per r = tally s.published r)

/-- the detailed form, stated with the step-wise guard -/
theorem C18_quiescent (cap : Nat) (evs : List Ev) (hg : guarded (init cap) evs = true) :
    let s := quiesce (run (init cap) evs)
    s.published.Perm (expected evs)
    ∧ s.counter = s.published.length
    ∧ (∀ r, lookupN s.per r = tally s.published r)
    ∧ s.sysBox = [] ∧ s.fq = [] := by
  have h1 := inv_run evs (init cap) [] (inv_init cap) hg
  simp only [List.nil_append] at h1
  obtain ⟨hi, hs, _, hf⟩ := inv_quiesce _ _ h1
  refine ⟨?_, hi.cnt, hi.per, hs, hf⟩
  rw [List.perm_iff_count]
  intro d
  have := hi.owed d
  simpa [hs, hf, pendBox, pendFq] using this

/-- THE THEOREM (since fix f8d2f6b the statement holds in full; before it, a batch handed to a full fan-out queue
    got no dead letter: finding C18-F1, `C18_refuted` in the history of this file). -/
theorem C18_holds : C18_full := by
  intro cap evs ht
  have h := C18_quiescent cap evs (guarded_of_traffic evs _ ht)
  exact ⟨h.1, h.2.1, h.2.2.1⟩

/-- regression for C18-F1 (queue of capacity 1, two failed batches handed over before the drain goroutine runs):
    the second batch, which finds the queue full, is dead-lettered inline — both dead letters are published -/
def overflowWitness : List Ev :=
  [.batchFail [⟨some 7, some 1, some 3⟩], .batchFail [⟨some 7, some 2, some 3⟩]]

theorem overflow_regression :
    (quiesce (run (init 1) overflowWitness)).published = [⟨2, 3, 7, .batch⟩, ⟨1, 3, 7, .batch⟩]
    ∧ expected overflowWitness = [⟨1, 3, 7, .batch⟩, ⟨2, 3, 7, .batch⟩]
    ∧ (quiesce (run (init 1) overflowWitness)).counter = 2 := by decide

/-- a hand-off that finds the queue full (or the system shutting down) is published inline, message by message -/
theorem full_queue_inline (s : Sys) (ms : List BatchMsg) (h1 : s.dlRunning = true) (h2 : s.guardianRunning = true)
    (hfull : s.shuttingDown = true ∨ s.fqCap ≤ s.fq.length) :
    batchFail s ms = { s with sysBox := s.sysBox ++ (ms.filterMap batchDL).map Cmd.send } := by
  unfold batchFail
  rcases hfull with h | h
  · simp [h, foldl_drainMsg ms s h1 h2]
  · by_cases hs : s.shuttingDown <;> simp [hs, h, foldl_drainMsg ms s h1 h2]

/-- non-trivial instance of the guard: all four causes, interleaved with dead-letter turns and a count request -/
def sampleHistory : List Ev :=
  [.localDrop true .user (some 5) 9 100 .mailboxFull, .localDrop true .user none 9 101 .unhandled, .dlStep,
   .remoteDrop (some 4) (some 8) (some 102) .notFound, .askCount none,
   .batchFail [⟨some 8, some 103, none⟩, ⟨none, some 104, none⟩, ⟨some 8, none, some 4⟩], .dlStep, .drain]

example : guarded (init 256) sampleHistory = true := by decide
example : (quiesce (run (init 256) sampleHistory)).published
    = [⟨100, 5, 9, .mailboxFull⟩, ⟨101, 0, 9, .unhandled⟩, ⟨102, 4, 8, .notFound⟩, ⟨103, 0, 8, .batch⟩] := by decide
example : (quiesce (run (init 256) sampleHistory)).replies = [4] := by decide

/-- exactly once, spelled out: in a guarded history every owed dead letter is published as many times as it
    is owed — in particular a dead letter owed once appears once, and one not owed never appears -/
theorem C18_once (cap : Nat) (evs : List Ev) (hg : guarded (init cap) evs = true) (d : DL) :
    (quiesce (run (init cap) evs)).published.count d = (expected evs).count d :=
  List.perm_iff_count.mp (C18_quiescent cap evs hg).1 d

/-- every total count the system reports is the number of dead letters published when the request is served,
    at ANY point of a guarded history (not only at quiescence) -/
theorem count_reply_total (cap : Nat) (evs : List Ev) (hg : guarded (init cap) evs = true) (rest : List Cmd)
    (h1 : (run (init cap) evs).sysBox = []) (h2 : (run (init cap) evs).userBox = .count none :: rest) :
    (dlStep (run (init cap) evs)).replies = (run (init cap) evs).replies ++ [(run (init cap) evs).published.length] := by
  have hi := inv_run evs (init cap) [] (inv_init cap) hg
  simp [dlStep, h1, h2, handle, hi.cnt]

theorem count_reply_receiver (cap : Nat) (evs : List Ev) (hg : guarded (init cap) evs = true) (rest : List Cmd) (a : Addr)
    (h1 : (run (init cap) evs).sysBox = []) (h2 : (run (init cap) evs).userBox = .count (some a) :: rest) :
    (dlStep (run (init cap) evs)).replies
      = (run (init cap) evs).replies ++ [tally (run (init cap) evs).published a] := by
  have hi := inv_run evs (init cap) [] (inv_init cap) hg
  simp [dlStep, h1, h2, handle, hi.per]

/-- the invariant behind the above, for every prefix of a guarded history: counter = number published,
    and nothing is ever published that is not owed -/
theorem C18_invariant (cap : Nat) (evs : List Ev) (hg : guarded (init cap) evs = true) :
    (run (init cap) evs).counter = (run (init cap) evs).published.length
    ∧ ∀ d, (run (init cap) evs).published.count d ≤ (expected evs).count d := by
  have hi := inv_run evs (init cap) [] (inv_init cap) hg
  refine ⟨hi.cnt, ?_⟩
  intro d
  have := hi.owed d
  simp only [List.nil_append, List.count_append] at this
  omega

/-! ### what the guard excludes, as theorems about the model -/

/-- `PublishDeadletters` re-publishes the latest dead letter of every receiver without counting it -/
theorem publishAll_republishes :
    let s := quiesce (run (init 256) [.localDrop true .user none 9 100 .unhandled, .dlStep, .publishAll])
    s.published = [⟨100, 0, 9, .unhandled⟩, ⟨100, 0, 9, .unhandled⟩] ∧ s.counter = 1 := by decide

/-- a restart of the dead-letter actor zeroes the counters but not the stream -/
theorem restart_resets_count :
    let s := quiesce (run (init 256) [.localDrop true .user none 9 100 .unhandled, .dlStep, .restartDL])
    s.published.length = 1 ∧ s.counter = 0 := by decide

/-- best effort while the dead-letter actor is not running: a drop produces nothing -/
theorem drop_when_down (s : Sys) (h : s.dlRunning = false) (hs : Bool) (k : Kind) (sd : Option Addr) (r : Addr) (m : Nat)
    (c : Cause) : localDrop s hs k sd r m c = s := by
  cases hs <;> cases k <;> simp [localDrop, tellDL, h]

/-- control traffic (PostStart, Terminated, SendDeadletter) never becomes a dead letter -/
theorem control_not_deadlettered (s : Sys) (k : Kind) (hk : k ≠ .user) (sd : Option Addr) (r : Addr) (m : Nat) (c : Cause) :
    localDrop s true k sd r m c = s := by
  cases k <;> simp [localDrop] at hk ⊢

end GoaktVerif.C18

/-
C32 — Relocation places every actor and grain of a departed node exactly once.

"For any departed-node state and any set of survivors with roles and current loads, the relocation
 plan assigns every relocatable actor to exactly one survivor that advertises its role, or reports
 it unplaceable exactly when no survivor does; singletons go to the leader; each relocatable grain
 is assigned exactly once; non-relocatable and system entries are not assigned; and role-less actors
 land on a least-loaded target. Redistribution after a survivor becomes unreachable keeps these
 rules."

Model: `Model/C32.lean` (hand-written, mirrors actor/relocation_worker.go and internal/chunk).
The Go code ranges over maps; the iteration ORDER is an explicit argument and every theorem below
is for EVERY order, every departed state, every survivor set / role sets, every base loads.

Reading of the clauses against the code
* "assigns" = the entry sits in the share of a target AND that target's dispatch
  (`enqueueRelocation` → `recreateActorFromWire`/`recreateSingletonFromWire`) goes on to respawn it.
  `allocateActors` itself does not look at the relocatable flag or the name: the snapshot builders
  drop such entries upstream and the target's dispatch drops them downstream (`recreateGate`), so a
  non-relocatable or system entry is never *recreated* wherever it sits (clause `C32_gate`).
* "current load" of a target = its base load plus the number of entries of this plan already handed
  to it (`AllocInv.loads_eq`), which is what the code's `loads` slice holds.

Tie: differential of the real functions against these definitions (harness/verifdrv/c32), with an
order-witness search for the two map-ordered functions; see design/C32.md.
-/
import GoaktVerif.Gen.C32
import GoaktVerif.Model.C32
import GoaktVerif.Spec.C32
import GoaktVerif.Lemmas.C32
import GoaktVerif.Lemmas.C32Alloc
import GoaktVerif.Lemmas.C32Grains
import GoaktVerif.Lemmas.C32Redis

namespace GoaktVerif.C32
open GoaktVerif.Model.C32

/-! ### small list facts -/

theorem mem_flatten_iff_getD {α : Type} (ss : List (List α)) (a : α) :
    a ∈ ss.flatten ↔ ∃ i, i < ss.length ∧ a ∈ ss.getD i [] := by
  induction ss with
  | nil => simp
  | cons s ss ih =>
    simp only [List.flatten_cons, List.mem_append, ih, List.length_cons]
    constructor
    · rintro (h | ⟨i, hi, h⟩)
      · exact ⟨0, by omega, by simpa using h⟩
      · exact ⟨i + 1, by omega, by simpa using h⟩
    · rintro ⟨i, hi, h⟩
      cases i with
      | zero => left; simpa using h
      | succ i => right; exact ⟨i, by omega, by simpa using h⟩

theorem getD_nil_of_le {α : Type} (ss : List (List α)) (i : Nat) (h : ss.length ≤ i) : ss.getD i [] = [] := by
  induction ss generalizing i with
  | nil => simp
  | cons s ss ih =>
    cases i with
    | zero => simp at h
    | succ i => rw [List.getD_cons_succ]; exact ih i (by simpa using h)

/-- in a duplicate-free concatenation an element belongs to one piece only -/
theorem nodup_flatten_unique {α : Type} (ss : List (List α)) (hn : ss.flatten.Nodup) (a : α) (i j : Nat)
    (hi : a ∈ ss.getD i []) (hj : a ∈ ss.getD j []) : i = j := by
  induction ss generalizing i j with
  | nil => simp at hi
  | cons s ss ih =>
    rw [List.flatten_cons, List.nodup_append] at hn
    obtain ⟨_, hn2, hdis⟩ := hn
    cases i with
    | zero =>
      cases j with
      | zero => rfl
      | succ j =>
        exfalso
        have h1 : a ∈ s := by simpa using hi
        have h2 : a ∈ ss.flatten := by
          rw [List.getD_cons_succ] at hj
          by_cases hjl : j < ss.length
          · exact (mem_flatten_iff_getD ss a).2 ⟨j, hjl, hj⟩
          · rw [getD_nil_of_le ss j (by omega)] at hj; cases hj
        exact hdis a h1 a h2 rfl
    | succ i =>
      cases j with
      | zero =>
        exfalso
        have h1 : a ∈ s := by simpa using hj
        have h2 : a ∈ ss.flatten := by
          rw [List.getD_cons_succ] at hi
          by_cases hil : i < ss.length
          · exact (mem_flatten_iff_getD ss a).2 ⟨i, hil, hi⟩
          · rw [getD_nil_of_le ss i (by omega)] at hi; cases hi
        exact hdis a h1 a h2 rfl
      | succ j =>
        rw [List.getD_cons_succ] at hi hj
        rw [ih hn2 i j hi hj]

/-! ### A. allocateActors: partition, eligibility, unplaceable, singletons -/

def C32_actors : Prop :=
  ∀ (leaderRoles : List Role) (peers : List (List Role)) (base : List Nat) (order : List Actor),
    let targets := leaderRoles :: peers
    let out := allocateActors leaderRoles peers base order
    let lead := out.1
    let shares := out.2.1
    let unpl := out.2.2
    -- one share per target (index 0 = leader, i+1 = peers[i])
    shares.length = targets.length
    -- singletons go to the leader, which also recreates its own balanced share
    ∧ lead = order.filter (·.singleton) ++ shares.headD []
    -- every entry lands in exactly one bucket; nothing is invented
    ∧ order.Perm (order.filter (·.singleton) ++ shares.flatten ++ unpl)
    -- a shared entry is a non-singleton on a target advertising its role
    ∧ (∀ i a, a ∈ shares.getD i [] → a.singleton = false ∧ eligibleForRole (targets.getD i []) a.role = true)
    -- unplaceable = exactly the non-singletons no target can host
    ∧ (∀ a, a ∈ unpl ↔ a ∈ order ∧ a.singleton = false ∧ ∀ t ∈ targets, eligibleForRole t a.role = false)
    -- every non-singleton some target can host is in a share
    ∧ (∀ a, a ∈ order → a.singleton = false → (∃ t ∈ targets, eligibleForRole t a.role = true) →
        ∃ i, i < targets.length ∧ a ∈ shares.getD i [])
    -- with distinct entries (map keys): at most one share, and never both shared and unplaceable
    ∧ (order.Nodup → ∀ i j a, a ∈ shares.getD i [] → a ∈ shares.getD j [] → i = j)
    ∧ (order.Nodup → ∀ i a, a ∈ shares.getD i [] → a ∉ unpl)

theorem C32_actors_holds : C32_actors := by
  intro leaderRoles peers base order targets out lead shares unpl
  have inv := allocInv_run targets base order
  have hperm := alloc_partition targets base order
  have hshares : shares = (allocRun targets base order).shares := rfl
  have hunpl : unpl = (allocRun targets base order).unplaceable := rfl
  have hlead : lead = (allocRun targets base order).singles ++ (allocRun targets base order).shares.headD [] := rfl
  have hperm' : order.Perm (order.filter (·.singleton) ++ shares.flatten ++ unpl) := by
    have := hperm
    simp only [inv.singles_eq] at this
    exact this
  have hunpl_iff : ∀ a, a ∈ unpl ↔ a ∈ order ∧ a.singleton = false ∧ ∀ t ∈ targets, eligibleForRole t a.role = false := by
    intro a
    rw [hunpl, inv.unpl_eq, List.mem_filter]
    simp only [orphan, eligibleSomewhere, Bool.and_eq_true, Bool.not_eq_eq_eq_not, Bool.not_true,
      List.any_eq_false]
    constructor
    · rintro ⟨h1, h2, h3⟩
      exact ⟨h1, h2, fun t ht => by simpa using h3 t ht⟩
    · rintro ⟨h1, h2, h3⟩
      exact ⟨h1, h2, fun t ht => by simpa using h3 t ht⟩
  refine ⟨inv.len_shares, ?_, hperm', ?_, hunpl_iff, ?_, ?_, ?_⟩
  · rw [hlead, inv.singles_eq, hshares]
  · intro i a ha
    have := inv.elig i a ha
    exact ⟨this.2, this.1⟩
  · intro a ha hs ⟨t, ht, hte⟩
    have hmem := hperm'.subset ha
    simp only [List.mem_append, List.mem_filter] at hmem
    rcases hmem with (⟨_, h⟩ | h) | h
    · rw [hs] at h; cases h
    · exact (mem_flatten_iff_getD shares a).1 h |>.imp fun i hi => ⟨by rw [← inv.len_shares]; exact hi.1, hi.2⟩
    · have := ((hunpl_iff a).1 h).2.2 t ht
      rw [this] at hte; cases hte
  · intro hnd i j a hi hj
    have hn : (order.filter (·.singleton) ++ shares.flatten ++ unpl).Nodup := hperm'.nodup_iff.1 hnd
    rw [List.nodup_append] at hn
    have hn1 := hn.1
    rw [List.nodup_append] at hn1
    exact nodup_flatten_unique shares hn1.2.1 a i j hi hj
  · intro hnd i a hi hu
    have hn : (order.filter (·.singleton) ++ shares.flatten ++ unpl).Nodup := hperm'.nodup_iff.1 hnd
    rw [List.nodup_append] at hn
    have hil : i < shares.length := by
      by_cases h : i < shares.length
      · exact h
      · rw [getD_nil_of_le shares i (by omega)] at hi; cases hi
    have hfl : a ∈ shares.flatten := (mem_flatten_iff_getD shares a).2 ⟨i, hil, hi⟩
    exact hn.2.2 a (List.mem_append_right _ hfl) a hu rfl

/-! ### B. least-loaded placement, at the actor's turn -/

def C32_least_loaded : Prop :=
  ∀ (leaderRoles : List Role) (peers : List (List Role)) (base : List Nat) (pre post : List Actor) (a : Actor),
    a.singleton = false →
    let targets := leaderRoles :: peers
    -- state of the loop when `a`'s turn comes, and at the end
    let st := allocRun targets base pre
    let fin := allocRun targets base (pre ++ a :: post)
    -- the load the code compares = base load + entries of this plan already handed to the target
    (∀ j, j < targets.length →
        st.loads.getD j 0 = (initLoads targets.length base).getD j 0 + (st.shares.getD j []).length)
    ∧ (∀ i, pickTarget targets st.loads a.role = some i →
        i < targets.length
        ∧ eligibleForRole (targets.getD i []) a.role = true
        ∧ a ∈ fin.shares.getD i []
        -- minimal current load among the targets advertising the role, lowest index on ties
        ∧ (∀ j, j < targets.length → eligibleForRole (targets.getD j []) a.role = true →
            st.loads.getD i 0 ≤ st.loads.getD j 0 ∧ (st.loads.getD i 0 = st.loads.getD j 0 → i ≤ j))
        -- hence for a role-less actor: minimal among ALL targets
        ∧ (a.role = 0 → ∀ j, j < targets.length → st.loads.getD i 0 ≤ st.loads.getD j 0))
    ∧ (pickTarget targets st.loads a.role = none →
        a ∈ fin.unplaceable ∧ ∀ j, j < targets.length → eligibleForRole (targets.getD j []) a.role = false)

theorem C32_least_loaded_holds : C32_least_loaded := by
  intro leaderRoles peers base pre post a hs targets st fin
  have inv := allocInv_run targets base pre
  have hfin : fin = post.foldl (allocStep targets) (allocStep targets st a) := by
    show allocRun targets base (pre ++ a :: post) = _
    rw [allocRun_append]; rfl
  refine ⟨inv.loads_eq, ?_, ?_⟩
  · intro i hp
    have hspec := pickUpTo_spec targets st.loads a.role targets.length
    have hp' : pickUpTo targets st.loads a.role targets.length = some i := hp
    rw [hp'] at hspec
    obtain ⟨hi, hie, hmin⟩ := hspec
    have hmin' : ∀ j, j < targets.length → eligibleForRole (targets.getD j []) a.role = true →
        st.loads.getD i 0 ≤ st.loads.getD j 0 ∧ (st.loads.getD i 0 = st.loads.getD j 0 → i ≤ j) := by
      intro j hj hje
      rcases hmin j hj hje with h | ⟨h1, h2⟩
      · exact ⟨by omega, fun h' => by omega⟩
      · exact ⟨by omega, fun _ => h2⟩
    refine ⟨hi, hie, ?_, hmin', ?_⟩
    · rw [hfin]
      apply allocFold_mono
      have hstep : (allocStep targets st a).shares = appendAt st.shares i a := by
        unfold allocStep; simp only [hs, Bool.false_eq_true, ↓reduceIte, hp]
      rw [hstep, appendAt_getD]
      have : i < st.shares.length := by rw [inv.len_shares]; exact hi
      simp [this]
    · intro hr j hj
      exact (hmin' j hj (by simp [eligibleForRole, hr])).1
  · intro hp
    have hspec := pickUpTo_spec targets st.loads a.role targets.length
    have hp' : pickUpTo targets st.loads a.role targets.length = none := hp
    rw [hp'] at hspec
    refine ⟨?_, hspec⟩
    rw [hfin]
    apply allocFold_unpl_mono
    unfold allocStep
    simp only [hs, Bool.false_eq_true, ↓reduceIte, hp]
    simp

/-! ### C. grains -/

def C32_grains : Prop :=
  ∀ (totalPeers : Nat) (order : List Grain), 0 < totalPeers →
    let rel := relocatableGrains order
    let out := allocateGrains totalPeers rel
    let lead := out.1
    let shares := out.2
    -- grains that disabled relocation are not assigned, all others are considered
    (∀ g, g ∈ rel ↔ g ∈ order ∧ g.disabled = false)
    ∧ (order.Nodup → rel.Nodup)
    -- the leader's grains followed by the peers' shares (1..) are the relocatable grains, once each,
    -- nothing else (share 0 is the leader's and is already inside `lead`)
    ∧ lead ++ (shares.drop 1).flatten = rel
    -- no share without a target: shares 1.. map to peers[0..totalPeers-2]
    ∧ shares.length ≤ totalPeers
    -- even split: every share has `quotient` grains
    ∧ (∀ c ∈ shares, c.length = rel.length / totalPeers)

theorem C32_grains_holds : C32_grains := by
  intro t order ht rel out lead shares
  have h := allocateGrains_spec t rel ht
  refine ⟨?_, ?_, h.1, h.2.1, h.2.2.1⟩
  · intro g
    simp [rel, relocatableGrains, List.mem_filter]
  · intro hn
    exact hn.filter _

/-! ### D. redistribution after a target became unreachable -/

def C32_redistribute : Prop :=
  ∀ (requests : List Request) (survivors : List (List Role)) (leaderRoles : List Role),
    let actors := requestActors requests
    let grains := requestGrains requests
    let r := redistribute requests survivors leaderRoles
    r.actorShares.length = survivors.length
    -- every unsent actor: one survivor share, or the leader, or the failure record; nothing invented
    ∧ actors.Perm (r.actorShares.flatten ++ r.leaderActors ++ r.failedActors)
    ∧ (∀ i a, a ∈ r.actorShares.getD i [] → eligibleForRole (survivors.getD i []) a.role = true)
    -- leader fallback only when no survivor advertises the role and the leader does
    ∧ (∀ a, a ∈ r.leaderActors ↔ a ∈ actors ∧ (∀ t ∈ survivors, eligibleForRole t a.role = false)
          ∧ eligibleForRole leaderRoles a.role = true)
    -- failure recorded iff nobody (survivors and leader) advertises the role
    ∧ (∀ a, a ∈ r.failedActors ↔ a ∈ actors ∧ (∀ t ∈ survivors, eligibleForRole t a.role = false)
          ∧ eligibleForRole leaderRoles a.role = false)
    ∧ (actors.Nodup → ∀ i j a, a ∈ r.actorShares.getD i [] → a ∈ r.actorShares.getD j [] → i = j)
    -- every unsent grain goes to exactly one survivor, or to the leader when nobody survives
    ∧ (r.grainShares.flatten ++ r.leaderGrains).Perm grains
    ∧ (survivors ≠ [] → r.grainShares.length = survivors.length ∧ r.leaderGrains = [])
    ∧ (survivors = [] → r.grainShares = [] ∧ r.leaderGrains = grains)

theorem C32_redistribute_holds : C32_redistribute := by
  intro requests survivors leaderRoles actors grains r
  have inv := reassignInv_run survivors leaderRoles actors
  obtain ⟨hf1, hf2, hf3⟩ := redistribute_fields requests survivors leaderRoles
  have hst : (reassignByRole requests survivors leaderRoles).1 =
      actors.foldl (reassignStep survivors leaderRoles) (reassignInit survivors.length) := rfl
  rw [hst] at hf1 hf2 hf3
  have hperm : actors.Perm (r.actorShares.flatten ++ r.leaderActors ++ r.failedActors) := by
    have h3 := perm_three (fun a : Actor => eligibleSomewhere survivors a.role)
      (leaderOnly survivors leaderRoles) (nobody survivors leaderRoles)
      (by
        intro a
        simp only [leaderOnly, nobody]
        cases eligibleSomewhere survivors a.role <;> cases eligibleForRole leaderRoles a.role <;> simp) actors
    refine h3.trans ?_
    show List.Perm _ ((redistribute requests survivors leaderRoles).actorShares.flatten ++
      (redistribute requests survivors leaderRoles).leaderActors ++ (redistribute requests survivors leaderRoles).failedActors)
    rw [hf1, hf2, hf3, inv.leader_eq, inv.failed_eq]
    exact List.Perm.append_right _ (List.Perm.append_right _ inv.placed_perm.symm)
  have hnone : ∀ a : Actor, eligibleSomewhere survivors a.role = false ↔ ∀ t ∈ survivors, eligibleForRole t a.role = false := by
    intro a; simp [eligibleSomewhere, List.any_eq_false]
  refine ⟨?_, hperm, ?_, ?_, ?_, ?_, ?_, ?_, ?_⟩
  · show (redistribute requests survivors leaderRoles).actorShares.length = _
    rw [hf1]; exact inv.len_shares
  · intro i a ha
    have ha' : a ∈ (redistribute requests survivors leaderRoles).actorShares.getD i [] := ha
    rw [hf1] at ha'
    exact inv.elig i a ha'
  · intro a
    show a ∈ (redistribute requests survivors leaderRoles).leaderActors ↔ _
    rw [hf2, inv.leader_eq, List.mem_filter]
    simp only [leaderOnly, Bool.and_eq_true, Bool.not_eq_eq_eq_not, Bool.not_true, hnone]
  · intro a
    show a ∈ (redistribute requests survivors leaderRoles).failedActors ↔ _
    rw [hf3, inv.failed_eq, List.mem_filter]
    simp only [nobody, Bool.and_eq_true, Bool.not_eq_eq_eq_not, Bool.not_true, hnone]
  · intro hnd i j a hi hj
    have hn := hperm.nodup_iff.1 hnd
    rw [List.nodup_append] at hn
    have hn1 := hn.1
    rw [List.nodup_append] at hn1
    exact nodup_flatten_unique r.actorShares hn1.1 a i j hi hj
  · show ((redistribute requests survivors leaderRoles).grainShares.flatten ++
      (redistribute requests survivors leaderRoles).leaderGrains).Perm grains
    simp only [redistribute, reassignByRole]
    split
    · simp only [List.flatten_nil, List.nil_append]; exact List.Perm.refl _
    · rename_i hne
      have hk : 0 < survivors.length := Nat.pos_of_ne_zero hne
      have := rrLoop_perm survivors.length hk (requestGrains requests) 0 (List.replicate survivors.length [])
        (by simp)
      simpa using this
  · intro hne
    have hl : survivors.length ≠ 0 := by
      intro h; exact hne (List.eq_nil_of_length_eq_zero h)
    show (redistribute requests survivors leaderRoles).grainShares.length = _ ∧
      (redistribute requests survivors leaderRoles).leaderGrains = []
    simp only [redistribute, hl, ↓reduceIte, rrLoop_length, List.length_replicate, and_self]
  · intro he
    show (redistribute requests survivors leaderRoles).grainShares = [] ∧
      (redistribute requests survivors leaderRoles).leaderGrains = grains
    subst he
    simp [redistribute, reassignByRole, grains]

/-- who survives an unreachable target: exactly the peers whose remoting endpoint differs from the
    target's in host OR port (a peer sharing only the host, or only the port, is a survivor), in the
    original order; so the redistribution rules above range over all of them -/
def C32_survivors : Prop :=
  ∀ (peers : List Peer) (target : Peer),
    (∀ p, p ∈ survivingPeersExcept peers target ↔ p ∈ peers ∧ (p.host ≠ target.host ∨ p.port ≠ target.port))
    ∧ (survivingPeersExcept peers target).Sublist peers
    ∧ (∀ (requests : List Request) (leaderRoles : List Role) (a : Actor),
        let survivors := (survivingPeersExcept peers target).map (·.roles)
        a ∈ (redistribute requests survivors leaderRoles).failedActors →
          ∀ p ∈ peers, (p.host ≠ target.host ∨ p.port ≠ target.port) → eligibleForRole p.roles a.role = false)

theorem C32_survivors_holds : C32_survivors := by
  intro peers target
  have hmem : ∀ p, p ∈ survivingPeersExcept peers target ↔ p ∈ peers ∧ (p.host ≠ target.host ∨ p.port ≠ target.port) := by
    intro p
    simp only [survivingPeersExcept, List.mem_filter, Bool.not_eq_eq_eq_not, Bool.not_true, Bool.and_eq_false_imp,
      beq_iff_eq, beq_eq_false_iff_ne, ne_eq]
    constructor
    · rintro ⟨h1, h2⟩
      refine ⟨h1, ?_⟩
      by_cases hh : p.host = target.host
      · right; exact h2 hh
      · left; exact hh
    · rintro ⟨h1, h2⟩
      refine ⟨h1, ?_⟩
      intro hh
      rcases h2 with h | h
      · exact absurd hh h
      · exact h
  refine ⟨hmem, List.filter_sublist, ?_⟩
  intro requests leaderRoles a survivors hfail p hp hdiff
  have hr := C32_redistribute_holds requests survivors leaderRoles
  simp only at hr
  obtain ⟨_, _, _, _, hfailed, _⟩ := hr
  have := ((hfailed a).1 hfail).2.1 p.roles
    (List.mem_map.2 ⟨p, (hmem p).2 ⟨hp, hdiff⟩, rfl⟩)
  exact this

/-- redistribution places each unsent actor on a least-loaded eligible survivor at its turn
    (load = number of unsent actors already reassigned to that survivor), lowest index on ties -/
def C32_redistribute_least : Prop :=
  ∀ (survivors : List (List Role)) (leaderRoles : List Role) (pre post : List Actor) (a : Actor),
    let st := pre.foldl (reassignStep survivors leaderRoles) (reassignInit survivors.length)
    let fin := (pre ++ a :: post).foldl (reassignStep survivors leaderRoles) (reassignInit survivors.length)
    ∀ i, leastLoadedEligibleSurvivor survivors st.shares a.role = some i →
      i < survivors.length
      ∧ eligibleForRole (survivors.getD i []) a.role = true
      ∧ a ∈ fin.shares.getD i []
      ∧ (∀ j, j < survivors.length → eligibleForRole (survivors.getD j []) a.role = true →
          (st.shares.getD i []).length ≤ (st.shares.getD j []).length
          ∧ ((st.shares.getD i []).length = (st.shares.getD j []).length → i ≤ j))

theorem C32_redistribute_least_holds : C32_redistribute_least := by
  intro survivors leaderRoles pre post a st fin i hp
  have inv := reassignInv_run survivors leaderRoles pre
  have hspec := pickUpTo_spec survivors (st.shares.map List.length) a.role survivors.length
  have hp' : pickUpTo survivors (st.shares.map List.length) a.role survivors.length = some i := hp
  rw [hp'] at hspec
  obtain ⟨hi, hie, hmin⟩ := hspec
  refine ⟨hi, hie, ?_, ?_⟩
  · have hfin : fin = post.foldl (reassignStep survivors leaderRoles) (reassignStep survivors leaderRoles st a) := by
      show (pre ++ a :: post).foldl _ _ = _
      rw [List.foldl_append]; rfl
    rw [hfin]
    apply reassignFold_mono
    have hstep : (reassignStep survivors leaderRoles st a).shares = appendAt st.shares i a := by
      unfold reassignStep; rw [hp]
    rw [hstep, appendAt_getD]
    have : i < st.shares.length := by rw [inv.len_shares]; exact hi
    simp [this]
  · intro j hj hje
    have := hmin j hj hje
    rw [getD_map_length, getD_map_length] at this
    rcases this with h | ⟨h1, h2⟩
    · exact ⟨by omega, fun h' => by omega⟩
    · exact ⟨by omega, fun _ => h2⟩

/-! ### E. what a target does with an entry of its share -/

def C32_gate : Prop :=
  ∀ a : Actor,
    -- system entries and non-relocatable (non-singleton) entries are never recreated, wherever they sit
    ((a.system = true ∨ (a.singleton = false ∧ a.relocatable = false)) → recreateGate a = false)
    -- relocatable non-system entries always are
    ∧ (a.system = false → a.relocatable = true → recreateGate a = true)

theorem C32_gate_holds : C32_gate := by
  intro a
  unfold recreateGate
  cases a.system <;> cases a.singleton <;> cases a.relocatable <;> simp

/-- both ends of the filter: whatever lives on the departed node (`pop`), the snapshot holds exactly its
    relocatable non-system actors; so system and non-relocatable entries are in no share, not among
    the singletons and never reported unplaceable, and every entry the plan hands to a target passes
    that target's recreate gate -/
def C32_both_ends : Prop :=
  ∀ (pop : List Actor) (leaderRoles : List Role) (peers : List (List Role)) (base : List Nat) (order : List Actor),
    order.Perm (snapshotActors pop) →
    let out := allocateActors leaderRoles peers base order
    (∀ a, a ∈ snapshotActors pop ↔ a ∈ pop ∧ a.system = false ∧ a.relocatable = true)
    ∧ (∀ a, a ∈ pop → (a.system = true ∨ a.relocatable = false) →
        a ∉ out.1 ∧ (∀ i, a ∉ out.2.1.getD i []) ∧ a ∉ out.2.2)
    ∧ (∀ a, (a ∈ out.1 ∨ ∃ i, a ∈ out.2.1.getD i []) → recreateGate a = true)

theorem C32_both_ends_holds : C32_both_ends := by
  intro pop leaderRoles peers base order hperm out
  have hkeep : ∀ a, a ∈ snapshotActors pop ↔ a ∈ pop ∧ a.system = false ∧ a.relocatable = true := by
    intro a
    simp [snapshotActors, snapshotKeep, List.mem_filter]
  have hA := C32_actors_holds leaderRoles peers base order
  simp only at hA
  obtain ⟨hlen, hlead, hp, _, hunpl, _⟩ := hA
  -- everything the plan mentions is an entry of the snapshot
  have hsub : ∀ a, (a ∈ out.1 ∨ (∃ i, a ∈ out.2.1.getD i []) ∨ a ∈ out.2.2) → a ∈ snapshotActors pop := by
    intro a ha
    apply hperm.subset
    apply hp.symm.subset
    simp only [List.mem_append, List.mem_filter]
    rcases ha with h | ⟨i, h⟩ | h
    · have h' : a ∈ order.filter (·.singleton) ++ out.2.1.headD [] := by rw [← hlead]; exact h
      rcases List.mem_append.1 h' with h1 | h1
      · left; left; exact List.mem_filter.1 h1
      · left; right
        cases hs : out.2.1 with
        | nil => rw [hs] at h1; cases h1
        | cons s ss =>
          rw [hs] at h1
          exact (mem_flatten_iff_getD (s :: ss) a).2 ⟨0, by simp, by simpa using h1⟩
    · left; right
      by_cases hi : i < out.2.1.length
      · exact (mem_flatten_iff_getD out.2.1 a).2 ⟨i, hi, h⟩
      · rw [getD_nil_of_le out.2.1 i (by omega)] at h; cases h
    · right; exact h
  refine ⟨hkeep, ?_, ?_⟩
  · intro a _ hbad
    have hnot : a ∉ snapshotActors pop := by
      intro hin
      have := (hkeep a).1 hin
      rcases hbad with h | h
      · rw [this.2.1] at h; cases h
      · rw [this.2.2] at h; cases h
    refine ⟨fun h => hnot (hsub a (Or.inl h)), fun i h => hnot (hsub a (Or.inr (Or.inl ⟨i, h⟩))), fun h => hnot (hsub a (Or.inr (Or.inr h)))⟩
  · intro a ha
    have hin : a ∈ snapshotActors pop := hsub a (by
      rcases ha with h | h
      · exact Or.inl h
      · exact Or.inr (Or.inl h))
    have := (hkeep a).1 hin
    exact (C32_gate_holds a).2 this.2.1 this.2.2

/-! ### F. batching a share keeps every item exactly once, in order -/

def batchActors : List Batch → List Actor
  | [] => []
  | .actors l :: bs => l ++ batchActors bs
  | .grains _ :: bs => batchActors bs

def batchGrains : List Batch → List Grain
  | [] => []
  | .actors _ :: bs => batchGrains bs
  | .grains l :: bs => l ++ batchGrains bs

theorem batchActors_append (x y : List Batch) : batchActors (x ++ y) = batchActors x ++ batchActors y := by
  induction x with
  | nil => rfl
  | cons b bs ih => cases b <;> simp [batchActors, ih]

theorem batchGrains_append (x y : List Batch) : batchGrains (x ++ y) = batchGrains x ++ batchGrains y := by
  induction x with
  | nil => rfl
  | cons b bs ih => cases b <;> simp [batchGrains, ih]

theorem batchActors_map_actors (cs : List (List Actor)) : batchActors (cs.map Batch.actors) = cs.flatten := by
  induction cs with
  | nil => rfl
  | cons c cs ih => simp [batchActors, ih]

theorem batchActors_map_grains (cs : List (List Grain)) : batchActors (cs.map Batch.grains) = [] := by
  induction cs with
  | nil => rfl
  | cons c cs ih => simp [batchActors, ih]

theorem batchGrains_map_grains (cs : List (List Grain)) : batchGrains (cs.map Batch.grains) = cs.flatten := by
  induction cs with
  | nil => rfl
  | cons c cs ih => simp [batchGrains, ih]

theorem batchGrains_map_actors (cs : List (List Actor)) : batchGrains (cs.map Batch.actors) = [] := by
  induction cs with
  | nil => rfl
  | cons c cs ih => simp [batchGrains, ih]

def C32_batches : Prop :=
  ∀ (bs : Nat) (actors : List Actor) (grains : List Grain), 0 < bs →
    batchActors (buildBatches bs actors grains) = actors
    ∧ batchGrains (buildBatches bs actors grains) = grains
    ∧ (∀ c ∈ chunkify actors bs, 0 < c.length ∧ c.length ≤ bs)
    ∧ (∀ c ∈ chunkify grains bs, 0 < c.length ∧ c.length ≤ bs)

theorem C32_batches_holds : C32_batches := by
  intro bs actors grains hbs
  refine ⟨?_, ?_, chunkify_bounds actors bs hbs, chunkify_bounds grains bs hbs⟩
  · simp [buildBatches, batchActors_append, batchActors_map_actors, batchActors_map_grains, chunkify_flatten _ _ hbs]
  · simp [buildBatches, batchGrains_append, batchGrains_map_actors, batchGrains_map_grains, chunkify_flatten _ _ hbs]

/-- the batch size the code uses today (regenerated from actor/relocation_worker.go on every run) is
    positive, so `Chunkify` terminates and `C32_batches` applies to `buildRelocateBatchRequests` -/
theorem batches_of_code_constant (actors : List Actor) (grains : List Grain) :
    0 < Gen.C32.defaultRelocationBatchSize
    ∧ batchActors (buildBatches Gen.C32.defaultRelocationBatchSize.toNat actors grains) = actors
    ∧ batchGrains (buildBatches Gen.C32.defaultRelocationBatchSize.toNat actors grains) = grains := by
  have hpos : 0 < Gen.C32.defaultRelocationBatchSize := by decide
  have hn : 0 < Gen.C32.defaultRelocationBatchSize.toNat := by
    have := hpos; omega
  have h := C32_batches_holds _ actors grains hn
  exact ⟨hpos, h.1, h.2.1⟩

/-! ### the full statement -/

/-- C32 at full strength: for EVERY iteration order, departed state, survivor set, role sets and
    base loads. -/
def C32_full : Prop :=
  C32_actors ∧ C32_least_loaded ∧ C32_grains ∧ C32_redistribute ∧ C32_survivors ∧ C32_redistribute_least ∧ C32_gate ∧ C32_both_ends ∧ C32_batches

theorem C32_holds : C32_full :=
  ⟨C32_actors_holds, C32_least_loaded_holds, C32_grains_holds, C32_redistribute_holds, C32_survivors_holds,
   C32_redistribute_least_holds, C32_gate_holds, C32_both_ends_holds, C32_batches_holds⟩

/-! ### non-vacuity: concrete instances (tests, by evaluation) -/

private def ex1 : List Actor :=
  [⟨1, 0, false, true, false⟩, ⟨2, 1, false, true, false⟩, ⟨3, 2, false, true, false⟩,
   ⟨4, 3, false, true, false⟩, ⟨5, 0, true, true, false⟩, ⟨9, 0, false, true, false⟩]

-- leader advertises role 1; peers: {1}, {}, {2}; role 3 is advertised by nobody
example : (allocateActors [1] [[1], [], [2]] [] ex1).2.2.map (·.id) = [4] := by decide
example : (allocateActors [1] [[1], [], [2]] [] ex1).2.1.map (·.map (·.id)) = [[1], [2], [9], [3]] := by decide
example : (allocateActors [1] [[1], [], [2]] [] ex1).1.map (·.id) = [5, 1] := by decide
-- a hypothesis instance of C32_least_loaded: a role-less actor whose turn comes with loads [5, 0]
example : pickTarget [[], [1]] (allocRun [[], [1]] [5, 0] [⟨1, 0, false, true, false⟩]).loads 0 = some 1 := by decide
-- grains: 7 relocatable grains over 3 targets: remainder 1 to the leader, chunks of 2
example : (allocateGrains 3 ((List.range 7).map fun i => ⟨i, false, false⟩)).2.map (·.map (·.id))
    = [[1, 2], [3, 4], [5, 6]] := by decide
example : ex1.Nodup := by decide
-- a survivor sharing the unreachable target's port (the usual deployment) or host stays a survivor
example : (survivingPeersExcept [⟨1, 9000, []⟩, ⟨2, 9000, [1]⟩, ⟨1, 9001, []⟩] ⟨1, 9000, []⟩).map (·.host) = [2, 1] := by decide

end GoaktVerif.C32

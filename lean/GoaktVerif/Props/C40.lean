/-
C40 — CRDT values survive encoding.

"For every CRDT value, decoding its wire encoding yields a value with the same observable value
 and the same causal metadata, so that merging the decoded value behaves exactly like merging the
 original; CRDT keys round-trip with their type."

Model: `Model/C40.lean` (EncodeCRDT / DecodeCRDT per type over the state models of
`Model/Crdt/*.lean`, the element serializer and the nested-value codec of ORMap as parameters).
`core` is the state without the delta/dirty bookkeeping, which the wire intentionally does not
carry (a decoded Flag is even marked dirty): the statement is about value and causal metadata.

Guards (decidable, `wfB`): the maps of an ORSet / ORMap are maps (sorted, no duplicate keys — a
property of the Lean REPRESENTATION of a Go map) and no ORSet entry has an empty dot list (true of
every state the API can build; `RawState()` drops such entries, so they would not survive).
Encode is partial: it fails when the serializer rejects a value (e.g. the nil value of a
never-set LWW register); the statement is about encodings that exist.
-/
import GoaktVerif.Lemmas.C40

namespace GoaktVerif.C40
open GoaktVerif.Model.Crdt GoaktVerif.Model.C40

variable {B V W : Type}

/-! ### core = value + causal metadata -/

def osCore (s : ORSet) : ORSet := ⟨s.entries, s.clock, ORSet.newDelta⟩

/-- ORMap core, for any value type with its own core function -/
def omCore (cv : V → V) (m : ORMap V) : ORMap V := ⟨osCore m.keys, mapVals cv m.values, false⟩

def core : CV → CV
  | .gc c => .gc c.resetDelta
  | .pn c => .pn c.resetDelta
  | .fl x => .fl ⟨x.enabled, false⟩
  | .lw r => .lw ⟨r.value, r.timestamp, r.nodeID, false⟩
  | .mv r => .mv ⟨r.entries, r.clock, false⟩
  | .os s => .os (osCore s)
  | .om m => .om (omCore GCounter.resetDelta m)

/-- the public observations (Value / Enabled / Values / Elements / Keys+Entries) -/
inductive Obs where
  | nat (n : Nat) | int (i : Int) | bool (b : Bool) | opt (o : Option Nat) | list (l : List Nat)
  | map (ks : List Nat) (vs : List (Nat × Nat))
  deriving DecidableEq, Repr

def observe : CV → Obs
  | .gc c => .nat c.value
  | .pn c => .int c.value
  | .fl x => .bool x.value
  | .lw r => .opt r.value
  | .mv r => .list r.values
  | .os s => .list s.elements
  | .om m => .map m.keyList (m.entriesOf.map fun p => (p.1, p.2.value))

/-- no entry with an empty dot list -/
def noEmptyB (s : ORSet) : Bool := s.entries.all fun p => !p.2.isEmpty

/-- the guard -/
def wfB : CV → Bool
  | .os s => AMap.sortedB s.entries && noEmptyB s
  | .om m => AMap.sortedB m.keys.entries && noEmptyB m.keys && AMap.sortedB m.values
  | _ => true

/-! ### flat types -/

theorem gc_roundtrip (c : GCounter) : decGC (encGC c) = c.resetDelta := rfl

theorem pn_roundtrip (c : PNCounter) : decPN (encPN c) = c.resetDelta := rfl

/-- a decoded flag has the same `enabled`; it is marked dirty when enabled -/
theorem flag_roundtrip (x : Flag) : decFlag (encFlag x) = ⟨x.enabled, x.enabled⟩ := by
  cases x with
  | mk e d => cases e <;> rfl

theorem lww_roundtrip (S : Ser B) (hS : SerLaw S) (r : LWWRegister) (w : B × Int × Nat)
    (h : encLWW S r = some w) : decLWW S w = some ⟨r.value, r.timestamp, r.nodeID, false⟩ := by
  unfold encLWW at h
  cases hv : r.value with
  | none => simp [hv] at h
  | some v =>
    simp only [hv] at h
    cases hb : S.ser v with
    | none => simp [hb] at h
    | some b =>
      simp [hb] at h
      subst h
      simp [decLWW, hS v b hb, LWWRegister.fromState]

theorem mv_mapM (S : Ser B) (hS : SerLaw S) (l : List MvEntry) (l' : List (B × Dot))
    (h : l.mapM (fun e => (S.ser e.value).map fun b => (b, e.dot)) = some l') :
    l'.mapM (fun p => (S.des p.1).map fun v => (⟨v, p.2⟩ : MvEntry)) = some l := by
  induction l generalizing l' with
  | nil => simp at h; subst h; rfl
  | cons e t ih =>
    rw [List.mapM_cons] at h
    cases hk : S.ser e.value with
    | none => simp [hk] at h
    | some b =>
      cases ht : t.mapM (fun e => (S.ser e.value).map fun b => (b, e.dot)) with
      | none => simp [hk, ht] at h
      | some t' =>
        simp [hk, ht] at h
        subst h
        rw [List.mapM_cons]
        simp [hS _ b hk, ih t' ht]

theorem mv_roundtrip (S : Ser B) (hS : SerLaw S) (r : MVRegister) (w : WMV B)
    (h : encMV S r = some w) : decMV S w = some ⟨r.entries, r.clock, false⟩ := by
  unfold encMV at h
  cases hm : r.entries.mapM (fun e => (S.ser e.value).map fun b => (b, e.dot)) with
  | none => simp [hm] at h
  | some es =>
    simp [hm] at h
    subst h
    simp [decMV, mv_mapM S hS _ _ hm, MVRegister.fromRawState]

/-! ### ORSet -/

theorem rawEntries_eq (s : ORSet) (h : noEmptyB s = true) : rawEntries s = s.entries := by
  unfold rawEntries
  rw [List.filter_eq_self]
  intro p hp
  exact List.all_eq_true.mp h p hp

theorem orset_roundtrip (S : Ser B) (hS : SerLaw S) (s : ORSet)
    (hs : AMap.sortedB s.entries = true) (hn : noEmptyB s = true) (w : WORSet B)
    (h : encORSet S s = some w) : decORSet S w = some (osCore s) := by
  unfold encORSet encEntries at h
  rw [rawEntries_eq s hn] at h
  cases hm : s.entries.mapM (fun p => (S.ser p.1).map fun b => (b, p.2)) with
  | none => simp [hm] at h
  | some es =>
    simp [hm] at h
    subst h
    have := mapM_ser_des S hS _ _ hm
    simp [decORSet, decEntries, this, ORSet.fromRawState, osCore,
      ofList_sorted _ ((AMap.sortedB_iff _).mp hs)]

/-! ### ORMap over any value type whose codec round-trips up to `cv` -/

/-- the law of the recursive value codec: decoding an encoding gives the value's core -/
def VLaw (C : VCodec V W) (cv : V → V) : Prop := ∀ v w, C.enc v = some w → C.dec w = some (cv v)

theorem vals_mapM (S : Ser B) (hS : SerLaw S) (C : VCodec V W) (cv : V → V) (hC : VLaw C cv)
    (l : List (Nat × V)) (l' : List (B × W))
    (h : l.mapM (encPair S C) = some l') :
    l'.mapM (decPair S C) = some (mapVals cv l) := by
  induction l generalizing l' with
  | nil => simp at h; subst h; rfl
  | cons p t ih =>
    obtain ⟨k, v⟩ := p
    rw [List.mapM_cons] at h
    cases hp : encPair S C (k, v) with
    | none => simp [hp] at h
    | some q =>
      cases ht : t.mapM (encPair S C) with
      | none => simp [hp, ht] at h
      | some t' =>
        simp [hp, ht] at h
        subst h
        unfold encPair at hp
        cases hv : C.enc v with
        | none => simp [hv] at hp
        | some w =>
          cases hk : S.ser k with
          | none => simp [hv, hk] at hp
          | some b =>
            simp [hv, hk] at hp
            subst hp
            rw [List.mapM_cons]
            simp [decPair, hS k b hk, hC v w hv, ih t' ht, mapVals]

/-- ORMap round trip, for ANY value type: keys (entries, dots, clock) are preserved, every stored
    value is replaced by what its own codec returns.  Instantiating `C` with the codec of a flat
    type, or with this very codec one level down, covers ORMaps nested to any depth. -/
theorem ormap_roundtrip (S : Ser B) (hS : SerLaw S) (C : VCodec V W) (cv : V → V) (hC : VLaw C cv)
    (m : ORMap V) (hk : AMap.sortedB m.keys.entries = true) (hn : noEmptyB m.keys = true)
    (hv : AMap.sortedB m.values = true) (w : WORMap B W)
    (h : encORMap S C m = some w) : decORMap S C w = some (omCore cv m) := by
  unfold encORMap at h
  cases hks : encORSet S m.keys with
  | none => simp [hks] at h
  | some ks =>
    cases hvs : m.values.mapM (encPair S C) with
    | none => simp [hks, hvs] at h
    | some es =>
      simp [hks, hvs] at h
      subst h
      have hkeys := orset_roundtrip S hS m.keys hk hn ks hks
      unfold decORSet at hkeys
      cases hde : decEntries S ks.entries with
      | none => simp [hde] at hkeys
      | some kes =>
        simp only [hde, Option.map_some, Option.some.injEq] at hkeys
        have hvals := vals_mapM S hS C cv hC _ _ hvs
        have hsv := sorted_mapVals cv m.values ((AMap.sortedB_iff _).mp hv)
        simp only [decORMap, decKeySet, hde, Option.map_some, hvals, ofList_sorted _ hsv, omCore]
        unfold ORSet.fromRawState osCore at hkeys
        unfold ORMap.fromRawState ORSet.fromRawState osCore
        injection hkeys with h1 h2 h3
        rw [h1, h2]

theorem gcCodec_law : VLaw gcCodec GCounter.resetDelta := by
  intro v w h
  simp [gcCodec] at h
  subst h
  rfl

/-! ### the tagged union -/

/-- decoding an encoding yields the core (for a Flag: the core up to the dirty mark) -/
theorem wire_core (S : Ser B) (hS : SerLaw S) (v : CV) (hw : wfB v = true) (w : WCV B)
    (h : encode S v = some w) : ∃ v', decode S w = some v' ∧ core v' = core v := by
  cases v with
  | gc c => simp [encode] at h; subst h; exact ⟨_, rfl, rfl⟩
  | pn c => simp [encode] at h; subst h; exact ⟨_, rfl, rfl⟩
  | fl x =>
    simp [encode] at h; subst h
    refine ⟨_, rfl, ?_⟩
    rw [flag_roundtrip]; rfl
  | lw r =>
    simp only [encode, Option.map_eq_some_iff] at h
    obtain ⟨a, ha, rfl⟩ := h
    exact ⟨.lw ⟨r.value, r.timestamp, r.nodeID, false⟩, by simp [decode, lww_roundtrip S hS r a ha], rfl⟩
  | mv r =>
    simp only [encode, Option.map_eq_some_iff] at h
    obtain ⟨a, ha, rfl⟩ := h
    exact ⟨.mv ⟨r.entries, r.clock, false⟩, by simp [decode, mv_roundtrip S hS r a ha], rfl⟩
  | os s =>
    simp only [encode, Option.map_eq_some_iff] at h
    obtain ⟨a, ha, rfl⟩ := h
    simp only [wfB, Bool.and_eq_true] at hw
    exact ⟨.os (osCore s), by simp [decode, orset_roundtrip S hS s hw.1 hw.2 a ha], rfl⟩
  | om m =>
    simp only [encode, Option.map_eq_some_iff] at h
    obtain ⟨a, ha, rfl⟩ := h
    simp only [wfB, Bool.and_eq_true] at hw
    refine ⟨.om (omCore GCounter.resetDelta m), by simp [decode, ormap_roundtrip S hS gcCodec _ gcCodec_law m hw.1.1 hw.1.2 hw.2 a ha], ?_⟩
    simp only [core, omCore, osCore]
    congr 2
    simp [mapVals, GCounter.resetDelta]

/-- the public observations depend on the core only -/
theorem observe_core (v : CV) : observe (core v) = observe v := by
  cases v with
  | gc c => rfl
  | pn c => rfl
  | fl x => rfl
  | lw r => rfl
  | mv r => rfl
  | os s => rfl
  | om m =>
    simp only [core, observe, omCore, ORMap.keyList, ORMap.entriesOf, osCore]
    congr 1
    simp only [ORSet.elements, List.map_filterMap, get?_mapVals]
    congr 1
    funext k
    cases AMap.get? m.values k <;> rfl

/-! ### merge depends on the cores only -/

theorem foldl_setOpt_mapVals (f : GCounter → GCounter) (ks : List Nat) (g : Nat → Option GCounter) (acc : AMap GCounter) :
    mapVals f (ks.foldl (fun vals k => AMap.setOpt vals k (g k)) acc)
      = ks.foldl (fun vals k => AMap.setOpt vals k ((g k).map f)) (mapVals f acc) := by
  induction ks generalizing acc with
  | nil => rfl
  | cons k t ih => rw [List.foldl_cons, List.foldl_cons, ih, mapVals_setOpt]

theorem optMerge_reset (a b : Option GCounter) :
    (ORMap.optMerge a b).map GCounter.resetDelta
      = (ORMap.optMerge (a.map GCounter.resetDelta) (b.map GCounter.resetDelta)).map GCounter.resetDelta := by
  cases a <;> cases b <;> rfl

theorem mapVals_idem (m : AMap GCounter) :
    mapVals GCounter.resetDelta (mapVals GCounter.resetDelta m) = mapVals GCounter.resetDelta m := by
  simp [mapVals, GCounter.resetDelta]

theorem core_core (v : CV) : core (core v) = core v := by
  cases v <;> try rfl
  case om m => simp only [core, omCore, osCore, mapVals_idem]

theorem merge_core (a b : CV) : core (a.merge b) = core ((core a).merge (core b)) := by
  cases a <;> cases b <;> try rfl
  all_goals try (exact (core_core _).symm)
  case lw.lw r o =>
    simp only [CV.merge, core, LWWRegister.merge, LWWRegister.otherWins]
    by_cases h : (decide (o.timestamp > r.timestamp) || decide (o.timestamp = r.timestamp) && decide (o.nodeID > r.nodeID)) = true
    · simp [h]
    · simp [h]
  case om.om m o =>
    simp only [CV.merge, core, omCore, ORMap.merge, osCore, ORSet.merge, ORSet.dotsOf, ORSet.kept]
    congr 2
    rw [foldl_setOpt_mapVals, foldl_setOpt_mapVals]
    congr 1
    funext vals k
    rw [get?_mapVals, get?_mapVals, ← optMerge_reset]

/-! ### keys -/

theorem key_roundtrip (id dt : Nat) (h : dt ≤ 6) : decKey (encKey id dt) = some (id, dt) := by
  unfold decKey encKey
  simp
  omega

/-- an out-of-range data type is rejected by the decoder instead of being mistaken for another -/
theorem key_reject (id dt : Nat) (h : dt > 6) : decKey (encKey id dt) = none := by
  unfold decKey encKey
  simp
  omega

theorem key_decode_sound (id w id' dt : Nat) (h : decKey (id, w) = some (id', dt)) :
    id' = id ∧ dt ≤ 6 ∧ encKey id' dt = (id, w) := by
  unfold decKey at h
  simp only at h
  split at h; · simp at h
  split at h; · simp at h
  simp only [Option.some.injEq, Prod.mk.injEq] at h
  obtain ⟨h1, h2⟩ := h
  subst h1
  refine ⟨rfl, by omega, ?_⟩
  simp only [encKey, Prod.mk.injEq, true_and]
  omega

/-! ### the full statement -/

/-- For every lawful element serializer, every CRDT value (of the seven types; ORMap values
    G-counters — `ormap_roundtrip` gives the same for any value type) satisfying the
    representation guard, and every encoding that exists: decoding succeeds, the decoded value has
    the same core (entries, dots, clocks, counters, timestamps, node ids), hence the same public
    observation, and merging it into / with any other value gives the same core as merging the
    original, on either side.  Keys round-trip with their type. -/
def C40_full : Prop :=
  (∀ (B : Type) (S : Ser B), SerLaw S → ∀ (v : CV), wfB v = true → ∀ w, encode S v = some w →
      ∃ v', decode S w = some v' ∧ core v' = core v ∧ observe v' = observe v
        ∧ (∀ y : CV, core (v'.merge y) = core (v.merge y)) ∧ (∀ y : CV, core (y.merge v') = core (y.merge v)))
  ∧ (∀ id dt, dt ≤ 6 → decKey (encKey id dt) = some (id, dt))

theorem C40_holds : C40_full := by
  refine ⟨?_, key_roundtrip⟩
  intro B S hS v hw w h
  obtain ⟨v', hd, hc⟩ := wire_core S hS v hw w h
  refine ⟨v', hd, hc, ?_, ?_, ?_⟩
  · rw [← observe_core v', hc, observe_core]
  · intro y; rw [merge_core v' y, hc, ← merge_core]
  · intro y; rw [merge_core y v', hc, ← merge_core]

/-! ### non-vacuity -/

/-- the identity serializer is lawful -/
theorem idSer_law : SerLaw idSer := by
  intro x b h
  cases h
  rfl

/-- an ORSet with a removed element (clock ahead of the dots), pending delta included: it
    satisfies the guard, encodes, and decodes to its core -/
example :
    wfB (.os ((((ORSet.new.add 1 5).add 1 6).remove 5).add 2 7)) = true
    ∧ (encORSet idSer ((((ORSet.new.add 1 5).add 1 6).remove 5).add 2 7)).bind (decORSet idSer)
        = some (osCore ((((ORSet.new.add 1 5).add 1 6).remove 5).add 2 7))
    ∧ ((((ORSet.new.add 1 5).add 1 6).remove 5).add 2 7).delta ≠ ORSet.newDelta := by
  decide

/-- an ORMap with two G-counter values whose deltas are pending: guard holds, the wire image exists -/
example :
    wfB (.om (((ORMap.new (V := GCounter)).set 1 3 (GCounter.new.increment 1 4)).set 2 4 (GCounter.new.increment 2 1))) = true
    ∧ (wire idSer (.om (((ORMap.new (V := GCounter)).set 1 3 (GCounter.new.increment 1 4)).set 2 4 (GCounter.new.increment 2 1)))).isSome = true := by
  decide

/-- encode is partial: a never-set LWW register cannot be encoded -/
example : encode idSer (.lw LWWRegister.new) = none := rfl

end GoaktVerif.C40

/-
C39, multi-value register.  `MVRegister.Delta()` is the whole state, so the REAL replicator
operations (`cvOps`) and the REAL codec model (`wire idSer`) are used: every update publishes the
updater's full state, delivered in any order / duplicated / never, plus anti-entropy full states.

The observation of a register is the same shape as the OR-set's (`OsCore`): the clock as a function
and the relation "value v is held under dot d"; `MV.mem_merge` / `MV.clockOf_merge` (b-c38) say that
Merge acts on it by the same rule `osJoin`, so the semilattice `osSemi` of `Props/C39OS.lean` is
reused as is.

Guard (as in C38): a dot names ONE write — `valOf d` is the value written under dot `d`.  It holds
whenever a node id is used by one writer, because the dot of a write is (node, that node's own
clock entry + 1).
-/
import GoaktVerif.Props.C39OS
import GoaktVerif.Props.C40
import GoaktVerif.Lemmas.C38.MVReach

namespace GoaktVerif.C39
open GoaktVerif.Model.Crdt GoaktVerif.Model.Crdt.AMap GoaktVerif.Model.C40 GoaktVerif.Model.C41 GoaktVerif.Model.C39 GoaktVerif.C38

def mvCoreOf (r : MVRegister) : OsCore := (fun n => MV.clockOf r n, fun v d => (⟨v, d⟩ : MvEntry) ∈ r.entries)

def mvCore : CV → OsCore
  | .mv r => mvCoreOf r
  | _ => osSemi.bot

/-- the registers that occur: well-formed, dots produced by ticks, values as written under their dots -/
def mvOk (valOf : Dot → Nat) (v : CV) : Prop :=
  ∃ r, v = .mv r ∧ r.WF ∧ (∀ e ∈ r.entries, 1 ≤ e.dot.counter) ∧ (∀ e ∈ r.entries, e.value = valOf e.dot)

def mvSetF (n v : Nat) : CV → CV
  | .mv r => .mv (r.set n v)
  | x => x

/-- `Set(node, v)` where `v` is THE value written under the dot this write gets -/
def mvMut (valOf : Dot → Nat) (f : CV → CV) (s : CV) : Prop :=
  ∃ n v, f = mvSetF n v ∧ ∀ r, s = .mv r → valOf ⟨n, MV.clockOf r n + 1⟩ = v

theorem mv_compat (valOf : Dot → Nat) {a b : MVRegister} (ha : ∀ e ∈ a.entries, e.value = valOf e.dot)
    (hb : ∀ e ∈ b.entries, e.value = valOf e.dot) : MVRegister.Compat a b := by
  intro e he f hf hd
  obtain ⟨ve, de⟩ := e
  obtain ⟨vf, df⟩ := f
  simp only at hd
  subst hd
  have h1 := ha _ he
  have h2 := hb _ hf
  simp only at h1 h2
  rw [h1, h2]

theorem mvCoreOf_merge {r o : MVRegister} (hr : r.WF) (ho : o.WF) (hc : MVRegister.Compat r o) :
    mvCoreOf (r.merge o) = osJoin (mvCoreOf r) (mvCoreOf o) := by
  simp only [mvCoreOf, osJoin]
  refine Prod.ext ?_ ?_
  · funext n; dsimp only; exact MV.clockOf_merge r o ho.clock_sorted n
  · funext v d; dsimp only; exact propext (MV.mem_merge hr ho hc ⟨v, d⟩)

theorem mv_laws (valOf : Dot → Nat) :
    Laws cvOps (wire idSer) (.mv .new) osSemi mvCore (mvOk valOf) (mvMut valOf) where
  ok_wf := by
    rintro v ⟨r, rfl, h, hp, _⟩
    intro x d hx
    exact ⟨hp _ hx, h.dots_le _ hx⟩
  ok_init := ⟨.new, rfl, MV.wf_new, by simp [MVRegister.new], by simp [MVRegister.new]⟩
  core_init := by
    simp only [mvCore, mvCoreOf, osSemi]
    refine Prod.ext rfl ?_
    funext v d
    simp [MVRegister.new]
  merge_ok := by
    rintro a b ⟨ra, rfl, ha, pa, va⟩ ⟨rb, rfl, hb, pb, vb⟩
    have hc := mv_compat valOf va vb
    refine ⟨⟨_, rfl, MV.wf_merge ha hb hc, ?_, ?_⟩, mvCoreOf_merge ha hb hc⟩
    · intro e he
      rcases MV.sub_merge ha hb hc he with h | h
      · exact pa e h
      · exact pb e h
    · intro e he
      rcases MV.sub_merge ha hb hc he with h | h
      · exact va e h
      · exact vb e h
  wire_ok := by
    rintro v v' ⟨r, rfl, h, hp, hv⟩ hw
    simp only [wire, encode, Option.bind_eq_bind] at hw
    cases he : encMV idSer r with
    | none => simp [he] at hw
    | some w =>
      simp only [he, Option.map_some, Option.bind_some, decode,
        GoaktVerif.C40.mv_roundtrip idSer GoaktVerif.C40.idSer_law r w he, Option.some.injEq] at hw
      subst hw
      exact ⟨⟨_, rfl, ⟨h.clock_sorted, h.dots_le, h.nodup, h.dotfun⟩, hp, hv⟩, rfl⟩
  upd_none := by
    rintro f s ⟨n, v, rfl, _⟩ ⟨r, rfl, _⟩ hnone
    simp [cvOps, mvSetF, CV.delta?, MVRegister.delta?, MVRegister.set, tick] at hnone
  upd_some := by
    rintro f s d ⟨n, v, rfl, hval⟩ ⟨r, rfl, h, hp, hv⟩ hsome
    have hv' := hval r rfl
    simp only [cvOps, mvSetF, CV.delta?, MVRegister.delta?, MVRegister.set, tick, ↓reduceIte,
      Option.map_some, Option.some.injEq] at hsome
    subst hsome
    have hwf := MV.wf_set h n v
    -- the shipped state after the codec
    let d' : MVRegister := ⟨[⟨v, ⟨n, r.clock.getD n 0 + 1⟩⟩], r.clock.set n (r.clock.getD n 0 + 1), false⟩
    have hw : wire idSer (.mv ⟨[⟨v, ⟨n, r.clock.getD n 0 + 1⟩⟩], r.clock.set n (r.clock.getD n 0 + 1), true⟩) = some (.mv d') := by
      simp [wire, encode, encMV, decode, decMV, idSer, MVRegister.fromRawState, d']
    have hok' : mvOk valOf (.mv d') := by
      refine ⟨d', rfl, ⟨hwf.clock_sorted, hwf.dots_le, hwf.nodup, hwf.dotfun⟩, ?_, ?_⟩
      · intro e he; simp only [d', List.mem_singleton] at he; subst he; simp
      · intro e he; simp only [d', List.mem_singleton] at he; subst he
        simpa [MV.clockOf] using hv'.symm
    refine ⟨.mv d', hw, hok', ?_, ?_⟩
    · show mvOk valOf (.mv d')
      exact hok'
    · -- inflation: the new state is the join of the old one and itself
      show mvCoreOf d' = osJoin (mvCoreOf r) (mvCoreOf d')
      simp only [mvCoreOf, osJoin]
      refine Prod.ext ?_ ?_
      · funext k
        simp only [MV.clockOf, d']
        rw [getD_set]
        split
        · subst k; omega
        · omega
      · funext x dd
        apply propext
        simp only [MV.clockOf, d', List.mem_singleton, MvEntry.mk.injEq]
        constructor
        · rintro ⟨rfl, rfl⟩
          refine Or.inr ⟨⟨rfl, rfl⟩, Or.inl ?_⟩
          simp
        · rintro (⟨hx, hy⟩ | ⟨hx, _⟩)
          · rcases hy with hy | hy
            · exfalso
              apply hy
              have := h.dots_le _ hx
              simp only at this
              rw [getD_set]
              split
              · rename_i hk; rw [hk] at this; omega
              · exact this
            · exact hy
          · exact hx

/-- MV register: for every history of `Set`s in which a dot names one write, every delivery order /
    duplication / loss of the published states and any full-state merges, replicas that have seen
    the same updates hold the same (value, dot) entries and clock — hence the same set of `Values()`. -/
theorem C39_mvregister (valOf : Dot → Nat) (w : Net) (arr : Nat → List Nat)
    (h : Reach cvOps (wire idSer) (.mv .new) (mvMut valOf) 6 6 w arr) (i i' : Nat)
    (h1 : ∀ j ∈ arr i, j ∈ arr i') (h2 : ∀ j ∈ arr i', j ∈ arr i)
    (v v' : CV) (hv : w.at i 6 = some v) (hv' : w.at i' 6 = some v') :
    ∃ r r', v = .mv r ∧ v' = .mv r' ∧ mvCoreOf r = mvCoreOf r'
      ∧ (∀ x, x ∈ r.entries ↔ x ∈ r'.entries) ∧ (∀ x, x ∈ r.values ↔ x ∈ r'.values) := by
  have hc := converge (mv_laws valOf) w arr h i i' h1 h2 v v' hv hv'
  have inv := reach_inv (mv_laws valOf) w arr h
  have a := inv.val i
  have b := inv.val i'
  unfold FNet.at at hv hv'
  rw [hv] at a; rw [hv'] at b
  obtain ⟨⟨r, rfl, _⟩, _⟩ := a
  obtain ⟨⟨r', rfl, _⟩, _⟩ := b
  have hent : ∀ x, x ∈ r.entries ↔ x ∈ r'.entries := by
    intro x
    obtain ⟨vx, dx⟩ := x
    exact iff_of_eq (congrFun (congrFun (congrArg Prod.snd hc) vx) dx)
  refine ⟨r, r', rfl, rfl, hc, hent, ?_⟩
  intro x
  simp only [MVRegister.values, List.mem_map]
  constructor
  · rintro ⟨e, he, rfl⟩; exact ⟨e, (hent e).mp he, rfl⟩
  · rintro ⟨e, he, rfl⟩; exact ⟨e, (hent e).mpr he, rfl⟩

/-- non-vacuity: two concurrent writes (nodes 1 and 2, at replicas 0 and 1), cross-delivered;
    both replicas have seen both and hold both values -/
example : ∃ (w : Net) (arr : Nat → List Nat),
    Reach cvOps (wire idSer) (.mv .new) (mvMut fun d => d.nodeID * 10) 6 6 w arr
    ∧ (∀ j ∈ arr 0, j ∈ arr 1) ∧ (∀ j ∈ arr 1, j ∈ arr 0)
    ∧ (match w.at 0 6 with | some (.mv r) => r.values | _ => []) = [10, 20] := by
  have r1 := Reach.upd (ops := cvOps) (wire := wire idSer) (init := CV.mv .new) (Mut := mvMut fun d => d.nodeID * 10)
    (k := 6) (dt := 6) _ _ 0 (mvSetF 1 10) Reach.init ⟨1, 10, rfl, by intro r hr; rfl⟩
  have r2 := Reach.upd _ _ 1 (mvSetF 2 20) r1 ⟨2, 20, rfl, by intro r hr; rfl⟩
  have r3 := Reach.dlv _ _ 0 1 r2
  have r4 := Reach.dlv _ _ 1 0 r3
  exact ⟨_, _, r4, by decide, by decide, by decide⟩

end GoaktVerif.C39

/-
C37 — Spawn configuration survives the wire.

"For every spawn configuration (supervisor strategy, directives, retry budget and backoff;
 passivation strategy; reentrancy; stashing; role; dependencies; init timeout), the configuration
 an actor gets when it is spawned remotely or relocated is the same as the one it was spawned with
 locally."   (quantifier: all configurations in the generated domain)

Model: Model/C37.lean.  Tie: differential of the real codec functions and of the real relocation
path (Spawn → toSerialize → protobuf → wireSpawnOptions → Spawn) against the model
(tools/props/c37.py, harness/verifdrv/c37, harness/inpkg/actor/zz_verif_c37.go).

Result (code as of fix 1ad4e99, which added the backoff fields to SupervisorSpec).
* `relocate_exact` / `remoteSpawn_exact` say EXACTLY what the re-created actor holds, for every
  configuration: everything is preserved — including, now, the backoff triple (`C37_backoff_survives`) —
  except (1) the directive table is re-normalised by the decoder (`normGet`): an AnyError entry wipes the
  others, otherwise the two constructor defaults come back; (2) the reentrancy limit is clamped to 2^32-1
  (`uint32 max_in_flight`).
* `C37_refuted`: the property read over ALL configurations is still false — witness: a supervisor emptied
  with the public `Reset()` comes back with the two default directives (finding C37-F2).
* `C37_partial`: the property on both routes for every configuration under the decidable guard
  "constructor-shaped directive table, limit ≤ 2^32-1"; `C37_constructor_covered`: every supervisor built by
  `NewSupervisor` from ANY options (backoff included) satisfies the supervisor part of the guard and of `Inv`.
-/
import GoaktVerif.Model.C37
import GoaktVerif.Spec.C37
import GoaktVerif.Lemmas.C37

namespace GoaktVerif.C37
open GoaktVerif.Model.C37

/-! ### the supervisor through codec.EncodeSupervisor / DecodeSupervisor -/

/-- what the decoder makes of a directive table: the lookup function of the decoded table -/
def normGet (m : Rules) (k : Key) : Option Directive :=
  match rget m anyKey with
  | some d => if k = anyKey then some d else none
  | none =>
    if k = "" then none else
    match rget m k with
    | some d => some d
    | none => rget base.rules k

theorem base_rules_any : rget base.rules anyKey = none := by decide

theorem fold_opts_rules (s : Sup) (opts : List SupOpt) (h : ∀ o ∈ opts, ∃ st n t, o = .strategy st ∨ o = .retry n t) :
    (opts.foldl applyOpt s).rules = s.rules ∧ (opts.foldl applyOpt s).initialDelay = s.initialDelay ∧
    (opts.foldl applyOpt s).maxDelay = s.maxDelay ∧ (opts.foldl applyOpt s).resetAfter = s.resetAfter := by
  induction opts generalizing s with
  | nil => simp
  | cons o os ih =>
    have ho := h o (by simp)
    have ih' := ih (applyOpt s o) (fun o' ho' => h o' (by simp [ho']))
    simp only [List.foldl_cons]
    obtain ⟨st, n, t, ho | ho⟩ := ho <;> (subst ho; simp only [applyOpt] at ih' ⊢; exact ih')

/-- WithExponentialBackoff's normalisation of its three arguments -/
def normTriple (i m r : Int) : Int × Int × Int :=
  if i ≤ 0 then (0, 0, 0) else
  let m := if m < i then i else m
  let r := if r ≤ 0 then m else r
  (i, m, r)

/-- the backoff triple the decoder ends up with -/
def decTriple (s : Sup) : Int × Int × Int :=
  if 0 < s.initialDelay then
    normTriple (durAs (durNew s.initialDelay)) (durAs (durNew s.maxDelay)) (durAs (durNew s.resetAfter))
  else (0, 0, 0)

def backoffOpts (s : Sup) : List SupOpt :=
  if 0 < s.initialDelay then
    [.backoff (durAs (durNew s.initialDelay)) (durAs (durNew s.maxDelay)) (durAs (durNew s.resetAfter))]
  else []

/-- the options DecodeSupervisor passes: strategy, retry (Encode always sets the timeout) and, since
    1ad4e99, the backoff when one travelled -/
def headOpts (s : Sup) : List SupOpt :=
  [.strategy s.strategy, .retry s.maxRetries (durAs (durNew s.timeout))] ++ backoffOpts s

theorem decodeSup_encodeSup (s : Sup) :
    decodeSup (encodeSup s) =
      match rget s.rules anyKey with
      | some d => newSupervisor (headOpts s ++ [.anyError d])
      | none => setAll (newSupervisor (headOpts s)) (sortByKey (s.rules.filter (fun e => decide (e.1 ≠ "")))) := by
  unfold encodeSup
  cases h : rget s.rules anyKey with
  | some d => by_cases hb : 0 < s.initialDelay <;> simp [decodeSup, headOpts, backoffOpts, hb]
  | none => by_cases hb : 0 < s.initialDelay <;> simp [decodeSup, headOpts, backoffOpts, setAll, hb]

theorem headOpts_fold (s : Sup) :
    (headOpts s).foldl applyOpt base =
      ⟨s.strategy, s.maxRetries, durAs (durNew s.timeout), (decTriple s).1, (decTriple s).2.1, (decTriple s).2.2, base.rules⟩ := by
  by_cases hb : 0 < s.initialDelay
  · simp only [headOpts, backoffOpts, hb, if_true, List.cons_append, List.nil_append, List.foldl_cons, List.foldl_nil, applyOpt,
      decTriple, normTriple]
    split <;> rfl
  · simp [headOpts, backoffOpts, hb, applyOpt, decTriple, base]

theorem newSup_headOpts (s : Sup) : newSupervisor (headOpts s) =
    ⟨s.strategy, s.maxRetries, durAs (durNew s.timeout), (decTriple s).1, (decTriple s).2.1, (decTriple s).2.2, base.rules⟩ := by
  simp only [newSupervisor, headOpts_fold, collapse, base_rules_any]

/-- lookup in the decoded table, for every key -/
theorem rget_decode_encode (s : Sup) (hn : nodupKeys s.rules) (k : Key) :
    rget (decodeSup (encodeSup s)).rules k = normGet s.rules k := by
  rw [decodeSup_encodeSup]
  unfold normGet
  cases h : rget s.rules anyKey with
  | some d =>
    simp only [newSupervisor, List.foldl_append, headOpts_fold, List.foldl_cons, List.foldl_nil, applyOpt, collapse, rget_rput,
      if_true]
    rw [rget_cons]
    simp [rget]
  | none =>
    simp only
    have hc := newSup_headOpts s
    let f := s.rules.filter (fun e => decide (e.1 ≠ ""))
    have hfn : nodupKeys f := nodupKeys_filter _ _ hn
    have hsn : nodupKeys (sortByKey f) := by
      unfold nodupKeys rkeys at hfn ⊢
      exact (List.Perm.nodup_iff (List.Perm.map _ (sortByKey_perm f))).mpr hfn
    have hse : "" ∉ rkeys (sortByKey f) := by
      rw [mem_rkeys_sortByKey]
      intro hm
      exact ((mem_rkeys_filter s.rules "" "").mp hm).2 rfl
    rw [setAll_rget _ _ hsn hse k, rget_sortByKey f hfn k, hc]
    by_cases hk : k = ""
    · subst hk
      simp only [if_true]
      rw [show rget f "" = none from rget_filter_eq s.rules ""]
      decide
    · simp only [hk, if_false]
      rw [show rget f k = rget s.rules k from rget_filter_ne s.rules "" k hk]
      cases rget s.rules k <;> rfl

theorem decode_fields (s : Sup) :
    (decodeSup (encodeSup s)).strategy = s.strategy ∧ (decodeSup (encodeSup s)).maxRetries = s.maxRetries ∧
    (decodeSup (encodeSup s)).timeout = durAs (durNew s.timeout) ∧ (decodeSup (encodeSup s)).initialDelay = (decTriple s).1 ∧
    (decodeSup (encodeSup s)).maxDelay = (decTriple s).2.1 ∧ (decodeSup (encodeSup s)).resetAfter = (decTriple s).2.2 := by
  rw [decodeSup_encodeSup]
  cases h : rget s.rules anyKey with
  | some d =>
    simp only [newSupervisor, List.foldl_append, headOpts_fold, List.foldl_cons, List.foldl_nil, applyOpt, collapse, rget_rput,
      if_true]
    refine ⟨?_, ?_, ?_, ?_, ?_, ?_⟩ <;> first | trivial | rfl
  | none =>
    have hf := setAll_fields (newSupervisor (headOpts s)) (sortByKey (s.rules.filter (fun e => decide (e.1 ≠ ""))))
    have hc := newSup_headOpts s
    exact ⟨hf.1.trans (by rw [hc]), hf.2.1.trans (by rw [hc]), hf.2.2.1.trans (by rw [hc]), hf.2.2.2.1.trans (by rw [hc]),
      hf.2.2.2.2.1.trans (by rw [hc]), hf.2.2.2.2.2.trans (by rw [hc])⟩

/-- what every supervisor built through the public API satisfies: no backoff (0/0/0) or the
    triple WithExponentialBackoff normalised (0 < initial ≤ max, 0 < reset); int64 values -/
def tripleOK (s : Sup) : Prop :=
  ((s.initialDelay = 0 ∧ s.maxDelay = 0 ∧ s.resetAfter = 0) ∨
   (0 < s.initialDelay ∧ s.initialDelay ≤ s.maxDelay ∧ 0 < s.resetAfter)) ∧
  inI64 s.initialDelay = true ∧ inI64 s.maxDelay = true ∧ inI64 s.resetAfter = true

theorem decTriple_of_ok (s : Sup) (h : tripleOK s) : decTriple s = (s.initialDelay, s.maxDelay, s.resetAfter) := by
  obtain ⟨hshape, h1, h2, h3⟩ := h
  unfold decTriple
  rcases hshape with ⟨a, b, c⟩ | ⟨a, b, c⟩
  · rw [if_neg (by omega), a, b, c]
  · rw [if_pos a, dur_roundtrip _ h1, dur_roundtrip _ h2, dur_roundtrip _ h3]
    simp only [normTriple]
    rw [if_neg (by omega), if_neg (by omega), if_neg (by omega)]

/-- **the supervisor after the wire, exactly**: everything is kept, the directive table is
    re-normalised -/
theorem sup_roundtrip_exact (s : Sup) (hn : nodupKeys s.rules) (ht : inI64 s.timeout = true) (hb : tripleOK s) :
    let s' := decodeSup (encodeSup s)
    s'.strategy = s.strategy ∧ s'.maxRetries = s.maxRetries ∧ s'.timeout = s.timeout ∧
    s'.initialDelay = s.initialDelay ∧ s'.maxDelay = s.maxDelay ∧ s'.resetAfter = s.resetAfter ∧
    ∀ k, rget s'.rules k = normGet s.rules k := by
  obtain ⟨h1, h2, h3, h4, h5, h6⟩ := decode_fields s
  have ht3 := decTriple_of_ok s hb
  exact ⟨h1, h2, h3.trans (dur_roundtrip _ ht), by rw [h4, ht3], by rw [h5, ht3], by rw [h6, ht3],
    fun k => rget_decode_encode s hn k⟩

/-! ### constructor-shaped tables -/

/-- the shape `NewSupervisor` always leaves: either the AnyError entry alone, or a table that has
    both default keys and no empty key -/
def ctorShaped (m : Rules) : Bool :=
  match rget m anyKey with
  | some _ => (rkeys m).all (fun k => k == anyKey)
  | none => (rget m panicKey).isSome && (rget m panicNilKey).isSome && (rget m "").isNone

theorem normGet_of_ctorShaped (m : Rules) (h : ctorShaped m = true) (k : Key) : normGet m k = rget m k := by
  unfold ctorShaped at h
  unfold normGet
  cases ha : rget m anyKey with
  | some d =>
    simp only [ha, List.all_eq_true, beq_iff_eq] at h
    by_cases hk : k = anyKey
    · simp [hk, ha]
    · simp only [hk, if_false]
      symm
      apply rget_none_of_not_mem
      intro hm
      exact hk (h k hm)
  | none =>
    simp only [ha, Bool.and_eq_true, Option.isNone_iff_eq_none] at h
    obtain ⟨⟨h1, h2⟩, h3⟩ := h
    by_cases hk : k = ""
    · simp [hk, h3]
    · simp only [hk, if_false]
      cases hg : rget m k with
      | some d => rfl
      | none =>
        simp only
        -- k is neither default key (both are present in m), so base has nothing for it
        have hk1 : k ≠ panicKey := fun e => by rw [e] at hg; simp [hg] at h1
        have hk2 : k ≠ panicNilKey := fun e => by rw [e] at hg; simp [hg] at h2
        simp only [base, rget_rput, hk1, hk2, if_false]
        rfl

/-- invariant of the option fold of NewSupervisor -/
def ctorInv (s : Sup) : Prop :=
  nodupKeys s.rules ∧ panicKey ∈ rkeys s.rules ∧ panicNilKey ∈ rkeys s.rules ∧ "" ∉ rkeys s.rules

def optOK : SupOpt → Prop
  | .directive k _ => k ≠ ""
  | _ => True

theorem ctorInv_base : ctorInv base := by
  refine ⟨?_, ?_, ?_, ?_⟩
  · exact nodupKeys_rput _ _ _ (nodupKeys_rput _ _ _ (by simp [nodupKeys, rkeys]))
  · simp [base, mem_rkeys_rput]
  · simp [base, mem_rkeys_rput]
  · intro h
    simp only [base] at h
    rw [mem_rkeys_rput, mem_rkeys_rput] at h
    rcases h with h | h | h
    · exact absurd h (by decide)
    · exact absurd h (by decide)
    · simp [rkeys] at h

theorem ctorInv_applyOpt (s : Sup) (o : SupOpt) (h : ctorInv s) (ho : optOK o) : ctorInv (applyOpt s o) := by
  obtain ⟨h1, h2, h3, h4⟩ := h
  cases o with
  | strategy st => exact ⟨h1, h2, h3, h4⟩
  | retry n t => exact ⟨h1, h2, h3, h4⟩
  | backoff i m r =>
    simp only [applyOpt]
    split
    · exact ⟨h1, h2, h3, h4⟩
    · exact ⟨h1, h2, h3, h4⟩
  | directive k d =>
    simp only [optOK] at ho
    refine ⟨nodupKeys_rput _ _ _ h1, ?_, ?_, ?_⟩
    · simp only [applyOpt, mem_rkeys_rput]; exact Or.inr h2
    · simp only [applyOpt, mem_rkeys_rput]; exact Or.inr h3
    · simp only [applyOpt, mem_rkeys_rput, not_or]; exact ⟨fun e => ho e.symm, h4⟩
  | anyError d =>
    refine ⟨nodupKeys_rput _ _ _ h1, ?_, ?_, ?_⟩
    · simp only [applyOpt, mem_rkeys_rput]; exact Or.inr h2
    · simp only [applyOpt, mem_rkeys_rput]; exact Or.inr h3
    · simp only [applyOpt, mem_rkeys_rput, not_or]; exact ⟨by decide, h4⟩

theorem ctorInv_fold (s : Sup) (opts : List SupOpt) (h : ctorInv s) (ho : ∀ o ∈ opts, optOK o) :
    ctorInv (opts.foldl applyOpt s) := by
  induction opts generalizing s with
  | nil => exact h
  | cons o os ih =>
    simp only [List.foldl_cons]
    exact ih _ (ctorInv_applyOpt s o h (ho o (by simp))) (fun o' ho' => ho o' (by simp [ho']))

/-- every supervisor `NewSupervisor` returns, whatever the options (directive keys come from
    `reflect.Type.String()` and are never empty), has a constructor-shaped table with unique keys -/
theorem newSupervisor_ctorShaped (opts : List SupOpt) (ho : ∀ o ∈ opts, optOK o) :
    ctorShaped (newSupervisor opts).rules = true ∧ nodupKeys (newSupervisor opts).rules := by
  have hinv := ctorInv_fold base opts ctorInv_base ho
  obtain ⟨h1, h2, h3, h4⟩ := hinv
  unfold newSupervisor collapse
  cases ha : rget (opts.foldl applyOpt base).rules anyKey with
  | some d =>
    simp only
    constructor
    · simp [ctorShaped, rget, rkeys]
    · simp [nodupKeys, rkeys]
  | none =>
    simp only
    refine ⟨?_, h1⟩
    simp only [ctorShaped, ha, Bool.and_eq_true, Option.isNone_iff_eq_none]
    exact ⟨⟨rget_isSome_of_mem _ _ h2, rget_isSome_of_mem _ _ h3⟩, rget_none_of_not_mem _ _ h4⟩

/-! ### reentrancy -/

/-- the reentrancy configuration after the wire: the limit is clamped into uint32 -/
theorem re_roundtrip_exact (m : Mode) (n : Int) :
    decodeRe (encodeRe (Reentrancy.new m n)) = ⟨m, if n ≤ 0 then 0 else if n > maxU32 then maxU32 else n⟩ := by
  simp only [decodeRe, encodeRe, Reentrancy.new, maxU32]
  congr 1
  split <;> split <;> (try split) <;> (try split) <;> omega

/-! ### the whole configuration -/

/-- invariants every configuration built through the public API satisfies (Go types: int64
    durations; Go maps: unique keys; WithExponentialBackoff: normalised triple; WithInitTimeout: only
    positive overrides) -/
structure Inv (d : Defaults) (c : SpawnCfg) : Prop where
  dSup : nodupKeys d.sup.rules ∧ inI64 d.sup.timeout = true ∧ tripleOK d.sup
  dPas : ∀ ns, d.pas = .timeBased ns → inI64 ns = true
  sup : ∀ s, c.sup = some s → nodupKeys s.rules ∧ inI64 s.timeout = true ∧ tripleOK s
  pas : ∀ ns, c.pas = some (.timeBased ns) → inI64 ns = true
  re : ∀ r, c.re = some r → 0 ≤ r.maxInFlight
  init : ∀ t, c.initTimeout = some t → 0 < t ∧ inI64 t = true

/-- equality on every observable accessor (the directive table through its lookup) -/
def obsEq (q p : PidCfg) : Prop :=
  q.sup.strategy = p.sup.strategy ∧ q.sup.maxRetries = p.sup.maxRetries ∧ q.sup.timeout = p.sup.timeout ∧
  q.sup.initialDelay = p.sup.initialDelay ∧ q.sup.maxDelay = p.sup.maxDelay ∧ q.sup.resetAfter = p.sup.resetAfter ∧
  (∀ k, rget q.sup.rules k = rget p.sup.rules k) ∧
  q.pas = p.pas ∧ q.re = p.re ∧ q.stash = p.stash ∧ q.role = p.role ∧ q.deps = p.deps ∧ q.initTimeout = p.initTimeout

def clampRe (r : Reentrancy) : Reentrancy := ⟨r.mode, if r.maxInFlight > maxU32 then maxU32 else r.maxInFlight⟩

theorem pas_roundtrip (p : Passivation) (h : ∀ ns, p = .timeBased ns → inI64 ns = true) : decodePas (encodePas p) = p := by
  cases p with
  | timeBased ns => simp [encodePas, decodePas, dur_roundtrip ns (h ns rfl)]
  | messageCount n => rfl
  | longLived => rfl

/-- **what the re-created actor holds, exactly**, for every configuration: everything, with the
    directive table re-normalised and the reentrancy limit clamped -/
theorem relocate_exact (d : Defaults) (c : SpawnCfg) (hi : Inv d c) :
    let p := configPID d c
    let q := relocate d c
    q.sup.strategy = p.sup.strategy ∧ q.sup.maxRetries = p.sup.maxRetries ∧ q.sup.timeout = p.sup.timeout ∧
    q.sup.initialDelay = p.sup.initialDelay ∧ q.sup.maxDelay = p.sup.maxDelay ∧ q.sup.resetAfter = p.sup.resetAfter ∧
    (∀ k, rget q.sup.rules k = normGet p.sup.rules k) ∧
    q.pas = p.pas ∧ q.re = p.re.map clampRe ∧ q.stash = p.stash ∧ q.role = p.role ∧ q.deps = p.deps ∧
    q.initTimeout = p.initTimeout := by
  intro p q
  have hsup : nodupKeys p.sup.rules ∧ inI64 p.sup.timeout = true ∧ tripleOK p.sup := by
    show nodupKeys (c.sup.getD d.sup).rules ∧ inI64 (c.sup.getD d.sup).timeout = true ∧ tripleOK (c.sup.getD d.sup)
    cases hs : c.sup with
    | none => exact hi.dSup
    | some s => exact hi.sup s hs
  have hq : q.sup = decodeSup (encodeSup p.sup) := rfl
  have hex := sup_roundtrip_exact p.sup hsup.1 hsup.2.1 hsup.2.2
  obtain ⟨e1, e2, e3, e4, e5, e6, e7⟩ := hex
  refine ⟨by rw [hq]; exact e1, by rw [hq]; exact e2, by rw [hq]; exact e3, by rw [hq]; exact e4, by rw [hq]; exact e5,
    by rw [hq]; exact e6, fun k => by rw [hq]; exact e7 k, ?_, ?_, rfl, ?_, rfl, ?_⟩
  · -- passivation
    show decodePas (encodePas p.pas) = p.pas
    apply pas_roundtrip
    intro ns hns
    have : p.pas = c.pas.getD d.pas := rfl
    cases hp : c.pas with
    | none => rw [this, hp] at hns; exact hi.dPas ns hns
    | some x => rw [this, hp] at hns; simp at hns; exact hi.pas ns (by rw [hp, hns])
  · -- reentrancy
    show (((c.re.map fun r => (⟨r.mode, r.maxInFlight⟩ : Reentrancy)).map fun r => encodeRe (Reentrancy.new r.mode r.maxInFlight)).map decodeRe).map
        (fun r => (⟨r.mode, r.maxInFlight⟩ : Reentrancy)) = (c.re.map fun r => (⟨r.mode, r.maxInFlight⟩ : Reentrancy)).map clampRe
    cases hr : c.re with
    | none => rfl
    | some r =>
      have h0 := hi.re r hr
      simp only [Option.map_some, re_roundtrip_exact, clampRe, maxU32]
      congr 2
      split <;> (try split) <;> omega
  · -- role
    show (match (match p.role with | some r => if r = "" then none else some r | none => none) with
          | some r => if r = "" then none else some r | none => none) = p.role
    have : p.role = (match c.role with | some r => if r = "" then none else some r | none => none) := rfl
    rw [this]
    cases c.role with
    | none => rfl
    | some r => by_cases h : r = "" <;> simp [h]
  · -- init timeout
    show (match c.initTimeout.map durNew with | some t => withInitTimeout (durAs t) | none => none) = c.initTimeout
    cases ht : c.initTimeout with
    | none => rfl
    | some t =>
      obtain ⟨h0, h1⟩ := hi.init t ht
      simp [withInitTimeout, dur_roundtrip t h1, h0]

theorem re_wire_exact (r : Reentrancy) (h : 0 ≤ r.maxInFlight) : decodeRe (encodeRe r) = clampRe r := by
  obtain ⟨m, n⟩ := r
  simp only [decodeRe, encodeRe, Reentrancy.new, clampRe, maxU32] at h ⊢
  congr 1
  split <;> split <;> (try split) <;> (try split) <;> omega

/-- **what a remotely spawned actor holds, exactly** (same defaults on both nodes): an explicit
    supervisor is altered exactly as in relocation, an absent one is the target's default -/
theorem remoteSpawn_exact (d : Defaults) (c : SpawnCfg) (hi : Inv d c) :
    let p := configPID d c
    let q := remoteSpawn d c
    (match c.sup with
     | some s => q.sup.strategy = s.strategy ∧ q.sup.maxRetries = s.maxRetries ∧ q.sup.timeout = s.timeout ∧
        q.sup.initialDelay = s.initialDelay ∧ q.sup.maxDelay = s.maxDelay ∧ q.sup.resetAfter = s.resetAfter ∧
        ∀ k, rget q.sup.rules k = normGet s.rules k
     | none => q.sup = p.sup) ∧
    q.pas = p.pas ∧ q.re = p.re.map clampRe ∧ q.stash = p.stash ∧ q.role = p.role ∧ q.deps = p.deps ∧
    q.initTimeout = p.initTimeout := by
  intro p q
  refine ⟨?_, ?_, ?_, rfl, ?_, rfl, ?_⟩
  · cases hs : c.sup with
    | none =>
      show ((c.sup.map encodeSup).map decodeSup).getD d.sup = c.sup.getD d.sup
      rw [hs]; rfl
    | some s =>
      have hq : q.sup = decodeSup (encodeSup s) := by
        show ((c.sup.map encodeSup).map decodeSup).getD d.sup = _
        rw [hs]; rfl
      obtain ⟨h1, h2, h3⟩ := hi.sup s hs
      simp only [hq]
      exact sup_roundtrip_exact s h1 h2 h3
  · show ((c.pas.map encodePas).map decodePas).getD d.pas = c.pas.getD d.pas
    cases hp : c.pas with
    | none => rfl
    | some x =>
      simp only [Option.map_some, Option.getD_some]
      exact pas_roundtrip x (fun ns hns => hi.pas ns (by rw [hp, hns]))
  · show (((c.re.map encodeRe).map decodeRe).map fun r => (⟨r.mode, r.maxInFlight⟩ : Reentrancy)) =
        (c.re.map fun r => (⟨r.mode, r.maxInFlight⟩ : Reentrancy)).map clampRe
    cases hr : c.re with
    | none => rfl
    | some r =>
      simp only [Option.map_some, re_wire_exact r (hi.re r hr)]
  · show (match (match c.role with | some r => if r = "" then none else some r | none => none) with
          | some r => if r = "" then none else some r | none => none) =
        (match c.role with | some r => if r = "" then none else some r | none => none)
    cases c.role with
    | none => rfl
    | some r => by_cases h : r = "" <;> simp [h]
  · show (match (match c.initTimeout with | some t => if t > 0 then some (durNew t) else none | none => none) with
          | some t => withInitTimeout (durAs t) | none => none) = c.initTimeout
    cases ht : c.initTimeout with
    | none => rfl
    | some t =>
      obtain ⟨h0, h1⟩ := hi.init t ht
      simp [withInitTimeout, dur_roundtrip t h1, h0]

/-- the English property: same configuration on every observable accessor, on both routes -/
def C37_full : Prop :=
  ∀ (d : Defaults) (c : SpawnCfg), Inv d c →
    obsEq (relocate d c) (configPID d c) ∧ obsEq (remoteSpawn d c) (configPID d c)

/-- the decidable guard of the partial theorem, on the configuration the local actor holds -/
def guard (p : PidCfg) : Bool :=
  ctorShaped p.sup.rules && (match p.re with | some r => decide (r.maxInFlight ≤ maxU32) | none => true)

theorem relocate_partial (d : Defaults) (c : SpawnCfg) (hi : Inv d c) (hg : guard (configPID d c) = true) :
    obsEq (relocate d c) (configPID d c) := by
  obtain ⟨e1, e2, e3, e4, e5, e6, e7, e8, e9, e10, e11, e12, e13⟩ := relocate_exact d c hi
  simp only [guard, Bool.and_eq_true] at hg
  obtain ⟨g4, g5⟩ := hg
  refine ⟨e1, e2, e3, e4, e5, e6, fun k => by rw [e7 k, normGet_of_ctorShaped _ g4 k], e8, ?_, e10, e11, e12, e13⟩
  rw [e9]
  cases hr : (configPID d c).re with
  | none => rfl
  | some r =>
    rw [hr] at g5
    simp only [decide_eq_true_eq] at g5
    simp only [Option.map_some, clampRe]
    congr 2
    rw [if_neg (by omega)]

theorem remoteSpawn_partial (d : Defaults) (c : SpawnCfg) (hi : Inv d c) (hg : guard (configPID d c) = true) :
    obsEq (remoteSpawn d c) (configPID d c) := by
  obtain ⟨es, e8, e9, e10, e11, e12, e13⟩ := remoteSpawn_exact d c hi
  simp only [guard, Bool.and_eq_true] at hg
  obtain ⟨g4, g5⟩ := hg
  have hre : (remoteSpawn d c).re = (configPID d c).re := by
    rw [e9]
    cases hr : (configPID d c).re with
    | none => rfl
    | some r =>
      rw [hr] at g5
      simp only [decide_eq_true_eq] at g5
      simp only [Option.map_some, clampRe]
      congr 2
      rw [if_neg (by omega)]
  cases hs : c.sup with
  | none =>
    rw [hs] at es
    simp only at es
    exact ⟨by rw [es], by rw [es], by rw [es], by rw [es], by rw [es], by rw [es], fun k => by rw [es], e8, hre, e10, e11, e12, e13⟩
  | some s =>
    rw [hs] at es
    simp only at es
    have hp : (configPID d c).sup = s := by
      show c.sup.getD d.sup = s
      rw [hs]; rfl
    rw [hp] at g4
    obtain ⟨e1, e2, e3, e4, e5, e6, e7⟩ := es
    exact ⟨by rw [hp]; exact e1, by rw [hp]; exact e2, by rw [hp]; exact e3, by rw [hp]; exact e4, by rw [hp]; exact e5,
      by rw [hp]; exact e6, fun k => by rw [hp, e7 k, normGet_of_ctorShaped _ g4 k], e8, hre, e10, e11, e12, e13⟩

/-- the property under the decidable guard, on both routes -/
theorem C37_partial (d : Defaults) (c : SpawnCfg) (hi : Inv d c) (hg : guard (configPID d c) = true) :
    obsEq (relocate d c) (configPID d c) ∧ obsEq (remoteSpawn d c) (configPID d c) :=
  ⟨relocate_partial d c hi hg, remoteSpawn_partial d c hi hg⟩

def dflt : Defaults := ⟨newSupervisor [], .timeBased 120000000000⟩

theorem nodup_newSup (opts : List SupOpt) (ho : ∀ o ∈ opts, optOK o) : nodupKeys (newSupervisor opts).rules :=
  (newSupervisor_ctorShaped opts ho).2

theorem tripleOK_zero (s : Sup) (h1 : s.initialDelay = 0) (h2 : s.maxDelay = 0) (h3 : s.resetAfter = 0) : tripleOK s := by
  refine ⟨Or.inl ⟨h1, h2, h3⟩, ?_, ?_, ?_⟩ <;> simp [h1, h2, h3, inI64, minI64, maxI64]

/-- witness: a supervisor whose table was emptied with the public `Reset()` — the decoder's
    NewSupervisor puts the two default directives back (finding C37-F2) -/
def resetSup : Sup := applyPost (newSupervisor []) .reset
def witness : SpawnCfg := ⟨some resetSup, none, none, false, none, [], none⟩

theorem witness_inv : Inv dflt witness := by
  refine ⟨⟨nodup_newSup [] (by simp), by decide, tripleOK_zero _ rfl rfl rfl⟩, ?_, ?_, ?_, ?_, ?_⟩
  · intro ns h; simp [dflt] at h; subst h; decide
  · intro s h
    simp only [witness, Option.some.injEq] at h
    subst h
    exact ⟨by simp [resetSup, applyPost, nodupKeys, rkeys], by decide, tripleOK_zero _ rfl rfl rfl⟩
  · intro ns h; simp [witness] at h
  · intro r h; simp [witness] at h
  · intro t h; simp [witness] at h

theorem C37_refuted : ¬ C37_full := by
  intro h
  have hobs := (h dflt witness witness_inv).1
  have hk := hobs.2.2.2.2.2.2.1 panicKey
  have hex := (relocate_exact dflt witness witness_inv).2.2.2.2.2.2.1 panicKey
  rw [hex] at hk
  revert hk
  decide

/-- the backoff triple now survives, for every configuration (what fix 1ad4e99 established;
    before it `SupervisorSpec` had no field for it and the triple came back as 0/0/0) -/
theorem C37_backoff_survives (d : Defaults) (c : SpawnCfg) (hi : Inv d c) :
    (relocate d c).sup.initialDelay = (configPID d c).sup.initialDelay ∧
    (relocate d c).sup.maxDelay = (configPID d c).sup.maxDelay ∧
    (relocate d c).sup.resetAfter = (configPID d c).sup.resetAfter := by
  obtain ⟨_, _, _, e4, e5, e6, _⟩ := relocate_exact d c hi
  exact ⟨e4, e5, e6⟩

theorem tripleOK_shape_applyOpt (s : Sup) (o : SupOpt)
    (h : (s.initialDelay = 0 ∧ s.maxDelay = 0 ∧ s.resetAfter = 0) ∨ (0 < s.initialDelay ∧ s.initialDelay ≤ s.maxDelay ∧ 0 < s.resetAfter)) :
    ((applyOpt s o).initialDelay = 0 ∧ (applyOpt s o).maxDelay = 0 ∧ (applyOpt s o).resetAfter = 0) ∨
    (0 < (applyOpt s o).initialDelay ∧ (applyOpt s o).initialDelay ≤ (applyOpt s o).maxDelay ∧ 0 < (applyOpt s o).resetAfter) := by
  cases o with
  | strategy st => exact h
  | retry n t => exact h
  | directive k d => exact h
  | anyError d => exact h
  | backoff i m r =>
    simp only [applyOpt]
    split
    · exact h
    · right
      simp only
      refine ⟨by omega, ?_, ?_⟩
      · split <;> omega
      · split <;> (try split) <;> omega

/-- every supervisor `NewSupervisor` can build, from ANY options, has a constructor-shaped table and a
    normalised backoff triple: the guard's supervisor part and the shape clause of `Inv` -/
theorem C37_constructor_covered (opts : List SupOpt) (ho : ∀ o ∈ opts, optOK o) :
    ctorShaped (newSupervisor opts).rules = true ∧
    (((newSupervisor opts).initialDelay = 0 ∧ (newSupervisor opts).maxDelay = 0 ∧ (newSupervisor opts).resetAfter = 0) ∨
     (0 < (newSupervisor opts).initialDelay ∧ (newSupervisor opts).initialDelay ≤ (newSupervisor opts).maxDelay ∧
      0 < (newSupervisor opts).resetAfter)) := by
  refine ⟨(newSupervisor_ctorShaped opts ho).1, ?_⟩
  have key : ∀ (s : Sup) (os : List SupOpt),
      ((s.initialDelay = 0 ∧ s.maxDelay = 0 ∧ s.resetAfter = 0) ∨ (0 < s.initialDelay ∧ s.initialDelay ≤ s.maxDelay ∧ 0 < s.resetAfter)) →
      (((os.foldl applyOpt s).initialDelay = 0 ∧ (os.foldl applyOpt s).maxDelay = 0 ∧ (os.foldl applyOpt s).resetAfter = 0) ∨
       (0 < (os.foldl applyOpt s).initialDelay ∧ (os.foldl applyOpt s).initialDelay ≤ (os.foldl applyOpt s).maxDelay ∧
        0 < (os.foldl applyOpt s).resetAfter)) := by
    intro s os
    induction os generalizing s with
    | nil => intro h; exact h
    | cons o os ih => intro h; exact ih _ (tripleOK_shape_applyOpt s o h)
  have hk := key base opts (Or.inl ⟨rfl, rfl, rfl⟩)
  have hc : ∀ s : Sup, (collapse s).initialDelay = s.initialDelay ∧ (collapse s).maxDelay = s.maxDelay ∧
      (collapse s).resetAfter = s.resetAfter := by
    intro s; unfold collapse; split <;> simp
  have := hc (opts.foldl applyOpt base)
  show ((collapse _).initialDelay = 0 ∧ (collapse _).maxDelay = 0 ∧ (collapse _).resetAfter = 0) ∨
    (0 < (collapse _).initialDelay ∧ (collapse _).initialDelay ≤ (collapse _).maxDelay ∧ 0 < (collapse _).resetAfter)
  rw [this.1, this.2.1, this.2.2]
  exact hk

/-! ### non-vacuity -/

/-- a non-trivial configuration satisfying the guard: custom directives, retry budget, backoff, time-based
    passivation, reentrancy, stash, role, a dependency, an init timeout -/
def sample : SpawnCfg :=
  ⟨some (newSupervisor [.strategy .oneForAll, .retry 3 5000000000, .backoff 1000 2000 3000, .directive "actor.VerifC37ErrA" .resume]),
   some (.timeBased 3600000000001), some (Reentrancy.new .stashNonReentrant 7), true, some "web", [⟨"d1", "hello"⟩], some 5000000000⟩

example : guard (configPID dflt sample) = true := by decide
example : guard (configPID dflt witness) = false := by decide

end GoaktVerif.C37

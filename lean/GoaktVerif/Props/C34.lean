/-
C34 — Membership events are emitted once and only after rebalancing settles.

"For any history of node-join, node-left and rebalance start/complete notifications, including
 duplicates and reorderings, each departure produces at most one NodeLeft and each arrival at most
 one NodeJoined until the opposite event, the local node never reports itself, and a NodeLeft is
 emitted only after the rebalance epoch covering it completes or its timeout elapses."

Model: Model/C34 (internal/cluster/cluster.go, handleClusterEvent and everything below it), tied to
the real `cluster` struct by the differential run (events of every step + the whole bookkeeping
state).  All theorems quantify over ALL histories (`pre : List Op`, any length, any node ids, any
epoch numbers, duplicates, reorderings); `evAt pre op n` is what node `n` is reported to do by the
call `op` issued after history `pre`, and `run_getElem` (Lemmas/C34b) shows that this is exactly the
entry at position `pre.length` of the executable `run` the driver prints.

The property is FALSE of the current code (`C34_refuted`): the gate fails for a departure that is
handed a stale epoch (findings C34-F1, C34-F3).  `C34_partial` is the full statement under the
decidable guard `guard` (Lemmas/C34c) that excludes exactly these situations; the once-only clauses
and the self clause hold unconditionally (`self_never_joined`, `self_never_left`; before the
self check was added to trackNodeLeftEvent a left notification naming the local node was reported,
finding C34-F2, fixed).
-/
import GoaktVerif.Lemmas.C34d

namespace GoaktVerif.C34
open GoaktVerif.Model.C34 GoaktVerif.Spec.C34

/-! ### "until the opposite event" -/

/-- `op` is a join notification for `n` -/
def isJoinOf (op : Op) (n : Node) : Bool :=
  match op with
  | .join m => m == n
  | _ => false

/-- running `h` from state `s` (first op at position `k`), nothing opposite to NodeJoined(n)
    happens: no left notification for `n`, no NodeLeft(n) emitted -/
def NoOppJ (n : Node) : Nat → St → List Op → Prop
  | _, _, [] => True
  | k, s, x :: xs =>
    isLeftOf x n = false ∧ ((step s (k + 1) x).2 n).left = none ∧ NoOppJ n (k + 1) (step s (k + 1) x).1 xs

/-- nothing opposite to NodeLeft(n) happens: no join notification for `n`, no NodeJoined(n) -/
def NoOppL (n : Node) : Nat → St → List Op → Prop
  | _, _, [] => True
  | k, s, x :: xs =>
    isJoinOf x n = false ∧ ((step s (k + 1) x).2 n).join = none ∧ NoOppL n (k + 1) (step s (k + 1) x).1 xs

/-! ### the local node never reports itself: `self_never_joined`, `self_left_only_if_notified`,
`self_never_left` and `emitted_left_ts` are in Lemmas/C34c -/

/-! ### at most one NodeLeft -/

theorem leftF_runFrom (n : Node) (k : Nat) (s : St) (h : List Op) (hf : (s.loc n).leftF = true) :
    ((runFrom k s h).2.loc n).leftF = true := by
  induction h generalizing k s with
  | nil => simpa [runFrom] using hf
  | cons x xs ih => exact ih _ _ (stepL_leftF_mono _ _ _ _ _ _ hf)

/-- A node is reported as left AT MOST ONCE IN THE WHOLE HISTORY (the left filter is never
    cleared), whatever happens in between. -/
theorem left_once (pre : List Op) (op : Op) (post : List Op) (op' : Op) (n : Node)
    (h : (evAt pre op n).left.isSome = true) : (evAt (pre ++ op :: post) op' n).left = none := by
  obtain ⟨t, ht⟩ := Option.isSome_iff_exists.mp h
  have h1 := (stepL_left_emit _ _ _ _ _ _ t ht).2
  have h2 : ((after (pre ++ op :: post)).loc n).leftF = true := by
    rw [after_append_cons]; exact leftF_runFrom n _ _ post h1
  cases h3 : (evAt (pre ++ op :: post) op' n).left with
  | none => rfl
  | some t' =>
    have := (stepL_left_emit _ _ _ _ _ _ t' h3).1
    rw [h2] at this; cases this

/-! ### at most one NodeJoined until the opposite event -/

theorem joinF_keep_runFrom (n : Node) (k : Nat) (s : St) (h : List Op) (x : Op)
    (hi : ∀ m, LInv (s.loc m)) (hj : (s.loc n).joinF = true) (hno : NoOppJ n k s (h ++ [x])) :
    ((step (runFrom k s h).2 (k + h.length + 1) x).2 n).join = none := by
  induction h generalizing k s with
  | nil =>
    simp only [List.nil_append, NoOppJ] at hno
    exact (stepL_joinF_keep _ _ _ _ _ _ (hi n) hj hno.1 hno.2.1).2
  | cons y ys ih =>
    simp only [List.cons_append, NoOppJ] at hno
    have hk := stepL_joinF_keep _ _ _ _ _ _ (hi n) hj hno.1 hno.2.1
    have := ih (k + 1) (step s (k + 1) y).1 (fun m => stepL_LInv _ _ _ _ _ _ (hi m)) hk.1 hno.2.2
    simp only [runFrom, List.length_cons]
    have e : k + (ys.length + 1) + 1 = k + 1 + ys.length + 1 := by omega
    rw [e]; exact this

/-- Between two NodeJoined(n) there is an opposite event (a left notification for `n` or an
    emitted NodeLeft(n)). -/
theorem join_once (pre : List Op) (op : Op) (post : List Op) (op' : Op) (n : Node)
    (h : (evAt pre op n).join.isSome = true)
    (hno : NoOppJ n (pre.length + 1) (after (pre ++ [op])) (post ++ [op'])) :
    (evAt (pre ++ op :: post) op' n).join = none := by
  obtain ⟨t, ht⟩ := Option.isSome_iff_exists.mp h
  have hj : ((after (pre ++ [op])).loc n).joinF = true := by
    rw [after_snoc]; exact stepL_join_emit _ _ _ _ _ _ t ht
  have := joinF_keep_runFrom n (pre.length + 1) (after (pre ++ [op])) post op'
    (Inv_after (pre ++ [op])).linv hj hno
  simp only [evAt, after_append_cons, List.length_append, List.length_cons]
  rw [after_snoc] at this
  have e : pre.length + (post.length + 1) + 1 = pre.length + 1 + post.length + 1 := by omega
  rw [e]; exact this

/-! ### the gate, as far as it holds for every history -/

/-- For EVERY history: a NodeLeft(n) is emitted only by n's timeout, or when some node-left
    rebalance epoch has been announced as started and as complete (in this call or earlier).
    What the code does not ensure is that this epoch COVERS the departure (see `C34_refuted`). -/
theorem gate_model (pre : List Op) (op : Op) (n : Node) (t : Nat)
    (h : (evAt pre op n).left = some t) :
    op = .overdue n ∨ ∃ e, (∃ m, Op.start .left m e ∈ pre ++ [op]) ∧ Op.complete e ∈ pre ++ [op] := by
  have hi := Inv_after pre
  rcases stepL_left_emit_why _ _ _ _ _ _ t h with h | ⟨e, hce, hcase⟩
  · exact Or.inl h
  · refine Or.inr ⟨e, ?_, ?_⟩
    · rcases hcase with ⟨hep, _⟩ | ⟨rfl, h0, _, _, _⟩ | ⟨_, _, hop⟩
      · obtain ⟨m, hm⟩ := hi.leftEp n e hep; exact ⟨m, List.mem_append_left _ hm⟩
      · obtain ⟨m, hm⟩ := hi.latest h0; exact ⟨m, List.mem_append_left _ hm⟩
      · obtain ⟨m, rfl⟩ := (isStartLeft_iff _ _).mp hop; exact ⟨m, by simp⟩
    · rcases stepG_complete_prov _ _ e hce with h | rfl
      · exact List.mem_append_left _ (hi.complete e h)
      · simp

/-! ### the full statement -/

/-- The full property, for every step of every history. -/
def C34_full : Prop :=
  ∀ (pre : List Op) (op : Op),
    -- the local node never reports itself
    (evAt pre op self).join = none ∧ (evAt pre op self).left = none ∧
    ∀ n : Node,
      -- each departure produces at most one NodeLeft until the opposite event
      (∀ post op', (evAt pre op n).left.isSome = true →
        NoOppL n (pre.length + 1) (after (pre ++ [op])) (post ++ [op']) →
        (evAt (pre ++ op :: post) op' n).left = none) ∧
      -- each arrival produces at most one NodeJoined until the opposite event
      (∀ post op', (evAt pre op n).join.isSome = true →
        NoOppJ n (pre.length + 1) (after (pre ++ [op])) (post ++ [op']) →
        (evAt (pre ++ op :: post) op' n).join = none) ∧
      -- a NodeLeft is emitted only after the epoch covering it completes, or by its timeout
      (∀ t, (evAt pre op n).left = some t → gateOK (pre ++ [op]) pre.length n t = true)

/-- the design-phase witness (F15): `left(A), start(1,left), complete(1), left(B)` where B's
    departure is covered by epoch 2 only — NodeLeft(B) is emitted at once -/
def witnessPre : List Op := [.left 1 1, .start .left 1 1, .complete 1]
def witnessOp : Op := .left 2 2

theorem witness_emits : (evAt witnessPre witnessOp 2).left = some 4 := by decide
theorem witness_gate : gateOK (witnessPre ++ [witnessOp]) witnessPre.length 2 4 = false := by decide

theorem C34_refuted : ¬ C34_full := by
  intro h
  have := (h witnessPre witnessOp).2.2 2 |>.2.2 4 witness_emits
  rw [witness_gate] at this
  cases this

/-- The full statement under the guard: for every history that satisfies `guard` (no newly tracked departure is handed a latest epoch that
    does not cover it; no node-left rebalance-start arrives that does not cover a pending departure). -/
def C34_partial_stmt : Prop :=
  ∀ (pre : List Op) (op : Op), guard (pre ++ [op]) = true →
    (evAt pre op self).join = none ∧ (evAt pre op self).left = none ∧
    ∀ n : Node,
      (∀ post op', (evAt pre op n).left.isSome = true →
        NoOppL n (pre.length + 1) (after (pre ++ [op])) (post ++ [op']) →
        (evAt (pre ++ op :: post) op' n).left = none) ∧
      (∀ post op', (evAt pre op n).join.isSome = true →
        NoOppJ n (pre.length + 1) (after (pre ++ [op])) (post ++ [op']) →
        (evAt (pre ++ op :: post) op' n).join = none) ∧
      (∀ t, (evAt pre op n).left = some t → gateOK (pre ++ [op]) pre.length n t = true)

theorem C34_partial : C34_partial_stmt := by
  intro pre op hg
  refine ⟨self_never_joined pre op, ?_, fun n => ⟨?_, ?_, ?_⟩⟩
  · exact self_never_left pre op
  · intro post op' h _; exact left_once pre op post op' n h
  · intro post op' h hno; exact join_once pre op post op' n h hno
  · intro t ht
    exact gate_step (Inv_after pre) (CovInv_after pre (guard_prefix _ _ hg)) op
      (guard_split pre op [] hg) n t ht

/-! ### the oracle and the theorem are the same predicate -/

/-- `Spec.C34.verdict` is the predicate the check evaluates on the IMPLEMENTATION's output
    (judge mode).  On the model's own run (observed on any duplicate-free node list `U`) it never
    reports a violation when the history satisfies the guard: so an implementation that the judge
    flags on a guarded history differs from the model on that history. -/
theorem verdict_sound (U : List Node) (hU : U.Nodup) (h : List Op) (hg : guard h = true) :
    verdict h (renderRun U h) = none := by
  have hlen : (renderRun U h).length = h.length := by simp [renderRun, run, run_length]
  simp only [verdict, hlen, ne_eq, not_true_eq_false, if_false]
  have := verdictFrom_ok U hU h hg h [] ⟨[], []⟩ rfl ⟨by simp, by simp⟩
  simpa [renderRun, run, after, runFrom] using this

-- test: the judge flags the model's run on the refutation witness (observed on nodes 0,1,2)
example : (verdict (witnessPre ++ [witnessOp]) (renderRun [0, 1, 2] (witnessPre ++ [witnessOp]))).isSome = true := by
  decide

/-! ### non-vacuity -/

-- a two-departure history with a rejoin satisfies the guard, and emits
example : guard [.left 1 1, .left 2 1, .start .left 1 1, .complete 1, .join 1, .start .join 1 2, .complete 2] = true := by decide
example : (evAt [.left 1 1, .left 2 1, .start .left 1 1] (.complete 1) 2).left = some 2 := by decide
-- the guard rejects the witness (at its last op)
example : guard (witnessPre ++ [witnessOp]) = false := by decide
-- hypotheses of `join_once` are satisfiable: join a, start, complete (emits), then a duplicate join
example : (evAt [.join 1, .start .join 1 1] (.complete 1) 1).join.isSome = true := by decide
example : NoOppJ 1 3 (after [.join 1, .start .join 1 1, .complete 1]) ([] ++ [.join 1]) := by
  simp [NoOppJ, isLeftOf]; decide
-- hypothesis of `left_once`
example : (evAt [.left 1 1, .start .left 1 1] (.complete 1) 1).left.isSome = true := by decide

end GoaktVerif.C34

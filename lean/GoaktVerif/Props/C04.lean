/-
C04 — Every mailbox implementation behaves like its sequential specification.

"Under any interleaving of concurrent Enqueue calls with one consumer, each Mailbox implementation
 is linearizable to its documented queue. Every accepted message is dequeued exactly once and from
 the same mailbox; order is FIFO, priority order, or priority-then-arrival order as documented.
 Bounded variants never hold more than their capacity and reject only when full, and the mailbox
 never reports empty while a completed enqueue has not been dequeued."

Models: Model/C04/*.lean, one small-step model per mailbox algorithm (one transition per atomic
operation of the Go code), tied to /repo's current source by controlled-schedule replay on every
check (engine E3).  Specification: Spec/C04.lean (reservation queue, priority queue, history oracle).
-/
import GoaktVerif.Model.C04.All
import GoaktVerif.Lemmas.C04.RQ
import GoaktVerif.Lemmas.C04.UBWf
import GoaktVerif.Lemmas.C04.HeapMbox
import GoaktVerif.Lemmas.C04.LockedInv
import GoaktVerif.Lemmas.C04.RingMain
import GoaktVerif.Lemmas.C04.RingTrace2
import GoaktVerif.Lemmas.C04.SegTrace5
import GoaktVerif.Lemmas.C04.IntakeValues
import GoaktVerif.Lemmas.C04.FairInv
import GoaktVerif.Lemmas.C04.FairCount
import GoaktVerif.Lemmas.C04.FairSub

namespace GoaktVerif.C04
open GoaktVerif.Model.C04 GoaktVerif.Spec.C04

/-! ### the full statement -/

/-- The English property over the models: for every mailbox of the family (with constructor
arguments it is meant for: capacity ≥ 1, a strict weak order as priority function), every set of
thread programs in which each message is enqueued once and only the last thread consumes, and every
schedule that runs all threads to completion, the history of the run (operations with their real-time
intervals, then the sequential drain) passes the oracle: exactly-once, real-time FIFO / priority /
priority-then-arrival order, empty-soundness, capacity. -/
def C04_full : Prop :=
  ∀ (m : MB) (progs : List (List Op)) (sched : List Nat), m.ok → WellFormed progs = true →
    allDone (runSched (initCfg m.algo m.init progs) sched) = true →
    historyOK m.setup (historyOf (runSched (initCfg m.algo m.init progs) sched)) = true

/-! ### witnesses: concrete schedules on which the current code violates a clause
(each one is replayed against the real Go code on every check: corpus/C04/F*.case) -/

private def rep (n t : Nat) : List Nat := List.replicate n t

def runOf (m : MB) (progs : List (List Op)) (sched : List Nat) : Cfg m.algo :=
  runSched (initCfg m.algo m.init progs) sched

/-- what the oracle says about a run: `none` = fine, else the first violated clause -/
def verdictOf (m : MB) (progs : List (List Op)) (sched : List Nat) : Option String :=
  verdict m.setup (historyOf (runOf m progs sched))

def ltNat : Nat → Nat → Bool := fun a b => a < b

/-- F2 (inherent to Vyukov's MPSC list): producer 0 has swapped the tail but not linked its node;
producer 1's enqueue of message 2 is complete; the consumer's Dequeue answers nil and IsEmpty true. -/
def F2_progs : List (List Op) := [[.enq 1 0], [.enq 2 0], [.deq, .emp]]
def F2_sched : List Nat := [0, 0, 1, 1, 1, 2, 2, 2, 2, 0]

theorem F2_unbounded_reports_empty_behind_inflight :
    WellFormed F2_progs = true ∧ allDone (runOf .unbounded F2_progs F2_sched) = true ∧
    ((runOf .unbounded F2_progs F2_sched).threads.map fun t => t.results) = [[.ok], [.ok], [.bool true, .none]] ∧
    verdictOf .unbounded F2_progs F2_sched = some "empty-unsound" := by decide +kernel

/-! The defects F3–F8 found by this check (fair mailbox stranding a sender; bounded priority
mailboxes rejecting while not full; uprio counting outside its critical section; three ways of losing
messages at segment boundaries) have been REPAIRED in /repo (`fix:` commits, see findings/C04.json).
The models mirror the repaired code; the schedules that broke the old code are kept as regression
TESTS (bounded checks by evaluation, not theorems about all schedules): on the repaired models the
oracle accepts them.  The same schedules are replayed on the real code by corpus/C04/F*.case. -/

def F3_progs : List (List Op) := [[.enq 1 1], [.enq 2 1], [.enq 3 1], [.deq, .deq, .deq, .deq]]
def F3_sched : List Nat :=
  rep 10 0 ++ rep 4 1 ++ rep 4 2 ++ rep 16 3 ++ rep 16 3 ++ [1, 2] ++ rep 16 3 ++ rep 15 3

/-- F3 repaired (the scenario on the code after 762e7d2/6fbb6ce: message 1 delivered, messages 2 and 3 counted
but hidden behind producer 1's unlinked node): the sender whose sub-queue looked empty is re-activated by the
nil-branch re-check; all messages are delivered (results latest first) -/
theorem F3_fixed_fair_serves_sender :
    WellFormed F3_progs = true ∧ allDone (runOf .fair F3_progs F3_sched) = true ∧
    ((runOf .fair F3_progs F3_sched).threads.map fun t => t.results) =
      [[.ok], [.ok], [.ok], [.val 3, .val 2, .none, .val 1]] ∧
    verdictOf .fair F3_progs F3_sched = none := by decide +kernel

def F4_progs : List (List Op) := [[.enq 1 0], [.enq 2 0], [.len, .enq 3 0], [.deq]]
def F4_sched : List Nat := [0, 0, 0, 0, 0, 1] ++ rep 7 3 ++ [2, 2, 2, 2, 2, 2]

/-- F4 repaired: capacity 1; e2 is rejected while e1 is inside, e3 is accepted after the dequeue -/
theorem F4_fixed_bounded_priority_accepts_when_not_full :
    WellFormed F4_progs = true ∧ allDone (runOf (.bprio 1 ltNat) F4_progs F4_sched) = true ∧
    ((runOf (.bprio 1 ltNat) F4_progs F4_sched).threads.map fun t => t.results) = [[.ok], [.full], [.ok, .num 0], [.val 1]] ∧
    verdictOf (.bprio 1 ltNat) F4_progs F4_sched = none ∧
    verdictOf (.bsprio 1 ltNat) F4_progs F4_sched = none := by decide +kernel

def F6_progs : List (List Op) := [[.enq 1 0], [.enq 2 0], [.deq, .deq, .emp]]
def F6_sched : List Nat := [0, 1, 1, 2, 2, 2, 2, 2, 0, 1, 1]

/-- F6 repaired: producer 0 parks inside the critical section, so producer 1 is blocked (not
completed) while the consumer sees length 0; no completed enqueue is hidden -/
theorem F6_fixed_uprio_counts_inside_lock :
    WellFormed F6_progs = true ∧ allDone (runOf (.uprio ltNat) F6_progs F6_sched) = true ∧
    verdictOf (.uprio ltNat) F6_progs F6_sched = none := by decide +kernel

def F7_progs : List (List Op) := [[.enq 1 0, .enq 2 0, .enq 3 0], [.deq, .deq, .deq]]
def F7_sched : List Nat := rep 4 0 ++ rep 10 1 ++ rep 18 0 ++ rep 13 1

/-- F7 repaired (segment size 2 in the model): the consumer no longer leaves a segment whose slots
are not all consumed; message 2 is delivered -/
theorem F7_fixed_segmented_no_skip :
    WellFormed F7_progs = true ∧ allDone (runOf (.segmented 2) F7_progs F7_sched) = true ∧
    ((runOf (.segmented 2) F7_progs F7_sched).threads.map fun t => t.results) = [[.ok, .ok, .ok], [.val 2, .none, .val 1]] ∧
    (historyOf (runOf (.segmented 2) F7_progs F7_sched)).drained = [3] ∧
    verdictOf (.segmented 2) F7_progs F7_sched = none := by decide +kernel

def F5_progs : List (List Op) :=
  [[.enq 91 0], [.enq 1 0, .enq 2 0, .enq 3 0, .enq 4 0, .enq 5 0, .enq 6 0], [.deq, .deq, .deq]]
def F5_sched : List Nat := [0] ++ rep 26 1 ++ rep 26 2 ++ rep 4 1 ++ rep 3 0 ++ [0, 0, 0, 0] ++ rep 9 1

/-- F5 repaired: segments are not recycled; the producer with the stale tail pointer retries on the
current tail; all seven messages are delivered -/
theorem F5_fixed_segmented_no_recycling :
    WellFormed F5_progs = true ∧ allDone (runOf (.segmented 2) F5_progs F5_sched) = true ∧
    (historyOf (runOf (.segmented 2) F5_progs F5_sched)).drained = [4, 5, 91, 6] ∧
    verdictOf (.segmented 2) F5_progs F5_sched = none := by decide +kernel

def F8_progs : List (List Op) := [[.enq 1 0, .enq 2 0, .enq 3 0], [.enq 11 0], [.deq, .deq, .deq]]
def F8_sched : List Nat := rep 12 0 ++ rep 9 1 ++ rep 23 2 ++ rep 6 0 ++ [2, 2]

/-- F8 repaired: the retired segment keeps its next link, the late producer's CAS fails -/
theorem F8_fixed_segmented_no_relink :
    WellFormed F8_progs = true ∧ allDone (runOf (.segmented 2) F8_progs F8_sched) = true ∧
    verdictOf (.segmented 2) F8_progs F8_sched = none := by decide +kernel

/-! ### F9, F10 (repaired by 762e7d2 and 6fbb6ce): the fair mailbox counted a message AFTER publishing it

Before 762e7d2 `Enqueue` published into the sender's sub-queue, then added to `length`, then to `pending`.  A
late activation (a producer saw `pending == 1`, its `CAS:active` ran after the sender was served and deactivated
again) listed the sender with `pending == 0`; the consumer then took a message that was published but not
counted: `pending` −1, stored back to 0, +1 by the producer with the sub-queue empty = one too high for ever; the
sender's next message was never delivered (F9); `length` dipped to −1 meanwhile and the `length > 0` guard gave up
another sender (F9b).  Before 6fbb6ce the late activation alone made one Dequeue answer nil while other senders'
completed messages waited (F10).  Found while attempting the counting invariant, which was false of that code.
The models mirror the repaired code; the three schedules (completed so that every thread finishes) are regression
TESTS: the oracle accepts them, nothing is left in the mailbox.  Replayed on the real code by corpus/C04/F9*, F10*. -/

def F9_progs : List (List Op) := [[.enq 1 1, .enq 4 1], [.enq 2 1], [.enq 3 1], [.deq, .deq, .deq, .deq, .deq]]
def F9_sched : List Nat :=
  rep 10 0 ++ rep 13 3 ++ rep 5 1 ++ rep 21 3 ++ rep 3 2 ++ rep 5 1 ++ rep 16 3 ++ rep 7 2 ++ rep 12 3 ++ rep 5 0 ++
  rep 2 3 ++ [0, 3, 0, 3, 0, 3, 0, 0]

/-- F9 repaired: every message the consumer can see is counted; message 4 is delivered by the final drain,
`pending` of sender 1 ends at 1 − … = the one message left before the drain, `Len()` after the drain is 0 -/
theorem F9_fixed_fair_counts_before_publishing :
    WellFormed F9_progs = true ∧ allDone (runOf .fair F9_progs F9_sched) = true ∧
    (historyOf (runOf .fair F9_progs F9_sched)).drained = [4] ∧
    (historyOf (runOf .fair F9_progs F9_sched)).finalLen = 0 ∧
    verdictOf .fair F9_progs F9_sched = none := by decide +kernel

def F9b_progs : List (List Op) :=
  [[.enq 1 2], [.enq 2 2], [.enq 3 2], [.enq 5 1], [.enq 6 1], [.deq, .deq, .deq, .deq, .deq]]
def F9b_sched : List Nat :=
  rep 10 0 ++ rep 13 5 ++ rep 5 1 ++ rep 21 5 ++ rep 3 2 ++ rep 5 1 ++ rep 16 5 ++ rep 2 3 ++ rep 10 4 ++ rep 12 5 ++
  rep 3 3 ++ rep 7 2 ++ rep 16 5 ++ [3, 5, 3, 5, 3, 5, 3, 3]

/-- F9b repaired: `length` never dips, sender 1 keeps its activation; 5 and 6 are delivered -/
theorem F9b_fixed_fair_length_does_not_dip :
    WellFormed F9b_progs = true ∧ allDone (runOf .fair F9b_progs F9b_sched) = true ∧
    (historyOf (runOf .fair F9b_progs F9b_sched)).drained = [6, 5] ∧
    (historyOf (runOf .fair F9b_progs F9b_sched)).finalLen = 0 ∧
    verdictOf .fair F9b_progs F9b_sched = none := by decide +kernel

def F10_progs : List (List Op) := [[.enq 1 1], [.enq 2 1], [.enq 3 2], [.deq, .deq, .len, .deq, .deq]]
def F10_sched : List Nat :=
  rep 10 0 ++ rep 13 3 ++ rep 5 1 ++ rep 21 3 ++ rep 5 1 ++ rep 10 2 ++ rep 29 3

/-- F10 repaired: the sender listed by the late activation has nothing counted and is skipped; the Dequeue after
`Len() = 1` delivers 3, the last one answers nil on an empty mailbox (results latest first) -/
theorem F10_fixed_fair_skips_idle_sender :
    WellFormed F10_progs = true ∧ allDone (runOf .fair F10_progs F10_sched) = true ∧
    ((runOf .fair F10_progs F10_sched).threads.map fun t => t.results) =
      [[.ok], [.ok], [.ok], [.none, .val 3, .num 1, .val 2, .val 1]] ∧
    verdictOf .fair F10_progs F10_sched = none := by decide +kernel

/-- The full property is FALSE of the current code: F2 is inherent to the algorithm of the default
mailbox (the clause "never reports empty while a completed enqueue has not been dequeued" cannot
hold for Vyukov's list). -/
theorem C04_refuted : ¬ C04_full := by
  intro h
  have := h .unbounded F2_progs F2_sched trivial (by decide) (by decide)
  revert this
  decide

/-! ### what holds: the reservation-queue specification (all event sequences) -/

/-- FIFO in reservation order and exactly-once on the specification every Vyukov-style mailbox is
simulated by: what has been dequeued is a prefix of the reservation sequence. -/
theorem C04_spec_fifo (evs : List Ev) (q : RQ) (h : RQ.run [] evs = some q) :
    reservedOf evs = dequeuedOf evs ++ q.map Cell.val := rq_fifo evs q h

example : RQ.run [] [.reserve 1, .reserve 2, .publish 2, .deq none, .publish 1, .deq (some 1)] = some [.ready 2] := by decide +kernel

/-! ### UnboundedMailbox (Vyukov MPSC list): forward simulation for ALL schedules

Any number of producers, one consumer, arbitrary programs, schedules of any length.  Abstraction:
the chain from `head` following `next`, extended through the links parked producers are about to
store; linearization points `Swap:tail` = reserve, publishing `Store:next` = publish, `Store:head` =
dequeue, a nil `Load:next` of Dequeue = dequeue answering nothing (`UB.evOf`).  Invariant `UB.Inv`:
the extended chain from `head` reaches `tail` through distinct nodes, every parked producer's
`(v, prev)` is a pending link of the chain, ids still to be enqueued are outside the chain, the
retired sentinel is referenced by nobody. -/

open UB in
/-- one step of ANY thread is matched by the reservation queue (or is a stutter) -/
theorem unbounded_forward_simulation (ct tid : Nat) (c : Cf) (cells : List Cell) (h : Inv ct c cells) :
    ∃ cells', specStep cells (stepEv c tid) = some cells' ∧ Inv ct (stepCfg c tid) cells' :=
  step_sim ct tid c cells h

open UB in
theorem deqd_init (ct : Nat) (progs : List (List Op)) : deqd (initCfg Unbounded.algo Unbounded.init progs) ct = [] := by
  unfold deqd
  cases h : (initCfg Unbounded.algo Unbounded.init progs).threads[ct]? with
  | none => rfl
  | some t =>
    obtain ⟨p, k, _, ht⟩ := spawn_get Unbounded.algo progs 0 ct t h
    subst ht
    show deqdT (mkThread Unbounded.algo p k) = []
    unfold deqdT
    rw [mk_hist]
    rcases mk_pc p k with h' | ⟨op, _, h'⟩
    · rw [h']; rfl
    · rw [h']; cases op <;> rfl

open UB in
/-- LINEARIZABILITY to the reservation queue, exactly-once and FIFO, for every schedule:
the events of the run are a run of the specification; the values returned by `Dequeue`, in order,
are the successful dequeues of that run; they are a PREFIX of the reservation sequence (FIFO in
reservation order), which has no repetition (each message at most once), the rest being exactly the
cells still inside; and a message whose `Enqueue` returned is already dequeued or a READY cell
(never lost). -/
theorem unbounded_linearizable (ct : Nat) (progs : List (List Op)) (sched : List Nat) (wf : UBWellFormed ct progs) :
    ∃ cells : List Cell,
      let c0 : Cf := initCfg Unbounded.algo Unbounded.init progs
      let evs := evTrace c0 sched
      RQ.run [] evs = some cells ∧ Inv ct (runSched c0 sched) cells ∧
      deqd (runSched c0 sched) ct = dequeuedOf evs ∧
      reservedOf evs = dequeuedOf evs ++ cells.map Cell.val ∧
      (reservedOf evs).Nodup ∧
      (∀ (i : Nat) (t : Th) (d : Done) (v k : Nat), (runSched c0 sched).threads[i]? = some t → d ∈ t.hist →
          d.op = .enq v k → d.res = .ok → v ∈ dequeuedOf evs ∨ Cell.ready v ∈ cells) := by
  obtain ⟨cells, hT⟩ := tinv_run ct sched _ [] [] (tinv_init wf)
  simp only [List.nil_append] at hT
  refine ⟨cells, hT.run, hT.inv, ?_, rq_fifo _ _ hT.run, hT.resNodup, hT.accepted⟩
  rw [deqd_run ct sched _ [] (inv_init wf), deqd_init]; rfl

open UB in
/-- each message is dequeued at most once -/
theorem unbounded_dequeued_nodup (ct : Nat) (progs : List (List Op)) (sched : List Nat) (wf : UBWellFormed ct progs) :
    (deqd (runSched (initCfg Unbounded.algo Unbounded.init progs : Cf) sched) ct).Nodup := by
  obtain ⟨cells, _, _, h3, h4, h5, _⟩ := unbounded_linearizable ct progs sched wf
  rw [h3]
  rw [h4] at h5
  exact (List.nodup_append.mp h5).1

open UB in
/-- the clause that survives of "never reports empty while a completed enqueue has not been
dequeued": if `head.next` is nil — what IsEmpty and a nil Dequeue read — and NO enqueue is between
its reservation and its publication, then every reserved message has been dequeued. (Without the
guard the clause is false: `F2_unbounded_reports_empty_behind_inflight`.) -/
theorem C04_empty_sound_partial (ct : Nat) (progs : List (List Op)) (sched : List Nat) (wf : UBWellFormed ct progs) :
    let c0 : Cf := initCfg Unbounded.algo Unbounded.init progs
    let c := runSched c0 sched
    c.sh.next c.sh.head = none →
    (∀ (i : Nat) (t : Th) (v p : Nat), c.threads[i]? = some t → t.pc ≠ some (Unbounded.PC.enq3 v p)) →
    reservedOf (evTrace c0 sched) = deqd c ct := by
  intro c0 c hnil hquiet
  obtain ⟨cells, _, hI, h3, h4, _, _⟩ := unbounded_linearizable ct progs sched wf
  have : cells = [] := empty_sound_partial hI hnil hquiet
  subst this
  rw [h3]; simpa using h4

open UB in
/-- pooled-node reuse cannot alias a live cell: when Dequeue resets and pools the old sentinel it
is not a node of the queue, not `tail`, not owned by a pending enqueue, and nobody is about to write
its `next` field -/
theorem unbounded_recycled_not_aliased (ct : Nat) (progs : List (List Op)) (sched : List Nat) (wf : UBWellFormed ct progs)
    (i : Nat) (t : Th) (h n : Nat) :
    let c := runSched (initCfg Unbounded.algo Unbounded.init progs : Cf) sched
    c.threads[i]? = some t → t.pc = some (Unbounded.PC.deq4 h n) →
    h ≠ c.sh.head ∧ h ≠ c.sh.tail ∧
    (∀ (j : Nat) (tj : Th), c.threads[j]? = some tj → h ∉ owned tj) ∧
    (∀ (j : Nat) (tj : Th) (v : Nat), c.threads[j]? = some tj → tj.pc ≠ some (Unbounded.PC.enq3 v h)) := by
  intro c hi hpc
  obtain ⟨cells, _, hI, _⟩ := unbounded_linearizable ct progs sched wf
  obtain ⟨h1, h2, h3, h4⟩ := recycled_not_aliased hI hi hpc
  exact ⟨fun e => h1 (by rw [e]; exact List.mem_cons_self), h2, h3, h4⟩

/-- the hypothesis is the executable well-formedness of `C04_full` (consumer = last thread) … -/
theorem wellFormed_hyp (progs : List (List Op)) (h : WellFormed progs = true) :
    UB.UBWellFormed (progs.length - 1) progs := UB.ubWellFormed_of_wellFormed progs h

/-- … and is satisfiable non-trivially: the programs of the F2 witness (2 producers, 1 consumer) -/
example : UB.UBWellFormed 2 F2_progs := wellFormed_hyp F2_progs (by decide)

/-! ### priority mailboxes: heap refinement, all op sequences and all schedules

`container/heap` and goakt's `stableHeap` (one generic model, Model/C04/Heap.lean) refine a priority
queue for every sequence of pushes and pops (Lemmas/C04/HeapCorrect*.lean: `push_inv`, `pop_inv`,
`pop_min`, `pop_perm`); the priority function is an ARBITRARY strict weak order (hypothesis).  In the
mailbox models the slice is only touched through `push`/`pop`, so heap order holds in every
reachable configuration of every schedule, and each removal takes a minimum of what the heap holds. -/

open HeapMbox Heap in
/-- `UnboundedPriorityMailBox`: in every reachable configuration the slice is a heap; whatever
`hp.Pop` removes is outranked by nothing that stays, and nothing is lost or invented (permutation) -/
theorem uprio_priority_order (lt : Nat → Nat → Bool) (h : StrictWeak lt) (progs : List (List Op))
    (c : Cfg (Locked.algo lt)) (hr : Reach (Locked.algo lt) (initCfg (Locked.algo lt) Locked.init progs) c) :
    HeapInv lt c.sh.heap ∧
    ∀ x rest, Model.C04.Heap.pop lt c.sh.heap = some (x, rest) →
      (x :: rest).Perm c.sh.heap ∧ (∀ y ∈ rest, lt y x = false) ∧ HeapInv lt rest := by
  have hs := swo_of_strictWeak h
  have hi := locked_heapInv hs progs c hr
  exact ⟨hi, fun x rest hp => ⟨pop_perm _ x rest hp, pop_min hs _ x rest hi hp, pop_inv hs _ x rest hi hp⟩⟩

open HeapMbox Heap in
/-- the three intake-based priority mailboxes (bounded, bounded stable, unbounded stable): same
statement for the consumer-private heap, with the entry order `ltItem` -/
theorem intake_priority_order (k : Intake.Conf) (h : StrictWeak k.lt) (progs : List (List Op))
    (c : Cfg (Intake.algo k)) (hr : Reach (Intake.algo k) (initCfg (Intake.algo k) Intake.init progs) c) :
    HeapInv k.ltItem c.sh.heap ∧
    ∀ x rest, Model.C04.Heap.pop k.ltItem c.sh.heap = some (x, rest) →
      (x :: rest).Perm c.sh.heap ∧ (∀ y ∈ rest, k.ltItem y x = false) ∧ HeapInv k.ltItem rest := by
  have hs := swo_ltItem (swo_of_strictWeak h)
  have hi := intake_heapInv (swo_of_strictWeak h) progs c hr
  exact ⟨hi, fun x rest hp => ⟨pop_perm _ x rest hp, pop_min hs _ x rest hi hp, pop_inv hs _ x rest hi hp⟩⟩

open HeapMbox in
/-- priority-THEN-ARRIVAL for the stable variants: the removed entry `x` is outranked by nothing, and
an entry of the same priority that stays has a later arrival number -/
theorem stable_priority_then_arrival (k : Intake.Conf) (hst : k.stable = true) (h : StrictWeak k.lt)
    (progs : List (List Op)) (c : Cfg (Intake.algo k))
    (hr : Reach (Intake.algo k) (initCfg (Intake.algo k) Intake.init progs) c)
    (x : Nat × Nat) (rest : List (Nat × Nat)) (hp : Model.C04.Heap.pop k.ltItem c.sh.heap = some (x, rest)) :
    ∀ y ∈ rest, k.lt y.1 x.1 = false ∧ (k.lt x.1 y.1 = true ∨ x.2 ≤ y.2) := by
  intro y hy
  have := (intake_priority_order k h progs c hr).2 x rest hp
  have hyx := this.2.1 y hy
  unfold Intake.Conf.ltItem at hyx
  simp only [hst, ↓reduceIte] at hyx
  rw [stableLt_false] at hyx
  exact ⟨hyx.1, hyx.2.imp id (by omega)⟩

open HeapMbox in
/-- bounded priority mailboxes (repaired code): the length counter never exceeds the capacity, in
every reachable configuration; a producer only increments after reading a value below the capacity
(so `ErrMailboxFull` is answered only when `length ≥ capacity` was read) -/
theorem bounded_priority_capacity (k : Intake.Conf) (cap : Nat) (hk : k.cap = some cap) (progs : List (List Op))
    (c : Cfg (Intake.algo k)) (hr : Reach (Intake.algo k) (initCfg (Intake.algo k) Intake.init progs) c) :
    c.sh.length ≤ (cap : Int) :=
  (bounded_length_le_cap k cap hk progs c hr).1

/-- the strict-weak-order hypothesis is satisfiable non-trivially, with ties: the harness's `d2`
(compare `id / 2`) -/
example : StrictWeak (fun a b => decide (a / 2 < b / 2)) := by
  refine ⟨by simp, ?_, ?_⟩
  · intro a b c h1 h2; simp only [decide_eq_true_eq] at *; omega
  · intro a b c h1 h2 h3 h4; simp only [decide_eq_false_iff_not, decide_eq_true_eq] at *; omega

/-- sequential refinement for ALL operation sequences: starting from the empty slice, any sequence of
`Push x` (`some x`) and `Pop` (`none`) keeps heap order — hence every `Pop` returns a minimum
(`Heap.pop_min`) and removes exactly that element (`Heap.pop_perm`) -/
def runHeap {α : Type} (lt : α → α → Bool) : List α → List (Option α) → List α
  | xs, [] => xs
  | xs, some x :: ops => runHeap lt (Model.C04.Heap.push lt xs x) ops
  | xs, none :: ops =>
    match Model.C04.Heap.pop lt xs with
    | some (_, rest) => runHeap lt rest ops
    | none => runHeap lt xs ops

theorem heap_all_sequences {α : Type} {lt : α → α → Bool} (h : Heap.SWO lt) (ops : List (Option α)) :
    ∀ xs, Heap.HeapInv lt xs → Heap.HeapInv lt (runHeap lt xs ops) := by
  induction ops with
  | nil => intro xs hx; exact hx
  | cons op ops ih =>
    intro xs hx
    cases op with
    | some x => exact ih _ (Heap.push_inv h xs x hx)
    | none =>
      simp only [runHeap]
      split
      · next x rest hp => exact ih _ (Heap.pop_inv h xs x rest hx hp)
      · exact ih _ hx

/-! ### `UnboundedPriorityMailBox` after the repair (7b434ae): the counter is exact -/

/-- in every reachable configuration (all programs, all schedules): the critical section is held by
at most one thread; with the lock free `length` equals the heap size; and whenever `length` reads 0
— what `IsEmpty` and the guard of `Dequeue` read — the heap is empty, except possibly for the single
message of an Enqueue that is still inside its critical section and has NOT returned.  Hence no
completed Enqueue is ever hidden from IsEmpty/Dequeue (the clause F6 violated before the repair). -/
theorem uprio_empty_sound (lt : Nat → Nat → Bool) (progs : List (List Op))
    (c : Cfg (Locked.algo lt)) (hr : Reach (Locked.algo lt) (initCfg (Locked.algo lt) Locked.init progs) c) :
    (c.sh.locked = false → c.sh.length = c.sh.heap.length) ∧
    (∀ (i j : Nat) (ti tj : Thread Locked.PC), c.threads[i]? = some ti → c.threads[j]? = some tj →
        LockedInv.atCrit ti.pc = true → LockedInv.atCrit tj.pc = true → i = j) ∧
    (c.sh.length = 0 → c.sh.heap = [] ∨
        (c.sh.heap.length = 1 ∧ ∃ (i : Nat) (t : Thread Locked.PC), c.threads[i]? = some t ∧ t.pc = some .enq2)) := by
  have hI := LockedInv.inv_reach progs c hr
  exact ⟨hI.free, hI.uniq, LockedInv.zero_means_empty hI⟩

/-! ### `NonBlockingBoundedMailbox` (Vyukov bounded ring): structural invariants for all schedules

Owicki–Gries proof (`reach_og`): `RingInv.P` on the shared state, `RingInv.J` on every thread (its
program counter and locals), `RingInv.K` between two producers, for any number of producers, one
consumer, arbitrary programs and all schedules.  NOT proved for the ring: the simulation to the
reservation queue (values / exactly-once / FIFO); the ring is tied to the code by the differential. -/

open RingInv in
/-- BOUNDED: in every reachable configuration `rel ≤ dequeuePos ≤ enqueuePos ≤ rel + size`: at most
`size = nextPowerOfTwo(capacity)` positions are reserved and not yet released, whatever the schedule;
free slots carry their next position, reserved ones `p` or `p+1` -/
theorem ring_capacity (ct cap : Nat) (progs : List (List Op)) (wf : RingWF ct progs)
    (c : Cfg Ring.algo) (hr : Reach Ring.algo (initCfg Ring.algo (Ring.init cap) progs) c) :
    2 ≤ c.sh.size ∧ rel c.sh ≤ c.sh.deqPos ∧ c.sh.deqPos ≤ c.sh.enqPos ∧ c.sh.enqPos ≤ rel c.sh + c.sh.size ∧
    (∀ p, c.sh.enqPos ≤ p → p < rel c.sh + c.sh.size → c.sh.seq (p % c.sh.size) = p) ∧
    (∀ p, c.sh.deqPos ≤ p → p < c.sh.enqPos → c.sh.seq (p % c.sh.size) = p ∨ c.sh.seq (p % c.sh.size) = p + 1) := by
  have hP := (ring_inv ct cap progs wf c hr).1
  exact ⟨hP.size2, rel_le _, hP.le1, hP.le2, hP.free, hP.win⟩

open RingInv in
/-- REJECT ONLY WHEN FULL: `Enqueue` answers ErrMailboxFull only from the `Load:seq` step with `dif < 0`;
whenever a thread is at that step and the difference is negative, its position is the current
`enqueuePos` and exactly `size` positions are reserved and unreleased -/
theorem ring_reject_only_when_full (ct cap : Nat) (progs : List (List Op)) (wf : RingWF ct progs)
    (c : Cfg Ring.algo) (hr : Reach Ring.algo (initCfg Ring.algo (Ring.init cap) progs) c)
    (i : Nat) (t : Thread Ring.PC) (v pos : Nat) (hi : c.threads[i]? = some t) (hpc : t.pc = some (.enq2 v pos))
    (hdif : (c.sh.seq (pos % c.sh.size) : Int) - (pos : Int) < 0) :
    pos = c.sh.enqPos ∧ c.sh.enqPos = rel c.sh + c.sh.size := by
  obtain ⟨hP, hJ, _⟩ := ring_inv ct cap progs wf c hr
  exact full_only_when_full hP (hJ i t hi) hpc hdif

open RingInv in
/-- `Dequeue` answers nil only when nothing is reserved or the head position is reserved but unpublished
(the reservation-queue reading of "nothing"; cf. F2) -/
theorem ring_nil_only_when_head_unpublished (ct cap : Nat) (progs : List (List Op)) (wf : RingWF ct progs)
    (c : Cfg Ring.algo) (hr : Reach Ring.algo (initCfg Ring.algo (Ring.init cap) progs) c)
    (i : Nat) (t : Thread Ring.PC) (pos : Nat) (hi : c.threads[i]? = some t) (hpc : t.pc = some (.deq2 pos))
    (hdif : (c.sh.seq (pos % c.sh.size) : Int) - ((pos : Int) + 1) < 0) :
    pos = c.sh.deqPos ∧ (c.sh.deqPos = c.sh.enqPos ∨
      (c.sh.deqPos < c.sh.enqPos ∧ c.sh.seq (c.sh.deqPos % c.sh.size) = c.sh.deqPos)) := by
  obtain ⟨hP, hJ, _⟩ := ring_inv ct cap progs wf c hr
  exact nil_only_when_head_unpublished hP (hJ i t hi) hpc hdif

open RingInv in
/-- NO OVERWRITE / no two owners: a producer's CAS succeeds only for a position whose slot the consumer
has released, and two producers never hold the same reserved position -/
theorem ring_no_overwrite (ct cap : Nat) (progs : List (List Op)) (wf : RingWF ct progs)
    (c : Cfg Ring.algo) (hr : Reach Ring.algo (initCfg Ring.algo (Ring.init cap) progs) c) :
    (∀ (i : Nat) (t : Thread Ring.PC) (v pos : Nat), c.threads[i]? = some t → t.pc = some (.enq3 v pos) →
        c.sh.enqPos = pos → pos < rel c.sh + c.sh.size) ∧
    (∀ (i j : Nat) (ti tj : Thread Ring.PC) (v p v' p' : Nat), i ≠ j → c.threads[i]? = some ti → c.threads[j]? = some tj →
        ti.pc = some (.enq4 v p) → tj.pc = some (.enq4 v' p') → p ≠ p') := by
  obtain ⟨hP, hJ, hK⟩ := ring_inv ct cap progs wf c hr
  exact ⟨fun i t v pos hi hpc hcas => reserve_only_released hP (hJ i t hi) hpc hcas,
         fun i j ti tj v p v' p' hij hi hj h1 h2 => hK i j ti tj hij hi hj v p v' p' h1 h2⟩

/-- the hypothesis is satisfiable non-trivially: the last thread is the only one that dequeues -/
example : RingInv.RingWF 2 [[.enq 1 0, .len], [.enq 2 0], [.deq, .emp, .deq]] := by
  intro i p hp hi
  match i, hp with
  | 0, hp => simp at hp; subst hp; simp
  | 1, hp => simp at hp; subst hp; simp
  | 2, _ => exact absurd rfl hi
  | n + 3, hp => simp at hp

open RingInv in
/-- EXACTLY-ONCE and FIFO for the ring, every schedule: with `resv` the messages in the order of the
successful CAS on `enqueuePos` (the reservation order), `enqueuePos` counts them, every reserved and
unclaimed position still holds its message in its slot, and the values returned by `Dequeue` (in
order, including one claimed but not yet returned) are exactly the FIRST `dequeuePos` messages of
`resv` — nothing lost, nothing duplicated, nothing reordered; no assumption that messages differ. -/
theorem ring_fifo_exactly_once (ct cap : Nat) (progs : List (List Op)) (wf : RingWF ct progs) (sched : List Nat) :
    let c0 : Cf := initCfg Ring.algo (Ring.init cap) progs
    let c := runSched c0 sched
    let resv := resvTrace c0 sched
    resv.length = c.sh.enqPos ∧
    (∀ p, c.sh.deqPos ≤ p → p < c.sh.enqPos → c.sh.ctx (p % c.sh.size) = resv[p]?) ∧
    (∀ (t : Thread Ring.PC), c.threads[ct]? = some t → deqdT t = resv.take c.sh.deqPos) := by
  intro c0 c resv
  have h := tr_run ct cap progs wf sched c0 [] Reach.init (tr_init ct cap progs)
  simp only [List.nil_append] at h
  exact ⟨h.len, h.ctx, h.deqd⟩

/-! ### `UnboundedSegmentedMailbox` (repaired code): slot discipline for all schedules

Owicki–Gries proof (`SegInv.P/J/K` through `reach_og`): any number of producers, one consumer,
arbitrary programs, all schedules. -/

open SegInv in
/-- THE HEAD-ADVANCE RULE (what F7 violated): whenever the consumer is about to move `head` to the next
segment (`Store:head`), or has found the segment exhausted (`Load:next`), ALL `segSize` slots of the
segment it leaves have been consumed; and in every segment `deqIdx ≤ min(writeIdx, segSize)` -/
theorem segmented_head_advance_rule (ct n : Nat) (progs : List (List Op)) (wf : SegWF ct progs)
    (c : Cfg Segmented.algo) (hr : Reach Segmented.algo (initCfg Segmented.algo (Segmented.init n) progs) c) :
    (∀ g, (c.sh.segs g).deqIdx ≤ c.sh.segSize ∧ (c.sh.segs g).deqIdx ≤ (c.sh.segs g).writeIdx) ∧
    (∀ (i : Nat) (t : Thread Segmented.PC) (seg nx : Nat), c.threads[i]? = some t → t.pc = some (.d9 seg nx) →
        seg = c.sh.head ∧ (c.sh.segs seg).deqIdx = c.sh.segSize) ∧
    (∀ (i : Nat) (t : Thread Segmented.PC) (seg : Nat), c.threads[i]? = some t → t.pc = some (.d8 seg) →
        seg = c.sh.head ∧ (c.sh.segs seg).deqIdx = c.sh.segSize) := by
  obtain ⟨hP, hJ, _⟩ := seg_inv ct n progs wf c hr
  exact ⟨hP.deqLe, fun i t seg nx hi hpc => (hJ i t hi).d9 seg nx hpc, fun i t seg hi hpc => (hJ i t hi).d8 seg hpc⟩

open SegInv in
/-- NO MESSAGE CAN BE SKIPPED: a producer about to store its message targets a slot that is reserved,
still empty and NOT YET CONSUMED (`deqIdx ≤ idx < segSize`, so by the head-advance rule the consumer
has not left that segment and will reach the slot); two producers never hold the same slot; and the
consumer only clears / counts a slot in which it has seen a message -/
theorem segmented_no_skipped_slot (ct n : Nat) (progs : List (List Op)) (wf : SegWF ct progs)
    (c : Cfg Segmented.algo) (hr : Reach Segmented.algo (initCfg Segmented.algo (Segmented.init n) progs) c) :
    (∀ (i : Nat) (t : Thread Segmented.PC) (v g idx : Nat), c.threads[i]? = some t → t.pc = some (.e3 v g idx) →
        idx < c.sh.segSize ∧ idx < (c.sh.segs g).writeIdx ∧ (c.sh.segs g).deqIdx ≤ idx ∧ (c.sh.segs g).data idx = none) ∧
    (∀ (i j : Nat) (ti tj : Thread Segmented.PC) (v g idx v' g' idx' : Nat), i ≠ j → c.threads[i]? = some ti →
        c.threads[j]? = some tj → ti.pc = some (.e3 v g idx) → tj.pc = some (.e3 v' g' idx') → ¬ (g = g' ∧ idx = idx')) ∧
    (∀ (i : Nat) (t : Thread Segmented.PC) (seg deq v : Nat), c.threads[i]? = some t → t.pc = some (.d5 seg deq v) →
        seg = c.sh.head ∧ deq = (c.sh.segs seg).deqIdx ∧ deq < c.sh.segSize ∧ (c.sh.segs seg).data deq = some v) := by
  obtain ⟨_, hJ, hK⟩ := seg_inv ct n progs wf c hr
  refine ⟨fun i t v g idx hi hpc => (hJ i t hi).e3 v g idx hpc,
    fun i j ti tj v g idx v' g' idx' hij hi hj h1 h2 => (hK i j ti tj hij hi hj).1 v g idx v' g' idx' h1 h2, ?_⟩
  intro i t seg deq v hi hpc
  obtain ⟨a, b, c', _, e⟩ := (hJ i t hi).d5 seg deq v hpc
  exact ⟨a, b, c', e⟩

open SegInv in
/-- the list of segments, every reachable configuration: every linked segment except the last is full
and points to the segment one position later; unlinked (freshly allocated or discarded) segments are
untouched; the consumer has fully consumed the segments before `head` and not touched those after -/
theorem segmented_segment_list (ct n : Nat) (progs : List (List Op)) (wf : SegWF ct progs)
    (c : Cfg Segmented.algo) (hr : Reach Segmented.algo (initCfg Segmented.algo (Segmented.init n) progs) c) :
    P2 c.sh := (seg_inv2 ct n progs wf c hr).1.2

open SegInv in
/-- EXACTLY-ONCE and FIFO for the segmented mailbox, every schedule: with `resv` the messages in the
order in which `Add:writeIdx` handed out slots (the reservation order), the number of reservations
is `ord(last) * segSize + min(writeIdx(last), segSize)`, and the values returned by `Dequeue` (in
order, including one taken out of its slot but not yet returned) are exactly the first
`consumed (+1)` messages of `resv`, where `consumed = ord(head) * segSize + deqIdx(head)` — nothing
lost, nothing duplicated, nothing reordered, across any number of segment boundaries. -/
theorem segmented_fifo_exactly_once (ct n : Nat) (progs : List (List Op)) (wf : SegWF ct progs) (sched : List Nat) :
    let c0 : Cf := initCfg Segmented.algo (Segmented.init n) progs
    let c := runSched c0 sched
    let resv := resvTrace c0 sched
    resv.length = (c.sh.segs c.sh.last).ord * c.sh.segSize + min (c.sh.segs c.sh.last).writeIdx c.sh.segSize ∧
    (∀ (t : Thread Segmented.PC), c.threads[ct]? = some t →
        consumed c.sh + inflight t.pc ≤ resv.length ∧ deqdT t = resv.take (consumed c.sh + inflight t.pc)) ∧
    (∀ g idx, (c.sh.segs g).linked = true → idx < c.sh.segSize → consumed c.sh ≤ pos c.sh g idx → pos c.sh g idx < resv.length →
        (c.sh.segs g).data idx = none ∨ (c.sh.segs g).data idx = resv[pos c.sh g idx]?) := by
  intro c0 c resv
  have h := tr_runS ct n progs wf sched c0 [] Reach.init (tr_initS ct n progs)
  simp only [List.nil_append] at h
  exact ⟨h.len, fun t ht => ⟨h.bound t ht, h.deqd t ht⟩, h.data⟩

/-! ### the Treiber intake of the bounded / stable priority mailboxes: conservation for all schedules -/

open IntakeInv in
/-- in every reachable configuration the chain from `intake.head` through `next` is the (ghost) stack, a
drained batch is disjoint from it, and every thread's locals describe the in-place reversal and the
walk exactly (`IntakeInv.P/J/K`, Owicki–Gries) -/
theorem intake_invariants (k : Intake.Conf) (ct : Nat) (progs : List (List Op)) (wf : IntakeWF ct progs)
    (c : Cfg (Intake.algo k)) (hr : Reach (Intake.algo k) (initCfg (Intake.algo k) Intake.init progs) c) :
    ChainO c.sh.next c.sh.head c.sh.stack ∧ c.sh.stack.Nodup ∧ c.sh.batch.Nodup ∧ (∀ x ∈ c.sh.stack, x ∉ c.sh.batch) :=
  let h := (intake_inv (k := k) ct progs wf c hr).1
  ⟨h.st, h.nd, h.bnd, h.dj⟩

open IntakeInv in
/-- CONSERVATION between Enqueue and the heap, every schedule: with `pushed` the messages in the order of
the successful `CAS:head` (acceptance order) and `inserted` those the consumer has moved into the heap,
`inserted ++ (rest of the current batch) ++ reverse(stack) = pushed`: the heap receives exactly the
accepted messages, each once, in acceptance order; for the stable variants the arrival number given to
the next message is the number of messages inserted so far (so arrival number = position in `pushed`) -/
theorem intake_conservation (k : Intake.Conf) (ct : Nat) (progs : List (List Op)) (wf : IntakeWF ct progs) (sched : List Nat) :
    let c0 : Cfg (Intake.algo k) := initCfg (Intake.algo k) Intake.init progs
    let c := runSched c0 sched
    let evs := traceI c0 sched
    insertedOf evs ++ c.sh.batch.drop c.sh.done ++ c.sh.stack.reverse = pushedOf evs ∧
    (k.stable = true → c.sh.seq = (insertedOf evs).length) := by
  intro c0 c evs
  have h := tri_run (k := k) ct progs wf sched c0 [] Reach.init ⟨rfl, fun _ => rfl, List.Perm.refl _⟩
  simp only [List.nil_append] at h
  exact ⟨h.cons, h.seq⟩

open IntakeInv in
/-- EXACTLY-ONCE for the intake-based priority mailboxes, every schedule (conservation + heap permutation
lemmas + "returned = popped"): the values returned by Dequeue (including one popped but not yet
returned), the heap, the rest of the current batch and the stack together are a PERMUTATION of the
accepted messages (`pushedOf`, the successful `CAS:head` in order).  With `intake_priority_order` /
`stable_priority_then_arrival` (each pop is a minimum; arrival number = acceptance index) this is the
full sequential-queue refinement of these mailboxes. -/
theorem intake_exactly_once (k : Intake.Conf) (ct : Nat) (progs : List (List Op)) (wf : IntakeWF ct progs) (sched : List Nat)
    (t : Thread Intake.PC) (ht : (runSched (initCfg (Intake.algo k) Intake.init progs) sched).threads[ct]? = some t) :
    (deqdT t ++ (runSched (initCfg (Intake.algo k) Intake.init progs) sched).sh.heap.map Prod.fst ++
      (runSched (initCfg (Intake.algo k) Intake.init progs) sched).sh.batch.drop
        (runSched (initCfg (Intake.algo k) Intake.init progs) sched).sh.done ++
      (runSched (initCfg (Intake.algo k) Intake.init progs) sched).sh.stack.reverse).Perm
      (pushedOf (traceI (initCfg (Intake.algo k) Intake.init progs) sched)) :=
  exactly_once (k := k) ct progs wf sched t ht

/-! ### UnboundedFairMailbox (repaired): the activation protocol and the counting identity, for ALL schedules

`FairInv.ActInv c`: every sender with counted messages (`pending > 0`) is active, or some thread is parked at a
site from which it will still (re)check that sender (the producer from its `Add:pending` = 1 through the
publication to its `CAS:active`; the consumer between `Store:active(false)` and its re-check).  Every atomic step
of every thread preserves it except ONE: the nil-branch re-check (`i3`) evaluated while `pending > 0`,
`active = false` and `length ≤ 0` (`FairInv.guardMiss`).  `FairInv.ReachNM` = reachable without such a step.
The counting identity (`fair_counting_identity_partial`) excludes that step on every run on which no message is
consumed before it is counted (`FairInv.ReachNU`); `fair_never_consumes_uncounted` (below) shows that EVERY run of the
repaired code is such a run, so `fair_counting_identity` and `fair_no_stranded_sender` hold for all schedules.  The
theorems named `_partial` keep their hypothesis on the run (they are the lemmas the unconditional ones are made of, and
they also hold of the code before 762e7d2).  NOT proved: that an active sender is in the active list exactly once (the
list structure), hence not yet "every accepted message is eventually returned by Dequeue" for the composite. -/

theorem fair_activation_protocol_partial (progs : List (List Op)) (c : Cfg Fair.algo)
    (h : FairInv.ReachNM (initCfg Fair.algo Fair.init progs) c) :
    ∀ k, (c.sh.boxes k).pending > 0 → (c.sh.boxes k).active = true ∨ FairInv.someoneChecks c k :=
  FairInv.actInv_reach progs c h

/-- no stranded sender: when all threads have finished (nobody is parked anywhere) and no `guardMiss` step
was taken, every sender with counted messages is active -/
theorem fair_no_stranded_sender_when_quiescent_partial (progs : List (List Op)) (c : Cfg Fair.algo)
    (h : FairInv.ReachNM (initCfg Fair.algo Fair.init progs) c) (hd : allDone c = true) :
    ∀ k, (c.sh.boxes k).pending > 0 → (c.sh.boxes k).active = true := by
  intro k hp
  rcases FairInv.actInv_reach progs c h k hp with ha | hc
  · exact ha
  · exact absurd hc (FairInv.quiescent_no_check c hd k)

/-- THE COUNTING IDENTITY, for every schedule on which no message is consumed before it is counted
(`FairInv.ReachNU`: the consumer's `Add:pending(−1)` finds `pending ≥ 1`, finalizeSender's `remaining < 0`
branch is not taken), any number of producers, one consumer `ct`:
`length = Σ_{k<K} pending_k + #{threads between Add:length(+1) and Add:pending(+1)} − #{threads between
Add:length(−1) and Add:pending(−1)}` for a bound `K` beyond which every `pending` is 0, and every `pending`
is non-negative.  Before 762e7d2 the code violated the hypothesis (F9). -/
theorem fair_counting_identity_partial (ct : Nat) (progs : List (List Op)) (wf : FairInv.FairWF ct progs) (c : Cfg Fair.algo)
    (h : FairInv.ReachNU (initCfg Fair.algo Fair.init progs) c) :
    (∃ K, FairInv.Supp c.sh K ∧ c.sh.length = FairInv.sumP K c.sh + FairInv.cnt c.threads) ∧
    (∀ k, 0 ≤ (c.sh.boxes k).pending) :=
  ⟨(FairInv.countInv_reach ct progs wf c h).ident, (FairInv.countInv_reach ct progs wf c h).nonneg⟩

/-- NO STRANDED SENDER on those runs: the identity makes the one bad step of `fair_activation_protocol_partial`
impossible (`pending_k > 0` implies `length > 0` at the re-check), so in every such configuration a sender with
counted messages is active or about to be (re)checked, and active once all threads have finished -/
theorem fair_no_stranded_sender_partial (ct : Nat) (progs : List (List Op)) (wf : FairInv.FairWF ct progs) (c : Cfg Fair.algo)
    (h : FairInv.ReachNU (initCfg Fair.algo Fair.init progs) c) :
    (∀ k, (c.sh.boxes k).pending > 0 → (c.sh.boxes k).active = true ∨ FairInv.someoneChecks c k) ∧
    (allDone c = true → ∀ k, (c.sh.boxes k).pending > 0 → (c.sh.boxes k).active = true) := by
  have hnm := FairInv.reachNU_reachNM ct progs wf c h
  exact ⟨fair_activation_protocol_partial progs c hnm, fun hd => fair_no_stranded_sender_when_quiescent_partial progs c hnm hd⟩

/-! ### the repaired fair mailbox never consumes a message before it is counted — ALL schedules

`FairInv.fair_og` (Owicki–Gries over ghost fields of the model: per sender the reservation order `resvL`, the counting
order `cntL`, the numbers of sub-dequeues `deqd`, of decrements `decd`, and `held` = taken and not yet subtracted): the
sub-queue's head is the `deqd`-th node of `0 :: resvL`, links point to successors, no repetition, everything reserved
has been counted (`Enqueue` counts before it publishes), `pending = |cntL| − decd`, `deqd = decd + held`.  So
`deqd ≤ |resvL| ≤ |cntL|`, and with `held ≥ 1` at the consumer's decrement `pending ≥ 1` there.  Hypotheses: the usage
the property quantifies over — distinct non-zero message ids (`UB.UBWellFormed`), only thread `ct` consumes
(`FairInv.FairWF`); both follow from `WellFormed progs = true` (`fair_wellFormed_hyp`). -/

/-- every reachable configuration is reached without consuming an uncounted message: at the consumer's
`Add:pending(−1)` of sender `k` `pending_k ≥ 1`, and no thread ever stands in finalizeSender's `remaining < 0` branch -/
theorem fair_never_consumes_uncounted (ct : Nat) (progs : List (List Op)) (wf : UB.UBWellFormed ct progs)
    (wf2 : FairInv.FairWF ct progs) (c : Cfg Fair.algo) (h : Reach Fair.algo (initCfg Fair.algo Fair.init progs) c) :
    FairInv.ReachNU (initCfg Fair.algo Fair.init progs) c ∧
    (∀ (i : Nat) (t : Thread Fair.PC) (k n : Nat), c.threads[i]? = some t →
      (t.pc = some (.j2 k n) → 1 ≤ (c.sh.boxes k).pending) ∧ t.pc ≠ some (.j3 k n)) := by
  refine ⟨FairInv.reach_reachNU ct progs wf wf2 c h, fun i t k n ht => ⟨fun hpc => ?_, fun hpc => ?_⟩⟩
  · have := FairInv.reach_noNeg ct progs wf wf2 c h i t _ ht hpc
    simpa [FairInv.noNeg] using this
  · have := FairInv.reach_noNeg ct progs wf wf2 c h i t _ ht hpc
    simp [FairInv.noNeg] at this

/-- THE COUNTING IDENTITY for every schedule (no hypothesis on the run) -/
theorem fair_counting_identity (ct : Nat) (progs : List (List Op)) (wf : UB.UBWellFormed ct progs)
    (wf2 : FairInv.FairWF ct progs) (c : Cfg Fair.algo) (h : Reach Fair.algo (initCfg Fair.algo Fair.init progs) c) :
    (∃ K, FairInv.Supp c.sh K ∧ c.sh.length = FairInv.sumP K c.sh + FairInv.cnt c.threads) ∧
    (∀ k, 0 ≤ (c.sh.boxes k).pending) :=
  fair_counting_identity_partial ct progs wf2 c (FairInv.reach_reachNU ct progs wf wf2 c h)

/-- NO STRANDED SENDER for every schedule: in every reachable configuration a sender with counted messages is
active or some thread is parked where it will still (re)check it; when all threads have finished it is active -/
theorem fair_no_stranded_sender (ct : Nat) (progs : List (List Op)) (wf : UB.UBWellFormed ct progs)
    (wf2 : FairInv.FairWF ct progs) (c : Cfg Fair.algo) (h : Reach Fair.algo (initCfg Fair.algo Fair.init progs) c) :
    (∀ k, (c.sh.boxes k).pending > 0 → (c.sh.boxes k).active = true ∨ FairInv.someoneChecks c k) ∧
    (allDone c = true → ∀ k, (c.sh.boxes k).pending > 0 → (c.sh.boxes k).active = true) :=
  fair_no_stranded_sender_partial ct progs wf2 c (FairInv.reach_reachNU ct progs wf wf2 c h)

/-- per sender, for every schedule: the sub-queue has dequeued no more than it reserved, reserved no more than was
counted, and the counter is exactly counted minus subtracted -/
theorem fair_subqueue_accounting (ct : Nat) (progs : List (List Op)) (wf : UB.UBWellFormed ct progs)
    (wf2 : FairInv.FairWF ct progs) (c : Cfg Fair.algo) (h : Reach Fair.algo (initCfg Fair.algo Fair.init progs) c) (k : Nat) :
    (c.sh.boxes k).deqd ≤ (c.sh.boxes k).resvL.length ∧ (c.sh.boxes k).resvL.length ≤ (c.sh.boxes k).cntL.length ∧
    (c.sh.boxes k).pending = ((c.sh.boxes k).cntL.length : Int) - ((c.sh.boxes k).decd : Int) ∧
    (c.sh.boxes k).deqd = (c.sh.boxes k).decd + (c.sh.boxes k).held ∧ (0 :: (c.sh.boxes k).resvL).Nodup := by
  have hI := (FairInv.fair_og ct progs wf wf2 c h).1 k
  exact ⟨hI.deqd_le, hI.resv_le, hI.pend, hI.cons, hI.nodup⟩

/-- the executable `WellFormed` of `C04_full` implies both usage hypotheses (consumer = last thread) -/
theorem fair_wellFormed_hyp (progs : List (List Op)) (h : WellFormed progs = true) :
    UB.UBWellFormed (progs.length - 1) progs ∧ FairInv.FairWF (progs.length - 1) progs := by
  refine ⟨UB.ubWellFormed_of_wellFormed progs h, ?_⟩
  simp only [WellFormed, Bool.and_eq_true, Bool.not_eq_true', List.all_eq_true] at h
  obtain ⟨_, hcons⟩ := h
  intro i p hp hi op hop
  have hlt : i < progs.length := by
    rcases Nat.lt_or_ge i progs.length with h' | h'
    · exact h'
    · rw [List.getElem?_eq_none h'] at hp; cases hp
  have hmem : p ∈ progs.dropLast := by
    have : progs.dropLast[i]? = some p := by
      rw [List.getElem?_dropLast, if_pos (by omega)]; exact hp
    exact List.mem_of_getElem? this
  have := hcons p hmem op hop
  cases op <;> simp [consumerOnly] at this <;> rfl

/-- the hypothesis is not vacuous: the F3 schedule (three producers of one sender, the consumer running into the
nil-branch re-check) and the F9 schedule (late activation; uncounted consumption before 762e7d2) consume nothing
uncounted on the repaired model, so their final configurations are covered by the two theorems above -/
theorem fair_hypothesis_instances :
    FairInv.ReachNU (initCfg Fair.algo Fair.init F3_progs) (runOf .fair F3_progs F3_sched) ∧
    FairInv.FairWF 3 F3_progs ∧
    FairInv.runNU (initCfg Fair.algo Fair.init F9_progs) F9_sched = true := by
  refine ⟨FairInv.reachNU_run _ _ FairInv.ReachNU.init F3_sched (by decide +kernel), ?_, by decide +kernel⟩
  intro i p hp hi op ho
  match i, hp with
  | 0, hp => simp [F3_progs] at hp; subst hp; simp at ho; subst ho; rfl
  | 1, hp => simp [F3_progs] at hp; subst hp; simp at ho; subst ho; rfl
  | 2, hp => simp [F3_progs] at hp; subst hp; simp at ho; subst ho; rfl
  | 3, _ => exact absurd rfl hi
  | n + 4, hp => simp [F3_progs] at hp

/-- the sub-queue of sender `k` is an UnboundedMailbox driven by nothing but UnboundedMailbox steps taken
on behalf of `k`: every step of the fair mailbox leaves it alone or is exactly one step of that mailbox -/
theorem fair_subqueue_frame (s : Fair.Sh) (pc : Fair.PC) (k : Nat) :
    ((Fair.exec s pc).1.boxes k).mb = (s.boxes k).mb ∨
    ∃ first upc, pc = .ub k first upc ∧ ((Fair.exec s pc).1.boxes k).mb = (Unbounded.exec (s.boxes k).mb upc).1 :=
  FairInv.subqueue_frame s pc k

/-! ### one citation point: every mailbox kind refines its documented sequential queue

`Refines m` collects, per mailbox kind, the all-schedule theorems above in the form other properties
(C01/C02/C03) can cite: what a run of the mailbox's small-step model guarantees about the values
`Dequeue` returns relative to the reservation (acceptance) order, plus capacity / emptiness facts.
Hypotheses are the usage assumptions of each theorem (one consumer thread `ct`; for UnboundedMailbox
additionally each message context enqueued once; a strict weak order as priority function). -/

/-- Treiber-intake conservation, as cited by `Refines` for the three intake-based mailboxes -/
def IntakeConserves (k : Intake.Conf) : Prop :=
  ∀ (ct : Nat) (progs : List (List Op)) (sched : List Nat), IntakeInv.IntakeWF ct progs →
    IntakeInv.insertedOf (IntakeInv.traceI (initCfg (Intake.algo k) Intake.init progs) sched) ++
        (runSched (initCfg (Intake.algo k) Intake.init progs) sched).sh.batch.drop
          (runSched (initCfg (Intake.algo k) Intake.init progs) sched).sh.done ++
        (runSched (initCfg (Intake.algo k) Intake.init progs) sched).sh.stack.reverse =
      IntakeInv.pushedOf (IntakeInv.traceI (initCfg (Intake.algo k) Intake.init progs) sched)

def Refines : MB → Prop
  | .unbounded =>
    -- FIFO reservation queue: Dequeue's values = the specification's dequeues = a prefix of the reservation
    -- sequence, never repeated; accepted messages are dequeued or READY
    ∀ (ct : Nat) (progs : List (List Op)) (sched : List Nat), UB.UBWellFormed ct progs →
      ∃ cells : List Cell,
        RQ.run [] (UB.evTrace (initCfg Unbounded.algo Unbounded.init progs) sched) = some cells ∧
        UB.deqd (runSched (initCfg Unbounded.algo Unbounded.init progs) sched) ct =
          dequeuedOf (UB.evTrace (initCfg Unbounded.algo Unbounded.init progs) sched) ∧
        reservedOf (UB.evTrace (initCfg Unbounded.algo Unbounded.init progs) sched) =
          dequeuedOf (UB.evTrace (initCfg Unbounded.algo Unbounded.init progs) sched) ++ cells.map Cell.val ∧
        (reservedOf (UB.evTrace (initCfg Unbounded.algo Unbounded.init progs) sched)).Nodup
  | .ring cap =>
    -- bounded FIFO: Dequeue's values = the first dequeuePos reservations; at most `size` reserved and unreleased
    ∀ (ct : Nat) (progs : List (List Op)) (sched : List Nat), RingInv.RingWF ct progs →
      let c := runSched (initCfg Ring.algo (Ring.init cap) progs) sched
      let resv := RingInv.resvTrace (initCfg Ring.algo (Ring.init cap) progs) sched
      resv.length = c.sh.enqPos ∧ c.sh.enqPos ≤ RingInv.rel c.sh + c.sh.size ∧
      (∀ (t : Thread Ring.PC), c.threads[ct]? = some t → RingInv.deqdT t = resv.take c.sh.deqPos)
  | .segmented n =>
    -- unbounded FIFO across segments: Dequeue's values = the first `consumed` reservations
    ∀ (ct : Nat) (progs : List (List Op)) (sched : List Nat), SegInv.SegWF ct progs →
      let c := runSched (initCfg Segmented.algo (Segmented.init n) progs) sched
      let resv := SegInv.resvTrace (initCfg Segmented.algo (Segmented.init n) progs) sched
      ∀ (t : Thread Segmented.PC), c.threads[ct]? = some t →
        SegInv.deqdT t = resv.take (SegInv.consumed c.sh + SegInv.inflight t.pc)
  | .uprio lt =>
    -- priority queue under a lock: heap order always, removal = a minimum and exactly that element; exact counter
    StrictWeak lt → ∀ (progs : List (List Op)) (c : Cfg (Locked.algo lt)),
      Reach (Locked.algo lt) (initCfg (Locked.algo lt) Locked.init progs) c →
        Heap.HeapInv lt c.sh.heap ∧
        (∀ x rest, Model.C04.Heap.pop lt c.sh.heap = some (x, rest) → (x :: rest).Perm c.sh.heap ∧ ∀ y ∈ rest, lt y x = false) ∧
        (c.sh.locked = false → c.sh.length = c.sh.heap.length)
  | .usprio lt =>
    IntakeConserves { cap := none, stable := true, lt } ∧
    (StrictWeak lt → ∀ (progs : List (List Op)) (c : Cfg (Intake.algo { cap := none, stable := true, lt })),
      Reach _ (initCfg _ Intake.init progs) c →
        ∀ x rest, Model.C04.Heap.pop (Intake.Conf.ltItem { cap := none, stable := true, lt }) c.sh.heap = some (x, rest) →
          (x :: rest).Perm c.sh.heap ∧ ∀ y ∈ rest, lt y.1 x.1 = false ∧ (lt x.1 y.1 = true ∨ x.2 ≤ y.2))
  | .bprio cap lt =>
    IntakeConserves { cap := some cap, stable := false, lt } ∧
    (StrictWeak lt → ∀ (progs : List (List Op)) (c : Cfg (Intake.algo { cap := some cap, stable := false, lt })),
      Reach _ (initCfg _ Intake.init progs) c →
        c.sh.length ≤ (cap : Int) ∧
        ∀ x rest, Model.C04.Heap.pop (Intake.Conf.ltItem { cap := some cap, stable := false, lt }) c.sh.heap = some (x, rest) →
          (x :: rest).Perm c.sh.heap ∧ ∀ y ∈ rest, lt y.1 x.1 = false)
  | .bsprio cap lt =>
    IntakeConserves { cap := some cap, stable := true, lt } ∧
    (StrictWeak lt → ∀ (progs : List (List Op)) (c : Cfg (Intake.algo { cap := some cap, stable := true, lt })),
      Reach _ (initCfg _ Intake.init progs) c →
        c.sh.length ≤ (cap : Int) ∧
        ∀ x rest, Model.C04.Heap.pop (Intake.Conf.ltItem { cap := some cap, stable := true, lt }) c.sh.heap = some (x, rest) →
          (x :: rest).Perm c.sh.heap ∧ ∀ y ∈ rest, lt y.1 x.1 = false ∧ (lt x.1 y.1 = true ∨ x.2 ≤ y.2))
  | .fair =>
    -- per-sender queues + active list.  (1) each per-sender sub-queue is an UnboundedMailbox: it refines the
    -- FIFO reservation queue in isolation, and (2) inside the fair mailbox it is driven by UnboundedMailbox
    -- steps only; (3) activation protocol: in every configuration reachable without a `guardMiss` step, a
    -- sender with counted messages is active or about to be (re)checked.  The composite exactly-once statement is
    -- checked by the oracle on every run, not proved; see design/C04.md for what is missing
    (∀ (ct tid : Nat) (c : UB.Cf) (cells : List Cell), UB.Inv ct c cells →
      ∃ cells', UB.specStep cells (UB.stepEv c tid) = some cells' ∧ UB.Inv ct (stepCfg c tid) cells') ∧
    (∀ (s : Fair.Sh) (pc : Fair.PC) (k : Nat),
      ((Fair.exec s pc).1.boxes k).mb = (s.boxes k).mb ∨
      ∃ first upc, pc = .ub k first upc ∧ ((Fair.exec s pc).1.boxes k).mb = (Unbounded.exec (s.boxes k).mb upc).1) ∧
    (∀ (progs : List (List Op)) (c : Cfg Fair.algo), FairInv.ReachNM (initCfg Fair.algo Fair.init progs) c →
      ∀ k, (c.sh.boxes k).pending > 0 → (c.sh.boxes k).active = true ∨ FairInv.someoneChecks c k) ∧
    -- (4) on runs without uncounted consumption: the counting identity, and no stranded sender outright
    (∀ (ct : Nat) (progs : List (List Op)), FairInv.FairWF ct progs → ∀ (c : Cfg Fair.algo),
      FairInv.ReachNU (initCfg Fair.algo Fair.init progs) c →
        (∃ K, FairInv.Supp c.sh K ∧ c.sh.length = FairInv.sumP K c.sh + FairInv.cnt c.threads) ∧
        (∀ k, 0 ≤ (c.sh.boxes k).pending) ∧
        (∀ k, (c.sh.boxes k).pending > 0 → (c.sh.boxes k).active = true ∨ FairInv.someoneChecks c k) ∧
        (allDone c = true → ∀ k, (c.sh.boxes k).pending > 0 → (c.sh.boxes k).active = true)) ∧
    -- (5) UNCONDITIONAL, every schedule (distinct non-zero ids, one consumer): no message is consumed before it is
    -- counted, hence the counting identity and no stranded sender in every reachable configuration
    (∀ (ct : Nat) (progs : List (List Op)), UB.UBWellFormed ct progs → FairInv.FairWF ct progs → ∀ (c : Cfg Fair.algo),
      Reach Fair.algo (initCfg Fair.algo Fair.init progs) c →
        FairInv.ReachNU (initCfg Fair.algo Fair.init progs) c ∧
        (∃ K, FairInv.Supp c.sh K ∧ c.sh.length = FairInv.sumP K c.sh + FairInv.cnt c.threads) ∧
        (∀ k, 0 ≤ (c.sh.boxes k).pending) ∧
        (∀ k, (c.sh.boxes k).pending > 0 → (c.sh.boxes k).active = true ∨ FairInv.someoneChecks c k) ∧
        (allDone c = true → ∀ k, (c.sh.boxes k).pending > 0 → (c.sh.boxes k).active = true))



/-- EVERY mailbox kind refines its documented sequential queue, in the sense of `Refines`
(the fair mailbox: its per-sender sub-queues, its activation protocol and its counting identity; its composite
exactly-once statement is tied and judged on every run, not proved) -/
theorem C04_all_refine : ∀ m : MB, Refines m := by
  intro m
  cases m with
  | unbounded =>
    intro ct progs sched wf
    obtain ⟨cells, h1, _, h3, h4, h5, _⟩ := unbounded_linearizable ct progs sched wf
    exact ⟨cells, h1, h3, h4, h5⟩
  | ring cap =>
    intro ct progs sched wf
    obtain ⟨h1, _, h3⟩ := ring_fifo_exactly_once ct cap progs wf sched
    have hr := reach_runSched (initCfg Ring.algo (Ring.init cap) progs) _ Reach.init sched
    exact ⟨h1, (ring_capacity ct cap progs wf _ hr).2.2.2.1, h3⟩
  | segmented n =>
    intro ct progs sched wf c resv t ht
    exact ((segmented_fifo_exactly_once ct n progs wf sched).2.1 t ht).2
  | uprio lt =>
    intro hsw progs c hr
    obtain ⟨h1, h2⟩ := uprio_priority_order lt hsw progs c hr
    exact ⟨h1, fun x rest hp => ⟨(h2 x rest hp).1, (h2 x rest hp).2.1⟩, (uprio_empty_sound lt progs c hr).1⟩
  | usprio lt =>
    refine ⟨fun ct progs sched wf => (intake_conservation _ ct progs wf sched).1, ?_⟩
    intro hsw progs c hr x rest hp
    have h := (intake_priority_order { cap := none, stable := true, lt } hsw progs c hr).2 x rest hp
    exact ⟨h.1, stable_priority_then_arrival { cap := none, stable := true, lt } rfl hsw progs c hr x rest hp⟩
  | bprio cap lt =>
    refine ⟨fun ct progs sched wf => (intake_conservation _ ct progs wf sched).1, ?_⟩
    intro hsw progs c hr
    refine ⟨bounded_priority_capacity { cap := some cap, stable := false, lt } cap rfl progs c hr, ?_⟩
    intro x rest hp
    have h := (intake_priority_order { cap := some cap, stable := false, lt } hsw progs c hr).2 x rest hp
    refine ⟨h.1, ?_⟩
    intro y hy
    have := h.2.1 y hy
    simpa [Intake.Conf.ltItem] using this
  | bsprio cap lt =>
    refine ⟨fun ct progs sched wf => (intake_conservation _ ct progs wf sched).1, ?_⟩
    intro hsw progs c hr
    refine ⟨bounded_priority_capacity { cap := some cap, stable := true, lt } cap rfl progs c hr, ?_⟩
    intro x rest hp
    have h := (intake_priority_order { cap := some cap, stable := true, lt } hsw progs c hr).2 x rest hp
    exact ⟨h.1, stable_priority_then_arrival { cap := some cap, stable := true, lt } rfl hsw progs c hr x rest hp⟩
  | fair =>
    refine ⟨fun ct tid c cells h => unbounded_forward_simulation ct tid c cells h,
      fair_subqueue_frame, fair_activation_protocol_partial, ?_, ?_⟩
    · intro ct progs wf c h
      have h1 := fair_counting_identity_partial ct progs wf c h
      have h2 := fair_no_stranded_sender_partial ct progs wf c h
      exact ⟨h1.1, h1.2, h2.1, h2.2⟩
    · intro ct progs wf wf2 c h
      have h0 := fair_never_consumes_uncounted ct progs wf wf2 c h
      have h1 := fair_counting_identity ct progs wf wf2 c h
      have h2 := fair_no_stranded_sender ct progs wf wf2 c h
      exact ⟨h0.1, h1.1, h1.2, h2.1, h2.2⟩

end GoaktVerif.C04

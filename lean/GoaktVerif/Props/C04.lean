/-
C04 — Every mailbox implementation behaves like its sequential specification.

"Under any interleaving of concurrent Enqueue calls with one consumer, each Mailbox implementation
 is linearizable to its documented queue. Every accepted message is dequeued exactly once and from
 the same mailbox; order is FIFO, priority order, or priority-then-arrival order as documented.
 Bounded variants never hold more than their capacity and reject only when full, and the mailbox
 never reports empty while a completed enqueue has not been dequeued."

Models: Model/C04/*.lean, one small-step model per mailbox algorithm (one transition per atomic
operation of the Go code), tied to /repo's current source by controlled-schedule replay on every
check (engine E3).  Specification: Spec/C04.lean (reservation queue, priority queue, history oracle).
-/
import GoaktVerif.Model.C04.All
import GoaktVerif.Lemmas.C04.RQ

namespace GoaktVerif.C04
open GoaktVerif.Model.C04 GoaktVerif.Spec.C04

/-! ### the full statement -/

/-- The English property over the models: for every mailbox of the family (with constructor
arguments it is meant for: capacity ≥ 1, a strict weak order as priority function), every set of
thread programs in which each message is enqueued once and only the last thread consumes, and every
schedule that runs all threads to completion, the history of the run (operations with their real-time
intervals, then the sequential drain) passes the oracle: exactly-once, real-time FIFO / priority /
priority-then-arrival order, empty-soundness, capacity. -/
def C04_full : Prop :=
  ∀ (m : MB) (progs : List (List Op)) (sched : List Nat), m.ok → WellFormed progs = true →
    allDone (runSched (initCfg m.algo m.init progs) sched) = true →
    historyOK m.setup (historyOf (runSched (initCfg m.algo m.init progs) sched)) = true

/-! ### witnesses: concrete schedules on which the current code violates a clause
(each one is replayed against the real Go code on every check: corpus/C04/F*.case) -/

private def rep (n t : Nat) : List Nat := List.replicate n t

def runOf (m : MB) (progs : List (List Op)) (sched : List Nat) : Cfg m.algo :=
  runSched (initCfg m.algo m.init progs) sched

/-- what the oracle says about a run: `none` = fine, else the first violated clause -/
def verdictOf (m : MB) (progs : List (List Op)) (sched : List Nat) : Option String :=
  verdict m.setup (historyOf (runOf m progs sched))

def ltNat : Nat → Nat → Bool := fun a b => a < b

/-- F2 (inherent to Vyukov's MPSC list): producer 0 has swapped the tail but not linked its node;
producer 1's enqueue of message 2 is complete; the consumer's Dequeue answers nil and IsEmpty true. -/
def F2_progs : List (List Op) := [[.enq 1 0], [.enq 2 0], [.deq, .emp]]
def F2_sched : List Nat := [0, 0, 1, 1, 1, 2, 2, 2, 2, 0]

theorem F2_unbounded_reports_empty_behind_inflight :
    WellFormed F2_progs = true ∧ allDone (runOf .unbounded F2_progs F2_sched) = true ∧
    ((runOf .unbounded F2_progs F2_sched).threads.map fun t => t.results) = [[.ok], [.ok], [.bool true, .none]] ∧
    verdictOf .unbounded F2_progs F2_sched = some "empty-unsound" := by decide +kernel

/-- F3: the fair mailbox strands a sender shared by two producers: both messages are accepted, every
Dequeue (also the final drain) answers nil, `Len()` stays 2. -/
def F3_progs : List (List Op) := [[.enq 1 1], [.enq 2 1], [.deq, .deq, .deq]]
def F3_sched : List Nat := rep 2 0 ++ rep 10 1 ++ rep 9 2 ++ [0, 0, 0, 2, 2, 2, 2]

theorem F3_fair_strands_sender :
    WellFormed F3_progs = true ∧ allDone (runOf .fair F3_progs F3_sched) = true ∧
    (historyOf (runOf .fair F3_progs F3_sched)).drained = [] ∧
    (historyOf (runOf .fair F3_progs F3_sched)).finalLen = 2 ∧
    verdictOf .fair F3_progs F3_sched = some "exactly-once" := by decide +kernel

/-- F4: capacity 1; e2's transient increment makes e3 fail although the mailbox is empty. -/
def F4_progs : List (List Op) := [[.enq 1 0], [.enq 2 0], [.len, .enq 3 0], [.deq]]
def F4_sched : List Nat := [0, 0, 0, 0, 1] ++ rep 7 3 ++ [2, 2, 2, 1]

theorem F4_bounded_priority_rejects_when_not_full :
    WellFormed F4_progs = true ∧ allDone (runOf (.bprio 1 ltNat) F4_progs F4_sched) = true ∧
    verdictOf (.bprio 1 ltNat) F4_progs F4_sched = some "cap" ∧
    verdictOf (.bsprio 1 ltNat) F4_progs F4_sched = some "cap" := by decide +kernel

/-- F6: `UnboundedPriorityMailBox` counts after unlocking: Dequeue/IsEmpty answer empty while
message 2, whose Enqueue returned, is in the heap. -/
def F6_progs : List (List Op) := [[.enq 1 0], [.enq 2 0], [.deq, .deq, .emp]]
def F6_sched : List Nat := [0, 1, 1, 2, 2, 2, 2, 2, 0]

theorem F6_uprio_reports_empty :
    WellFormed F6_progs = true ∧ allDone (runOf (.uprio ltNat) F6_progs F6_sched) = true ∧
    ((runOf (.uprio ltNat) F6_progs F6_sched).threads.map fun t => t.results) = [[.ok], [.ok], [.bool true, .none, .val 1]] ∧
    verdictOf (.uprio ltNat) F6_progs F6_sched = some "empty-unsound" := by decide +kernel

/-- F7 (segment size 2 in the model; the corpus case replays it with the real size 256): the consumer
read `writeIdx` before slot 1 was reserved, then sees `next != nil` and skips message 2. -/
def F7_progs : List (List Op) := [[.enq 1 0, .enq 2 0, .enq 3 0], [.deq, .deq, .deq]]
def F7_sched : List Nat := rep 4 0 ++ rep 10 1 ++ rep 18 0 ++ rep 13 1

theorem F7_segmented_skips_late_slots :
    WellFormed F7_progs = true ∧ allDone (runOf (.segmented 2) F7_progs F7_sched) = true ∧
    ((runOf (.segmented 2) F7_progs F7_sched).threads.map fun t => t.results) = [[.ok, .ok, .ok], [.none, .val 3, .val 1]] ∧
    (historyOf (runOf (.segmented 2) F7_progs F7_sched)).drained = [] ∧
    verdictOf (.segmented 2) F7_progs F7_sched = some "exactly-once" := by decide +kernel

/-- F5: a producer holding a stale tail pointer writes into a recycled segment while `newSegment`
resets it: message 91 is wiped and the queue is wedged behind the nil slot (5 and 6 stranded too). -/
def F5_progs : List (List Op) :=
  [[.enq 91 0], [.enq 1 0, .enq 2 0, .enq 3 0, .enq 4 0, .enq 5 0, .enq 6 0], [.deq, .deq, .deq]]
def F5_sched : List Nat := [0] ++ rep 26 1 ++ rep 26 2 ++ rep 4 1 ++ rep 3 0 ++ rep 24 1

theorem F5_segmented_recycled_segment :
    WellFormed F5_progs = true ∧ allDone (runOf (.segmented 2) F5_progs F5_sched) = true ∧
    (historyOf (runOf (.segmented 2) F5_progs F5_sched)).drained = [4] ∧
    (historyOf (runOf (.segmented 2) F5_progs F5_sched)).finalLen = 3 ∧
    verdictOf (.segmented 2) F5_progs F5_sched = some "exactly-once" := by decide +kernel

/-- F8: the consumer clears `next` of the retired segment; a producer still inside `newSegment`
re-links behind it and moves `tail`: 3 and 11 are unreachable from `head`. -/
def F8_progs : List (List Op) := [[.enq 1 0, .enq 2 0, .enq 3 0], [.enq 11 0], [.deq, .deq, .deq]]
def F8_sched : List Nat := rep 12 0 ++ rep 9 1 ++ rep 23 2 ++ rep 6 0 ++ [0, 0, 0, 0, 1, 1, 1, 1, 1]

theorem F8_segmented_retired_segment_relinked :
    WellFormed F8_progs = true ∧ allDone (runOf (.segmented 2) F8_progs F8_sched) = true ∧
    (historyOf (runOf (.segmented 2) F8_progs F8_sched)).drained = [] ∧
    (historyOf (runOf (.segmented 2) F8_progs F8_sched)).finalLen = 2 ∧
    verdictOf (.segmented 2) F8_progs F8_sched = some "exactly-once" := by decide +kernel

/-- The full property is FALSE of the current code (F2 is inherent to the algorithm of the default
mailbox; F3–F8 are defects with proposed repairs, /verif/fixes/C04-*). -/
theorem C04_refuted : ¬ C04_full := by
  intro h
  have := h .unbounded F2_progs F2_sched trivial (by decide) (by decide)
  revert this
  decide

/-! ### what holds: the reservation-queue specification (all event sequences) -/

/-- FIFO in reservation order and exactly-once on the specification every Vyukov-style mailbox is
simulated by: what has been dequeued is a prefix of the reservation sequence. -/
theorem C04_spec_fifo (evs : List Ev) (q : RQ) (h : RQ.run [] evs = some q) :
    reservedOf evs = dequeuedOf evs ++ q.map Cell.val := rq_fifo evs q h

example : RQ.run [] [.reserve 1, .reserve 2, .publish 2, .deq none, .publish 1, .deq (some 1)] = some [.ready 2] := by decide +kernel

end GoaktVerif.C04

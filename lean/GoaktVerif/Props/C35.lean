/-
C35 — Relocation handoff masking respects caller deadlines.

"A synchronous name-based send that hits a relocating endpoint returns within the caller's
 timeout, and an asynchronous name-based send never blocks or sleeps; both return a retryable
 error when the target cannot be resolved in time."

Model: Model/C35 — the retry loop of actor/relocation_handoff.go (deliverAcrossHandoff +
sleepWithinHandoff) and deliverBypassingHandoff on an ABSTRACT clock.  The four constants are
regenerated from the Go source on every run (Gen/C35) and `cfg_is_source` ties the model's
configuration to them; the loop itself is tied by a one-sided differential run of the real code
(real timers) against a scripted actor system.

PARTIAL: the theorems are about the abstract clock.  Real timers fire late and the goroutine can
be descheduled between a wake-up and the next `time.Until`; then the real call returns later
than the bound by exactly that lateness (the model's `d i`, the cost of the i-th resolution, can
absorb it, see `sync_return_time`).  The theorems quantify over all timeouts, all resolution
scripts `res : Nat → Res` (unbounded), all resolution costs and all start times.
-/
import GoaktVerif.Gen.C35
import GoaktVerif.Lemmas.C35b

namespace GoaktVerif.C35
open GoaktVerif.Model.C35 GoaktVerif.Spec.C35

/-! ### tie: the model's constants are the source's -/

/-- the configuration read from the regenerated constants -/
def cfgGen : Cfg :=
  ⟨Gen.C35.handoffWindow.toNat, Gen.C35.minBackoff.toNat, Gen.C35.maxBackoff.toNat, Gen.C35.notFoundMaskWindow.toNat⟩

/-- the driver's configuration is the source's (a changed constant breaks this proof) -/
theorem cfg_is_source :
    defaultCfg.window = cfgGen.window ∧ defaultCfg.minB = cfgGen.minB ∧
    defaultCfg.maxB = cfgGen.maxB ∧ defaultCfg.nfWindow = cfgGen.nfWindow ∧
    (0 ≤ Gen.C35.handoffWindow ∧ 0 ≤ Gen.C35.minBackoff ∧ 0 ≤ Gen.C35.maxBackoff ∧ 0 ≤ Gen.C35.notFoundMaskWindow) := by
  decide

/-- what the proofs need of the constants: a positive minimal backoff not above the maximal one -/
def CfgOK (cfg : Cfg) : Prop := 0 < cfg.minB ∧ cfg.minB ≤ cfg.maxB

theorem cfgGen_ok : CfgOK cfgGen := by unfold CfgOK; decide

/-! ### the synchronous path -/

section
variable (cfg : Cfg) (maxWait : Nat) (ctxDone : Bool) (res : Nat → Res) (d : Nat → Nat) (t0 : Nat)

/-- The call returns: the loop never runs out of iterations. -/
theorem sync_returns (hc : CfgOK cfg) : (sync cfg maxWait ctxDone res d t0).out ≠ .outOfFuel := by
  unfold sync
  apply loop_returns cfg _ _ _ _ _ hc.1 hc.2
  · exact Nat.le_refl _
  · have hN := budgetN_le cfg (if maxWait > 0 then some (t0 + d 0 + maxWait) else none) (t0 + d 0) none rfl
    have hP : budgetP cfg.minB (t0 + d 0 + if maxWait > 0 ∧ maxWait < cfg.window then maxWait else cfg.window) (t0 + d 0)
        ≤ cfg.window + cfg.minB := by
      simp only [budgetP]
      split <;> split <;> omega
    have := fuelFor_enough cfg hc.1 (cfg.window + cfg.nfWindow) (Nat.le_refl _)
    omega

/-- With a caller timeout, every wait ends by the caller's deadline, so the total time spent
    waiting is at most the timeout. -/
theorem sync_waits_within_timeout (hw : 0 < maxWait) :
    sleepsEndBy (t0 + d 0 + maxWait) (sync cfg maxWait ctxDone res d t0).sleeps = true ∧
    totalSleep (sync cfg maxWait ctxDone res d t0).sleeps ≤ maxWait := by
  have hend : ∀ s ∈ (sync cfg maxWait ctxDone res d t0).sleeps, s.start + s.dur ≤ t0 + d 0 + maxWait := by
    unfold sync
    simp only [hw, if_true]
    apply loop_sleeps_end_by cfg _ _ _ _ _ (t0 + d 0 + maxWait) rfl
    · by_cases h : maxWait < cfg.window
      · simp [h]
      · simp [h]; omega
    · intro x hx; cases hx
    · intro s hs; cases hs
  refine ⟨by simpa [sleepsEndBy] using hend, ?_⟩
  have htot : TotalOK (t0 + d 0) (sync cfg maxWait ctxDone res d t0) := by
    unfold sync
    apply loop_total_sleep <;> simp [lastEnd, totalSleep]
  unfold TotalOK at htot
  cases hrev : (sync cfg maxWait ctxDone res d t0).sleeps.reverse with
  | nil => rw [hrev] at htot; simp only [lastEnd] at htot; omega
  | cons s rest =>
    rw [hrev] at htot; simp only [lastEnd] at htot
    have hmem : s ∈ (sync cfg maxWait ctxDone res d t0).sleeps := by
      have : s ∈ (sync cfg maxWait ctxDone res d t0).sleeps.reverse := by rw [hrev]; simp
      simpa using this
    have := hend s hmem
    omega

/-- Whatever the caller's timeout: waiting on a pinned endpoint takes at most
    min(maxWait, relocationHandoffWindow) in total, waiting on failed resolutions at most
    relocationNotFoundMaskWindow in total. -/
theorem sync_waits_within_windows :
    pSum (sync cfg maxWait ctxDone res d t0).sleeps ≤ cfg.window ∧
    (0 < maxWait → pSum (sync cfg maxWait ctxDone res d t0).sleeps ≤ maxWait) ∧
    nSum (sync cfg maxWait ctxDone res d t0).sleeps ≤ cfg.nfWindow ∧
    totalSleep (sync cfg maxWait ctxDone res d t0).sleeps ≤ cfg.window + cfg.nfWindow := by
  have h : WindowOK cfg (t0 + d 0) (t0 + d 0 + if maxWait > 0 ∧ maxWait < cfg.window then maxWait else cfg.window)
      (sync cfg maxWait ctxDone res d t0) := by
    unfold sync
    apply loop_window
    · omega
    · omega
    · simp [pSum, totalSleep]
    · intro _; simp [nSum, totalSleep]
    · intro D hD; cases hD
  unfold WindowOK at h
  have hsplit := totalSleep_split (sync cfg maxWait ctxDone res d t0).sleeps
  refine ⟨?_, ?_, h.2, ?_⟩
  · have := h.1; split at this <;> omega
  · intro hw; have := h.1; split at this <;> omega
  · have := h.1; split at this <;> omega

/-- The call returns at the end of its last wait plus the cost of the resolution that follows
    it (at once, when it never waited). -/
theorem sync_return_time : ReturnOK d (t0 + d 0) (sync cfg maxWait ctxDone res d t0) := by
  unfold sync
  apply loop_return_time
  · intro _; rfl
  · intro s rest h; cases h

/-- Hence: return time ≤ max(callerDeadline, lastWaitEnd + d), and with instantaneous
    resolutions the call returns within the caller's timeout. -/
theorem sync_returns_within_timeout (hw : 0 < maxWait) (hd : ∀ i, d i = 0) (t : Nat)
    (ht : returnTime (sync cfg maxWait ctxDone res d t0).out = some t) : t ≤ t0 + maxWait := by
  have hr := sync_return_time cfg maxWait ctxDone res d t0 t ht
  have hend := (sync_waits_within_timeout cfg maxWait ctxDone res d t0 hw).1
  simp only [sleepsEndBy, List.all_eq_true, decide_eq_true_eq] at hend
  cases hl : (sync cfg maxWait ctxDone res d t0).sleeps.getLast? with
  | none =>
    have : (sync cfg maxWait ctxDone res d t0).sleeps = [] := by simpa using hl
    have := hr.1 this
    rw [hd 0] at this; omega
  | some s =>
    have h1 := hr.2 s hl
    have h2 := hend s (List.mem_of_getLast? hl)
    rw [hd] at h1 h2; omega

/-- The final delivery is bounded by the caller's deadline (the deliver context carries it). -/
theorem sync_delivery_deadline (hw : 0 < maxWait) (t : Nat) (dl : Option Nat)
    (h : (sync cfg maxWait ctxDone res d t0).out = .delivered t dl) : dl = some (t0 + d 0 + maxWait) := by
  have key : ∀ (fuel i now backoff : Nat) (nfDl : Option Nat) (acc : List Sleep) (rec : Bool) (cd : Option Nat) (dd : Nat),
      (loop cfg cd dd ctxDone res d fuel i now backoff nfDl acc rec).out = .delivered t dl → dl = cd := by
    intro fuel
    induction fuel with
    | zero => intro i now backoff nfDl acc rec cd dd h; simp [loop] at h
    | succ fuel ih =>
      intro i now backoff nfDl acc rec cd dd h
      simp only [loop] at h
      split at h
      · simp at h; exact h.2.symm
      · simp at h
      · simp at h
      · split at h
        · simp at h
        · exact ih _ _ _ _ _ _ _ _ h
      · split at h
        · simp at h
        · exact ih _ _ _ _ _ _ _ _ h
  unfold sync at h
  have := key _ _ _ _ _ _ _ _ _ h
  simpa [hw] using this

/-- When the call gives up it surfaces a retryable error, and which one is decided by the last
    resolution: ErrRelocationInProgress for a pinned endpoint, the (retryable) resolution error
    otherwise; a delivery happens only on a live resolution. -/
theorem sync_outcome : FitsOK res (sync cfg maxWait ctxDone res d t0) := by
  unfold sync; exact loop_outcome_fits _ _ _ _ _ _ _ _ _ _ _ _ _

end

/-! ### the asynchronous path -/

/-- deliverBypassingHandoff resolves once, never waits, and returns ErrRelocationInProgress
    exactly when the (clustered) target sits on a relocating endpoint. -/
theorem async_never_waits (inCluster : Bool) (r : Res) (d0 t0 : Nat) :
    (async inCluster r d0 t0).sleeps = [] ∧ (async inCluster r d0 t0).lookups = 1 ∧
    ((∃ t, (async inCluster r d0 t0).out = .gaveUpRelocating t) ↔ (inCluster = true ∧ r = .pinned)) ∧
    returnTime (async inCluster r d0 t0).out = some (t0 + d0) := by
  cases r <;> cases inCluster <;> simp [async, returnTime]

/-! ### the full statement -/

def C35_full : Prop :=
  ∀ (maxWait : Nat) (ctxDone : Bool) (res : Nat → Res) (d : Nat → Nat) (t0 : Nat),
    let r := sync cfgGen maxWait ctxDone res d t0
    -- the synchronous send returns …
    r.out ≠ .outOfFuel ∧
    -- … never waits past the caller's deadline, nor longer than the timeout in total …
    (0 < maxWait → sleepsEndBy (t0 + d 0 + maxWait) r.sleeps = true ∧ totalSleep r.sleeps ≤ maxWait) ∧
    -- … and never longer than the two masking windows
    totalSleep r.sleeps ≤ cfgGen.window + cfgGen.nfWindow ∧
    -- it returns right after its last wait (plus the resolution that follows it) …
    ReturnOK d (t0 + d 0) r ∧
    -- … so within the timeout when resolutions are instantaneous, and the delivery is bounded too
    (0 < maxWait → (∀ i, d i = 0) → ∀ t, returnTime r.out = some t → t ≤ t0 + maxWait) ∧
    (0 < maxWait → ∀ t dl, r.out = .delivered t dl → dl = some (t0 + d 0 + maxWait)) ∧
    -- the error surfaced is the retryable one that stalled it
    FitsOK res r ∧
    -- the asynchronous send never waits
    (∀ (inCluster : Bool) (r0 : Res) (d0 : Nat),
      (async inCluster r0 d0 t0).sleeps = [] ∧ (async inCluster r0 d0 t0).lookups = 1 ∧
      ((∃ t, (async inCluster r0 d0 t0).out = .gaveUpRelocating t) ↔ (inCluster = true ∧ r0 = .pinned)))

theorem C35_holds : C35_full := by
  intro maxWait ctxDone res d t0
  refine ⟨sync_returns _ _ _ _ _ _ cfgGen_ok, fun hw => sync_waits_within_timeout _ _ _ _ _ _ hw,
    (sync_waits_within_windows _ _ _ _ _ _).2.2.2, sync_return_time _ _ _ _ _ _,
    fun hw hd t ht => sync_returns_within_timeout _ _ _ _ _ _ hw hd t ht,
    fun hw t dl h => sync_delivery_deadline _ _ _ _ _ _ hw t dl h,
    sync_outcome _ _ _ _ _ _, ?_⟩
  intro ic r0 d0
  have := async_never_waits ic r0 d0 t0
  exact ⟨this.1, this.2.1, this.2.2.1⟩

/-! ### non-vacuity / tests (bounded evaluation, labelled as tests) -/

-- test: 120 ms timeout, target pinned forever: waits 50 ms and 70 ms, gives up at 120 ms
example : (sync defaultCfg 120000000 false (fun _ => .pinned) (fun _ => 0) 0).sleeps.map (·.dur) = [50000000, 70000000] := by decide
example : (sync defaultCfg 120000000 false (fun _ => .pinned) (fun _ => 0) 0).out = .gaveUpRelocating 120000000 := by decide
-- test: the hypotheses of `sync_delivery_deadline` are satisfiable
example : (sync defaultCfg 300000000 false (fun i => if i < 2 then .pinned else .live) (fun _ => 0) 0).out
    = .delivered 150000000 (some 300000000) := by decide

end GoaktVerif.C35

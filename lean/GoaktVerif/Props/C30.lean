/-
C30 — "A grain is active on at most one node at a time."

  For any interleaving of concurrent sends to, activations of, failed activations of and deactivations
  of one grain identity on several nodes sharing the cluster registry, at most one node holds an active
  instance at any moment, and once activity settles the registry names the node that holds it.

Model: `GoaktVerif.Model.C30` (one transition per registry operation / hook of the real code, tied to
/repo by controlled-schedule replay, see tools/props/c30.py).  `fix = false` is the code as it is.

Result: the property is FALSE of the current code (`C30_refuted`), for two independent reasons:
  F1  lost claim + vanished owner: `tryClaimGrain` returns (false, nil, nil) and the caller activates
      without a claim (witness: 3 nodes, one thread each);
  F2  `deactivate` removes the registry record unconditionally and is not serialised with the
      node's own activations (witness `C30_partial_needs_seq`: 2 nodes).
`C30_partial`: the property holds for every program and every schedule in which every node runs its
grain operations sequentially (one logical thread per node) and no step takes the F1 branch.
`C30_fixed`: a theorem about the PROPOSED repair only (`fix = true`, tryClaimGrain retrying the claim;
not applied to /repo): the F1 guard is then not needed.
-/
import GoaktVerif.Lemmas.C30Inv

namespace GoaktVerif.C30
open GoaktVerif.Model.C30

/-- configurations reachable from `c0` by steps of arbitrary threads in arbitrary order;
`g c tid` says whether the step of `tid` in `c` is admitted -/
inductive Reach (fix : Bool) (g : Cfg → Nat → Bool) (c0 : Cfg) : Cfg → Prop
  | refl : Reach fix g c0 c0
  | step {c : Cfg} (tid : Nat) : Reach fix g c0 c → g c tid = true → Reach fix g c0 (step fix c tid)

/-- every step admitted -/
def anyStep : Cfg → Nat → Bool := fun _ _ => true
/-- every step admitted except the lost-claim branch of tryClaimGrain -/
def noLostClaim : Cfg → Nat → Bool := fun c tid => !lostClaim c tid

def allDone (c : Cfg) : Bool := (List.range c.threads.length).all (done c)

/-- the property on one configuration: at most one active instance in the cluster, and when every
thread has finished the registry names the node holding the active instance -/
def Safe (c : Cfg) : Prop :=
  activeCount c.sh ≤ 1 ∧
  (allDone c = true → ∀ q, q < c.sh.nprocs → (c.sh.procs q).hook = true → c.sh.reg = some (c.sh.procs q).node)

def isSender (prog : List Op) : Bool := prog.any fun o => o != .d && o != .t
/-- at most one sender thread per node: what the per-identity single flight guarantees -/
def oneSender (thr : List (Node × List Op)) : Bool := distinct ((thr.filter fun x => isSender x.2).map Prod.fst)
/-- one thread per node: additionally no deactivation concurrent with the node's own operations -/
def oneThread (thr : List (Node × List Op)) : Bool := distinct (thr.map Prod.fst)

/-- THE FULL PROPERTY: any number of nodes, any programs (sends, failing activations, failing
publications, deactivations), any interleaving. -/
def C30_full : Prop :=
  ∀ (nn : Nat) (thr : List (Node × List Op)), oneSender thr = true →
    ∀ c, Reach false anyStep (init nn thr) c → Safe c

/-! ### the invariant over all reachable configurations -/

theorem inv_reach (fix : Bool) (g : Cfg → Nat → Bool) (c0 : Cfg) (h0 : Inv c0)
    (hg : ∀ c tid, g c tid = true → fix = true ∨ lostClaim c tid = false) :
    ∀ c, Reach fix g c0 c → Inv c := by
  intro c hr
  induction hr with
  | refl => exact h0
  | step tid _ hgt ih => exact inv_step fix _ tid ih (hg _ tid hgt)

theorem safe_of_inv {c : Cfg} (h : Inv c) : Safe c :=
  ⟨active_le_one h.node, fun _ q hq hh => inv_named h.node q hq hh⟩

/-- PARTIAL (code as it is): sequential nodes, lost-claim branch not taken ⇒ the property holds in
every reachable configuration, for every program and every schedule of any length. -/
theorem C30_partial (nn : Nat) (thr : List (Node × List Op)) (h1 : oneThread thr = true) :
    ∀ c, Reach false noLostClaim (init nn thr) c → Safe c := by
  intro c hr
  refine safe_of_inv (inv_reach false noLostClaim _ (inv_init nn thr h1) ?_ c hr)
  intro c tid h
  right
  simpa [noLostClaim] using h

/-- MODEL OF THE PROPOSED FIX, NOT OF THE CODE (`fix = true`: tryClaimGrain retries the claim when the
owner record vanished; fixes/C30-retry-lost-claim.diff, not applied to /repo): sequential nodes ⇒ the
property holds for every schedule, no guard on the steps. Nothing about /repo is claimed by this theorem. -/
theorem C30_fixed (nn : Nat) (thr : List (Node × List Op)) (h1 : oneThread thr = true) :
    ∀ c, Reach true anyStep (init nn thr) c → Safe c := by
  intro c hr
  exact safe_of_inv (inv_reach true anyStep _ (inv_init nn thr h1) (fun _ _ _ => Or.inl rfl) c hr)

/-! ### refutations -/

/-- replay of a schedule that checks the guard at every step -/
def runG (fix : Bool) (g : Cfg → Nat → Bool) (c : Cfg) : List Nat → Option Cfg
  | [] => some c
  | tid :: rest => if g c tid then runG fix g (step fix c tid) rest else none

theorem reach_runG (fix : Bool) (g : Cfg → Nat → Bool) (c0 : Cfg) :
    ∀ (sched : List Nat) (c c' : Cfg), Reach fix g c0 c → runG fix g c sched = some c' → Reach fix g c0 c'
  | [], c, c', hr, h => by simp [runG] at h; subst h; exact hr
  | tid :: rest, c, c', hr, h => by
    simp only [runG] at h
    split at h
    · rename_i hgt
      exact reach_runG fix g c0 rest _ c' (Reach.step tid hr hgt) h
    · cases h

/-- F1 witness: node 0 and node 1 both find no owner; node 1 wins the NX put, node 0 loses it; node 1's
OnActivate fails and it removes its record; node 0's re-read finds nothing and it goes on without a
claim; node 2 claims and activates; node 0 activates too. -/
def thrF1 : List (Node × List Op) := [(0, [.s]), (1, [.sa]), (2, [.s])]
def schedF1 : List Nat := [0, 0, 0, 1, 1, 1, 1, 1, 0, 0, 1, 1, 1, 0, 0, 2, 2, 2, 2, 2, 2, 0]

theorem witnessF1 : ((runG false anyStep (init 3 thrF1) schedF1).map fun c => activeCount c.sh) = some 2 := by
  decide

theorem C30_refuted : ¬ C30_full := by
  intro h
  cases hc : runG false anyStep (init 3 thrF1) schedF1 with
  | none => have := witnessF1; rw [hc] at this; cases this
  | some c =>
    have hr := reach_runG false anyStep _ schedF1 _ c Reach.refl hc
    have hs := (h 3 thrF1 (by decide) c hr).1
    have := witnessF1
    rw [hc] at this
    simp only [Option.map_some, Option.some.injEq] at this
    omega

/-- F2 witness (no lost claim involved): node 0 is active; its deactivation has run OnDeactivate and
emptied the local table but not yet removed the registry record; a new send on node 0 finds the record
naming node 0, re-activates and publishes; the pending removal then deletes the record; node 1 claims
and activates. -/
def thrF2 : List (Node × List Op) := [(0, [.s, .s]), (0, [.d]), (1, [.s])]
def schedF2 : List Nat := [0, 0, 0, 0, 0, 0, 0, 0, 1, 1, 0, 0, 0, 0, 0, 0, 0, 0, 1, 1, 2, 2, 2, 2, 2, 2]

theorem witnessF2 : ((runG false noLostClaim (init 2 thrF2) schedF2).map fun c => activeCount c.sh) = some 2 := by
  decide

/-- the sequential-node hypothesis of `C30_partial` cannot be weakened to the single-flight
hypothesis of `C30_full`: deactivation concurrent with a send on the same node breaks the property
without any lost claim. -/
theorem C30_partial_needs_seq :
    ¬ (∀ (nn : Nat) (thr : List (Node × List Op)), oneSender thr = true →
        ∀ c, Reach false noLostClaim (init nn thr) c → Safe c) := by
  intro h
  cases hc : runG false noLostClaim (init 2 thrF2) schedF2 with
  | none => have := witnessF2; rw [hc] at this; cases this
  | some c =>
    have hr := reach_runG false noLostClaim _ schedF2 _ c Reach.refl hc
    have hs := (h 2 thrF2 (by decide) c hr).1
    have := witnessF2
    rw [hc] at this
    simp only [Option.map_some, Option.some.injEq] at this
    omega

/-! ### non-vacuity -/

/-- the hypotheses of `C30_partial` are satisfiable by a non-trivial run: two nodes, failing
activation, failing publication, deactivation; the guard holds along the schedule and the run ends
with one active instance named by the registry -/
example : oneThread [(0, [.s, .d, .sp]), (1, [.sa, .s])] = true ∧
    ((runG false noLostClaim (init 2 [(0, [.s, .d, .sp]), (1, [.sa, .s])])
        [0, 0, 0, 1, 1, 1, 0, 0, 1, 1, 0, 0, 0, 1, 1, 1, 0, 0, 0, 0, 1, 1, 1, 1, 1, 1, 1, 1, 0, 0, 0, 0, 0, 0, 0, 0, 0, 0, 0, 0]).map
      fun c => (activeCount c.sh, c.sh.reg, allDone c)) = some (1, some 1, true) := by
  decide

/-- the guard of `C30_partial` excludes exactly the F1 schedule -/
example : (runG false noLostClaim (init 3 thrF1) schedF1).isNone = true := by decide

/-- under the repaired `tryClaimGrain` the F1 schedule is harmless -/
example : ((runG true anyStep (init 3 thrF1) (schedF1 ++ [0, 0, 0, 0, 0, 0, 2, 2])).map
    fun c => (activeCount c.sh, c.sh.reg, allDone c)) = some (1, some 2, true) := by decide

end GoaktVerif.C30

/-
C42 — Reliable point-to-point delivery is ordered and gap-free under message faults.

"With reliable producer and consumer endpoints, for any loss, duplication and reordering of the messages
 exchanged between their controllers (and no controller restart), the consumer is handed the produced
 messages in production order with no gaps, every produced message is eventually confirmed, and a message
 is re-presented only while it is the unconfirmed one in flight."

Model: Model/C42.lean — both controllers field by field (volatile, unchunked path), the two controller
links as lists from which ANY element may be delivered, duplicated or dropped at any time, both endpoint
mailboxes (FIFO, lossy), ticks, and the endpoints' documented contract.  A script is any `List Step`.
Spec: Spec/C42.lean — the monitor `Mon` over the observable events of a run.
Tie: every handler of the real controllers is replayed step by step against `Producer.handle` /
`Consumer.handle` (harness/inpkg/actor/zz_verif_c42.go, Driver/C42.lean); the same monitor judges the
real trace.

Out of the model (the property is labelled partial for these): chunked messages, the durable producer
queue, controller restart / relocation, sequence-number exhaustion at MaxInt64.
-/
import GoaktVerif.Lemmas.C42.Eventually

namespace GoaktVerif.C42
open GoaktVerif.Model.C42 GoaktVerif.Spec.C42

/-- Safety half of C42, for every window, every resend interval, every script (= every sequence of
    deliveries, duplications, drops, reorderings, ticks, endpoint speeds and clock values, of any length):
    the Deliveries handed to the consumer endpoint carry sequences 1,2,3,… without gap, each is the message
    the producer controller stored under that sequence with the payload the producer endpoint produced,
    sequence k+1 is first presented only after the endpoint confirmed k, and a sequence is presented again
    only while it is the unconfirmed in-flight one (`Mon.okOrder`, Spec/C42.lean). -/
def C42_safety : Prop :=
  ∀ (window interval : Nat) (dc : Bool) (ss : List Step), (monitorOf window interval dc ss).okOrder = true

theorem C42_safety_holds : C42_safety := by
  intro window interval dc ss
  obtain ⟨_, h⟩ := monitor_inv window interval dc ss
  exact h.cm.ord

/-- the invariant is inductive over single steps (this is the obligation a changed handler breaks) -/
theorem C42_inductive {w : World} {m : Mon} (h : Inv w m) (s : Step) :
    Inv (w.step s).1 (m.run (w.obsOfStep s (w.step s).1 (w.step s).2)) := h.step s

/-- non-vacuity of `C42_inductive`'s hypothesis: the initial world satisfies the invariant -/
example : Inv (World.init 4 1 true) (Mon.run {} (World.init 4 1 true).initObs) := Inv.init 4 1 true

/-- the consumer controller never takes its terminal failure path on the unchunked flow -/
theorem C42_consumer_never_fails (window interval : Nat) (dc : Bool) (ss : List Step) :
    ((World.init window interval dc).run ss).1.c.failed = false := by
  have : ∀ (ss : List Step) (w : World) (m : Mon), Inv w m → (w.run ss).1.c.failed = false := by
    intro ss
    induction ss with
    | nil => intro w m h; exact h.cl.nf
    | cons s ss ih => intro w m h; simp only [World.run]; exact ih _ _ (h.step s)
  exact this ss _ _ (Inv.init window interval dc)

/-- the producer controller never takes its terminal failure path either (no "illegal demand range", no
    "unexpected Produced / StoredAck"): whatever the faults, a consumer controller with a valid window only
    ever sends legal grants, and an endpoint that keeps the documented contract (FIFO mailbox, re-answer the
    same token with the same Produced, acknowledge every Stored) never confuses the handshake -/
theorem C42_producer_never_fails (window interval : Nat) (dc : Bool) (hw : window ≤ maxWindow) (ss : List Step) :
    ((World.init window interval dc).run ss).1.p.failed = false := by
  obtain ⟨_, _, h2⟩ := run_inv _ _ ss (Inv.init window interval dc) (Inv2.init window interval dc hw)
  exact h2.u.nf

/-- non-vacuity: the default window satisfies the hypothesis -/
example : (1000 : Nat) ≤ maxWindow := by decide

/-- Progress half of C42, NOT temporal ("eventually" under fair loss is outside what a safety proof can
    say; named gap): from every reachable world — any window the controller accepts, any script — the fixed
    fault-free continuation `recover` (two consumer-controller ticks = the silence rule, then the newest
    RegisterConsumer, RegistrationAck and timeout Request are delivered) leaves the producer controller
    alive, makes it adopt the consumer controller's confirmation watermark (every message the endpoint
    confirmed is now confirmed at the producer: its unconfirmed buffer starts right after it), and puts a
    SequencedMessage for the oldest still-unconfirmed message back in flight.  So no reachable state with an
    unconfirmed message is stuck: the tick/registration/timeout-request rules that re-send it are enabled. -/
def C42_progress : Prop :=
  ∀ (window interval : Nat) (dc : Bool), 1 ≤ window → window ≤ maxWindow → ∀ ss : List Step,
    let w := ((World.init window interval dc).run ss).1
    (recover w).p.failed = false ∧ (recover w).p.confirmedSeq = (recover w).c.confirmedSeq ∧
    ∀ mm, (recover w).p.unconfirmed.head? = some mm →
      PMsg.sequenced (recover w).p.session mm.id mm.seq mm.payload ∈ (recover w).netPC

theorem C42_progress_holds : C42_progress := by
  intro window interval dc h1 h2 ss
  obtain ⟨m, i, j, k⟩ := run_inv3 _ _ ss (Inv.init window interval dc) (Inv2.init window interval dc h2) (Inv3.init window interval dc h1)
  obtain ⟨a, b, c, _⟩ := recover_progress _ m i j k
  exact ⟨a, b, c⟩

/-- `recover` is an ordinary script of five steps -/
theorem C42_recover_is_script (w : World) : ∃ ss : List Step, ss.length = 5 ∧ (w.run ss).1 = recover w :=
  recover_is_script w

/-- "Every produced message is eventually confirmed", in the reachability form: from every reachable world
    (any window the controller accepts, any script, i.e. after ANY history of losses, duplications and
    reorderings) there EXISTS a finite continuation that drops and duplicates nothing and does not run the
    producer endpoint (`quiet`: the endpoint would otherwise keep producing), after which every message the
    producer controller has stored is confirmed: nothing new was stored, confirmedSeq = currentSeq, the
    unconfirmed buffer is empty, the controller is alive.  The continuation repeats: `recover`, deliver the
    re-sent oldest unconfirmed message, tick (re-tell), let the consumer endpoint work through its mailbox.
    This is reachability (EF), not a temporal statement under a fairness assumption. -/
def C42_eventually : Prop :=
  ∀ (window interval : Nat) (dc : Bool), 1 ≤ window → window ≤ maxWindow → ∀ ss : List Step,
    ∃ cont : List Step, cont.all quiet = true ∧
      AllConfirmed ((World.init window interval dc).run ss).1 ((((World.init window interval dc).run ss).1).run cont).1

theorem C42_eventually_holds : C42_eventually := by
  intro window interval dc h1 h2 ss
  obtain ⟨m, i, j, k⟩ := run_inv3 _ _ ss (Inv.init window interval dc) (Inv2.init window interval dc h2) (Inv3.init window interval dc h1)
  exact eventually_confirmed _ _ ⟨⟨m, i⟩, j, k⟩ (Nat.le_refl _)

/-- C42 as far as the model carries it (volatile, unchunked, no restart): safety for every fault schedule,
    neither controller ever fails, and the non-temporal progress statement -/
def C42_full : Prop :=
  C42_safety ∧
  (∀ (window interval : Nat) (dc : Bool), window ≤ maxWindow → ∀ ss : List Step,
    ((World.init window interval dc).run ss).1.p.failed = false ∧ ((World.init window interval dc).run ss).1.c.failed = false) ∧
  C42_progress ∧ C42_eventually

theorem C42_holds : C42_full :=
  ⟨C42_safety_holds,
   fun window interval dc hw ss => ⟨C42_producer_never_fails window interval dc hw ss, C42_consumer_never_fails window interval dc ss⟩,
   C42_progress_holds, C42_eventually_holds⟩

/-- TEST (evaluated): after a lost SequencedMessage, `recover` puts it back in flight -/
example :
    let w := ((World.init 3 1 false).run [.deliverCP 0, .deliverPC 0, .deliverCP 0, .userP, .userP, .dropPC 0]).1
    w.netPC = [] ∧ (recover w).netPC.contains (.sequenced 1 1 1 (payloadOf 1)) = true := by decide

/-- a clean run: registration, demand, three messages produced, delivered and confirmed, then idle ticks -/
def cleanScript : List Step :=
  [.deliverCP 0, .deliverPC 0, .deliverCP 0, .userP, .userP, .deliverPC 0, .userC true,
   .userP, .userP, .deliverPC 0, .userC true, .deliverCP 0, .userP, .userP, .deliverPC 0, .userC true]

/-- TEST (one script, evaluated): the monitor is not vacuous — three sequences were presented in order -/
example : (monitorOf 4 1 false cleanScript).last = 3 ∧ (monitorOf 4 1 false cleanScript).ids = [1, 2, 3] := by decide

/-- TEST (one script, evaluated): the monitor does flag a gap (presenting 2 after 0) -/
example : (Mon.run {} [.stored 1 1, .stored 2 2, .present 2 2 (payloadOf 2)]).okOrder = false := by decide

/-- TEST: … and a re-presentation after the confirmation -/
example : (Mon.run {} [.stored 1 1, .present 1 1 (payloadOf 1), .confirm 1, .present 1 1 (payloadOf 1)]).okOrder = false := by decide

end GoaktVerif.C42

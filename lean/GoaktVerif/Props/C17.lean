/-
C17 — Stopping the actor system tears down every actor exactly once.

"ActorSystem.Stop runs PostStop exactly once for every running user actor, children before
 parents, and deactivates every active grain exactly once. After Stop returns no user handler runs,
 and sends to stopped actors fail or go to dead letters."

Quantifier: all actor trees and grain populations in the generated domain, with traffic in flight
during shutdown.

Models: `Model/C17.lean` (the teardown order of a forest: freeChildren shuts the children down
concurrently, then PostStop), `Model/C06.lean` (one actor's stop critical section, Tell's flag test),
`Model/C31.lean` (one grain process and the shutdown PoisonPill).

Result.  Proved for every forest, every interleaving of the concurrent child shutdowns:
PostStop exactly once per running actor and never for a stopped one (`C17_exactly_once`), children
before parents (`C17_children_first`); a PoisonPill handled by an active grain deactivates it, once,
inside its turn, whatever else is queued (`C17_grain_pill_deactivates`, with C31_inturn: at most once
on every schedule); a Tell whose flag test runs after the actor stopped is rejected and enqueues
nothing (`C17_send_after_stop_rejected`).  FALSE: "after Stop returns no user handler runs" —
the stop of an actor does not wait for a handler that is mid-turn (C06-F1), so the whole chain
returns while that handler is still inside Receive (`C17_handler_outlives_stop`, the shared
counterexample).  (A grain receiving the messages queued behind the shutdown pill after its
OnDeactivate — C31-F2 / C17-F2 — was fixed by 6dc1e0c: `C17_grain_drops_after_deactivation`.)
-/
import GoaktVerif.Lemmas.C17
import GoaktVerif.Props.C06
import GoaktVerif.Props.C31

namespace GoaktVerif.C17
open GoaktVerif.Model.C17

/-- every possible PostStop order of the teardown is a permutation of the actors it reaches -/
theorem C17_perm {f : F} {out : List Nat} (h : Stops f out) : out.Perm (visited f) := stops_perm h

/-- `C17_exactly_once`: in a forest with distinct actors in which a stopped actor has no running
    descendant, EVERY possible teardown order contains each running actor exactly once and no
    stopped actor at all. -/
theorem C17_exactly_once {f : F} {out : List Nat} (h : Stops f out)
    (hc : closed f = true) (hn : (ids f).Nodup) (id : Nat) :
    out.count id = if id ∈ runningIds f then 1 else 0 := by
  have hp : out.Perm (runningIds f) := (stops_perm h).trans (visited_running hc)
  rw [hp.count_eq]
  exact (runningIds_nodup hn).count

/-- `C17_children_first`: in EVERY possible teardown order, an actor reached inside the subtree of
    a reached actor `p` has its PostStop before `p`'s. -/
theorem C17_children_first {f : F} {out : List Nat} (h : Stops f out) (c p : Nat) (hb : Below f c p) :
    [c, p].Sublist out := stops_children_first h c p hb

/-- the relation is not empty: for every forest the depth-first order is a possible teardown -/
theorem C17_some_order (f : F) : Stops f (dfs f) := stops_dfs f

/-- a concrete forest: guardian 0 with children 1 (child 3, stopped child 4) and 2 -/
def sampleForest : F :=
  .cons 0 true (.cons 1 true (.cons 3 true .nil (.cons 4 false .nil .nil)) (.cons 2 true .nil .nil)) .nil

example : closed sampleForest = true ∧ (ids sampleForest).Nodup ∧ dfs sampleForest = [3, 1, 2, 0] := by decide
example : Below sampleForest 3 0 := .here (by decide)
example : Below sampleForest 3 1 := .inKids (.here (by decide))

/-! ### grains: the shutdown PoisonPill -/

open GoaktVerif.Model.C31 in
/-- an active grain whose turn dequeues the PoisonPill deactivates inside that turn: four worker
    steps later OnDeactivate has begun and ended exactly once more, the process is out of the grain
    map and inactive — whatever else is queued, whatever the other threads are. -/
theorem C17_grain_pill_deactivates (c : GoaktVerif.Model.C31.Cfg) (b : Nat) (rest : List GMsg)
    (hw : c.w = .loop (b + 1)) (hb : c.box = .pill :: rest) (ha : c.active = true) :
    let c' := wStep (wStep (wStep (wStep c)))
    c'.deleted = true ∧ c'.active = false ∧ c'.inMap = false ∧ c'.mon.posts = c.mon.posts + 1
      ∧ c'.w = .loop b ∧ c'.box = rest := by
  simp [wStep, hw, hb, ha, GoaktVerif.Model.C31.emit, GoaktVerif.Model.C31.finish, GoaktVerif.Spec.C06.monStep]

open GoaktVerif.Model.C31 in
/-- fix 6dc1e0c: once deactivated, the turn FAILS a queued user message instead of handing it to
    OnReceive: no hook event, the message is consumed. -/
theorem C17_grain_drops_after_deactivation (c : GoaktVerif.Model.C31.Cfg) (b : Nat) (rest : List GMsg)
    (hw : c.w = .loop (b + 1)) (hb : c.box = .user :: rest) (ha : c.active = false) :
    (wStep c).log = c.log ∧ (wStep c).box = rest ∧ (wStep c).w = .loop b := by
  simp [wStep, hw, hb, ha]

/-! ### sends after the stop -/

open GoaktVerif.Model.C06 in
/-- a Tell whose flag test runs once the actor has stopped (`running = false`) is rejected: the
    sender finishes without enqueueing and without scheduling the actor -/
theorem C17_send_after_stop_rejected (c : GoaktVerif.Model.C06.Cfg) (i : Nat) (p : Bool)
    (hpc : c.threads i = .tCheck p) (hr : c.running = false) :
    (tStep c i).threads i = .done ∧ (tStep c i).box = c.box ∧ (tStep c i).sysbox = c.sysbox
      ∧ (tStep c i).sched = c.sched := by
  simp [tStep, hpc, Cfg.isRunning, hr, setT]

/-! ### what does not hold: a handler outlives the stop (shared with C06) -/

open GoaktVerif.Model.C06 GoaktVerif.Spec.C06 GoaktVerif.C06 in
/-- the stop issued by the parent's freeChildren (the path ActorSystem.Stop takes for every user
    actor) runs to completion — its thread is `done` — while the actor's handler is still inside
    Receive on the worker: "after Stop returns no user handler runs" is false. -/
theorem C17_handler_outlives_stop :
    let c := run (init 32 (progOf [.tCheck false, .xPre .parent])) [0, 0, 0, 0, 1, 1, 0, 0, 2, 2, 2, 2, 2, 2, 2]
    c.threads 1 = .done ∧ c.running = false ∧ (∃ b, c.w = .recv b) ∧ c.mon.c4 = false := by
  refine ⟨by decide, by decide, ⟨31, by decide⟩, by decide⟩

end GoaktVerif.C17

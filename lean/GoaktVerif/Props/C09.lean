/-
C09 — Stopping an actor stops its whole subtree, children first; the actor tree stays consistent.

"Stopping an actor (by Stop, Kill, PoisonPill, supervisor or system shutdown) stops every descendant;
 each descendant's PostStop completes before its ancestor's PostStop, and when the stop returns no actor
 of the subtree is running or resolvable by name. The actor tree stays consistent: every live actor's
 parent is live and registered, and no stopped actor remains registered."

This file: the TREE half.  `Model.C09` mirrors actor/pid_tree.go (pids, names, per-node
watchers/watchees/descendants, counter; every writer).  The invariant `WF` is proved to hold in every tree
reachable by ANY sequence of ops (unbounded induction over the op list); the differential run in
tools/props/c09.py compares the real `tree` with the model after every op of random scripts.
-/
import GoaktVerif.Lemmas.C09.Delete
import GoaktVerif.Model.C09.Dump

namespace GoaktVerif.C09
open GoaktVerif.Model.C09 GoaktVerif.Spec.C09

/-- every single writer of pid_tree.go preserves the invariant -/
theorem tree_inv_step (t : Tree) (o : Op) (h : WF t) : WF (t.step o).1 := wf_step t o h

/-- the tree-consistency statement: in every tree reachable from `newTree()` by any sequence of
    addRootNode / addNode / attachNode / addOrAttachNode / addWatcher / removeWatcher / removeDescendant /
    deleteNode / reset calls, `pids` is a map keyed by PID.ID(), `counter = |pids|`, every `names`
    entry points to a live registered node of that name, and the watcher/watchee maps are mutually
    inverse and mention registered nodes only. -/
def tree_full : Prop := ∀ ops : List Op, WF (Tree.empty.run ops)

theorem tree_holds : tree_full := fun ops => wf_run ops Tree.empty wf_empty

/-- consequences spelled out: the counter never drifts … -/
theorem counter_eq (ops : List Op) : (Tree.empty.run ops).counter = ((Tree.empty.run ops).pids.length : Int) :=
  (tree_holds ops).counter

/-- … and whoever is in `watchers(a)` is registered and has `a` among its watchees (so `freeWatchers`
    finds a node for every watcher it snapshots, and `UnWatch` removes both directions) -/
theorem watchers_registered (ops : List Op) (a w : Nat) (na : Node)
    (ha : aget a (Tree.empty.run ops).pids = some na) (hw : (aget w na.watchers).isSome) :
    ∃ nw, aget w (Tree.empty.run ops).pids = some nw ∧ (aget a nw.watchees).isSome :=
  (tree_holds ops).wsym a na w ha hw

-- non-vacuity: a concrete script with re-parenting, a stale `descendants` entry and a delete
example : WF (Tree.empty.run [.addRoot ⟨10, 1, 0⟩, .addNode ⟨10, 1, 0⟩ ⟨20, 2, 1⟩, .addNode ⟨10, 1, 0⟩ ⟨30, 3, 2⟩,
    .addNode ⟨20, 2, 1⟩ ⟨40, 4, 3⟩, .attach ⟨30, 3, 2⟩ ⟨40, 4, 3⟩, .deleteNode ⟨20, 2, 1⟩]) := tree_holds _

end GoaktVerif.C09

/-
C09 — Stopping an actor stops its whole subtree, children first; the actor tree stays consistent.

"Stopping an actor (by Stop, Kill, PoisonPill, supervisor or system shutdown) stops every descendant;
 each descendant's PostStop completes before its ancestor's PostStop, and when the stop returns no actor
 of the subtree is running or resolvable by name. The actor tree stays consistent: every live actor's
 parent is live and registered, and no stopped actor remains registered."

TREE half.  `Model.C09` mirrors actor/pid_tree.go (pids, names, per-node watchers/watchees/descendants,
counter; every writer).  The invariant `WF` is proved to hold in every tree reachable by ANY sequence of ops
(unbounded induction over the op list); the differential run in tools/props/c09.py compares the real `tree`
with the model after every op of random scripts.

STOP half.  `Model/C09/Stop.lean` mirrors Shutdown/doStop/freeWatchees/freeChildren/PostStop/freeWatchers and
death watch.  `shutdown_post` (Lemmas/C09/StopThm.lean) is proved by induction on the recursion with a loop
invariant for `freeChildren`; the statements below are its corollaries, for every tree shape, every actor
state, every depth.  The scenario differential compares the model with a real started actor system.
-/
import GoaktVerif.Lemmas.C09.Delete
import GoaktVerif.Lemmas.C09.Names3
import GoaktVerif.Lemmas.C09.StopThm
import GoaktVerif.Lemmas.C09.Unregister
import GoaktVerif.Model.C09.Dump
import GoaktVerif.Model.C09.Scenario

namespace GoaktVerif.C09
open GoaktVerif.Model.C09 GoaktVerif.Spec.C09

/-- every single writer of pid_tree.go preserves the invariant -/
theorem tree_inv_step (t : Tree) (o : Op) (h : WF t) : WF (t.step o).1 := wf_step t o h

/-- the tree-consistency statement: in every tree reachable from `newTree()` by any sequence of
    addRootNode / addNode / attachNode / addOrAttachNode / addWatcher / removeWatcher / removeDescendant /
    deleteNode / reset calls,
    * `WF`: `pids` is a map keyed by PID.ID(), `counter = |pids|`, the watcher/watchee maps are mutually inverse
      and mention registered nodes only;
    * `NWF` (the name index of pid_tree.go after fix 38faff1): every `names` entry and every `shadowed` pointer is a
      live registered node of that name, the current entry never waits in `shadowed`, and EVERY registered node
      is the entry of its name or waits in `shadowed` for it. -/
def tree_full : Prop := ∀ ops : List Op, WF (Tree.empty.run ops) ∧ NWF (Tree.empty.run ops)

theorem tree_holds : tree_full := fun ops => ⟨wf_run ops Tree.empty wf_empty, nwf_run ops Tree.empty nwf_empty⟩

/-- no registered actor is unreachable by name: in every reachable tree the name of a registered node resolves
    (`nodeByName`) to a registered node carrying that name (with the last-writer-wins index that preceded
    fix 38faff1 this was false: corpus case `tree 2 … D:60.6 D:40.4`) -/
theorem name_resolves (ops : List Op) (k : Nat) (n : Node) (hn : aget k (Tree.empty.run ops).pids = some n) :
    ∃ q m, aget n.pid.name (Tree.empty.run ops).names = some q ∧ (Tree.empty.run ops).live q = some m
      ∧ m.pid.name = n.pid.name :=
  (tree_holds ops).2.resolves k n hn

/-- consequences spelled out: the counter never drifts … -/
theorem counter_eq (ops : List Op) : (Tree.empty.run ops).counter = ((Tree.empty.run ops).pids.length : Int) :=
  (tree_holds ops).1.counter

/-- … and whoever is in `watchers(a)` is registered and has `a` among its watchees (so `freeWatchers`
    finds a node for every watcher it snapshots, and `UnWatch` removes both directions) -/
theorem watchers_registered (ops : List Op) (a w : Nat) (na : Node)
    (ha : aget a (Tree.empty.run ops).pids = some na) (hw : (aget w na.watchers).isSome) :
    ∃ nw, aget w (Tree.empty.run ops).pids = some nw ∧ (aget a nw.watchees).isSome :=
  (tree_holds ops).1.wsym a na w ha hw

-- non-vacuity: a concrete script with re-parenting, a stale `descendants` entry and a delete
example : WF (Tree.empty.run [.addRoot ⟨10, 1, 0⟩, .addNode ⟨10, 1, 0⟩ ⟨20, 2, 1⟩, .addNode ⟨10, 1, 0⟩ ⟨30, 3, 2⟩,
    .addNode ⟨20, 2, 1⟩ ⟨40, 4, 3⟩, .attach ⟨30, 3, 2⟩ ⟨40, 4, 3⟩, .deleteNode ⟨20, 2, 1⟩]) := (tree_holds _).1

/-! ## the stop path -/

/-- `q` is in the subtree of `p` that a stop has to take down: reachable from `p` through live `descendants`
    entries, every actor on the way having its running bit set -/
inductive ReachRun (s : Sys) (p : Nat) : Nat → Prop
  | root : p ∈ s.running → ReachRun s p p
  | step {x y : Nat} : ReachRun s p x → edge s.tree x y → y ∈ s.running → ReachRun s p y

theorem ReachRun.running {s : Sys} {p q : Nat} (h : ReachRun s p q) : q ∈ s.running := by
  cases h with
  | root h => exact h
  | step _ _ h => exact h

/-- The stop statement, for a `Shutdown(p)` issued from outside any other stop (`stopping = []`; this is
    Stop, Kill, PoisonPill, the supervisor's stop and each top-level `Shutdown` of the system stop) on a tree
    whose live descendants graph is acyclic (`Hyp`, witnessed by a rank) and that returns (`some s'`):
    1. every actor of the subtree is offline when the call returns, and its PostStop ran during the call;
    2. children first: for every actor `x` of the subtree and every live child `y` of `x` that was running,
       PostStop(y) is recorded before PostStop(x) — hence, along any chain, every descendant before its ancestor;
    3. nobody is started by a stop;
    4. (what the code guarantees about registration) every actor registered before is STILL registered when the
       call returns — death watch removes it later, asynchronously (the race the property text glosses over);
    5. once death watch has handled the `Terminated` messages it was sent during the call, none of the actors
       they name is registered. -/
def stop_full : Prop :=
  ∀ (rank : Nat → Nat) (fuel : Nat) (s : Sys) (p : Nat) (s' : Sys),
    s.stopping = [] → Hyp rank s.tree → s.shutdown fuel p = some s' →
    (∀ q, ReachRun s p q → q ∉ s'.running ∧ ∃ evs, s'.log = s.log ++ evs ∧ Ev.postStop q ∈ evs)
    ∧ (∀ x y, ReachRun s p x → edge s.tree x y → y ∈ s.running → Before s'.log (Ev.postStop y) (Ev.postStop x))
    ∧ (∀ x, x ∈ s'.running → x ∈ s.running)
    ∧ (∀ x n, aget x s.tree.pids = some n → ∃ n', aget x s'.tree.pids = some n' ∧ n'.pid = n.pid)
    ∧ (∀ dw q, q ≠ NOS → q ∈ terminatedTo dw (s'.log.drop s.log.length) →
          aget q (s'.drainDeathWatch dw s.log.length).tree.pids = none)

theorem subtree_offline (rank : Nat → Nat) (fuel : Nat) (s : Sys) (p : Nat) (s' : Sys)
    (h0 : s.stopping = []) (hyp : Hyp rank s.tree) (h : s.shutdown fuel p = some s') (q : Nat)
    (hq : ReachRun s p q) : q ∉ s'.running := by
  have post := shutdown_post rank fuel s p s' hyp h
  induction hq with
  | root _ => exact post.self_off
  | step hx he hy ih =>
    rcases post.closed _ _ hx.running ih he with h1 | h1
    · exact h1
    · rw [h0] at h1; simp at h1

theorem stop_holds : stop_full := by
  intro rank fuel s p s' h0 hyp h
  have post := shutdown_post rank fuel s p s' hyp h
  refine ⟨?_, ?_, post.run_sub, ?_, ?_⟩
  · intro q hq
    obtain ⟨evs, hl, hp⟩ := post.log_ext
    exact ⟨subtree_offline rank fuel s p s' h0 hyp h q hq, evs, hl,
      hp q hq.running (subtree_offline rank fuel s p s' h0 hyp h q hq)⟩
  · intro x y hx he hy
    exact post.order x y hx.running (subtree_offline rank fuel s p s' h0 hyp h x hx) he hy (by rw [h0]; simp)
  · intro x n hn
    obtain ⟨n', hn', _, hp, _⟩ := (post.shape x).1 n hn
    exact ⟨n', hn', hp⟩
  · intro dw q hq hmem
    exact drain_unregisters s' dw s.log.length q hq hmem

/-! ### the hypotheses are satisfiable: a decidable check of `Hyp` and a concrete system -/

def hypB (rank : Nat → Nat) (t : Tree) : Bool :=
  t.pids.all fun kn => kn.2.desc.all fun e =>
    match t.live ⟨e.1, e.2⟩ with
    | some n => decide (rank n.pid.id < rank kn.1) && kn.1 != NOS
    | none => true

theorem aget_mem {α : Type} (k : Nat) (l : List (Nat × α)) (v : α) (h : aget k l = some v) : (k, v) ∈ l := by
  induction l with
  | nil => simp at h
  | cons e l ih =>
    rw [aget_cons] at h
    split at h
    · rename_i hk
      simp only [Option.some.injEq] at h
      subst h; subst hk
      exact List.mem_cons_self
    · exact List.mem_cons_of_mem _ (ih h)

theorem hyp_of_hypB (rank : Nat → Nat) (t : Tree) (h : hypB rank t = true) : Hyp rank t := by
  unfold hypB at h
  simp only [List.all_eq_true] at h
  have key : ∀ x y, edge t x y → rank y < rank x ∧ x ≠ NOS := by
    intro x y ⟨nx, e, n, hx, he, hl, hid⟩
    have := h (x, nx) (aget_mem x t.pids nx hx) e he
    simp only [hl, Bool.and_eq_true, decide_eq_true_eq, bne_iff_ne, ne_eq] at this
    rw [hid] at this
    exact this
  exact ⟨fun x y he => (key x y he).1, fun y he => (key NOS y he).2 rfl⟩

/-- user guardian 3 with death watch 4 watching everybody; a1(11) has children a2(12), a3(13); a2 has a4(14) -/
def exSys : Sys :=
  let sp := fun (s : Sys) (a b : Nat) => s.spawn 4 ⟨a, a, 0⟩ ⟨b, b, 0⟩
  sp (sp (sp (sp Scenario.sys0 3 11) 11 12) 11 13) 12 14

example : Hyp (fun x => 100 - x) exSys.tree := hyp_of_hypB _ _ (by decide)

example : (exSys.shutdown 10 11).map (fun s => (postStops s.log, s.running)) = some ([13, 14, 12, 11], [1, 2, 3, 4]) := by
  decide

/-- The full statement of C09 as this framework reads it (see the clause-by-clause comments on `tree_full`
    and `stop_full`; "not resolvable by name when the stop returns" is NOT claimed — clause 4 of `stop_full`
    states the opposite, which is what the code does, and clause 5 the eventual form). -/
def C09_full : Prop := tree_full ∧ stop_full

theorem C09_holds : C09_full := ⟨tree_holds, stop_holds⟩

end GoaktVerif.C09

/-
C10 — Each watcher receives exactly one Terminated for a watched actor.

"When a watched local actor terminates by any path, every watcher that is still running and did not
 unwatch it receives exactly one Terminated message naming that actor; a watcher that unwatched before
 termination receives none."

Every termination path (Shutdown, PoisonPill, parent Stop, Kill, supervisor stop, passivation, restart's
shutdown phase, system stop) reaches `doStop`, whose `freeWatchers` is the only sender of `Terminated(p)` to
local watchers.  The theorems are over the tree model of C09 (`Model/C09.lean`, tied to pid_tree.go by the
differential) plus `Model/C10.lean`: `freeWatchers` with an arbitrary environment (other goroutines'
Watch / UnWatch / start / stop steps) interleaved before the snapshot and between any two loop iterations.
Local watchers only; remote watchers are told by best-effort RemoteTell and are outside the property.
-/
import GoaktVerif.Lemmas.C10

namespace GoaktVerif.C10
open GoaktVerif.Model.C09 GoaktVerif.Model.C10

/-- The full statement.  For every state `s` whose tree is consistent, every actor `p`, every environment
    burst `pre` before the snapshot and bursts `envs` during the walk, and every actor `w`:
    the number of `Terminated(p)` delivered to `w` by this termination is
    1 if `w` is in `watchers(p)` at the instant of the snapshot and is found `IsRunning()` at its turn,
    0 otherwise (in particular 0 for a watcher whose UnWatch was linearised before the snapshot) —
    never 2, whatever the other goroutines do in between. -/
def C10_full : Prop :=
  ∀ (s : Sys) (p : Nat) (pre : List Env) (envs : List (List Env)) (w : Nat),
    WF (applyEnvs s pre).tree → WatchersNodup (applyEnvs s pre).tree →
    terminatedCount (freeWatchersI s p pre envs).log w p
      = terminatedCount s.log w p
        + hit (runningAtTurn p w (((applyEnvs s pre).tree.watchers p).getD []) envs (applyEnvs s pre))

theorem C10_holds : C10_full := by
  intro s p pre envs w hwf hnd
  unfold freeWatchersI
  simp only
  cases hs : (applyEnvs s pre).tree.watchers p with
  | none => simp [runningAtTurn, hit]
  | some ws =>
    simp only [Option.getD_some]
    rw [notifyAll_count p w ws envs _ (watchers_snapshot_nodup _ p ws hwf hnd hs)]
    simp

/-- the hypotheses hold in every reachable tree (any op sequence of pid_tree.go's writers) -/
theorem hyps_reachable (ops : List Op) : WF (Tree.empty.run ops) ∧ WatchersNodup (Tree.empty.run ops) :=
  ⟨wf_run ops _ wf_empty, wn_run ops _ wn_empty⟩

/-- a watcher that is not in the snapshot gets nothing (the count is unchanged) -/
theorem not_in_snapshot_gets_none (s : Sys) (p : Nat) (pre : List Env) (envs : List (List Env)) (w : Nat)
    (hwf : WF (applyEnvs s pre).tree) (hnd : WatchersNodup (applyEnvs s pre).tree)
    (hout : w ∉ (((applyEnvs s pre).tree.watchers p).getD []).map (·.id)) :
    terminatedCount (freeWatchersI s p pre envs).log w p = terminatedCount s.log w p := by
  rw [C10_holds s p pre envs w hwf hnd, runningAtTurn_none _ _ _ _ _ hout]
  rfl

/-- right after `w.UnWatch(p)` the tree's `watchers(p)` does not contain `w` -/
theorem unwatch_not_in_watchers (t : Tree) (p w : Nat) (hwf : WF t) (hnd : WatchersNodup t) :
    w ∉ (((t.removeWatcher (mkPid p) (mkPid w)).watchers p).getD []).map (·.id) := by
  have hwf' := wf_removeWatcher t (mkPid p) (mkPid w) hwf
  have hnd' := wn_removeWatcher t (mkPid p) (mkPid w) hnd
  generalize ht : t.removeWatcher (mkPid p) (mkPid w) = t' at hwf' hnd'
  intro hmem
  unfold Tree.watchers at hmem
  split at hmem
  · simp at hmem
  · cases hn : aget p t'.pids with
    | none => simp [hn] at hmem
    | some n =>
      simp only [hn, Option.map_some, Option.getD_some, List.map_map, List.mem_map, Function.comp] at hmem
      obtain ⟨e, he, hid⟩ := hmem
      have hget := mem_aget n.watchers e (hnd' p n hn) he
      have hkey : e.2.id = e.1 := hwf'.wval p n e.1 e.2 hn hget
      -- but key w was deleted from watchers(p) by removeWatcher
      have hdel : aget w n.watchers = none := by
        subst ht
        unfold Tree.removeWatcher at hn
        simp only [mkPid, aget_modNode, if_true] at hn
        obtain ⟨n0, _, rfl⟩ := Option.map_eq_some_iff.mp hn
        simp [aget_adel]
      rw [← hid, hkey, hget] at hdel
      simp at hdel

/-- a watcher whose `UnWatch(p)` is the last step linearised before the snapshot receives no `Terminated(p)` -/
theorem unwatched_before_gets_none (s : Sys) (p : Nat) (pre : List Env) (envs : List (List Env)) (w : Nat)
    (hwf : WF (applyEnvs s pre).tree) (hnd : WatchersNodup (applyEnvs s pre).tree) :
    terminatedCount (freeWatchersI s p (pre ++ [Env.unwatch w p]) envs).log w p = terminatedCount s.log w p := by
  have happ : applyEnvs s (pre ++ [Env.unwatch w p]) = (applyEnvs s pre).unwatch w p := by
    simp [applyEnvs, List.foldl_append, Env.apply]
  apply not_in_snapshot_gets_none
  · rw [happ]; exact wf_removeWatcher _ _ _ hwf
  · rw [happ]; exact wn_removeWatcher _ _ _ hnd
  · rw [happ]; exact unwatch_not_in_watchers _ p w hwf hnd

/-- never a duplicate: one termination adds at most one `Terminated(p)` per watcher -/
theorem at_most_one (s : Sys) (p : Nat) (pre : List Env) (envs : List (List Env)) (w : Nat)
    (hwf : WF (applyEnvs s pre).tree) (hnd : WatchersNodup (applyEnvs s pre).tree) :
    terminatedCount (freeWatchersI s p pre envs).log w p ≤ terminatedCount s.log w p + 1 := by
  rw [C10_holds s p pre envs w hwf hnd]
  have : ∀ o, hit o ≤ 1 := by
    intro o
    match o with
    | some true => exact Nat.le_refl 1
    | some false => exact Nat.zero_le 1
    | none => exact Nat.zero_le 1
  exact Nat.add_le_add_left (this _) _

/-- `freeWatchers` runs once per incarnation: `Shutdown` of an actor whose running bit is clear
    (it already stopped) returns at once and changes nothing -/
theorem shutdown_offline_noop (fuel : Nat) (s : Sys) (p : Nat) (h : s.running.contains p = false) :
    s.shutdown (fuel + 1) p = some s := by
  unfold Sys.shutdown
  rw [h]
  rfl

/-! non-vacuity: user guardian 3, death watch 4, watched actor 10, watchers 11 and 12; 12 unwatches just
    before the snapshot, 11 gets exactly one, 12 none, the death watch one -/
def exSys : Sys :=
  let t := Tree.empty.run [.addRoot ⟨3, 3, 0⟩, .addNode ⟨3, 3, 0⟩ ⟨4, 4, 0⟩, .addNode ⟨3, 3, 0⟩ ⟨10, 10, 0⟩,
    .addNode ⟨3, 3, 0⟩ ⟨11, 11, 0⟩, .addNode ⟨3, 3, 0⟩ ⟨12, 12, 0⟩, .addWatcher ⟨10, 10, 0⟩ ⟨4, 4, 0⟩,
    .addWatcher ⟨10, 10, 0⟩ ⟨11, 11, 0⟩, .addWatcher ⟨10, 10, 0⟩ ⟨12, 12, 0⟩]
  { tree := t, running := [3, 4, 10, 11, 12], suspended := [], stopping := [], log := [] }

example : let s' := freeWatchersI exSys 10 [Env.unwatch 12 10] [[], [Env.watch ⟨12, 12, 0⟩ ⟨10, 10, 0⟩]]
    (terminatedCount s'.log 11 10, terminatedCount s'.log 12 10, terminatedCount s'.log 4 10) = (1, 0, 1) := by
  decide

example : WF exSys.tree ∧ WatchersNodup exSys.tree := hyps_reachable _

end GoaktVerif.C10

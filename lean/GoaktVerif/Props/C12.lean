/-
C12 — Passivation only removes actors that are truly idle.

"An actor with a time-based passivation timeout T is never passivated while it has handled a
 message within the last T (up to the documented 100ms activity-coalescing slack), never while
 paused, suspended or stopping, and never with the long-lived strategy; a message-count strategy
 passivates only after N messages since its registration. A passivated actor is no longer
 running and its PostStop ran exactly once."
 Quantifier: all message arrival patterns relative to the timeout, interleaved with
 pause/resume, suspend/reinstate and stop.

Model: Model/C12.lean (passivationManager incl. Go's container/heap, the PID side, the
manager's unlock window as pre/post op lists).  Tie: differential of the REAL manager + real
actors on a virtual clock against the model's `step` (tools/props/c12.py), and the coalescing
constant regenerated from actor/pid.go (`touchInterval_tie`).
-/
import GoaktVerif.Gen.C12
import GoaktVerif.Lemmas.C12Top
import GoaktVerif.Lemmas.C12Once
import GoaktVerif.Lemmas.C12Count
import GoaktVerif.Spec.C12

namespace GoaktVerif.C12
open GoaktVerif.Model.C12 GoaktVerif.Spec.C12

/-! ### tie of the coalescing constant (regenerated from actor/pid.go on every run) -/

theorem touchInterval_tie : Gen.C12.passivationTouchInterval = (touchIv : Int) * 1000000 := by decide

/-! ### the full statement -/

/-- the system-level runs: clock advances, the actor runtime's own operations (a live actor
    handles a message / PausePassivation / ResumePassivation / fails, Reinstate of a suspended
    actor, Shutdown), manager iterations — with ANY runtime operations completing inside the
    manager's unlock windows -/
def ApiRun (ops : List Op) : Prop := ops.all Op.api = true

/-- The property, clause by clause, for one run. -/
structure Holds (cfg : List (Strat × Bool)) (s : State) : Prop where
  /-- never passivated (time-based) while it handled a message within the last T − slack -/
  time : ∀ a ok_ll ss sk st su pf rn now latest pr T f,
    Ev.tried a .timer true ok_ll ss sk st su pf rn now latest pr ∈ s.log → cfg[a]? = some (.time T, f) →
    timeOK touchIv T now latest = true
  /-- never while paused, suspended or stopping, never with the long-lived strategy -/
  guards : ∀ a src ll ss sk st su pf rn now latest pr,
    Ev.tried a src true ll ss sk st su pf rn now latest pr ∈ s.log → guardsOK ll pf su st = true
  /-- a message-count passivation attempt only after the threshold was crossed -/
  count : ∀ a g, Ev.countFire a g ∈ s.log → ∃ p b m, Ev.crossed a g p b m ∈ s.log ∧ countOK p b m = true
  /-- PostStop at most once per actor … -/
  once : ∀ a, onceOK (s.actors a).postStops = true
  /-- … and a passivated actor is no longer running, its PostStop having run -/
  stopped : ∀ a src ll ss sk st su pf rn now latest pr,
    Ev.tried a src true ll ss sk st su pf rn now latest pr ∈ s.log →
    (s.actors a).running = false ∧ 1 ≤ (s.actors a).postStops

def C12_full : Prop := ∀ cfg ops, ApiRun ops → Holds cfg (run (init cfg) ops)

/-! ### refutation (witness replayed on the real code, corpus/C12) -/

/-- (fixed, 6f92e10: was finding C12-F1) `Shutdown` completes inside `trigger`'s unlock window; with the
    running check `tryPassivation` now refuses the stopped actor and PostStop runs once -/
def witnessStopInWindow : List Op := [.adv 1000, .tick [.stop 0] []]

theorem witnessStopInWindow_postStops :
    ((run (init [(.time 1000, false)]) witnessStopInWindow).actors 0).postStops = 1 := by decide

/-- finding C12-F2: a message is handled inside the unlock window (after the manager's deadline
    check, before `tryPassivation`): the actor is passivated although it handled a message at
    this very instant -/
def witnessRace : List Op := [.adv 1000, .tick [.deliver 0] []]

theorem witnessRace_api : ApiRun witnessRace := by unfold ApiRun; decide

theorem witnessRace_event :
    Ev.tried 0 .timer true false false false false false false true 1000 (some 1000) 1
      ∈ (run (init [(.time 1000, false)]) witnessRace).log := by decide

theorem C12_refuted : ¬ C12_full := by
  intro h
  have := (h [(.time 1000, false)] witnessRace witnessRace_api).time 0 _ _ _ _ _ _ _ _ _ _ 1000 false witnessRace_event rfl
  exact absurd this (by decide)

/-- the same, stated for the time clause alone -/
theorem C12_time_refuted : ¬ ∀ cfg ops, ApiRun ops →
    ∀ a ll ss sk st su pf rn now latest pr T f,
      Ev.tried a .timer true ll ss sk st su pf rn now latest pr ∈ (run (init cfg) ops).log →
      cfg[a]? = some (.time T, f) → timeOK touchIv T now latest = true := by
  intro h
  have := h [(.time 1000, false)] witnessRace witnessRace_api 0 _ _ _ _ _ _ _ _ _ _ 1000 false witnessRace_event rfl
  exact absurd this (by decide)

/-! ### what holds — for ALL op sequences (runtime-level and raw), any windows -/

/-- guards: a successful `tryPassivation` saw the strategy not long-lived, the system not
    stopping, no skip-next, and the actor not stopping / suspended / paused -/
theorem C12_guards (cfg : List (Strat × Bool)) (ops : List Op) :
    ∀ a src ll ss sk st su pf rn now latest pr,
      Ev.tried a src true ll ss sk st su pf rn now latest pr ∈ (run (init cfg) ops).log →
      guardsOK ll pf su st = true ∧ ss = false ∧ sk = false ∧ rn = true := by
  intro a src ll ss sk st su pf rn now latest pr h
  have := log_sound cfg ops _ h
  simp only [evOK, Bool.not_true, Bool.false_or, Bool.and_eq_true, Bool.not_eq_true'] at this
  obtain ⟨⟨⟨⟨⟨⟨h1, h2⟩, h3⟩, h4⟩, h5⟩, h6⟩, h7⟩ := this
  simp [guardsOK, h1, h2, h3, h4, h5, h6, h7]

/-- the manager's timer path attempts a passivation only at or after the entry's deadline -/
theorem C12_decision_after_deadline (cfg : List (Strat × Bool)) (ops : List Op) :
    ∀ a g now deadline T latest ep ar cur isT,
      Ev.decide a g now deadline T latest ep ar cur isT ∈ (run (init cfg) ops).log → deadline ≤ now := by
  intro a g now deadline T latest ep ar cur isT h
  have := log_sound cfg ops _ h
  simp only [evOK, Bool.and_eq_true, decide_eq_true_eq] at this
  exact this.1

/-- THE TIME CLAUSE at the decision instant, for every configuration and EVERY op sequence (raw ops,
    any operations inside the unlock windows, every iteration of `trigger`'s loop): whenever the manager
    decides to passivate on the current, unpaused, time-based entry of an actor that has handled a
    message, that message is older than `T − touchInterval`:  `now ≥ lastActivity + T − 100ms`.
    (Invariant `FInv`, Lemmas/C12Fresh.lean: heap array and index fields in sync, a paused entry is off
    the heap, `lastTouch ≤ latest ≤ now`, and every on-heap entry's deadline is ≥ lastTouch + T and
    > latest + T − touchIv — through container/heap, Register/Pause/Resume/Touch and the coalescing CAS.) -/
theorem C12_time_decision (cfg : List (Strat × Bool)) (ops : List Op) :
    ∀ a g now deadline T l ar,
      Ev.decide a g now deadline T (some l) false ar true true ∈ (run (init cfg) ops).log →
      timeOK touchIv T now (some l) = true := by
  intro a g now deadline T l ar h
  have := log_sound cfg ops _ h
  simp only [evOK, Bool.and_eq_true, decide_eq_true_eq, Bool.not_false, Bool.and_self, Bool.not_true, Bool.false_or] at this
  simp only [timeOK, decide_eq_true_eq]
  omega

/-- the message-count trigger is raised only at or above `baseline + maxMessages` (true integers: since
    fix 5123092 the comparison is `current - baseline < maxMessages`, which cannot overflow) -/
theorem C12_count_threshold (cfg : List (Strat × Bool)) (ops : List Op) :
    ∀ a g p b m, Ev.crossed a g p b m ∈ (run (init cfg) ops).log → countOK p b m = true := by
  intro a g p b m h
  simpa [evOK, countOK] using log_sound cfg ops _ h

/-- THE COUNT CLAUSE, for ALL op sequences and every MaxMessages: every passivation attempt of the
    message-count path goes back to a MessageProcessed call of that very entry object that found
    `processed ≥ baseline + maxMessages` -/
theorem C12_count (cfg : List (Strat × Bool)) (ops : List Op) :
    ∀ a g, Ev.countFire a g ∈ (run (init cfg) ops).log →
      ∃ a' p b m, Ev.crossed a' g p b m ∈ (run (init cfg) ops).log ∧ countOK p b m = true := by
  intro a g h
  obtain ⟨a', p, b, m, hm⟩ := (cinv_reachable cfg ops).fire a g h
  exact ⟨a', p, b, m, hm, C12_count_threshold cfg ops a' g p b m hm⟩

/-- (fixed, 5123092: was finding C12-F4) with MaxMessages = MaxInt64 the int64 sum `baseline +
    maxMessages` used to wrap and PostStart alone passivated the actor; now nothing crosses -/
def witnessOverflow : List Op := [.simple (.deliver 0), .drain [] []]

theorem witnessOverflow_quiet :
    (run (init [(.count 9223372036854775807, false)]) witnessOverflow).log = []
    ∧ ((run (init [(.count 9223372036854775807, false)]) witnessOverflow).actors 0).running = true := by decide

/-! ### PostStop exactly once -/

/-- for every configuration and EVERY op sequence: an actor's PostStop count is the number of stops of
    it while running (at most ONE, ever) plus the number of stops performed on it when it was already
    stopped; and once stopped it is never running again -/
theorem C12_poststop_accounting (cfg : List (Strat × Bool)) (ops : List Op) (a : Nat) :
    ((run (init cfg) ops).actors a).postStops
        = liveStops (run (init cfg) ops).log a + deadStops (run (init cfg) ops).log a
    ∧ liveStops (run (init cfg) ops).log a ≤ 1 :=
  ⟨(invO_reachable cfg ops a).1, (invO_reachable cfg ops a).2.1⟩

/-- the once clause, for every configuration and EVERY op sequence (raw ops, any windows): no stop
    ever reaches a stopped actor (`no_dead_stops`: both `Shutdown` and, since 6f92e10, `tryPassivation`
    check runningState under stopLocker), so PostStop runs at most once per actor -/
theorem C12_once (cfg : List (Strat × Bool)) (ops : List Op) (a : Nat) :
    onceOK ((run (init cfg) ops).actors a).postStops = true := by
  have hi := invO_reachable cfg ops a
  have h0 : deadStops (run (init cfg) ops).log a = 0 := List.count_eq_zero.mpr (no_dead_stops cfg ops a)
  simp only [onceOK, decide_eq_true_eq]
  omega

/-- a passivated actor is no longer running and its PostStop ran (all op sequences) -/
theorem C12_stopped (cfg : List (Strat × Bool)) (ops : List Op) :
    ∀ a src ll ss sk st su pf rn now latest pr,
      Ev.tried a src true ll ss sk st su pf rn now latest pr ∈ (run (init cfg) ops).log →
      ((run (init cfg) ops).actors a).running = false ∧ 1 ≤ ((run (init cfg) ops).actors a).postStops := by
  intro a src ll ss sk st su pf rn now latest pr h
  obtain ⟨w, hw⟩ := adjOK_mem _ (log_good cfg ops).2 a src ll ss sk st su pf rn now latest pr h
  have hi := invO_reachable cfg ops a
  have hpos : 1 ≤ liveStops (run (init cfg) ops).log a + deadStops (run (init cfg) ops).log a := by
    cases w
    · have : 0 < deadStops (run (init cfg) ops).log a := List.count_pos_iff.mpr hw
      omega
    · have : 0 < liveStops (run (init cfg) ops).log a := List.count_pos_iff.mpr hw
      omega
  exact ⟨hi.2.2 hpos, by omega⟩

/-- What survives of `C12_full`, for every configuration and EVERY op sequence (runtime-level or raw,
    any operations inside the unlock windows): the guard clause, the count clause, "passivated ⇒ stopped",
    the time clause AT THE DECISION INSTANT (C12_time_decision), and the once clause.  (Excluded: only the literal time
    clause — a message handled inside the unlock window, C12-F2.) -/
theorem C12_partial (cfg : List (Strat × Bool)) (ops : List Op) :
    (∀ a src ll ss sk st su pf rn now latest pr,
        Ev.tried a src true ll ss sk st su pf rn now latest pr ∈ (run (init cfg) ops).log →
        guardsOK ll pf su st = true ∧
        ((run (init cfg) ops).actors a).running = false ∧ 1 ≤ ((run (init cfg) ops).actors a).postStops) ∧
    (∀ a g, Ev.countFire a g ∈ (run (init cfg) ops).log →
        ∃ a' p b m, Ev.crossed a' g p b m ∈ (run (init cfg) ops).log ∧ countOK p b m = true) ∧
    (∀ a g now deadline T l ar,
        Ev.decide a g now deadline T (some l) false ar true true ∈ (run (init cfg) ops).log →
        deadline ≤ now ∧ timeOK touchIv T now (some l) = true) ∧
    (∀ a, onceOK ((run (init cfg) ops).actors a).postStops = true) :=
  ⟨fun a src ll ss sk st su pf rn now latest pr h =>
      ⟨(C12_guards cfg ops a src ll ss sk st su pf rn now latest pr h).1,
       C12_stopped cfg ops a src ll ss sk st su pf rn now latest pr h⟩,
   C12_count cfg ops,
   fun a g now deadline T l ar h => ⟨C12_decision_after_deadline cfg ops _ _ _ _ _ _ _ _ _ _ h, C12_time_decision cfg ops a g now deadline T l ar h⟩,
   C12_once cfg ops⟩

/-! ### non-vacuity: runs in which these events occur -/

example : Ev.decide 0 0 1100 1100 1000 (some 100) false true true true
    ∈ (run (init [(.time 1000, false)]) [.adv 100, .simple (.deliver 0), .adv 1000, .tick [] []]).log := by decide

example : Ev.countFire 0 0 ∈ (run (init [(.count 1, false)])
    [.simple (.deliver 0), .simple (.deliver 0), .drain [] []]).log := by decide


example : Ev.tried 0 .timer true false false false false false false true 1000 none 0
    ∈ (run (init [(.time 1000, false)]) [.adv 1000, .tick [] []]).log := by decide

example : Ev.crossed 0 0 3 1 2 ∈ (run (init [(.count 2, false)])
    [.simple (.deliver 0), .simple (.deliver 0), .simple (.deliver 0)]).log := by decide

example : Ev.decide 0 0 1000 1000 1000 none false true true true
    ∈ (run (init [(.time 1000, false)]) [.adv 1000, .tick [] []]).log := by decide

end GoaktVerif.C12

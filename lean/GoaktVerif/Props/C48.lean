/-
C48 — The TTL map behaves like a map with per-key expiry.

"For any sequence of Set, Get, Delete and Reset operations and clock advances, Get returns the
 last value Set for a key exactly when that Set happened less than the TTL ago and no later
 Delete or Reset intervened; internal eviction and compaction never lose a live entry or revive
 an expired one."

Model: Model/C48.lean (items index map, order slice, head, evict, maybeCompact with both paths,
injected clock; also Len and ActiveLen).  Spec: Spec/C48.lean (a function key → Option (value ×
expireAt) on which nothing is ever evicted).  The theorems are a forward simulation for ALL
histories (no bound on length, keys, values, clock steps) plus the history-level reading of the
English sentence.  Tie: differential run of the real TTLMap (clock hook injected in-package)
against `Model.C48.run`, comparing every answer and a dump of items/len(order)/head.
-/
import GoaktVerif.Model.C48
import GoaktVerif.Spec.C48
import GoaktVerif.Lemmas.C48Ops

namespace GoaktVerif.C48
open GoaktVerif.Model.C48 GoaktVerif.Spec.C48

/-! ### eviction and compaction in isolation -/

/-- `evict` keeps the representation invariant and changes the abstract map only by dropping
    entries whose deadline has passed: no live entry is lost, nothing is revived or altered -/
theorem C48_evict_sound (now : Int) (s : TTL) (hi : Inv s) :
    Inv (evict now s) ∧ ∀ k, DropsExpired now (abs (evict now s) k) (abs s k) :=
  ⟨inv_evict now s hi, abs_evict now s hi⟩

/-- `maybeCompact` (fast path and slow path) keeps the invariant and leaves the abstract map
    exactly as it was -/
theorem C48_compact_sound (s : TTL) (hi : Inv s) :
    Inv (maybeCompact s) ∧ ∀ k, abs (maybeCompact s) k = abs s k :=
  compact_spec s hi

-- non-vacuous instance: a state with a dead prefix, a Get-deleted hole and a live entry; compaction fires
example : Inv (⟨10, [(7, 2)], [⟨5, 1, 3⟩, ⟨6, 1, 4⟩, ⟨7, 9, 20⟩], 2⟩ : TTL) :=
  ⟨by decide, by decide, by
    intro k i h
    simp only [Items.find] at h
    split at h
    · cases h; subst_vars; exact ⟨by decide, ⟨7, 9, 20⟩, rfl, rfl⟩
    · cases h⟩
example : (maybeCompact ⟨10, [(7, 2)], [⟨5, 1, 3⟩, ⟨6, 1, 4⟩, ⟨7, 9, 20⟩], 2⟩).order = [⟨7, 9, 20⟩] := by decide

/-! ### the simulation -/

def toS : Op → SOp
  | .set k v => .set k v
  | .get k => .get k
  | .del k => .del k
  | .reset => .reset
  | .len => .len
  | .activeLen => .activeLen
  | .tick d => .tick d

/-- simulation relation: same clock and ttl, the invariant, and the concrete map is the spec map
    minus (some) entries that are already expired -/
structure Rel (c : Cfg) (sc : SCfg) : Prop where
  now : c.now = sc.now
  ttl : c.s.ttl = sc.ttl
  inv : Inv c.s
  abs : ∀ k, DropsExpired c.now (abs c.s k) (sc.m k)

theorem DropsExpired.trans {now : Int} {a b c : Option (Int × Int)}
    (h1 : DropsExpired now a b) (h2 : DropsExpired now b c) : DropsExpired now a c := by
  rcases h1 with rfl | ⟨ha, v, e, hb, hle⟩
  · exact h2
  · rcases h2 with rfl | ⟨hb', _⟩
    · exact Or.inr ⟨ha, v, e, hb, hle⟩
    · rw [hb] at hb'; cases hb'

theorem DropsExpired.mono {now now' : Int} {a b : Option (Int × Int)} (h : now ≤ now')
    (h1 : DropsExpired now a b) : DropsExpired now' a b := by
  rcases h1 with rfl | ⟨ha, v, e, hb, hle⟩
  · exact Or.inl rfl
  · exact Or.inr ⟨ha, v, e, hb, by omega⟩

theorem DropsExpired.liveVal {now : Int} {a b : Option (Int × Int)} (h : DropsExpired now a b) :
    liveVal now a = liveVal now b := by
  rcases h with rfl | ⟨ha, v, e, hb, hle⟩
  · rfl
  · subst ha hb
    have : ¬ now < e := by omega
    simp [C48.liveVal, this]

theorem liveVal_eq_get (m : SMap) (now : Int) (k : Nat) : liveVal now (m k) = m.get now k := by
  unfold liveVal SMap.get
  cases m k with
  | none => rfl
  | some p => rfl

/-- what the spec's answer demands of the implementation's answer -/
def OutOK (sc : SCfg) (out : Out) : SOut → Prop
  | .unit => out = .unit
  | .val o => out = .val o
  | .active => ∀ keys : List Nat, keys.Nodup → (∀ k, sc.m k ≠ none → k ∈ keys) →
      out = .num (sc.m.active sc.now keys)
  | .anyLen => ∃ n, out = .num n ∧ ∀ keys : List Nat, keys.Nodup → sc.m.active sc.now keys ≤ n

theorem rel_init (ttl t0 : Int) : Rel ⟨t0, TTL.new ttl⟩ ⟨ttl, t0, SMap.empty⟩ :=
  ⟨rfl, rfl, inv_new ttl, fun k => by rw [abs_new]; exact Or.inl rfl⟩

/-- keys of live entries, concretely and abstractly, coincide -/
theorem live_keys (c : Cfg) (sc : SCfg) (hr : Rel c sc) (k : Nat) :
    (∃ i, (k, i) ∈ c.s.items ∧ liveSlot c.now c.s.order (k, i) = true) ↔ (sc.m.get sc.now k).isSome = true := by
  rw [← liveVal_eq_get, ← hr.now, ← (hr.abs k).liveVal]
  simp only [C48.abs]
  constructor
  · rintro ⟨i, hm, hl⟩
    rw [find_of_mem hr.inv.nodup hm]
    simp only [liveSlot] at hl
    cases he : c.s.order[i]? with
    | none => simp [he] at hl
    | some e => simp only [he, decide_eq_true_eq] at hl; simp [liveVal, he, hl]
  · intro h
    cases hf : c.s.items.find k with
    | none => simp [hf, liveVal] at h
    | some i =>
      refine ⟨i, mem_of_find hf, ?_⟩
      simp only [hf] at h
      simp only [liveSlot]
      cases he : c.s.order[i]? with
      | none => simp [he, liveVal] at h
      | some e =>
        simp only [he, Option.map_some, liveVal] at h
        by_cases hl : c.now < e.exp
        · simp [hl]
        · simp [hl] at h

theorem active_count (c : Cfg) (sc : SCfg) (hr : Rel c sc) (keys : List Nat) (hn : keys.Nodup)
    (hcov : ∀ k, sc.m k ≠ none → k ∈ keys) :
    (c.s.items.filter (liveSlot c.now c.s.order)).length = sc.m.active sc.now keys := by
  unfold SMap.active
  have h1 : (c.s.items.filter (liveSlot c.now c.s.order)).length
      = (Keys (c.s.items.filter (liveSlot c.now c.s.order))).length := by simp [Keys]
  rw [h1]
  apply List.Perm.length_eq
  rw [List.perm_ext_iff_of_nodup]
  · intro k
    simp only [Keys, List.mem_map, List.mem_filter]
    constructor
    · rintro ⟨⟨k', i⟩, ⟨hm, hl⟩, rfl⟩
      have hlive := (live_keys c sc hr k').mp ⟨i, hm, hl⟩
      refine ⟨hcov k' ?_, hlive⟩
      intro hnone
      simp [SMap.get, hnone] at hlive
    · rintro ⟨_, hlive⟩
      obtain ⟨i, hm, hl⟩ := (live_keys c sc hr k).mpr hlive
      exact ⟨(k, i), ⟨hm, hl⟩, rfl⟩
  · simp only [Keys]
    exact List.Nodup.sublist (List.Sublist.map _ List.filter_sublist) hr.inv.nodup
  · exact List.Nodup.sublist List.filter_sublist hn

theorem len_ge_active (c : Cfg) (sc : SCfg) (hr : Rel c sc) (keys : List Nat) (hn : keys.Nodup) :
    sc.m.active sc.now keys ≤ c.s.items.length := by
  unfold SMap.active
  have h1 : c.s.items.length = (Keys c.s.items).length := by simp [Keys]
  rw [h1]
  apply List.Nodup.length_le_of_subset (List.Nodup.sublist List.filter_sublist hn)
  intro k hk
  have hlive := (List.mem_filter.mp hk).2
  obtain ⟨i, hm, _⟩ := (live_keys c sc hr k).mpr hlive
  exact List.mem_map.mpr ⟨(k, i), hm, rfl⟩

/-- ONE STEP: every operation preserves the simulation relation and answers as the spec does -/
theorem step_refines (c : Cfg) (sc : SCfg) (hr : Rel c sc) (op : Op) :
    Rel (step c op).1 (sstep sc (toS op)).1 ∧ OutOK sc (step c op).2 (sstep sc (toS op)).2 := by
  cases op with
  | set k v =>
    obtain ⟨hi, ht, ha⟩ := set_spec c.now k v c.s hr.inv
    refine ⟨⟨hr.now, by simp only [step, sstep, toS]; rw [ht]; exact hr.ttl, hi, ?_⟩, rfl⟩
    intro k'
    simp only [step, sstep, toS]
    refine (ha k').trans ?_
    simp only [SMap.set]
    by_cases hk : k' = k
    · simp only [hk, if_true]; rw [hr.now, hr.ttl]; exact Or.inl rfl
    · simp only [hk, if_false]; exact hr.abs k'
  | get k =>
    obtain ⟨hi, ht, hv, ha⟩ := get_spec c.now k c.s hr.inv
    refine ⟨⟨hr.now, by simp only [step, sstep, toS]; rw [ht]; exact hr.ttl, hi, ?_⟩, ?_⟩
    · intro k'
      simp only [step, sstep, toS]
      exact (ha k').trans (hr.abs k')
    · simp only [step, sstep, toS, OutOK]
      rw [hv, (hr.abs k).liveVal, liveVal_eq_get, hr.now]
  | del k =>
    obtain ⟨hi, ht, ha⟩ := delete_spec k c.s hr.inv
    refine ⟨⟨hr.now, by simp only [step, sstep, toS]; rw [ht]; exact hr.ttl, hi, ?_⟩, rfl⟩
    intro k'
    simp only [step, sstep, toS, SMap.del]
    rw [ha k']
    by_cases hk : k' = k
    · simp only [hk, if_true]; exact Or.inl rfl
    · simp only [hk, if_false]; exact hr.abs k'
  | reset =>
    obtain ⟨hi, ht, ha⟩ := reset_spec c.s
    refine ⟨⟨hr.now, by simp only [step, sstep, toS]; rw [ht]; exact hr.ttl, hi, ?_⟩, rfl⟩
    intro k'
    simp only [step, sstep, toS, SMap.empty]
    rw [ha k']; exact Or.inl rfl
  | len =>
    refine ⟨hr, ?_⟩
    simp only [step, sstep, toS, OutOK, Model.C48.len]
    exact ⟨_, rfl, fun keys hn => len_ge_active c sc hr keys hn⟩
  | activeLen =>
    obtain ⟨hi, ht, ha, _⟩ := activeLen_spec c.now c.s hr.inv
    refine ⟨⟨hr.now, by simp only [step, sstep, toS]; rw [ht]; exact hr.ttl, hi, ?_⟩, ?_⟩
    · intro k'
      simp only [step, sstep, toS]
      exact (ha k').trans (hr.abs k')
    · simp only [step, sstep, toS, OutOK, activeLen]
      intro keys hn hcov
      rw [active_count c sc hr keys hn hcov]
  | tick d =>
    refine ⟨⟨by simp only [step, sstep, toS]; rw [hr.now], hr.ttl, hr.inv, ?_⟩, rfl⟩
    intro k'
    simp only [step, sstep, toS]
    exact (hr.abs k').mono (by omega)

/-- position-wise agreement of the model's answers with the spec's demands -/
def Matches : List (SCfg × SOut) → List Out → Prop
  | [], [] => True
  | (sc, so) :: ss, o :: os => OutOK sc o so ∧ Matches ss os
  | _, _ => False

theorem run_refines (ops : List Op) : ∀ (c : Cfg) (sc : SCfg), Rel c sc →
    Matches (srun sc (ops.map toS)) (run c ops).2 := by
  induction ops with
  | nil => intro c sc _; simp [srun, run, Matches]
  | cons op ops ih =>
    intro c sc hr
    obtain ⟨hr', ho⟩ := step_refines c sc hr op
    simp only [List.map_cons, srun, run, Matches]
    exact ⟨ho, ih _ _ hr'⟩

/-! ### reading the spec as the English sentence -/

/-- final spec configuration after a history -/
def sfinal (sc : SCfg) : List SOp → SCfg
  | [] => sc
  | op :: ops => sfinal (sstep sc op).1 ops

/-- total clock advance of a history -/
def elapsed : List SOp → Int
  | [] => 0
  | .tick d :: ops => d + elapsed ops
  | _ :: ops => elapsed ops

/-- the operation leaves key `k` alone (not a Set/Delete of `k`, not a Reset) -/
def Untouched (k : Nat) : SOp → Prop
  | .set k' _ => k' ≠ k
  | .del k' => k' ≠ k
  | .reset => False
  | _ => True

theorem sfinal_append (sc : SCfg) (a b : List SOp) : sfinal sc (a ++ b) = sfinal (sfinal sc a) b := by
  induction a generalizing sc with
  | nil => rfl
  | cons op a ih => simp only [List.cons_append, sfinal]; exact ih _

theorem sfinal_untouched (k : Nat) (mid : List SOp) : ∀ (sc : SCfg), (∀ op ∈ mid, Untouched k op) →
    (sfinal sc mid).m k = sc.m k ∧ (sfinal sc mid).now = sc.now + elapsed mid ∧ (sfinal sc mid).ttl = sc.ttl := by
  induction mid with
  | nil => intro sc _; simp [sfinal, elapsed]
  | cons op mid ih =>
    intro sc h
    have hop := h op List.mem_cons_self
    obtain ⟨i1, i2, i3⟩ := ih (sstep sc op).1 (fun o ho => h o (List.mem_cons_of_mem _ ho))
    simp only [sfinal]
    rw [i1, i2, i3]
    cases op with
    | set k' v => simp only [Untouched] at hop; simp [sstep, SMap.set, elapsed, Ne.symm hop]
    | del k' => simp only [Untouched] at hop; simp [sstep, SMap.del, elapsed, Ne.symm hop]
    | reset => simp [Untouched] at hop
    | get k' => simp [sstep, elapsed]
    | len => simp [sstep, elapsed]
    | activeLen => simp [sstep, elapsed]
    | tick d => simp only [sstep, elapsed]; exact ⟨trivial, by omega, trivial⟩

theorem sstep_ttl (sc : SCfg) (op : SOp) : (sstep sc op).1.ttl = sc.ttl := by
  cases op <;> rfl

theorem sfinal_ttl (ops : List SOp) : ∀ sc : SCfg, (sfinal sc ops).ttl = sc.ttl := by
  induction ops with
  | nil => intro sc; rfl
  | cons op ops ih => intro sc; simp only [sfinal]; rw [ih, sstep_ttl]

/-- SPEC = ENGLISH (1): after `… Set(k,v) mid`, where `mid` contains no Set/Delete of `k` and no
    Reset, a Get(k) yields `v` exactly when less than the TTL has elapsed since that Set -/
theorem spec_get_after_set (sc0 : SCfg) (pre mid : List SOp) (k : Nat) (v : Int)
    (hmid : ∀ op ∈ mid, Untouched k op) :
    (sfinal sc0 (pre ++ .set k v :: mid)).m.get (sfinal sc0 (pre ++ .set k v :: mid)).now k
      = if elapsed mid < sc0.ttl then some v else none := by
  simp only [sfinal_append, sfinal]
  have httl := sfinal_ttl pre sc0
  generalize sfinal sc0 pre = sc1 at httl ⊢
  obtain ⟨h1, h2, _⟩ := sfinal_untouched k mid (sstep sc1 (.set k v)).1 hmid
  simp only [SMap.get, h1, h2]
  simp only [sstep, SMap.set, if_true, httl]
  by_cases h : elapsed mid < sc0.ttl
  · have : sc1.now + elapsed mid < sc1.now + sc0.ttl := by omega
    simp [h, this]
  · have : ¬ sc1.now + elapsed mid < sc1.now + sc0.ttl := by omega
    simp [h, this]

/-- SPEC = ENGLISH (2): after a Delete(k) or a Reset with no later Set(k), Get(k) finds nothing -/
theorem spec_get_after_del (sc0 : SCfg) (pre mid : List SOp) (k : Nat) (op : SOp)
    (hop : op = .del k ∨ op = .reset) (hmid : ∀ o ∈ mid, ∀ v, o ≠ .set k v) :
    (sfinal sc0 (pre ++ op :: mid)).m.get (sfinal sc0 (pre ++ op :: mid)).now k = none := by
  simp only [sfinal_append, sfinal]
  generalize sfinal sc0 pre = sc1
  have hnone : (sstep sc1 op).1.m k = none := by
    rcases hop with rfl | rfl <;> simp [sstep, SMap.del, SMap.empty]
  generalize (sstep sc1 op).1 = sc2 at hnone
  suffices h : (sfinal sc2 mid).m k = none by simp [SMap.get, h]
  induction mid generalizing sc2 with
  | nil => exact hnone
  | cons o mid ih =>
    simp only [sfinal]
    apply ih (fun o' ho' => hmid o' (List.mem_cons_of_mem _ ho'))
    have ho := hmid o List.mem_cons_self
    cases o with
    | set k' v =>
      have : k' ≠ k := fun h => ho v (by rw [h])
      simp [sstep, SMap.set, Ne.symm this, hnone]
    | del k' => simp only [sstep, SMap.del]; split <;> simp [hnone]
    | reset => simp [sstep, SMap.empty]
    | get k' => exact hnone
    | len => exact hnone
    | activeLen => exact hnone
    | tick d => exact hnone

/-- SPEC = ENGLISH (3): a key that was never Set is never found -/
theorem spec_get_never_set (ttl t0 : Int) (ops : List SOp) (k : Nat) (h : ∀ o ∈ ops, ∀ v, o ≠ .set k v) :
    (sfinal ⟨ttl, t0, SMap.empty⟩ ops).m.get (sfinal ⟨ttl, t0, SMap.empty⟩ ops).now k = none := by
  have := spec_get_after_del ⟨ttl, t0, SMap.empty⟩ [] ops k .reset (Or.inr rfl) h
  simpa [sfinal, sstep] using this

/-! ### the same, for the MODEL of the code -/

theorem run_append (c : Cfg) (a b : List Op) : (run c (a ++ b)).1 = (run (run c a).1 b).1 := by
  induction a generalizing c with
  | nil => rfl
  | cons op a ih => simp only [List.cons_append, run]; exact ih _

theorem rel_run (ops : List Op) : ∀ (c : Cfg) (sc : SCfg), Rel c sc →
    Rel (run c ops).1 (sfinal sc (ops.map toS)) := by
  induction ops with
  | nil => intro c sc h; exact h
  | cons op ops ih =>
    intro c sc h
    simp only [run, List.map_cons, sfinal]
    exact ih _ _ (step_refines c sc h op).1

/-- a Get(k) issued after the history `ops` (from a fresh map) answers what the spec map holds -/
theorem get_after (ttl t0 : Int) (ops : List Op) (k : Nat) :
    (step (run ⟨t0, TTL.new ttl⟩ ops).1 (.get k)).2
      = .val ((sfinal ⟨ttl, t0, SMap.empty⟩ (ops.map toS)).m.get (sfinal ⟨ttl, t0, SMap.empty⟩ (ops.map toS)).now k) := by
  have hr := rel_run ops _ _ (rel_init ttl t0)
  have := (step_refines _ _ hr (.get k)).2
  simpa [OutOK, toS, sstep] using this

/-- The full statement.
 (1) refinement: on every history, from a fresh map with any ttl (positive or not) and any start
     time, every answer of the model is the answer the abstract map-with-deadlines demands
     (Get: the value iff live; ActiveLen: the number of live keys; Len: at least that number);
 (2) Get(k) after `pre, Set(k,v), mid` with no Set/Delete of k and no Reset in `mid` returns `v`
     iff the clock advanced by less than ttl during `mid` (so exactly-at-expiry is a miss);
 (3) after Delete(k)/Reset and no later Set(k), Get(k) misses; (4) a never-Set key misses;
 (5) evict and maybeCompact only ever drop expired entries from the abstract map. -/
def C48_full : Prop :=
  (∀ (ttl t0 : Int) (ops : List Op),
      Matches (srun ⟨ttl, t0, SMap.empty⟩ (ops.map toS)) (run ⟨t0, TTL.new ttl⟩ ops).2) ∧
  (∀ (ttl t0 : Int) (pre mid : List Op) (k : Nat) (v : Int),
      (∀ op ∈ mid, Untouched k (toS op)) →
      (step (run ⟨t0, TTL.new ttl⟩ (pre ++ .set k v :: mid)).1 (.get k)).2
        = .val (if elapsed (mid.map toS) < ttl then some v else none)) ∧
  (∀ (ttl t0 : Int) (pre mid : List Op) (k : Nat) (op : Op), (op = .del k ∨ op = .reset) →
      (∀ o ∈ mid, ∀ v, o ≠ .set k v) →
      (step (run ⟨t0, TTL.new ttl⟩ (pre ++ op :: mid)).1 (.get k)).2 = .val none) ∧
  (∀ (ttl t0 : Int) (ops : List Op) (k : Nat), (∀ o ∈ ops, ∀ v, o ≠ .set k v) →
      (step (run ⟨t0, TTL.new ttl⟩ ops).1 (.get k)).2 = .val none) ∧
  (∀ (now : Int) (s : TTL), Inv s →
      (Inv (evict now s) ∧ ∀ k, DropsExpired now (abs (evict now s) k) (abs s k)) ∧
      (Inv (maybeCompact s) ∧ ∀ k, abs (maybeCompact s) k = abs s k))

theorem toS_set_ne {o : Op} {k : Nat} (h : ∀ v, o ≠ .set k v) : ∀ v, toS o ≠ .set k v := by
  intro v hv
  cases o <;> simp only [toS, reduceCtorEq] at hv
  cases hv
  exact h _ rfl

theorem C48_holds : C48_full := by
  refine ⟨fun ttl t0 ops => run_refines ops _ _ (rel_init ttl t0), ?_, ?_, ?_, ?_⟩
  · intro ttl t0 pre mid k v hmid
    rw [get_after]
    simp only [List.map_append, List.map_cons, toS]
    rw [spec_get_after_set ⟨ttl, t0, SMap.empty⟩ (pre.map toS) (mid.map toS) k v]
    intro op hop
    obtain ⟨o, ho, rfl⟩ := List.mem_map.mp hop
    exact hmid o ho
  · intro ttl t0 pre mid k op hop hmid
    rw [get_after]
    simp only [List.map_append, List.map_cons]
    rw [spec_get_after_del ⟨ttl, t0, SMap.empty⟩ (pre.map toS) (mid.map toS) k (toS op)]
    · rcases hop with rfl | rfl
      · exact Or.inl rfl
      · exact Or.inr rfl
    · intro o ho
      obtain ⟨o', ho', rfl⟩ := List.mem_map.mp ho
      exact toS_set_ne (hmid o' ho')
  · intro ttl t0 ops k h
    rw [get_after, spec_get_never_set]
    intro o ho
    obtain ⟨o', ho', rfl⟩ := List.mem_map.mp ho
    exact toS_set_ne (h o' ho')
  · intro now s hi
    exact ⟨C48_evict_sound now s hi, C48_compact_sound s hi⟩

/-! ### non-vacuity / sanity instances (TESTS, by evaluation) -/

-- ttl 10: Set at t=0, Get at t=9 hits, Get at t=10 (exactly at expiry) misses
example : (run ⟨0, TTL.new 10⟩ [.set 1 7, .tick 9, .get 1, .tick 1, .get 1]).2
    = [.unit, .unit, .val (some 7), .unit, .val none] := by decide
-- a history satisfying the hypothesis of clause (2): `mid` leaves key 1 alone
example : ∀ op ∈ ([.set 2 5, .tick 3, .del 2, .get 1] : List Op), Untouched 1 (toS op) := by
  intro op h
  simp only [List.mem_cons, List.not_mem_nil, or_false] at h
  rcases h with rfl | rfl | rfl | rfl <;> simp [toS, Untouched]

end GoaktVerif.C48

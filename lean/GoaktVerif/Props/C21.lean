/-
C21 — Routers distribute messages according to their strategy.

"A round-robin router sends its k-th routed message to routee (k-1) mod n for any number of
 messages, including after its counter wraps, without dropping any; a fan-out router delivers each
 message to every routee exactly once; a consistent-hash router sends messages with equal keys to
 the same routee while membership is unchanged, and removing a routee only moves keys that it owned."

Model: Model/C21.lean (actor/router.go as it is; Go map iteration order is an input of each step).
Tie: differential (E1/E2) on the real ring and on the real router driven in-package; go2lean cannot
reach the index expression (it is not a `return a[e]`), so `rrIndex` is a hand model.

Outcome: the full statement holds (C21_holds).  History (fixed by the round-robin fix, see
findings/C21.json): the counter used to be free-running (index -1 and a panic at the uint32 wrap), the
slice used to be rebuilt from a Go map per message without sorting (no fixed order), and stopped routees
were deleted from the map but still appended to the slice.
-/
import GoaktVerif.Gen.C21
import GoaktVerif.Lemmas.FixedWidth
import GoaktVerif.Model.C21
import GoaktVerif.Spec.C21
import GoaktVerif.Lemmas.C21

namespace GoaktVerif.C21
open GoaktVerif.Model.C21 GoaktVerif.Spec.C21 GoaktVerif.C21L

/-! ### consistent hash ring -/

/-- what `lookup` computes: the owner of the successor vnode (least hash ≥ h, wrapping to the least
    hash). With pairwise distinct vnode hashes "the owner" is the member that vnode belongs to. -/
theorem ring_lookup_succ (V : List VNode) (hnd : (V.map (·.1)).Nodup) (h : Nat) (hne : V ≠ []) :
    ∃ k m, IsSucc (V.map (·.1)) h k ∧ (k, m) ∈ V ∧ (Ring.set V).lookup h = some m := by
  obtain ⟨k, hs, hl⟩ := lookup_spec V h hne
  obtain ⟨v, hv, hk⟩ := List.mem_map.mp hs.1
  refine ⟨k, v.2, hs, by rw [← hk]; exact hv, ?_⟩
  rw [hl]
  exact mapGet_of_mem V hnd k v.2 (by rw [← hk]; exact hv)

/-- the members come out of a Go map in arbitrary order: the ring does not depend on it -/
theorem ring_order_irrelevant (V V' : List VNode) (hp : V.Perm V') (hnd : (V.map (·.1)).Nodup) (h : Nat) :
    (Ring.set V).lookup h = (Ring.set V').lookup h := by
  by_cases hne : V = []
  · subst hne
    have : V' = [] := (List.Perm.nil_eq hp).symm
    subst this; rfl
  · have hne' : V' ≠ [] := fun e => hne (by subst e; exact List.perm_nil.mp hp)
    have hnd' : (V'.map (·.1)).Nodup := (hp.map _).nodup_iff.mp hnd
    obtain ⟨k, m, hs, hm, hl⟩ := ring_lookup_succ V hnd h hne
    obtain ⟨k', m', hs', hm', hl'⟩ := ring_lookup_succ V' hnd' h hne'
    have hmem : ∀ y, y ∈ V.map (·.1) ↔ y ∈ V'.map (·.1) := fun y => (hp.map _).mem_iff
    have hk : k = k' := isSucc_unique ((isSucc_congr hmem).mp hs) hs'
    subst hk
    have : mapGet V' k = some m := mapGet_of_mem V' hnd' k m (hp.mem_iff.mp hm)
    have : mapGet V' k = some m' := mapGet_of_mem V' hnd' k m' hm'
    rw [hl, hl']; simp_all

/-- removing member `r` (rebuilding the ring without its vnodes) only moves keys that `r` owned -/
theorem ring_minimal_disruption (V : List VNode) (hnd : (V.map (·.1)).Nodup) (r h m m' : Nat)
    (hbefore : (Ring.set V).lookup h = some m)
    (hafter : (Ring.set (V.filter (fun v => v.2 != r))).lookup h = some m')
    (hmoved : m ≠ m') : m = r := by
  apply Classical.byContradiction
  intro hmr
  have hne : V ≠ [] := by
    intro e; subst e; simp [Ring.set, Ring.lookup, sortKeys] at hbefore
  obtain ⟨k, m0, hs, hm, hl⟩ := ring_lookup_succ V hnd h hne
  have e0 : m0 = m := by rw [hl] at hbefore; exact Option.some.inj hbefore
  subst e0
  let V' := V.filter (fun v => v.2 != r)
  have hin : (k, m0) ∈ V' := List.mem_filter.mpr ⟨hm, by simpa using hmr⟩
  have hsub : ∀ y, y ∈ V'.map (·.1) → y ∈ V.map (·.1) := by
    intro y hy
    obtain ⟨v, hv, e⟩ := List.mem_map.mp hy
    exact List.mem_map.mpr ⟨v, (List.mem_filter.mp hv).1, e⟩
  have hnd' : (V'.map (·.1)).Nodup := (List.filter_sublist.map _).nodup hnd
  have hne' : V' ≠ [] := List.ne_nil_of_mem hin
  obtain ⟨k', m1, hs', hm', hl'⟩ := ring_lookup_succ V' hnd' h hne'
  have hk : k = k' := isSucc_unique (isSucc_subset hsub hs (List.mem_map.mpr ⟨(k, m0), hin, rfl⟩)) hs'
  subst hk
  have a : mapGet V' k = some m0 := mapGet_of_mem V' hnd' k m0 hin
  have b : mapGet V' k = some m1 := mapGet_of_mem V' hnd' k m1 hm'
  have : m' = m1 := by
    have : (Ring.set V').lookup h = some m' := hafter
    rw [hl'] at this; exact (Option.some.inj this).symm
  rw [a] at b
  exact hmoved (by rw [this]; exact Option.some.inj b)

/-- the ring is the set of vnodes of the members: removing a routee = filtering its vnodes -/
theorem vnodesOf_remove (hv : Nat → Nat → Nat) (vn : Nat) (members : List Nat) (r : Nat) :
    vnodesOf hv vn (members.filter (· != r)) = (vnodesOf hv vn members).filter (fun v => v.2 != r) := by
  induction members with
  | nil => rfl
  | cons a as ih =>
    simp only [vnodesOf, List.flatMap_cons, List.filter_append] at ih ⊢
    by_cases e : a = r
    · subst e
      simp only [bne_self_eq_false, Bool.false_eq_true, not_false_eq_true, List.filter_cons_of_neg, ih]
      have : List.filter (fun v : VNode => v.2 != a) ((List.range vn).map fun i => (hv a i, a)) = [] := by
        simp [List.filter_eq_nil_iff]
      rw [this, List.nil_append]
    · have hne : (a != r) = true := by simpa using e
      simp only [hne, List.filter_cons_of_pos, List.flatMap_cons, ih]
      congr 1
      symm
      apply List.filter_eq_self.mpr
      intro v hvm
      obtain ⟨i, _, rfl⟩ := List.mem_map.mp hvm
      exact hne

/-! ### router: what availableRoutees returns -/

theorem running_filter (r : Router) (hall : ∀ e ∈ r.members, e.2 = true) :
    ({ r with members := r.members.filter (·.2) } : Router) = r := by
  have hf : r.members.filter (·.2) = r.members := List.filter_eq_self.mpr (fun e he => hall e he)
  rw [hf]

theorem running_of_mem (r : Router) (hall : ∀ e ∈ r.members, e.2 = true) (id : Nat) (h : id ∈ r.ids) :
    r.running id = true := by
  obtain ⟨e, he, rfl⟩ := List.mem_map.mp h
  simp only [Router.running, List.any_eq_true]
  exact ⟨e, he, by simp [hall e he]⟩

/-- the slice does not depend on the map iteration order: it is the sorted list of the routees -/
theorem available_sorted (r : Router) (order : List Nat) (hperm : order.Perm r.ids)
    (hall : ∀ e ∈ r.members, e.2 = true) :
    (available r order).1 = sortKeys r.ids := by
  have hf : order.filter r.running = order :=
    List.filter_eq_self.mpr (fun id hid => running_of_mem r hall id (hperm.mem_iff.mp hid))
  simp only [available, hf]
  apply List.Perm.eq_of_pairwise (le := (· ≤ ·)) (fun a b _ _ h1 h2 => Nat.le_antisymm h1 h2)
    (sortKeys_sorted _) (sortKeys_sorted _)
  exact (sortKeys_perm order).trans (hperm.trans (sortKeys_perm r.ids).symm)

/-! ### router: consistent-hash strategy -/

/-- equal keys (equal hashes) are routed to the same routee while ring and routee map are unchanged
    and the owner is running — whatever the map iteration order and the random draws are -/
theorem ch_stable (r : Router) (ring : Ring) (o₁ o₂ : List Nat) (h rnd₁ rnd₂ id : Nat)
    (hne₁ : (available r o₁).1 ≠ []) (hne₂ : (available r o₂).1 ≠ [])
    (hall : ∀ e ∈ r.members, e.2 = true) (hown : ring.lookup h = some id) (hrun : r.running id = true) :
    (chRoute r ring o₁ (some h) rnd₁).1 = .delivered id
    ∧ (chRoute r ring o₂ (some h) rnd₂).1 = .delivered id
    ∧ (chRoute r ring o₁ (some h) rnd₁).2 = r := by
  have hr := running_filter r hall
  have e₁ : (available r o₁).1.isEmpty = false := by
    cases h1 : (available r o₁).1 with
    | nil => exact absurd h1 hne₁
    | cons _ _ => rfl
  have e₂ : (available r o₂).1.isEmpty = false := by
    cases h2 : (available r o₂).1 with
    | nil => exact absurd h2 hne₂
    | cons _ _ => rfl
  simp only [available] at e₁ e₂
  simp [chRoute, available, hr, e₁, e₂, hown, hrun]

/-! ### router: fan-out strategy -/

theorem count_map_delivered (r : Router) (id : Nat) (order : List Nat) (hrun : r.running id = true) :
    (order.map (tellTo r)).count (.delivered id) = order.count id := by
  induction order with
  | nil => rfl
  | cons a as ih =>
    simp only [List.map_cons, List.count_cons, ih]
    congr 1
    by_cases e : a = id
    · subst e; simp [tellTo, hrun]
    · have : (tellTo r a == Outcome.delivered id) = false := by
        unfold tellTo; split <;> simp [e]
      simp [this, e]

theorem count_eq_one {l : List Nat} (hnd : l.Nodup) {a : Nat} (h : a ∈ l) : l.count a = 1 := by
  induction l with
  | nil => exact absurd h (by simp)
  | cons b bs ih =>
    have hb := List.nodup_cons.mp hnd
    rw [List.count_cons]
    rcases List.mem_cons.mp h with rfl | hin
    · have : List.count a bs = 0 := List.count_eq_zero.mpr hb.1
      simp [this]
    · have hne : b ≠ a := fun e => hb.1 (e ▸ hin)
      simp [ih hb.2 hin, hne]

/-- a fan-out message is told to every running routee exactly once, for every map iteration order -/
theorem fanout_exactly_once (r : Router) (order : List Nat) (hperm : order.Perm r.ids) (hnd : r.ids.Nodup)
    (id : Nat) (hmem : id ∈ r.ids) (hrun : r.running id = true) :
    (fanoutRoute r order).1.count (.delivered id) = 1 := by
  simp only [fanoutRoute, available]
  rw [count_map_delivered r id _ hrun, (sortKeys_perm _).count_eq, List.count_filter hrun, hperm.count_eq]
  exact count_eq_one hnd hmem

/-- and to nobody else: every Tell goes to a running routee of the map -/
theorem fanout_only_routees (r : Router) (order : List Nat) (hperm : order.Perm r.ids) (o : Outcome)
    (ho : o ∈ (fanoutRoute r order).1) : ∃ id ∈ r.ids, o = .delivered id := by
  simp only [fanoutRoute, available, List.mem_map] at ho
  obtain ⟨id, hid, rfl⟩ := ho
  have hid' : id ∈ order.filter r.running := (sortKeys_perm _).mem_iff.mp hid
  obtain ⟨hin, hrun⟩ := List.mem_filter.mp hid'
  exact ⟨id, hperm.mem_iff.mp hin, by simp [tellTo, hrun]⟩

/-! ### router: round-robin strategy -/

/-- tie: the `case RoundRobinRouting` body regenerated from actor/router.go computes exactly the model's
    index `cursor % len` and new cursor `(index + 1) % len` (see `rrRoute`), for every uint32 cursor value -/
theorem rrStep_refines (len : Int64) (next : UInt32) (h0 : 0 < len.toInt) (h1 : len.toInt < 2 ^ 31) :
    (Gen.C21.rrStep len next).1.toInt = ((next.toNat % len.toInt.toNat : Nat) : Int)
    ∧ (Gen.C21.rrStep len next).2.toNat = (next.toNat % len.toInt.toNat + 1) % len.toInt.toNat := by
  unfold Gen.C21.rrStep
  have hs := GoaktVerif.FixedWidth.int64_toInt32_toUInt32_toNat len (by omega) (by omega)
  have hidx : ((next % len.toInt32.toUInt32).toUInt64.toInt64).toInt = ((next.toNat % len.toInt.toNat : Nat) : Int) := by
    rw [GoaktVerif.FixedWidth.uint32_toUInt64_toInt64_toInt, UInt32.toNat_mod, hs]
  refine ⟨hidx, ?_⟩
  generalize hI : (next % len.toInt32.toUInt32).toUInt64.toInt64 = idx at *
  have hm : 0 < len.toInt.toNat := by omega
  have hlt : next.toNat % len.toInt.toNat < len.toInt.toNat := Nat.mod_lt _ hm
  have hadd : (idx + 1).toInt = idx.toInt + 1 := by
    rw [Int64.toInt_add]
    have : (1 : Int64).toInt = 1 := rfl
    rw [this]
    apply Int.bmod_eq_of_le <;> omega
  have hmod : ((idx + 1) % len).toInt = (idx.toInt + 1) % len.toInt := by
    rw [Int64.toInt_mod, hadd, Int.tmod_eq_emod_of_nonneg (by omega)]
  have hnn : 0 ≤ ((idx + 1) % len).toInt := by rw [hmod]; exact Int.emod_nonneg _ (by omega)
  have hub : ((idx + 1) % len).toInt < 2 ^ 32 := by
    rw [hmod]; have := Int.emod_lt_of_pos (idx.toInt + 1) h0; omega
  rw [GoaktVerif.FixedWidth.int64_toInt32_toUInt32_toNat _ hnn hub, hmod, hidx]
  have e : len.toInt = ((len.toInt.toNat : Nat) : Int) := by omega
  generalize len.toInt.toNat = L at *
  rw [e]
  have e2 : (((next.toNat % L : Nat) : Int) + 1) % (L : Int) = (((next.toNat % L + 1) % L : Nat) : Int) := by
    simp only [Int.natCast_emod, Int.natCast_add, Int.natCast_one]
  rw [e2, Int.toNat_natCast]


/-- a well-formed router state: at least one routee (and fewer than 2^32), distinct routees, all
    running, uint32 cursor -/
def Healthy (r : Router) : Prop :=
  r.members ≠ [] ∧ r.ids.Nodup ∧ (∀ e ∈ r.members, e.2 = true) ∧ r.next < 2 ^ 32 ∧ r.members.length < 2 ^ 32

/-- the round-robin law, for ANY cursor value (so after any number of earlier messages, any pool
    change) and ANY map iteration orders: message j goes to σ[(next + j) mod n] where σ is the sorted
    routee list — cyclic, nothing dropped, no wrap-around to worry about. -/
theorem rr_holds (r : Router) (orders : List (List Nat)) (hh : Healthy r)
    (hperm : ∀ o ∈ orders, o.Perm r.ids) :
    rrRun r orders = (List.range orders.length).map
      (fun j => Outcome.delivered ((sortKeys r.ids).getD ((r.next + j) % (sortKeys r.ids).length) 0)) := by
  induction orders generalizing r with
  | nil => rfl
  | cons o os ih =>
    obtain ⟨hne, hnd, hall, hlt, hsz⟩ := hh
    have hav := available_sorted r o (hperm o List.mem_cons_self) hall
    have hr := running_filter r hall
    have hlen : 0 < (sortKeys r.ids).length := by
      rw [(sortKeys_perm r.ids).length_eq]
      cases hm : r.members with
      | nil => exact absurd hm hne
      | cons _ _ => simp [Router.ids, hm]
    have e₁ : (sortKeys r.ids).isEmpty = false := by
      cases hs : sortKeys r.ids with
      | nil => rw [hs] at hlen; exact absurd hlen (by simp)
      | cons _ _ => rfl
    have hidx : r.next % 2 ^ 32 % (sortKeys r.ids).length < (sortKeys r.ids).length := Nat.mod_lt _ hlen
    have hn : r.next % 2 ^ 32 = r.next := Nat.mod_eq_of_lt hlt
    have hmem : (sortKeys r.ids)[r.next % (sortKeys r.ids).length]'(by rw [← hn]; exact hidx) ∈ r.ids :=
      (sortKeys_perm r.ids).mem_iff.mp (List.getElem_mem _)
    have hstep : rrRoute r o = (.delivered ((sortKeys r.ids).getD (r.next % (sortKeys r.ids).length) 0),
        { r with next := (r.next % (sortKeys r.ids).length + 1) % (sortKeys r.ids).length }) := by
      simp only [available] at hav
      simp only [rrRoute, available, hav, hr, e₁, hn]
      have hi : r.next % (sortKeys r.ids).length < (sortKeys r.ids).length := by rw [← hn]; exact hidx
      rw [List.getElem?_eq_getElem hi]
      simp only [Bool.false_eq_true, if_false, tellTo, running_of_mem r hall _ hmem, if_true,
        List.getD_eq_getElem?_getD, List.getElem?_eq_getElem hi, Option.getD_some]
    let r' : Router := { r with next := (r.next % (sortKeys r.ids).length + 1) % (sortKeys r.ids).length }
    have hh' : Healthy r' := ⟨hne, hnd, hall, by
      have h1 : (r.next % (sortKeys r.ids).length + 1) % (sortKeys r.ids).length < (sortKeys r.ids).length :=
        Nat.mod_lt _ hlen
      have h2 : (sortKeys r.ids).length = r.members.length := by
        rw [(sortKeys_perm r.ids).length_eq]; simp [Router.ids]
      show (r.next % (sortKeys r.ids).length + 1) % (sortKeys r.ids).length < 2 ^ 32
      omega, hsz⟩
    have ih' := ih r' hh' (fun o' ho' => hperm o' (List.mem_cons_of_mem _ ho'))
    simp only [rrRun, hstep, List.length_cons, List.range_succ_eq_map, List.map_cons, List.map_map]
    refine List.cons_eq_cons.mpr ⟨by simp, ?_⟩
    rw [show ({ r with next := (r.next % (sortKeys r.ids).length + 1) % (sortKeys r.ids).length } : Router) = r' from rfl, ih']
    apply List.map_congr_left
    intro j _
    simp only [Function.comp, Nat.succ_eq_add_one]
    have e : ((r.next % (sortKeys r.ids).length + 1) % (sortKeys r.ids).length + j) % (sortKeys r.ids).length
        = (r.next + (j + 1)) % (sortKeys r.ids).length := by
      rw [Nat.mod_add_mod, Nat.add_assoc, Nat.mod_add_mod]
      congr 1; omega
    show Outcome.delivered ((sortKeys r'.ids).getD ((r'.next + j) % (sortKeys r'.ids).length) 0) = _
    show Outcome.delivered ((sortKeys r.ids).getD (((r.next % (sortKeys r.ids).length + 1) % (sortKeys r.ids).length + j) % (sortKeys r.ids).length) 0) = _
    rw [e]

/-! ### the full statement -/

/-- the receivers follow one fixed cyclic order σ of the routees, none lost -/
def CyclicIn (σ : List Nat) (outs : List Outcome) : Prop :=
  ∃ off, ∀ j (hj : j < outs.length), outs[j] = .delivered (σ.getD ((off + j) % σ.length) 0)

def C21_full : Prop :=
  -- round-robin: for every healthy router (any cursor value, so any number of earlier messages)
  -- and every sequence of map iteration orders, the outcomes are cyclic in one fixed order
  (∀ (r : Router) (orders : List (List Nat)), Healthy r → (∀ o ∈ orders, o.Perm r.ids) →
      ∃ σ, σ.Perm r.ids ∧ CyclicIn σ (rrRun r orders))
  -- fan-out: every running routee exactly once
  ∧ (∀ (r : Router) (order : List Nat) (id : Nat), order.Perm r.ids → r.ids.Nodup → id ∈ r.ids →
      r.running id = true → (fanoutRoute r order).1.count (.delivered id) = 1)
  -- consistent hash: equal keys, same routee, while nothing changes
  ∧ (∀ (r : Router) (ring : Ring) (o₁ o₂ : List Nat) (h rnd₁ rnd₂ id : Nat),
      (available r o₁).1 ≠ [] → (available r o₂).1 ≠ [] →
      (∀ e ∈ r.members, e.2 = true) → ring.lookup h = some id → r.running id = true →
      (chRoute r ring o₁ (some h) rnd₁).1 = .delivered id ∧ (chRoute r ring o₂ (some h) rnd₂).1 = .delivered id)
  -- consistent hash: removing a routee only moves its keys (distinct vnode hashes)
  ∧ (∀ (V : List VNode) (r h m m' : Nat), (V.map (·.1)).Nodup → (Ring.set V).lookup h = some m →
      (Ring.set (V.filter (fun v => v.2 != r))).lookup h = some m' → m ≠ m' → m = r)

theorem C21_holds : C21_full := by
  refine ⟨?_, fun r order id a b c d => fanout_exactly_once r order a b id c d,
    fun r ring o₁ o₂ h rnd₁ rnd₂ id a b c d e =>
      ⟨(ch_stable r ring o₁ o₂ h rnd₁ rnd₂ id a b c d e).1, (ch_stable r ring o₁ o₂ h rnd₁ rnd₂ id a b c d e).2.1⟩,
    fun V r h m m' a b c d => ring_minimal_disruption V a r h m m' b c d⟩
  intro r orders hh hperm
  refine ⟨sortKeys r.ids, sortKeys_perm r.ids, r.next, ?_⟩
  intro j hj
  have := rr_holds r orders hh hperm
  simp only [this, List.getElem_map, List.getElem_range]

/-- the former witnesses now behave: varying iteration orders, and a cursor value of 2^32-1 -/
example : rrRun ⟨[(0, true), (1, true)], 0⟩ [[0, 1], [1, 0]] = [.delivered 0, .delivered 1] := by decide
example : rrRun ⟨[(0, true), (1, true)], 4294967295⟩ [[0, 1], [1, 0], [0, 1]]
    = [.delivered 1, .delivered 0, .delivered 1] := by decide

/-! ### non-vacuity -/
def exV : List VNode := [(10, 0), (50, 1), (90, 2), (30, 1), (70, 0)]
example : (exV.map (·.1)).Nodup := by decide
example : (Ring.set exV).lookup 40 = some 1 := by decide          -- successor 50
example : (Ring.set exV).lookup 95 = some 0 := by decide          -- wrap to 10
example : (Ring.set (exV.filter (fun v => v.2 != 1))).lookup 40 = some 0 := by decide   -- moved: was owned by 1
example : (Ring.set (exV.filter (fun v => v.2 != 1))).lookup 80 = some 2 := by decide   -- not moved
example : rrRun ⟨[(0, true), (1, true), (2, true)], 7⟩ (List.replicate 4 [2, 0, 1])
    = [.delivered 1, .delivered 2, .delivered 0, .delivered 1] := by decide
example : Healthy ⟨[(0, true), (1, true)], 4294967295⟩ := ⟨by decide, by decide, by decide, by decide, by decide⟩
example : (fanoutRoute ⟨[(0, true), (1, false), (2, true)], 0⟩ [2, 1, 0]).1
    = [.delivered 0, .delivered 2] := by decide

end GoaktVerif.C21

/-
C21 — Routers distribute messages according to their strategy.

"A round-robin router sends its k-th routed message to routee (k-1) mod n for any number of
 messages, including after its counter wraps, without dropping any; a fan-out router delivers each
 message to every routee exactly once; a consistent-hash router sends messages with equal keys to
 the same routee while membership is unchanged, and removing a routee only moves keys that it owned."

Model: Model/C21.lean (actor/router.go as it is; Go map iteration order is an input of each step).
Tie: differential (E1/E2) on the real ring and on the real router driven in-package; go2lean cannot
reach the index expression (it is not a `return a[e]`), so `rrIndex` is a hand model.

Outcome: the round-robin clause is FALSE of the current code, twice (C21_refuted):
 (a) `availableRoutees` rebuilds the slice from a Go map for every message, so there is no fixed order;
 (b) at the message that wraps the uint32 counter to 0 the index is (0-1) % len = -1: panic, message lost.
The fan-out and consistent-hash clauses hold (fanout_exactly_once, ch_stable, ring_minimal_disruption),
the latter under the stated hypothesis that vnode hashes are pairwise distinct.
-/
import GoaktVerif.Model.C21
import GoaktVerif.Spec.C21
import GoaktVerif.Lemmas.C21

namespace GoaktVerif.C21
open GoaktVerif.Model.C21 GoaktVerif.Spec.C21 GoaktVerif.C21L

/-! ### consistent hash ring -/

/-- what `lookup` computes: the owner of the successor vnode (least hash ≥ h, wrapping to the least
    hash). With pairwise distinct vnode hashes "the owner" is the member that vnode belongs to. -/
theorem ring_lookup_succ (V : List VNode) (hnd : (V.map (·.1)).Nodup) (h : Nat) (hne : V ≠ []) :
    ∃ k m, IsSucc (V.map (·.1)) h k ∧ (k, m) ∈ V ∧ (Ring.set V).lookup h = some m := by
  obtain ⟨k, hs, hl⟩ := lookup_spec V h hne
  obtain ⟨v, hv, hk⟩ := List.mem_map.mp hs.1
  refine ⟨k, v.2, hs, by rw [← hk]; exact hv, ?_⟩
  rw [hl]
  exact mapGet_of_mem V hnd k v.2 (by rw [← hk]; exact hv)

/-- the members come out of a Go map in arbitrary order: the ring does not depend on it -/
theorem ring_order_irrelevant (V V' : List VNode) (hp : V.Perm V') (hnd : (V.map (·.1)).Nodup) (h : Nat) :
    (Ring.set V).lookup h = (Ring.set V').lookup h := by
  by_cases hne : V = []
  · subst hne
    have : V' = [] := (List.Perm.nil_eq hp).symm
    subst this; rfl
  · have hne' : V' ≠ [] := fun e => hne (by subst e; exact List.perm_nil.mp hp)
    have hnd' : (V'.map (·.1)).Nodup := (hp.map _).nodup_iff.mp hnd
    obtain ⟨k, m, hs, hm, hl⟩ := ring_lookup_succ V hnd h hne
    obtain ⟨k', m', hs', hm', hl'⟩ := ring_lookup_succ V' hnd' h hne'
    have hmem : ∀ y, y ∈ V.map (·.1) ↔ y ∈ V'.map (·.1) := fun y => (hp.map _).mem_iff
    have hk : k = k' := isSucc_unique ((isSucc_congr hmem).mp hs) hs'
    subst hk
    have : mapGet V' k = some m := mapGet_of_mem V' hnd' k m (hp.mem_iff.mp hm)
    have : mapGet V' k = some m' := mapGet_of_mem V' hnd' k m' hm'
    rw [hl, hl']; simp_all

/-- removing member `r` (rebuilding the ring without its vnodes) only moves keys that `r` owned -/
theorem ring_minimal_disruption (V : List VNode) (hnd : (V.map (·.1)).Nodup) (r h m m' : Nat)
    (hbefore : (Ring.set V).lookup h = some m)
    (hafter : (Ring.set (V.filter (fun v => v.2 != r))).lookup h = some m')
    (hmoved : m ≠ m') : m = r := by
  apply Classical.byContradiction
  intro hmr
  have hne : V ≠ [] := by
    intro e; subst e; simp [Ring.set, Ring.lookup, sortKeys] at hbefore
  obtain ⟨k, m0, hs, hm, hl⟩ := ring_lookup_succ V hnd h hne
  have e0 : m0 = m := by rw [hl] at hbefore; exact Option.some.inj hbefore
  subst e0
  let V' := V.filter (fun v => v.2 != r)
  have hin : (k, m0) ∈ V' := List.mem_filter.mpr ⟨hm, by simpa using hmr⟩
  have hsub : ∀ y, y ∈ V'.map (·.1) → y ∈ V.map (·.1) := by
    intro y hy
    obtain ⟨v, hv, e⟩ := List.mem_map.mp hy
    exact List.mem_map.mpr ⟨v, (List.mem_filter.mp hv).1, e⟩
  have hnd' : (V'.map (·.1)).Nodup := (List.filter_sublist.map _).nodup hnd
  have hne' : V' ≠ [] := List.ne_nil_of_mem hin
  obtain ⟨k', m1, hs', hm', hl'⟩ := ring_lookup_succ V' hnd' h hne'
  have hk : k = k' := isSucc_unique (isSucc_subset hsub hs (List.mem_map.mpr ⟨(k, m0), hin, rfl⟩)) hs'
  subst hk
  have a : mapGet V' k = some m0 := mapGet_of_mem V' hnd' k m0 hin
  have b : mapGet V' k = some m1 := mapGet_of_mem V' hnd' k m1 hm'
  have : m' = m1 := by
    have : (Ring.set V').lookup h = some m' := hafter
    rw [hl'] at this; exact (Option.some.inj this).symm
  rw [a] at b
  exact hmoved (by rw [this]; exact Option.some.inj b)

/-- the ring is the set of vnodes of the members: removing a routee = filtering its vnodes -/
theorem vnodesOf_remove (hv : Nat → Nat → Nat) (vn : Nat) (members : List Nat) (r : Nat) :
    vnodesOf hv vn (members.filter (· != r)) = (vnodesOf hv vn members).filter (fun v => v.2 != r) := by
  induction members with
  | nil => rfl
  | cons a as ih =>
    simp only [vnodesOf, List.flatMap_cons, List.filter_append] at ih ⊢
    by_cases e : a = r
    · subst e
      simp only [bne_self_eq_false, Bool.false_eq_true, not_false_eq_true, List.filter_cons_of_neg, ih]
      have : List.filter (fun v : VNode => v.2 != a) ((List.range vn).map fun i => (hv a i, a)) = [] := by
        simp [List.filter_eq_nil_iff]
      rw [this, List.nil_append]
    · have hne : (a != r) = true := by simpa using e
      simp only [hne, List.filter_cons_of_pos, List.flatMap_cons, ih]
      congr 1
      symm
      apply List.filter_eq_self.mpr
      intro v hvm
      obtain ⟨i, _, rfl⟩ := List.mem_map.mp hvm
      exact hne

/-! ### router: consistent-hash strategy -/

/-- equal keys (equal hashes) are routed to the same routee while ring and routee map are unchanged
    and the owner is running — whatever the map iteration order and the random draws are -/
theorem ch_stable (r : Router) (ring : Ring) (o₁ o₂ : List Nat) (h rnd₁ rnd₂ id : Nat)
    (hne₁ : o₁ ≠ []) (hne₂ : o₂ ≠ [])
    (hall : ∀ e ∈ r.members, e.2 = true) (hown : ring.lookup h = some id) (hrun : r.running id = true) :
    (chRoute r ring o₁ (some h) rnd₁).1 = .delivered id
    ∧ (chRoute r ring o₂ (some h) rnd₂).1 = .delivered id
    ∧ (chRoute r ring o₁ (some h) rnd₁).2 = r := by
  have hf : r.members.filter (·.2) = r.members := List.filter_eq_self.mpr (fun e he => hall e he)
  have hr : ({ r with members := r.members.filter (·.2) } : Router) = r := by rw [hf]
  have e₁ : o₁.isEmpty = false := by cases o₁ <;> simp_all
  have e₂ : o₂.isEmpty = false := by cases o₂ <;> simp_all
  simp [chRoute, available, hr, e₁, e₂, hown, hrun]

/-! ### router: fan-out strategy -/

theorem count_map_delivered (r : Router) (id : Nat) (order : List Nat) (hrun : r.running id = true) :
    (order.map (tellTo r)).count (.delivered id) = order.count id := by
  induction order with
  | nil => rfl
  | cons a as ih =>
    simp only [List.map_cons, List.count_cons, ih]
    congr 1
    by_cases e : a = id
    · subst e; simp [tellTo, hrun]
    · have : (tellTo r a == Outcome.delivered id) = false := by
        unfold tellTo; split <;> simp [e]
      simp [this, e]

theorem count_eq_one {l : List Nat} (hnd : l.Nodup) {a : Nat} (h : a ∈ l) : l.count a = 1 := by
  induction l with
  | nil => exact absurd h (by simp)
  | cons b bs ih =>
    have hb := List.nodup_cons.mp hnd
    rw [List.count_cons]
    rcases List.mem_cons.mp h with rfl | hin
    · have : List.count a bs = 0 := List.count_eq_zero.mpr hb.1
      simp [this]
    · have hne : b ≠ a := fun e => hb.1 (e ▸ hin)
      simp [ih hb.2 hin, hne]

/-- a fan-out message is told to every running routee exactly once, for every map iteration order -/
theorem fanout_exactly_once (r : Router) (order : List Nat) (hperm : order.Perm r.ids) (hnd : r.ids.Nodup)
    (id : Nat) (hmem : id ∈ r.ids) (hrun : r.running id = true) :
    (fanoutRoute r order).1.count (.delivered id) = 1 := by
  simp only [fanoutRoute, available]
  rw [count_map_delivered r id order hrun, hperm.count_eq]
  exact count_eq_one hnd hmem

/-- and to nobody else: every outcome concerns a routee of the map -/
theorem fanout_only_routees (r : Router) (order : List Nat) (hperm : order.Perm r.ids) (o : Outcome)
    (ho : o ∈ (fanoutRoute r order).1) : ∃ id ∈ r.ids, o = .delivered id ∨ o = .deadRoutee id := by
  simp only [fanoutRoute, available, List.mem_map] at ho
  obtain ⟨id, hid, rfl⟩ := ho
  refine ⟨id, hperm.mem_iff.mp hid, ?_⟩
  unfold tellTo; split <;> simp

/-! ### router: round-robin strategy -/

theorem rrIndex_succ (n len : Nat) : rrIndex (n + 1) len = ((n % len : Nat) : Int) := by
  unfold rrIndex
  have : ((n + 1 : Nat) : Int) - 1 = (n : Int) := by omega
  rw [this]
  exact (Int.ofNat_tmod n len).symm

/-- the wrap: counter value 0 gives index -1 for every pool of at least two routees -/
theorem rrIndex_wrap (len : Nat) (h : 2 ≤ len) : rrIndex 0 len = -1 := by
  unfold rrIndex
  show Int.tmod (Int.negSucc 0) (Int.ofNat len) = -1
  simp only [Int.tmod, Nat.succ_eq_add_one, Nat.zero_add, Nat.mod_eq_of_lt h]
  rfl

/-- PARTIAL round-robin law: if the slice comes out in the same order `σ` for every message, every
    routee is running, and the counter does not wrap during the run, message j goes to
    σ[(next + j) mod n]: cyclic, nothing dropped.  (What the guards exclude is exactly C21_refuted.) -/
theorem rr_fixed_order (σ : List Nat) (r : Router) (k : Nat) (hne : σ ≠ [])
    (hall : ∀ e ∈ r.members, e.2 = true) (hrun : ∀ id ∈ σ, r.running id = true)
    (hnowrap : r.next + k < 2 ^ 32) :
    rrRun r (List.replicate k σ)
      = (List.range k).map (fun j => Outcome.delivered (σ.getD ((r.next + j) % σ.length) 0)) := by
  induction k generalizing r with
  | zero => rfl
  | succ k ih =>
    have hf : r.members.filter (·.2) = r.members := List.filter_eq_self.mpr (fun e he => hall e he)
    have hr : ({ r with members := r.members.filter (·.2) } : Router) = r := by rw [hf]
    have e₁ : σ.isEmpty = false := by cases σ <;> simp_all
    have hlen : 0 < σ.length := List.length_pos_iff.mpr hne
    have hn : (r.next + 1) % 2 ^ 32 = r.next + 1 := Nat.mod_eq_of_lt (by omega)
    have hlt : r.next % σ.length < σ.length := Nat.mod_lt _ hlen
    have hstep : rrRoute r σ = (.delivered (σ.getD (r.next % σ.length) 0), { r with next := r.next + 1 }) := by
      simp only [rrRoute, available, hr, e₁, hn, rrIndex_succ]
      have hnn : ¬ (((r.next % σ.length : Nat) : Int) < 0) := by omega
      simp only [Bool.false_eq_true, if_false, hnn, Int.toNat_natCast]
      rw [List.getElem?_eq_getElem hlt]
      simp only [tellTo, hrun _ (List.getElem_mem hlt), if_true, List.getD_eq_getElem?_getD,
        List.getElem?_eq_getElem hlt, Option.getD_some]
    have ih' := ih { r with next := r.next + 1 } hall hrun (by simp only; omega)
    simp only [List.replicate_succ, rrRun, hstep, ih', List.range_succ_eq_map, List.map_cons, List.map_map]
    congr 1
    · apply List.map_congr_left
      intro j _
      simp only [Function.comp, Nat.succ_eq_add_one]
      congr 3
      omega

/-! ### the full statement -/

/-- a well-formed router state: at least one routee, distinct routees, all running -/
def Healthy (r : Router) : Prop := r.members ≠ [] ∧ r.ids.Nodup ∧ (∀ e ∈ r.members, e.2 = true) ∧ r.next < 2 ^ 32

/-- the receivers follow one fixed cyclic order σ of the routees, none lost -/
def CyclicIn (σ : List Nat) (outs : List Outcome) : Prop :=
  ∃ off, ∀ j (hj : j < outs.length), outs[j] = .delivered (σ.getD ((off + j) % σ.length) 0)

def C21_full : Prop :=
  -- round-robin: for every healthy router (any counter value, so any number of earlier messages)
  -- and every sequence of map iteration orders, the outcomes are cyclic in one fixed order
  (∀ (r : Router) (orders : List (List Nat)), Healthy r → (∀ o ∈ orders, o.Perm r.ids) →
      ∃ σ, σ.Perm r.ids ∧ CyclicIn σ (rrRun r orders))
  -- fan-out: every running routee exactly once
  ∧ (∀ (r : Router) (order : List Nat) (id : Nat), order.Perm r.ids → r.ids.Nodup → id ∈ r.ids →
      r.running id = true → (fanoutRoute r order).1.count (.delivered id) = 1)
  -- consistent hash: equal keys, same routee, while nothing changes
  ∧ (∀ (r : Router) (ring : Ring) (o₁ o₂ : List Nat) (h rnd₁ rnd₂ id : Nat), o₁ ≠ [] → o₂ ≠ [] →
      (∀ e ∈ r.members, e.2 = true) → ring.lookup h = some id → r.running id = true →
      (chRoute r ring o₁ (some h) rnd₁).1 = .delivered id ∧ (chRoute r ring o₂ (some h) rnd₂).1 = .delivered id)
  -- consistent hash: removing a routee only moves its keys (distinct vnode hashes)
  ∧ (∀ (V : List VNode) (r h m m' : Nat), (V.map (·.1)).Nodup → (Ring.set V).lookup h = some m →
      (Ring.set (V.filter (fun v => v.2 != r))).lookup h = some m' → m ≠ m' → m = r)

/-- witness (a): two routees, the map yields [0,1] for the first message and [1,0] for the second:
    both messages go to routee 0 -/
def witnessOrder : Router × List (List Nat) := (⟨[(0, true), (1, true)], 0⟩, [[0, 1], [1, 0]])

/-- witness (b): even with a fixed order, counter at 2^32-1: the next message panics and is lost -/
def witnessWrap : Router × List (List Nat) := (⟨[(0, true), (1, true)], 4294967295⟩, [[0, 1]])

theorem witnessOrder_run : rrRun witnessOrder.1 witnessOrder.2 = [.delivered 0, .delivered 0] := by decide
theorem witnessWrap_run : rrRun witnessWrap.1 witnessWrap.2 = [.panic] := by decide

theorem C21_refuted : ¬ C21_full := by
  intro h
  obtain ⟨σ, _, off, hc⟩ := h.1 witnessWrap.1 witnessWrap.2
    ⟨by decide, by decide, by decide, by decide⟩ (by decide)
  have := hc 0 (by rw [witnessWrap_run]; decide)
  simp only [witnessWrap_run] at this
  cases this

/-- the same refutation through the other defect (kept as a separate obligation) -/
theorem C21_refuted_order :
    ¬ ∃ σ, σ.Perm witnessOrder.1.ids ∧ CyclicIn σ (rrRun witnessOrder.1 witnessOrder.2) := by
  rintro ⟨σ, hp, off, hc⟩
  have h0 := hc 0 (by rw [witnessOrder_run]; decide)
  have h1 := hc 1 (by rw [witnessOrder_run]; decide)
  simp only [witnessOrder_run, List.getElem_cons_zero, List.getElem_cons_succ, Outcome.delivered.injEq] at h0 h1
  have hl : σ.length = 2 := hp.length_eq
  have hnd : σ.Nodup := hp.nodup_iff.mpr (by decide)
  match σ, hl with
  | [a, b], _ =>
    simp only [List.length_cons, List.length_nil] at h0 h1
    have hab : a ≠ b := by
      intro e; subst e; simp at hnd
    rcases Nat.mod_two_eq_zero_or_one off with e | e
    · have e1 : (off + 1) % 2 = 1 := by omega
      simp [e, e1] at h0 h1
      exact hab (h0.symm.trans h1)
    · have e1 : (off + 1) % 2 = 0 := by omega
      simp [e, e1] at h0 h1
      exact hab (h1.symm.trans h0)

/-- everything that is true: the round-robin law under its guards, the other three clauses in full -/
theorem C21_partial :
    (∀ (σ : List Nat) (r : Router) (k : Nat), σ ≠ [] → (∀ e ∈ r.members, e.2 = true) →
      (∀ id ∈ σ, r.running id = true) → r.next + k < 2 ^ 32 →
      rrRun r (List.replicate k σ)
        = (List.range k).map (fun j => Outcome.delivered (σ.getD ((r.next + j) % σ.length) 0)))
    ∧ (∀ (r : Router) (order : List Nat) (id : Nat), order.Perm r.ids → r.ids.Nodup → id ∈ r.ids →
        r.running id = true → (fanoutRoute r order).1.count (.delivered id) = 1)
    ∧ (∀ (r : Router) (ring : Ring) (o₁ o₂ : List Nat) (h rnd₁ rnd₂ id : Nat), o₁ ≠ [] → o₂ ≠ [] →
        (∀ e ∈ r.members, e.2 = true) → ring.lookup h = some id → r.running id = true →
        (chRoute r ring o₁ (some h) rnd₁).1 = .delivered id ∧ (chRoute r ring o₂ (some h) rnd₂).1 = .delivered id)
    ∧ (∀ (V : List VNode) (r h m m' : Nat), (V.map (·.1)).Nodup → (Ring.set V).lookup h = some m →
        (Ring.set (V.filter (fun v => v.2 != r))).lookup h = some m' → m ≠ m' → m = r) :=
  ⟨fun σ r k a b c d => rr_fixed_order σ r k a b c d,
   fun r order id a b c d => fanout_exactly_once r order a b id c d,
   fun r ring o₁ o₂ h rnd₁ rnd₂ id a b c d e =>
     ⟨(ch_stable r ring o₁ o₂ h rnd₁ rnd₂ id a b c d e).1, (ch_stable r ring o₁ o₂ h rnd₁ rnd₂ id a b c d e).2.1⟩,
   fun V r h m m' a b c d => ring_minimal_disruption V a r h m m' b c d⟩

/-! ### non-vacuity -/
def exV : List VNode := [(10, 0), (50, 1), (90, 2), (30, 1), (70, 0)]
example : (exV.map (·.1)).Nodup := by decide
example : (Ring.set exV).lookup 40 = some 1 := by decide          -- successor 50
example : (Ring.set exV).lookup 95 = some 0 := by decide          -- wrap to 10
example : (Ring.set (exV.filter (fun v => v.2 != 1))).lookup 40 = some 0 := by decide   -- moved: was owned by 1
example : (Ring.set (exV.filter (fun v => v.2 != 1))).lookup 80 = some 2 := by decide   -- not moved
example : rrRun ⟨[(0, true), (1, true), (2, true)], 7⟩ (List.replicate 4 [2, 0, 1])
    = [.delivered 0, .delivered 1, .delivered 2, .delivered 0] := by decide
example : Healthy witnessWrap.1 := ⟨by decide, by decide, by decide, by decide⟩
example : (fanoutRoute ⟨[(0, true), (1, false), (2, true)], 0⟩ [2, 1, 0]).1
    = [.delivered 2, .deadRoutee 1, .delivered 0] := by decide

end GoaktVerif.C21

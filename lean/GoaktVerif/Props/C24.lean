/-
C24 — Connection compression is transparent.   (weakly applicable: claimed at level "other")

"For every compression setting (none, gzip, zstd, brotli) and every sequence of writes, the bytes read on the
 other side of a compressed connection equal the bytes written, in order, across arbitrary write sizes and
 flush points."

What is proved: the WRAPPER (Write = codec write + Flush, pooled objects reset by Wrap, reads in arbitrary
chunk sizes interleaved arbitrarily with the writes) is transparent for EVERY streaming codec that satisfies
`StreamLaw` (decoding the concatenation of the flushed blocks yields the concatenation of the writes) and
`ResetLaw` (Reset brings a pooled object back to its initial state).  The laws are hypotheses; they hold for
the identity codec and for a buffering block codec (examples below), and `noflush_starves` shows the wrapper's
Flush is what makes the second one work.  That gzip / zstd / brotli satisfy the laws is NOT proved: it is
sampled by the differential on the real wrappers.
-/
import GoaktVerif.Model.C24
import GoaktVerif.Spec.C24

namespace GoaktVerif.C24
open GoaktVerif.Model.C24 GoaktVerif.Spec.C24

/-- the assumed codec law: whatever the segmentation of the writes, a fresh decoder fed the flushed blocks of the
    first k writes yields exactly the concatenation of those writes -/
def StreamLaw (c : Codec) : Prop := ∀ ws : List Bytes, c.decode (wireOf c c.init ws) = ws.flatten

/-- `Reset` on a pooled object forgets the previous connection -/
def ResetLaw (c : Codec) : Prop := ∀ s : c.St, c.reset s = c.init

theorem stateAfter_append (c : Codec) (s : c.St) (ws : List Bytes) (p : Bytes) :
    stateAfter c s (ws ++ [p]) = (connWrite c (stateAfter c s ws) p).1 := by
  induction ws generalizing s with
  | nil => rfl
  | cons w ws ih => simp [stateAfter, ih]

theorem wireOf_append (c : Codec) (s : c.St) (ws : List Bytes) (p : Bytes) :
    wireOf c s (ws ++ [p]) = wireOf c s ws ++ (connWrite c (stateAfter c s ws) p).2 := by
  induction ws generalizing s with
  | nil => simp [wireOf, stateAfter]
  | cons w ws ih => simp [wireOf, stateAfter, ih, List.append_assoc]

/-- the invariant of a wrapped connection -/
structure Inv (c : Codec) (k : Pipe c) : Prop where
  enc : k.enc = stateAfter c c.init k.writes
  wire : k.wire = wireOf c c.init k.writes
  pre : k.got ++ k.writes.flatten.drop k.taken = k.writes.flatten
  taken : k.taken = k.got.length

theorem inv_wrap (c : Codec) (hr : ResetLaw c) (pooled : c.St) : Inv c (wrap c pooled) :=
  ⟨by simp [wrap, hr pooled, stateAfter], by simp [wrap, wireOf], by simp [wrap], by simp [wrap]⟩

theorem drop_length_take (n : Nat) (t : Bytes) : t.drop (t.take n).length = t.drop n := by
  rw [List.length_take]
  by_cases h : n ≤ t.length
  · rw [Nat.min_eq_left h]
  · have h' : t.length ≤ n := by omega
    rw [Nat.min_eq_right h', List.drop_eq_nil_of_le (Nat.le_refl _), List.drop_eq_nil_of_le h']

theorem inv_step (c : Codec) (hl : StreamLaw c) (k : Pipe c) (op : Op) (hi : Inv c k) : Inv c (step c k op) := by
  obtain ⟨he, hw, hp, ht⟩ := hi
  have hle : k.taken ≤ k.writes.flatten.length := by
    have := congrArg List.length hp
    rw [List.length_append, List.length_drop] at this
    omega
  cases op with
  | write p =>
    refine ⟨?_, ?_, ?_, ht⟩
    · simp only [step, stateAfter_append, he]
    · simp only [step, wireOf_append, hw, he]
    · simp only [step, List.flatten_append, List.flatten_cons, List.flatten_nil, List.append_nil]
      rw [List.drop_append_of_le_length hle, ← List.append_assoc, hp]
  | read n =>
    have hdec : c.decode k.wire = k.writes.flatten := by rw [hw]; exact hl k.writes
    refine ⟨he, hw, ?_, ?_⟩
    · simp only [step, hdec]
      rw [← List.drop_drop, drop_length_take, List.append_assoc, List.take_append_drop, hp]
    · simp [step, ht]

theorem inv_run (c : Codec) (hl : StreamLaw c) (ops : List Op) (k : Pipe c) (hi : Inv c k) : Inv c (run c k ops) := by
  induction ops generalizing k with
  | nil => exact hi
  | cons op ops ih => exact ih (step c k op) (inv_step c hl k op hi)

/-- THE THEOREM (conditional on the codec laws).  On a connection wrapped from pooled objects with ANY history,
    after ANY schedule of writes (any sizes; each one flushed by the wrapper) and reads (any buffer sizes, at any
    points between the writes):
    (1) the bytes received so far are exactly the first bytes written, in order — never anything else;
    (2) one more read with a large enough buffer returns all the rest: bytes read = bytes written. -/
theorem C24_transparent (c : Codec) (hl : StreamLaw c) (hr : ResetLaw c) (pooled : c.St) (ops : List Op) :
    let k := run c (wrap c pooled) ops
    k.got = k.writes.flatten.take k.got.length
    ∧ ∀ n, k.writes.flatten.length - k.got.length ≤ n → (step c k (.read n)).got = k.writes.flatten := by
  have hi := inv_run c hl ops (wrap c pooled) (inv_wrap c hr pooled)
  obtain ⟨_, hw, hp, ht⟩ := hi
  constructor
  · have h := hp
    rw [ht] at h
    have : (run c (wrap c pooled) ops).writes.flatten.take (run c (wrap c pooled) ops).got.length
        = (run c (wrap c pooled) ops).got := by
      conv => lhs; rw [← h]
      simp
    exact this.symm
  · intro n hn
    have hdec : c.decode (run c (wrap c pooled) ops).wire = (run c (wrap c pooled) ops).writes.flatten := by
      rw [hw]; exact hl _
    simp only [step, hdec]
    have hfull : ((run c (wrap c pooled) ops).writes.flatten.drop (run c (wrap c pooled) ops).taken).take n
        = (run c (wrap c pooled) ops).writes.flatten.drop (run c (wrap c pooled) ops).taken := by
      apply List.take_of_length_le
      rw [List.length_drop, ht]
      exact hn
    rw [hfull, hp]

/-! ### instances of the laws -/

theorem wireOf_id (ws : List Bytes) : wireOf idCodec () ws = ws.flatten := by
  induction ws with
  | nil => rfl
  | cons w ws ih => simp [wireOf, connWrite, idCodec] at ih ⊢; exact ih

/-- the identity codec ("no compression") satisfies both laws -/
theorem idCodec_laws : StreamLaw idCodec ∧ ResetLaw idCodec :=
  ⟨fun ws => by
    show id (wireOf idCodec () ws) = ws.flatten
    rw [wireOf_id]; rfl, fun _ => rfl⟩

example : (step idCodec (run idCodec (wrap idCodec ()) [.write [1, 2, 3], .read 2, .write [4], .read 1]) (.read 9)).got
    = [1, 2, 3, 4] := by decide

def blocks (ws : List Bytes) : Bytes := (ws.map fun p => p.length :: p).flatten

theorem wireOf_block (ws : List Bytes) : wireOf blockCodec [] ws = blocks ws := by
  induction ws with
  | nil => rfl
  | cons w ws ih =>
    have h1 : (connWrite blockCodec [] w).1 = [] := rfl
    have h2 : (connWrite blockCodec [] w).2 = w.length :: w := by simp [connWrite, blockCodec]
    simp only [wireOf, h1, h2, blocks, List.map_cons, List.flatten_cons] at ih ⊢
    rw [ih]

theorem decodeBlocks_blocks (ws : List Bytes) (f : Nat) (hf : ws.length < f) : decodeBlocksF f (blocks ws) = ws.flatten := by
  induction ws generalizing f with
  | nil => cases f <;> simp [blocks, decodeBlocksF]
  | cons w ws ih =>
    cases f with
    | zero => simp at hf
    | succ f =>
      have hb : blocks (w :: ws) = w.length :: (w ++ blocks ws) := by simp [blocks]
      rw [hb, decodeBlocksF]
      have hle : w.length ≤ (w ++ blocks ws).length := by simp
      simp only [hle, if_true, List.take_left', List.drop_left', List.flatten_cons]
      rw [ih f (by simp at hf; omega)]

theorem blocks_length (ws : List Bytes) : ws.length ≤ (blocks ws).length := by
  induction ws with
  | nil => simp [blocks]
  | cons w ws ih => simp [blocks] at ih ⊢; omega

/-- a codec that buffers in Write and only emits on Flush satisfies both laws too -/
theorem blockCodec_laws : StreamLaw blockCodec ∧ ResetLaw blockCodec := by
  refine ⟨fun ws => ?_, fun _ => rfl⟩
  show decodeBlocksF ((wireOf blockCodec [] ws).length + 1) (wireOf blockCodec [] ws) = ws.flatten
  rw [wireOf_block]
  exact decodeBlocks_blocks ws _ (by have := blocks_length ws; omega)

/-- … and for that codec the wrapper's Flush is essential: without it nothing ever reaches the raw connection -/
def wireNoFlush (c : Codec) : c.St → List Bytes → Bytes
  | _, [] => []
  | s, p :: ps => (connWriteNoFlush c s p).2 ++ wireNoFlush c (connWriteNoFlush c s p).1 ps

theorem noflush_starves (ws : List Bytes) (s : Bytes) : wireNoFlush blockCodec s ws = [] := by
  induction ws generalizing s with
  | nil => rfl
  | cons w ws ih => simp [wireNoFlush, connWriteNoFlush, blockCodec] at ih ⊢; exact ih _

end GoaktVerif.C24

import GoaktVerif.Model.C20.Queue
import GoaktVerif.Model.C20.Stream
import GoaktVerif.Spec.C20
import GoaktVerif.Lemmas.C20Stream
import GoaktVerif.Lemmas.C20QueueFinal
import GoaktVerif.Lemmas.C20Agree

/-
C20 — "Every event published on a topic is delivered exactly once to each subscriber that was subscribed and
active when it was published, in publish order for events from one publisher, and never to a subscriber that
had unsubscribed or been removed. Concurrent publishing and consumption never lose events."

Two layers:

* the subscriber's message queue (`internal/queue/queue.go`, model `Model.C20.Queue`, small-step, one
  transition per atomic operation, any number of threads, any schedule).  `Mode.fresh` is the code as it is
  since fix c76ec1e (nodes are never recycled); `Mode.pooled` is the code before it (kept for the refutation);
* the stream bookkeeping (`eventstream/eventstream.go`, model `Model.C20.Stream`, sequential).
-/
namespace GoaktVerif.C20
open GoaktVerif.Model.C20 GoaktVerif.Spec.C20
open GoaktVerif.Model.C20.Queue (Mode Op Cfg runP init allDone seqDrain)

/-- The queue refines a FIFO: under every schedule, with any number of enqueuers and dequeuers (and every
resolution of the pool's choices), the log of linearization events — one per operation, emitted by a step of the
operation itself — is a FIFO history, and the values sequential `Dequeue`s would return from the configuration
reached are exactly the content of the abstract FIFO (nothing lost, nothing duplicated, in order). -/
def QueueRefinesFifo (mode : Mode) : Prop :=
  ∀ (progs : List (List Op)) (s : List (Nat × Option Nat)),
    ∃ q, replay ((runP (init mode progs) s).lin.reverse.map (·.2)) [] = some q ∧
      (seqDrain (q.length + 1) (runP (init mode progs) s)).1 = q

/-- The stream delivers, for every operation sequence, to every `Iterator()` call exactly the messages
published since the previous call while the subscriber was subscribed to the topic and active — in publish
order, once, and nothing after unsubscribe / remove / shutdown / close. -/
def StreamDelivers : Prop :=
  ∀ ops : List Stream.Op, itOutputs ops (Stream.run Stream.init ops) = specRun [] ops

/-- the full property, for the code as it is -/
def C20_full : Prop := QueueRefinesFifo .fresh ∧ StreamDelivers

theorem C20_stream_holds : StreamDelivers := fun ops => stream_refines ops _ _ rel_init

/-- all schedules, any number of threads, any programs: inductive invariant `Inv` (Lemmas/C20QueueInv.lean),
preserved by every step (`inv_step`), read out by `inv_observable` -/
theorem C20_queue_holds : QueueRefinesFifo .fresh :=
  fun progs s => inv_observable (inv_runP s _ (inv_init progs))

theorem C20_holds : C20_full := ⟨C20_queue_holds, C20_stream_holds⟩

/-- In particular nothing is lost, duplicated or reordered: at every reachable configuration the values
enqueued so far (in linearization order) are the values dequeued so far followed by what sequential `Dequeue`s
would still return. -/
theorem C20_conservation (progs : List (List Op)) (s : List (Nat × Option Nat)) :
    ∃ q, (seqDrain (q.length + 1) (runP (init .fresh progs) s)).1 = q ∧
      enqVals ((runP (init .fresh progs) s).lin.reverse.map (·.2)) =
        deqVals ((runP (init .fresh progs) s).lin.reverse.map (·.2)) ++ q := by
  obtain ⟨q, h1, h2⟩ := C20_queue_holds progs s
  exact ⟨q, h2, by simpa using replay_conservation _ [] q h1⟩

/-- The log is faithful to what the operations return (both modes, every schedule): the events thread `tid` has
in the log (latest first) are exactly the events implied by the results of its completed operations
(`opEvs`: `Enqueue(v)`/delivered `signal(v)` ↦ enq v, `Dequeue` returning r ↦ deq r, an `Iterator` returning l ↦ one deq
per element, plus the final nil it saw if it stopped early), preceded by those of its operation in progress. -/
theorem C20_log_agrees (mode : Mode) (progs : List (List Op)) (s : List (Nat × Option Nat)) (tid : Nat) (t : Queue.Thread)
    (ht : (runP (init mode progs) s).threads[tid]? = some t) :
    evsOf tid (runP (init mode progs) s).lin = pendEvs t ++ t.hist.flatMap opEvs :=
  (agree_runP s _ (agree_init mode progs)).evs tid t ht

/-- non-vacuity: a run in which both layers of the invariant are exercised (two publishers, one drainer) -/
example : (runP (init .fresh [[.sig 1], [.sig 2], [.iter]])
    ([0, 0, 1, 1, 1, 1, 1, 1, 2, 2, 2, 2, 0, 2, 0, 0, 0, 0, 0, 0].map (·, none))).lin.reverse.map (·.2) =
    [.enq 2, .deq (some 2), .enq 1] := by decide

/-! ### the queue as it was before fix c76ec1e (nodes recycled through `sync.Pool`) does not refine a FIFO -/

/-- two publishers, one drainer (subscriber API only): `signal(1) ∥ signal(2) ∥ Iterator()` -/
def witnessProgs : List (List Op) := [[.sig 1], [.sig 2], [.iter]]

/-- publisher 0 reads `tail` (the sentinel) and stops; publisher 1 publishes completely; the drainer dequeues
event 2, which recycles the sentinel (`next := nil`); publisher 0 then reads `sentinel.next = nil` and links
event 1 onto the dead node.  All three calls return normally. -/
def witnessSched : List (Nat × Option Nat) :=
  [0, 0, 1, 1, 1, 1, 1, 1, 2, 2, 2, 2, 0, 2, 0, 0, 0].map (·, none)

theorem C20_pooled_refuted : ¬ QueueRefinesFifo .pooled := by
  intro h
  obtain ⟨q, h1, h2⟩ := h witnessProgs witnessSched
  have e1 : replay ((runP (init .pooled witnessProgs) witnessSched).lin.reverse.map (·.2)) [] = some [1] := by decide
  have e3 : (seqDrain 2 (runP (init .pooled witnessProgs) witnessSched)).1 = [] := by decide
  rw [e1] at h1
  cases h1
  have h3 : (seqDrain 2 (runP (init .pooled witnessProgs) witnessSched)).1 = [1] := h2
  rw [e3] at h3
  cases h3

/-- what that witness looks like from outside: every call returned, `signal(1)` returned normally, the drainer
received only event 2, the queue is empty, and `Length()` says 1 forever -/
theorem C20_pooled_witness_outcome :
    let c := runP (init .pooled witnessProgs) witnessSched
    allDone c = true ∧
    c.threads.map (·.hist) = [[(.sig 1, .ok)], [(.sig 2, .ok)], [(.iter, .items [2] false)]] ∧
    (seqDrain 5 c).1 = [] ∧ c.len = 1 := by decide

end GoaktVerif.C20

/-
C27 — Remote tells keep order and are never silently dropped.

"Messages sent by one goroutine to one remote actor with RemoteTell are delivered to that actor in
 send order, each at most once. A message whose send was accepted is either delivered or, when its
 batch fails or the client closes, published to the sender's dead letters; none is dropped
 silently."   (quantifier: all interleavings of concurrent callers with the per-destination
 coalescer, transport failures at any batch, and client close with messages pending)

Model: Model/C27.lean — small-step interleaving semantics of coalescer.submit / run / close and of
the failure fan-out (enqueueCoalescedFailure / drainCoalescedFailures).  A schedule is an arbitrary
`List Act` (any number of submitting threads, any interleaving, any transport outcome per flush, any
resolution of Go's random select, close and system shutdown at any point).  Every theorem below
quantifies over ALL schedules of ANY length; they are proved with inductive invariants
(Lemmas/C27.lean), not by enumeration.

Reading of the property on the model:
 * "delivered in send order, each at most once": the remote node handles the batches of one
   connection-serialised writer one after the other and the messages of a batch in slice order
   (remoteTellHandler's `for` loop), so the delivery order is the concatenation of the flushed
   batches. `C27_order`.
 * "accepted ⇒ delivered or dead-lettered": in a quiescent state (nothing left to run) every
   message whose `submit` returned nil is in a successfully flushed batch or was dead-lettered by
   the fan-out. `C27_full` — proved (`C27_holds`) since fixes 305110c (close drains every batch), f8d2f6b
   (failed batch dead-lettered inline when the fan-out cannot take it) and 7baca6b (writer waits for submits in
   progress before its final drain); the three former findings are regression theorems below.
-/
import GoaktVerif.Gen.C27
import GoaktVerif.Model.C27
import GoaktVerif.Spec.C27
import GoaktVerif.Lemmas.C27

namespace GoaktVerif.C27
open GoaktVerif.Model.C27 GoaktVerif.Spec.C27

/-- the state after running schedule `acts` from the initial state -/
def final (c : Cfg) (acts : List Act) : St := run c St.init acts

/-! ### order, at most once -/

/-- GLOBAL FIFO: what has reached the transport is, at every moment and under every schedule, a
    prefix of the acceptance log: nothing is reordered, duplicated, invented or skipped by the
    writer; the rest of the log is exactly the writer's batch followed by the channel buffer. -/
theorem C27_fifo (c : Cfg) (acts : List Act) :
    let s := final c acts
    s.flushedFlat ++ s.batch ++ s.chan = s.log ∧ s.flushedFlat <+: s.log := by
  have h : Fifo (final c acts) := fifo_run c acts fifo_init
  refine ⟨h, ?_⟩
  unfold Fifo at h
  rw [← h, List.append_assoc]
  exact List.prefix_append _ _

/-- PER-THREAD ORDER: for every thread `t`, under every schedule, the messages of `t` that reached
    the transport (concatenated flushed batches) are a prefix of the messages of `t` that were
    accepted, and those are a subsequence of what `t` sent, in the order `t` sent it.  `Sublist`
    uses every sent occurrence at most once: this is "in send order, each at most once". -/
def C27_order_stmt : Prop :=
  ∀ (c : Cfg) (acts : List Act) (t : Nat),
    let s := final c acts
    (ofT t s.flushedFlat) <+: (ofT t s.log) ∧ List.Sublist (ofT t s.log) (ofT t s.begun)

theorem C27_order : C27_order_stmt := by
  intro c acts t
  refine ⟨?_, ?_⟩
  · exact List.IsPrefix.filter _ (C27_fifo c acts).2
  · have h := threadOrder_run c acts threadOrder_init t
    exact List.Sublist.trans (List.sublist_append_left _ _) h

/-- the same, through the decidable oracle the judge evaluates on the implementation's history -/
theorem C27_order_oracle (c : Cfg) (acts : List Act) :
    orderOK (final c acts).begun (final c acts).flushedFlat = true := by
  simp only [orderOK, List.all_eq_true, List.isSublist_iff_sublist]
  intro t _
  obtain ⟨h1, h2⟩ := C27_order c acts t
  exact List.Sublist.trans h1.sublist h2

/-- nothing reaches the transport unless its `submit` returned nil -/
theorem C27_no_phantom (c : Cfg) (acts : List Act) (m : Msg) (h : m ∈ (final c acts).flushedFlat) :
    m ∈ (final c acts).log :=
  (C27_fifo c acts).2.subset h

/-! ### accounting -/

/-- WHERE EVERY ACCEPTED MESSAGE IS, in any quiescent state of any schedule: delivered,
    dead-lettered, or at one of the three silent-loss sites of the current code —
    (a) still in the channel buffer although the writer goroutine has exited,
    (b) dropped by `enqueueCoalescedFailure` (queue full or system shutting down),
    (c) failed with no error handler configured. -/
theorem C27_loss_sites (c : Cfg) (acts : List Act) (hq : (final c acts).quiescent = true) :
    let s := final c acts
    ∀ m ∈ s.log, m ∈ s.delivered ∨ m ∈ s.dead ∨
      (m ∈ s.chan ∧ s.wpc = .exited) ∨ m ∈ s.dropped.flatten ∨ m ∈ s.unhandled.flatten := by
  intro s m hm
  have hf : Fifo s := fifo_run c acts fifo_init
  have ha : FlushedAcc s := flushedAcc_run c acts flushedAcc_init
  simp only [St.quiescent, Bool.and_eq_true, Bool.or_eq_true, List.isEmpty_iff, beq_iff_eq] at hq
  obtain ⟨⟨⟨_, hb⟩, hfq⟩, hw⟩ := hq
  unfold Fifo at hf
  rw [← hf, hb, List.append_nil, List.mem_append] at hm
  rcases hm with hm | hm
  · rcases ha m hm with h | h | h | h | h
    · exact Or.inl h
    · exact Or.inr (Or.inl h)
    · rw [hfq] at h; simp at h
    · exact Or.inr (Or.inr (Or.inr (Or.inl h)))
    · exact Or.inr (Or.inr (Or.inr (Or.inr h)))
  · rcases hw with ⟨_, hc⟩ | hw
    · rw [hc] at hm; simp at hm
    · exact Or.inr (Or.inr (Or.inl ⟨hm, hw⟩))

/-- THE FULL PROPERTY (accounting clause), for the configuration the actor system uses (an error
    handler is wired): in every quiescent state of every schedule — including schedules with
    transport failures at any batch and `close` at any moment — every accepted message was
    delivered or dead-lettered. -/
def C27_full : Prop :=
  C27_order_stmt ∧
  ∀ (c : Cfg) (acts : List Act), c.hasHandler = true → 0 < c.maxBatch → 0 < c.fqCap →
    (final c acts).quiescent = true →
    accounted (final c acts).log (final c acts).delivered (final c acts).dead = true

/-- Regression (fixed C27-F1, fix 305110c): maxBatch = 1; thread 0 gets two messages accepted while
    the writer has not run yet; `close`; the writer's select picks `done`, drains and flushes ONE
    message, and — since the fix — goes round again until the channel is empty.  Before the fix the
    goroutine returned after the first batch and message (0,1) stayed in the channel for ever. -/
def witnessClose : List Act :=
  [.begin (0, 0), .sub 0 0, .sub 0 0, .begin (0, 1), .sub 0 0, .sub 0 0,
   .close, .wstep 0 true, .wstep 0 true, .wstep 0 true, .wstep 0 true,
   .wstep 0 true, .wstep 0 true, .wstep 0 true, .wstep 0 true, .wstep 0 true, .wstep 0 true, .wstep 0 true]

def cfg1 : Cfg := { maxBatch := 1, hasHandler := true, fqCap := 256 }

theorem witnessClose_facts :
    (final cfg1 witnessClose).quiescent = true ∧
    (final cfg1 witnessClose).results = [((0, 0), .ok), ((0, 1), .ok)] ∧
    (final cfg1 witnessClose).delivered = [(0, 0), (0, 1)] ∧
    (final cfg1 witnessClose).chan = [] ∧ (final cfg1 witnessClose).wpc = .exited := by decide

/-- Regression (fixed C27-F3, submit racing close): the sender passes the `done` pre-check, then `close`
    runs; the writer observes `done` but waits at the barrier (`c.inflight.Lock()`) until the sender's
    call has finished; the sender's try-send succeeds and the final drain delivers the message.  Before
    the fix the writer exited on the empty channel first and the message stayed there for ever. -/
def witnessRace : List Act :=
  [.begin (0, 0), .sub 0 0, .close, .wstep 0 true, .wstep 0 true, .wstep 0 true, .sub 0 0,
   .wstep 0 true, .wstep 0 true, .wstep 0 true, .wstep 0 true, .wstep 0 true, .wstep 0 true]

theorem witnessRace_facts :
    (final cfg1 witnessRace).quiescent = true ∧ (final cfg1 witnessRace).results = [((0, 0), .ok)] ∧
    (final cfg1 witnessRace).delivered = [(0, 0)] ∧ (final cfg1 witnessRace).chan = [] ∧
    accounted (final cfg1 witnessRace).log (final cfg1 witnessRace).delivered (final cfg1 witnessRace).dead = true := by
  decide

/-- Regression (fixed C27-F2, queue size 1 for brevity): two single-message batches fail while the drain
    goroutine has not run; the second hand-off finds the queue full and is dead-lettered inline. -/
def witnessFqFull : List Act :=
  [.begin (0, 0), .sub 0 0, .sub 0 0, .wstep 0 true, .wstep 0 true, .wstep 0 false,
   .begin (0, 1), .sub 0 0, .sub 0 0, .wstep 0 true, .wstep 0 true, .wstep 0 false,
   .fdrain]

theorem witnessFqFull_facts :
    let s := final { maxBatch := 1, hasHandler := true, fqCap := 1 } witnessFqFull
    s.quiescent = true ∧ s.done = false ∧ s.dead = [(0, 1), (0, 0)] ∧ s.dropped = [] ∧
    accounted s.log s.delivered s.dead = true := by decide

/-- Regression (system shutdown): once `shuttingDown` is set a failed batch is dead-lettered inline -/
theorem witnessSysDown_facts :
    let s := final cfg1 [.begin (0, 0), .sub 0 0, .sub 0 0, .sysdown, .wstep 0 true, .wstep 0 true, .wstep 0 false]
    s.quiescent = true ∧ s.dropped = [] ∧ accounted s.log s.delivered s.dead = true := by decide

/-- the error handler never drops a hand-off any more -/
theorem C27_no_handler_drop (c : Cfg) (acts : List Act) : (final c acts).dropped = [] :=
  noDrop_run c acts rfl

/-- PARTIAL THEOREM: for every schedule WITHOUT `close` (`done` still false at the end) in which the
    handler never had to drop a hand-off (fan-out queue had slack and the system was not shutting
    down: `dropped = []`), with an error handler configured, every accepted message of every
    quiescent state was delivered or dead-lettered.
    Excluded by the guards: exactly the loss sites (a) and (b) of `C27_loss_sites`. -/
theorem C27_partial (c : Cfg) (acts : List Act) (hh : c.hasHandler = true)
    (hclose : (final c acts).done = false) (hslack : (final c acts).dropped = [])
    (hq : (final c acts).quiescent = true) :
    accounted (final c acts).log (final c acts).delivered (final c acts).dead = true := by
  have hl := C27_loss_sites c acts hq
  have hc : Closing (final c acts) := closing_run c acts closing_init
  have hu : NoUnhandled (final c acts) := noUnhandled_run c hh acts rfl
  simp only [accounted, List.all_eq_true, Bool.or_eq_true, List.contains_iff_mem]
  intro m hm
  rcases hl m hm with h | h | h | h | h
  · exact Or.inl h
  · exact Or.inr h
  · have := hc (by simp [h.2, isClosingPc]); rw [hclose] at this; cases this
  · rw [hslack] at h; simp at h
  · unfold NoUnhandled at hu; rw [hu] at h; simp at h

/-! ### what fixes 305110c + submit-close-barrier guarantee: close loses nothing -/

theorem run_append (c : Cfg) (s : St) (a b : List Act) : run c s (a ++ b) = run c (run c s a) b := by
  simp [run, List.foldl_append]

theorem done_step (c : Cfg) {s : St} (a : Act) (h : s.done = true) : (step c s a).done = true := by
  cases a with
  | begin m => simp only [step]; split <;> exact h
  | cancel t => exact h
  | sub t pick => simp only [step]; rw [(subStep_frame c s t pick).2.2.2.2.2.1]; exact h
  | close => rfl
  | wstep pick ok => simp only [step]; rw [(wStep_core c s pick ok).2.2.2]; exact h
  | fdrain => simp only [step, fdrainStep]; split <;> exact h
  | sysdown => exact h

/-- CLOSE IS COMPLETE, for EVERY schedule: whenever the writer goroutine has exited the channel is empty —
    every message whose submit returned nil has been flushed (delivered or handed to the error handler).
    The barrier closes the racing window of the former finding C27-F3. -/
theorem C27_close_complete (c : Cfg) (acts : List Act) (hmb : 0 < c.maxBatch) :
    (final c acts).wpc = .exited → (final c acts).chan = [] := by
  intro hw
  exact (barrier_run c hmb acts closing_init postBarrier_init exitClean_init).2.2 (Or.inl hw)

/-- SECOND PARTIAL THEOREM, now for every schedule (with or without close, any racing): with no handler
    drop, every accepted message of every quiescent state was delivered or dead-lettered. -/
theorem C27_partial_close (c : Cfg) (acts : List Act) (hh : c.hasHandler = true) (hmb : 0 < c.maxBatch)
    (hslack : (final c acts).dropped = []) (hq : (final c acts).quiescent = true) :
    accounted (final c acts).log (final c acts).delivered (final c acts).dead = true := by
  have hl := C27_loss_sites c acts hq
  have hu : NoUnhandled (final c acts) := noUnhandled_run c hh _ rfl
  have hcc := C27_close_complete c acts hmb
  simp only [accounted, List.all_eq_true, Bool.or_eq_true, List.contains_iff_mem]
  intro m hm
  rcases hl m hm with h | h | h | h | h
  · exact Or.inl h
  · exact Or.inr h
  · have := hcc h.2; rw [this] at h; simp at h
  · rw [hslack] at h; simp at h
  · unfold NoUnhandled at hu; rw [hu] at h; simp at h

/-- THE FULL PROPERTY HOLDS on the model of the current code. -/
theorem C27_holds : C27_full :=
  ⟨C27_order, fun c acts hh hmb _ hq => C27_partial_close c acts hh hmb (C27_no_handler_drop c acts) hq⟩

/-- the guards are met by the close-with-pending-messages run -/
example : (final cfg1 witnessClose).dropped = [] ∧ (final cfg1 witnessClose).quiescent = true := by decide

/-- the guards of `C27_partial` are satisfiable by a run with a failed batch, a blocked sender and
    batching: two threads, a failure, the fan-out drains — quiescent, not closed, nothing dropped -/
example :
    let s := final { maxBatch := 2, hasHandler := true, fqCap := 4 }
      [.begin (0, 0), .begin (1, 0), .sub 0 0, .sub 1 0, .sub 1 0, .sub 0 0,
       .wstep 0 true, .wstep 0 true, .wstep 0 true, .wstep 0 false, .fdrain,
       .begin (0, 1), .sub 0 0, .sub 0 0, .wstep 0 true, .wstep 0 true, .wstep 0 true]
    s.quiescent = true ∧ s.done = false ∧ s.dropped = [] ∧ s.dead = [(1, 0), (0, 0)] ∧
    s.delivered = [(0, 1)] ∧ s.log = [(1, 0), (0, 0), (0, 1)] := by decide

/-- the failure fan-out queue of the running system has at least one slot (regenerated from
    actor/remote_server.go on every run): with size 0 every failed batch would be dropped -/
theorem C27_fq_has_slack : 0 < Gen.C27.coalescedFailureQueueSize ∧ 0 < Gen.C27.remoteSendCoalescingMaxBatch := by
  decide

/-! ### one coalescer (one writer goroutine) per destination -/

/-- ONE WRITER PER DESTINATION: whatever the number of goroutines racing through `getCoalescer` for a
    destination and however their steps interleave, at most one coalescer is ever created and every
    call returns that one — so all senders feed the single channel / single writer that the theorems
    above are about.  (The second lookup under `coalescersMu` is what this rests on; the call order
    is re-extracted from client.go on every run, FACTS in tools/props/c27.py.) -/
theorem C27_single_coalescer (n : Nat) (acts : List GC.GAct) :
    (GC.grun true (GC.ginit n) acts).created ≤ 1 ∧
    ∀ th ∈ (GC.grun true (GC.ginit n) acts).threads, ∀ c, th.got = some c → c = 0 := by
  obtain ⟨h1, _, _, h4, _⟩ := GC.ginv_run acts (GC.ginit n) (GC.ginv_init n)
  exact ⟨h1, h4⟩

/-- non-vacuity: two first senders racing, both miss the fast path, both return coalescer 0 -/
example :
    let s := GC.grun true (GC.ginit 2) [.look 0, .look 1, .acquire 0, .cs, .cs, .cs, .acquire 1, .cs, .cs]
    s.created = 1 ∧ s.threads.map (·.got) = [some 0, some 0] ∧ s.threads.map (·.pc) = [.done, .done] := by decide

/-- TEST on the variant without the second lookup (seeded defect C27-m5): the same schedule creates
    two coalescers; thread 0 is left with the orphan. -/
example :
    let s := GC.grun false (GC.ginit 2) [.look 0, .look 1, .acquire 0, .cs, .cs, .acquire 1, .cs, .cs]
    s.created = 2 ∧ s.threads.map (·.got) = [some 0, some 1] ∧ s.map = some 1 := by decide

/-- the model's fan-out capacity is the source constant (regenerated on every run) -/
theorem C27_fq_cap_tie : Gen.C27.coalescedFailureQueueSize = (sysFanoutCap : Int) := by decide

end GoaktVerif.C27

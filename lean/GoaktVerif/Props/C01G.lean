/-
C01G / C02G — C01 and C02 for GRAINS.

C01: "For every local actor and grain, no two invocations of its message handler (Receive, the active
 behavior, or OnReceive) are in progress at the same time on different goroutines, and at most one
 dispatcher worker runs the actor's turn at any instant. This holds whatever the mailbox type, the
 number of concurrent senders, and interleaved restarts, reinstatements, passivation and reentrant
 requests."
C02: "Every message whose Tell/Ask to a local actor was accepted (no error returned) is handed to that
 actor's handler exactly once, provided the actor stays running until the message is dequeued; no
 message is processed twice. An actor with a pending message is always eventually scheduled, so its
 mailbox never stalls while a worker is free (no lost wake-up)."

Model: `Model/C01G.lean` — the grain turn loop (responses queue first, user mailbox skipped while
paused, hasPendingWork / finishOrReclaim, the grain mailbox with its `len` counter), senders of every
kind (TellGrain-style receive, async request / response envelopes, timer ticks, passivation pill) and
workers, any number of each, arbitrary programs.  Theorems quantify over EVERY schedule of every length.
Tie: the same model is replayed step by step against the real, instrumented grain code (engine E3,
tools/extra/c01g.py, run as an extra check of C01 and C02).
-/
import GoaktVerif.Lemmas.C01G

set_option linter.unusedSimpArgs false

namespace GoaktVerif.C01G
open GoaktVerif.Model.C01G GoaktVerif.Lemmas.C01G

def ind (p : Prop) [Decidable p] : Nat := if p then 1 else 0

/-- tokens: ready-queue entries plus threads that hold the scheduled token -/
def tokens (c : Cfg) : Nat := c.sh.rq + sumBy (fun t => tok t.pc) c.threads
/-- workers that own the turn -/
def owners (c : Cfg) : Nat := sumBy (fun t => own t.pc) c.threads
/-- handler invocations (OnReceive or a request continuation) in progress -/
def handlersRunning (c : Cfg) : Nat := sumBy inRecv c.threads

/-- The inductive invariant: exactly one token exists iff the state is Scheduled; exactly one worker
    owns the turn iff the state is Processing; never were two handlers in progress. -/
def Inv (c : Cfg) : Prop :=
  tokens c = ind (c.sh.sched = .scheduled) ∧ owners c = ind (c.sh.sched = .processing) ∧ c.sh.maxIn ≤ 1

/-- one step seen from the stepping thread: `R1`/`R2` are the token/owner sums of the OTHER threads -/
theorem exec_frame (s : Shared) (t : Thread) (others : Nat) (pc : PC) (R1 R2 : Nat)
    (hpc : t.pc = some pc)
    (h1 : s.rq + (R1 + tok t.pc) = ind (s.sched = .scheduled))
    (h2 : R2 + own t.pc = ind (s.sched = .processing))
    (h3 : s.maxIn ≤ 1) (ho : others ≤ R2) :
    (exec s t others pc).1.rq + (R1 + tok (exec s t others pc).2.pc) = ind ((exec s t others pc).1.sched = .scheduled)
    ∧ R2 + own (exec s t others pc).2.pc = ind ((exec s t others pc).1.sched = .processing)
    ∧ (exec s t others pc).1.maxIn ≤ 1 := by
  rw [hpc] at h1 h2
  have hd := dispatch_maxIn_le s t others
  cases pc
  case dq2 q b =>
    rcases exec_dq2 s t others q b with ⟨_, h⟩ | ⟨x, _, h⟩ <;> rw [h] <;> cases hs : s.sched <;>
      simp only [ind, c01g, popHead, hs, reduceCtorEq, if_true, if_false, ↓reduceIte] at h1 h2 ⊢ <;> omega
  case dq4 q b =>
    rcases exec_dq4 s t others q b with ⟨_, h⟩ | ⟨x, _, h⟩ <;> rw [h] <;> cases hs : s.sched <;>
      simp only [ind, c01g, popHead, hs, hpc, reduceCtorEq, if_true, if_false, ↓reduceIte] at h1 h2 ⊢ <;> omega
  all_goals
    cases hs : s.sched <;>
    simp only [exec, hs, c01g, reserve, link, addLen, popHead, absorb, enter, reduceCtorEq, if_true, if_false,
      ↓reduceIte] at h1 h2 ⊢ <;>
    (try split) <;>
    simp only [ind, c01g, hs, reduceCtorEq, if_true, if_false, ↓reduceIte, Nat.add_zero, Nat.zero_add] at * <;>
    (try (refine ⟨?_, ?_, ?_⟩ <;> (try split) <;> (try (rename_i b x; have := hd b x)) <;> omega))

theorem step_inv (c : Cfg) (tid : Nat) (h : Inv c) : Inv (step c tid).2 := by
  unfold step
  split
  · exact h
  · rename_i t ht
    split
    · exact h
    · rename_i pc hpc
      have hlt : tid < c.threads.length := (List.getElem?_eq_some_iff.mp ht).1
      have hget : c.threads[tid] = t := (List.getElem?_eq_some_iff.mp ht).2
      obtain ⟨h1, h2, h3⟩ := h
      unfold tokens at h1; unfold owners at h2
      rw [sumBy_eraseIdx _ _ tid hlt, hget] at h1 h2
      have hothers : sumBy inRecv c.threads - inRecv t = sumBy inRecv (c.threads.eraseIdx tid) := by
        rw [sumBy_eraseIdx inRecv _ tid hlt, hget]; omega
      have hle : sumBy inRecv (c.threads.eraseIdx tid) ≤ sumBy (fun t => own t.pc) (c.threads.eraseIdx tid) :=
        sumBy_le _ _ _ (fun t => by rw [inRecv_eq]; exact inRecvPc_le_own _)
      have := exec_frame c.sh t (sumBy inRecv c.threads - inRecv t) pc _ _ hpc h1 h2 h3 (by rw [hothers]; exact hle)
      obtain ⟨g1, g2, g3⟩ := this
      refine ⟨?_, ?_, g3⟩
      · simp only [tokens]; rw [sumBy_set _ _ _ _ hlt]; exact g1
      · simp only [owners]; rw [sumBy_set _ _ _ _ hlt]; exact g2

/-- run a schedule -/
def run (c : Cfg) : List Nat → Cfg
  | [] => c
  | t :: ts => run (step c t).2 ts

theorem run_inv (c : Cfg) (sched : List Nat) (h : Inv c) : Inv (run c sched) := by
  induction sched generalizing c with
  | nil => exact h
  | cons t ts ih => exact ih _ (step_inv c t h)

/-! ### the initial configuration -/

/-- every measure that vanishes at the first point of an operation vanishes on the initial thread list -/
theorem init_sum_zero (f : Thread → Nat) (progs : List (List Op)) (h : ∀ p, f (nextOp p []) = 0) :
    sumBy f (progs.map (nextOp · [])) = 0 :=
  sumBy_zero _ _ (fun t ht => by
    obtain ⟨p, _, rfl⟩ := List.mem_map.mp ht
    exact h p)

theorem init_inv (reent : Bool) (budget : Nat) (progs : List (List Op)) : Inv (init reent budget progs) := by
  unfold init Inv tokens owners
  simp only [init_sum_zero (fun t => tok t.pc) progs (fun p => nextOp_lift _ (fun _ => rfl) rfl p []),
    init_sum_zero (fun t => own t.pc) progs (fun p => nextOp_lift _ (fun _ => rfl) rfl p [])]
  simp [initShared, ind]

/-- C01 for grains: for ANY number of sender and worker threads with ANY programs (user messages, blocking
    requests, async request / response envelopes, timer ticks, passivation pills), with or without a
    reentrancy state, ANY turn budget and EVERY schedule: at most one handler invocation (OnReceive or a
    request continuation) is in progress, at most one worker owns the turn, and never in the past were two
    handlers in progress at once. -/
def C01G_full : Prop :=
  ∀ (reent : Bool) (budget : Nat) (progs : List (List Op)) (sched : List Nat),
    let c := run (init reent budget progs) sched
    handlersRunning c ≤ 1 ∧ owners c ≤ 1 ∧ c.sh.maxIn ≤ 1

theorem C01G_holds : C01G_full := by
  intro reent budget progs sched
  have h := run_inv _ sched (init_inv reent budget progs)
  obtain ⟨_, h2, h3⟩ := h
  have hle : handlersRunning (run (init reent budget progs) sched) ≤ owners (run (init reent budget progs) sched) :=
    sumBy_le _ _ _ (fun t => by rw [inRecv_eq]; exact inRecvPc_le_own _)
  refine ⟨?_, ?_, h3⟩
  · unfold ind at h2; split at h2 <;> omega
  · unfold ind at h2; split at h2 <;> omega

/-- non-vacuity: a concrete run in which a handler IS in progress (so the bound is about something) -/
example : handlersRunning (run (init true 2 [[.send ⟨.user, 1⟩], [.work]])
    [0,0,0,0,0,0,0,1,1,1,1,1,1,1,1,1,1,1,1]) = 1 := by decide

/-! ## C02 for grains: accounting -/

def ids (cells : List Cell) : List Msg := cells.map (·.msg)

/-- the message a worker has dequeued and not yet finished with -/
def held (t : Thread) : List Msg := liftL heldP t.pc

/-- 1 if `x` is the message `m` being counted -/
def c1 (x m : Msg) : Nat := if x = m then 1 else 0

/-- occurrences of `m` among the cells of a queue -/
def cq (m : Msg) (v : Queue) : Nat := (ids v.cells).count m

theorem count_cons' (x m : Msg) (l : List Msg) : (x :: l).count m = l.count m + c1 x m := by
  simp only [List.count_cons, c1, beq_iff_eq]

theorem count_snoc' (x m : Msg) (l : List Msg) : (l ++ [x]).count m = l.count m + c1 x m := by
  simp only [List.count_append, List.count_cons, List.count_nil, c1, beq_iff_eq, Nat.zero_add]

theorem ids_publish (x : Msg) (cells : List Cell) : ids (publish x cells) = ids cells := by
  induction cells with
  | nil => rfl
  | cons c cs ih =>
    simp only [publish]
    split
    · simp [ids]
    · simp only [ids, List.map_cons] at ih ⊢; rw [ih]

theorem headReady_cons (cells : List Cell) (x : Msg) (h : headReady cells = some x) :
    ids cells = x :: ids cells.tail := by
  cases cells with
  | nil => simp [headReady] at h
  | cons c cs =>
    simp only [headReady] at h
    split at h <;> simp at h
    simp [ids, h]

theorem cq_reserve (m x : Msg) (v : Queue) : cq m { v with cells := v.cells ++ [⟨x, false⟩] } = cq m v + c1 x m := by
  simp only [cq, ids, List.map_append, List.map_cons, List.map_nil, count_snoc']

theorem cq_publish (m x : Msg) (v : Queue) : cq m { v with cells := publish x v.cells } = cq m v := by
  simp only [cq, ids_publish]

theorem cq_len (m : Msg) (v : Queue) (d : Int) : cq m { v with len := v.len + d } = cq m v := rfl

theorem cq_pop (m x : Msg) (v : Queue) (h : headReady v.cells = some x) :
    cq m v = cq m { v with cells := v.cells.tail } + c1 x m := by
  simp only [cq, headReady_cons _ _ h, count_cons']

/-- dispatchOne moves the message from "held" to "absorbed" or keeps holding it -/
theorem dispatch_acct (m : Msg) (s : Shared) (t : Thread) (o b : Nat) (x : Msg) :
    (dispatch s t o b x).1.absorbed.count m + (liftL heldP (dispatch s t o b x).2.pc).count m
      = s.absorbed.count m + c1 x m := by
  unfold dispatch
  split <;> (try split) <;>
    simp only [absorb, enter, c01g, count_cons', List.count_nil, List.count_cons, c1, beq_iff_eq] <;> omega

/-- one step, seen from the stepping thread; `H` = occurrences of `m` among the messages held by the others -/
theorem exec_acct (m : Msg) (s : Shared) (t : Thread) (others : Nat) (pc : PC) (H : Nat)
    (hpc : t.pc = some pc)
    (h : s.handled.count m + s.absorbed.count m + (H + (liftL heldP t.pc).count m) + cq m (s.q .R) + cq m (s.q .M)
          = s.accepted.count m) :
    (exec s t others pc).1.handled.count m + (exec s t others pc).1.absorbed.count m
      + (H + (liftL heldP (exec s t others pc).2.pc).count m)
      + cq m ((exec s t others pc).1.q .R) + cq m ((exec s t others pc).1.q .M)
      = (exec s t others pc).1.accepted.count m := by
  rw [hpc] at h
  cases pc
  case sE1 x =>
    simp only [exec, reserve, c01g, List.count_nil] at h ⊢
    cases hq : qOf x.kind <;>
      simp only [c01g, updQ_q, hq, reduceCtorEq, if_true, if_false, ↓reduceIte, cq_reserve, count_snoc'] <;> omega
  case sE2 x =>
    simp only [exec, link, c01g, List.count_nil] at h ⊢
    cases hq : qOf x.kind <;>
      simp only [c01g, updQ_q, hq, reduceCtorEq, if_true, if_false, ↓reduceIte, cq_publish] <;> omega
  case sE3 x =>
    simp only [exec, addLen, c01g, List.count_nil] at h ⊢
    cases hq : qOf x.kind <;>
      simp only [c01g, updQ_q, hq, reduceCtorEq, if_true, if_false, ↓reduceIte, cq_len] <;> omega
  case dq6 q b x =>
    simp only [exec, addLen, c01g] at h ⊢
    cases q <;> simp only [c01g, updQ_q, reduceCtorEq, if_true, if_false, ↓reduceIte, cq_len] <;> omega
  case dq2 q b =>
    rcases exec_dq2 s t others q b with ⟨_, e⟩ | ⟨x, hx, e⟩ <;> rw [e]
    · simpa only [c01g] using h
    · have := cq_pop m x (s.q q) hx
      simp only [popHead, c01g, count_cons', List.count_nil] at h ⊢
      cases q <;> simp only [c01g, updQ_q, reduceCtorEq, if_true, if_false, ↓reduceIte] at this ⊢ <;> omega
  case dq4 q b =>
    rcases exec_dq4 s t others q b with ⟨_, e⟩ | ⟨x, hx, e⟩ <;> rw [e]
    · simpa only [hpc, c01g] using h
    · have := cq_pop m x (s.q q) hx
      simp only [popHead, c01g, count_cons', List.count_nil] at h ⊢
      cases q <;> simp only [c01g, updQ_q, reduceCtorEq, if_true, if_false, ↓reduceIte] at this ⊢ <;> omega
  case dq7 q b x =>
    have := dispatch_acct m s t others b x
    simp only [exec, c01g, count_cons', List.count_nil] at h ⊢
    omega
  case wRecv b x =>
    simp only [exec, c01g, count_cons', List.count_nil] at h ⊢
    omega
  case wPP2 b x =>
    simp only [exec, absorb, c01g, count_cons', List.count_nil] at h ⊢
    omega
  all_goals
    simp only [exec] <;> (try split) <;>
    simp only [c01g, count_cons', List.count_nil] at h ⊢ <;> omega

/-- Accounting invariant, per message `m`: its occurrences among handled, absorbed, held-by-a-worker and the two
    queues add up to its occurrences among the accepted messages. -/
def AcctC (c : Cfg) (m : Msg) : Prop :=
  c.sh.handled.count m + c.sh.absorbed.count m + sumBy (fun t => (held t).count m) c.threads
    + cq m (c.sh.q .R) + cq m (c.sh.q .M) = c.sh.accepted.count m

theorem step_acct (c : Cfg) (tid : Nat) (m : Msg) (h : AcctC c m) : AcctC (step c tid).2 m := by
  unfold step
  split
  · exact h
  · rename_i t ht
    split
    · exact h
    · rename_i pc hpc
      have hlt : tid < c.threads.length := (List.getElem?_eq_some_iff.mp ht).1
      have hget : c.threads[tid] = t := (List.getElem?_eq_some_iff.mp ht).2
      unfold AcctC at h ⊢
      rw [sumBy_eraseIdx _ _ tid hlt, hget] at h
      have g := exec_acct m c.sh t (sumBy inRecv c.threads - inRecv t) pc _ hpc h
      simp only
      rw [sumBy_set _ _ _ _ hlt]
      exact g

theorem init_acct (reent : Bool) (budget : Nat) (progs : List (List Op)) (m : Msg) : AcctC (init reent budget progs) m := by
  unfold init AcctC
  simp only [init_sum_zero (fun t => (held t).count m) progs (fun p => by
    simp only [held, nextOp_liftL heldP (fun _ => rfl) rfl p [], List.count_nil])]
  simp [initShared, cq, ids, Shared.q]

theorem run_acct (c : Cfg) (sched : List Nat) (m : Msg) (h : AcctC c m) : AcctC (run c sched) m := by
  induction sched generalizing c with
  | nil => exact h
  | cons t ts ih => exact ih _ (step_acct c t m h)

theorem count_flatMap_held (m : Msg) (l : List Thread) :
    (l.flatMap held).count m = sumBy (fun t => (held t).count m) l := by
  induction l with
  | nil => rfl
  | cons x xs ih => simp only [List.flatMap_cons, List.count_append, sumBy, ih]

/-- Exactly-once, part 1: in every reachable configuration the accepted messages are, as a multiset, exactly
    those handled (OnReceive / continuation ran), absorbed by the runtime without a handler, held by a worker
    (dequeued, handler not finished), or still in the responses queue or in the user mailbox. -/
theorem C02G_accounting (reent : Bool) (budget : Nat) (progs : List (List Op)) (sched : List Nat) :
    let c := run (init reent budget progs) sched
    (c.sh.handled ++ c.sh.absorbed ++ c.threads.flatMap held ++ ids c.sh.qR.cells ++ ids c.sh.qM.cells).Perm c.sh.accepted := by
  intro c
  refine List.perm_iff_count.mpr (fun m => ?_)
  have h := run_acct _ sched m (init_acct reent budget progs m)
  unfold AcctC at h
  simp only [List.count_append, count_flatMap_held]
  exact h

/-- no message is handled more often than it was accepted (so: never twice when messages are distinct) -/
theorem C02G_no_duplicate (reent : Bool) (budget : Nat) (progs : List (List Op)) (sched : List Nat) (m : Msg) :
    (run (init reent budget progs) sched).sh.handled.count m ≤ (run (init reent budget progs) sched).sh.accepted.count m := by
  have h := run_acct _ sched m (init_acct reent budget progs m)
  unfold AcctC at h
  omega

/-! ### what the runtime may consume without calling a handler -/

def absorbable (x : Msg) : Prop := x.kind = .pill ∨ x.kind = .resp

/-- a worker inside handlePassivationPill holds a pill -/
def ppOK : Option PC → Prop
  | some (.wPP1 _ x) | some (.wPP2 _ x) => x.kind = .pill
  | _ => True

def AbsInv (c : Cfg) : Prop := (∀ x ∈ c.sh.absorbed, absorbable x) ∧ (∀ t ∈ c.threads, ppOK t.pc)

theorem nextOp_ppOK (p : List Op) (r : List Res) : ppOK (nextOp p r).pc := by
  rcases nextOp_pc p r with h | ⟨x, h⟩ | h <;> rw [h] <;> trivial

theorem nextIter_ppOK (b : Nat) : ppOK (some (nextIter b)) := by
  rcases nextIter_cases b with h | h <;> rw [h] <;> trivial

theorem dispatch_abs (s : Shared) (t : Thread) (o b : Nat) (x : Msg) (h : ∀ y ∈ s.absorbed, absorbable y) :
    (∀ y ∈ (dispatch s t o b x).1.absorbed, absorbable y) ∧ ppOK (dispatch s t o b x).2.pc := by
  unfold dispatch
  split
  · rename_i hk
    split
    · refine ⟨?_, nextIter_ppOK b⟩
      intro y hy
      simp only [absorb, List.mem_cons] at hy
      rcases hy with rfl | hy
      · exact .inl hk
      · exact h y hy
    · exact ⟨h, hk⟩
  · rename_i hk
    split
    · exact ⟨h, trivial⟩
    · refine ⟨?_, nextIter_ppOK b⟩
      intro y hy
      simp only [absorb, List.mem_cons] at hy
      rcases hy with rfl | hy
      · exact .inr hk
      · exact h y hy
  · exact ⟨h, trivial⟩

theorem exec_abs (s : Shared) (t : Thread) (others : Nat) (pc : PC) (hpc : t.pc = some pc)
    (h : ∀ y ∈ s.absorbed, absorbable y) (hp : ppOK t.pc) :
    (∀ y ∈ (exec s t others pc).1.absorbed, absorbable y) ∧ ppOK (exec s t others pc).2.pc := by
  rw [hpc] at hp
  cases pc
  case dq7 q b x => exact dispatch_abs s t others b x h
  case dq2 q b =>
    rcases exec_dq2 s t others q b with ⟨_, e⟩ | ⟨x, _, e⟩ <;> rw [e] <;> exact ⟨by simpa only [popHead, c01g] using h, trivial⟩
  case dq4 q b =>
    rcases exec_dq4 s t others q b with ⟨_, e⟩ | ⟨x, _, e⟩ <;> rw [e]
    · exact ⟨h, by rw [hpc]; trivial⟩
    · exact ⟨by simpa only [popHead, c01g] using h, trivial⟩
  case wPP1 b x => exact ⟨h, hp⟩
  case wPP2 b x =>
    refine ⟨?_, nextIter_ppOK b⟩
    intro y hy
    simp only [exec, absorb, List.mem_cons] at hy
    rcases hy with rfl | hy
    · exact .inl hp
    · exact h y hy
  case wRecv b x => exact ⟨by simpa only [exec, c01g] using h, nextIter_ppOK b⟩
  case wRetake b =>
    simp only [exec]; split
    · exact ⟨h, nextIter_ppOK b⟩
    · exact ⟨h, nextOp_ppOK _ _⟩
  case dq3 q b =>
    simp only [exec]; split
    · exact ⟨h, by cases q <;> trivial⟩
    · exact ⟨h, trivial⟩
  all_goals
    simp only [exec] <;> (try split) <;>
    first
      | exact ⟨h, trivial⟩
      | exact ⟨h, nextOp_ppOK _ _⟩
      | exact ⟨by simpa only [reserve, link, addLen, c01g] using h, trivial⟩

theorem step_abs (c : Cfg) (tid : Nat) (h : AbsInv c) : AbsInv (step c tid).2 := by
  unfold step
  split
  · exact h
  · rename_i t ht
    split
    · exact h
    · rename_i pc hpc
      have hmem : t ∈ c.threads := List.mem_of_getElem? ht
      obtain ⟨h1, h2⟩ := h
      have g := exec_abs c.sh t (sumBy inRecv c.threads - inRecv t) pc hpc h1 (h2 t hmem)
      refine ⟨g.1, ?_⟩
      intro t' ht'
      rcases List.mem_or_eq_of_mem_set ht' with hm | rfl
      · exact h2 t' hm
      · exact g.2

/-- Exactly-once, part 2: the runtime consumes without a handler ONLY passivation pills and async responses
    (a response is dropped when no request with its correlation id is in flight).  Every user message, async
    request and timer tick that was accepted is therefore handled, held by the worker running the turn, or still
    queued — never silently dropped. -/
theorem C02G_absorbed_kinds (reent : Bool) (budget : Nat) (progs : List (List Op)) (sched : List Nat) :
    ∀ x ∈ (run (init reent budget progs) sched).sh.absorbed, x.kind = .pill ∨ x.kind = .resp := by
  have h0 : AbsInv (init reent budget progs) := by
    refine ⟨by simp [init, initShared], ?_⟩
    intro t ht
    obtain ⟨p, _, rfl⟩ := List.mem_map.mp ht
    exact nextOp_ppOK p []
  have : ∀ (c : Cfg) (sched : List Nat), AbsInv c → AbsInv (run c sched) := by
    intro c sched
    induction sched generalizing c with
    | nil => exact id
    | cons t ts ih => exact fun h => ih _ (step_abs c t h)
  exact (this _ sched h0).1

/-! ## the `len` counters -/

theorem publish_length (x : Msg) (cells : List Cell) : (publish x cells).length = cells.length := by
  induction cells with
  | nil => rfl
  | cons c cs ih => simp only [publish]; split <;> simp [ih]

theorem headReady_length (cells : List Cell) (x : Msg) (h : headReady cells = some x) :
    cells.tail.length + 1 = cells.length := by
  cases cells with
  | nil => simp [headReady] at h
  | cons c cs => simp

/-- one step, seen from the stepping thread, for the queue `q`: `A` / `B` = producers / consumers among the OTHER
    threads that are between their queue operation and their update of `len` -/
theorem exec_len (q : Q) (s : Shared) (t : Thread) (others : Nat) (pc : PC) (A B : Nat)
    (hpc : t.pc = some pc)
    (h : (s.q q).len + ((A + lift (midSP q) t.pc : Nat) : Int) = ((s.q q).cells.length : Int) + ((B + lift (midDP q) t.pc : Nat) : Int)) :
    ((exec s t others pc).1.q q).len + ((A + lift (midSP q) (exec s t others pc).2.pc : Nat) : Int)
      = (((exec s t others pc).1.q q).cells.length : Int) + ((B + lift (midDP q) (exec s t others pc).2.pc : Nat) : Int) := by
  rw [hpc] at h
  cases pc
  case sE1 x =>
    simp only [exec, reserve, c01g, updQ_q] at h ⊢
    by_cases hq : qOf x.kind = q <;> simp only [hq, if_true, if_false, ↓reduceIte, c01g, List.length_append, List.length_cons, List.length_nil] at h ⊢ <;> omega
  case sE2 x =>
    simp only [exec, link, c01g, updQ_q] at h ⊢
    by_cases hq : qOf x.kind = q <;> simp only [hq, if_true, if_false, ↓reduceIte, publish_length] at h ⊢ <;> omega
  case sE3 x =>
    simp only [exec, addLen, c01g, updQ_q] at h ⊢
    by_cases hq : qOf x.kind = q <;> simp only [hq, if_true, if_false, ↓reduceIte] at h ⊢ <;> omega
  case dq2 q' b =>
    rcases exec_dq2 s t others q' b with ⟨_, e⟩ | ⟨x, hx, e⟩ <;> rw [e]
    · simpa only [c01g] using h
    · have hl := headReady_length _ _ hx
      simp only [popHead, c01g, updQ_q] at h ⊢
      by_cases hq : q' = q
      · subst hq; simp only [if_true, ↓reduceIte] at h ⊢; omega
      · simp only [hq, if_false, ↓reduceIte] at h ⊢; omega
  case dq4 q' b =>
    rcases exec_dq4 s t others q' b with ⟨_, e⟩ | ⟨x, hx, e⟩ <;> rw [e]
    · simpa only [hpc, c01g] using h
    · have hl := headReady_length _ _ hx
      simp only [popHead, c01g, updQ_q] at h ⊢
      by_cases hq : q' = q
      · subst hq; simp only [if_true, ↓reduceIte] at h ⊢; omega
      · simp only [hq, if_false, ↓reduceIte] at h ⊢; omega
  case dq6 q' b x =>
    simp only [exec, addLen, c01g, updQ_q] at h ⊢
    by_cases hq : q' = q <;> simp only [hq, if_true, if_false, ↓reduceIte] at h ⊢ <;> omega
  all_goals
    simp only [exec] <;> (try split) <;>
    simp only [c01g, absorb] at h ⊢ <;> omega

/-- `len` of a queue = cells reserved in it − producers that have not yet counted theirs + consumers that have
    not yet discounted theirs -/
def LenInv (c : Cfg) (q : Q) : Prop :=
  (c.sh.q q).len + (sumBy (fun t => lift (midSP q) t.pc) c.threads : Int)
    = ((c.sh.q q).cells.length : Int) + (sumBy (fun t => lift (midDP q) t.pc) c.threads : Int)

theorem step_len (c : Cfg) (tid : Nat) (q : Q) (h : LenInv c q) : LenInv (step c tid).2 q := by
  unfold step
  split
  · exact h
  · rename_i t ht
    split
    · exact h
    · rename_i pc hpc
      have hlt : tid < c.threads.length := (List.getElem?_eq_some_iff.mp ht).1
      have hget : c.threads[tid] = t := (List.getElem?_eq_some_iff.mp ht).2
      unfold LenInv at h ⊢
      rw [sumBy_eraseIdx (fun t => lift (midSP q) t.pc) _ tid hlt, sumBy_eraseIdx (fun t => lift (midDP q) t.pc) _ tid hlt, hget] at h
      have g := exec_len q c.sh t (sumBy inRecv c.threads - inRecv t) pc _ _ hpc h
      simp only
      rw [sumBy_set (fun t => lift (midSP q) t.pc) _ _ _ hlt, sumBy_set (fun t => lift (midDP q) t.pc) _ _ _ hlt]
      exact g

theorem init_len (reent : Bool) (budget : Nat) (progs : List (List Op)) (q : Q) : LenInv (init reent budget progs) q := by
  unfold init LenInv
  simp only [init_sum_zero (fun t => lift (midSP q) t.pc) progs (fun p => nextOp_lift _ (fun _ => rfl) rfl p []),
    init_sum_zero (fun t => lift (midDP q) t.pc) progs (fun p => nextOp_lift _ (fun _ => rfl) rfl p [])]
  cases q <;> simp [initShared, Shared.q]

theorem run_len (c : Cfg) (sched : List Nat) (q : Q) (h : LenInv c q) : LenInv (run c sched) q := by
  induction sched generalizing c with
  | nil => exact h
  | cons t ts ih => exact ih _ (step_len c t q h)

/-- The `len` counter of each grain queue, in every reachable configuration.  In particular at quiescence
    (no thread inside an Enqueue or a Dequeue) `len` is the number of queued messages, and `IsEmpty` (`len = 0`)
    can only misreport a non-empty queue while a producer of that queue has not finished its Enqueue. -/
theorem C02G_len (reent : Bool) (budget : Nat) (progs : List (List Op)) (sched : List Nat) (q : Q) :
    LenInv (run (init reent budget progs) sched) q := run_len _ _ q (init_len reent budget progs q)

/-! ## no lost wake-up -/

/-- responses part: a reserved response cell ⇒ the state is not Idle, or a sender is still between its
    reservation and the outcome of its TrySchedule (`a`), or a worker in finishOrReclaim has not yet looked at the
    responses queue / is committed to TrySchedule (`b`) -/
def J1at (s : Shared) (a b : Nat) : Prop :=
  (s.q .R).cells ≠ [] → s.sched ≠ .idle ∨ 0 < a ∨ 0 < b

/-- mailbox part: a reserved user-mailbox cell in a grain that is NOT paused ⇒ the same, with the workers that
    are anywhere inside finishOrReclaim's re-check (`b`) -/
def J2at (s : Shared) (a b : Nat) : Prop :=
  (s.q .M).cells ≠ [] → s.outstanding = [] → s.sched ≠ .idle ∨ 0 < a ∨ 0 < b

/-- one step, seen from the stepping thread.  `Rin`, `RrR`, `RrM`: in-flight senders / reclaiming workers among
    the OTHER threads.  `hown` comes from C01G's invariant (a turn owner ⇒ Processing), `hE` from the `len`
    invariant (`len = 0` on a non-empty queue ⇒ one of its producers is still inside Enqueue). -/
theorem exec_wake (s : Shared) (t : Thread) (others : Nat) (pc : PC) (Rin RrR RrM : Nat)
    (hpc : t.pc = some pc)
    (hown : ownP pc = 1 → s.sched = .processing)
    (hE : ∀ q, midSP q pc = 0 → (s.q q).len = 0 → (s.q q).cells ≠ [] → 0 < Rin)
    (hJ1 : J1at s (Rin + lift inflightP t.pc) (RrR + lift recRP t.pc))
    (hJ2 : J2at s (Rin + lift inflightP t.pc) (RrM + lift recMP t.pc)) :
    J1at (exec s t others pc).1 (Rin + lift inflightP (exec s t others pc).2.pc) (RrR + lift recRP (exec s t others pc).2.pc)
    ∧ J2at (exec s t others pc).1 (Rin + lift inflightP (exec s t others pc).2.pc) (RrM + lift recMP (exec s t others pc).2.pc) := by
  rw [hpc] at hJ1 hJ2
  unfold J1at J2at at *
  cases pc
  -- senders after their reservation: in flight
  case sE1 x => simp only [exec, c01g]; exact ⟨fun _ => .inr (.inl (by omega)), fun _ _ => .inr (.inl (by omega))⟩
  case sE2 x => simp only [exec, c01g]; exact ⟨fun _ => .inr (.inl (by omega)), fun _ _ => .inr (.inl (by omega))⟩
  case sE3 x => simp only [exec, c01g]; exact ⟨fun _ => .inr (.inl (by omega)), fun _ _ => .inr (.inl (by omega))⟩
  -- the turn owner: the state is Processing and stays so (or becomes Scheduled at the yield)
  case dq1 q b => have := hown rfl; simp only [exec, c01g, this]; exact ⟨fun _ => .inl (by simp), fun _ _ => .inl (by simp)⟩
  case dq2 q b =>
    have := hown rfl
    rcases exec_dq2 s t others q b with ⟨_, e⟩ | ⟨x, _, e⟩ <;> rw [e] <;> simp only [popHead, c01g, this] <;>
      exact ⟨fun _ => .inl (by simp), fun _ _ => .inl (by simp)⟩
  case dq3 q b => have := hown rfl; simp only [exec]; split <;> simp only [c01g, this] <;> exact ⟨fun _ => .inl (by simp), fun _ _ => .inl (by simp)⟩
  case dq4 q b =>
    have := hown rfl
    rcases exec_dq4 s t others q b with ⟨_, e⟩ | ⟨x, _, e⟩ <;> rw [e] <;> simp only [popHead, c01g, this] <;>
      exact ⟨fun _ => .inl (by simp), fun _ _ => .inl (by simp)⟩
  case dq5 q b x => have := hown rfl; simp only [exec, c01g, this]; exact ⟨fun _ => .inl (by simp), fun _ _ => .inl (by simp)⟩
  case dq6 q b x => have := hown rfl; simp only [exec, addLen, c01g, this]; exact ⟨fun _ => .inl (by simp), fun _ _ => .inl (by simp)⟩
  case dq7 q b x => have := hown rfl; simp only [exec, c01g, this]; exact ⟨fun _ => .inl (by simp), fun _ _ => .inl (by simp)⟩
  case wP1 b => have := hown rfl; simp only [exec, c01g, this]; exact ⟨fun _ => .inl (by simp), fun _ _ => .inl (by simp)⟩
  case wP2 b => have := hown rfl; simp only [exec]; split <;> simp only [c01g, this] <;> exact ⟨fun _ => .inl (by simp), fun _ _ => .inl (by simp)⟩
  case wRecv b x => have := hown rfl; simp only [exec, c01g, this]; exact ⟨fun _ => .inl (by simp), fun _ _ => .inl (by simp)⟩
  case wPP1 b x => have := hown rfl; simp only [exec, c01g, this]; exact ⟨fun _ => .inl (by simp), fun _ _ => .inl (by simp)⟩
  case wPP2 b x => have := hown rfl; simp only [exec, absorb, c01g, this]; exact ⟨fun _ => .inl (by simp), fun _ _ => .inl (by simp)⟩
  case wYield => simp only [exec, c01g]; exact ⟨fun _ => .inl (by simp), fun _ _ => .inl (by simp)⟩
  -- the release: the worker now answers for both queues
  case wReset b => simp only [exec, c01g]; exact ⟨fun _ => .inr (.inr (by omega)), fun _ _ => .inr (.inr (by omega))⟩
  -- hasPendingWork
  case wRE b =>
    simp only [exec]; split
    · rename_i hl
      simp only [c01g] at hJ1 hJ2 ⊢
      refine ⟨fun hc => ?_, fun _ _ => .inr (.inr (by omega))⟩
      have := hE .R rfl hl hc
      exact .inr (.inl (by omega))
    · simp only [c01g]; exact ⟨fun _ => .inr (.inr (by omega)), fun _ _ => .inr (.inr (by omega))⟩
  case wHP1 b =>
    simp only [exec, c01g] at hJ1 hJ2 ⊢
    exact ⟨hJ1, fun _ _ => .inr (.inr (by omega))⟩
  case wHP2 b =>
    simp only [exec]; split
    · rename_i hp
      simp only [c01g] at hJ1 hJ2 ⊢
      exact ⟨hJ1, fun _ ho => absurd ho ((pausedNow_iff s).mp hp)⟩
    · simp only [c01g] at hJ1 hJ2 ⊢
      exact ⟨hJ1, fun _ _ => .inr (.inr (by omega))⟩
  case wME b =>
    simp only [exec]; split
    · rename_i hl
      simp only [c01g] at hJ1 hJ2 ⊢
      refine ⟨hJ1, fun hc _ => ?_⟩
      have := hE .M rfl hl hc
      exact .inr (.inl (by omega))
    · simp only [c01g]; exact ⟨fun _ => .inr (.inr (by omega)), fun _ _ => .inr (.inr (by omega))⟩
  -- everything else: dispatch-state operations of senders and workers, ready-queue operations
  all_goals
    cases hs : s.sched <;>
    simp only [exec, hs, reduceCtorEq, if_true, if_false, ↓reduceIte] <;>
    (try split) <;>
    simp only [c01g, hs, ne_eq, reduceCtorEq, not_true_eq_false, not_false_eq_true, false_or, true_or, or_true,
      implies_true, and_self, Nat.add_zero] at hJ1 hJ2 ⊢ <;>
    first
      | exact ⟨hJ1, hJ2⟩
      | exact ⟨fun _ => by omega, fun _ _ => by omega⟩
      | exact ⟨fun _ => .inr (by omega), fun _ _ => .inr (by omega)⟩

def inflight (t : Thread) : Nat := lift inflightP t.pc
def recR (t : Thread) : Nat := lift recRP t.pc
def recM (t : Thread) : Nat := lift recMP t.pc

def Wake (c : Cfg) : Prop :=
  J1at c.sh (sumBy inflight c.threads) (sumBy recR c.threads) ∧ J2at c.sh (sumBy inflight c.threads) (sumBy recM c.threads)

theorem step_wake (c : Cfg) (tid : Nat) (h : Wake c) (hi : Inv c) (hl : ∀ q, LenInv c q) : Wake (step c tid).2 := by
  unfold step
  split
  · exact h
  · rename_i t ht
    split
    · exact h
    · rename_i pc hpc
      have hlt : tid < c.threads.length := (List.getElem?_eq_some_iff.mp ht).1
      have hget : c.threads[tid] = t := (List.getElem?_eq_some_iff.mp ht).2
      obtain ⟨hJ1, hJ2⟩ := h
      have s1 := sumBy_eraseIdx inflight c.threads tid hlt
      have s2 := sumBy_eraseIdx recR c.threads tid hlt
      have s3 := sumBy_eraseIdx recM c.threads tid hlt
      rw [hget] at s1 s2 s3
      rw [s1, s2] at hJ1
      rw [s1, s3] at hJ2
      -- a turn owner ⇒ Processing (C01G's invariant)
      have hown : ownP pc = 1 → c.sh.sched = .processing := by
        intro ho
        have h2 := hi.2.1
        unfold owners at h2
        rw [sumBy_eraseIdx _ _ tid hlt, hget, hpc] at h2
        simp only [lift_some, ho, ind] at h2
        split at h2
        · assumption
        · omega
      -- `len = 0` on a non-empty queue ⇒ one of its producers (another thread) is still inside Enqueue
      have hE : ∀ q, midSP q pc = 0 → (c.sh.q q).len = 0 → (c.sh.q q).cells ≠ [] → 0 < sumBy inflight (c.threads.eraseIdx tid) := by
        intro q hm hlen hc
        have hL := hl q
        unfold LenInv at hL
        rw [sumBy_eraseIdx (fun t => lift (midSP q) t.pc) _ tid hlt, hget, hpc] at hL
        simp only [lift_some, hm, hlen] at hL
        have hpos : 0 < (c.sh.q q).cells.length := List.length_pos_iff.mpr hc
        have hle : sumBy (fun t => lift (midSP q) t.pc) (c.threads.eraseIdx tid) ≤ sumBy inflight (c.threads.eraseIdx tid) :=
          sumBy_le _ _ _ (fun t => by
            unfold inflight
            cases t.pc with
            | none => exact Nat.le_refl _
            | some p => exact midSP_le_inflightP q p)
        omega
      have g := exec_wake c.sh t (sumBy inRecv c.threads - inRecv t) pc _ _ _ hpc hown hE hJ1 hJ2
      unfold Wake
      simp only
      rw [sumBy_set inflight _ _ _ hlt, sumBy_set recR _ _ _ hlt, sumBy_set recM _ _ _ hlt]
      exact g

theorem init_wake (reent : Bool) (budget : Nat) (progs : List (List Op)) : Wake (init reent budget progs) := by
  unfold init Wake J1at J2at
  simp [initShared, Shared.q]

theorem run_wake (c : Cfg) (sched : List Nat) (h : Wake c) (hi : Inv c) (hl : ∀ q, LenInv c q) : Wake (run c sched) := by
  induction sched generalizing c with
  | nil => exact h
  | cons t ts ih => exact ih _ (step_wake c t h hi hl) (step_inv c t hi) (fun q => step_len c t q (hl q))

/-- the grain's pending work, in terms of what is really queued: a response, or a user-mailbox message in a
    grain that is not paused.  (The code's `hasPendingWork` reads the `len` counters instead; `C02G_len` relates
    the two.)  A PAUSED grain whose only input is user messages has NO pending work: those messages wait for the
    response that ends the pause. -/
def pending (s : Shared) : Prop := s.qR.cells ≠ [] ∨ (s.qM.cells ≠ [] ∧ s.outstanding = [])

instance (s : Shared) : Decidable (pending s) := by unfold pending; infer_instance

/-- a thread that is still responsible for waking the grain up -/
def responsible (p : Option PC) : Prop :=
  0 < tok p ∨ 0 < own p ∨ 0 < lift inflightP p ∨ 0 < lift recMP p

/-- No lost wake-up (absence of stuck states).  In EVERY reachable configuration, for every schedule: if the grain
    has pending work then the ready queue holds an entry for it (any free worker's next take gets it), or some
    thread is still responsible for it: a token holder about to push or take, the owner of the current turn, a
    sender that has not finished its TrySchedule, or a worker still inside finishOrReclaim's re-check. -/
def C02G_no_lost_wakeup_stmt : Prop :=
  ∀ (reent : Bool) (budget : Nat) (progs : List (List Op)) (sched : List Nat),
    let c := run (init reent budget progs) sched
    pending c.sh → 0 < c.sh.rq ∨ ∃ t ∈ c.threads, responsible t.pc

theorem C02G_no_lost_wakeup : C02G_no_lost_wakeup_stmt := by
  intro reent budget progs sched c hp
  have hi : Inv c := run_inv _ sched (init_inv reent budget progs)
  have hw : Wake c := run_wake _ sched (init_wake reent budget progs) (init_inv reent budget progs) (fun q => init_len reent budget progs q)
  obtain ⟨h1, h2, _⟩ := hi
  -- not Idle, or an in-flight sender, or a reclaiming worker
  have key : c.sh.sched ≠ .idle ∨ 0 < sumBy inflight c.threads ∨ 0 < sumBy recM c.threads := by
    rcases hp with hr | ⟨hm, ho⟩
    · rcases hw.1 hr with a | a | a
      · exact .inl a
      · exact .inr (.inl a)
      · exact .inr (.inr (Nat.lt_of_lt_of_le a (sumBy_le _ _ _ (fun t => by
          unfold recR recM
          cases t.pc with
          | none => exact Nat.le_refl _
          | some p => exact recRP_le_recMP p))))
    · exact hw.2 hm ho
  rcases key with hs | hin | hre
  · cases hsc : c.sh.sched
    · exact absurd hsc hs
    · simp only [tokens, ind, hsc, if_true] at h1
      by_cases hrq : 0 < c.sh.rq
      · exact .inl hrq
      · obtain ⟨t, ht, h'⟩ := exists_of_sumBy_pos _ _ (by omega : 0 < sumBy (fun t => tok t.pc) c.threads)
        exact .inr ⟨t, ht, .inl h'⟩
    · simp only [owners, ind, hsc, if_true] at h2
      obtain ⟨t, ht, h'⟩ := exists_of_sumBy_pos _ _ (by omega : 0 < sumBy (fun t => own t.pc) c.threads)
      exact .inr ⟨t, ht, .inr (.inl h')⟩
  · obtain ⟨t, ht, h'⟩ := exists_of_sumBy_pos _ _ hin
    exact .inr ⟨t, ht, .inr (.inr (.inl h'))⟩
  · obtain ⟨t, ht, h'⟩ := exists_of_sumBy_pos _ _ hre
    exact .inr ⟨t, ht, .inr (.inr (.inr h'))⟩

/-- Corollary: when every thread has run to completion, pending work always comes with a ready-queue entry — a
    free worker will take the grain.  Read contrapositively: with no ready entry, the responses queue is empty and
    the user mailbox is empty OR the grain is paused. -/
theorem C02G_quiescent (reent : Bool) (budget : Nat) (progs : List (List Op)) (sched : List Nat)
    (hq : ∀ t ∈ (run (init reent budget progs) sched).threads, t.pc = none) :
    let c := run (init reent budget progs) sched
    0 < c.sh.rq ∨ (c.sh.qR.cells = [] ∧ (c.sh.qM.cells = [] ∨ c.sh.outstanding ≠ [])) := by
  intro c
  by_cases hp : pending c.sh
  · rcases C02G_no_lost_wakeup reent budget progs sched hp with h | ⟨t, ht, h⟩
    · exact .inl h
    · rw [hq t ht] at h
      simp [responsible] at h
  · refine .inr ?_
    unfold pending at hp
    simp only [not_or, not_and, ne_eq, Decidable.not_not] at hp
    refine ⟨hp.1, ?_⟩
    by_cases hm : c.sh.qM.cells = []
    · exact .inl hm
    · exact .inr (hp.2 hm)

/-- witness programs: a sender (blocking request 1, then user message 2), a worker, the sender of the response, a worker -/
def pausedProgs : List (List Op) := [[.send ⟨.block, 1⟩, .send ⟨.user, 2⟩], [.work], [.send ⟨.resp, 1⟩], [.work]]
/-- the sender and the first worker run to completion -/
def pausedCfg : Cfg := run (init true 3 pausedProgs) (List.replicate 14 0 ++ List.replicate 40 1)
/-- then the response is delivered and the second worker runs -/
def resumedCfg : Cfg := run pausedCfg (List.replicate 7 2 ++ List.replicate 60 3)

set_option maxRecDepth 8000 in
/-- The paused case is real and legitimate: a reachable configuration in which the sender and the worker are done,
    the user mailbox holds message 2, the grain is paused by blocking request 1, the state is Idle, the ready queue is
    empty and NOTHING is pending — and the response that ends the pause gets the queued message handled. -/
theorem C02G_paused_idle_is_reachable :
    ((pausedCfg.threads.take 2).all (·.pc.isNone) = true ∧ pausedCfg.sh.qM.cells ≠ [] ∧ pausedCfg.sh.outstanding = [1]
      ∧ pausedCfg.sh.sched = .idle ∧ pausedCfg.sh.rq = 0 ∧ pausedCfg.sh.handled = [⟨.block, 1⟩] ∧ ¬ pending pausedCfg.sh)
    ∧ (resumedCfg.threads.all (·.pc.isNone) = true ∧ resumedCfg.sh.handled = [⟨.user, 2⟩, ⟨.resp, 1⟩, ⟨.block, 1⟩]
      ∧ resumedCfg.sh.qM.cells = [] ∧ resumedCfg.sh.outstanding = [] ∧ resumedCfg.sh.sched = .idle) := by
  decide

-- non-vacuity of the hypotheses: a configuration WITH pending work (a reserved, not yet linked user message) …
example : pending (run (init true 2 [[.send ⟨.user, 1⟩]]) [0, 0]).sh := by decide
-- … and a quiescent one (every thread done), as `C02G_quiescent` assumes
set_option maxRecDepth 8000 in
example : ∀ t ∈ (run (init true 3 pausedProgs) (List.replicate 14 0 ++ List.replicate 40 1 ++ List.replicate 7 2 ++ List.replicate 60 3)).threads,
    t.pc = none := by decide

/-- The full statement of C02 for grains (modelled scope: see the header of Model/C01G.lean). -/
def C02G_full : Prop :=
  (∀ reent budget progs sched, let c := run (init reent budget progs) sched
      (c.sh.handled ++ c.sh.absorbed ++ c.threads.flatMap held ++ ids c.sh.qR.cells ++ ids c.sh.qM.cells).Perm c.sh.accepted)
  ∧ (∀ reent budget progs sched m, (run (init reent budget progs) sched).sh.handled.count m ≤ (run (init reent budget progs) sched).sh.accepted.count m)
  ∧ (∀ reent budget progs sched, ∀ x ∈ (run (init reent budget progs) sched).sh.absorbed, x.kind = .pill ∨ x.kind = .resp)
  ∧ (∀ reent budget progs sched q, LenInv (run (init reent budget progs) sched) q)
  ∧ C02G_no_lost_wakeup_stmt

theorem C02G_holds : C02G_full :=
  ⟨C02G_accounting, C02G_no_duplicate, C02G_absorbed_kinds, C02G_len, C02G_no_lost_wakeup⟩

end GoaktVerif.C01G

/-
C08 — Restart backoff and fault counting are arithmetically correct.

"For every fault count and configured initial/maximum delay, the restart delay equals
 min(initial x 2^(n-1), maximum), is never negative, never exceeds the maximum, never decreases as
 faults accumulate, and is zero when backoff is disabled. The consecutive-fault counter restarts
 from one when the previous fault is older than a positive reset window."

Tie: `Gen.C08.backoffDelay` is regenerated from actor/pid.go on every run (go2lean, Int64 with Go's
shift semantics).  `backoff_refines` proves it equal to the Int model `Model.C08.backoff` for ALL
2^192 int64 triples; every theorem below about `Gen.C08.backoffDelay` therefore speaks about the
current source.  `Gen.C08.recordFault` (clock reading and the two atomics as parameters) and `Gen.C08.budgetExceeded` are
regenerated too: `recordFault_refines` ties the Int model of recordFault to the source for every window, clock
reading ≥ 0, stamp and counter (so the exact boundary now-last = window is covered);
`WithExponentialBackoff` is a hand model tied by the differential.

Outcome: the full statement holds (C08_holds).  History: before the `shift >= 63` fix the early cap
fired at shift 62 and backoffDelay(63, 1ns, max > 2^62 ns) returned max instead of 2^62 ns (C08-F1).
-/
import GoaktVerif.Gen.C08
import GoaktVerif.Model.C08
import GoaktVerif.Spec.C08
import GoaktVerif.Lemmas.C08
import GoaktVerif.Lemmas.FixedWidth

namespace GoaktVerif.C08
open GoaktVerif.Model.C08 GoaktVerif.Spec.C08 GoaktVerif.C08L

theorem backoff_refines (n i m : Int64) :
    (Gen.C08.backoffDelay n i m).toInt = backoff n.toInt i.toInt m.toInt := by
  unfold Gen.C08.backoffDelay backoff
  have e0 : (0 : Int64).toInt = 0 := rfl
  have e62 : (63 : Int64).toInt = 63 := rfl
  simp only [Bool.or_eq_true, decide_eq_true_eq, Int64.le_iff_toInt_le, Int64.lt_iff_toInt_lt,
    ge_iff_le, gt_iff_lt, e0, e62, show (1 : Int64).toInt = 1 from rfl]
  by_cases hc : i.toInt ≤ 0 ∨ n.toInt < 1
  · rw [if_pos hc, if_pos hc]; rfl
  · rw [if_neg hc, if_neg hc]
    have hs := sub_one_toInt n (by omega)
    rw [hs]
    by_cases h62 : 63 ≤ n.toInt - 1
    · rw [if_pos h62, if_pos h62]
    · rw [if_neg h62, if_neg h62]
      have hs0 : 0 ≤ (n - 1).toInt := by omega
      have hs1 : (n - 1).toInt < 64 := by omega
      rw [shrInt64_toInt m (n - 1) hs0 hs1, hs]
      by_cases hgt : m.toInt / 2 ^ (n.toInt - 1).toNat < i.toInt
      · rw [if_pos hgt, if_pos hgt]
      · rw [if_neg hgt, if_neg hgt]
        have hp : (0:Int) < 2 ^ (n.toInt - 1).toNat := Int.pow_pos (by decide)
        have hle : i.toInt * 2 ^ (n.toInt - 1).toNat ≤ m.toInt :=
          (Int.le_ediv_iff_mul_le hp).mp (by omega)
        have hm := m.toInt_lt
        have := shlInt64_toInt i (n - 1) hs0 hs1 (by omega) (by rw [hs]; omega)
        rw [this, hs]

theorem two_pow_mono {a b : Nat} (h : a ≤ b) : (2:Int) ^ a ≤ 2 ^ b := by
  have h1 := Nat.pow_le_pow_right (n := 2) (by decide) h
  have h2 := Int.ofNat_le.mpr h1
  simpa [Int.natCast_pow] using h2

theorem two_pow_pos (k : Nat) : (0:Int) < 2 ^ k := Int.pow_pos (by decide)

/-- below the early cap (n ≤ 63) the code computes exactly the law, whatever i and m are -/
theorem backoff_eq_spec_low (n i m : Int) (hn : n ≤ 63) : backoff n i m = specDelay n i m := by
  unfold backoff specDelay
  by_cases hc : i ≤ 0 ∨ n < 1
  · rw [if_pos hc, if_pos hc]
  · rw [if_neg hc, if_neg hc, if_neg (by omega)]
    have hp := two_pow_pos (n - 1).toNat
    by_cases hgt : i > m / 2 ^ (n - 1).toNat
    · rw [if_pos hgt]
      have := (Int.ediv_lt_iff_lt_mul hp).mp hgt
      omega
    · rw [if_neg hgt]
      have := (Int.le_ediv_iff_mul_le hp).mp (Int.not_lt.mp hgt)
      omega

/-- at and above the early cap (n ≥ 64) the code returns max, and so does the law: 2^63 > max -/
theorem backoff_eq_spec_high (n i m : Int) (hn : 64 ≤ n) (hm : m < 2 ^ 63) :
    backoff n i m = specDelay n i m := by
  unfold backoff specDelay
  by_cases hd : i ≤ 0 ∨ n < 1
  · rw [if_pos hd, if_pos hd]
  · rw [if_neg hd, if_neg hd, if_pos (by omega)]
    have hi : 1 ≤ i := by omega
    have hk : 63 ≤ (n - 1).toNat := by omega
    have h1 := two_pow_mono hk
    have h2 := Int.mul_le_mul_of_nonneg_right hi (Int.le_of_lt (two_pow_pos (n - 1).toNat))
    omega

theorem backoff_eq_spec (n i m : Int) (hm : m < 2 ^ 63) : backoff n i m = specDelay n i m := by
  by_cases hn : n ≤ 63
  · exact backoff_eq_spec_low n i m hn
  · exact backoff_eq_spec_high n i m (by omega) hm

/-- the judge's executable form of the law is the law -/
theorem specDelayExec_eq (n i m : Int) (hm : m < 2 ^ 63) : specDelayExec n i m = specDelay n i m := by
  unfold specDelayExec specDelay
  by_cases hd : i ≤ 0 ∨ n < 1
  · rw [if_pos hd, if_pos hd]
  · rw [if_neg hd, if_neg hd]
    by_cases hn : n - 1 ≥ 63 ∧ m < 2 ^ 63
    · rw [if_pos hn]
      have hk : 63 ≤ (n - 1).toNat := by omega
      have h1 := two_pow_mono hk
      have h2 := Int.mul_le_mul_of_nonneg_right (show 1 ≤ i by omega) (Int.le_of_lt (two_pow_pos (n - 1).toNat))
      omega
    · rw [if_neg hn]

theorem spec_bounds (n i m : Int) (h : 0 < i ∧ i ≤ m) : 0 ≤ specDelay n i m ∧ specDelay n i m ≤ m := by
  unfold specDelay
  split
  · omega
  · have := Int.mul_pos h.1 (two_pow_pos (n - 1).toNat)
    omega

theorem backoff_bounds (n i m : Int) (h : 0 < i ∧ i ≤ m) : 0 ≤ backoff n i m ∧ backoff n i m ≤ m := by
  by_cases hn : n ≤ 63
  · rw [backoff_eq_spec_low n i m hn]; exact spec_bounds n i m h
  · unfold backoff
    rw [if_neg (by omega), if_pos (by omega)]
    omega

theorem backoff_disabled (n i m : Int) (h : i ≤ 0) : backoff n i m = 0 := by
  unfold backoff; rw [if_pos (Or.inl h)]

theorem spec_mono (n₁ n₂ i m : Int) (hi : 0 < i) (hn : n₁ ≤ n₂) (h1 : 1 ≤ n₁) :
    specDelay n₁ i m ≤ specDelay n₂ i m := by
  unfold specDelay
  rw [if_neg (by omega), if_neg (by omega)]
  have hk : (n₁ - 1).toNat ≤ (n₂ - 1).toNat := by omega
  have := Int.mul_le_mul_of_nonneg_left (two_pow_mono hk) (Int.le_of_lt hi)
  omega

/-- the delay never decreases as faults accumulate — for every pair of counts -/
theorem backoff_mono (n₁ n₂ i m : Int) (h : 0 < i ∧ i ≤ m) (hn : n₁ ≤ n₂) :
    backoff n₁ i m ≤ backoff n₂ i m := by
  by_cases h1 : n₁ < 1
  · have : backoff n₁ i m = 0 := by unfold backoff; rw [if_pos (Or.inr h1)]
    rw [this]; exact (backoff_bounds n₂ i m h).1
  · by_cases h2 : n₂ ≤ 63
    · rw [backoff_eq_spec_low n₁ i m (by omega), backoff_eq_spec_low n₂ i m h2]
      exact spec_mono n₁ n₂ i m h.1 hn (by omega)
    · have : backoff n₂ i m = m := by
        unfold backoff; rw [if_neg (by omega), if_pos (by omega)]
      rw [this]; exact (backoff_bounds n₁ i m h).2

/-! ### what the supervisor can hold -/

/-- the (initialDelay, maxDelay) pairs a Supervisor can hold: (0,0) (never configured / option ignored)
    or 0 < initial ≤ max (WithExponentialBackoff raises max to initial) -/
def Configured (i m : Int) : Prop := (i = 0 ∧ m = 0) ∨ (0 < i ∧ i ≤ m)

theorem configure_configured (i m r : Int) :
    Configured (configure i m r).1 (configure i m r).2.1
    ∧ (0 < (configure i m r).1 → 0 < (configure i m r).2.2) := by
  unfold configure Configured
  by_cases h : i ≤ 0
  · simp [h]
  · simp only [if_neg h]
    constructor
    · right; constructor
      · omega
      · show i ≤ (if m < i then i else m); split <;> omega
    · intro _
      show 0 < (if r ≤ 0 then (if m < i then i else m) else r)
      split <;> (try split) <;> omega

/-! ### fault window -/

/-- `recordFault`: the counter restarts from one exactly when the previous fault is older than a
    positive window; otherwise it is the previous count plus one. `last` becomes `now`. -/
theorem recordFault_spec (window now : Int) (s : Faults) :
    (recordFault window now s).1 = specCount window s.last now s.count
    ∧ (recordFault window now s).2.count = (recordFault window now s).1
    ∧ (recordFault window now s).2.last = now := by
  unfold recordFault specCount
  refine ⟨?_, rfl, rfl⟩
  by_cases h : window > 0 ∧ s.last > 0 ∧ now - s.last > window
  · simp [h]
  · simp [h]

/-- a non-positive window never resets -/
theorem recordFault_no_window (window now : Int) (s : Faults) (h : window ≤ 0) :
    (recordFault window now s).1 = s.count + 1 := by
  unfold recordFault
  rw [if_neg (by omega)]

/-- any run of faults whose gaps all stay within the window counts up by one each time -/
theorem recordFaults_within (window : Int) (nows : List Int) (s : Faults)
    (h : ∀ p ∈ (s.last :: nows).zip nows, p.2 - p.1 ≤ window) :
    recordFaults window nows s = (List.range' 1 nows.length).map (fun (j : Nat) => s.count + (j : Int)) := by
  induction nows generalizing s with
  | nil => simp [recordFaults]
  | cons now rest ih =>
    have hgap : now - s.last ≤ window := h (s.last, now) (by simp)
    have hstep : recordFault window now s = (s.count + 1, { count := s.count + 1, last := now }) := by
      unfold recordFault
      rw [if_neg (by omega)]
    have ih' := ih { count := s.count + 1, last := now } (by
      intro p hp
      exact h p (by simp only [List.zip_cons_cons, List.mem_cons]; right; exact hp))
    simp only [recordFaults, hstep, ih', List.length_cons, List.range'_succ, List.map_cons]
    congr 1
    rw [List.range'_eq_map_range, List.range'_eq_map_range]
    simp only [List.map_map]
    apply List.map_congr_left
    intro a _
    simp only [Function.comp]
    omega

/-! ### the full statement -/

/-- C08 as stated: for every int64 fault count and every configurable (initial, max) the delay is
    min(initial·2^(n-1), max) (which gives 0 ≤ delay ≤ max, monotone, 0 when disabled), and the
    fault counter follows the window rule. -/
def C08_full : Prop :=
  (∀ n i m : Int64, Configured i.toInt m.toInt →
      (Gen.C08.backoffDelay n i m).toInt = specDelay n.toInt i.toInt m.toInt)
  ∧ (∀ window now s, (recordFault window now s).1 = specCount window s.last now s.count)

/-- the generated code equals the law on every int64 triple (no hypothesis on i ≤ m is even needed) -/
theorem backoff_law (n i m : Int64) :
    (Gen.C08.backoffDelay n i m).toInt = specDelay n.toInt i.toInt m.toInt := by
  rw [backoff_refines]
  exact backoff_eq_spec _ _ _ m.toInt_lt

theorem delay_bounds (n i m : Int64) (h : 0 < i.toInt ∧ i.toInt ≤ m.toInt) :
    0 ≤ (Gen.C08.backoffDelay n i m).toInt ∧ (Gen.C08.backoffDelay n i m).toInt ≤ m.toInt := by
  rw [backoff_refines]; exact backoff_bounds _ _ _ h

theorem delay_mono (n₁ n₂ i m : Int64) (h : 0 < i.toInt ∧ i.toInt ≤ m.toInt) (hn : n₁ ≤ n₂) :
    Gen.C08.backoffDelay n₁ i m ≤ Gen.C08.backoffDelay n₂ i m := by
  rw [Int64.le_iff_toInt_le] at hn ⊢
  rw [backoff_refines, backoff_refines]; exact backoff_mono _ _ _ _ h hn

theorem delay_disabled (n i m : Int64) (h : i.toInt ≤ 0) : Gen.C08.backoffDelay n i m = 0 := by
  apply Int64.toInt_inj.mp
  rw [backoff_refines, backoff_disabled _ _ _ h]; rfl

theorem C08_holds : C08_full :=
  ⟨fun n i m _ => backoff_law n i m, fun w now s => (recordFault_spec w now s).1⟩

/-- the consequences the English statement lists, spelled out -/
theorem C08_consequences :
    (∀ n i m : Int64, Configured i.toInt m.toInt →
        0 ≤ (Gen.C08.backoffDelay n i m).toInt ∧ (Gen.C08.backoffDelay n i m).toInt ≤ m.toInt)
    ∧ (∀ n₁ n₂ i m : Int64, Configured i.toInt m.toInt → n₁ ≤ n₂ →
        Gen.C08.backoffDelay n₁ i m ≤ Gen.C08.backoffDelay n₂ i m)
    ∧ (∀ n i m : Int64, i.toInt ≤ 0 → Gen.C08.backoffDelay n i m = 0) := by
  refine ⟨?_, ?_, delay_disabled⟩
  · intro n i m hcfg
    rcases hcfg with ⟨hi, hm⟩ | h
    · rw [delay_disabled n i m (by omega)]
      have : (0 : Int64).toInt = 0 := rfl
      omega
    · exact delay_bounds n i m h
  · intro n₁ n₂ i m hcfg hn
    rcases hcfg with ⟨hi, _⟩ | h
    · rw [delay_disabled n₁ i m (by omega), delay_disabled n₂ i m (by omega)]
      exact Int64.le_refl _
    · exact delay_mono n₁ n₂ i m h hn

/-! ### recordFault and the budget test, regenerated from pid.go -/

theorem add_one_toInt (a : Int64) (h : a.toInt < 2 ^ 63 - 1) : (a + 1).toInt = a.toInt + 1 := by
  have hb := a.le_toInt
  rw [Int64.toInt_add]
  have : (1 : Int64).toInt = 1 := rfl
  rw [this]
  apply Int.bmod_eq_of_le <;> omega

theorem sub_toInt (a b : Int64) (ha : 0 ≤ a.toInt) (hb : 0 < b.toInt) : (a - b).toInt = a.toInt - b.toInt := by
  have h1 := a.toInt_lt
  have h2 := b.toInt_lt
  rw [Int64.toInt_sub]
  apply Int.bmod_eq_of_le <;> omega

/-- the Int64 definition of recordFault regenerated from pid.go equals the Int model, for every window,
    every non-negative clock reading, every stored stamp and every counter value below MaxInt64 -/
theorem recordFault_refines (window clock lastAt faults : Int64)
    (hclock : 0 ≤ clock.toInt) (hf : faults.toInt < 2 ^ 63 - 1) :
    (Gen.C08.recordFault window clock lastAt faults).1.toInt
        = (recordFault window.toInt clock.toInt ⟨faults.toInt, lastAt.toInt⟩).1
    ∧ (Gen.C08.recordFault window clock lastAt faults).2.1.toInt
        = (recordFault window.toInt clock.toInt ⟨faults.toInt, lastAt.toInt⟩).2.last
    ∧ (Gen.C08.recordFault window clock lastAt faults).2.2.toInt
        = (recordFault window.toInt clock.toInt ⟨faults.toInt, lastAt.toInt⟩).2.count := by
  have e0 : (0 : Int64).toInt = 0 := rfl
  have z1 : ((0 : Int64) + 1).toInt = 0 + 1 := add_one_toInt 0 (by rw [e0]; decide)
  unfold Gen.C08.recordFault recordFault
  simp only [Bool.and_eq_true, decide_eq_true_eq, gt_iff_lt, Int64.lt_iff_toInt_lt, e0]
  by_cases hl : 0 < lastAt.toInt
  · rw [sub_toInt clock lastAt hclock hl]
    by_cases hc : (0 < window.toInt ∧ 0 < lastAt.toInt) ∧ window.toInt < clock.toInt - lastAt.toInt
    · have hc' : window.toInt > 0 ∧ lastAt.toInt > 0 ∧ clock.toInt - lastAt.toInt > window.toInt :=
        ⟨hc.1.1, hc.1.2, hc.2⟩
      rw [if_pos hc, if_pos hc']
      exact ⟨z1, rfl, z1⟩
    · have hc' : ¬ (window.toInt > 0 ∧ lastAt.toInt > 0 ∧ clock.toInt - lastAt.toInt > window.toInt) :=
        fun h => hc ⟨⟨h.1, h.2.1⟩, h.2.2⟩
      rw [if_neg hc, if_neg hc']
      exact ⟨add_one_toInt faults hf, rfl, add_one_toInt faults hf⟩
  · have hc : ¬ ((0 < window.toInt ∧ 0 < lastAt.toInt) ∧ window.toInt < (clock - lastAt).toInt) :=
      fun h => hl h.1.2
    have hc' : ¬ (window.toInt > 0 ∧ lastAt.toInt > 0 ∧ clock.toInt - lastAt.toInt > window.toInt) :=
      fun h => hl h.2.1
    rw [if_neg hc, if_neg hc']
    exact ⟨add_one_toInt faults hf, rfl, add_one_toInt faults hf⟩

/-- the restart budget test of handleRestartDirective, regenerated: maxRetries > 0 ∧ window > 0 ∧ faults > maxRetries -/
theorem budgetExceeded_spec (mr : UInt32) (faults window : Int64) :
    Gen.C08.budgetExceeded mr faults window
      = decide (0 < mr.toNat ∧ 0 < window.toInt ∧ (mr.toNat : Int) < faults.toInt) := by
  unfold Gen.C08.budgetExceeded
  have e0 : (0 : Int64).toInt = 0 := rfl
  have hm : (0 : UInt32) < mr ↔ 0 < mr.toNat := by
    rw [UInt32.lt_iff_toNat_lt]; rfl
  simp only [gt_iff_lt, Int64.lt_iff_toInt_lt, e0, GoaktVerif.FixedWidth.uint32_toUInt64_toInt64_toInt, hm]
  by_cases a : 0 < mr.toNat <;> by_cases b : 0 < window.toInt <;> by_cases c : (mr.toNat : Int) < faults.toInt <;> simp [a, b, c]

/-! ### non-vacuity -/
example : Configured (100000000 : Int64).toInt (30000000000 : Int64).toInt := by right; decide
example : (Gen.C08.backoffDelay 63 1 9223372036854775807).toInt = 4611686018427387904 := by decide  -- the former C08-F1 corner
example : (Gen.C08.backoffDelay 3 100000000 30000000000).toInt = 400000000 := by decide
example : (Gen.C08.backoffDelay 30 1099511627777 2199023255552).toInt = 2199023255552 := by decide  -- the old wrap witness now saturates
example : (recordFaults 10 [100, 105, 110, 125, 126] ⟨0, 0⟩) = [1, 2, 3, 1, 2] := by decide

-- recordFault_refines is not vacuous: a reset exactly one nanosecond past the window, none at the boundary
example : (Gen.C08.recordFault 10 111 100 7).1 = 1 := by decide
example : (Gen.C08.recordFault 10 110 100 7).1 = 8 := by decide
example : Gen.C08.budgetExceeded 3 4 1000 = true ∧ Gen.C08.budgetExceeded 3 3 1000 = false ∧ Gen.C08.budgetExceeded 3 9 0 = false := by decide

end GoaktVerif.C08

/-
C06 — Lifecycle hooks are ordered and never overlap message handling.

"For each actor incarnation, PreStart completes before the first Receive, PostStop runs at most
 once, no Receive starts after PostStop has started, and PostStop never runs on one goroutine while
 Receive runs on another. This holds for every way an actor is stopped: PoisonPill, Stop/Kill from
 outside, parent stop, supervisor stop, passivation and restart."

Quantifier: all interleavings of message traffic with each stop path, including stop requests
issued from other actors' turns and from external goroutines.

Model: `Model/C06.lean` (pid.go Shutdown/doStop/reset, tryPassivation, restartSubtree, Tell/doReceive,
runTurn/dispatchOne/handleReceived over an abstract dispatch turn).  Spec: `Spec/C06.lean`
(`monOf`: the four clauses as a monitor over the hook-event history; the very same monitor judges
the histories recorded from the real actor system).

Result: the full statement is FALSE of the current code (`C06_refuted`; witnesses for clauses 4 and 3; clause 1 only through a stale Tell):
Shutdown / tryPassivation take stopLocker and run PostStop on the caller's goroutine without
looking at the dispatch state.  (restartSubtree now waits for Idle: fix 4b1d5a5.)  What is TRUE for every
schedule: the PoisonPill path (`C06_pill_path`), and every execution in which the actor's turn,
external stop critical sections and restart windows do not overlap in time (`C06_partial`).
-/
import GoaktVerif.Lemmas.C06.Step

namespace GoaktVerif.C06
open GoaktVerif.Model.C06 GoaktVerif.Spec.C06

/-! ### the ghost monitor is the monitor of the ghost log -/

/-- for every program and every schedule the model's `mon` field is `monOf` of its event log, so
    every statement below about `.mon` is a statement about the recorded history -/
theorem C06_mon_is_log (budget : Nat) (prog : Nat → TPC) (s : List Nat) :
    (run (init budget prog) s).mon = monOf (run (init budget prog) s).log :=
  run_mon _ s rfl

/-! ### the full statement and its refutation -/

/-- The property at full strength: for every dispatcher budget, every pool of threads (any number
    of senders, PoisonPill senders, external stoppers of every kind, passivation attempts and
    restarts, each starting at its first instruction) and every schedule of any length, the
    history of hook events satisfies the four clauses. -/
def C06_full : Prop :=
  ∀ (budget : Nat) (prog : Nat → TPC), (∀ i, (prog i).initial = true) →
    ∀ s : List Nat, (monOf (run (init budget prog) s).log).ok = true

def progOf (l : List TPC) : Nat → TPC := fun i => l.getD i .done

theorem progOf_initial (l : List TPC) (h : l.all TPC.initial = true) : ∀ i, (progOf l i).initial = true := by
  intro i
  simp only [progOf, List.getD_eq_getElem?_getD]
  cases hi : l[i]? with
  | none => rfl
  | some t =>
    simp only [Option.getD_some]
    exact (List.all_eq_true.mp h) t (List.mem_of_getElem? hi)

/-- clause 4 witness — a Tell, then `Kill` from another goroutine while the handler is inside
    Receive: worker handles PostStart (0,0,0,0), sender checks and enqueues (1,1), worker takes the
    actor and enters Receive (0,0), the killer runs pre-check, Lock, running-test, PostStop (2,2,2,2). -/
def witnessOverlap : List Nat := [0, 0, 0, 0, 1, 1, 0, 0, 2, 2, 2, 2]

theorem C06_overlap_external :
    (monOf (run (init 32 (progOf [.tCheck false, .xPre .kill])) witnessOverlap).log).c4 = false := by decide

/-- clause 3 witness — two messages queued; the killer starts PostStop while the worker is between
    the two messages of its turn; the behaviour stack is only cleared by reset() AFTER PostStop, so the
    worker starts the second Receive after PostStop has started. -/
def witnessRecvAfterStop : List Nat := [0, 0, 0, 0, 1, 1, 2, 2, 0, 0, 0, 3, 3, 3, 3, 0]

theorem C06_recv_after_poststop_external :
    (monOf (run (init 32 (progOf [.tCheck false, .tCheck false, .xPre .kill])) witnessRecvAfterStop).log).c3 = false := by
  decide

/-- regression for fix 6f92e10 (finding C06-F2, fixed): the passivation manager has popped the
    actor's entry, `Kill` runs to completion, the late tryPassivation now tests `running` under the
    lock and gives up: PostStop ran once. -/
def scheduleLatePassivation : List Nat := [1, 1, 1, 1, 1, 1, 1, 2, 2, 2, 2]

theorem C06_late_passivation_once :
    (monOf (run (init 32 (progOf [.xPre .kill, .pCheck])) scheduleLatePassivation).log).c2 = true
    ∧ ((run (init 32 (progOf [.xPre .kill, .pCheck])) scheduleLatePassivation).threads 1 = .done) := by decide

/-- `C06_restart_enters_window_only_idle` (fix 4b1d5a5, finding C06-F3 fixed): in EVERY
    configuration, a restart leaves its spin loop — and only then re-installs the behaviour and runs
    PreStart — only when the dispatch state is Idle: no worker owns the actor AND it is not sitting
    on the ready queue with a backlog. -/
theorem C06_restart_enters_window_only_idle (c : Cfg) (i : Nat) (hpc : c.threads i = .rSpin)
    (hmove : (tStep c i).threads i ≠ .rSpin) : c.sched = .idle ∧ (tStep c i).win = some i := by
  by_cases hs : c.sched = .idle
  · exact ⟨hs, by simp [tStep, hpc, hs, setT]⟩
  · exact absurd (by simp [tStep, hpc, hs]) hmove

/-- regression for C06-F3 on its former witness schedule (Restart of a Scheduled actor with a
    backlog): the restart now stays in its spin loop, the worker drains the backlog with the
    behaviour stack empty (no Receive), and only then PreStart begins; clause 1 holds on this run. -/
def scheduleRestartScheduled : List Nat := [1, 1, 1, 1, 1, 1, 1, 1, 1, 1, 1, 0, 0, 0, 1, 1, 1, 1]

theorem C06_restart_of_scheduled_actor_waits :
    (run (init 32 (progOf [.rCheck])) (scheduleRestartScheduled.take 11)).threads 0 = .rSpin
    ∧ (monOf (run (init 32 (progOf [.rCheck])) scheduleRestartScheduled).log).ok = true
    ∧ (run (init 32 (progOf [.rCheck])) scheduleRestartScheduled).threads 0 = .rFin := by decide

/-- what is left of clause 1 in the model: Tell's flag test and its enqueue are two steps, so a send
    that passed the test before the stop can still enqueue after restart's PreStart has begun, and
    the worker then runs Receive inside PreStart.  (Model-level witness only: it cannot be replayed
    with gates — it needs a Tell paused between its test and its enqueue — and is not a recorded finding.) -/
def witnessStaleTell : List Nat := [0, 0, 0, 0, 1, 2, 2, 2, 2, 2, 2, 2, 2, 2, 2, 2, 1, 0, 0]

theorem C06_prestart_overlap_stale_tell :
    (monOf (run (init 32 (progOf [.tCheck false, .rCheck])) witnessStaleTell).log).c1 = false := by decide

theorem C06_refuted : ¬ C06_full := by
  intro h
  have h1 := h 32 (progOf [.tCheck false, .xPre .kill]) (progOf_initial _ (by decide)) witnessOverlap
  have h2 := C06_overlap_external
  simp only [Mon.ok, Bool.and_eq_true] at h1
  rw [h1.2] at h2
  exact absurd h2 (by decide)

/-! ### what holds -/

/-- `C06_partial`: the four clauses hold on every history of every execution — any budget, any
    pool of threads, any length — whose schedule satisfies `okStep` at every step, i.e. in which
    (a) an external thread (Kill, PID.Stop, parent, supervisor, another actor's turn, passivation
        manager, restart) acquires stopLocker only while no turn of the actor is in progress and no
        restart window is open, and no turn starts while such a thread holds the lock or a restart
        window is open  ("external stop of an actor with no turn in progress");
    (b) restart leaves its spin loop only while the lock is free and no other restart window is open.
    The guard excludes exactly the interleavings of the three witnesses above. -/
theorem C06_partial (budget : Nat) (prog : Nat → TPC) (hp : ∀ i, (prog i).initial = true)
    (s : List Nat) (hg : guarded (init budget prog) s = true) :
    (monOf (run (init budget prog) s).log).ok = true := by
  have hI := inv_run _ s (inv_init budget prog hp) hg
  rw [← C06_mon_is_log]
  simp [Mon.ok, hI.ok1, hI.ok2, hI.ok3, hI.ok4]

/-- non-vacuity of the guard: an external Kill of an idle actor, then a restart, then a message and
    a PoisonPill, is a guarded schedule that runs PostStop twice (two incarnations) and Receive in
    both incarnations. -/
example :
    guarded (init 32 (progOf [.xPre .kill, .rCheck, .tCheck false, .tCheck true]))
      [0, 0, 0, 0, 1, 1, 1, 1, 1, 1, 1, 2, 2, 2, 2, 2, 2, 0, 0, 0, 0, 3, 3, 4, 4, 0, 0, 0, 0, 0, 0, 0, 0, 0, 0] = true
    ∧ ((run (init 32 (progOf [.xPre .kill, .rCheck, .tCheck false, .tCheck true]))
      [0, 0, 0, 0, 1, 1, 1, 1, 1, 1, 1, 2, 2, 2, 2, 2, 2, 0, 0, 0, 0, 3, 3, 4, 4, 0, 0, 0, 0, 0, 0, 0, 0, 0, 0]).log.filter
        (fun e => match e with | .postB _ _ => true | _ => false)).length = 2 := by decide

/-! ### the PoisonPill path: every schedule -/

/-- invariant of sender-only pools: nobody but the worker ever touches stopLocker, no window -/
structure SInv (c : Cfg) : Prop where
  snd : ∀ i, (c.threads i).isSender = true
  win : c.win = none
  lock : ∀ h, c.locker = some h → ∃ b, c.w = .sdIn b

theorem sinv_step (c : Cfg) (a : Nat) (hS : SInv c) : SInv (step c a) := by
  obtain ⟨snd, win, lock⟩ := hS
  cases a with
  | zero =>
    simp only [step, wStep]
    cases hl : c.locker with
    | none =>
      split <;> (try split) <;> (try split) <;> (try split) <;>
        (constructor <;> simp_all [emit, acquire])
    | some h =>
      obtain ⟨b, hb⟩ := lock h hl
      simp only [hb]
      split
      · obtain ⟨id, v, pc⟩ := h
        cases pc <;> simp only [csReturns, csStep] <;>
          (try split) <;> (try split) <;> (try split) <;> (constructor <;> simp_all [emit, resetFlags])
      · exact ⟨snd, win, lock⟩
  | succ k =>
    simp only [step, tStep]
    have hk := snd k
    cases hpc : c.threads k <;> simp_all [TPC.isSender]
    · exact ⟨snd, win, lock⟩
    · split <;> (constructor <;> (try intro j) <;> (try (by_cases hj : j = k)) <;> simp_all [setT, TPC.isSender])
    · rename_i p
      cases p <;> (constructor <;> (try intro j) <;> (try (by_cases hj : j = k)) <;> simp_all [setT, TPC.isSender])

theorem sinv_guarded (c : Cfg) (s : List Nat) (hS : SInv c) : guarded c s = true := by
  induction s generalizing c with
  | nil => rfl
  | cons a s ih =>
    simp only [guarded, Bool.and_eq_true]
    refine ⟨?_, ih _ (sinv_step c a hS)⟩
    obtain ⟨snd, win, lock⟩ := hS
    cases a with
    | zero =>
      simp only [okStep]
      cases hw : c.w <;> simp_all
      cases hl : c.locker with
      | none => rfl
      | some h => obtain ⟨b, hb⟩ := lock h hl
    | succ k =>
      simp only [okStep]
      have hk := snd k
      cases hpc : c.threads k <;> simp_all [TPC.isSender]

/-- `C06_pill_path`: when the only way the actor is stopped is the PoisonPill (any number of
    senders of messages and of PoisonPills, any schedule, any budget), all four clauses hold:
    dispatchOne runs Shutdown — hence PostStop — inside the actor's own turn. -/
theorem C06_pill_path (budget : Nat) (prog : Nat → TPC) (hp : ∀ i, (prog i).isSender = true ∧ (prog i).initial = true)
    (s : List Nat) : (monOf (run (init budget prog) s).log).ok = true := by
  refine C06_partial budget prog (fun i => (hp i).2) s (sinv_guarded _ s ?_)
  exact ⟨fun i => (hp i).1, rfl, by simp [init]⟩

/-- non-vacuity: a message, a PoisonPill and a late message; PostStop runs once, in the turn, and
    the late message is rejected or dropped. -/
example :
    ((run (init 32 (progOf [.tCheck false, .tCheck true, .tCheck false]))
      [0, 0, 0, 0, 1, 1, 2, 2, 0, 0, 0, 0, 0, 0, 0, 0, 0, 0, 3, 3, 0, 0]).log.filter
        (fun e => match e with | .postB _ _ => true | _ => false)) = [.postB 0 .pill] := by decide

end GoaktVerif.C06

/-
C46 — "Merge delivers the union of its sources with each source's order preserved, Concat delivers sources
one after another, Broadcast gives every element to every branch, Balance gives each element to exactly one
branch, Partition routes each element to the branch its function selects, and Zip pairs elements positionally."

Model: Model/C46 (the junction actors as state machines).  Spec: Spec/C46 (`Interleave`, checkers).
Each clause is stated for EVERY sequence of messages the junction actor can be handed after its stageWire
(any demand pattern, any arrival order of sub-values, completion at any time).
-/
import GoaktVerif.Model.C46
import GoaktVerif.Spec.C46
import GoaktVerif.Lemmas.C46.Interleave
import GoaktVerif.Lemmas.C46.FanIn
import GoaktVerif.Lemmas.C46.Hub
import GoaktVerif.Lemmas.C46.HubCancel
import GoaktVerif.Lemmas.C46.Zip
import GoaktVerif.Props.C45

namespace GoaktVerif.C46
open GoaktVerif.Model.C45 (Val Down)
open GoaktVerif.Model.C46 GoaktVerif.Spec.C46

/-! ### run-level invariants of the hubs -/

theorem bcRun_inv (n : Nat) (s : HubSt) (t : HTrace) (evs : List HEv) (h : BcInv n s t) (hc : noCancel evs) :
    BcInv n (hubRun .broadcast (s, t) evs).1 (hubRun .broadcast (s, t) evs).2 := by
  induction evs generalizing s t with
  | nil => exact h
  | cons ev evs ih =>
    have hc' : noCancel evs := fun e he => hc e (by simp [he])
    simp only [hubRun]
    by_cases ha : s.alive = true
    · simp only [ha, if_true]; exact ih _ _ (h.step ev (hc ev (by simp))) hc'
    · simp only [ha]; exact ih _ _ h hc'

def intsOnly (evs : List HEv) : Prop := ∀ ev ∈ evs, ∀ v, ev = .elem v → ∃ x, v = Val.int x

theorem ptRun_inv (n m : Nat) (s : HubSt) (t : HTrace) (evs : List HEv) (h : PtInv n m s t)
    (hc : noCancel evs) (hi : intsOnly evs) :
    PtInv n m (hubRun (.partition m) (s, t) evs).1 (hubRun (.partition m) (s, t) evs).2 := by
  induction evs generalizing s t with
  | nil => exact h
  | cons ev evs ih =>
    have hc' : noCancel evs := fun e he => hc e (by simp [he])
    have hi' : intsOnly evs := fun e he => hi e (by simp [he])
    simp only [hubRun]
    by_cases ha : s.alive = true
    · simp only [ha, if_true]; exact ih _ _ (h.step ev (hc ev (by simp)) (hi ev (by simp))) hc' hi'
    · simp only [ha]; exact ih _ _ h hc' hi'

theorem blRun_inv (n : Nat) (s : HubSt) (t : HTrace) (evs : List HEv) (h : BlInv n s t) :
    BlInv n (hubRun .balance (s, t) evs).1 (hubRun .balance (s, t) evs).2 := by
  induction evs generalizing s t with
  | nil => exact h
  | cons ev evs ih =>
    simp only [hubRun]
    by_cases ha : s.alive = true
    · simp only [ha, if_true]; exact ih _ _ (h.step ha ev)
    · simp only [ha]; exact ih _ _ h

/-- the hub after its construction by `newShared…` (all slots registered, no demand yet) -/
def hubInit (n : Nat) : HubSt × HTrace := (HubSt.init n, {})

theorem allLive_init (n : Nat) : AllLive (HubSt.init n) := rfl

/-! ### the clauses -/

/-- BROADCAST: every branch is sent every element the hub handles, in order -/
def BroadcastClause : Prop :=
  ∀ (n : Nat) (evs : List HEv), noCancel evs →
    ∀ i, i < n → proj (hubRun .broadcast (hubInit n) evs).2.sent i = (hubRun .broadcast (hubInit n) evs).2.ins

theorem broadcast_correct : BroadcastClause := by
  intro n evs hc i hi
  exact (bcRun_inv n _ _ evs ⟨allLive_init n, rfl, fun _ _ => rfl⟩ hc).all i hi

/-- PARTITION (selector x ↦ x mod m): branch i is sent exactly the handled elements whose selector is i -/
def PartitionClause : Prop :=
  ∀ (n m : Nat) (evs : List HEv), noCancel evs → intsOnly evs →
    ∀ i, i < n → proj (hubRun (.partition m) (hubInit n) evs).2.sent i =
      (hubRun (.partition m) (hubInit n) evs).2.ins.filter (fun v => sel m v = i)

theorem partition_correct : PartitionClause := by
  intro n m evs hc hi i hlt
  exact (ptRun_inv n m _ _ evs ⟨allLive_init n, rfl, fun _ hv => by simp [hubInit] at hv, fun _ _ => rfl⟩ hc hi).all i hlt

/-- BALANCE (after fix 61853f2), for every message sequence, slot cancellations included: the elements sent
    so far are, in order, a prefix of the elements handled, each sent to exactly one branch in range; once the hub
    has told the branches streamComplete everything handled has been sent, and the input is then an interleaving of
    the per-branch sequences. -/
def BalanceClause : Prop :=
  ∀ (n : Nat) (evs : List HEv),
    let r := hubRun .balance (hubInit n) evs
    r.2.sent.map (·.2) <+: r.2.ins ∧
    Interleave (projs n r.2.sent) (r.2.sent.map (·.2)) ∧
    (r.2.completed = true → Interleave (projs n r.2.sent) r.2.ins)

theorem balance_correct : BalanceClause := by
  intro n evs
  have h : BlInv n (hubRun .balance (hubInit n) evs).1 (hubRun .balance (hubInit n) evs).2 :=
    blRun_inv n (HubSt.init n) {} evs ⟨rfl, fun _ hp => by simp at hp, rfl, fun _ => rfl, fun _ => rfl⟩
  have hi := interleave_projs n _ h.tags
  refine ⟨by rw [← h.order]; exact List.prefix_append _ _, hi, fun hc => ?_⟩
  have hb := h.done hc
  have ho := h.order
  rw [hb, List.append_nil] at ho
  rw [← ho]; exact hi

/-- BROADCAST with slot cancellation: a branch is sent every element the hub handles while it is live; once it
    has cancelled it keeps a prefix (nothing is sent to it any more) -/
def BroadcastCancelClause : Prop :=
  ∀ (n : Nat) (evs : List HEv),
    let r := hubRun .broadcast (hubInit n) evs
    ∀ i, i < n → (r.1.live.getD i false = true → proj r.2.sent i = r.2.ins) ∧ proj r.2.sent i <+: r.2.ins

theorem broadcast_cancel_correct : BroadcastCancelClause := by
  intro n evs
  have h : BcInvC n (hubRun .broadcast (hubInit n) evs).1 (hubRun .broadcast (hubInit n) evs).2 :=
    bcRunC_inv n (HubSt.init n) {} evs ⟨rfl, fun i _ => ⟨fun _ => rfl, List.prefix_refl _⟩⟩
  exact h.slots

/-- PARTITION with slot cancellation: a live branch has been sent exactly the handled elements it selects; a
    cancelled one a prefix of them -/
def PartitionCancelClause : Prop :=
  ∀ (n m : Nat) (evs : List HEv), intsOnly evs →
    let r := hubRun (.partition m) (hubInit n) evs
    ∀ i, i < n →
      (r.1.live.getD i false = true → proj r.2.sent i = r.2.ins.filter (fun v => sel m v = i)) ∧
      proj r.2.sent i <+: r.2.ins.filter (fun v => sel m v = i)

theorem partition_cancel_correct : PartitionCancelClause := by
  intro n m evs hi
  have h : PtInvC n m (hubRun (.partition m) (hubInit n) evs).1 (hubRun (.partition m) (hubInit n) evs).2 :=
    ptRunC_inv n m (HubSt.init n) {} evs ⟨rfl, fun i _ => ⟨fun _ => rfl, List.prefix_refl _⟩⟩ hi
  exact h.slots

/-- ZIP: see `zip_correct` — positional pairing: the i-th components of the tuples sent, followed by slot i's
    buffer, are slot i's arrivals in order -/
def ZipClause : Prop :=
  ∀ (n : Nat), 0 < n → ∀ (evs : List JEv), zipOK n evs →
    let r := zipRun n (zipInit n) evs
    ∀ i, i < n → r.2.sent.filterMap (tupAt i) ++ r.1.bufs.getD i [] = proj r.2.arr i

/-- MERGE: see `merge_correct` -/
def MergeClause : Prop :=
  ∀ (n : Nat) (evs : List JEv), noWire evs →
    let r := mergeRun (mergeInit n) evs
    r.2.sent <+: r.2.arr ∧
    (r.2.completed = true → r.2.cancelled = false → r.2.sent = r.2.arr) ∧
    ((∀ p ∈ r.2.arr, p.1 < n) → r.2.completed = true → r.2.cancelled = false →
      Interleave (projs n r.2.arr) (r.2.sent.map (·.2)))

/-- CONCAT: see `concat_correct` -/
def ConcatClause : Prop :=
  ∀ (n : Nat) (evs : List JEv), noWire evs →
    let r := concatRun (concatInit n) evs
    r.2.sent <+: r.2.arr ∧ (r.2.completed = true → r.2.cancelled = false → r.2.sent = r.2.arr)

/-- The full property on the junction actors. -/
def C46_full : Prop :=
  MergeClause ∧ ConcatClause ∧ BroadcastClause ∧ BalanceClause ∧ PartitionClause ∧
  BroadcastCancelClause ∧ PartitionCancelClause ∧ ZipClause

theorem C46_holds : C46_full :=
  ⟨fun n evs hw => merge_correct n evs hw, fun n evs hw => concat_correct n evs hw,
   broadcast_correct, balance_correct, partition_correct, broadcast_cancel_correct, partition_cancel_correct,
   fun n hn evs hok => zip_correct n hn evs hok⟩


/-! ### composed: a fan-in junction FED BY SUB-PIPELINES — per-branch order end to end

In the code every sub-source of Merge / Concat / Zip is a whole pipeline materialised with an internal sink that
forwards each element it consumes to the junction actor (`mergeSubValue{slot, v}`), in order. Here slot `i` is fed
by a C45 network `mkNet fusion stages input` under ANY schedule `picks`; `FedBy` is the forwarding link (what slot
`i` has handed to the junction is a prefix of what sub-pipeline `i`'s sink has consumed — per-sender FIFO).
`C45_holds` (each sub-pipeline delivers a prefix of its list semantics, all of it at normal completion) composed
with the junction clauses gives: the elements the junction emits from branch `i` are, in order, a prefix of
`sem stagesᵢ inputᵢ`; a Merge that completes after every sub-pipeline completed emits an interleaving of the
`sem stagesᵢ inputᵢ`. -/

open GoaktVerif.Model.C45 (Stage Pick SinkSt mkNet Net) in
/-- a sub-pipeline feeding one slot, with the schedule it runs under -/
structure SubPipe where
  fusion : Bool
  stages : List Stage
  input : List Val
  picks : List Pick

open GoaktVerif.Model.C45 (SinkSt mkNet) in
def SubPipe.sink? (p : SubPipe) : Option SinkSt := ((mkNet p.fusion p.stages p.input).run p.picks).sink?

/-- the list semantics of the sub-pipeline -/
def SubPipe.ideal (p : SubPipe) : List Val := (GoaktVerif.Spec.C45.sem p.stages p.input).1

/-- typed, ordered sub-pipelines (the class `C45_holds` covers) -/
def SubPipe.ok (p : SubPipe) : Prop :=
  GoaktVerif.C45.orderedPipeline p.stages = true ∧ GoaktVerif.C45.Homog p.input

/-- the forwarding link between the sub-pipelines' internal sinks and the junction -/
def FedBy (subs : List SubPipe) (arr : List Tagged) : Prop :=
  ∀ (i : Nat) (p : SubPipe), subs[i]? = some p → ∃ s, p.sink? = some s ∧ proj arr i <+: s.received

/-- every sub-pipeline has completed normally and everything it delivered has reached the junction -/
def FedDone (subs : List SubPipe) (arr : List Tagged) : Prop :=
  ∀ (i : Nat) (p : SubPipe), subs[i]? = some p →
    ∃ s, p.sink? = some s ∧ s.alive = false ∧ s.termErr = none ∧ proj arr i = s.received

theorem proj_prefix {α : Type} {l1 l2 : List (Nat × α)} (h : l1 <+: l2) (i : Nat) : proj l1 i <+: proj l2 i := by
  obtain ⟨t, rfl⟩ := h
  simp only [proj, List.filter_append, List.map_append]
  exact List.prefix_append _ _

/-- a sub-pipeline's deliveries are a prefix of its list semantics (C45_holds) -/
theorem fed_prefix (subs : List SubPipe) (arr : List Tagged) (hok : ∀ p ∈ subs, p.ok) (hf : FedBy subs arr)
    (i : Nat) (p : SubPipe) (hp : subs[i]? = some p) : proj arr i <+: p.ideal := by
  obtain ⟨s, hs, hpre⟩ := hf i p hp
  obtain ⟨ho, hin⟩ := hok p (List.mem_of_getElem? hp)
  exact hpre.trans (GoaktVerif.C45.C45_holds p.fusion p.stages p.input p.picks s ho hin hs).2.2.1

theorem fed_done (subs : List SubPipe) (arr : List Tagged) (hok : ∀ p ∈ subs, p.ok) (hf : FedDone subs arr)
    (i : Nat) (p : SubPipe) (hp : subs[i]? = some p) : proj arr i = p.ideal := by
  obtain ⟨s, hs, ha, he, heq⟩ := hf i p hp
  obtain ⟨ho, hin⟩ := hok p (List.mem_of_getElem? hp)
  rw [heq]
  exact ((GoaktVerif.C45.C45_holds p.fusion p.stages p.input p.picks s ho hin hs).2.2.2.1 ha he).1

/-- MERGE fed by sub-pipelines, every junction message order, every schedule of every sub-pipeline -/
def MergeComposedClause : Prop :=
  ∀ (subs : List SubPipe) (evs : List JEv), noWire evs → (∀ p ∈ subs, p.ok) →
    let r := mergeRun (mergeInit subs.length) evs
    -- at every moment: branch i's elements in the output are, in order, a prefix of its list semantics
    (FedBy subs r.2.arr → ∀ (i : Nat) (p : SubPipe), subs[i]? = some p → proj r.2.sent i <+: p.ideal) ∧
    -- completion after all sub-pipelines completed: an interleaving of the list semantics of the branches
    (FedDone subs r.2.arr → (∀ p ∈ r.2.arr, p.1 < subs.length) → r.2.completed = true → r.2.cancelled = false →
      Interleave (subs.map SubPipe.ideal) (r.2.sent.map (·.2)))

theorem merge_composed : MergeComposedClause := by
  intro subs evs hw hok
  obtain ⟨h1, _, h3⟩ := merge_correct subs.length evs hw
  refine ⟨fun hf i p hp => (proj_prefix h1 i).trans (fed_prefix subs _ hok hf i p hp), fun hd htags hc hk => ?_⟩
  have hI := h3 htags hc hk
  have heq : projs subs.length (mergeRun (mergeInit subs.length) evs).2.arr = subs.map SubPipe.ideal := by
    apply List.ext_getElem?
    intro i
    by_cases hi : i < subs.length
    · rw [projs_getElem? _ _ i hi]
      have hp : subs[i]? = some subs[i] := List.getElem?_eq_getElem hi
      simp only [List.getElem?_map, hp, Option.map_some]
      rw [fed_done subs _ hok hd i _ hp]
    · have h1 : (projs subs.length (mergeRun (mergeInit subs.length) evs).2.arr)[i]? = none := by
        apply List.getElem?_eq_none; simp [projs]; omega
      have h2 : (subs.map SubPipe.ideal)[i]? = none := by
        apply List.getElem?_eq_none; simp; omega
      rw [h1, h2]
  rw [heq] at hI
  exact hI

/-- CONCAT fed by sub-pipelines: per-branch order end to end -/
def ConcatComposedClause : Prop :=
  ∀ (subs : List SubPipe) (evs : List JEv), noWire evs → (∀ p ∈ subs, p.ok) →
    let r := concatRun (concatInit subs.length) evs
    FedBy subs r.2.arr → ∀ (i : Nat) (p : SubPipe), subs[i]? = some p → proj r.2.sent i <+: p.ideal

theorem concat_composed : ConcatComposedClause := by
  intro subs evs hw hok r hf i p hp
  exact (proj_prefix (concat_correct subs.length evs hw).1 i).trans (fed_prefix subs _ hok hf i p hp)

/-- ZIP fed by sub-pipelines: the i-th components of the tuples sent are, in order, a prefix of branch i's list
    semantics (positional pairing of the list semantics of the branches) -/
def ZipComposedClause : Prop :=
  ∀ (subs : List SubPipe), 0 < subs.length → ∀ (evs : List JEv), zipOK subs.length evs → (∀ p ∈ subs, p.ok) →
    let r := zipRun subs.length (zipInit subs.length) evs
    FedBy subs r.2.arr → ∀ (i : Nat) (p : SubPipe), subs[i]? = some p →
      r.2.sent.filterMap (tupAt i) <+: p.ideal

theorem zip_composed : ZipComposedClause := by
  intro subs hn evs hz hok r hf i p hp
  have hi : i < subs.length := by
    have := List.getElem?_eq_some_iff.mp hp; exact this.1
  have h := zip_correct subs.length hn evs hz i hi
  have hpre : (zipRun subs.length (zipInit subs.length) evs).2.sent.filterMap (tupAt i) <+:
      proj (zipRun subs.length (zipInit subs.length) evs).2.arr i := by
    rw [← h]; exact List.prefix_append _ _
  exact hpre.trans (fed_prefix subs _ hok hf i p hp)

/-- the composed statement for the fan-in junctions -/
theorem C46_composed_holds : MergeComposedClause ∧ ConcatComposedClause ∧ ZipComposedClause :=
  ⟨merge_composed, concat_composed, zip_composed⟩

/-! ### non-vacuity -/

example : noWire [JEv.req 2, .value 0 (.int 1), .value 1 (.int 10), .done 0, .done 1] := by
  intro ev hev h; subst h; simp at hev

example : (mergeRun (mergeInit 2) [JEv.req 2, .value 0 (.int 1), .value 1 (.int 10), .done 0, .done 1]).2.completed = true ∧
    (mergeRun (mergeInit 2) [JEv.req 2, .value 0 (.int 1), .value 1 (.int 10), .done 0, .done 1]).2.sent =
      [(0, .int 1), (1, .int 10)] := by decide

/-- an element that arrives before any demand is kept and delivered when demand arrives (the former finding C46-F1) -/
example : (hubRun .balance (hubInit 2) [.elem (.int 5), .slotDemand 1 1, .elem (.int 6), .complete, .slotDemand 0 3]).2.sent =
      [(1, .int 5), (0, .int 6)] ∧
    (hubRun .balance (hubInit 2) [.elem (.int 5), .slotDemand 1 1, .elem (.int 6), .complete, .slotDemand 0 3]).2.completed = true := by
  decide

/-- Zip: two tuples out of [1,2,3] and [10,20]; the unmatched 3 stays buffered -/
example : (zipRun 2 (zipInit 2) [.req 5, .value 0 (.int 1), .value 0 (.int 2), .value 1 (.int 10), .value 0 (.int 3),
      .value 1 (.int 20)]).2.sent = [.list [1, 10], .list [2, 20]] := by decide

example : SubPipe.ok ⟨true, [.map 1, .opmap 2 1 none "P", .batch 2], [.int 1, .int 2, .int 3], []⟩ :=
  ⟨by decide, Or.inl (by intro v hv; simp at hv; rcases hv with rfl | rfl | rfl <;> rfl)⟩

end GoaktVerif.C46

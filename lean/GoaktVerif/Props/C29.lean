/-
C29 — Per-message context metadata is restored on the receiver.

"For remote tells and asks, the headers a ContextPropagator injects at send time are the headers
 restored for that same message on the receiving node, even when messages from different callers
 share a batch."   (quantifier: all header maps and all batchings of concurrent callers)

Model: Model/C29.lean.  "Header maps" = single-valued maps (one value per key) whose keys stay
distinct under MIME canonicalisation; restored = injected up to `textproto.CanonicalMIMEHeaderKey`
on the keys (`http.Header.Set` on the receiving side).  A batch is an arbitrary list of messages
(any number of callers, any interleaving decides the list; the theorem holds for every list and
every position).  Observations outside the statement: a multi-valued header keeps only its first
value; two keys that differ only in case collapse into one.
-/
import GoaktVerif.Model.C29
import GoaktVerif.Spec.C29

namespace GoaktVerif.C29
open GoaktVerif.Model.C29 GoaktVerif.Spec.C29

def SingleValued (h : Header) : Prop := ∀ e ∈ h, e.2.length = 1
def DistinctCanon (h : Header) : Prop := (h.map fun e => canonKey e.1).Nodup

theorem setKV_fresh (m : Flat) (k v : Str) (h : ∀ e ∈ m, e.1 ≠ k) : setKV m k v = m ++ [(k, v)] := by
  unfold setKV
  have : m.any (·.1 == k) = false := by
    simp only [List.any_eq_false, beq_iff_eq]
    intro e he; exact h e he
  simp [this]

/-- folding `Set` over entries with pairwise distinct (canonical) keys just appends them -/
theorem foldl_set_distinct (f : Str → Str) (md acc : Flat)
    (hnd : (md.map fun e => f e.1).Nodup) (hdis : ∀ e ∈ acc, ∀ e' ∈ md, e.1 ≠ f e'.1) :
    md.foldl (fun a (e : Str × Str) => setKV a (f e.1) e.2) acc = acc ++ md.map (fun e => (f e.1, e.2)) := by
  induction md generalizing acc with
  | nil => simp
  | cons e rest ih =>
    simp only [List.foldl_cons, List.map_cons]
    have hfresh : ∀ x ∈ acc, x.1 ≠ f e.1 := fun x hx => hdis x hx e (List.mem_cons_self)
    rw [setKV_fresh acc (f e.1) e.2 hfresh]
    simp only [List.map_cons, List.nodup_cons] at hnd
    rw [ih (acc ++ [(f e.1, e.2)]) hnd.2]
    · simp
    · intro x hx e' he'
      simp only [List.mem_append, List.mem_singleton] at hx
      rcases hx with hx | hx
      · exact hdis x hx e' (List.mem_cons_of_mem _ he')
      · subst hx
        intro heq
        apply hnd.1
        simp only [List.mem_map]
        exact ⟨e', he', heq.symm⟩

theorem restore_distinct (md : Flat) (h : (md.map fun e => canonKey e.1).Nodup) :
    restore md = md.map fun e => (canonKey e.1, e.2) := by
  have := foldl_set_distinct canonKey md [] h (by intro e he; cases he)
  simpa [restore] using this

theorem overlay_empty_distinct (m : Flat) (h : (m.map (·.1)).Nodup) : overlay [] m = m := by
  have := foldl_set_distinct id m [] (by simpa using h) (by intro e he; cases he)
  simpa [overlay] using this

theorem inject_single (h : Header) (hs : SingleValued h) :
    inject h = h.map fun e => (e.1, e.2.headD []) := by
  induction h with
  | nil => rfl
  | cons e rest ih =>
    have he := hs e List.mem_cons_self
    have hr : SingleValued rest := fun x hx => hs x (List.mem_cons_of_mem _ hx)
    obtain ⟨k, vs⟩ := e
    match vs, he with
    | [v], _ =>
      simp only [inject, List.filterMap_cons, List.head?_cons, Option.map_some, List.map_cons, List.headD_cons]
      have := ih hr
      simp only [inject] at this
      rw [this]

theorem expected_single (h : Header) (hs : SingleValued h) :
    expected h = h.map fun e => (canonKey e.1, e.2.headD []) := by
  induction h with
  | nil => rfl
  | cons e rest ih =>
    have he := hs e List.mem_cons_self
    have hr : SingleValued rest := fun x hx => hs x (List.mem_cons_of_mem _ hx)
    obtain ⟨k, vs⟩ := e
    match vs, he with
    | [v], _ =>
      simp only [expected, List.filterMap_cons, List.head?_cons, Option.map_some, List.map_cons, List.headD_cons]
      have := ih hr
      simp only [expected] at this
      rw [this]

/-- one message: what the receiver's propagator is handed = what the sender's propagator wrote,
    keys canonicalised -/
theorem C29_roundtrip (h : Header) (hs : SingleValued h) (hd : DistinctCanon h) :
    restore (inject h) = expected h := by
  rw [inject_single h hs, expected_single h hs, restore_distinct]
  · simp [List.map_map]
  · simpa [List.map_map, DistinctCanon, Function.comp_def] using hd

/-- THE FULL PROPERTY on the model: for every batch (any list of messages, from any callers, in any
    order), every message of the batch is delivered with exactly its own headers; and a request-level
    exchange (ask) restores its own headers. -/
def C29_full : Prop :=
  (∀ hs : List Header, (∀ h ∈ hs, SingleValued h ∧ DistinctCanon h) → tellPath hs = hs.map expected) ∧
  (∀ h : Header, SingleValued h → DistinctCanon h → askPath h = expected h)

theorem C29_holds : C29_full := by
  refine ⟨?_, fun h hs hd => C29_roundtrip h hs hd⟩
  intro hs hg
  simp only [tellPath, deliverBatch, List.map_map]
  apply List.map_congr_left
  intro h hh
  obtain ⟨h1, h2⟩ := hg h hh
  simp only [Function.comp]
  split
  · rename_i hempty
    -- no headers injected: nothing to restore
    have : inject h = [] := by simpa using hempty
    rw [inject_single h h1] at this
    have hnil : h = [] := by simpa using this
    subst hnil; rfl
  · rw [C29_roundtrip h h1 h2, overlay_empty_distinct]
    rw [expected_single h h1]
    simpa [List.map_map, DistinctCanon, Function.comp_def] using h2

theorem sameMap_refl {α : Type} [BEq α] [LawfulBEq α] (a : List α) : sameMap a a = true := by
  simp [sameMap]

/-- the judge's oracle accepts exactly this: restored and injected headers are the same map -/
theorem C29_oracle (h : Header) (hs : SingleValued h) (hd : DistinctCanon h) :
    sameMap (restore (inject h)) (expected h) = true := by
  rw [C29_roundtrip h hs hd]; exact sameMap_refl _

/-- the `i`-th message of any batch gets the headers of the `i`-th caller -/
theorem C29_per_index (hs : List Header) (hg : ∀ h ∈ hs, SingleValued h ∧ DistinctCanon h) (i : Nat) :
    (tellPath hs)[i]? = hs[i]?.map expected := by
  rw [C29_holds.1 hs hg]; simp

/-- calls of mixed kinds made one after the other on the same client (any sequence): every message is
    restored with exactly its own headers — no key of an earlier call leaks into a later one,
    whatever the key sets are (in particular when they shrink) -/
theorem C29_sequence (steps : List (Bool × Header)) (hg : ∀ st ∈ steps, SingleValued st.2 ∧ DistinctCanon st.2) :
    seqPath steps = steps.map fun st => expected st.2 := by
  simp only [seqPath]
  apply List.map_congr_left
  intro st hst
  obtain ⟨h1, h2⟩ := hg st hst
  obtain ⟨isAsk, h⟩ := st
  cases isAsk
  · have := C29_holds.1 [h] (by intro x hx; simp at hx; subst hx; exact ⟨h1, h2⟩)
    simp [this]
  · simpa using C29_holds.2 h h1 h2

/-- ask with two keys, then a tell with one of them, then a tell with none -/
example :
    seqPath [(true, [("x-trace".toList, ["a".toList]), ("x-tenant".toList, ["acme".toList])]),
             (false, [("x-trace".toList, ["t".toList])]), (false, [])]
      = [[("X-Trace".toList, "a".toList), ("X-Tenant".toList, "acme".toList)], [("X-Trace".toList, "t".toList)], []] := by decide

/-- non-trivial instance of the guards: two callers sharing a batch, non-canonical keys -/
example :
    tellPath [[("x-trace-id".toList, ["a1".toList]), ("Tenant".toList, ["t".toList])], [], [("x-trace-id".toList, ["b2".toList])]]
      = [[("X-Trace-Id".toList, "a1".toList), ("Tenant".toList, "t".toList)], [], [("X-Trace-Id".toList, "b2".toList)]] := by decide

example : SingleValued [("x-trace-id".toList, ["a1".toList]), ("Tenant".toList, ["t".toList])] ∧ DistinctCanon [("x-trace-id".toList, ["a1".toList]), ("Tenant".toList, ["t".toList])] := by
  refine ⟨?_, by unfold DistinctCanon; decide⟩
  intro e he
  simp only [List.mem_cons, List.not_mem_nil, or_false] at he
  rcases he with he | he <;> subst he <;> rfl

/-- OBSERVATIONS outside the statement (tests on instances): only the first value of a
    multi-valued header survives; keys equal up to case collapse (last writer wins);
    a key with a non-token character is passed through unchanged. -/
example : askPath [("K".toList, ["v1".toList, "v2".toList])] = [("K".toList, "v1".toList)] := by decide
example : askPath [("x-a".toList, ["1".toList]), ("X-A".toList, ["2".toList])] = [("X-A".toList, "2".toList)] := by decide
example : canonKey "x-trace-id".toList = "X-Trace-Id".toList ∧ canonKey "my key".toList = "my key".toList ∧ canonKey "ALL-CAPS_x".toList = "All-Caps_x".toList := by decide

end GoaktVerif.C29

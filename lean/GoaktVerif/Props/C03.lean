/-
C03 — Messages from one sender are processed in the order they were sent.

"For every FIFO mailbox type (default unbounded, segmented, bounded, non-blocking bounded and fair),
 messages that one goroutine sends to one actor are processed in send order, also when other senders
 interleave and when BatchTell is used. Messages stashed and later unstashed keep their relative
 arrival order."

What is proved (all histories, any number of producers, any interleaving):
* on the reservation-queue specification `Spec.C03` (the sequential reading of every Vyukov-style
  mailbox: reserve fixes the position, publish makes it visible, deq pops the head iff published):
  the dequeue sequence is a PREFIX of the reservation order; hence if one thread's Enqueue(a) returned
  before it called Enqueue(b), a is dequeued before b (`fifo_happens_before`);
* for the fair mailbox (one reservation queue per sender, the round-robin choice arbitrary): the same
  per sender (`fair_per_sender_prefix`) — the documented spec of that mailbox is per-sender order only;
* the per-sender oracle evaluated on the implementation is sound for that spec (`oracle_sound`);
* BatchTell is a left fold of Tell, i.e. appends the batch in order (`batchTell_eq`);
* Unstash re-enqueues the oldest stashed message, UnstashAll all of them in stash order
  (`unstash_oldest`, `unstashAll_order`), and a stash/unstashAll round trip delivers the stashed
  messages in their arrival order (`stash_roundtrip`).
The implementation side: see design/C03.md (E3 controlled schedules of the real mailboxes judged by the
oracle, gated script differential against `Model.C03`, free-running end-to-end runs, site/call-order facts).
-/
import GoaktVerif.Gen.C03
import GoaktVerif.Model.C03
import GoaktVerif.Spec.C03

namespace GoaktVerif.C03
open GoaktVerif.Spec.C03 GoaktVerif.Model.C03

theorem segmentSize_tie : Gen.C03.segmentSize = 256 := rfl

/-! ### reservation queue: dequeues are a prefix of the reservation order -/

theorem publishCell_msg (m : Msg) (c : Cell) : (publishCell m c).msg = c.msg := by
  unfold publishCell; split
  · rename_i h; rw [h]; rfl
  · rfl

theorem reserves_append (x y : List Ev) : reserves (x ++ y) = reserves x ++ reserves y := by
  induction x with
  | nil => rfl
  | cons e t ih => cases e <;> simp [reserves, ih]

theorem step_inv (s : St) (e : Ev) :
    (step s e).out ++ (step s e).cells.map Cell.msg = s.out ++ s.cells.map Cell.msg ++ reserves [e] := by
  cases e with
  | reserve m => simp [step, reserves, Cell.msg]
  | publish m =>
    simp only [step, reserves, List.append_nil, List.map_map]
    congr 1
    apply List.map_congr_left
    intro c _; exact publishCell_msg m c
  | deq =>
    simp only [step, reserves, List.append_nil]
    split
    · rename_i m rest hc; simp [hc, Cell.msg]
    · rfl

theorem run_inv (h : List Ev) : ∀ s : St,
    (run s h).out ++ (run s h).cells.map Cell.msg = s.out ++ s.cells.map Cell.msg ++ reserves h := by
  induction h with
  | nil => intro s; simp [run, reserves]
  | cons e t ih =>
    intro s
    have := ih (step s e)
    simp only [run, List.foldl_cons] at this ⊢
    rw [this, step_inv, List.append_assoc]
    congr 1
    cases e <;> simp [reserves]

/-- FIFO in reservation order, for every history: what has been dequeued, followed by what is still
queued, is exactly the sequence of reservations -/
theorem deq_then_queue_eq_reserves (h : List Ev) :
    (run St.init h).out ++ (run St.init h).cells.map Cell.msg = reserves h := by
  simpa [St.init] using run_inv h St.init

theorem out_prefix (h : List Ev) : (run St.init h).out <+: reserves h :=
  ⟨_, deq_then_queue_eq_reserves h⟩

/-- `a` occurs before `b` in `l` -/
def Before (a b : Msg) (l : List Msg) : Prop := ∃ p q r, l = p ++ a :: q ++ b :: r

theorem before_of_prefix {a b : Msg} {out l : List Msg} (hp : out <+: l) (hnd : l.Nodup)
    (hab : Before a b l) (hb : b ∈ out) : Before a b out := by
  obtain ⟨rest, e⟩ := hp
  obtain ⟨p, q, r, hl⟩ := hab
  have e2 : out ++ rest = (p ++ a :: q) ++ (b :: r) := by rw [e, hl]
  have hbr : b ∉ rest := by
    intro hbrest
    rw [← e] at hnd
    exact (List.nodup_append.mp hnd).2.2 b hb b hbrest rfl
  rcases List.append_eq_append_iff.mp e2 with ⟨x, h1, h2⟩ | ⟨y, h1, h2⟩
  · exact absurd (by rw [h2]; simp) hbr
  · cases y with
    | nil => exact absurd (by simp at h2; rw [← h2]; simp) hbr
    | cons b' y' =>
      simp at h2
      exact ⟨p, q, y', by rw [h1, h2.1]⟩

/-- C03 on the specification: if `a` is reserved before `b`, then `b` is never dequeued unless `a` was
dequeued before it -/
theorem fifo (h : List Ev) (a b : Msg) (hnd : (reserves h).Nodup) (hab : Before a b (reserves h))
    (hb : b ∈ (run St.init h).out) : Before a b (run St.init h).out :=
  before_of_prefix (out_prefix h) hnd hab hb

/-- the happens-before form: Enqueue(a) RETURNED (its publish event happened, after its reserve) before
Enqueue(b) was CALLED (its reserve event) — under any interleaving with other producers and the consumer -/
theorem fifo_happens_before (h1 h2 h3 : List Ev) (a b : Msg)
    (hres : a ∈ reserves h1)
    (hnd : (reserves (h1 ++ .publish a :: h2 ++ .reserve b :: h3)).Nodup)
    (hb : b ∈ (run St.init (h1 ++ .publish a :: h2 ++ .reserve b :: h3)).out) :
    Before a b (run St.init (h1 ++ .publish a :: h2 ++ .reserve b :: h3)).out := by
  apply fifo _ a b hnd _ hb
  obtain ⟨p, q, hpq⟩ := List.append_of_mem hres
  refine ⟨p, q ++ reserves h2, reserves h3, ?_⟩
  have : h1 ++ Ev.publish a :: h2 ++ Ev.reserve b :: h3 = h1 ++ ([Ev.publish a] ++ h2 ++ ([Ev.reserve b] ++ h3)) := by simp
  rw [this]
  simp only [reserves_append, hpq, reserves, List.append_assoc, List.nil_append, List.cons_append]

/-! ### the oracle is sound for the specification -/

theorem increasing_prefix : ∀ (l l' : List Nat), l' <+: l → increasing l = true → increasing l' = true := by
  intro l
  induction l with
  | nil => intro l' hp _; have := List.prefix_nil.mp hp; subst this; rfl
  | cons a t ih =>
    intro l' hp hinc
    cases l' with
    | nil => rfl
    | cons a' t' =>
      have ha : a' = a := by
        obtain ⟨r, e⟩ := hp; simp at e; exact e.1
      subst ha
      have hp' : t' <+: t := by obtain ⟨r, e⟩ := hp; simp at e; exact ⟨r, e⟩
      cases t with
      | nil => have := List.prefix_nil.mp hp'; subst this; rfl
      | cons b u =>
        simp only [increasing, Bool.and_eq_true, decide_eq_true_eq] at hinc
        cases t' with
        | nil => rfl
        | cons b' u' =>
          have hb : b' = b := by obtain ⟨r, e⟩ := hp'; simp at e; exact e.1
          subst hb
          simp only [increasing, Bool.and_eq_true, decide_eq_true_eq]
          exact ⟨hinc.1, ih (b' :: u') hp' hinc.2⟩

theorem seqsOf_prefix (s : Nat) {l' l : List Msg} (hp : l' <+: l) : seqsOf s l' <+: seqsOf s l := by
  obtain ⟨r, e⟩ := hp
  exact ⟨seqsOf s r, by rw [← e]; simp [seqsOf]⟩

/-- if every sender reserves its messages with increasing sequence numbers (one goroutine sends them one
after the other), the dequeue sequence passes the oracle — so an oracle failure on the implementation
is a genuine departure from the specification -/
theorem oracle_sound (h : List Ev) (hs : ∀ s, increasing (seqsOf s (reserves h)) = true) :
    perSenderOrdered (run St.init h).out = true := by
  unfold perSenderOrdered
  rw [List.all_eq_true]
  intro s _
  exact increasing_prefix _ _ (seqsOf_prefix s (out_prefix h)) (hs s)

/-! ### the fair mailbox: per-sender order -/

theorem freserves_append (x y : List FEv) : freserves (x ++ y) = freserves x ++ freserves y := by
  induction x with
  | nil => rfl
  | cons e t ih => cases e <;> simp [freserves, ih]

/-- invariant of the family of queues: queue `k` only holds messages of sender `k`, and per sender
dequeued ++ queued = reserved -/
structure FInv (s : FSt) (res : List Msg) : Prop where
  own : ∀ k, ∀ c ∈ s.cells k, c.msg.1 = k
  eq : ∀ k, s.out.filter (·.1 = k) ++ (s.cells k).map Cell.msg = res.filter (·.1 = k)

theorem fstep_inv (s : FSt) (res : List Msg) (e : FEv) (h : FInv s res) :
    FInv (fstep s e) (res ++ freserves [e]) := by
  obtain ⟨own, eq⟩ := h
  cases e with
  | reserve m =>
    refine ⟨?_, ?_⟩
    · intro k c hc
      simp only [fstep] at hc
      split at hc
      · rename_i hk
        rcases List.mem_append.mp hc with h1 | h1
        · exact own k c h1
        · simp at h1; rw [h1, hk]; rfl
      · exact own k c hc
    · intro k
      simp only [fstep, freserves, List.filter_append]
      by_cases hk : k = m.1
      · subst hk; simp [eq m.1, Cell.msg, ← List.append_assoc]
      · have : ¬ m.1 = k := fun e => hk e.symm
        simp [hk, this, eq k]
  | publish m =>
    refine ⟨?_, ?_⟩
    · intro k c hc
      simp only [fstep] at hc
      split at hc
      · obtain ⟨c0, hc0, e⟩ := List.mem_map.mp hc
        rw [← e, publishCell_msg]; exact own k c0 hc0
      · exact own k c hc
    · intro k
      simp only [fstep, freserves, List.append_nil]
      split
      · rw [List.map_map]
        have : (s.cells k).map (Cell.msg ∘ publishCell m) = (s.cells k).map Cell.msg :=
          List.map_congr_left (fun c _ => publishCell_msg m c)
        rw [this]; exact eq k
      · exact eq k
  | deq j =>
    simp only [fstep, freserves, List.append_nil]
    split
    · rename_i m rest hc
      have hm : m.1 = j := by
        have := own j (.ready m) (by rw [hc]; exact List.mem_cons_self)
        simpa [Cell.msg] using this
      refine ⟨?_, ?_⟩
      · intro k c hcc
        simp only at hcc
        split at hcc
        · rename_i hk; subst hk; exact own k c (by rw [hc]; exact List.mem_cons_of_mem _ hcc)
        · exact own k c hcc
      · intro k
        simp only [List.filter_append]
        by_cases hk : k = j
        · subst hk
          have := eq k
          rw [hc] at this
          simp [hm, Cell.msg] at this ⊢
          exact this
        · have : ¬ m.1 = k := by rw [hm]; exact fun e => hk e.symm
          simp [hk, this, eq k]
    · exact ⟨own, eq⟩

theorem frun_inv (h : List FEv) : ∀ (s : FSt) (res : List Msg), FInv s res → FInv (frun s h) (res ++ freserves h) := by
  induction h with
  | nil => intro s res hi; simpa [frun, freserves] using hi
  | cons e t ih =>
    intro s res hi
    have := ih (fstep s e) (res ++ freserves [e]) (fstep_inv s res e hi)
    have e2 : res ++ freserves [e] ++ freserves t = res ++ freserves (e :: t) := by
      rw [List.append_assoc, ← freserves_append]; rfl
    rw [e2] at this
    exact this

/-- fair mailbox, every history and every round-robin choice: the messages of sender `k` are dequeued
as a prefix of the order in which `k` reserved them -/
theorem fair_per_sender_prefix (h : List FEv) (k : Nat) :
    seqsOf k (frun FSt.init h).out <+: seqsOf k (freserves h) := by
  have hi : FInv FSt.init [] := ⟨by intro k c hc; simp [FSt.init] at hc, by intro k; simp [FSt.init]⟩
  have := (frun_inv h FSt.init [] hi).eq k
  simp only [List.nil_append] at this
  exact ⟨((frun FSt.init h).cells k).map (fun c => c.msg.2), by
    simp only [seqsOf]; rw [← this]; simp [List.map_map, Function.comp_def]⟩

theorem fair_oracle_sound (h : List FEv) (hs : ∀ s, increasing (seqsOf s (freserves h)) = true) :
    perSenderOrdered (frun FSt.init h).out = true := by
  unfold perSenderOrdered
  rw [List.all_eq_true]
  intro s _
  exact increasing_prefix _ _ (fair_per_sender_prefix h s) (hs s)

/-! ### BatchTell and stash -/

/-- `BatchTell(ms)` = `Tell` for each message in order = append the batch in order -/
theorem batchTell_eq (mb ms : List Item) : batchTell mb ms = mb ++ ms := by
  induction ms generalizing mb with
  | nil => simp [batchTell]
  | cons m t ih =>
    have := ih (tell mb m)
    simp only [batchTell, List.foldl_cons] at this ⊢
    rw [this]; simp [tell]

/-- UnstashAll re-enqueues the whole stash buffer in stash (= arrival) order, behind what is already queued -/
theorem unstashAll_order (rest : List Item) (st handled : List Nat) (b : Bool) :
    deliver { mailbox := .unstashAll :: rest, stash := st, stashing := b, handled := handled } =
      { mailbox := rest ++ st.map .msg, stash := [], stashing := false, handled := handled } := rfl

/-- Unstash re-enqueues the OLDEST stashed message and leaves the others -/
theorem unstash_oldest (rest : List Item) (x : Nat) (st handled : List Nat) (b : Bool) :
    deliver { mailbox := .unstashOne :: rest, stash := x :: st, stashing := b, handled := handled } =
      { mailbox := rest ++ [.msg x], stash := st, stashing := false, handled := handled } := rfl

theorem deliverN_add (m n : Nat) (a : A) : deliverN (m + n) a = deliverN n (deliverN m a) := by
  induction m generalizing a with
  | zero => simp [deliverN]
  | succ m ih => rw [Nat.succ_add]; simp only [deliverN]; exact ih (deliver a)

theorem deliverN_handle (ms : List Nat) : ∀ (rest : List Item) (st handled : List Nat),
    deliverN ms.length { mailbox := ms.map .msg ++ rest, stash := st, stashing := false, handled := handled } =
      { mailbox := rest, stash := st, stashing := false, handled := handled ++ ms } := by
  induction ms with
  | nil => intro rest st handled; simp [deliverN]
  | cons m t ih =>
    intro rest st handled
    simp only [List.length_cons, deliverN, List.map_cons, List.cons_append, deliver]
    simp only [Bool.false_eq_true, if_false]
    rw [ih]; simp

theorem deliverN_stash (ms : List Nat) : ∀ (rest : List Item) (st handled : List Nat),
    deliverN ms.length { mailbox := ms.map .msg ++ rest, stash := st, stashing := true, handled := handled } =
      { mailbox := rest, stash := st ++ ms, stashing := true, handled := handled } := by
  induction ms with
  | nil => intro rest st handled; simp [deliverN]
  | cons m t ih =>
    intro rest st handled
    simp only [List.length_cons, deliverN, List.map_cons, List.cons_append, deliver, if_true]
    rw [ih]; simp

/-- a full round trip: `pre` handled, then stashing starts, `ms` are stashed, UnstashAll, while `post` is
already queued: the stashed messages come out in their arrival order (after `post`) -/
theorem stash_roundtrip (pre ms post : List Nat) :
    (deliverN (pre.length + 1 + ms.length + 1 + post.length + ms.length)
      { mailbox := pre.map .msg ++ (.stashOn :: (ms.map .msg ++ (.unstashAll :: post.map .msg))),
        stash := [], stashing := false, handled := [] }).handled = pre ++ post ++ ms := by
  have s1 := deliverN_handle pre (.stashOn :: (ms.map .msg ++ (.unstashAll :: post.map .msg))) [] []
  have t2 : deliverN 1 (A.mk (Item.stashOn :: (ms.map Item.msg ++ (Item.unstashAll :: post.map Item.msg))) [] false ([] ++ pre)) =
      A.mk (ms.map Item.msg ++ (Item.unstashAll :: post.map Item.msg)) [] true ([] ++ pre) := rfl
  have s3 := deliverN_stash ms (.unstashAll :: post.map .msg) [] ([] ++ pre)
  have t4 : deliverN 1 (A.mk (Item.unstashAll :: post.map Item.msg) ([] ++ ms) true ([] ++ pre)) =
      A.mk (post.map Item.msg ++ ([] ++ ms).map Item.msg) [] false ([] ++ pre) := rfl
  have s5 := deliverN_handle post (([] ++ ms).map Item.msg) [] ([] ++ pre)
  have s6 := deliverN_handle ms [] [] ([] ++ pre ++ post)
  simp only [List.append_nil, List.nil_append] at s6 s5 t4 s3 t2 s1
  simp only [deliverN_add]
  rw [s1, t2, s3, t4, s5, s6]

/-! ### the property -/

def C03_full : Prop :=
  -- FIFO mailboxes (reservation queues): happens-before order is kept under every interleaving
  (∀ (h1 h2 h3 : List Ev) (a b : Msg), a ∈ reserves h1 →
     (reserves (h1 ++ .publish a :: h2 ++ .reserve b :: h3)).Nodup →
     b ∈ (run St.init (h1 ++ .publish a :: h2 ++ .reserve b :: h3)).out →
     Before a b (run St.init (h1 ++ .publish a :: h2 ++ .reserve b :: h3)).out) ∧
  (∀ h : List Ev, (run St.init h).out <+: reserves h) ∧
  -- fair mailbox: per sender
  (∀ (h : List FEv) (k : Nat), seqsOf k (frun FSt.init h).out <+: seqsOf k (freserves h)) ∧
  -- BatchTell is Tell in order
  (∀ mb ms : List Item, batchTell mb ms = mb ++ ms) ∧
  -- stash keeps arrival order
  (∀ pre ms post : List Nat,
    (deliverN (pre.length + 1 + ms.length + 1 + post.length + ms.length)
      { mailbox := pre.map .msg ++ (.stashOn :: (ms.map .msg ++ (.unstashAll :: post.map .msg))),
        stash := [], stashing := false, handled := [] }).handled = pre ++ post ++ ms)

theorem C03_holds : C03_full :=
  ⟨fifo_happens_before, out_prefix, fair_per_sender_prefix, batchTell_eq, stash_roundtrip⟩

/-! ### non-vacuity -/

/-- two producers interleaved with the consumer: sender 1 sends 0 then 1 (second Enqueue called after
the first returned), sender 2 reserves in between and publishes late; the hypotheses of
`fifo_happens_before` hold and both messages of sender 1 are dequeued -/
example :
    let h1 : List Ev := [.reserve (1, 0), .reserve (2, 0)]
    let h2 : List Ev := [.deq]
    let h3 : List Ev := [.publish (2, 0), .publish (1, 1), .deq, .deq]
    (1, 0) ∈ reserves h1 ∧ (reserves (h1 ++ .publish (1, 0) :: h2 ++ .reserve (1, 1) :: h3)).Nodup ∧
    (1, 1) ∈ (run St.init (h1 ++ .publish (1, 0) :: h2 ++ .reserve (1, 1) :: h3)).out := by decide

example : increasing (seqsOf 1 (reserves [.reserve (1, 0), .reserve (2, 5), .reserve (1, 1)])) = true := by decide

end GoaktVerif.C03

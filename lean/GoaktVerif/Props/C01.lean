/-
C01 — An actor's message handler never runs concurrently with itself.

"For every local actor and grain, no two invocations of its message handler (Receive, the active
 behavior, or OnReceive) are in progress at the same time on different goroutines, and at most one
 dispatcher worker runs the actor's turn at any instant. This holds whatever the mailbox type, the
 number of concurrent senders, and interleaved restarts, reinstatements, passivation and reentrant
 requests."

Model: `Model/C01.lean` (the Idle/Scheduled/Processing CAS machine with senders, workers and a
restart thread, any number of each, arbitrary programs).  Theorems quantify over EVERY schedule of
every length.  Tie: the same model is replayed step by step against the real, instrumented code
(engine E3, tools/props/c01.py).
-/
import GoaktVerif.Lemmas.C01

set_option linter.unusedSimpArgs false

namespace GoaktVerif.C01
open GoaktVerif.Model.C01 GoaktVerif.Lemmas.C01

def ind (p : Prop) [Decidable p] : Nat := if p then 1 else 0

/-- tokens: ready-queue entries plus threads that hold the scheduled token -/
def tokens (c : Cfg) : Nat := c.sh.rq + sumBy (fun t => tok t.pc) c.threads
/-- workers that own the turn -/
def owners (c : Cfg) : Nat := sumBy (fun t => own t.pc) c.threads
/-- handler invocations in progress -/
def handlersRunning (c : Cfg) : Nat := sumBy inRecv c.threads

/-- The inductive invariant: exactly one token exists iff the state is Scheduled; exactly one worker
    owns the turn iff the state is Processing; never were two handlers in progress. -/
def Inv (c : Cfg) : Prop :=
  tokens c = ind (c.sh.sched = .scheduled) ∧ owners c = ind (c.sh.sched = .processing) ∧ c.sh.maxIn ≤ 1

/-- one step seen from the stepping thread: `R1`/`R2` are the token/owner sums of the OTHER threads -/
theorem exec_frame (s : Shared) (t : Thread) (others : Nat) (pc : PC) (R1 R2 : Nat)
    (hpc : t.pc = some pc)
    (h1 : s.rq + (R1 + tok t.pc) = ind (s.sched = .scheduled))
    (h2 : R2 + own t.pc = ind (s.sched = .processing))
    (h3 : s.maxIn ≤ 1) (ho : others ≤ R2) :
    (exec s t others pc).1.rq + (R1 + tok (exec s t others pc).2.pc) = ind ((exec s t others pc).1.sched = .scheduled)
    ∧ R2 + own (exec s t others pc).2.pc = ind ((exec s t others pc).1.sched = .processing)
    ∧ (exec s t others pc).1.maxIn ≤ 1 := by
  rw [hpc] at h1 h2
  cases hs : s.sched <;> cases pc <;>
    simp only [exec, ind, hs, finishOp, nextOp_tok, nextOp_own, nextIter_own, nextIter_tok,
      reduceCtorEq, if_true, if_false, tok_none, tok_sE0, tok_sE1, tok_sE2, tok_sT1, tok_sT2, tok_sPush, tok_wTake, tok_wTfp, tok_wSys1, tok_wSys2, tok_wDeq1, tok_wDeq2, tok_wDeq3, tok_wDeq4, tok_wRecv, tok_wReset, tok_wEmp1, tok_wEmp2, tok_wSEmp1, tok_wSEmp2, tok_wTs1, tok_wTs2, tok_wRetake, tok_wYield, tok_wResched, tok_rWait, tok_rCount, tok_rLoad, own_none, own_sE0, own_sE1, own_sE2, own_sT1, own_sT2, own_sPush, own_wTake, own_wTfp, own_wSys1, own_wSys2, own_wDeq1, own_wDeq2, own_wDeq3, own_wDeq4, own_wRecv, own_wReset, own_wEmp1, own_wEmp2, own_wSEmp1, own_wSEmp2, own_wTs1, own_wTs2, own_wRetake, own_wYield, own_wResched, own_rWait, own_rCount, own_rLoad, inRecvPc_none, inRecvPc_sE0, inRecvPc_sE1, inRecvPc_sE2, inRecvPc_sT1, inRecvPc_sT2, inRecvPc_sPush, inRecvPc_wTake, inRecvPc_wTfp, inRecvPc_wSys1, inRecvPc_wSys2, inRecvPc_wDeq1, inRecvPc_wDeq2, inRecvPc_wDeq3, inRecvPc_wDeq4, inRecvPc_wRecv, inRecvPc_wReset, inRecvPc_wEmp1, inRecvPc_wEmp2, inRecvPc_wSEmp1, inRecvPc_wSEmp2, inRecvPc_wTs1, inRecvPc_wTs2, inRecvPc_wRetake, inRecvPc_wYield, inRecvPc_wResched, inRecvPc_rWait, inRecvPc_rCount, inRecvPc_rLoad] at h1 h2 ⊢ <;>
    (try split) <;>
    simp only [nextOp_tok, nextOp_own, nextIter_own, nextIter_tok, reduceCtorEq, if_true, if_false,
      Nat.add_zero, Nat.zero_add, hs, hpc, tok_none, tok_sE0, tok_sE1, tok_sE2, tok_sT1, tok_sT2, tok_sPush, tok_wTake, tok_wTfp, tok_wSys1, tok_wSys2, tok_wDeq1, tok_wDeq2, tok_wDeq3, tok_wDeq4, tok_wRecv, tok_wReset, tok_wEmp1, tok_wEmp2, tok_wSEmp1, tok_wSEmp2, tok_wTs1, tok_wTs2, tok_wRetake, tok_wYield, tok_wResched, tok_rWait, tok_rCount, tok_rLoad, own_none, own_sE0, own_sE1, own_sE2, own_sT1, own_sT2, own_sPush, own_wTake, own_wTfp, own_wSys1, own_wSys2, own_wDeq1, own_wDeq2, own_wDeq3, own_wDeq4, own_wRecv, own_wReset, own_wEmp1, own_wEmp2, own_wSEmp1, own_wSEmp2, own_wTs1, own_wTs2, own_wRetake, own_wYield, own_wResched, own_rWait, own_rCount, own_rLoad, inRecvPc_none, inRecvPc_sE0, inRecvPc_sE1, inRecvPc_sE2, inRecvPc_sT1, inRecvPc_sT2, inRecvPc_sPush, inRecvPc_wTake, inRecvPc_wTfp, inRecvPc_wSys1, inRecvPc_wSys2, inRecvPc_wDeq1, inRecvPc_wDeq2, inRecvPc_wDeq3, inRecvPc_wDeq4, inRecvPc_wRecv, inRecvPc_wReset, inRecvPc_wEmp1, inRecvPc_wEmp2, inRecvPc_wSEmp1, inRecvPc_wSEmp2, inRecvPc_wTs1, inRecvPc_wTs2, inRecvPc_wRetake, inRecvPc_wYield, inRecvPc_wResched, inRecvPc_rWait, inRecvPc_rCount, inRecvPc_rLoad] at * <;>
    (try (refine ⟨?_, ?_, ?_⟩ <;> (try split) <;> omega))

theorem step_inv (c : Cfg) (tid : Nat) (h : Inv c) : Inv (step c tid).2 := by
  unfold step
  split
  · exact h
  · rename_i t ht
    split
    · exact h
    · rename_i pc hpc
      have hlt : tid < c.threads.length := by
        rcases List.getElem?_eq_some_iff.mp ht with ⟨h', _⟩; exact h'
      have hget : c.threads[tid] = t := by
        rcases List.getElem?_eq_some_iff.mp ht with ⟨_, h'⟩; exact h'
      obtain ⟨h1, h2, h3⟩ := h
      unfold tokens at h1; unfold owners at h2
      rw [sumBy_eraseIdx _ _ tid hlt, hget] at h1 h2
      have hothers : sumBy inRecv c.threads - inRecv t = sumBy inRecv (c.threads.eraseIdx tid) := by
        rw [sumBy_eraseIdx inRecv _ tid hlt, hget]; omega
      have hle : sumBy inRecv (c.threads.eraseIdx tid) ≤ sumBy (fun t => own t.pc) (c.threads.eraseIdx tid) :=
        sumBy_le _ _ _ (fun t => by rw [inRecv_eq]; exact inRecvPc_le_own _)
      have := exec_frame c.sh t (sumBy inRecv c.threads - inRecv t) pc _ _ hpc h1 h2 h3 (by rw [hothers]; exact hle)
      obtain ⟨g1, g2, g3⟩ := this
      refine ⟨?_, ?_, g3⟩
      · simp only [tokens]; rw [sumBy_set _ _ _ _ hlt]; exact g1
      · simp only [owners]; rw [sumBy_set _ _ _ _ hlt]; exact g2

/-- run a schedule -/
def run (c : Cfg) : List Nat → Cfg
  | [] => c
  | t :: ts => run (step c t).2 ts

theorem run_inv (c : Cfg) (sched : List Nat) (h : Inv c) : Inv (run c sched) := by
  induction sched generalizing c with
  | nil => exact h
  | cons t ts ih => exact ih _ (step_inv c t h)

/-! ### the initial configuration -/

theorem spawn_zero (s : Shared) (progs : List (List Op)) :
    sumBy (fun t => tok t.pc) (spawn s progs).2 = 0 ∧ sumBy (fun t => own t.pc) (spawn s progs).2 = 0
    ∧ (spawn s progs).1.sched = s.sched ∧ (spawn s progs).1.rq = s.rq ∧ (spawn s progs).1.maxIn = s.maxIn := by
  induction progs generalizing s with
  | nil => simp [spawn, sumBy]
  | cons p ps ih =>
    simp only [spawn]
    split
    · obtain ⟨a, b, c, d, e⟩ := ih s
      refine ⟨?_, ?_, c, d, e⟩
      · simp only [sumBy, tok_rLoad, a]
      · simp only [sumBy, own_rLoad, b]
    · obtain ⟨a, b, c, d, e⟩ := ih s
      refine ⟨?_, ?_, c, d, e⟩
      · simp only [sumBy, nextOp_tok, a]
      · simp only [sumBy, nextOp_own, b]

theorem init_inv (budget : Nat) (progs : List (List Op)) : Inv (init budget progs) := by
  unfold init Inv tokens owners
  have := spawn_zero (initShared budget) progs
  obtain ⟨a, b, c, d, e⟩ := this
  simp only [a, b, c, d, e, ind]
  simp [initShared]

/-- The full statement (for local actors with the default mailbox; see the header for scope):
    for ANY number of sender, worker and restart threads with ANY programs, ANY turn budget and
    EVERY schedule: at most one handler invocation is in progress, at most one worker owns the
    turn, and never in the past were two handlers in progress at once. -/
def C01_full : Prop :=
  ∀ (budget : Nat) (progs : List (List Op)) (sched : List Nat),
    let c := run (init budget progs) sched
    handlersRunning c ≤ 1 ∧ owners c ≤ 1 ∧ c.sh.maxIn ≤ 1

theorem C01_holds : C01_full := by
  intro budget progs sched
  have h := run_inv _ sched (init_inv budget progs)
  obtain ⟨_, h2, h3⟩ := h
  have hle : handlersRunning (run (init budget progs) sched) ≤ owners (run (init budget progs) sched) :=
    sumBy_le _ _ _ (fun t => by rw [inRecv_eq]; exact inRecvPc_le_own _)
  refine ⟨?_, ?_, h3⟩
  · unfold ind at h2; split at h2 <;> omega
  · unfold ind at h2; split at h2 <;> omega

/-- non-vacuity: a concrete run in which a handler IS in progress (so the bound is about something) -/
example : handlersRunning (run (init 2 [[.tell 1], [.work]]) [0,0,0,0,0,0,1,1,1,1,1,1,1,1]) = 1 := by decide

/-- The defect that was repaired (fix a5d978b): a restart thread that stores Idle at its end breaks
    the invariant.  `resetStep` is what the old code did; from a reachable configuration in which a
    worker is inside the handler it leads to two handlers in progress. This is the model-side
    witness of corpus/C01/restart_reset_overlap.case. -/
def resetStep (c : Cfg) : Cfg := { c with sh := { c.sh with sched := .idle } }

theorem old_restart_reset_breaks :
    let c0 := run (init 2 [[.tell 1], [.restart], [.work], [.work]]) [1,1,0,0,0,0,0,0,2,2,2,2,2,2,2,2]
    let c1 := resetStep c0            -- the trailing schedState.reset() of the old restartSubtree
    let c2 := run c1 [1,1,1,1,1,1,1,3,3,3,3,3,3,3,3]
    handlersRunning c2 = 2 := by decide

end GoaktVerif.C01

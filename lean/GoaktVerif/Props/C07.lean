/-
C07 — Failures are handled by exactly the configured supervision directive.

"When a handler panics or reports an error, the parent applies the directive configured for that
 error type (or the any-error directive, or suspension if none): Stop stops the child (and its
 siblings under one-for-all), Restart re-runs PreStart with fresh state and bumps the restart count,
 Resume keeps the child's state and it processes later messages, and Escalate hands the failure to
 the grandparent. Once the restart budget of a positive window is exhausted the group is suspended
 instead of restarted."

Model: Model/C07.lean (NewSupervisor + options, notifyParent lookup, handlePanicking dispatch,
handleStop/RestartDirective with sibling groups, recordFault, the budget test, suspendGroup,
restartSubtree of a leaf, Reinstate).  Oracle: Spec/C07.lean (`expect` = what the text prescribes,
from the option list and the oracle's own fault history; `check` = the outcome on observations).
Theorems are for every option list, every family size and every op script (failures of six kinds,
pings, reinstatements, aged fault stamps).  Tie: the harness runs the same scripts on a real actor
system; the model's observation must equal the implementation's, and the same `judgeRun` that the
theorems are about is evaluated on the implementation's observations.
-/
import GoaktVerif.Lemmas.C07.Run

namespace GoaktVerif.C07
open GoaktVerif.Model.C07 GoaktVerif.Spec.C07

/-- the observations the harness prints for a script: after each op, the family and the op's result -/
def obsRun (f : Family) (ops : List Op) : List (Obs × Res) := (run f ops).map (fun r => (r.1.obs, r.2.1))

/-- every op addresses an existing child and is not a scripted PreStart failure (`F`, harness-only: scripts
    with PreStart failures are covered by the model and the differential, not by the refinement theorems) -/
def validOps (n : Nat) (ops : List Op) : Prop := ∀ op ∈ ops, op.idx < n ∧ op.plain = true

instance (n : Nat) (ops : List Op) : Decidable (validOps n ops) := by unfold validOps; infer_instance

/-! ### one step -/

theorem hists_length (v : Variant) (opts : List Opt) (h : Hists) (now : Int) (op : Op) (b a : Obs) (res : Res) :
    (judgeStep v opts h now op b a res).2.length = h.length := by
  cases op with
  | fail i k =>
    simp only [judgeStep, expect]
    repeat' split
    all_goals simp [recordHists]
  | ping i => rfl
  | reinstate i => rfl
  | age i => simp [judgeStep, ageHists]
  | failPre i k => rfl
  | restartPub i => rfl

/-- REFINEMENT, one op: whatever the state (within the invariant), the model's reaction to an op is
    what the text prescribes for the configuration — in the `code` reading of the clause the code
    deviates on — and the invariant is kept.  Covers: lookup order type → any-error → suspend; the
    dispatch on the directive; sibling groups under one-for-all; the budget decision; Resume keeping the
    state; later messages handled (ping); Reinstate. -/
theorem step_refines_code (opts : List Opt) (f : Family) (h : Hists) (op : Op)
    (hinv : Inv opts f h) (hv : op.idx < f.cs.length) (hp : op.plain = true) :
    (judgeStep .code opts h (f.now + tick) op f.obs (step f op).1.obs (step f op).2.1).1 = true
    ∧ Inv opts (step f op).1 (judgeStep .code opts h (f.now + tick) op f.obs (step f op).1.obs (step f op).2.1).2 := by
  have hc : f.cs[op.idx]? = some f.cs[op.idx] := by simp [hv]
  cases op with
  | fail i k =>
    simp only [Op.idx] at hc hv
    generalize f.cs[i] = c at hc
    by_cases ha : c.alive = true
    · rw [step_fail_alive f i k c hc ha]
      have hg := notify_refines (g := tickF f) k (inv_tick hinv) hc ha
      obtain ⟨h1, h2, h3⟩ := hg
      simp only [judgeStep]
      refine ⟨?_, h3⟩
      rw [Bool.and_eq_true]
      refine ⟨h1, ?_⟩
      have h2' : (expect opts h (f.now + tick) f.obs i k).1 ≠ Expect.dead := h2
      have : ((expect opts h (f.now + tick) f.obs i k).1 == Expect.dead) = false := by
        simpa using h2'
      simp [this]
    · have ha' : c.alive = false := by simpa using ha
      rw [step_fail_dead f i k c hc ha']
      have he : expect opts h (f.now + tick) f.obs i k = (.dead, h) := by
        unfold expect
        simp [obs_alive f i c hc, ha']
      simp only [judgeStep, he]
      refine ⟨?_, inv_tick hinv⟩
      rw [Bool.and_eq_true]
      exact ⟨branch_unchanged .code _ .dead i f (Or.inl rfl), by simp⟩
  | ping i =>
    simp only [Op.idx] at hc
    exact ping_refines opts f h i hinv _ hc
  | reinstate i =>
    simp only [Op.idx] at hc
    exact reinstate_refines opts f h i hinv _ hc
  | age i =>
    simp only [Op.idx] at hc
    obtain ⟨h1, h2, h3⟩ := age_refines opts f h i hinv _ hc
    simp only [judgeStep]
    refine ⟨?_, h3⟩
    simp [h1, h2]
  | failPre i k => simp [Op.plain] at hp
  | restartPub i => simp [Op.plain] at hp

/-! ### whole runs -/

theorem inv_init (opts : List Opt) (n : Nat) : Inv opts (Family.init opts n) (List.replicate n []) := by
  refine ⟨rfl, ?_, ?_, by simp [Family.init, clock0]⟩
  · simp [Family.init, Child.fresh]
  · intro j c hj
    simp only [Family.init, List.getElem?_replicate] at hj
    split at hj
    · cases hj; exact wf_fresh _
    · cases hj

theorem inv_length {opts f h} (hinv : Inv opts f h) : f.cs.length = h.length := by
  rw [hinv.hists]; simp

theorem run_refines_gen (opts : List Opt) (ops : List Op) (f : Family) (h : Hists)
    (hinv : Inv opts f h) (hv : validOps f.cs.length ops) :
    judgeRun .code opts h f.now ops f.obs (obsRun f ops) = true := by
  induction ops generalizing f h with
  | nil => simp [judgeRun, judgeRunWith]
  | cons op ops ih =>
    have hop : op.idx < f.cs.length := (hv op (by simp)).1
    obtain ⟨h1, h2⟩ := step_refines_code opts f h op hinv hop (hv op (by simp)).2
    have hlen : (step f op).1.cs.length = f.cs.length := by
      rw [inv_length h2, hists_length, ← inv_length hinv]
    have ih' := ih (step f op).1 _ h2 (by
      intro o ho; rw [hlen]; exact hv o (by simp [ho]))
    simp only [judgeRun, obsRun, run, List.map_cons, judgeRunWith, Bool.and_eq_true]
    refine ⟨h1, ?_⟩
    rw [step_now] at ih'
    exact ih'

/-- REFINEMENT, all scripts: for every option list, every family size and every valid op script, the
    observations of the model satisfy the oracle in its `code` reading at every step. -/
theorem run_refines_code (opts : List Opt) (n : Nat) (ops : List Op) (hv : validOps n ops) :
    judgeRun .code opts (List.replicate n []) clock0 ops (Family.init opts n).obs (obsRun (Family.init opts n) ops) = true := by
  have := run_refines_gen opts ops (Family.init opts n) _ (inv_init opts n) (by simpa [Family.init] using hv)
  exact this

/-- the fault counter the code keeps is the oracle's count over the recorded fault times, in every
    reachable state: `recordFault` = "consecutive faults, a fault-free gap longer than a positive window
    starts a new run" -/
theorem cf_eq_specCount (opts : List Opt) (n : Nat) (ops : List Op) (hv : validOps n ops) :
    ∀ r ∈ run (Family.init opts n) ops, ∀ c ∈ r.1.cs,
      c.cf = specCount (window (newSupervisor opts)) c.hist := by
  suffices H : ∀ (ops : List Op) (f : Family) (h : Hists), Inv opts f h → validOps f.cs.length ops →
      ∀ r ∈ run f ops, ∀ c ∈ r.1.cs, c.cf = specCount (window (newSupervisor opts)) c.hist by
    exact H ops _ _ (inv_init opts n) (by simpa [Family.init] using hv)
  intro ops
  induction ops with
  | nil => intro f h _ _ r hr; simp [run] at hr
  | cons op ops ih =>
    intro f h hinv hv r hr c hc
    have hop : op.idx < f.cs.length := (hv op (by simp)).1
    obtain ⟨_, h2⟩ := step_refines_code opts f h op hinv hop (hv op (by simp)).2
    have hlen : (step f op).1.cs.length = f.cs.length := by
      rw [inv_length h2, hists_length, ← inv_length hinv]
    simp only [run, List.mem_cons] at hr
    rcases hr with rfl | hr
    · obtain ⟨j, hj, rfl⟩ := List.getElem_of_mem hc
      have := (h2.wf j _ (List.getElem?_eq_getElem hj)).cf_eq
      rw [h2.sup] at this
      exact this
    · exact ih _ _ h2 (by intro o ho; rw [hlen]; exact hv o (by simp [ho])) r hr c hc

/-! ### the property -/

/-- C07 as written: for every configuration and every failure sequence the observed outcome of each op
    is the one the text prescribes -/
def C07_full : Prop :=
  ∀ (opts : List Opt) (n : Nat) (ops : List Op), validOps n ops →
    judgeRun .text opts (List.replicate n []) clock0 ops (Family.init opts n).obs (obsRun (Family.init opts n) ops) = true

/-- finding C07-F1: with `WithDirective(ErrA, Escalate)` one failure of the only child puts the
    PanicSignal into the PARENT's Receive; the grandparent gets nothing -/
theorem C07_escalate_goes_to_parent :
    let f := (step (Family.init [.directive tyA dEscalate] 1) (.fail 0 .A)).1
    f.pSig = [0] ∧ f.gSig = [] := by decide

/-- formerly finding C07-F2 (repaired by fix 6e40710): under one-for-all + Restart, the second failure of
    child 0 restarts the running sibling 1 a second time and its restart count is now 2 -/
theorem C07_sibling_restart_count_bumped :
    let opts := [Opt.strategy .oneForAll, .directive tyA dRestart]
    let f1 := (step (Family.init opts 2) (.fail 0 .A)).1
    let f2 := (step f1 (.fail 0 .A)).1
    (f1.cs.map (·.rc)) = [1, 1] ∧ (f2.cs.map (·.rc)) = [2, 2] ∧ (f2.cs.map (·.pre)) = [3, 3] := by decide

/-- regression statement for fix 07658af (formerly finding C07-F3): a one-for-all restart whose first attempt
    fails behind the embedded shutdown of a running sibling (its PreStart errors 5 times, which exhausts `init`)
    and whose retry succeeds keeps that sibling registered under its parent, with restart count old + 1 -/
theorem C07_retried_restart_keeps_parent :
    let opts := [Opt.strategy .oneForAll, .directive tyA dRestart, .retry 2 2]
    let f := (run (Family.init opts 2) [.fail 0 .A, .failPre 1 5, .fail 0 .A]).getLast?.map (·.1)
    f.map (fun f => f.cs.map (fun c => (c.reg, c.alive, c.pre, c.rc))) = some [(true, true, 3, 2), (true, true, 8, 2)] := by
  decide

/-- the current code does not satisfy the text -/
theorem C07_refuted : ¬ C07_full := by
  intro h
  have := h [.directive tyA dEscalate] 1 [.fail 0 .A] (by decide)
  revert this
  decide

/-! ### the partial theorem: the text, on the steps the guard admits -/

theorem allIdx_mono (b a : List CObs) (P Q : Nat → CObs → CObs → Bool)
    (hPQ : ∀ (j : Nat) (bj aj : CObs), j < b.length → b[j]? = some bj → a[j]? = some aj → P j bj aj = true → Q j bj aj = true)
    (hP : allIdx b a P = true) : allIdx b a Q = true := by
  unfold allIdx at hP ⊢
  simp only [Bool.and_eq_true, List.all_eq_true, List.mem_range] at hP ⊢
  refine ⟨hP.1, ?_⟩
  intro j hj
  have := hP.2 j hj
  cases hb : b[j]? with
  | none => rw [hb] at this; simp at this
  | some bj =>
    cases ha : a[j]? with
    | none => rw [hb, ha] at this; simp at this
    | some aj =>
      rw [hb, ha] at this
      exact hPQ j bj aj hj hb ha this

theorem judgeStep_hists_variant (opts : List Opt) (h : Hists) (now : Int) (op : Op) (b a : Obs) (res : Res) :
    (judgeStep .text opts h now op b a res).2 = (judgeStep .code opts h now op b a res).2 := by
  cases op <;> rfl

/-- on a guarded step the `code` reading implies the `text` reading -/
theorem text_of_code_of_guard (opts : List Opt) (h : Hists) (now : Int) (op : Op) (b a : Obs) (res : Res)
    (hg : stepGuard opts h now op b = true) (hc : (judgeStep .code opts h now op b a res).1 = true) :
    (judgeStep .text opts h now op b a res).1 = true := by
  cases op with
  | ping i => exact hc
  | reinstate i => exact hc
  | age i => exact hc
  | failPre i k => exact hc
  | restartPub i => exact hc
  | fail i k =>
    simp only [judgeStep, Bool.and_eq_true] at hc ⊢
    simp only [stepGuard] at hg
    refine ⟨?_, hc.2⟩
    have hchk := hc.1
    generalize (expect opts h now b i k).1 = e at hg hchk ⊢
    cases e with
    | escalate => simp at hg
    | restart =>
      unfold check at hchk ⊢
      rw [Bool.and_eq_true] at hchk ⊢
      refine ⟨?_, by simpa [checkSignals] using hchk.2⟩
      unfold checkChildren at hchk ⊢
      apply allIdx_mono _ _ _ _ _ hchk.1
      intro j bj aj _ _ _ hP
      simpa [checkChild] using hP
    | dead => exact hchk
    | ignored => exact hchk
    | suspendOnly => exact hchk
    | stop => exact hchk
    | exhausted => exact hchk
    | resume => exact hchk
    | invalid => exact hchk

theorem judgeRunWith_guarded (opts : List Opt) (ops : List Op) (h : Hists) (now : Int) (b : Obs) (l : List (Obs × Res))
    (hc : judgeRunWith (judgeStep .code opts) h now ops b l = true) :
    judgeRunWith (judgeStepGuarded opts) h now ops b l = true := by
  induction ops generalizing h now b l with
  | nil => simp [judgeRunWith]
  | cons op ops ih =>
    cases l with
    | nil => simp [judgeRunWith] at hc
    | cons p rest =>
      obtain ⟨a, res⟩ := p
      simp only [judgeRunWith, Bool.and_eq_true] at hc ⊢
      constructor
      · simp only [judgeStepGuarded, Bool.or_eq_true, Bool.not_eq_true']
        cases hg : stepGuard opts h (now + tick) op b with
        | false => exact Or.inl rfl
        | true => exact Or.inr (text_of_code_of_guard opts h (now + tick) op b a res hg hc.1)
      · have : (judgeStepGuarded opts h (now + tick) op b a res).2 = (judgeStep .code opts h (now + tick) op b a res).2 :=
          judgeStep_hists_variant opts h (now + tick) op b a res
        rw [this]
        exact ih _ _ _ _ hc.2

/-- C07 restricted by the decidable per-step guard `stepGuard`: every step whose configured directive
    is not Escalate behaves exactly as the text says.  (What the guard excludes is what finding C07-F1
    describes; `run_refines_code` says what the code does there.) -/
def C07_guarded : Prop :=
  ∀ (opts : List Opt) (n : Nat) (ops : List Op), validOps n ops →
    judgeRunWith (judgeStepGuarded opts) (List.replicate n []) clock0 ops (Family.init opts n).obs
      (obsRun (Family.init opts n) ops) = true

theorem C07_partial : C07_guarded := by
  intro opts n ops hv
  exact judgeRunWith_guarded opts ops _ _ _ _ (run_refines_code opts n ops hv)

/-- the guard values along a script (for the non-vacuity examples) -/
def guardTrace (opts : List Opt) : Hists → Int → List Op → Obs → List (Obs × Res) → List Bool
  | _, _, [], _, _ => []
  | _, _, _ :: _, _, [] => []
  | h, now, op :: ops, b, (a, res) :: rest =>
    stepGuard opts h (now + tick) op b ::
      guardTrace opts (judgeStep .text opts h (now + tick) op b a res).2 (now + tick) ops a rest

/-- non-vacuity of the guard: a script on which it admits every step — a one-for-all group restart,
    a Resume, pings, then the budget (1 retry in a one-hour window) exhausted by the second Restart fault -/
example :
    let opts := [Opt.strategy .oneForAll, .directive tyA dRestart, .directive tyB dResume, .retry 1 3600000000000]
    let ops := [Op.fail 0 .A, .ping 0, .fail 1 .B, .ping 1, .fail 1 .A, .ping 0]
    validOps 2 ops ∧
    guardTrace opts (List.replicate 2 []) clock0 ops (Family.init opts 2).obs (obsRun (Family.init opts 2) ops)
      = [true, true, true, true, true, true]
    ∧ (obsRun (Family.init opts 2) ops).map (fun p => p.1.cs.map (fun c => (c.alive, c.susp, c.pre, c.rc)))
      = [[(true, false, 2, 1), (true, false, 2, 1)], [(true, false, 2, 1), (true, false, 2, 1)],
         [(true, false, 2, 1), (true, false, 2, 1)], [(true, false, 2, 1), (true, false, 2, 1)],
         [(false, true, 2, 1), (false, true, 2, 1)], [(false, true, 2, 1), (false, true, 2, 1)]] := by decide

/-- ... and a script on which the guard rejects a step (an Escalate directive) -/
example :
    let opts := [Opt.directive tyA dEscalate]
    let ops := [Op.ping 0, .fail 0 .A]
    guardTrace opts (List.replicate 1 []) clock0 ops (Family.init opts 1).obs (obsRun (Family.init opts 1) ops)
      = [true, false] := by decide

/-- non-vacuity of the invariant used by `step_refines_code`: it holds initially for every configuration
    (`inv_init`) and, e.g., after a group restart -/
example : ∃ h, Inv [.strategy .oneForAll, .directive tyA dRestart]
    (step (Family.init [.strategy .oneForAll, .directive tyA dRestart] 2) (.fail 0 .A)).1 h :=
  ⟨_, (step_refines_code _ _ _ (.fail 0 .A) (inv_init _ 2) (by decide) rfl).2⟩

end GoaktVerif.C07

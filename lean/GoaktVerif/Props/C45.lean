/-
C45 — "For any finite input and any composition of linear stages (Map, TryMap, Filter, FlatMap, Flatten,
Scan, Deduplicate, Batch, Buffer, OrderedParallelMap, ParallelMap), the sink receives exactly the elements
the corresponding list computation produces, in order (as a multiset for ParallelMap), and the stream
completes exactly once; a stage error ends the stream with that error."

Model: Model/C45 (stage actors as state machines, FIFO links, every scheduler choice a `Pick`).
Spec:  Spec/C45 (`sem`, plain list functions).
-/
import GoaktVerif.Model.C45.Net
import GoaktVerif.Spec.C45
import GoaktVerif.Lemmas.C45.Sem
import GoaktVerif.Lemmas.C45.Flow
import GoaktVerif.Lemmas.C45.Sink
import GoaktVerif.Lemmas.C45.Bridge
import GoaktVerif.Lemmas.C45.FusedBridge
import GoaktVerif.Lemmas.C45.HomogSem
import GoaktVerif.Lemmas.C45.NetKinds

namespace GoaktVerif.C45
open GoaktVerif.Model.C45 GoaktVerif.Spec.C45

/-- pipelines whose stages all emit in input order (everything except the unordered ParallelMap) -/
def orderedPipeline (stages : List Stage) : Bool :=
  stages.all fun s => match s with
    | .pmap _ _ _ _ => false
    | _ => true

/-- what the sink may have observed, given the list semantics of the pipeline -/
def SinkOK (stages : List Stage) (input : List Val) (s : SinkSt) : Prop :=
  -- the completion hook never runs twice, and has run once when the sink has stopped
  s.hooks ≤ 1 ∧ (s.alive = false → s.hooks = 1) ∧
  -- at every moment the elements received are a prefix of the list semantics
  s.received <+: (sem stages input).1 ∧
  -- normal completion: exactly the list semantics, and no stage fails on this input
  (s.alive = false → s.termErr = none → s.received = (sem stages input).1 ∧ (sem stages input).2 = []) ∧
  -- failure: with an error some stage raises on this input
  (∀ e, s.termErr = some e → e ∈ (sem stages input).2)

/-- The full property (safety part), for every pipeline, input, fusion mode and EVERY schedule. -/
def C45_full : Prop :=
  ∀ (fusion : Bool) (stages : List Stage) (input : List Val) (picks : List Pick) (s : SinkSt),
    orderedPipeline stages = true →
    ((mkNet fusion stages input).run picks).sink? = some s → SinkOK stages input s

/-! ### the former refutation witness (finding C45-F1, fixed by 688097a)

`[Batch 1, Buffer 1]` on `[1,2,3]`: Buffer(1) asks the Batch for one element at a time. Before the fix the Batch
dropped `[2,3]` on the schedule below; now the window waits for demand and every schedule tried delivers all. -/

def witnessStages : List Stage := [.batch 1, .buffer 1]
def witnessInput : List Val := [.int 1, .int 2, .int 3]
def witnessPicks : List Pick :=
  [.up 2, .up 1, .up 0, .down 0, .down 0, .down 0, .down 0, .down 1, .down 1, .down 2, .down 2]

/-- regression (a TEST on one schedule, not a theorem about all): after the old failing prefix the run
    continues and the sink ends with the full list semantics -/
theorem witness_regression :
    (((simulate false false witnessStages witnessInput).sink?.map fun s => (s.received, s.alive, s.termErr)) =
      some ([.list [1], .list [2], .list [3]], false, none)) ∧
    ((((mkNet false witnessStages witnessInput).run witnessPicks).sink?.map fun s => (s.received, s.termErr)) =
      some ([.list [1]], none)) := by decide

/-! ### the composition theorem: every schedule of every ordered pipeline -/

/-- the middle nodes `mkNet` builds -/
def midsOf (fusion : Bool) (stages : List Stage) : List Node :=
  if fusion then fuseRuns stages [] else stages.map mkNode

/-- the stages behind each of those nodes -/
def groupsOf (fusion : Bool) (stages : List Stage) : List (List Stage) :=
  if fusion then groupRuns stages [] else stages.map fun s => [s]

theorem midsOf_eq (fusion : Bool) (stages : List Stage) :
    midsOf fusion stages = (groupsOf fusion stages).map nodeOfGroup := by
  cases fusion with
  | true => simp [midsOf, groupsOf, fuseRuns_eq]
  | false => simp [midsOf, groupsOf, List.map_map]; intro a _; rfl

theorem groupsOf_flatten (fusion : Bool) (stages : List Stage) : (groupsOf fusion stages).flatten = stages := by
  cases fusion with
  | true => simp [groupsOf, groupRuns_flatten]
  | false => simp [groupsOf]; induction stages <;> simp_all

theorem groupsOf_good (fusion : Bool) (stages : List Stage) (h : ∀ st ∈ stages, Stage.covered st = true) :
    ∀ g ∈ groupsOf fusion stages, GoodGroup g := by
  cases fusion with
  | true => exact groupRuns_good stages [] h (by simp)
  | false =>
    intro g hg
    simp only [groupsOf, Bool.false_eq_true, if_false, List.mem_map] at hg
    obtain ⟨a, ha, rfl⟩ := hg
    exact Or.inl ⟨a, rfl, h a ha⟩

theorem mkNet_eq (fusion : Bool) (stages : List Stage) (input : List Val) :
    mkNet fusion stages input = wireAll (midsOf fusion stages).length.succ.succ (rawNet (midsOf fusion stages) input) := by
  simp [mkNet, mkNodes, rawNet, midsOf]

theorem midsOf_fresh (fusion : Bool) (stages : List Stage) (h : ∀ st ∈ stages, Stage.covered st = true) :
    ∀ nd ∈ midsOf fusion stages, FreshMid nd := by
  cases fusion with
  | true => exact freshMid_fuseRuns stages [] h (by simp)
  | false =>
    intro nd hnd
    simp only [midsOf, Bool.false_eq_true, if_false, List.mem_map] at hnd
    obtain ⟨st, hst, rfl⟩ := hnd
    exact freshMid_mkNode st (h st hst)

/-- parallel stages -/
def Stage.isParSt : Stage → Bool
  | .opmap _ _ _ _ | .pmap _ _ _ _ => true
  | _ => false

theorem isPar_nodeOfGroup (g : List Stage) (h : isPar (nodeOfGroup g) = true) : ∃ a, g = [a] ∧ Stage.isParSt a = true := by
  match g with
  | [] => simp [nodeOfGroup, isPar] at h
  | [a] =>
    refine ⟨a, rfl, ?_⟩
    cases a <;> simp [nodeOfGroup, mkNode, isPar] at h <;> rfl
  | a :: b :: r => simp [nodeOfGroup, isPar] at h

theorem midsOf_noPar (fusion : Bool) (stages : List Stage) (h : ∀ st ∈ stages, Stage.isParSt st = false) :
    ∀ nd ∈ midsOf fusion stages, isPar nd = false := by
  intro nd hnd
  rw [midsOf_eq] at hnd
  obtain ⟨g, hg, rfl⟩ := List.mem_map.mp hnd
  cases hp : isPar (nodeOfGroup g) with
  | false => rfl
  | true =>
    obtain ⟨a, rfl, ha⟩ := isPar_nodeOfGroup g hp
    have : a ∈ (groupsOf fusion stages).flatten := List.mem_flatten.mpr ⟨[a], hg, by simp⟩
    rw [groupsOf_flatten] at this
    rw [h a this] at ha; simp at ha

/-- the network invariant holds in every state of every run -/
theorem run_inv (P : List Val → Prop) (fusion : Bool) (stages : List Stage) (input : List Val) (picks : List Pick)
    (h : ∀ st ∈ stages, Stage.covered st = true)
    (hpar : (∀ X, P X → Homog X) ∨ ∀ st ∈ stages, Stage.isParSt st = false) :
    GInv P input ((mkNet fusion stages input).run picks) := by
  have hfresh := midsOf_fresh fusion stages h
  have hraw := GInv.raw (P := P) (midsOf fusion stages) input hfresh
    (hpar.imp id fun hp => midsOf_noPar fusion stages hp)
  have hal := rawNet_allAlive (midsOf fusion stages) input hfresh
  have hw := wireAll_inv _ hraw hal (midsOf fusion stages).length.succ.succ (by simp [rawNet])
  rw [mkNet_eq]
  exact hw.1.run picks

theorem semsOf_wireAll (k : Nat) (net : Net) : semsOf (wireAll k net) = semsOf net := by
  induction k with
  | zero => rfl
  | succ k ih => simp only [wireAll]; rw [semsOf_deliver, ih]

/-- the semantic functions along the pipeline `mkNet` builds -/
def FsOf (fusion : Bool) (stages : List Stage) (input : List Val) : List SemFn :=
  midF (.src { rest := input }) ::
    (((groupsOf fusion stages).map fun g => midF (nodeOfGroup g)) ++ [midF (.sink defaultCfg {})])

theorem semsOf_mkNet (fusion : Bool) (stages : List Stage) (input : List Val) (picks : List Pick) :
    semsOf ((mkNet fusion stages input).run picks) = FsOf fusion stages input := by
  rw [semsOf_run, mkNet_eq, semsOf_wireAll]
  simp only [semsOf, rawNet, midsOf_eq, FsOf, List.map_cons, List.map_append, List.map_map, List.map_nil]
  rfl

theorem kindsOf_mkNet (fusion : Bool) (stages : List Stage) (input : List Val) (picks : List Pick) :
    kindsOf ((mkNet fusion stages input).run picks) =
      none :: (((groupsOf fusion stages).map fun g => ukind (nodeOfGroup g)) ++ [none]) := by
  rw [kindsOf_run, mkNet_eq, kindsOf_wireAll]
  simp only [kindsOf, rawNet, midsOf_eq, List.map_cons, List.map_append, List.map_map, List.map_nil]
  rfl

theorem ukind_nodeOfGroup (g : List Stage) (h : orderedPipeline g = true) : ukind (nodeOfGroup g) = none := by
  match g with
  | [] => rfl
  | [a] =>
    have := List.all_eq_true.mp h a (by simp)
    cases a <;> first | rfl | simp at this
  | a :: b :: r => rfl

theorem ordered_of_mem_groups (fusion : Bool) (pre : List Stage) (h : orderedPipeline pre = true) :
    ∀ g ∈ groupsOf fusion pre, orderedPipeline g = true := by
  intro g hg
  apply List.all_eq_true.mpr
  intro st hst
  have : st ∈ (groupsOf fusion pre).flatten := List.mem_flatten.mpr ⟨g, hg, hst⟩
  rw [groupsOf_flatten] at this
  exact List.all_eq_true.mp h st this

theorem ordered_of_covered (stages : List Stage) (h : ∀ st ∈ stages, Stage.covered st = true) :
    orderedPipeline stages = true := by
  apply List.all_eq_true.mpr
  intro st hst
  have := h st hst
  cases st <;> first | rfl | simp [Stage.covered] at this

/-- a pipeline without the unordered ParallelMap has no unordered node, in any state of any run -/
theorem noUnord_of_ordered (fusion : Bool) (stages : List Stage) (input : List Val) (picks : List Pick)
    (ho : orderedPipeline stages = true) :
    ∀ (j : Nat) nd, ((mkNet fusion stages input).run picks).nodes[j]? = some nd → isUnord nd = false := by
  intro j nd hn
  have hk : (kindsOf ((mkNet fusion stages input).run picks))[j]? = some (ukind nd) := by simp [kindsOf, hn]
  rw [kindsOf_mkNet] at hk
  rw [isUnord_eq_ukind]
  have hmem := List.mem_of_getElem? hk
  simp only [List.mem_cons, List.mem_append, List.mem_map, List.not_mem_nil, or_false] at hmem
  rcases hmem with h1 | ⟨g, hg, h1⟩ | h1
  · rw [h1]; rfl
  · rw [← h1, ukind_nodeOfGroup g (ordered_of_mem_groups fusion stages ho g hg)]; rfl
  · rw [h1]; rfl

/-- COMPOSITION, generic in the class `P` of ideal inputs: for every covered pipeline, both fusion modes, every
    schedule — against the list semantics `sem`. -/
theorem C45_gen (P : List Val → Prop) (fusion : Bool) (stages : List Stage) (input : List Val) (picks : List Pick)
    (s : SinkSt) (h : ∀ st ∈ stages, Stage.covered st = true)
    (hpar : (∀ X, P X → Homog X) ∨ ∀ st ∈ stages, Stage.isParSt st = false)
    (hP : ∀ j, P (idealAt (FsOf fusion stages input) input j).1)
    (hs : ((mkNet fusion stages input).run picks).sink? = some s) : SinkOK stages input s := by
  have hinv := run_inv P fusion stages input picks h hpar
  have hsem := semsOf_mkNet fusion stages input picks
  have hok := hinv.sink_ok (by rw [hsem]; exact hP) s hs
    (noUnord_of_ordered fusion stages input picks (ordered_of_covered stages h))
  have hlen : ((mkNet fusion stages input).run picks).nodes.length = (groupsOf fusion stages).length + 2 := by
    have := congrArg List.length hsem
    simpa [semsOf, FsOf] using this
  rw [hsem, hlen] at hok
  have hidx : (groupsOf fusion stages).length + 2 - 2 =
      ((groupsOf fusion stages).map fun g => midF (nodeOfGroup g)).length := by simp
  rw [hidx] at hok
  unfold FsOf at hok
  rw [idealAt_eq_semF] at hok
  have hrel := semF_groups (groupsOf fusion stages) (groupsOf_good fusion stages h) input
  rw [groupsOf_flatten] at hrel
  obtain ⟨r1, r2, r3⟩ := hrel
  obtain ⟨k1, k2, k3, k4, k5⟩ := hok
  refine ⟨k1, k2, by rw [← r1]; exact k3, fun ha he => ?_, fun e he => r3 e (k5 e he)⟩
  obtain ⟨h1, h2⟩ := k4 ha he
  exact ⟨by rw [← r1]; exact h1, r2.mp h2⟩

theorem covered_of_ordered (stages : List Stage) (h : orderedPipeline stages = true) :
    ∀ st ∈ stages, Stage.covered st = true := by
  intro st hst
  have := List.all_eq_true.mp h st hst
  cases st <;> simp_all [Stage.covered]

/-- every link of the ideal pipeline carries elements of one type when the input does -/
theorem ideals_homog (fusion : Bool) (stages : List Stage) (input : List Val)
    (h : ∀ st ∈ stages, Stage.covered st = true) (hin : Homog input) :
    ∀ j, Homog (idealAt (FsOf fusion stages input) input j).1 := by
  apply idealAt_homog _ _ _ hin
  intro F hF X hX
  simp only [FsOf, List.mem_cons, List.mem_append, List.mem_map, List.mem_singleton] at hF
  rcases hF with rfl | ⟨g, hg, rfl⟩ | rfl | hF
  · exact hX
  · exact group_homog g (groupsOf_good fusion stages h g hg) X hX
  · exact hX
  · simp at hF

/-- The full property as stated for typed streams: the input elements have one type (the Go API's `Of[T]`);
    every pipeline without the unordered ParallelMap, both fusion modes, every schedule. -/
def C45_typed : Prop :=
  ∀ (fusion : Bool) (stages : List Stage) (input : List Val) (picks : List Pick) (s : SinkSt),
    orderedPipeline stages = true → Homog input →
    ((mkNet fusion stages input).run picks).sink? = some s → SinkOK stages input s

theorem C45_holds : C45_typed := by
  intro fusion stages input picks s ho hin hs
  have hcov := covered_of_ordered stages ho
  exact C45_gen Homog fusion stages input picks s hcov (Or.inl fun _ hX => hX)
    (ideals_homog fusion stages input hcov hin) hs

/-- pipelines without any parallel stage: no assumption on the input at all -/
def flowPipeline (stages : List Stage) : Prop :=
  ∀ st ∈ stages, Stage.covered st = true ∧ Stage.isParSt st = false

theorem C45_partial_all (fusion : Bool) (stages : List Stage) (input : List Val) (picks : List Pick) (s : SinkSt)
    (h : flowPipeline stages) (hs : ((mkNet fusion stages input).run picks).sink? = some s) :
    SinkOK stages input s :=
  C45_gen (fun _ => True) fusion stages input picks s (fun st hst => (h st hst).1)
    (Or.inr fun st hst => (h st hst).2) (fun _ => trivial) hs

theorem C45_partial (stages : List Stage) (input : List Val) (picks : List Pick) (s : SinkSt)
    (h : flowPipeline stages) (hs : ((mkNet false stages input).run picks).sink? = some s) :
    SinkOK stages input s := C45_partial_all false stages input picks s h hs

theorem C45_partial_fused (stages : List Stage) (input : List Val) (picks : List Pick) (s : SinkSt)
    (h : flowPipeline stages) (hs : ((mkNet true stages input).run picks).sink? = some s) :
    SinkOK stages input s := C45_partial_all true stages input picks s h hs

/-- without the typing assumption the untyped model refutes `C45_full`: an OrderedParallelMap that has a failing
    int in flight when a list element arrives stops with the type error, which `sem` does not list -/
theorem C45_full_untyped_witness :
    (sem [.opmap 2 0 (some 5) "P0"] [.int 5, .list []]).2 = ["P0"] ∧
    (((mkNet false [.opmap 2 0 (some 5) "P0"] [.int 5, .list []]).run
        [.up 1, .up 0, .down 0, .down 0, .down 1]).sink?.map (·.termErr)) = some (some typeErr) := by decide

/-- hence the statement over ALL (also ill-typed) inputs is false of the untyped model; the typed statement is `C45_holds` -/
theorem C45_full_refuted_untyped : ¬ C45_full := by
  intro h
  obtain ⟨hsem, hrun⟩ := C45_full_untyped_witness
  cases hs : ((mkNet false [.opmap 2 0 (some 5) "P0"] [.int 5, .list []]).run
      [.up 1, .up 0, .down 0, .down 0, .down 1]).sink? with
  | none => rw [hs] at hrun; simp at hrun
  | some s =>
    rw [hs] at hrun
    simp only [Option.map_some, Option.some.injEq] at hrun
    have := (h false _ _ _ s (by decide) hs).2.2.2.2 typeErr hrun
    rw [hsem] at this
    simp [typeErr] at this


/-! ### the unordered ParallelMap: a pipeline `pre ++ [ParallelMap]`, every schedule, as a MULTISET

The stages of `pre` emit in order (everything but the unordered ParallelMap); the last stage runs its workers
concurrently and emits results as they arrive. At every moment the sink holds a sub-multiset of the results of
the non-failing elements; when the stream completes normally it holds a PERMUTATION of the list semantics and no
stage fails on this input; when it fails, with an error the list semantics lists. The hook runs exactly once. -/

theorem groupRuns_snoc (pre acc : List Stage) (s : Stage) (hs : s.fusable = false) :
    groupRuns (pre ++ [s]) acc = groupRuns pre acc ++ [[s]] := by
  induction pre generalizing acc with
  | nil => simp [groupRuns, hs, accGroup]
  | cons a pre ih =>
    simp only [List.cons_append, groupRuns]
    split
    · exact ih (a :: acc)
    · rw [ih []]; simp

theorem groupsOf_snoc (fusion : Bool) (pre : List Stage) (s : Stage) (hs : s.fusable = false) :
    groupsOf fusion (pre ++ [s]) = groupsOf fusion pre ++ [[s]] := by
  cases fusion with
  | true => simp [groupsOf, groupRuns_snoc pre [] s hs]
  | false => simp [groupsOf]

theorem midsOf_fresh' (fusion : Bool) (stages : List Stage) : ∀ nd ∈ midsOf fusion stages, FreshMid nd := by
  cases fusion with
  | true => exact freshMid_fuseRuns' stages []
  | false =>
    intro nd hnd
    simp only [midsOf, Bool.false_eq_true, if_false, List.mem_map] at hnd
    obtain ⟨st, _, rfl⟩ := hnd
    exact freshMid_mkNode' st

/-- the network invariant in every state of every run of ANY pipeline (typed ideal inputs) -/
theorem run_inv' (P : List Val → Prop) (fusion : Bool) (stages : List Stage) (input : List Val) (picks : List Pick)
    (hpar : ∀ X, P X → Homog X) :
    GInv P input ((mkNet fusion stages input).run picks) := by
  have hfresh := midsOf_fresh' fusion stages
  have hraw := GInv.raw (P := P) (midsOf fusion stages) input hfresh (Or.inl hpar)
  have hal := rawNet_allAlive (midsOf fusion stages) input hfresh
  have hw := wireAll_inv _ hraw hal (midsOf fusion stages).length.succ.succ (by simp [rawNet])
  rw [mkNet_eq]
  exact hw.1.run picks

/-- what the sink may have observed below `pre ++ [ParallelMap w k bad e]` -/
def SinkOKUnordered (pre : List Stage) (w : Nat) (k : Int) (bad : Option Int) (e : Err) (input : List Val)
    (s : SinkSt) : Prop :=
  s.hooks ≤ 1 ∧ (s.alive = false → s.hooks = 1) ∧
  -- at every moment: a sub-multiset of the results of the elements that do not fail
  SubPerm s.received (okAll k bad e (sem pre input).1) ∧
  -- normal completion: a permutation of the list semantics, and no stage fails on this input
  (s.alive = false → s.termErr = none →
    List.Perm s.received (sem (pre ++ [.pmap w k bad e]) input).1 ∧ (sem (pre ++ [.pmap w k bad e]) input).2 = []) ∧
  -- failure: with an error some stage raises on this input
  (∀ er, s.termErr = some er → er ∈ (sem (pre ++ [.pmap w k bad e]) input).2)

def C45_unordered : Prop :=
  ∀ (fusion : Bool) (pre : List Stage) (w : Nat) (k : Int) (bad : Option Int) (e : Err) (input : List Val)
    (picks : List Pick) (s : SinkSt),
    orderedPipeline pre = true → Homog input →
    ((mkNet fusion (pre ++ [.pmap w k bad e]) input).run picks).sink? = some s →
    SinkOKUnordered pre w k bad e input s

theorem stageSem_pmap (w : Nat) (k : Int) (bad : Option Int) (e : Err) (vs : List Val) :
    stageSem (.pmap w k bad e) vs = parRun k bad e vs := by
  rw [parRun_eq_stageSem w k bad e vs]; rfl

theorem C45_unordered_holds : C45_unordered := by
  intro fusion pre w k bad e input picks s ho hin hs
  have hcov := covered_of_ordered pre ho
  have hfus : (Stage.pmap w k bad e).fusable = false := rfl
  have hG := groupsOf_snoc fusion pre (.pmap w k bad e) hfus
  have hinv := run_inv' Homog fusion (pre ++ [.pmap w k bad e]) input picks (fun _ hX => hX)
  have hsem := semsOf_mkNet fusion (pre ++ [.pmap w k bad e]) input picks
  have hkind := kindsOf_mkNet fusion (pre ++ [.pmap w k bad e]) input picks
  rw [hG] at hkind
  have hFs : FsOf fusion (pre ++ [.pmap w k bad e]) input =
      midF (.src { rest := input }) :: (((groupsOf fusion pre).map fun g => midF (nodeOfGroup g)) ++
        [parRun k bad e, midF (.sink defaultCfg {})]) := by
    simp only [FsOf, hG, List.map_append, List.map_cons, List.map_nil, List.append_assoc, List.cons_append,
      List.nil_append]
    rfl
  have hlen : ((mkNet fusion (pre ++ [.pmap w k bad e]) input).run picks).nodes.length =
      (groupsOf fusion pre).length + 3 := by
    have := congrArg List.length hsem
    rw [hFs] at this
    simpa [semsOf] using this
  -- typing of all ideal link contents
  have hP : ∀ j, Homog (idealAt (FsOf fusion (pre ++ [.pmap w k bad e]) input) input j).1 := by
    apply idealAt_homog _ _ _ hin
    intro F hF X hX
    rw [hFs] at hF
    simp only [List.mem_cons, List.mem_append, List.mem_map, List.not_mem_nil, or_false] at hF
    rcases hF with rfl | ⟨g, hg, rfl⟩ | rfl | rfl
    · exact hX
    · exact group_homog g (groupsOf_good fusion pre hcov g hg) X hX
    · rw [← stageSem_pmap w]; exact stageSem_homog _ X hX
    · exact hX
  -- node kinds
  have hkget : ∀ (j : Nat) nd, ((mkNet fusion (pre ++ [.pmap w k bad e]) input).run picks).nodes[j]? = some nd →
      (kindsOf ((mkNet fusion (pre ++ [.pmap w k bad e]) input).run picks))[j]? = some (ukind nd) := by
    intro j nd hn; simp [kindsOf, hn]
  have hu : ∀ (j : Nat) nd, j ≤ ((mkNet fusion (pre ++ [.pmap w k bad e]) input).run picks).nodes.length - 3 →
      ((mkNet fusion (pre ++ [.pmap w k bad e]) input).run picks).nodes[j]? = some nd → isUnord nd = false := by
    intro j nd hj hn
    have hk := hkget j nd hn
    rw [hkind, hlen] at *
    rw [isUnord_eq_ukind]
    cases j with
    | zero => simp at hk; rw [← hk]; rfl
    | succ j =>
      have hj' : j < (groupsOf fusion pre).length := by omega
      simp only [List.getElem?_cons_succ, List.map_append, List.append_assoc] at hk
      rw [List.getElem?_append_left (by simpa using hj')] at hk
      simp only [List.getElem?_map] at hk
      cases hg : (groupsOf fusion pre)[j]? with
      | none => rw [hg] at hk; simp at hk
      | some g =>
        rw [hg] at hk
        simp only [Option.map_some, Option.some.injEq] at hk
        rw [← hk, ukind_nodeOfGroup g (ordered_of_mem_groups fusion pre ho g (List.mem_of_getElem? hg))]; rfl
  obtain ⟨w', st, hlastU⟩ : ∃ w' st, ((mkNet fusion (pre ++ [.pmap w k bad e]) input).run picks).nodes[
      ((mkNet fusion (pre ++ [.pmap w k bad e]) input).run picks).nodes.length - 2]? = some (.pmap false w' k bad e st) := by
    cases hn : ((mkNet fusion (pre ++ [.pmap w k bad e]) input).run picks).nodes[
        ((mkNet fusion (pre ++ [.pmap w k bad e]) input).run picks).nodes.length - 2]? with
    | none =>
      have := List.getElem?_eq_none_iff.mp hn
      omega
    | some nd =>
      have hk := hkget _ _ hn
      rw [hkind, hlen] at hk
      have e1 : (groupsOf fusion pre).length + 3 - 2 = (groupsOf fusion pre).length + 1 := by omega
      rw [e1] at hk
      simp only [List.getElem?_cons_succ, List.map_append, List.append_assoc] at hk
      rw [List.getElem?_append_right (by simp)] at hk
      simp only [List.length_map, Nat.sub_self, List.map_cons, List.map_nil, List.cons_append, List.nil_append,
        List.getElem?_cons_zero, Option.some.injEq] at hk
      have hk' : ukind nd = some (k, bad, e) := by rw [← hk]; rfl
      obtain ⟨w', st, hnd⟩ := ukind_some hk'
      exact ⟨w', st, by rw [hnd]⟩
  have hok := hinv.sink_okU (by rw [hsem]; exact hP) s hs w' k bad e st (by omega) hlastU hu
  rw [hsem, hlen] at hok
  have hidx : (groupsOf fusion pre).length + 3 - 3 =
      ((groupsOf fusion pre).map fun g => midF (nodeOfGroup g)).length := by simp
  rw [hidx, hFs, idealAt_eq_semF] at hok
  obtain ⟨r1, r2, r3⟩ := semF_groups (groupsOf fusion pre) (groupsOf_good fusion pre hcov) input
  rw [groupsOf_flatten] at r1 r2 r3
  obtain ⟨k1, k2, k3, k4, k5⟩ := hok
  rw [r1] at k3 k4 k5
  have hsemA : sem (pre ++ [.pmap w k bad e]) input =
      ((parRun k bad e (sem pre input).1).1, (sem pre input).2 ++ (parRun k bad e (sem pre input).1).2.toList) := by
    rw [sem_append]; simp [sem, stageSem_pmap]
  refine ⟨k1, k2, k3, fun ha he => ?_, fun er her => ?_⟩
  · obtain ⟨h1, h2, h3⟩ := k4 ha he
    rw [hsemA]
    exact ⟨h1, by simp [r2.mp h2, h3]⟩
  · rw [hsemA]
    rcases List.mem_append.mp (k5 er her) with h1 | h1
    · exact List.mem_append_left _ (r3 er h1)
    · exact List.mem_append_right _ h1

/-! non-vacuity -/
example : flowPipeline [.map 1, .filter 2 0, .scan, .batch 3, .flatten, .buffer 3] := by
  intro st hst; simp at hst; rcases hst with rfl | rfl | rfl | rfl | rfl | rfl <;> exact ⟨rfl, rfl⟩

example : orderedPipeline [.map 1, .opmap 3 2 (some 7) "P1", .batch 2] = true ∧ Homog [.int 1, .int 7, .int 3] :=
  ⟨by decide, Or.inl (by intro v hv; simp at hv; rcases hv with rfl | rfl | rfl <;> rfl)⟩

example : orderedPipeline [.map 1, .scan] = true ∧ Homog [.int 1, .int 7, .int 3] ∧
    (sem ([.map 1, .scan] ++ [.pmap 3 2 (some 9) "P1"]) [.int 1, .int 7, .int 3]).1.length = 3 :=
  ⟨by decide, Or.inl (by intro v hv; simp at hv; rcases hv with rfl | rfl | rfl <;> rfl), by decide⟩

end GoaktVerif.C45

/-
C45 — "For any finite input and any composition of linear stages (Map, TryMap, Filter, FlatMap, Flatten,
Scan, Deduplicate, Batch, Buffer, OrderedParallelMap, ParallelMap), the sink receives exactly the elements
the corresponding list computation produces, in order (as a multiset for ParallelMap), and the stream
completes exactly once; a stage error ends the stream with that error."

Model: Model/C45 (stage actors as state machines, FIFO links, every scheduler choice a `Pick`).
Spec:  Spec/C45 (`sem`, plain list functions).
-/
import GoaktVerif.Model.C45.Net
import GoaktVerif.Spec.C45
import GoaktVerif.Lemmas.C45.Sem
import GoaktVerif.Lemmas.C45.Flow
import GoaktVerif.Lemmas.C45.Sink
import GoaktVerif.Lemmas.C45.Bridge
import GoaktVerif.Lemmas.C45.FusedBridge
import GoaktVerif.Lemmas.C45.HomogSem

namespace GoaktVerif.C45
open GoaktVerif.Model.C45 GoaktVerif.Spec.C45

/-- pipelines whose stages all emit in input order (everything except the unordered ParallelMap) -/
def orderedPipeline (stages : List Stage) : Bool :=
  stages.all fun s => match s with
    | .pmap _ _ _ _ => false
    | _ => true

/-- what the sink may have observed, given the list semantics of the pipeline -/
def SinkOK (stages : List Stage) (input : List Val) (s : SinkSt) : Prop :=
  -- the completion hook never runs twice, and has run once when the sink has stopped
  s.hooks ≤ 1 ∧ (s.alive = false → s.hooks = 1) ∧
  -- at every moment the elements received are a prefix of the list semantics
  s.received <+: (sem stages input).1 ∧
  -- normal completion: exactly the list semantics, and no stage fails on this input
  (s.alive = false → s.termErr = none → s.received = (sem stages input).1 ∧ (sem stages input).2 = []) ∧
  -- failure: with an error some stage raises on this input
  (∀ e, s.termErr = some e → e ∈ (sem stages input).2)

/-- The full property (safety part), for every pipeline, input, fusion mode and EVERY schedule. -/
def C45_full : Prop :=
  ∀ (fusion : Bool) (stages : List Stage) (input : List Val) (picks : List Pick) (s : SinkSt),
    orderedPipeline stages = true →
    ((mkNet fusion stages input).run picks).sink? = some s → SinkOK stages input s

/-! ### the former refutation witness (finding C45-F1, fixed by 688097a)

`[Batch 1, Buffer 1]` on `[1,2,3]`: Buffer(1) asks the Batch for one element at a time. Before the fix the Batch
dropped `[2,3]` on the schedule below; now the window waits for demand and every schedule tried delivers all. -/

def witnessStages : List Stage := [.batch 1, .buffer 1]
def witnessInput : List Val := [.int 1, .int 2, .int 3]
def witnessPicks : List Pick :=
  [.up 2, .up 1, .up 0, .down 0, .down 0, .down 0, .down 0, .down 1, .down 1, .down 2, .down 2]

/-- regression (a TEST on one schedule, not a theorem about all): after the old failing prefix the run
    continues and the sink ends with the full list semantics -/
theorem witness_regression :
    (((simulate false false witnessStages witnessInput).sink?.map fun s => (s.received, s.alive, s.termErr)) =
      some ([.list [1], .list [2], .list [3]], false, none)) ∧
    ((((mkNet false witnessStages witnessInput).run witnessPicks).sink?.map fun s => (s.received, s.termErr)) =
      some ([.list [1]], none)) := by decide

/-! ### the composition theorem: every schedule of every ordered pipeline -/

/-- the middle nodes `mkNet` builds -/
def midsOf (fusion : Bool) (stages : List Stage) : List Node :=
  if fusion then fuseRuns stages [] else stages.map mkNode

/-- the stages behind each of those nodes -/
def groupsOf (fusion : Bool) (stages : List Stage) : List (List Stage) :=
  if fusion then groupRuns stages [] else stages.map fun s => [s]

theorem midsOf_eq (fusion : Bool) (stages : List Stage) :
    midsOf fusion stages = (groupsOf fusion stages).map nodeOfGroup := by
  cases fusion with
  | true => simp [midsOf, groupsOf, fuseRuns_eq]
  | false => simp [midsOf, groupsOf, List.map_map]; intro a _; rfl

theorem groupsOf_flatten (fusion : Bool) (stages : List Stage) : (groupsOf fusion stages).flatten = stages := by
  cases fusion with
  | true => simp [groupsOf, groupRuns_flatten]
  | false => simp [groupsOf]; induction stages <;> simp_all

theorem groupsOf_good (fusion : Bool) (stages : List Stage) (h : ∀ st ∈ stages, Stage.covered st = true) :
    ∀ g ∈ groupsOf fusion stages, GoodGroup g := by
  cases fusion with
  | true => exact groupRuns_good stages [] h (by simp)
  | false =>
    intro g hg
    simp only [groupsOf, Bool.false_eq_true, if_false, List.mem_map] at hg
    obtain ⟨a, ha, rfl⟩ := hg
    exact Or.inl ⟨a, rfl, h a ha⟩

theorem mkNet_eq (fusion : Bool) (stages : List Stage) (input : List Val) :
    mkNet fusion stages input = wireAll (midsOf fusion stages).length.succ.succ (rawNet (midsOf fusion stages) input) := by
  simp [mkNet, mkNodes, rawNet, midsOf]

theorem midsOf_fresh (fusion : Bool) (stages : List Stage) (h : ∀ st ∈ stages, Stage.covered st = true) :
    ∀ nd ∈ midsOf fusion stages, FreshMid nd := by
  cases fusion with
  | true => exact freshMid_fuseRuns stages [] h (by simp)
  | false =>
    intro nd hnd
    simp only [midsOf, Bool.false_eq_true, if_false, List.mem_map] at hnd
    obtain ⟨st, hst, rfl⟩ := hnd
    exact freshMid_mkNode st (h st hst)

/-- parallel stages -/
def Stage.isParSt : Stage → Bool
  | .opmap _ _ _ _ | .pmap _ _ _ _ => true
  | _ => false

theorem isPar_nodeOfGroup (g : List Stage) (h : isPar (nodeOfGroup g) = true) : ∃ a, g = [a] ∧ Stage.isParSt a = true := by
  match g with
  | [] => simp [nodeOfGroup, isPar] at h
  | [a] =>
    refine ⟨a, rfl, ?_⟩
    cases a <;> simp [nodeOfGroup, mkNode, isPar] at h <;> rfl
  | a :: b :: r => simp [nodeOfGroup, isPar] at h

theorem midsOf_noPar (fusion : Bool) (stages : List Stage) (h : ∀ st ∈ stages, Stage.isParSt st = false) :
    ∀ nd ∈ midsOf fusion stages, isPar nd = false := by
  intro nd hnd
  rw [midsOf_eq] at hnd
  obtain ⟨g, hg, rfl⟩ := List.mem_map.mp hnd
  cases hp : isPar (nodeOfGroup g) with
  | false => rfl
  | true =>
    obtain ⟨a, rfl, ha⟩ := isPar_nodeOfGroup g hp
    have : a ∈ (groupsOf fusion stages).flatten := List.mem_flatten.mpr ⟨[a], hg, by simp⟩
    rw [groupsOf_flatten] at this
    rw [h a this] at ha; simp at ha

/-- the network invariant holds in every state of every run -/
theorem run_inv (P : List Val → Prop) (fusion : Bool) (stages : List Stage) (input : List Val) (picks : List Pick)
    (h : ∀ st ∈ stages, Stage.covered st = true)
    (hpar : (∀ X, P X → Homog X) ∨ ∀ st ∈ stages, Stage.isParSt st = false) :
    GInv P input ((mkNet fusion stages input).run picks) := by
  have hfresh := midsOf_fresh fusion stages h
  have hraw := GInv.raw (P := P) (midsOf fusion stages) input hfresh
    (hpar.imp id fun hp => midsOf_noPar fusion stages hp)
  have hal := rawNet_allAlive (midsOf fusion stages) input hfresh
  have hw := wireAll_inv _ hraw hal (midsOf fusion stages).length.succ.succ (by simp [rawNet])
  rw [mkNet_eq]
  exact hw.1.run picks

theorem semsOf_wireAll (k : Nat) (net : Net) : semsOf (wireAll k net) = semsOf net := by
  induction k with
  | zero => rfl
  | succ k ih => simp only [wireAll]; rw [semsOf_deliver, ih]

/-- the semantic functions along the pipeline `mkNet` builds -/
def FsOf (fusion : Bool) (stages : List Stage) (input : List Val) : List SemFn :=
  midF (.src { rest := input }) ::
    (((groupsOf fusion stages).map fun g => midF (nodeOfGroup g)) ++ [midF (.sink defaultCfg {})])

theorem semsOf_mkNet (fusion : Bool) (stages : List Stage) (input : List Val) (picks : List Pick) :
    semsOf ((mkNet fusion stages input).run picks) = FsOf fusion stages input := by
  rw [semsOf_run, mkNet_eq, semsOf_wireAll]
  simp only [semsOf, rawNet, midsOf_eq, FsOf, List.map_cons, List.map_append, List.map_map, List.map_nil]
  rfl

/-- COMPOSITION, generic in the class `P` of ideal inputs: for every covered pipeline, both fusion modes, every
    schedule — against the list semantics `sem`. -/
theorem C45_gen (P : List Val → Prop) (fusion : Bool) (stages : List Stage) (input : List Val) (picks : List Pick)
    (s : SinkSt) (h : ∀ st ∈ stages, Stage.covered st = true)
    (hpar : (∀ X, P X → Homog X) ∨ ∀ st ∈ stages, Stage.isParSt st = false)
    (hP : ∀ j, P (idealAt (FsOf fusion stages input) input j).1)
    (hs : ((mkNet fusion stages input).run picks).sink? = some s) : SinkOK stages input s := by
  have hinv := run_inv P fusion stages input picks h hpar
  have hsem := semsOf_mkNet fusion stages input picks
  have hok := hinv.sink_ok (by rw [hsem]; exact hP) s hs
  have hlen : ((mkNet fusion stages input).run picks).nodes.length = (groupsOf fusion stages).length + 2 := by
    have := congrArg List.length hsem
    simpa [semsOf, FsOf] using this
  rw [hsem, hlen] at hok
  have hidx : (groupsOf fusion stages).length + 2 - 2 =
      ((groupsOf fusion stages).map fun g => midF (nodeOfGroup g)).length := by simp
  rw [hidx] at hok
  unfold FsOf at hok
  rw [idealAt_eq_semF] at hok
  have hrel := semF_groups (groupsOf fusion stages) (groupsOf_good fusion stages h) input
  rw [groupsOf_flatten] at hrel
  obtain ⟨r1, r2, r3⟩ := hrel
  obtain ⟨k1, k2, k3, k4, k5⟩ := hok
  refine ⟨k1, k2, by rw [← r1]; exact k3, fun ha he => ?_, fun e he => r3 e (k5 e he)⟩
  obtain ⟨h1, h2⟩ := k4 ha he
  exact ⟨by rw [← r1]; exact h1, r2.mp h2⟩

theorem covered_of_ordered (stages : List Stage) (h : orderedPipeline stages = true) :
    ∀ st ∈ stages, Stage.covered st = true := by
  intro st hst
  have := List.all_eq_true.mp h st hst
  cases st <;> simp_all [Stage.covered]

/-- every link of the ideal pipeline carries elements of one type when the input does -/
theorem ideals_homog (fusion : Bool) (stages : List Stage) (input : List Val)
    (h : ∀ st ∈ stages, Stage.covered st = true) (hin : Homog input) :
    ∀ j, Homog (idealAt (FsOf fusion stages input) input j).1 := by
  apply idealAt_homog _ _ _ hin
  intro F hF X hX
  simp only [FsOf, List.mem_cons, List.mem_append, List.mem_map, List.mem_singleton] at hF
  rcases hF with rfl | ⟨g, hg, rfl⟩ | rfl | hF
  · exact hX
  · exact group_homog g (groupsOf_good fusion stages h g hg) X hX
  · exact hX
  · simp at hF

/-- The full property as stated for typed streams: the input elements have one type (the Go API's `Of[T]`);
    every pipeline without the unordered ParallelMap, both fusion modes, every schedule. -/
def C45_typed : Prop :=
  ∀ (fusion : Bool) (stages : List Stage) (input : List Val) (picks : List Pick) (s : SinkSt),
    orderedPipeline stages = true → Homog input →
    ((mkNet fusion stages input).run picks).sink? = some s → SinkOK stages input s

theorem C45_holds : C45_typed := by
  intro fusion stages input picks s ho hin hs
  have hcov := covered_of_ordered stages ho
  exact C45_gen Homog fusion stages input picks s hcov (Or.inl fun _ hX => hX)
    (ideals_homog fusion stages input hcov hin) hs

/-- pipelines without any parallel stage: no assumption on the input at all -/
def flowPipeline (stages : List Stage) : Prop :=
  ∀ st ∈ stages, Stage.covered st = true ∧ Stage.isParSt st = false

theorem C45_partial_all (fusion : Bool) (stages : List Stage) (input : List Val) (picks : List Pick) (s : SinkSt)
    (h : flowPipeline stages) (hs : ((mkNet fusion stages input).run picks).sink? = some s) :
    SinkOK stages input s :=
  C45_gen (fun _ => True) fusion stages input picks s (fun st hst => (h st hst).1)
    (Or.inr fun st hst => (h st hst).2) (fun _ => trivial) hs

theorem C45_partial (stages : List Stage) (input : List Val) (picks : List Pick) (s : SinkSt)
    (h : flowPipeline stages) (hs : ((mkNet false stages input).run picks).sink? = some s) :
    SinkOK stages input s := C45_partial_all false stages input picks s h hs

theorem C45_partial_fused (stages : List Stage) (input : List Val) (picks : List Pick) (s : SinkSt)
    (h : flowPipeline stages) (hs : ((mkNet true stages input).run picks).sink? = some s) :
    SinkOK stages input s := C45_partial_all true stages input picks s h hs

/-- without the typing assumption the untyped model refutes `C45_full`: an OrderedParallelMap that has a failing
    int in flight when a list element arrives stops with the type error, which `sem` does not list -/
theorem C45_full_untyped_witness :
    (sem [.opmap 2 0 (some 5) "P0"] [.int 5, .list []]).2 = ["P0"] ∧
    (((mkNet false [.opmap 2 0 (some 5) "P0"] [.int 5, .list []]).run
        [.up 1, .up 0, .down 0, .down 0, .down 1]).sink?.map (·.termErr)) = some (some typeErr) := by decide

/-- hence the statement over ALL (also ill-typed) inputs is false of the untyped model; the typed statement is `C45_holds` -/
theorem C45_full_refuted_untyped : ¬ C45_full := by
  intro h
  obtain ⟨hsem, hrun⟩ := C45_full_untyped_witness
  cases hs : ((mkNet false [.opmap 2 0 (some 5) "P0"] [.int 5, .list []]).run
      [.up 1, .up 0, .down 0, .down 0, .down 1]).sink? with
  | none => rw [hs] at hrun; simp at hrun
  | some s =>
    rw [hs] at hrun
    simp only [Option.map_some, Option.some.injEq] at hrun
    have := (h false _ _ _ s (by decide) hs).2.2.2.2 typeErr hrun
    rw [hsem] at this
    simp [typeErr] at this

/-! non-vacuity -/
example : flowPipeline [.map 1, .filter 2 0, .scan, .batch 3, .flatten, .buffer 3] := by
  intro st hst; simp at hst; rcases hst with rfl | rfl | rfl | rfl | rfl | rfl <;> exact ⟨rfl, rfl⟩

example : orderedPipeline [.map 1, .opmap 3 2 (some 7) "P1", .batch 2] = true ∧ Homog [.int 1, .int 7, .int 3] :=
  ⟨by decide, Or.inl (by intro v hv; simp at hv; rcases hv with rfl | rfl | rfl <;> rfl)⟩

end GoaktVerif.C45

/-
C45 — "For any finite input and any composition of linear stages (Map, TryMap, Filter, FlatMap, Flatten,
Scan, Deduplicate, Batch, Buffer, OrderedParallelMap, ParallelMap), the sink receives exactly the elements
the corresponding list computation produces, in order (as a multiset for ParallelMap), and the stream
completes exactly once; a stage error ends the stream with that error."

Model: Model/C45 (stage actors as state machines, FIFO links, every scheduler choice a `Pick`).
Spec:  Spec/C45 (`sem`, plain list functions).
-/
import GoaktVerif.Model.C45.Net
import GoaktVerif.Spec.C45
import GoaktVerif.Lemmas.C45.Sem
import GoaktVerif.Lemmas.C45.Flow
import GoaktVerif.Lemmas.C45.Sink
import GoaktVerif.Lemmas.C45.Bridge
import GoaktVerif.Lemmas.C45.FusedBridge

namespace GoaktVerif.C45
open GoaktVerif.Model.C45 GoaktVerif.Spec.C45

/-- pipelines whose stages all emit in input order (everything except the unordered ParallelMap) -/
def orderedPipeline (stages : List Stage) : Bool :=
  stages.all fun s => match s with
    | .pmap _ _ _ _ => false
    | _ => true

/-- what the sink may have observed, given the list semantics of the pipeline -/
def SinkOK (stages : List Stage) (input : List Val) (s : SinkSt) : Prop :=
  -- the completion hook never runs twice, and has run once when the sink has stopped
  s.hooks ≤ 1 ∧ (s.alive = false → s.hooks = 1) ∧
  -- at every moment the elements received are a prefix of the list semantics
  s.received <+: (sem stages input).1 ∧
  -- normal completion: exactly the list semantics, and no stage fails on this input
  (s.alive = false → s.termErr = none → s.received = (sem stages input).1 ∧ (sem stages input).2 = []) ∧
  -- failure: with an error some stage raises on this input
  (∀ e, s.termErr = some e → e ∈ (sem stages input).2)

/-- The full property (safety part), for every pipeline, input, fusion mode and EVERY schedule. -/
def C45_full : Prop :=
  ∀ (fusion : Bool) (stages : List Stage) (input : List Val) (picks : List Pick) (s : SinkSt),
    orderedPipeline stages = true →
    ((mkNet fusion stages input).run picks).sink? = some s → SinkOK stages input s

/-! ### the former refutation witness (finding C45-F1, fixed by 688097a)

`[Batch 1, Buffer 1]` on `[1,2,3]`: Buffer(1) asks the Batch for one element at a time. Before the fix the Batch
dropped `[2,3]` on the schedule below; now the window waits for demand and every schedule tried delivers all. -/

def witnessStages : List Stage := [.batch 1, .buffer 1]
def witnessInput : List Val := [.int 1, .int 2, .int 3]
def witnessPicks : List Pick :=
  [.up 2, .up 1, .up 0, .down 0, .down 0, .down 0, .down 0, .down 1, .down 1, .down 2, .down 2]

/-- regression (a TEST on one schedule, not a theorem about all): after the old failing prefix the run
    continues and the sink ends with the full list semantics -/
theorem witness_regression :
    (((simulate false false witnessStages witnessInput).sink?.map fun s => (s.received, s.alive, s.termErr)) =
      some ([.list [1], .list [2], .list [3]], false, none)) ∧
    ((((mkNet false witnessStages witnessInput).run witnessPicks).sink?.map fun s => (s.received, s.termErr)) =
      some ([.list [1]], none)) := by decide

/-! ### the composition theorem: every schedule of every pipeline of flowActor-backed stages -/

/-- pipelines covered by the composition theorem: Map, TryMap, Filter, FlatMap, Flatten, Scan, Deduplicate,
    Buffer, list-sum (flowActor-backed) and Batch — the parallel stages are modelled and tied by replay but are
    not yet inside the composition proof -/
def flowPipeline (stages : List Stage) : Prop := ∀ st ∈ stages, Stage.covered st = true

/-- the middle nodes `mkNet` builds -/
def midsOf (fusion : Bool) (stages : List Stage) : List Node :=
  if fusion then fuseRuns stages [] else stages.map mkNode

theorem mkNet_eq (fusion : Bool) (stages : List Stage) (input : List Val) :
    mkNet fusion stages input = wireAll (midsOf fusion stages).length.succ.succ (rawNet (midsOf fusion stages) input) := by
  simp [mkNet, mkNodes, rawNet, midsOf]

theorem midsOf_fresh (fusion : Bool) (stages : List Stage) (h : flowPipeline stages) :
    ∀ nd ∈ midsOf fusion stages, FreshMid nd := by
  cases fusion with
  | true => exact freshMid_fuseRuns stages [] h (by simp)
  | false =>
    intro nd hnd
    simp only [midsOf, Bool.false_eq_true, if_false, List.mem_map] at hnd
    obtain ⟨st, hst, rfl⟩ := hnd
    exact freshMid_mkNode st (h st hst)

/-- the network invariant holds in every state of every run -/
theorem run_inv (fusion : Bool) (stages : List Stage) (input : List Val) (picks : List Pick)
    (h : flowPipeline stages) : GInv input ((mkNet fusion stages input).run picks) := by
  have hfresh := midsOf_fresh fusion stages h
  have hraw := GInv.raw (midsOf fusion stages) input hfresh
  have hal := rawNet_allAlive (midsOf fusion stages) input hfresh
  have hw := wireAll_inv _ hraw hal (midsOf fusion stages).length.succ.succ (by simp [rawNet])
  rw [mkNet_eq]
  exact hw.1.run picks

theorem semsOf_wireAll (k : Nat) (net : Net) : semsOf (wireAll k net) = semsOf net := by
  induction k with
  | zero => rfl
  | succ k ih => simp only [wireAll]; rw [semsOf_deliver, ih]

theorem nodes_length_run (net : Net) (picks : List Pick) : (semsOf (net.run picks)).length = (semsOf net).length := by
  rw [semsOf_run]

/-- COMPOSITION (any fusion mode), against the semantic functions of the nodes `mkNet` builds:
    at every moment of every schedule the sink's record is a prefix of the ideal output, the hook runs at
    most once, normal completion means the whole ideal output with no failing stage, a failure carries a
    candidate error. -/
theorem net_correct (fusion : Bool) (stages : List Stage) (input : List Val) (picks : List Pick) (s : SinkSt)
    (h : flowPipeline stages) (hs : ((mkNet fusion stages input).run picks).sink? = some s) :
    let Fs := (rawNet (midsOf fusion stages) input).nodes.map midF
    SinkOK' (idealAt Fs input (midsOf fusion stages).length).1 (idealAt Fs input (midsOf fusion stages).length).2 s := by
  have hinv := run_inv fusion stages input picks h
  have hok := hinv.sink_ok s hs
  have hsem : semsOf ((mkNet fusion stages input).run picks) = (rawNet (midsOf fusion stages) input).nodes.map midF := by
    rw [semsOf_run, mkNet_eq, semsOf_wireAll]; rfl
  have hlen : ((mkNet fusion stages input).run picks).nodes.length = (midsOf fusion stages).length + 2 := by
    have := congrArg List.length hsem
    simpa [semsOf, rawNet] using this
  rw [hsem, hlen] at hok
  simpa using hok

/-- C45 for every pipeline of flowActor-backed stages run WITHOUT fusion, every input, every schedule:
    the full property against the list semantics `sem`. -/
theorem C45_partial (stages : List Stage) (input : List Val) (picks : List Pick) (s : SinkSt)
    (h : flowPipeline stages) (hs : ((mkNet false stages input).run picks).sink? = some s) :
    SinkOK stages input s := by
  have hn := net_correct false stages input picks s h hs
  have hmids : midsOf false stages = stages.map mkNode := by simp [midsOf]
  have hFs : (rawNet (midsOf false stages) input).nodes.map midF =
      midF (.src { rest := input }) :: ((stages.map stageF) ++ [midF (.sink defaultCfg {})]) := by
    simp only [rawNet, hmids, List.map_cons, List.map_append, List.map_map, List.map_nil]
    congr 2
    apply List.map_congr_left
    intro st hst
    exact midF_mkNode st (h st hst)
  have hlen : (midsOf false stages).length = (stages.map stageF).length := by simp [hmids]
  simp only at hn
  rw [hFs, hlen, idealAt_eq_semF, semF_eq_sem stages h] at hn
  exact hn

/-- the same with stage fusion ON (`applyFusion` merges runs of ≥ 2 adjacent Map/TryMap/Filter stages into one
    fusedFlowActor that composes them element by element): still the list semantics. -/
theorem C45_partial_fused (stages : List Stage) (input : List Val) (picks : List Pick) (s : SinkSt)
    (h : flowPipeline stages) (hs : ((mkNet true stages input).run picks).sink? = some s) :
    SinkOK stages input s := by
  have hn := net_correct true stages input picks s h hs
  have hmids : midsOf true stages = (groupRuns stages []).map nodeOfGroup := by
    simp [midsOf, fuseRuns_eq]
  have hFs : (rawNet (midsOf true stages) input).nodes.map midF =
      midF (.src { rest := input }) ::
        (((groupRuns stages []).map fun g => midF (nodeOfGroup g)) ++ [midF (.sink defaultCfg {})]) := by
    simp only [rawNet, hmids, List.map_cons, List.map_append, List.map_map, List.map_nil]
    rfl
  have hlen : (midsOf true stages).length = ((groupRuns stages []).map fun g => midF (nodeOfGroup g)).length := by
    simp [hmids]
  simp only at hn
  rw [hFs, hlen, idealAt_eq_semF] at hn
  have hrel := semF_groups (groupRuns stages []) (groupRuns_good stages [] h (by simp)) input
  rw [groupRuns_flatten] at hrel
  simp only [List.reverse_nil, List.nil_append] at hrel
  obtain ⟨r1, r2, r3⟩ := hrel
  obtain ⟨k1, k2, k3, k4, k5⟩ := hn
  refine ⟨k1, k2, by rw [← r1]; exact k3, fun ha he => ?_, fun e he => r3 e (k5 e he)⟩
  obtain ⟨h1, h2⟩ := k4 ha he
  exact ⟨by rw [← r1]; exact h1, r2.mp h2⟩

/-- C45 for every pipeline without parallel stages, both fusion modes, every input, every schedule -/
theorem C45_partial_all (fusion : Bool) (stages : List Stage) (input : List Val) (picks : List Pick) (s : SinkSt)
    (h : flowPipeline stages) (hs : ((mkNet fusion stages input).run picks).sink? = some s) :
    SinkOK stages input s := by
  cases fusion with
  | false => exact C45_partial stages input picks s h hs
  | true => exact C45_partial_fused stages input picks s h hs

/-! non-vacuity -/
example : flowPipeline [.map 1, .filter 2 0, .scan, .batch 3, .flatten, .buffer 3] := by
  intro st hst; simp at hst; rcases hst with rfl | rfl | rfl | rfl | rfl | rfl <;> rfl

end GoaktVerif.C45

/-
C45 — "For any finite input and any composition of linear stages (Map, TryMap, Filter, FlatMap, Flatten,
Scan, Deduplicate, Batch, Buffer, OrderedParallelMap, ParallelMap), the sink receives exactly the elements
the corresponding list computation produces, in order (as a multiset for ParallelMap), and the stream
completes exactly once; a stage error ends the stream with that error."

Model: Model/C45 (stage actors as state machines, FIFO links, every scheduler choice a `Pick`).
Spec:  Spec/C45 (`sem`, plain list functions).
-/
import GoaktVerif.Model.C45.Net
import GoaktVerif.Spec.C45
import GoaktVerif.Lemmas.C45.Sem
import GoaktVerif.Lemmas.C45.Flow
import GoaktVerif.Lemmas.C45.Sink

namespace GoaktVerif.C45
open GoaktVerif.Model.C45 GoaktVerif.Spec.C45

/-- pipelines whose stages all emit in input order (everything except the unordered ParallelMap) -/
def orderedPipeline (stages : List Stage) : Bool :=
  stages.all fun s => match s with
    | .pmap _ _ _ _ => false
    | _ => true

/-- what the sink may have observed, given the list semantics of the pipeline -/
def SinkOK (stages : List Stage) (input : List Val) (s : SinkSt) : Prop :=
  -- the completion hook never runs twice, and has run once when the sink has stopped
  s.hooks ≤ 1 ∧ (s.alive = false → s.hooks = 1) ∧
  -- at every moment the elements received are a prefix of the list semantics
  s.received <+: (sem stages input).1 ∧
  -- normal completion: exactly the list semantics, and no stage fails on this input
  (s.alive = false → s.termErr = none → s.received = (sem stages input).1 ∧ (sem stages input).2 = []) ∧
  -- failure: with an error some stage raises on this input
  (∀ e, s.termErr = some e → e ∈ (sem stages input).2)

/-- The full property (safety part), for every pipeline, input, fusion mode and EVERY schedule. -/
def C45_full : Prop :=
  ∀ (fusion : Bool) (stages : List Stage) (input : List Val) (picks : List Pick) (s : SinkSt),
    orderedPipeline stages = true →
    ((mkNet fusion stages input).run picks).sink? = some s → SinkOK stages input s

/-! ### refutation: Batch loses its window when downstream demand is exhausted (finding C45-F1) -/

def witnessStages : List Stage := [.batch 1, .buffer 1]
def witnessInput : List Val := [.int 1, .int 2, .int 3]
/-- Buffer(1) asks the Batch for one element; the Batch handles 1,2,3 and streamComplete before the
    Buffer's next request arrives: `flush` finds `downstreamDemand = 0` twice, then completion drops [2,3]. -/
def witnessPicks : List Pick :=
  [.up 2, .up 1, .up 0, .down 0, .down 0, .down 0, .down 0, .down 1, .down 1, .down 2, .down 2]

theorem witness_run :
    (((mkNet false witnessStages witnessInput).run witnessPicks).sink?.map
        fun s => (s.received, s.alive, s.termErr)) = some ([.list [1]], false, none) := by decide

theorem witness_sem : (sem witnessStages witnessInput).1 = [.list [1], .list [2], .list [3]] := by decide

theorem C45_refuted : ¬ C45_full := by
  intro h
  have hw := witness_run
  cases hs : ((mkNet false witnessStages witnessInput).run witnessPicks).sink? with
  | none => rw [hs] at hw; simp at hw
  | some s =>
    rw [hs] at hw
    simp only [Option.map_some, Option.some.injEq, Prod.mk.injEq] at hw
    obtain ⟨hr, ha, he⟩ := hw
    have := (h false witnessStages witnessInput witnessPicks s (by decide) hs).2.2.2.1 ha he
    rw [hr, witness_sem] at this
    exact absurd this.1 (by decide)

end GoaktVerif.C45

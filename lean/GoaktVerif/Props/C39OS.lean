/-
C39, OR-set under FULL-STATE replication.

The delta path of the OR-set is broken (C39-F1: `orset_violates_delta_law`).  The full-state path —
what anti-entropy ships for every type, and what ORMap ships for its key set on every update — is
sound: on well-formed OR-sets `Merge` is a join for the observation
(version vector as a function, (element, dot) pairs as a set), `Add` / `Remove` are inflationary,
so replicas that exchange full states (current or stale, in any order, duplicated, or never) and
have seen the same updates hold the same (element, dot) set, hence the same `Elements()`.

Technique: the generic theorem of `Lemmas/C39Net.lean` (`Laws` ⇒ `reach_inv` ⇒ `converge`),
instantiated with
* cores = `(Nat → Nat) × (Nat → Dot → Prop)` (clock function, holds-relation): C38's equivalence
  `eqvOS` made an EQUALITY by function / proposition extensionality;
* `osFullOps` = `cvOps` with `Delta()` replaced by "the whole state": the replicator handlers of
  `Model/C41.lean` are unchanged, only what an update publishes differs, so every logged message is the
  updater's full state right after the update (a full-state message that may be delivered late,
  twice, out of order, or never), and `Act.sync` is a fresh anti-entropy full state;
  `upd_states_eq` shows that an update changes the replicas exactly as under the real `cvOps`.
The codec is taken as the identity here; that DecodeCRDT∘EncodeCRDT preserves entries, dots and
clock of an OR-set is `GoaktVerif.C40.orset_roundtrip`.
-/
import GoaktVerif.Props.C39
import GoaktVerif.Lemmas.C38.ORSetReach

namespace GoaktVerif.C39
open GoaktVerif.Model.Crdt GoaktVerif.Model.Crdt.AMap GoaktVerif.Model.C40 GoaktVerif.Model.C41 GoaktVerif.Model.C39 GoaktVerif.C38

/-! ### the core and its join -/

/-- observation of an OR-set: clock as a function, (element, dot) membership as a relation -/
abbrev OsCore := (Nat → Nat) × (Nat → Dot → Prop)

def osCoreOf (s : ORSet) : OsCore := (fun n => ORSet.clockOf s n, fun e d => d ∈ s.dotsOf e)

/-- the merge rule on observations (`has_merge`, `clockOf_merge`) -/
def osJoin (a b : OsCore) : OsCore :=
  (fun n => max (a.1 n) (b.1 n),
   fun e d => (a.2 e d ∧ (¬ d.counter ≤ b.1 d.nodeID ∨ b.2 e d)) ∨ (b.2 e d ∧ (¬ d.counter ≤ a.1 d.nodeID ∨ a.2 e d)))

/-- 1 ≤ dots ≤ clock (a counter is a clock value after a tick, never 0) -/
def osCoreWF (a : OsCore) : Prop := ∀ e d, a.2 e d → 1 ≤ d.counter ∧ d.counter ≤ a.1 d.nodeID

theorem osJoin_wf (a b : OsCore) (ha : osCoreWF a) (hb : osCoreWF b) : osCoreWF (osJoin a b) := by
  intro e d h
  simp only [osJoin] at h ⊢
  rcases h with ⟨h, _⟩ | ⟨h, _⟩
  · have := ha e d h; exact ⟨this.1, by omega⟩
  · have := hb e d h; exact ⟨this.1, by omega⟩

def osSemi : Semi OsCore where
  join := osJoin
  bot := (fun _ => 0, fun _ _ => False)
  WF := osCoreWF
  wf_bot := by intro e d h; exact absurd h id
  wf_join := osJoin_wf
  comm := by
    intro a b _ _
    simp only [osJoin]
    refine Prod.ext ?_ ?_
    · funext n; dsimp only; exact Nat.max_comm _ _
    · funext e d; dsimp only; exact propext Or.comm
  assoc := by
    intro a b c ha hb hc
    simp only [osJoin]
    refine Prod.ext ?_ ?_
    · funext n; dsimp only; exact Nat.max_assoc _ _ _
    · funext e d
      apply propext
      dsimp only
      have h1 := ha e d
      have h2 := hb e d
      have h3 := hc e d
      generalize a.1 d.nodeID = ca at *
      generalize b.1 d.nodeID = cb at *
      generalize c.1 d.nodeID = cc at *
      generalize a.2 e d = pa at *
      generalize b.2 e d = pb at *
      generalize c.2 e d = pc at *
      by_cases x : pa <;> by_cases y : pb <;> by_cases z : pc <;>
        simp only [x, y, z, true_and, false_and, or_false, false_or, or_true, and_true, true_implies,
          false_implies, forall_const] at * <;> omega
  idem := by
    intro a _
    simp only [osJoin]
    refine Prod.ext ?_ ?_
    · funext n; dsimp only; exact Nat.max_self _
    · funext e d
      dsimp only
      apply propext
      constructor
      · rintro (⟨h, _⟩ | ⟨h, _⟩) <;> exact h
      · intro h; exact Or.inl ⟨h, Or.inr h⟩
  bot_join := by
    intro a ha
    simp only [osJoin]
    refine Prod.ext ?_ ?_
    · funext n; dsimp only; exact Nat.zero_max _
    · funext e d
      dsimp only
      apply propext
      constructor
      · rintro (⟨h, _⟩ | ⟨h, _⟩)
        · exact absurd h id
        · exact h
      · intro h; exact Or.inr ⟨h, Or.inl (by have := (ha e d h).1; omega)⟩

theorem osCoreOf_merge (s o : ORSet) (ho : o.clock.Sorted) :
    osCoreOf (s.merge o) = osJoin (osCoreOf s) (osCoreOf o) := by
  simp only [osCoreOf, osJoin]
  refine Prod.ext ?_ ?_
  · funext n; dsimp only; exact clockOf_merge s o ho n
  · funext e d; dsimp only; exact propext (has_merge s o e d)

/-- every dot was produced by a tick: its counter is at least 1 -/
def osPos (s : ORSet) : Prop := ∀ e d, d ∈ s.dotsOf e → 1 ≤ d.counter

theorem osCoreOf_wf {s : ORSet} (h : s.WF) (hp : osPos s) : osCoreWF (osCoreOf s) :=
  fun e d hd => ⟨hp e d hd, h.dots_le e d hd⟩

/-- same core ⇒ same `Elements()` (on maps) -/
theorem elements_of_core {a b : ORSet} (ha : a.entries.Sorted) (hb : b.entries.Sorted)
    (h : osCoreOf a = osCoreOf b) : a.elements = b.elements := by
  have h1 : ∀ n, ORSet.clockOf a n = ORSet.clockOf b n := fun n => congrFun (congrArg Prod.fst h) n
  have h2 : ∀ e d, d ∈ a.dotsOf e ↔ d ∈ b.dotsOf e := fun e d =>
    iff_of_eq (congrFun (congrFun (congrArg Prod.snd h) e) d)
  exact (eqvOS_of ha hb h1 h2).2.2

/-! ### Add and Remove are inflationary -/

theorem osCoreOf_resetDelta (s : ORSet) : osCoreOf s.resetDelta = osCoreOf s := rfl

theorem dotsOf_add (s : ORSet) (n e e' : Nat) (d : Dot) : d ∈ (s.add n e).dotsOf e' ↔
    (d ∈ s.dotsOf e' ∨ (e' = e ∧ d = ⟨n, ORSet.clockOf s n + 1⟩)) := by
  simp only [ORSet.add, tick, ORSet.dotsOf, ORSet.clockOf]
  rw [getD_set]
  split
  · rename_i he; subst he
    simp [List.mem_append]
  · rename_i he; simp [he]

theorem dotsOf_remove {s : ORSet} (h : s.entries.Sorted) (e e' : Nat) (d : Dot) :
    d ∈ (s.remove e).dotsOf e' ↔ (d ∈ s.dotsOf e' ∧ e' ≠ e) := by
  unfold ORSet.remove
  split
  · rename_i hnone
    constructor
    · intro hx
      refine ⟨hx, ?_⟩
      rintro rfl
      rw [dotsOf_eq_nil_of_get?_none hnone] at hx
      cases hx
    · exact fun hx => hx.1
  · simp only [ORSet.dotsOf, AMap.getD]
    rw [get?_erase h]
    split
    · rename_i he; subst he; simp
    · rename_i he; simp [he]

theorem pos_add {s : ORSet} (hp : osPos s) (n e : Nat) : osPos (s.add n e) := by
  intro e' d hd
  rcases (dotsOf_add s n e e' d).mp hd with hx | ⟨_, rfl⟩
  · exact hp e' d hx
  · simp

theorem pos_remove {s : ORSet} (h : s.entries.Sorted) (hp : osPos s) (e : Nat) : osPos (s.remove e) :=
  fun e' d hd => hp e' d ((dotsOf_remove h e e' d).mp hd).1

theorem pos_merge {s o : ORSet} (hs : osPos s) (ho : osPos o) : osPos (s.merge o) := by
  intro e d hd
  rcases (has_merge s o e d).mp hd with ⟨hx, _⟩ | ⟨hx, _⟩
  · exact hs e d hx
  · exact ho e d hx

theorem pos_new : osPos ORSet.new := by
  intro e d hd
  simp [ORSet.dotsOf, ORSet.new, AMap.getD] at hd

theorem add_inflationary {s : ORSet} (h : s.WF) (n e : Nat) :
    osCoreOf (s.add n e) = osJoin (osCoreOf s) (osCoreOf (s.add n e)) := by
  have hc : ∀ k, ORSet.clockOf (s.add n e) k = if k = n then ORSet.clockOf s n + 1 else ORSet.clockOf s k := by
    intro k
    simp only [ORSet.clockOf, ORSet.add, tick]
    rw [getD_set]
  have hd := dotsOf_add s n e
  simp only [osCoreOf, osJoin]
  refine Prod.ext ?_ ?_
  · funext k
    dsimp only
    rw [hc]
    split
    · subst k; omega
    · omega
  · funext e' d
    dsimp only
    apply propext
    rw [hd]
    have hle := fun hx => h.dots_le e' d hx
    constructor
    · rintro (hx | ⟨rfl, rfl⟩)
      · exact Or.inl ⟨hx, Or.inr (Or.inl hx)⟩
      · refine Or.inr ⟨Or.inr ⟨rfl, rfl⟩, Or.inl ?_⟩
        simp only [ORSet.clockOf]; omega
    · rintro (⟨hx, _⟩ | ⟨hx, _⟩)
      · exact Or.inl hx
      · exact hx

theorem remove_inflationary {s : ORSet} (h : s.WF) (e : Nat) :
    osCoreOf (s.remove e) = osJoin (osCoreOf s) (osCoreOf (s.remove e)) := by
  have hc : ∀ k, ORSet.clockOf (s.remove e) k = ORSet.clockOf s k := by
    intro k; unfold ORSet.remove ORSet.clockOf; split <;> rfl
  have hd := dotsOf_remove h.entries_sorted e
  simp only [osCoreOf, osJoin]
  refine Prod.ext ?_ ?_
  · funext k; dsimp only; rw [hc]; exact (Nat.max_self _).symm
  · funext e' d
    dsimp only
    apply propext
    rw [hd, hc]
    have hle := fun hx => h.dots_le e' d hx
    simp only [ORSet.clockOf] at *
    constructor
    · intro hx; exact Or.inr ⟨hx, Or.inr hx.1⟩
    · rintro (⟨hx, hy⟩ | ⟨hx, _⟩)
      · rcases hy with hy | hy
        · exact absurd (hle hx) hy
        · exact hy
      · exact hx

/-! ### the instance -/

/-- the replicator operations with full-state propagation: `Delta()` = the whole state -/
def osFullOps : Ops CV := { cvOps with delta := fun v => some v }

/-- what a handled Update does to the replicas does not depend on what is published -/
theorem upd_states_eq (wire : CV → Option CV) (w : FNet CV) (i k dt : Nat) (init : CV) (f : CV → CV) :
    (w.step osFullOps wire (.upd i k dt init f)).reps = (w.step cvOps wire (.upd i k dt init f)).reps := by
  simp only [FNet.step, Model.C41.step, handleUpdate, osFullOps, cvOps]
  split <;> rfl

def osCore : CV → OsCore
  | .os s => osCoreOf s
  | _ => osSemi.bot

def osOk (v : CV) : Prop := ∃ s, v = .os s ∧ s.WF ∧ osPos s

def osRemF (e : Nat) : CV → CV
  | .os s => .os (s.remove e)
  | v => v

def osAddF (n e : Nat) : CV → CV
  | .os s => .os (s.add n e)
  | v => v

/-- Modify closures of an OR-set key: Add (any node id) and Remove -/
def osMut (f : CV → CV) (_ : CV) : Prop := (∃ n e, f = osAddF n e) ∨ (∃ e, f = osRemF e)

theorem os_laws : Laws osFullOps some (.os .new) osSemi osCore osOk osMut where
  ok_wf := by rintro v ⟨s, rfl, h, hp⟩; exact osCoreOf_wf h hp
  ok_init := ⟨.new, rfl, ORSet.wf_new, pos_new⟩
  core_init := by
    simp only [osCore, osCoreOf, osSemi]
    refine Prod.ext rfl ?_
    funext e d
    simp [ORSet.dotsOf, ORSet.new, AMap.getD]
  merge_ok := by
    rintro a b ⟨sa, rfl, ha, pa⟩ ⟨sb, rfl, hb, pb⟩
    exact ⟨⟨_, rfl, wf_merge ha hb, pos_merge pa pb⟩, osCoreOf_merge sa sb hb.clock_sorted⟩
  wire_ok := by
    rintro v v' h hw
    cases hw
    exact ⟨h, rfl⟩
  upd_none := by
    intro f s _ _ hnone
    simp [osFullOps] at hnone
  upd_some := by
    rintro f s d hm ⟨x, rfl, hx, px⟩ hsome
    simp only [osFullOps, Option.some.injEq] at hsome
    subst hsome
    rcases hm with ⟨n, e, rfl⟩ | ⟨e, rfl⟩
    · exact ⟨_, rfl, ⟨_, rfl, wf_add hx n e, pos_add px n e⟩, ⟨_, rfl, ORSet.wf_resetDelta (wf_add hx n e), pos_add px n e⟩, add_inflationary hx n e⟩
    · exact ⟨_, rfl, ⟨_, rfl, wf_remove hx e, pos_remove hx.entries_sorted px e⟩, ⟨_, rfl, ORSet.wf_resetDelta (wf_remove hx e), pos_remove hx.entries_sorted px e⟩, remove_inflationary hx e⟩

/-- OR-set under full-state replication: for every history of Adds (any node ids) and Removes at any
    replicas, with the updaters' full states delivered late, out of order, duplicated or never, and
    fresh full-state merges between any two replicas at any time, two replicas that have seen the
    same updates hold the same (element, dot) pairs and version vector, hence expose the same
    `Elements()`. -/
theorem C39_orset_fullstate (w : FNet CV) (arr : Nat → List Nat)
    (h : Reach osFullOps some (.os .new) osMut 3 3 w arr) (i i' : Nat)
    (h1 : ∀ j ∈ arr i, j ∈ arr i') (h2 : ∀ j ∈ arr i', j ∈ arr i)
    (v v' : CV) (hv : w.at i 3 = some v) (hv' : w.at i' 3 = some v') :
    ∃ s s', v = .os s ∧ v' = .os s' ∧ osCoreOf s = osCoreOf s' ∧ s.elements = s'.elements := by
  have hc := converge os_laws w arr h i i' h1 h2 v v' hv hv'
  have inv := reach_inv os_laws w arr h
  have a := inv.val i
  have b := inv.val i'
  unfold FNet.at at hv hv'
  rw [hv] at a; rw [hv'] at b
  obtain ⟨⟨s, rfl, hs, _⟩, _⟩ := a
  obtain ⟨⟨s', rfl, hs', _⟩, _⟩ := b
  exact ⟨s, s', rfl, rfl, hc, elements_of_core hs.entries_sorted hs'.entries_sorted hc⟩

/-- non-vacuity, and the contrast with C39-F1: the history of `orset_delta_loses_add` (replica 0 adds
    1 then 2) under full-state propagation: replica 1 receives both messages and holds {1, 2};
    it has seen the same updates as replica 0. -/
example : ∃ (w : FNet CV) (arr : Nat → List Nat), Reach osFullOps some (.os .new) osMut 3 3 w arr
    ∧ (∀ j ∈ arr 0, j ∈ arr 1) ∧ (∀ j ∈ arr 1, j ∈ arr 0)
    ∧ (match w.at 1 3 with | some (.os s) => s.elements | _ => []) = [1, 2] := by
  have r1 := Reach.upd (ops := osFullOps) (wire := some) (init := CV.os .new) (Mut := osMut) (k := 3) (dt := 3)
    _ _ 0 (osAddF 1 1) Reach.init (Or.inl ⟨1, 1, rfl⟩)
  have r2 := Reach.upd _ _ 0 (osAddF 1 2) r1 (Or.inl ⟨1, 2, rfl⟩)
  have r3 := Reach.dlv _ _ 1 1 r2
  have r4 := Reach.dlv _ _ 1 0 r3
  exact ⟨_, _, r4, by decide, by decide, by decide⟩

end GoaktVerif.C39

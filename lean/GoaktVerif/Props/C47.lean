/-
C47 — The circuit breaker follows its state machine.

"For any sequence of call outcomes, clock advances and concurrent callers, the breaker opens
 exactly when the windowed failure rate reaches the threshold with at least the minimum number of
 requests, rejects every call while open until the open timeout passes, admits at most the
 configured number of concurrent probes while half-open, and closes again when probes succeed."

Model: Model/C47.lean.  Two granularities: the call level (`cstep`: acquire | outcome+record+release,
any number of concurrent callers) and the atomic level (`fstep`: one step per shared-memory
access, as `tryAcquire` and `record` run them without holding `b.mu` from the read to the
transition).  Spec: Spec/C47.lean (textbook state machine over a queue-shaped rolling window).

Result: at the atomic level the property is FALSE of the current code (`C47_refuted`): a caller that
read `Open ∧ now ≥ openUntil` executes `toHalfOpen()` after another probe has already re-opened the
breaker, so the breaker leaves Open before its timeout; likewise a stale `toClosed()` takes it from
Open to Closed, an edge the state machine does not have.  `C47_partial`: at the call level (every
`tryAcquire` and every `record` atomic, callers still overlapping) the model IS the spec machine
for all histories, and at the atomic level the half-open bound, the open rule and the reject rule
hold for every schedule.
-/
import GoaktVerif.Model.C47
import GoaktVerif.Spec.C47
import GoaktVerif.Lemmas.C47Fine
import GoaktVerif.Lemmas.C47Sim

namespace GoaktVerif.C47
open GoaktVerif.Model.C47 GoaktVerif.Spec.C47

/-! ### the statement, at the atomic level -/

/-- the edges of the breaker's state machine, with the guard of the Open → HalfOpen edge -/
def LegalEdge (now : Int) (b b' : Br) : Prop :=
  b'.state = b.state ∨
  (b.state = .closed ∧ b'.state = .opened) ∨
  (b.state = .halfOpen ∧ b'.state = .opened) ∨
  (b.state = .halfOpen ∧ b'.state = .closed) ∨
  (b.state = .opened ∧ b'.state = .halfOpen ∧ b.openUntil ≤ now)

instance (now : Int) (b b' : Br) : Decidable (LegalEdge now b b') := by unfold LegalEdge; infer_instance

/-- (1) every state change follows the state machine; in particular the breaker stays Open
        (rejecting) until `openUntil` has passed -/
def ClauseEdges (cf : Conf) (s0 : FSys) : Prop :=
  ∀ s l s', FReach cf s0 s → fstep cf s l = some s' → LegalEdge s.now s.b s'.b

/-- (2) half-open tokens in use = threads holding one ≤ halfOpenMaxCalls -/
def ClauseProbes (cf : Conf) (s0 : FSys) : Prop :=
  ∀ s, FReach cf s0 s → s.b.sem = tokens s.pcs ∧ s.b.sem ≤ cf.hmax

/-- (3) the evaluation step of `record`, holding the post-advance window totals `t`, leaves the
        breaker Open iff it was Open already or `total ≥ minRequests ∧ fail/total ≥ rate` -/
def ClauseOpen (cf : Conf) (s0 : FSys) : Prop :=
  ∀ s tid o s' tok t, FReach cf s0 s → s.pcs[tid]? = some (.recEval tok t) → fstep cf s (.thr tid o) = some s' →
    (s'.b.state = .opened ↔ (s.b.state = .opened ∨ (enough cf t = true ∧ tripped cf t = true)))

/-- (4) a caller whose check finds `Open ∧ now < openUntil` is rejected and changes nothing -/
def ClauseReject (cf : Conf) (s0 : FSys) : Prop :=
  ∀ s tid o s', FReach cf s0 s → s.pcs[tid]? = some .acqCheck → s.now < s.b.openUntil →
    fstep cf s (.thr tid o) = some s' → s'.b = s.b ∧ s'.pcs[tid]? = some (.done false)

/-- (5) admission outside Closed needs a token: a thread inside `fn` without a token read `Closed` -/
def C47_full : Prop :=
  ∀ (cf : Conf) (t0 : Int) (n : Nat), ConfOk cf →
    ClauseEdges cf (FSys.new cf t0 n) ∧ ClauseProbes cf (FSys.new cf t0 n) ∧
    ClauseOpen cf (FSys.new cf t0 n) ∧ ClauseReject cf (FSys.new cf t0 n)

/-! ### refutation: the stale `toHalfOpen()` -/

/-- rate 1/1, minRequests 1, openTimeout 1000, one bucket, one probe -/
def wcf : Conf := ⟨1, 1, 1, 1000, 100000, 1, 1⟩

/-- thread 0 fails and opens the breaker at t=0 (openUntil = 1000); the clock moves to 1005;
    thread 1 reads Open, sees the timeout has passed and is about to call toHalfOpen();
    thread 2 does the same, probes, fails and RE-OPENS the breaker (openUntil = 2005) -/
def wprefix : List FLabel :=
  [.thr 0 .fail, .thr 0 .fail, .thr 0 .fail, .thr 0 .fail, .tick 1005,
   .thr 1 .ok, .thr 1 .ok,
   .thr 2 .fail, .thr 2 .fail, .thr 2 .fail, .thr 2 .fail, .thr 2 .fail, .thr 2 .fail, .thr 2 .fail]

def wstate : FSys := frun wcf (FSys.new wcf 0 3) wprefix

theorem frun_reach (cf : Conf) (s0 : FSys) (ls : List FLabel) : ∀ s, FReach cf s0 s → FReach cf s0 (frun cf s ls) := by
  induction ls with
  | nil => intro s h; exact h
  | cons l ls ih =>
    intro s h
    simp only [frun]
    cases hs : fstep cf s l with
    | none => simpa [hs] using ih s h
    | some s' => simpa [hs] using ih s' (FReach.step l h hs)

theorem C47_refuted : ¬ C47_full := by
  intro h
  have hok : ConfOk wcf := by decide
  have h1 := (h wcf 0 3 hok).1
  have hr : FReach wcf (FSys.new wcf 0 3) wstate := frun_reach _ _ _ _ FReach.init
  -- thread 1 now resumes with its stale toHalfOpen(): Open (openUntil 2005) → HalfOpen at now = 1005
  have hstep : fstep wcf wstate (.thr 1 .ok) = some (frun wcf wstate [.thr 1 .ok]) := by decide
  have := h1 wstate (.thr 1 .ok) _ hr hstep
  revert this
  decide

-- what the witness looks like (TEST by evaluation)
example : (wstate.b.state, wstate.now, wstate.b.openUntil) = (.opened, 1005, 2005) := by decide
example : (frun wcf wstate [.thr 1 .ok]).b.state = .halfOpen := by decide

/-! ### what does hold at the atomic level, for every schedule -/

theorem clauseProbes_holds (cf : Conf) (t0 : Int) (n : Nat) : ClauseProbes cf (FSys.new cf t0 n) :=
  fun s h => semInv_reach cf t0 n s h

theorem transitionTo_state (cf : Conf) (now : Int) (t : St) (b : Br) : (transitionTo cf now t b).state = t := by
  unfold transitionTo
  split
  · assumption
  · cases t <;> rfl

theorem clauseOpen_holds (cf : Conf) (s0 : FSys) : ClauseOpen cf s0 := by
  intro s tid o s' tok t _ hp hs
  simp only [fstep, hp, pcStep] at hs
  cases he : enough cf t with
  | false =>
    simp only [he, Bool.not_false, if_true, Option.some.injEq] at hs
    subst hs
    simp
  | true =>
    cases ht : tripped cf t with
    | false =>
      simp only [he, ht, Bool.not_true, Bool.false_eq_true, if_false, Option.some.injEq] at hs
      subst hs
      simp
    | true =>
      simp only [he, ht, Bool.not_true, Bool.false_eq_true, if_false, if_true, Option.some.injEq] at hs
      subst hs
      simp [transitionTo_state]

theorem clauseReject_holds (cf : Conf) (s0 : FSys) : ClauseReject cf s0 := by
  intro s tid o s' _ hp hlt hs
  simp only [fstep, hp, pcStep, hlt, if_true, Option.some.injEq] at hs
  subst hs
  refine ⟨rfl, ?_⟩
  have : tid < s.pcs.length := by
    rcases Nat.lt_or_ge tid s.pcs.length with h | h
    · exact h
    · rw [List.getElem?_eq_none h] at hp; cases hp
  simp [this]

/-- atomic level, every schedule: clauses (2), (3), (4) of the full statement hold -/
theorem C47_atomic_partial (cf : Conf) (t0 : Int) (n : Nat) :
    ClauseProbes cf (FSys.new cf t0 n) ∧ ClauseOpen cf (FSys.new cf t0 n) ∧ ClauseReject cf (FSys.new cf t0 n) :=
  ⟨clauseProbes_holds cf t0 n, clauseOpen_holds cf _, clauseReject_holds cf _⟩

/-! ### call level: the model IS the spec state machine, for all histories with overlapping callers -/

def toSOp : COp → Option SOp
  | .begin id => some (.begin id)
  | .finish id o => some (.finish id (match o with | .ok => some true | .fail => some false | .cancel => none))
  | .precancelled => some .precancelled
  | .metrics => some .metrics
  | .tick d => some (.tick d)
  | .staleToHalfOpen => none       -- not events of the call-level spec: they exist only to replay the
  | .staleToClosed => none         -- atomic-level race through the public harness

def toSOut : COut → SOut
  | .unit => .unit
  | .admitted t => .admitted t
  | .rejected => .rejected
  | .totals s f => .totals s f
  | .unknownCaller => .unknownCaller

structure SysRel (cf : Conf) (s : Sys) (ss : SSys) : Prop where
  now : s.now = ss.now
  b : BRel cf s.b ss.b
  infl : s.inflight = ss.inflight

/-- ONE STEP of the call-level model = one step of the spec machine, same answer -/
theorem cstep_refines (cf : Conf) (hok : ConfOk cf) (s : Sys) (ss : SSys) (h : SysRel cf s ss) (op : COp) (sop : SOp)
    (hop : toSOp op = some sop) :
    SysRel cf (cstep cf s op).1 (sstep (toSConf cf) ss sop).1 ∧
    toSOut (cstep cf s op).2 = (sstep (toSConf cf) ss sop).2 := by
  cases op with
  | begin id =>
    simp only [toSOp, Option.some.injEq] at hop; subst hop
    simp only [cstep, sstep, ← h.infl]
    by_cases hdup : s.inflight.any (fun c => c.1 == id) = true
    · simp only [hdup, if_true]; exact ⟨h, rfl⟩
    · simp only [hdup, Bool.false_eq_true, if_false]
      obtain ⟨h1, h2⟩ := tryAcquire_sim cf s.now s.b ss.b h.b
      rw [← h.now, ← h1]
      by_cases hal : (tryAcquire cf s.now s.b).1.1 = true
      · simp only [hal, if_true]
        exact ⟨⟨rfl, h2, rfl⟩, rfl⟩
      · simp only [hal, Bool.false_eq_true, if_false]
        exact ⟨⟨rfl, h2, rfl⟩, rfl⟩
  | finish id o =>
    simp only [toSOp, Option.some.injEq] at hop; subst hop
    simp only [cstep, sstep, ← h.infl]
    cases hf : s.inflight.find? (fun c => c.1 == id) with
    | none => exact ⟨h, rfl⟩
    | some c =>
      simp only
      refine ⟨⟨h.now, ?_, by simp only [h.infl]⟩, rfl⟩
      rw [← h.now]
      exact finish_sim cf hok s.now o c.2 s.b ss.b h.b
  | precancelled =>
    simp only [toSOp, Option.some.injEq] at hop; subst hop
    exact ⟨h, rfl⟩
  | metrics =>
    simp only [toSOp, Option.some.injEq] at hop; subst hop
    obtain ⟨h1, h2⟩ := metrics_sim cf hok s.now s.b ss.b h.b
    simp only [cstep, sstep, ← h.now]
    refine ⟨⟨rfl, h1, h.infl⟩, ?_⟩
    simp only [toSOut, h2]
  | tick d =>
    simp only [toSOp, Option.some.injEq] at hop; subst hop
    exact ⟨⟨by simp only [cstep, sstep, h.now], h.b, h.infl⟩, rfl⟩
  | staleToHalfOpen => simp [toSOp] at hop
  | staleToClosed => simp [toSOp] at hop

/-- ALL HISTORIES: any sequence of begin/finish (callers overlapping arbitrarily), pre-cancelled
    calls, Metrics() and clock advances gives, answer by answer, what the spec machine gives -/
theorem crun_refines (cf : Conf) (hok : ConfOk cf) (ops : List COp) (sops : List SOp)
    (hops : ops.mapM toSOp = some sops) : ∀ (s : Sys) (ss : SSys), SysRel cf s ss →
    (crun cf s ops).2.map toSOut = (srun (toSConf cf) ss sops).2 ∧
    SysRel cf (crun cf s ops).1 (srun (toSConf cf) ss sops).1 := by
  induction ops generalizing sops with
  | nil =>
    intro s ss h
    simp only [List.mapM_nil, Option.pure_def, Option.some.injEq] at hops
    subst hops
    exact ⟨rfl, h⟩
  | cons op ops ih =>
    intro s ss h
    simp only [List.mapM_cons, Option.bind_eq_bind] at hops
    cases h1 : toSOp op with
    | none => simp [h1] at hops
    | some sop =>
      cases h2 : ops.mapM toSOp with
      | none => simp [h1, h2] at hops
      | some srest =>
        simp only [h1, h2, Option.bind_some, Option.pure_def, Option.some.injEq] at hops
        subst hops
        obtain ⟨hr, ho⟩ := cstep_refines cf hok s ss h op sop h1
        obtain ⟨i1, i2⟩ := ih srest h2 _ _ hr
        simp only [crun, srun, List.map_cons]
        exact ⟨by rw [ho, i1], i2⟩

theorem sysRel_new (cf : Conf) (hok : ConfOk cf) (t0 : Int) : SysRel cf (Sys.new cf t0) (SSys.new (toSConf cf) t0) :=
  ⟨rfl, brel_new cf hok t0, rfl⟩

/-! ### the spec machine has exactly the textbook edges (so, by refinement, has the call-level model) -/

def SLegal (now : Int) (b b' : SBr) : Prop :=
  b'.state = b.state ∨
  (b.state = .closed ∧ b'.state = .opened) ∨
  (b.state = .halfOpen ∧ b'.state = .opened) ∨
  (b.state = .halfOpen ∧ b'.state = .closed) ∨
  (b.state = .opened ∧ b'.state = .halfOpen ∧ b.openUntil ≤ now)

theorem acquire_legal (cf : SConf) (now : Int) (b : SBr) : SLegal now b (b.acquire cf now).2 := by
  unfold SBr.acquire SLegal
  cases hs : b.state with
  | closed => simp [hs]
  | halfOpen => simp only; split <;> simp [hs]
  | opened =>
    simp only
    by_cases hlt : now < b.openUntil
    · simp [hlt, hs]
    · simp only [hlt, if_false]
      have : b.openUntil ≤ now := by omega
      split <;> simp [this]

/-- while Open and before `openUntil` every admission attempt is rejected and changes nothing -/
theorem acquire_rejects_while_open (cf : SConf) (now : Int) (b : SBr) (hs : b.state = .opened) (hlt : now < b.openUntil) :
    b.acquire cf now = ((false, false), b) := by
  unfold SBr.acquire; simp [hs, hlt]

/-- an observed outcome opens the breaker exactly when the post-advance window has enough samples
    and the failure rate reaches the threshold; it closes a HalfOpen breaker exactly when there are
    enough samples below the threshold -/
theorem observe_state (cf : SConf) (now : Int) (success : Bool) (b : SBr) :
    let w := { (b.win.advance cf now) with q := bump success (b.win.advance cf now).q : SWin }
    let s := sumS w.q
    let f := sumF w.q
    ((b.observe cf now success).state = .opened ↔
        (b.state = .opened ∨ (cf.minReq ≤ s + f ∧ cf.p * (s + f) ≤ f * cf.q))) ∧
    ((b.observe cf now success).state = .closed ↔
        ((b.state = .closed ∧ ¬ (cf.minReq ≤ s + f ∧ cf.p * (s + f) ≤ f * cf.q)) ∨
         (b.state = .halfOpen ∧ cf.minReq ≤ s + f ∧ ¬ cf.p * (s + f) ≤ f * cf.q))) := by
  simp only [SBr.observe, rateReached]
  generalize sumS (bump success (b.win.advance cf now).q) = s
  generalize sumF (bump success (b.win.advance cf now).q) = f
  by_cases h1 : s + f < cf.minReq
  · have : ¬ cf.minReq ≤ s + f := by omega
    simp [h1, this]
  · have h1' : cf.minReq ≤ s + f := by omega
    simp only [h1, if_false, h1', true_and]
    by_cases h2 : cf.p * (s + f) ≤ f * cf.q
    · simp only [h2, decide_true, if_true]
      cases hs : b.state <;> simp
    · simp only [h2, decide_false, Bool.false_eq_true, if_false]
      cases hs : b.state <;> simp

/-- probes in flight never exceed `hmax`, and admission outside Closed always takes a probe slot -/
theorem acquire_probes (cf : SConf) (now : Int) (b : SBr) (h : b.probes ≤ cf.hmax) :
    (b.acquire cf now).2.probes ≤ cf.hmax ∧
    ((b.acquire cf now).1.1 = true → (b.acquire cf now).1.2 = false → b.state = .closed) := by
  unfold SBr.acquire
  cases hs : b.state with
  | closed => simp [h]
  | halfOpen => simp only; split <;> simp <;> omega
  | opened =>
    simp only
    by_cases hlt : now < b.openUntil
    · simp [hlt, h]
    · simp only [hlt, if_false]; split <;> simp <;> omega

/-- What holds of the code as it is.
 (a) atomic level, EVERY schedule, any number of threads: the half-open semaphore accounting and
     bound, the open rule of `record`'s evaluation step, the reject rule;
 (b) call level (each `tryAcquire` and each `record`+`release` indivisible, callers overlapping in
     any way, any clock behaviour): the model of breaker.go/bucket.go refines the spec machine of
     Spec/C47 answer by answer — ring buffer = rolling queue, semaphore = probes in flight;
 (c) that spec machine rejects while Open before `openUntil`, moves only along the textbook edges
     (Open → HalfOpen only when `openUntil ≤ now`), opens exactly when the post-advance window has
     `total ≥ minRequests ∧ fail·q ≥ p·total`, closes a HalfOpen breaker exactly when enough samples
     are below the threshold, and keeps probes ≤ halfOpenMaxCalls. -/
theorem C47_partial :
    (∀ (cf : Conf) (t0 : Int) (n : Nat),
      ClauseProbes cf (FSys.new cf t0 n) ∧ ClauseOpen cf (FSys.new cf t0 n) ∧ ClauseReject cf (FSys.new cf t0 n)) ∧
    (∀ (cf : Conf), ConfOk cf → ∀ (t0 : Int) (ops : List COp) (sops : List SOp), ops.mapM toSOp = some sops →
      (crun cf (Sys.new cf t0) ops).2.map toSOut = (srun (toSConf cf) (SSys.new (toSConf cf) t0) sops).2) ∧
    (∀ (cf : SConf) (now : Int) (b : SBr),
      SLegal now b (b.acquire cf now).2 ∧
      (b.state = .opened → now < b.openUntil → b.acquire cf now = ((false, false), b)) ∧
      (b.probes ≤ cf.hmax → (b.acquire cf now).2.probes ≤ cf.hmax)) :=
  ⟨fun cf t0 n => C47_atomic_partial cf t0 n,
   fun cf hok t0 ops sops h => (crun_refines cf hok ops sops h _ _ (sysRel_new cf hok t0)).1,
   fun cf now b => ⟨acquire_legal cf now b, acquire_rejects_while_open cf now b, fun h => (acquire_probes cf now b h).1⟩⟩

-- non-vacuity: a history with overlapping callers that opens, half-opens and closes the breaker (TEST by evaluation)
example : ([.begin 1, .begin 2, .finish 1 .fail, .finish 2 .fail, .begin 3, .tick 10, .begin 4, .finish 4 .ok] : List COp).mapM toSOp
    = some [.begin 1, .begin 2, .finish 1 (some false), .finish 2 (some false), .begin 3, .tick 10, .begin 4, .finish 4 (some true)] := by decide
example : ((crun ⟨1, 2, 2, 10, 5, 2, 1⟩ (Sys.new ⟨1, 2, 2, 10, 5, 2, 1⟩ 0)
    [.begin 1, .begin 2, .finish 1 .fail, .finish 2 .fail, .begin 3, .tick 10, .begin 4, .finish 4 .ok]).2)
    = [.admitted false, .admitted false, .unit, .unit, .rejected, .unit, .admitted true, .unit] := by decide

end GoaktVerif.C47

/-
C47 — The circuit breaker follows its state machine.

"For any sequence of call outcomes, clock advances and concurrent callers, the breaker opens
 exactly when the windowed failure rate reaches the threshold with at least the minimum number of
 requests, rejects every call while open until the open timeout passes, admits at most the
 configured number of concurrent probes while half-open, and closes again when probes succeed."

Model: Model/C47.lean (the code after fix 42b281d).  Two granularities: the call level (`cstep`:
acquire | outcome+record+release, any number of concurrent callers) and the atomic level (`fstep`:
one step per shared-memory access: the unlocked `State()` read, and `openToHalfOpen()`,
`halfOpenToClosed()`, `toOpen()`, `buckets.add`, the semaphore select each as one critical section).
Spec: Spec/C47.lean (textbook state machine over a queue-shaped rolling window).

Result: `C47_holds` — at the atomic level, for every schedule and any number of threads, every
state change follows the state machine (Open is left only for HalfOpen and only once `openUntil`
has passed; `openUntil` is stable while Open), the half-open bound holds, `record` opens exactly
under the window condition, a caller checked against `Open ∧ now < openUntil` is rejected.
`C47_call_level`: at the call level the model IS the spec machine for all histories; a single
thread's atomic steps run to completion are exactly the call-level operations (`atomic_acquire_eq`,
`atomic_finish_eq`).  Stated limit (`C47_residual`): the admission decision is taken on an unlocked
read, so a caller that read HalfOpen can still win a half-open token right after a concurrent probe
re-opened the breaker (bounded by halfOpenMaxCalls, changes no state).
History: before 42b281d the transitions did not re-validate the source state and this statement was
refuted (stale toHalfOpen()/toClosed(); finding C47-F1, now fixed; corpus/C47 keeps the witnesses).
-/
import GoaktVerif.Model.C47
import GoaktVerif.Spec.C47
import GoaktVerif.Lemmas.C47Fine
import GoaktVerif.Lemmas.C47Sim

namespace GoaktVerif.C47
open GoaktVerif.Model.C47 GoaktVerif.Spec.C47

/-! ### the statement, at the atomic level -/

/-- the edges of the breaker's state machine: Closed→Open, HalfOpen→Open, HalfOpen→Closed, and
    Open→HalfOpen only once `openUntil` has passed; while it stays Open `openUntil` does not move -/
def LegalEdge (now : Int) (b b' : Br) : Prop :=
  (b'.state = b.state ∧ (b.state = .opened → b'.openUntil = b.openUntil)) ∨
  (b.state = .closed ∧ b'.state = .opened) ∨
  (b.state = .halfOpen ∧ b'.state = .opened) ∨
  (b.state = .halfOpen ∧ b'.state = .closed) ∨
  (b.state = .opened ∧ b'.state = .halfOpen ∧ b.openUntil ≤ now)

instance (now : Int) (b b' : Br) : Decidable (LegalEdge now b b') := by unfold LegalEdge; infer_instance

/-- (1) every state change follows the state machine; in particular the breaker stays Open
        (rejecting) until `openUntil` has passed -/
def ClauseEdges (cf : Conf) (s0 : FSys) : Prop :=
  ∀ s l s', FReach cf s0 s → fstep cf s l = some s' → LegalEdge s.now s.b s'.b

/-- (2) half-open tokens in use = threads holding one ≤ halfOpenMaxCalls -/
def ClauseProbes (cf : Conf) (s0 : FSys) : Prop :=
  ∀ s, FReach cf s0 s → s.b.sem = tokens s.pcs ∧ s.b.sem ≤ cf.hmax

/-- (3) the evaluation step of `record`, holding the post-advance window totals `t`, leaves the
        breaker Open iff it was Open already or `total ≥ minRequests ∧ fail/total ≥ rate` -/
def ClauseOpen (cf : Conf) (s0 : FSys) : Prop :=
  ∀ s tid o s' tok t, FReach cf s0 s → s.pcs[tid]? = some (.recEval tok t) → fstep cf s (.thr tid o) = some s' →
    (s'.b.state = .opened ↔ (s.b.state = .opened ∨ (enough cf t = true ∧ tripped cf t = true)))

/-- (4) a caller whose locked check finds `Open ∧ now < openUntil` is rejected and changes nothing -/
def ClauseReject (cf : Conf) (s0 : FSys) : Prop :=
  ∀ s tid o s', FReach cf s0 s → s.pcs[tid]? = some .acqOpen → s.b.state = .opened → s.now < s.b.openUntil →
    fstep cf s (.thr tid o) = some s' → s'.b = s.b ∧ s'.pcs[tid]? = some (.done false)

/-- (5) a HalfOpen breaker is closed only by a `record` whose window had enough samples below the
        threshold (the thread is at `recToClosed`) -/
def ClauseClose (cf : Conf) (s0 : FSys) : Prop :=
  ∀ s l s', FReach cf s0 s → fstep cf s l = some s' → s.b.state = .halfOpen → s'.b.state = .closed →
    ∃ tid o tok, l = .thr tid o ∧ s.pcs[tid]? = some (.recToClosed tok)

def C47_full : Prop :=
  ∀ (cf : Conf) (t0 : Int) (n : Nat), ConfOk cf →
    ClauseEdges cf (FSys.new cf t0 n) ∧ ClauseProbes cf (FSys.new cf t0 n) ∧
    ClauseOpen cf (FSys.new cf t0 n) ∧ ClauseReject cf (FSys.new cf t0 n) ∧ ClauseClose cf (FSys.new cf t0 n)

/-! ### proofs -/

theorem transitionTo_state (cf : Conf) (now : Int) (t : St) (b : Br) : (transitionTo cf now t b).state = t := by
  unfold transitionTo
  split
  · assumption
  · cases t <;> rfl

theorem legal_refl (now : Int) (b : Br) : LegalEdge now b b := Or.inl ⟨rfl, fun _ => rfl⟩

theorem legal_same (now : Int) (b b' : Br) (h1 : b'.state = b.state) (h2 : b'.openUntil = b.openUntil) :
    LegalEdge now b b' := Or.inl ⟨h1, fun _ => h2⟩

theorem legal_toOpen (cf : Conf) (now : Int) (b : Br) : LegalEdge now b (transitionTo cf now .opened b) := by
  unfold transitionTo LegalEdge
  cases hs : b.state <;> simp [hs]

theorem legal_openToHalfOpen (now : Int) (b : Br) : LegalEdge now b (openToHalfOpen now b).2 := by
  unfold openToHalfOpen LegalEdge
  cases hs : b.state
  · simp [hs]
  · by_cases hlt : now < b.openUntil
    · simp [hlt, hs]
    · have : b.openUntil ≤ now := by omega
      simp [hlt, this, hs]
  · simp [hs]

theorem legal_halfOpenToClosed (now : Int) (b : Br) : LegalEdge now b (halfOpenToClosed now b) := by
  unfold halfOpenToClosed LegalEdge
  cases hs : b.state <;> simp [hs]

/-- every atomic step of every thread is a legal edge (no reachability assumption needed) -/
theorem pcStep_legal (cf : Conf) (now : Int) (b b' : Br) (o : Outcome) (pc pc' : Pc)
    (h : pcStep cf now b o pc = some (b', pc')) : LegalEdge now b b' := by
  cases pc with
  | idle =>
    simp only [pcStep] at h
    cases hs : b.state <;> simp only [hs, Option.some.injEq, Prod.mk.injEq] at h <;>
      (obtain ⟨rfl, _⟩ := h; exact legal_refl _ _)
  | acqOpen =>
    simp only [pcStep] at h
    cases hr : (openToHalfOpen now b).1 <;> simp only [hr, Option.some.injEq, Prod.mk.injEq] at h <;>
      (obtain ⟨rfl, _⟩ := h; exact legal_openToHalfOpen now b)
  | acqSem =>
    simp only [pcStep, trySem] at h
    split at h <;> simp only [if_true, Bool.false_eq_true, if_false, Option.some.injEq, Prod.mk.injEq] at h <;>
      (obtain ⟨rfl, _⟩ := h; exact legal_same _ _ _ rfl rfl)
  | running tok =>
    simp only [pcStep] at h
    cases o <;> simp only [Option.some.injEq, Prod.mk.injEq] at h <;>
      (obtain ⟨rfl, _⟩ := h; exact legal_same _ _ _ rfl rfl)
  | recEval tok t =>
    simp only [pcStep] at h
    split at h
    · simp only [Option.some.injEq, Prod.mk.injEq] at h; obtain ⟨rfl, _⟩ := h; exact legal_refl _ _
    · split at h
      · simp only [Option.some.injEq, Prod.mk.injEq] at h; obtain ⟨rfl, _⟩ := h; exact legal_toOpen cf now b
      · simp only [Option.some.injEq, Prod.mk.injEq] at h; obtain ⟨rfl, _⟩ := h; exact legal_refl _ _
  | recToClosed tok =>
    simp only [pcStep, Option.some.injEq, Prod.mk.injEq] at h
    obtain ⟨rfl, _⟩ := h
    exact legal_halfOpenToClosed now b
  | rel tok =>
    simp only [pcStep, Option.some.injEq, Prod.mk.injEq] at h
    obtain ⟨rfl, _⟩ := h
    cases tok
    · exact legal_refl _ _
    · exact legal_same _ _ _ rfl rfl
  | done a => simp [pcStep] at h

theorem clauseEdges_holds (cf : Conf) (s0 : FSys) : ClauseEdges cf s0 := by
  intro s l s' _ hs
  cases l with
  | tick d => simp only [fstep, Option.some.injEq] at hs; subst hs; exact legal_refl _ _
  | thr tid o =>
    simp only [fstep] at hs
    cases hp : s.pcs[tid]? with
    | none => simp [hp] at hs
    | some pc =>
      simp only [hp] at hs
      cases hst : pcStep cf s.now s.b o pc with
      | none => simp [hst] at hs
      | some r =>
        obtain ⟨b', pc'⟩ := r
        simp only [hst, Option.some.injEq] at hs
        subst hs
        exact pcStep_legal cf s.now s.b b' o pc pc' hst

theorem clauseProbes_holds (cf : Conf) (t0 : Int) (n : Nat) : ClauseProbes cf (FSys.new cf t0 n) :=
  fun s h => semInv_reach cf t0 n s h

theorem clauseOpen_holds (cf : Conf) (s0 : FSys) : ClauseOpen cf s0 := by
  intro s tid o s' tok t _ hp hs
  simp only [fstep, hp, pcStep] at hs
  cases he : enough cf t with
  | false =>
    simp only [he, Bool.not_false, if_true, Option.some.injEq] at hs
    subst hs
    simp
  | true =>
    cases ht : tripped cf t with
    | false =>
      simp only [he, ht, Bool.not_true, Bool.false_eq_true, if_false, Option.some.injEq] at hs
      subst hs
      simp
    | true =>
      simp only [he, ht, Bool.not_true, Bool.false_eq_true, if_false, if_true, Option.some.injEq] at hs
      subst hs
      simp [transitionTo_state]

theorem clauseReject_holds (cf : Conf) (s0 : FSys) : ClauseReject cf s0 := by
  intro s tid o s' _ hp hst hlt hs
  have hr : openToHalfOpen s.now s.b = (.opened, s.b) := by
    unfold openToHalfOpen; simp [hst, hlt]
  simp only [fstep, hp, pcStep, hr, Option.some.injEq] at hs
  subst hs
  refine ⟨rfl, ?_⟩
  have : tid < s.pcs.length := by
    rcases Nat.lt_or_ge tid s.pcs.length with h | h
    · exact h
    · rw [List.getElem?_eq_none h] at hp; cases hp
  simp [this]

theorem clauseClose_holds (cf : Conf) (s0 : FSys) : ClauseClose cf s0 := by
  intro s l s' _ hs hho hcl
  cases l with
  | tick d =>
    simp only [fstep, Option.some.injEq] at hs; subst hs
    rw [hho] at hcl; cases hcl
  | thr tid o =>
    simp only [fstep] at hs
    cases hp : s.pcs[tid]? with
    | none => simp [hp] at hs
    | some pc =>
      simp only [hp] at hs
      cases hst : pcStep cf s.now s.b o pc with
      | none => simp [hst] at hs
      | some r =>
        obtain ⟨b', pc'⟩ := r
        simp only [hst, Option.some.injEq] at hs
        subst hs
        simp only at hcl
        cases pc with
        | recToClosed tok => exact ⟨tid, o, tok, rfl, hp⟩
        | idle =>
          simp only [pcStep, hho, Option.some.injEq, Prod.mk.injEq] at hst
          obtain ⟨rfl, _⟩ := hst; rw [hho] at hcl; cases hcl
        | acqOpen =>
          have hr : openToHalfOpen s.now s.b = (.halfOpen, s.b) := by unfold openToHalfOpen; simp [hho]
          simp only [pcStep, hr, Option.some.injEq, Prod.mk.injEq] at hst
          obtain ⟨rfl, _⟩ := hst; rw [hho] at hcl; cases hcl
        | acqSem =>
          simp only [pcStep, trySem] at hst
          split at hst <;> simp only [if_true, Bool.false_eq_true, if_false, Option.some.injEq, Prod.mk.injEq] at hst <;>
            (obtain ⟨rfl, _⟩ := hst; (try simp only at hcl); rw [hho] at hcl; cases hcl)
        | running tok =>
          simp only [pcStep] at hst
          cases o <;> simp only [Option.some.injEq, Prod.mk.injEq] at hst <;>
            (obtain ⟨rfl, _⟩ := hst; (try simp only at hcl); rw [hho] at hcl; cases hcl)
        | recEval tok t =>
          simp only [pcStep] at hst
          split at hst
          · simp only [Option.some.injEq, Prod.mk.injEq] at hst; obtain ⟨rfl, _⟩ := hst; rw [hho] at hcl; cases hcl
          · split at hst
            · simp only [Option.some.injEq, Prod.mk.injEq] at hst; obtain ⟨rfl, _⟩ := hst
              rw [transitionTo_state] at hcl; cases hcl
            · simp only [Option.some.injEq, Prod.mk.injEq] at hst; obtain ⟨rfl, _⟩ := hst; rw [hho] at hcl; cases hcl
        | rel tok =>
          simp only [pcStep, Option.some.injEq, Prod.mk.injEq] at hst
          obtain ⟨rfl, _⟩ := hst
          cases tok <;> (simp only [release] at hcl; try simp only [Bool.false_eq_true, if_false, if_true] at hcl; rw [hho] at hcl; cases hcl)
        | done a => simp [pcStep] at hst

/-- THE PROPERTY, at the atomic level: any options, any number of threads, every schedule -/
theorem C47_holds : C47_full :=
  fun cf t0 n _ => ⟨clauseEdges_holds cf _, clauseProbes_holds cf t0 n, clauseOpen_holds cf _,
    clauseReject_holds cf _, clauseClose_holds cf _⟩

theorem frun_reach (cf : Conf) (s0 : FSys) (ls : List FLabel) : ∀ s, FReach cf s0 s → FReach cf s0 (frun cf s ls) := by
  induction ls with
  | nil => intro s h; exact h
  | cons l ls ih =>
    intro s h
    simp only [frun]
    cases hs : fstep cf s l with
    | none => simpa [hs] using ih s h
    | some s' => simpa [hs] using ih s' (FReach.step l h hs)

/-! ### the old race no longer exists in the model; the stated limit does -/

/-- rate 1/1, minRequests 1, openTimeout 1000, one bucket, one probe -/
def wcf : Conf := ⟨1, 1, 1, 1000, 100000, 1, 1⟩

/-- the schedule that refuted the statement before 42b281d: thread 0 opens the breaker
    (openUntil 1000); clock 1005; thread 1 reads Open and is preempted; thread 2 half-opens,
    probes, fails, re-opens (openUntil 2005); thread 1 resumes -/
def wprefix : List FLabel :=
  [.thr 0 .fail, .thr 0 .fail, .thr 0 .fail, .thr 0 .fail, .tick 1005,
   .thr 1 .ok,
   .thr 2 .fail, .thr 2 .fail, .thr 2 .fail, .thr 2 .fail, .thr 2 .fail, .thr 2 .fail]

def wstate : FSys := frun wcf (FSys.new wcf 0 3) wprefix

-- TEST by evaluation: thread 1's `openToHalfOpen()` now re-validates and rejects; the breaker stays Open until 2005
example : (wstate.b.state, wstate.now, wstate.b.openUntil, wstate.pcs[1]?) = (.opened, 1005, 2005, some .acqOpen) := by decide
example : ((frun wcf wstate [.thr 1 .ok]).b.state, (frun wcf wstate [.thr 1 .ok]).pcs[1]?) = (.opened, some (.done false)) := by decide

/-- STATED LIMIT (residual of the unlocked admission read): there is a reachable configuration in
    which a thread is admitted with a half-open token while the breaker is Open and the open timeout
    has NOT passed: it read HalfOpen before a concurrent probe failed and re-opened the breaker. -/
theorem C47_residual :
    ∃ (s s' : FSys) (tid : Nat), FReach wcf (FSys.new wcf 0 3) s ∧ fstep wcf s (.thr tid .ok) = some s' ∧
      s.b.state = .opened ∧ s.now < s.b.openUntil ∧ s'.pcs[tid]? = some (.running true) := by
  -- thread 0 opens; clock 1005; thread 2 half-opens and starts probing; thread 1 reads HalfOpen;
  -- thread 2 fails, re-opens and releases; thread 1 takes the token
  let pre : List FLabel :=
    [.thr 0 .fail, .thr 0 .fail, .thr 0 .fail, .thr 0 .fail, .tick 1005,
     .thr 2 .fail, .thr 2 .fail, .thr 2 .fail,
     .thr 1 .ok,
     .thr 2 .fail, .thr 2 .fail, .thr 2 .fail]
  refine ⟨frun wcf (FSys.new wcf 0 3) pre, frun wcf (FSys.new wcf 0 3) (pre ++ [.thr 1 .ok]), 1,
    frun_reach _ _ _ _ FReach.init, by decide, by decide, by decide, by decide⟩

/-! ### a single thread's atomic steps, run to completion, ARE the call-level operations -/

/-- run one thread alone for `fuel` atomic steps (clock fixed), stopping early when it has no step -/
def runAlone (cf : Conf) (now : Int) (o : Outcome) : Nat → Br × Pc → Br × Pc
  | 0, r => r
  | n + 1, r =>
    match pcStep cf now r.1 o r.2 with
    | none => r
    | some r' => runAlone cf now o n r'

/-- the acquire phase stops at `running` or `done false` -/
def stopAcq (cf : Conf) (now : Int) (o : Outcome) : Nat → Br × Pc → Br × Pc
  | 0, r => r
  | n + 1, r =>
    match r.2 with
    | .running _ => r
    | .done _ => r
    | _ =>
      match pcStep cf now r.1 o r.2 with
      | none => r
      | some r' => stopAcq cf now o n r'

/-- `tryAcquire` = the atomic acquire steps of one undisturbed thread (≤ 3 of them) -/
theorem atomic_acquire_eq (cf : Conf) (now : Int) (o : Outcome) (b : Br) :
    stopAcq cf now o 3 (b, .idle) =
      ((tryAcquire cf now b).2, if (tryAcquire cf now b).1.1 then .running (tryAcquire cf now b).1.2 else .done false) := by
  unfold tryAcquire
  cases hs : b.state with
  | closed => simp [stopAcq, pcStep, hs]
  | halfOpen =>
    simp only [stopAcq, pcStep, hs, trySem]
    by_cases hc : b.sem < cf.hmax <;> simp [hc, stopAcq]
  | opened =>
    simp only [stopAcq, pcStep, hs, afterOpenCheck]
    generalize openToHalfOpen now b = r
    obtain ⟨st, b'⟩ := r
    cases st with
    | closed => simp [stopAcq]
    | opened => simp [stopAcq]
    | halfOpen =>
      simp only [stopAcq, pcStep, trySem]
      by_cases hc : b'.sem < cf.hmax <;> simp [hc, stopAcq]

/-- `finish` (= record, unless cancelled, then release) = the atomic steps of one undisturbed
    thread from `running` to `done` (≤ 4 of them) -/
theorem atomic_finish_eq (cf : Conf) (now : Int) (o : Outcome) (tok : Bool) (b : Br) :
    runAlone cf now o 5 (b, .running tok) = (finish cf now o tok b, .done true) := by
  cases o with
  | cancel => cases tok <;> simp [runAlone, pcStep, finish]
  | ok =>
    simp only [runAlone, pcStep, finish, record]
    cases he : enough cf (b.w.add cf now true).2 with
    | false => cases tok <;> simp [runAlone, pcStep]
    | true =>
      cases ht : tripped cf (b.w.add cf now true).2 with
      | true => cases tok <;> simp [runAlone, pcStep]
      | false => cases tok <;> simp [runAlone, pcStep]
  | fail =>
    simp only [runAlone, pcStep, finish, record]
    cases he : enough cf (b.w.add cf now false).2 with
    | false => cases tok <;> simp [runAlone, pcStep]
    | true =>
      cases ht : tripped cf (b.w.add cf now false).2 with
      | true => cases tok <;> simp [runAlone, pcStep]
      | false => cases tok <;> simp [runAlone, pcStep]

/-! ### call level: the model IS the spec state machine, for all histories with overlapping callers -/

def toSOp : COp → Option SOp
  | .begin id => some (.begin id)
  | .finish id o => some (.finish id (match o with | .ok => some true | .fail => some false | .cancel => none))
  | .precancelled => some .precancelled
  | .metrics => some .metrics
  | .tick d => some (.tick d)
  | .staleToHalfOpen => none       -- not events of the call-level spec: they exist only to replay the
  | .staleToClosed => none         -- atomic-level race through the public harness

def toSOut : COut → SOut
  | .unit => .unit
  | .admitted t => .admitted t
  | .rejected => .rejected
  | .totals s f => .totals s f
  | .unknownCaller => .unknownCaller

structure SysRel (cf : Conf) (s : Sys) (ss : SSys) : Prop where
  now : s.now = ss.now
  b : BRel cf s.b ss.b
  infl : s.inflight = ss.inflight

/-- ONE STEP of the call-level model = one step of the spec machine, same answer -/
theorem cstep_refines (cf : Conf) (hok : ConfOk cf) (s : Sys) (ss : SSys) (h : SysRel cf s ss) (op : COp) (sop : SOp)
    (hop : toSOp op = some sop) :
    SysRel cf (cstep cf s op).1 (sstep (toSConf cf) ss sop).1 ∧
    toSOut (cstep cf s op).2 = (sstep (toSConf cf) ss sop).2 := by
  cases op with
  | begin id =>
    simp only [toSOp, Option.some.injEq] at hop; subst hop
    simp only [cstep, sstep, ← h.infl]
    by_cases hdup : s.inflight.any (fun c => c.1 == id) = true
    · simp only [hdup, if_true]; exact ⟨h, rfl⟩
    · simp only [hdup, Bool.false_eq_true, if_false]
      obtain ⟨h1, h2⟩ := tryAcquire_sim cf s.now s.b ss.b h.b
      rw [← h.now, ← h1]
      by_cases hal : (tryAcquire cf s.now s.b).1.1 = true
      · simp only [hal, if_true]
        exact ⟨⟨rfl, h2, rfl⟩, rfl⟩
      · simp only [hal, Bool.false_eq_true, if_false]
        exact ⟨⟨rfl, h2, rfl⟩, rfl⟩
  | finish id o =>
    simp only [toSOp, Option.some.injEq] at hop; subst hop
    simp only [cstep, sstep, ← h.infl]
    cases hf : s.inflight.find? (fun c => c.1 == id) with
    | none => exact ⟨h, rfl⟩
    | some c =>
      simp only
      refine ⟨⟨h.now, ?_, by simp only [h.infl]⟩, rfl⟩
      rw [← h.now]
      exact finish_sim cf hok s.now o c.2 s.b ss.b h.b
  | precancelled =>
    simp only [toSOp, Option.some.injEq] at hop; subst hop
    exact ⟨h, rfl⟩
  | metrics =>
    simp only [toSOp, Option.some.injEq] at hop; subst hop
    obtain ⟨h1, h2⟩ := metrics_sim cf hok s.now s.b ss.b h.b
    simp only [cstep, sstep, ← h.now]
    refine ⟨⟨rfl, h1, h.infl⟩, ?_⟩
    simp only [toSOut, h2]
  | tick d =>
    simp only [toSOp, Option.some.injEq] at hop; subst hop
    exact ⟨⟨by simp only [cstep, sstep, h.now], h.b, h.infl⟩, rfl⟩
  | staleToHalfOpen => simp [toSOp] at hop
  | staleToClosed => simp [toSOp] at hop

/-- ALL HISTORIES: any sequence of begin/finish (callers overlapping arbitrarily), pre-cancelled
    calls, Metrics() and clock advances gives, answer by answer, what the spec machine gives -/
theorem crun_refines (cf : Conf) (hok : ConfOk cf) (ops : List COp) (sops : List SOp)
    (hops : ops.mapM toSOp = some sops) : ∀ (s : Sys) (ss : SSys), SysRel cf s ss →
    (crun cf s ops).2.map toSOut = (srun (toSConf cf) ss sops).2 ∧
    SysRel cf (crun cf s ops).1 (srun (toSConf cf) ss sops).1 := by
  induction ops generalizing sops with
  | nil =>
    intro s ss h
    simp only [List.mapM_nil, Option.pure_def, Option.some.injEq] at hops
    subst hops
    exact ⟨rfl, h⟩
  | cons op ops ih =>
    intro s ss h
    simp only [List.mapM_cons, Option.bind_eq_bind] at hops
    cases h1 : toSOp op with
    | none => simp [h1] at hops
    | some sop =>
      cases h2 : ops.mapM toSOp with
      | none => simp [h1, h2] at hops
      | some srest =>
        simp only [h1, h2, Option.bind_some, Option.pure_def, Option.some.injEq] at hops
        subst hops
        obtain ⟨hr, ho⟩ := cstep_refines cf hok s ss h op sop h1
        obtain ⟨i1, i2⟩ := ih srest h2 _ _ hr
        simp only [crun, srun, List.map_cons]
        exact ⟨by rw [ho, i1], i2⟩

theorem sysRel_new (cf : Conf) (hok : ConfOk cf) (t0 : Int) : SysRel cf (Sys.new cf t0) (SSys.new (toSConf cf) t0) :=
  ⟨rfl, brel_new cf hok t0, rfl⟩

/-! ### the spec machine has exactly the textbook edges (so, by refinement, has the call-level model) -/

def SLegal (now : Int) (b b' : SBr) : Prop :=
  b'.state = b.state ∨
  (b.state = .closed ∧ b'.state = .opened) ∨
  (b.state = .halfOpen ∧ b'.state = .opened) ∨
  (b.state = .halfOpen ∧ b'.state = .closed) ∨
  (b.state = .opened ∧ b'.state = .halfOpen ∧ b.openUntil ≤ now)

theorem acquire_legal (cf : SConf) (now : Int) (b : SBr) : SLegal now b (b.acquire cf now).2 := by
  unfold SBr.acquire SLegal
  cases hs : b.state with
  | closed => simp [hs]
  | halfOpen => simp only; split <;> simp [hs]
  | opened =>
    simp only
    by_cases hlt : now < b.openUntil
    · simp [hlt, hs]
    · simp only [hlt, if_false]
      have : b.openUntil ≤ now := by omega
      split <;> simp [this]

/-- while Open and before `openUntil` every admission attempt is rejected and changes nothing -/
theorem acquire_rejects_while_open (cf : SConf) (now : Int) (b : SBr) (hs : b.state = .opened) (hlt : now < b.openUntil) :
    b.acquire cf now = ((false, false), b) := by
  unfold SBr.acquire; simp [hs, hlt]

/-- an observed outcome opens the breaker exactly when the post-advance window has enough samples
    and the failure rate reaches the threshold; it closes a HalfOpen breaker exactly when there are
    enough samples below the threshold -/
theorem observe_state (cf : SConf) (now : Int) (success : Bool) (b : SBr) :
    let w := { (b.win.advance cf now) with q := bump success (b.win.advance cf now).q : SWin }
    let s := sumS w.q
    let f := sumF w.q
    ((b.observe cf now success).state = .opened ↔
        (b.state = .opened ∨ (cf.minReq ≤ s + f ∧ cf.p * (s + f) ≤ f * cf.q))) ∧
    ((b.observe cf now success).state = .closed ↔
        ((b.state = .closed ∧ ¬ (cf.minReq ≤ s + f ∧ cf.p * (s + f) ≤ f * cf.q)) ∨
         (b.state = .halfOpen ∧ cf.minReq ≤ s + f ∧ ¬ cf.p * (s + f) ≤ f * cf.q))) := by
  simp only [SBr.observe, rateReached]
  generalize sumS (bump success (b.win.advance cf now).q) = s
  generalize sumF (bump success (b.win.advance cf now).q) = f
  by_cases h1 : s + f < cf.minReq
  · have : ¬ cf.minReq ≤ s + f := by omega
    simp [h1, this]
  · have h1' : cf.minReq ≤ s + f := by omega
    simp only [h1, if_false, h1', true_and]
    by_cases h2 : cf.p * (s + f) ≤ f * cf.q
    · simp only [h2, decide_true, if_true]
      cases hs : b.state <;> simp
    · simp only [h2, decide_false, Bool.false_eq_true, if_false]
      cases hs : b.state <;> simp

/-- probes in flight never exceed `hmax`, and admission outside Closed always takes a probe slot -/
theorem acquire_probes (cf : SConf) (now : Int) (b : SBr) (h : b.probes ≤ cf.hmax) :
    (b.acquire cf now).2.probes ≤ cf.hmax ∧
    ((b.acquire cf now).1.1 = true → (b.acquire cf now).1.2 = false → b.state = .closed) := by
  unfold SBr.acquire
  cases hs : b.state with
  | closed => simp [h]
  | halfOpen => simp only; split <;> simp <;> omega
  | opened =>
    simp only
    by_cases hlt : now < b.openUntil
    · simp [hlt, h]
    · simp only [hlt, if_false]; split <;> simp <;> omega

/-- Call level (each `tryAcquire` and each `record`+`release` indivisible — which is what one
    undisturbed thread's atomic steps amount to, `atomic_acquire_eq` / `atomic_finish_eq` — callers
    overlapping in any way, any clock behaviour, any history length): the model of
    breaker.go/bucket.go refines the spec machine of Spec/C47 answer by answer (ring buffer =
    rolling queue, semaphore = probes in flight); and that spec machine moves only along the
    textbook edges, rejects while Open before `openUntil`, and keeps probes ≤ halfOpenMaxCalls
    (`observe_state` gives the exact open/close conditions on the post-advance window). -/
theorem C47_call_level :
    (∀ (cf : Conf), ConfOk cf → ∀ (t0 : Int) (ops : List COp) (sops : List SOp), ops.mapM toSOp = some sops →
      (crun cf (Sys.new cf t0) ops).2.map toSOut = (srun (toSConf cf) (SSys.new (toSConf cf) t0) sops).2) ∧
    (∀ (cf : SConf) (now : Int) (b : SBr),
      SLegal now b (b.acquire cf now).2 ∧
      (b.state = .opened → now < b.openUntil → b.acquire cf now = ((false, false), b)) ∧
      (b.probes ≤ cf.hmax → (b.acquire cf now).2.probes ≤ cf.hmax)) :=
  ⟨fun cf hok t0 ops sops h => (crun_refines cf hok ops sops h _ _ (sysRel_new cf hok t0)).1,
   fun cf now b => ⟨acquire_legal cf now b, acquire_rejects_while_open cf now b, fun h => (acquire_probes cf now b h).1⟩⟩

-- non-vacuity: a history with overlapping callers that opens, half-opens and closes the breaker (TEST by evaluation)
example : ([.begin 1, .begin 2, .finish 1 .fail, .finish 2 .fail, .begin 3, .tick 10, .begin 4, .finish 4 .ok] : List COp).mapM toSOp
    = some [.begin 1, .begin 2, .finish 1 (some false), .finish 2 (some false), .begin 3, .tick 10, .begin 4, .finish 4 (some true)] := by decide
example : ((crun ⟨1, 2, 2, 10, 5, 2, 1⟩ (Sys.new ⟨1, 2, 2, 10, 5, 2, 1⟩ 0)
    [.begin 1, .begin 2, .finish 1 .fail, .finish 2 .fail, .begin 3, .tick 10, .begin 4, .finish 4 .ok]).2)
    = [.admitted false, .admitted false, .unit, .unit, .rejected, .unit, .admitted true, .unit] := by decide

end GoaktVerif.C47

/-
C28 — Concurrent remote asks each get their own reply.

"Concurrent RemoteAsk calls sharing pooled connections each receive the response to their own
 request or an error, and RemoteBatchAsk returns responses in request order."
 (quantifier: all interleavings of concurrent asks over a bounded connection pool, including
  timeouts and discarded connections)

Model: Model/C28.lean — the pool (Get / Put / Discard / Close) and the step-by-step exchanges
SendProto / SendBatchProto of internal/net/client.go, with any number of concurrent calls, any
interleaving of their steps with the server's per-connection sequential handling, a failure or
timeout possible at every step, cancellation between batch frames, swallowed requests, client
Close at any time.  Theorems quantify over ALL schedules (`List Act`), proved by an inductive
invariant (Lemmas/C28.lean):

 * every idle connection is clean: balance written − read = 0, nothing in flight in either
   direction, no deadline armed (`Put` is reached only after the last response was read; every
   error path `Discard`s) — `C28_idle_clean`;
 * for a call that owns a connection: responses read ++ responses waiting ++ requests unserved is
   a subsequence of the requests it wrote — nobody else's frames are ever on its connection;
 * hence a call that returns success returns exactly the responses to its own requests, in
   request order — `C28_own_reply`.

Parameters (assumptions, see level_note): TCP delivers each direction in order; the server answers
the frames of one connection sequentially (ProtoServer.handleConn), at most one response per request.
-/
import GoaktVerif.Model.C28
import GoaktVerif.Spec.C28
import GoaktVerif.Lemmas.C28
import GoaktVerif.Lemmas.C28P

namespace GoaktVerif.C28
open GoaktVerif.Model.C28 GoaktVerif.Spec.C28

def final (cfg : Cfg) (acts : List Act) : St := run cfg {} acts

/-- THE FULL PROPERTY on the model: under every schedule, (1) the `k`-th call, if it returned
    success, returned the responses tagged `(k,0) … (k,n-1)` — the answers to its own `n` request
    frames, in request order; (2) every pooled connection is clean. -/
def C28_full : Prop :=
  ∀ (cfg : Cfg) (acts : List Act),
    (∀ k c l, (final cfg acts).calls[k]? = some c → c.result = some (some l) →
        ownReplies k c.reqs.length l = true) ∧
    (∀ cn ∈ (final cfg acts).pool.idle, cn.srv = [] ∧ cn.resp = [] ∧ cn.deadline = false)

theorem mkReqs_length (k n : Nat) : (mkReqs k n).length = n := by simp [mkReqs]

theorem C28_own_reply (cfg : Cfg) (acts : List Act) (k : Nat) (c : Call) (l : List Req)
    (hk : (final cfg acts).calls[k]? = some c) (hr : c.result = some (some l)) :
    ownReplies k c.reqs.length l = true := by
  obtain ⟨_, hcs, hid⟩ := inv_run cfg acts {} inv_init
  have hc := hcs c (List.mem_of_getElem? hk)
  obtain ⟨n, hn⟩ := hid k c hk
  have hl : l = c.reqs := hc.2.2.2.2.2.2 l hr
  simp [ownReplies, requestsOf, hl, hn, mkReqs]

theorem C28_idle_clean (cfg : Cfg) (acts : List Act) :
    ∀ cn ∈ (final cfg acts).pool.idle, cn.srv = [] ∧ cn.resp = [] ∧ cn.deadline = false :=
  (inv_run cfg acts {} inv_init).1

theorem C28_holds : C28_full := fun cfg acts =>
  ⟨fun k c l hk hr => C28_own_reply cfg acts k c l hk hr, C28_idle_clean cfg acts⟩

/-- Non-vacuity: three concurrent calls over a pool of one; call 0 (with a deadline) times out while
    its request is still unserved and its connection is discarded; call 1 (a batch of two) and call 2
    complete on a shared pooled connection; both successful calls hold their own replies. -/
example :
    let s := final { maxIdle := 1 }
      [.newCall 1 true, .call 0 (.get 0 true), .call 0 (.deadline true), .call 0 (.write true),
       .newCall 2 false, .call 1 (.get 0 true), .call 1 (.write true), .call 1 (.write true),
       .call 0 (.read false),
       .call 1 (.serve true), .call 1 (.read true), .call 1 (.serve true), .call 1 (.read true), .call 1 (.put true),
       .newCall 1 false, .call 2 (.get 0 true), .call 2 (.write true), .call 2 (.serve true),
       .call 2 (.read true), .call 2 (.put true)]
    s.calls.map (·.result) = [some none, some (some [(1, 0), (1, 1)]), some (some [(2, 0)])] ∧
    s.pool.idle.map (·.id) = [1] ∧ s.pool.closedConns = [0] := by decide

/-- Why the discipline matters (a TEST on a mutant of the model, not part of the property): if the
    read-timeout path returned the connection to the pool instead of discarding it, the next caller
    would read the late response of the timed-out request.  `leak` rebuilds that state by hand. -/
def leak : St :=
  { pool := { idle := [{ id := 0, srv := [(0, 0)] }], nextConn := 1 },
    calls := [{ reqs := [(0, 0)], hasDeadline := true, pc := .done, result := some none }] }

example :
    let s := run { maxIdle := 1 } leak
      [.newCall 1 false, .call 1 (.get 0 true), .call 1 (.write true), .call 1 (.serve true), .call 1 (.read true), .call 1 (.put true)]
    (s.calls.map (·.result))[1]? = some (some (some [(0, 0)])) := by decide


/-! ### the request a call writes is its own: payload buffers are never shared -/

/-- PAYLOAD BUFFERS ARE EXCLUSIVE: under every interleaving of `serializePayload` (pool `Get`) and the single
    deferred `payloadPool.Put` of any number of calls, the backing arrays owned by calls in progress are pairwise
    distinct and none of them is referenced by a box still in the pool — no call can overwrite the payload another
    call's envelope still references, so `write` above really sends the caller's own request.  (That there is
    exactly one `Put` per function is a FACT re-extracted from client.go on every run.) -/
theorem C28_payload_exclusive (acts : List Payload.PAct) (hl : ∀ a ∈ acts, a.legal = true) :
    let s := Payload.prun {} acts
    (s.owned.map (·.2)).Nodup ∧ ∀ b ∈ s.pool, b ∉ s.owned.map (·.2) := by
  obtain ⟨h1, _⟩ := pinv_run acts {} hl pinv_init
  have := List.nodup_append.mp h1
  exact ⟨this.2.1, fun b hb hm => this.2.2 b hb b hm rfl⟩

/-- non-vacuity: three calls, buffers recycled through the pool, all distinct while owned -/
example :
    let s := Payload.prun {} [.get 0, .get 1, .put 0, .get 2, .put 1, .get 3]
    s.owned = [(3, 1), (2, 0)] ∧ s.pool = [] := by decide

/-- TEST (what the discipline excludes; seeded defect C28-s2): a second `Put` of call 0's buffer puts two boxes
    for the same array into the pool, and the next two calls both write into array 0. -/
example :
    let s := Payload.prun {} [.get 0, .put 0, .putAgain 0, .get 1, .get 2]
    s.owned = [(2, 0), (1, 0)] := by decide

end GoaktVerif.C28

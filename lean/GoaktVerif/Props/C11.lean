/-
C11 — "A name maps to at most one running actor in a system."

  Within one actor system, for any interleaving of concurrent Spawn, SpawnChild and SpawnNamedFromFunc
  calls with the same name, at most one actor with that path runs at any time and every successful
  caller receives that same PID. The system's actor count equals the number of running user actors
  after the calls settle.  (Quantified over 2-8 concurrent spawns of the same and different names,
  including spawns racing a stop of that name.)

Model: `GoaktVerif.Model.C11` — a machine whose operations are the PHASES of the calls (spawn begin /
end, stop begin / end, full calls, concurrent groups); every interleaving of concurrent callers at that
granularity is an operation sequence, so quantifying over all operation sequences quantifies over all
interleavings, any number of callers, any names.  Tied to /repo by running the same scripts on a real
actor system with gates inside PreStart / PostStop (tools/props/c11.py).

Result: still FALSE of the current code (`C11_refuted`, finding C11-F3): a SpawnChild whose PreStart is running
while its parent is stopped completes outside the tree; once parent and child are spawned again two instances of
the child's path run.  Two earlier defects are FIXED in /repo and their witnesses are now positive theorems:
`witness_stop_race_fixed` (C11-F1, f0fff1d) and `witness_name_index_fixed` (C11-F2, 38faff1).
`C11_partial`: for every interleaving of spawn phases (any kinds, names, number of callers) with no stop in
flight, the full statement holds.
-/
import GoaktVerif.Lemmas.C11Run

namespace GoaktVerif.C11
open GoaktVerif.Model.C11

/-- the property on the outcome `(s, outs)` of an execution -/
def Holds (s : St) (outs : List Out) : Prop :=
  -- every successful caller receives a PID that is running …
  (∀ o, o ∈ outs → ∀ q b, (q, b) ∈ outPids o → b = true) ∧
  -- … and callers that received actors of the same path received the same PID
  (∀ o₁ o₂, o₁ ∈ outs → o₂ ∈ outs → ∀ q₁ b₁ q₂ b₂, (q₁, b₁) ∈ outPids o₁ → (q₂, b₂) ∈ outPids o₂ →
      pathOf s q₁ = pathOf s q₂ → q₁ = q₂) ∧
  -- at most one actor with a given path runs
  (∀ k, liveCount s k ≤ 1) ∧
  -- once the calls have settled the actor count is the number of running user actors
  (s.flights = [] → s.stops = [] → s.counter = runningCount s)

/-- THE FULL PROPERTY: every operation sequence (hence every prefix: "at any time"). -/
def C11_full : Prop := ∀ ops : List Op, Holds (run St.init ops).1 (run St.init ops).2

/-- spawn of "a" while a stop of "a" is held inside PostStop -/
def witness : List Op :=
  [.full ⟨.spawn, ["a"]⟩, .kBegin ["a"], .full ⟨.spawn, ["a"]⟩, .kEnd ["a"], .full ⟨.spawn, ["a"]⟩]

/-- former finding C11-F1 (fixed by f0fff1d: a spawn that finds its name held by a stopping actor fails with
ErrActorAlreadyExists instead of starting a second instance): the racing caller gets an error, nothing leaks,
the count stays exact, and the spawn issued after the stop has settled creates the only instance -/
theorem witness_stop_race_fixed :
    (outPids ((run St.init (witness.take 3)).2.getD 2 .none) = []) ∧
    ((run St.init (witness.take 4)).1.counter = 0 ∧ runningCount (run St.init (witness.take 4)).1 = 0) ∧
    liveCount (run St.init witness).1 ["a"] = 1 := by
  decide

/-- former finding C11-F2 (fixed by 38faff1: the name index hands a shared name back when the node that took it
over is deleted): a child named like a top-level actor, stopped again, no longer hides the top-level actor -/
def witnessNameIndex : List Op :=
  [.full ⟨.spawn, ["x"]⟩, .full ⟨.spawn, ["a"]⟩, .full ⟨.child, ["a", "x"]⟩, .kill ["a", "x"], .full ⟨.spawn, ["x"]⟩]

theorem witness_name_index_fixed :
    liveCount (run St.init witnessNameIndex).1 ["x"] = 1 ∧ (run St.init witnessNameIndex).1.counter = 2 := by decide

/-- THE REFUTATION (finding C11-F3, the one defect still open): a SpawnChild held in PreStart while its parent is stopped completes
anyway ("parent pid does not exist" is not treated as a failure): the child runs outside the tree; once the
parent and the child are spawned again two instances of the child's path run -/
def witnessOrphan : List Op :=
  [.full ⟨.spawn, ["a"]⟩, .sBegin ⟨.child, ["a", "x"]⟩, .kill ["a"], .sEnd ["a", "x"],
   .full ⟨.spawn, ["a"]⟩, .full ⟨.child, ["a", "x"]⟩]

theorem witness_orphan : liveCount (run St.init witnessOrphan).1 ["a", "x"] = 2 := by decide

theorem C11_refuted : ¬ C11_full := by
  intro h
  have := (h witnessOrphan).2.2.1 ["a", "x"]
  rw [witness_orphan] at this
  omega

/-- PARTIAL (code as it is): any interleaving of the phases of any number of Spawn /
SpawnNamedFromFunc / SpawnChild calls on any names, with no Shutdown in flight ⇒ the full statement. -/
theorem C11_partial (ops : List Op) (hsp : ops.all spawnOnly = true) :
    Holds (run St.init ops).1 (run St.init ops).2 := by
  obtain ⟨hinv, _, hok⟩ := run_ok ops St.init inv_init hsp
  refine ⟨fun o ho q b hm => (hok o ho q b hm).1, ?_, live_le_one hinv, fun _ _ => hinv.count⟩
  intro o₁ o₂ h1 h2 q₁ b₁ q₂ b₂ m1 m2 e
  exact same_pid hinv q₁ q₂ (hok o₁ h1 q₁ b₁ m1).2 (hok o₂ h2 q₂ b₂ m2).2 e

/-! ### non-vacuity -/

/-- a non-trivial spawn-only execution: held spawns of "a" and of child "a/x" interleaved with a
concurrent group and full spawns; 3 actors end up running, all counted -/
example :
    let ops : List Op := [.sBegin ⟨.spawn, ["a"]⟩, .full ⟨.func, ["b"]⟩, .sEnd ["a"], .sBegin ⟨.child, ["a", "x"]⟩,
      .par [⟨.spawn, ["a"]⟩, ⟨.func, ["a"]⟩, ⟨.spawn, ["b"]⟩], .full ⟨.spawn, ["a"]⟩, .sEnd ["a", "x"], .full ⟨.child, ["a", "x"]⟩]
    ops.all spawnOnly = true ∧ (run St.init ops).1.counter = 3 ∧ runningCount (run St.init ops).1 = 3 := by
  decide

end GoaktVerif.C11

/-
C32 — executable specification (oracle) of a relocation plan, evaluated on the IMPLEMENTATION's
outputs by the driver's `judge` mode, and the order-witness search used to tie the map-order
dependent functions to the model.  Core Lean only.

The oracle states the English property directly (partition, eligibility, unplaceable-iff,
singletons on the leader, role-less actors on a least-loaded target for SOME iteration order);
it does not call the model's allocation functions.
-/
import GoaktVerif.Model.C32

namespace GoaktVerif.Spec.C32
open GoaktVerif.Model.C32

def sortIds (l : List Nat) : List Nat := l.mergeSort (fun a b => decide (a ≤ b))

def sameIds (a b : List Nat) : Bool := sortIds a == sortIds b

def eligibleSomewhere (targets : List (List Role)) (role : Role) : Bool :=
  targets.any (fun t => eligibleForRole t role)

/-! ### order-witness search

`rem` holds, per target, the still unexplained suffix of the share the implementation produced
(append order).  A step removes the head `a` of some share `i` for which `feas loads a i` holds and
bumps `loads[i]`.  For both feasibility predicates used below, a head that is feasible stays
feasible while OTHER shares advance (their loads only grow), so taking the first feasible head
never needs backtracking: the search fails only if no order exists. -/

def findFeasible (feas : List Nat → Actor → Nat → Bool) (loads : List Nat) : List (List Actor) → Nat → Option Nat
  | [], _ => none
  | [] :: rest, i => findFeasible feas loads rest (i + 1)
  | (a :: _) :: rest, i => if feas loads a i then some i else findFeasible feas loads rest (i + 1)

def popAt : List (List Actor) → Nat → Option (Actor × List (List Actor))
  | [], _ => none
  | [] :: _, 0 => none
  | (a :: s) :: ss, 0 => some (a, s :: ss)
  | s :: ss, i + 1 => match popAt ss i with
    | some (a, ss') => some (a, s :: ss')
    | none => none

def searchOrder (feas : List Nat → Actor → Nat → Bool) : Nat → List (List Actor) → List Nat → List Actor → Option (List Actor)
  | 0, rem, _, acc => if rem.all List.isEmpty then some acc.reverse else none
  | fuel + 1, rem, loads, acc =>
    if rem.all List.isEmpty then some acc.reverse
    else match findFeasible feas loads rem 0 with
      | none => none
      | some i => match popAt rem i with
        | some (a, rem') => searchOrder feas fuel rem' (incAt loads i) (a :: acc)
        | none => none

/-- model-level feasibility: the code's scan (lowest index among the least loaded eligible) picks `i` -/
def feasModel (targets : List (List Role)) (loads : List Nat) (a : Actor) (i : Nat) : Bool :=
  pickTarget targets loads a.role == some i

/-- property-level feasibility: a role-less actor must sit on a target whose current load is minimal
    among ALL targets (any tie-break); a role-constrained actor only needs an eligible target, which is
    checked separately -/
def feasSpec (loads : List Nat) (a : Actor) (i : Nat) : Bool :=
  if a.role == 0 then loads.all (fun l => decide (loads.getD i 0 ≤ l)) else true

/-! ### allocateActors -/

structure AAOut where
  lead : List Actor
  shares : List (List Actor)
  unpl : List Actor

/-- the leader share is `singletons ++ shares[0]`: split it back -/
def AAOut.singles (o : AAOut) : List Actor := o.lead.take (o.lead.length - (o.shares.headD []).length)

def ids (l : List Actor) : List Nat := l.map (·.id)

/-- `none` = the plan satisfies the property; `some reason` otherwise -/
def aaCheck (targets : List (List Role)) (base : List Nat) (actors : List Actor) (o : AAOut) : Option String :=
  let share0 := o.shares.headD []
  let singles := o.singles
  let placed := o.shares.flatten
  if o.shares.length ≠ targets.length then some "number of shares differs from the number of targets"
  else if o.lead.drop (o.lead.length - share0.length) ≠ share0 then some "leader share does not end with its balanced share"
  else if !sameIds (ids (singles ++ placed ++ o.unpl)) (ids actors) then
    some "not a partition: an entry of the departed node is lost, duplicated or invented"
  else if !(singles.all (·.singleton) && placed.all (fun a => !a.singleton) && o.unpl.all (fun a => !a.singleton)) then
    some "singleton outside the leader's singleton share (or non-singleton inside it)"
  else if !((o.shares.zip targets).all (fun (sh, t) => sh.all (fun a => eligibleForRole t a.role))) then
    some "actor assigned to a target that does not advertise its role"
  else if !(o.unpl.all (fun a => !eligibleSomewhere targets a.role)) then
    some "actor reported unplaceable although a target advertises its role"
  else match searchOrder feasSpec actors.length o.shares (initLoads targets.length base) [] with
    | some _ => none
    | none => some "no iteration order puts every role-less actor on a least-loaded target"

/-- correspondence witness: an iteration order under which the model reproduces the output
    (singletons and unplaceable entries do not touch the loads, so they go first) -/
def aaWitness (targets : List (List Role)) (base : List Nat) (actors : List Actor) (o : AAOut) : Option (List Actor) :=
  match searchOrder (feasModel targets) actors.length o.shares (initLoads targets.length base) [] with
  | some placedOrder => some (o.singles ++ o.unpl ++ placedOrder)
  | none => none

/-! ### grains -/

def gids (l : List Grain) : List Nat := l.map (·.id)

def agCheck (total : Nat) (grains rel lead : List Grain) (shares : List (List Grain)) : Option String :=
  let share0 := shares.headD []
  if !sameIds (gids rel) (gids (grains.filter (fun g => !g.disabled))) then
    some "relocatable grains are not exactly the grains that did not disable relocation"
  else if shares.length > total then some "more grain shares than targets"
  else if lead.drop (lead.length - share0.length) ≠ share0 then some "leader grain share does not end with share 0"
  else if !sameIds (gids (lead ++ (shares.drop 1).flatten)) (gids rel) then
    some "a relocatable grain is not assigned exactly once"
  else none

/-! ### reassignByRole -/

structure RROut where
  shares : List (List Actor)
  lead : List Actor
  grains : List Grain
  failed : List Actor

/-- replay in wire order: every role-less actor that went to a survivor sits on a least-loaded one -/
def rrLeast (k : Nat) (o : RROut) : List Actor → List Nat → Bool
  | [], _ => true
  | a :: rest, lens =>
    match (List.range k).find? (fun i => (ids (o.shares.getD i [])).contains a.id) with
    | some i =>
      (a.role != 0 || lens.all (fun l => decide (lens.getD i 0 ≤ l))) && rrLeast k o rest (incAt lens i)
    | none => rrLeast k o rest lens

def rrCheck (requests : List Request) (survivors : List (List Role)) (leaderRoles : List Role) (o : RROut) : Option String :=
  let actors := requestActors requests
  if o.shares.length ≠ survivors.length then some "number of shares differs from the number of survivors"
  else if !sameIds (ids (o.shares.flatten ++ o.lead ++ o.failed)) (ids actors) then
    some "not a partition: an unsent actor is lost, duplicated or invented"
  else if !((o.shares.zip survivors).all (fun (sh, t) => sh.all (fun a => eligibleForRole t a.role))) then
    some "actor reassigned to a survivor that does not advertise its role"
  else if !(o.lead.all (fun a => eligibleForRole leaderRoles a.role)) then
    some "actor taken by the leader although the leader does not advertise its role"
  else if !(o.failed.all (fun a => !eligibleSomewhere (leaderRoles :: survivors) a.role)) then
    some "actor recorded as failed although a surviving node advertises its role"
  else if !sameIds (gids o.grains) (gids (requestGrains requests)) then
    some "unsent grains lost, duplicated or invented"
  else if !rrLeast survivors.length o actors (List.replicate survivors.length 0) then
    some "role-less actor not on a least-loaded survivor"
  else none

/-! ### survivors of an unreachable target + redistribution over them -/

/-- indices of the peers whose endpoint differs from the target's (host OR port) -/
def specSurvivors (peers : List Peer) (t : Nat) : List Nat :=
  match peers[t]? with
  | none => []
  | some tg => (List.range peers.length).filter (fun i =>
      match peers[i]? with
      | some p => p.host != tg.host || p.port != tg.port
      | none => false)

def rxCheck (requests : List Request) (peers : List Peer) (t : Nat) (leaderRoles : List Role)
    (sv : List Nat) (o : RROut) : Option String :=
  let want := specSurvivors peers t
  if sv ≠ want then
    some "survivors are not exactly the peers whose host:port differs from the unreachable target's"
  else
    rrCheck requests (want.map (fun i => ((peers[i]?).map (·.roles)).getD [])) leaderRoles o

end GoaktVerif.Spec.C32

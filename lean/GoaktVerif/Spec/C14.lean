/-
C14 spec — the DOCUMENTED behaviour stack (actor/receive_context.go doc comments):

  Become(b)          "replaces the current behavior … does not maintain a stack"      ⇒ [b]
  BecomeStacked(b)   "pushes a new behavior on top of the current one"                 ⇒ b :: s
  UnBecomeStacked    "pops the most recently stacked behavior … resumes the previous
                      behavior … No effect if there is no stack."                      ⇒ tail, unless nothing is stacked
  UnBecome           "resets the actor behavior to its default (initial) behavior,
                      clearing any stacked or currently swapped behavior"              ⇒ [default]
  "The current message continues to be processed by the existing behavior;
   subsequent messages are handled by the new one."

The spec works on a plain `List` of behaviour ids (top first).  `Plain` is the naive stack in
which UnBecomeStacked pops whatever is there (also the base): it is what the code does today.
Core Lean only; everything is executable so the driver's judge can run it.
-/
import GoaktVerif.Model.C14

namespace GoaktVerif.Spec.C14
open GoaktVerif.Model.C14

/-- documented semantics; `d` is the default behaviour -/
def docOp (d : Beh) (s : List Beh) : Op → List Beh
  | .become b => [b]
  | .becomeStacked b => b :: s
  | .unbecomeStacked => if s.length ≤ 1 then s else s.tail
  | .unbecome => [d]

/-- naive stack: UnBecomeStacked pops unconditionally -/
def plainOp (d : Beh) (s : List Beh) : Op → List Beh
  | .become b => [b]
  | .becomeStacked b => b :: s
  | .unbecomeStacked => s.tail
  | .unbecome => [d]

/-- handler per message under a given op semantics: the top at the START of the message;
    the script is applied afterwards (it only affects later messages) -/
def handlers (opf : List Beh → Op → List Beh) : List Beh → List (List Op) → List (Option Beh)
  | _, [] => []
  | s, m :: ms => s.head? :: handlers opf (m.foldl opf s) ms

/-- handlers under the naive stack; a message that finds the stack empty has no handler, so its
    script does not run (nothing can execute it) -/
def plainHandlersFrom (d : Beh) : List Beh → List (List Op) → List (Option Beh)
  | _, [] => []
  | s, m :: ms => s.head? :: plainHandlersFrom d (if s = [] then [] else m.foldl (plainOp d) s) ms

/-- stack left behind by a stream, naive semantics (scripts of unhandled messages do not run) -/
def plainFinalFrom (d : Beh) : List Beh → List (List Op) → List Beh
  | s, [] => s
  | s, m :: ms => plainFinalFrom d (if s = [] then [] else m.foldl (plainOp d) s) ms

/-- stack left behind by a stream, documented semantics -/
def docFinalFrom (d : Beh) : List Beh → List (List Op) → List Beh
  | s, [] => s
  | s, m :: ms => docFinalFrom d (m.foldl (docOp d) s) ms

def docFinal (d : Beh) (msgs : List (List Op)) : List Beh := docFinalFrom d [d] msgs
def plainFinal (d : Beh) (msgs : List (List Op)) : List Beh := plainFinalFrom d [d] msgs

def docHandlers (d : Beh) (msgs : List (List Op)) : List (Option Beh) := handlers (docOp d) [d] msgs
def plainHandlers (d : Beh) (msgs : List (List Op)) : List (Option Beh) := plainHandlersFrom d [d] msgs

/-- events the documentation predicts: every call made while handling message i is made by the
    behaviour that was on top when message i started -/
def docEvents (d : Beh) : List Beh → List (List Op) → List (List (Beh × Op))
  | _, [] => []
  | s, m :: ms => (m.map fun op => (s.headD d, op)) :: docEvents d (m.foldl (docOp d) s) ms

/-- well-formedness guard: no UnBecomeStacked is executed while nothing is stacked above the
    base (documented stack depth ≤ 1).  Decidable by simulation of the documented stack. -/
def wfScript (d : Beh) : List Beh → List Op → Bool
  | _, [] => true
  | s, op :: ops => (match op with | .unbecomeStacked => decide (2 ≤ s.length) | _ => true) && wfScript d (docOp d s op) ops

def wfFrom (d : Beh) : List Beh → List (List Op) → Bool
  | _, [] => true
  | s, m :: ms => wfScript d s m && wfFrom d (m.foldl (docOp d) s) ms

def wellFormed (d : Beh) (msgs : List (List Op)) : Bool := wfFrom d [d] msgs

/-- judge: does an observed handler sequence (one `Option Beh` per message) agree with the documentation? -/
def agreesDoc (d : Beh) (msgs : List (List Op)) (obs : List (Option Beh)) : Bool := obs == docHandlers d msgs
def agreesPlain (d : Beh) (msgs : List (List Op)) (obs : List (Option Beh)) : Bool := obs == plainHandlers d msgs

end GoaktVerif.Spec.C14

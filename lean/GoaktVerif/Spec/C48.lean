/-
C48 spec side: "a map with per-key expiry".  The abstract state is a plain function
key → Option (value × expireAt); nothing is ever evicted or compacted, `Get` simply looks at the
deadline.  Used by the theorems (Props/C48) and by the driver's judge mode, which replays the case
on this spec and compares the implementation's answers.
-/
namespace GoaktVerif.Spec.C48

abbrev SMap := Nat → Option (Int × Int)

def SMap.empty : SMap := fun _ => none

def SMap.set (m : SMap) (k : Nat) (v exp : Int) : SMap := fun k' => if k' = k then some (v, exp) else m k'

def SMap.del (m : SMap) (k : Nat) : SMap := fun k' => if k' = k then none else m k'

/-- the value a `Get(k)` must return when the clock reads `now` -/
def SMap.get (m : SMap) (now : Int) (k : Nat) : Option Int :=
  match m k with
  | some (v, e) => if now < e then some v else none
  | none => none

/-- number of live keys among `keys` (a duplicate-free list covering every key ever set) -/
def SMap.active (m : SMap) (now : Int) (keys : List Nat) : Nat :=
  (keys.filter fun k => (m.get now k).isSome).length

structure SCfg where
  ttl : Int
  now : Int
  m : SMap

/-- spec-level operations (same alphabet as the model's `Op`, kept separate so that the spec
    does not depend on the model) -/
inductive SOp where
  | set (k : Nat) (v : Int)
  | get (k : Nat)
  | del (k : Nat)
  | reset
  | len
  | activeLen
  | tick (d : Nat)
  deriving Repr, DecidableEq

/-- what the spec says an operation returns; `len` is only bounded below (see `lenOK`) -/
inductive SOut where
  | unit
  | val (o : Option Int)
  | active            -- "the number of live keys": evaluated with `SMap.active` over a key list
  | anyLen
  deriving Repr, DecidableEq

def sstep (c : SCfg) : SOp → SCfg × SOut
  | .set k v => ({ c with m := c.m.set k v (c.now + c.ttl) }, .unit)
  | .get k => (c, .val (c.m.get c.now k))
  | .del k => ({ c with m := c.m.del k }, .unit)
  | .reset => ({ c with m := SMap.empty }, .unit)
  | .len => (c, .anyLen)
  | .activeLen => (c, .active)
  | .tick d => ({ c with now := c.now + d }, .unit)

/-- run a history on the spec, collecting for each op the configuration BEFORE it and its spec output -/
def srun (c : SCfg) : List SOp → List (SCfg × SOut)
  | [] => []
  | op :: ops => let r := sstep c op; (c, r.2) :: srun r.1 ops

end GoaktVerif.Spec.C48

import GoaktVerif.Model.Crdt.PNCounter
import GoaktVerif.Model.Crdt.Flag
import GoaktVerif.Model.Crdt.LWWRegister
import GoaktVerif.Model.Crdt.MVRegister
import GoaktVerif.Model.Crdt.ORMap

/-!
C38 specification side (core Lean, decidable):

* the information order `le` of every CRDT type ("merging never shrinks the information already
  present" is `le x (merge x y)` and `le y (merge x y)`);
* the observation `obs` that the join laws are stated about: the replicated part of the state plus
  the public value, WITHOUT the delta/dirty bookkeeping (which Merge deliberately takes from the
  receiver or clears) and without slice order;
* `judgeOutput`: the oracle over a law section printed by the implementation
  (harness/verifdrv/c38/main.go): commutativity, associativity, idempotence on `obs`, inflation by
  `le`, Clone equality and the purity verdict.
-/
namespace GoaktVerif.Spec.C38
open GoaktVerif.Model.Crdt

/-! ### information orders -/

/-- pointwise ≤ on maps, every key of `a` present in `b` -/
def leMap (a b : AMap Nat) : Bool :=
  a.all fun p => match b.get? p.1 with
    | some v => decide (p.2 ≤ v)
    | none => false

/-- pointwise ≤ on version vectors (absent = 0) -/
def leClock (a b : AMap Nat) : Bool := a.all fun p => decide (p.2 ≤ b.getD p.1 0)

def leGC (a b : GCounter) : Bool := leMap a.state b.state
def lePN (a b : PNCounter) : Bool := leGC a.increments b.increments && leGC a.decrements b.decrements
def leFlag (a b : Flag) : Bool := !a.enabled || b.enabled
/-- write stamps ordered lexicographically by (timestamp, nodeID) -/
def leLWW (a b : LWWRegister) : Bool :=
  decide (a.timestamp < b.timestamp) || (decide (a.timestamp = b.timestamp) && decide (a.nodeID ≤ b.nodeID))
/-- `b` has seen at least the writes `a` has seen, and every write `a` has seen and `b` still holds
    is still held by `a` (nothing overwritten comes back) -/
def leMV (a b : MVRegister) : Bool :=
  leClock a.clock b.clock &&
  b.entries.all fun e => !isDominated e.dot a.clock || a.entries.contains e
/-- same for (element, dot) pairs: nothing observed is forgotten, nothing removed is resurrected -/
def leOS (a b : ORSet) : Bool :=
  leClock a.clock b.clock &&
  b.entries.all fun p => p.2.all fun d => !isDominated d a.clock || containsDot (a.dotsOf p.1) d
/-- key set order, and the value of every key present on both sides grows -/
def leOM {V : Type} (leV : V → V → Bool) (a b : ORMap V) : Bool :=
  leOS a.keys b.keys &&
  a.values.all fun p => match b.values.get? p.1 with
    | some w => leV p.2 w
    | none => true

/-! ### parsing the dumps of harness/inpkg/crdt/zz_verif_c38.go -/

def splitNE (s : String) (sep : String) : List String := if s = "" then [] else s.splitOn sep

def parsePair (s : String) (sep : String) : Option (Nat × Nat) :=
  match s.splitOn sep with
  | [a, b] => do some (← a.toNat?, ← b.toNat?)
  | _ => none

def parseMap (s : String) (sep : String := ",") : Option (AMap Nat) := (splitNE s sep).mapM (parsePair · ".")

def parseDot (s : String) : Option Dot := (parsePair s ".").map fun p => ⟨p.1, p.2⟩

def parseDotMap (s : String) : Option (AMap (List Dot)) :=
  (splitNE s ",").mapM fun it =>
    match it.splitOn ":" with
    | [e, ds] => do some (← e.toNat?, ← (splitNE ds "+").mapM parseDot)
    | _ => none

def parseMVEntries (s : String) : Option (List MvEntry) :=
  (splitNE s ",").mapM fun it =>
    match it.splitOn "@" with
    | [v, d] => do some ⟨← v.toNat?, ← parseDot d⟩
    | _ => none

def parseValMap (s : String) : Option (AMap GCounter) :=
  (splitNE s ",").mapM fun it =>
    match it.splitOn ">" with
    | [k, st, dl] => do some (← k.toNat?, ⟨← parseMap st "+", ← parseMap dl "+"⟩)
    | _ => none

def parseB (s : String) : Option Bool := if s = "1" then some true else if s = "0" then some false else none

/-- state fields (split on '/') and value part of a dump `<state>~<value>` -/
def dumpParts (d : String) : List String × String :=
  match d.splitOn "~" with
  | [s, v] => (s.splitOn "/", v)
  | _ => ([], "")

def parseGC (d : String) : Option GCounter :=
  match (dumpParts d).1 with
  | [s, dl] => do some ⟨← parseMap s, ← parseMap dl⟩
  | _ => none

def parsePN (d : String) : Option PNCounter :=
  match (dumpParts d).1 with
  | [s1, d1, s2, d2] => do some ⟨⟨← parseMap s1, ← parseMap d1⟩, ⟨← parseMap s2, ← parseMap d2⟩⟩
  | _ => none

def parseFL (d : String) : Option Flag :=
  match (dumpParts d).1 with
  | [e, di] => do some ⟨← parseB e, ← parseB di⟩
  | _ => none

def parseLW (d : String) : Option LWWRegister :=
  match (dumpParts d).1 with
  | [v, ts, n, di] => do
    let v ← if v = "_" then some none else v.toNat?.map some
    some ⟨v, ← ts.toInt?, ← n.toNat?, ← parseB di⟩
  | _ => none

def parseMV (d : String) : Option MVRegister :=
  match (dumpParts d).1 with
  | [es, clk, di] => do some ⟨← parseMVEntries es, ← parseMap clk, ← parseB di⟩
  | _ => none

def parseOS (d : String) : Option ORSet :=
  match (dumpParts d).1 with
  | [es, clk, ad, rm] => do some ⟨← parseDotMap es, ← parseMap clk, ⟨← parseDotMap ad, ← parseDotMap rm⟩⟩
  | _ => none

def parseOM (d : String) : Option (ORMap GCounter) :=
  match (dumpParts d).1 with
  | [es, clk, ad, rm, vals, di] => do
    some ⟨⟨← parseDotMap es, ← parseMap clk, ⟨← parseDotMap ad, ← parseDotMap rm⟩⟩, ← parseValMap vals, ← parseB di⟩
  | _ => none

/-- `le` on two dumps of type `ty`; `none` = unparsable -/
def leDump (ty : String) (a b : String) : Option Bool :=
  match ty with
  | "gc" => do some (leGC (← parseGC a) (← parseGC b))
  | "pn" => do some (lePN (← parsePN a) (← parsePN b))
  | "fl" => do some (leFlag (← parseFL a) (← parseFL b))
  | "lw" => do some (leLWW (← parseLW a) (← parseLW b))
  | "mv" => do some (leMV (← parseMV a) (← parseMV b))
  | "os" => do some (leOS (← parseOS a) (← parseOS b))
  | "om" => do some (leOM leGC (← parseOM a) (← parseOM b))
  | _ => none

/-! ### the observation the join laws are about -/

def sortItems (s : String) : String :=
  ",".intercalate ((splitNE s ",").mergeSort (fun a b => !(b < a)))

/-- drop the nested delta of `k>state>delta` items -/
def stripNested (s : String) : String :=
  ",".intercalate ((splitNE s ",").map fun it =>
    match it.splitOn ">" with
    | [k, st, _] => k ++ ">" ++ st
    | _ => it)

def obs (ty : String) (d : String) : String :=
  let (f, v) := dumpParts d
  let g := fun i => f.getD i "?"
  match ty with
  | "gc" => g 0 ++ "~" ++ v
  | "pn" => g 0 ++ "/" ++ g 2 ++ "~" ++ v
  | "fl" => g 0 ++ "~" ++ v
  | "lw" => g 0 ++ "/" ++ g 1 ++ "/" ++ g 2 ++ "~" ++ v
  | "mv" => sortItems (g 0) ++ "/" ++ g 1 ++ "~" ++ sortItems v
  | "os" => g 0 ++ "/" ++ g 1 ++ "~" ++ v
  | "om" =>
    let v' := match v.splitOn "#" with
      | [a, b, c] => a ++ "#" ++ b ++ "#" ++ stripNested c
      | _ => v
    g 0 ++ "/" ++ g 1 ++ "/" ++ stripNested (g 4) ++ "~" ++ v'
  | _ => d

/-! ### the oracle over one law section -/

def lookup (items : List (String × String)) (k : String) : String :=
  match items.find? (·.1 = k) with
  | some p => p.2
  | none => "<missing " ++ k ++ ">"

def parseItems (seg : String) : List (String × String) :=
  (seg.splitOn ";").filterMap fun it =>
    match it.splitOn "=" with
    | k :: rest => if rest.isEmpty then none else some (k, "=".intercalate rest)
    | [] => none

/-- all law violations in one law section -/
def lawFailures (ty : String) (seg : String) : List String := Id.run do
  let items := parseItems seg
  let n := (items.filter fun p => p.1.startsWith "V").length
  let get := lookup items
  let mut bad : Array String := #[]
  let p := get "P"
  if p ≠ "ok" then bad := bad.push s!"pure {p}"
  for i in [0:n] do
    if get s!"C{i}" ≠ get s!"V{i}" then bad := bad.push s!"clone {i}"
    if obs ty (get s!"M{i}{i}") ≠ obs ty (get s!"V{i}") then bad := bad.push s!"idem {i}"
  for i in [0:n] do
    for j in [0:n] do
      let m := get s!"M{i}{j}"
      if i < j && obs ty m ≠ obs ty (get s!"M{j}{i}") then bad := bad.push s!"comm {i} {j}"
      match leDump ty (get s!"V{i}") m, leDump ty (get s!"V{j}") m with
      | some true, some true => pure ()
      | some _, some _ => bad := bad.push s!"infl {i} {j}"
      | _, _ => bad := bad.push s!"unparsable {i} {j}"
  for i in [0:n] do
    for j in [0:n] do
      for k in [0:n] do
        if obs ty (get s!"A{i}{j}{k}") ≠ obs ty (get s!"B{i}{j}{k}") then bad := bad.push s!"assoc {i} {j} {k}"
  return bad.toList

def judgeOutput (ty : String) (out : String) : String :=
  if out.startsWith "panic" || out.startsWith "CRASH" then "bad crash " ++ out else
  let segs := (out.splitOn "|").filter (·.startsWith "L;")
  let bad := segs.flatMap (lawFailures ty)
  if bad.isEmpty then "ok" else "bad " ++ ", ".intercalate (bad.take 60)

end GoaktVerif.Spec.C38

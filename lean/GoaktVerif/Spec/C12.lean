/-
C12 spec side: what "passivation only removes actors that are truly idle" demands of one
observed passivation.  Used by the theorems (Props/C12) and by the driver's judge mode, which
evaluates them on the IMPLEMENTATION's printed states.
-/
namespace GoaktVerif.Spec.C12

/-- time clause: an actor whose last handled message is at `latest` may be passivated at `now`
    by a time-based strategy with timeout `T` only if a whole `T` (minus the documented
    coalescing slack `slack`) has elapsed.  An actor that never handled a message has no bound. -/
def timeOK (slack T now : Nat) (latest : Option Nat) : Bool :=
  match latest with
  | none => true
  | some l => l + T < now + slack

/-- "never while paused, suspended or stopping, and never with the long-lived strategy" -/
def guardsOK (longLived pausedF suspended stopping : Bool) : Bool :=
  !longLived && !pausedF && !suspended && !stopping

/-- "a message-count strategy passivates only after N messages since its registration":
    `baseline` is the processed count the registration recorded -/
def countOK (processed baseline n : Int) : Bool := decide (baseline + n ≤ processed)

/-- "its PostStop ran exactly once": never more than once at any time, exactly once when passivated -/
def onceOK (postStops : Nat) : Bool := postStops ≤ 1

end GoaktVerif.Spec.C12

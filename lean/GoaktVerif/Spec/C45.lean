/-
C45 spec side: the LIST semantics of a linear pipeline (no actors, no demand, no scheduling) and
the decidable judgements the driver evaluates on the implementation's outputs.  Core Lean only.
-/
import GoaktVerif.Model.C45.Basic

namespace GoaktVerif.Spec.C45
open GoaktVerif.Model.C45

/-- longest prefix of ints, and whether something else follows it (a type error for an int stage) -/
def ints : List Val → List Int × Bool
  | [] => ([], false)
  | .int x :: rest => let r := ints rest; (x :: r.1, r.2)
  | _ :: _ => ([], true)

def lists : List Val → List (List Int) × Bool
  | [] => ([], false)
  | .list l :: rest => let r := lists rest; (l :: r.1, r.2)
  | _ :: _ => ([], true)

def tyErr (b : Bool) : Option Err := if b then some typeErr else none

/-- running sums -/
def scanSums : Int → List Int → List Int
  | _, [] => []
  | a, x :: xs => (a + x) :: scanSums (a + x) xs

/-- drop an element equal to its predecessor -/
def dedupFrom : Option Int → List Int → List Int
  | _, [] => []
  | last, x :: xs => if last = some x then dedupFrom last xs else x :: dedupFrom (some x) xs

/-- split into chunks of `n` (the last one may be shorter); `acc` is the chunk being filled -/
def chunksAux (n : Nat) : List Int → List Int → List (List Int)
  | acc, [] => if acc.isEmpty then [] else [acc]
  | acc, x :: xs =>
    let acc' := acc ++ [x]
    if acc'.length ≥ n then acc' :: chunksAux n [] xs else chunksAux n acc' xs

def chunks (n : Nat) (xs : List Int) : List (List Int) := chunksAux n [] xs

/-- elements before the first `bad` one -/
def beforeBad (bad : Option Int) (xs : List Int) : List Int := xs.takeWhile (fun x => bad ≠ some x)

/-- list semantics of one stage: the outputs up to the first failure, and that failure -/
def stageSem : Stage → List Val → List Val × Option Err
  | .map k, vs => let r := ints vs; (r.1.map (fun x => .int (x + k)), tyErr r.2)
  | .tryMap k bad e, vs =>
    let r := ints vs
    let pre := beforeBad (some bad) r.1
    (pre.map (fun x => .int (x + k)), if pre.length < r.1.length then some e else tyErr r.2)
  | .filter m r, vs => let q := ints vs; ((q.1.filter (fun x => x.emod m ≠ r)).map .int, tyErr q.2)
  | .flatMap r, vs =>
    let q := ints vs; (q.1.flatMap (fun x => List.replicate (x.emod r).toNat (Val.int x)), tyErr q.2)
  | .flatten, vs => let q := lists vs; (q.1.flatMap (fun l => l.map Val.int), tyErr q.2)
  | .scan, vs => let q := ints vs; ((scanSums 0 q.1).map .int, tyErr q.2)
  | .dedup, vs => let q := ints vs; ((dedupFrom none q.1).map .int, tyErr q.2)
  | .batch n, vs => let q := ints vs; ((chunks n q.1).map .list, tyErr q.2)
  | .buffer _, vs => (vs, none)
  | .opmap _ k bad e, vs =>
    let r := ints vs
    let pre := beforeBad bad r.1
    (pre.map (fun x => .int (x + k)), if pre.length < r.1.length then some e else tyErr r.2)
  | .pmap _ k bad e, vs =>
    let r := ints vs
    let pre := beforeBad bad r.1
    (pre.map (fun x => .int (x + k)), if pre.length < r.1.length then some e else tyErr r.2)
  | .sum, vs => let q := lists vs; (q.1.map (fun l => .int (l.foldl (· + ·) 0)), tyErr q.2)

/-- list semantics of a pipeline: each stage sees what its predecessor delivers before failing;
    the errors are the candidates the stream may end with (exactly one candidate = deterministic) -/
def sem : List Stage → List Val → List Val × List Err
  | [], xs => (xs, [])
  | s :: rest, xs =>
    let r := stageSem s xs
    let q := sem rest r.1
    (q.1, r.2.toList ++ q.2)

/-! ### decidable judgements used by the driver -/

def isPrefix [DecidableEq α] : List α → List α → Bool
  | [], _ => true
  | _ :: _, [] => false
  | a :: as, b :: bs => a == b && isPrefix as bs

/-- multiset equality, deciding by erasing -/
def isPerm [DecidableEq α] : List α → List α → Bool
  | [], bs => bs.isEmpty
  | a :: as, bs => bs.contains a && isPerm as (bs.erase a)

/-- sub-multiset -/
def isSubPerm [DecidableEq α] : List α → List α → Bool
  | [], _ => true
  | a :: as, bs => bs.contains a && isSubPerm as (bs.erase a)

/-- does the pipeline contain a parallel stage whose emission order is not the input order -/
def unordered : List Stage → Bool
  | [] => false
  | .pmap w _ _ _ :: rest => w > 1 || unordered rest
  | _ :: rest => unordered rest

def hasParallel : List Stage → Bool
  | [] => false
  | .pmap _ _ _ _ :: _ => true
  | .opmap _ _ _ _ :: _ => true
  | _ :: rest => hasParallel rest

/-- what the sink observed -/
inductive Status where
  | done
  | failed (e : Err)
  | timeout
  deriving DecidableEq, Repr

/-- the end-to-end judgement: `none` = conforms to the list semantics, `some reason` otherwise -/
def judgeRun (stages : List Stage) (input : List Val) (st : Status) (hooks : Nat) (got : List Val) : Option String :=
  let r := sem stages input
  match st with
  | .timeout => some "the stream did not complete"
  | .done =>
    if hooks ≠ 1 then some s!"completion hook ran {hooks} times"
    else if !r.2.isEmpty then some "completed normally although a stage fails on this input"
    else if unordered stages then
      (if isPerm got r.1 then none else some "sink elements are not a permutation of the list semantics")
    else if got = r.1 then none
    else if isPrefix got r.1 then some "sink completed with elements missing"
    else some "sink elements differ from the list semantics"
  | .failed e =>
    if hooks ≠ 1 then some s!"completion hook ran {hooks} times"
    else if !r.2.contains e then some s!"stream failed with {e}, which no stage raises on this input"
    else if hasParallel stages then none
    else if isPrefix got r.1 then none
    else some "elements delivered before the failure are not a prefix of the list semantics"

/-! ### judgement of a single stage's message trace (st cases) -/

/-- what was observed for one handled message -/
structure Obs where
  ev : Ev
  /-- the stage did not handle the message (it had stopped) -/
  dead : Bool
  /-- the handler panicked -/
  panic : Bool
  /-- downstream messages it sent -/
  downs : List Down
  deriving Repr

def elemsOf' : List Down → List Val
  | [] => []
  | .elem v :: r => v :: elemsOf' r
  | _ :: _ => []

def termOf' : List Down → Option (Option Err)
  | [] => none
  | .elem _ :: r => termOf' r
  | .complete :: _ => some none
  | .error e :: _ => some (some e)

def wf' : List Down → Bool
  | [] => true
  | .elem _ :: r => wf' r
  | t :: r => r.all (· == t)

/-- "FIFO transducer whatever the demand pattern": judge the downstream messages a stage sent against
    the list semantics `stages` of what it consumed. `src` = the stage is a source emitting `srcVals`. -/
def judgeStage (stages : List Stage) (srcVals : Option (List Val)) (unord : Bool) (obs : List Obs)
    (pool : Option (List Val) := none) : Option String :=
  if obs.any (·.panic) then some "the stage panicked (message handled before its stageWire)" else
  let handled := obs.filter (fun o => !o.dead)
  let insAll : List Down := handled.filterMap fun o => match o.ev with | .down d => some d | _ => none
  if !wf' insAll then none else   -- ill-formed upstream: nothing is claimed
  let cancelled := handled.any fun o => match o.ev with | .up .cancel => true | _ => false
  let xs := match srcVals with | some vs => vs | none => elemsOf' insAll
  let tin := termOf' insAll
  let outs := (obs.map (·.downs)).flatten
  let ys := elemsOf' outs
  let r := sem stages xs
  if !wf' outs then some "an element (or a different terminal) was sent after a terminal message" else
  -- an unordered parallel stage may emit results of elements that FOLLOW a failing one before the failure arrives:
  -- `pool` = the results of all consumed elements that do not fail
  if !(if unord then isSubPerm ys (pool.getD r.1) else isPrefix ys r.1) then some "emitted elements are not a prefix of the stage semantics of the consumed elements" else
  match termOf' outs with
  | none => none
  | some none =>
    if cancelled then none
    else if srcVals.isNone && tin != some none then some "streamComplete sent without having received it"
    else if !r.2.isEmpty then some "streamComplete sent although the stage fails on a consumed element"
    else if (if unord then isPerm ys r.1 else ys == r.1) then none
    else some "streamComplete sent with elements missing"
  | some (some e) =>
    if tin == some (some e) || r.2.contains e then none else some s!"streamError {e} sent, which neither arrived nor is raised by the stage"

/-- the sink's completion hook: never twice, and once when it has stopped -/
def judgeHooks (states : List (Bool × Nat)) : Option String :=
  if states.any (fun s => s.2 > 1) then some "completion hook ran more than once"
  else if states.any (fun s => !s.1 && s.2 != 1) then some "sink stopped without running the completion hook exactly once"
  else none

end GoaktVerif.Spec.C45

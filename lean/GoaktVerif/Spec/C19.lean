/-
C19 spec side: what the property demands of an observed history, independent of the model of the
code.  Used by Props/C19 and by the driver's judge on the implementation's outputs.
-/
namespace GoaktVerif.Spec.C19

/-- what the caller did with a reference, oldest first -/
inductive Act where
  | schedule (oneShot : Bool)
  | cancel | pause | resume
  | delivered          -- a one-shot was observed to be delivered
  deriving Repr, DecidableEq

/-- abstract status of a reference after a history -/
inductive Status where
  | unknown | active (oneShot : Bool) | paused (oneShot : Bool) | cancelled | done
  deriving Repr, DecidableEq

def next : Status → Act → Status
  | .active o, .schedule _ => .active o        -- a second schedule under a live reference is refused
  | .paused o, .schedule _ => .paused o
  | _, .schedule o => .active o
  | _, .cancel => .cancelled
  | .active o, .pause => .paused o
  | .paused o, .resume => .active o
  | .active true, .delivered => .done
  | s, _ => s

def status (h : List Act) : Status := h.foldl next .unknown

/-- "a cancelled or unknown reference reports an error" -/
def mustFail (s : Status) : Bool := s == .unknown || s == .cancelled

/-- resuming a paused, live reference must put it back on its way to delivery -/
def resumeMustSucceed (s : Status) : Bool :=
  match s with
  | .paused _ => true
  | _ => false

/-- at most one node delivers a tick -/
def atMostOne (wins : Nat) : Bool := wins ≤ 1

/-- the claim TTL stays within its documented bounds and equals the cron period inside them -/
def ttlOK (lo hi : Int) (period : Option Int) (out : Int) : Bool :=
  decide (lo ≤ out) && decide (out ≤ hi) &&
  (match period with
   | some p => if lo ≤ p ∧ p ≤ hi then out == p else true
   | none => true)

end GoaktVerif.Spec.C19

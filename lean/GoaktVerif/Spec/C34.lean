/-
C34 spec side: what the English property demands of an OBSERVED run — a notification history
`h` together with the events that were emitted at each step.  Nothing here looks at the
bookkeeping state.  Used by the theorems (Props/C34) and by the driver's judge mode.

Ground truth.  "the rebalance epoch covering it" is not a function of the notification history
(a departure may be covered by an epoch whose start was announced earlier or later), so each
`left n cov` notification carries the annotation `cov` = the first epoch that started after the
departure really happened; every epoch ≥ cov covers it (epochs are numbered in start order).
Emitted events carry the timestamp of the notification that was tracked, and the notification at
position k has timestamp k+1, which identifies the departure an emitted NodeLeft belongs to.
-/
import GoaktVerif.Model.C34

namespace GoaktVerif.Spec.C34
open GoaktVerif.Model.C34

/-- an observed event: NodeLeft (`isLeft`) or NodeJoined of `node`, with its timestamp -/
structure Obs where
  isLeft : Bool
  node : Node
  ts : Nat
  deriving Repr, DecidableEq

/-- the annotation of the departure that the event NodeLeft(n)@ts belongs to -/
def covAt (h : List Op) (n : Node) (ts : Nat) : Option Epoch :=
  match ts with
  | 0 => none
  | t + 1 =>
    match h[t]? with
    | some (.left m c) => if m = n then some c else none
    | _ => none

/-- `complete e` has been delivered at a position ≤ i with e ≥ c -/
def coveredBy (h : List Op) (i : Nat) (c : Epoch) : Bool :=
  (h.take (i + 1)).any fun op => match op with
    | .complete e => decide (c ≤ e)
    | _ => false

/-- the gate for one NodeLeft(n)@ts emitted at step i: the step is n's timeout, or an epoch
    covering that departure has completed -/
def gateOK (h : List Op) (i : Nat) (n : Node) (ts : Nat) : Bool :=
  h[i]? == some (.overdue n) ||
  match covAt h n ts with
  | some c => coveredBy h i c
  | none => false

structure Blocked where
  l : List Node   -- NodeLeft(n) already emitted and no opposite event since
  j : List Node   -- NodeJoined(n) already emitted and no opposite event since
  deriving Repr

/-- the notification itself is an opposite event: a left notification for `n` unblocks
    NodeJoined(n), a join notification unblocks NodeLeft(n) -/
def unblock (b : Blocked) : Op → Blocked
  | .left n _ => { b with j := b.j.filter (· != n) }
  | .join n => { b with l := b.l.filter (· != n) }
  | _ => b

def leftsOf (evs : List Obs) : List Node := (evs.filter (·.isLeft)).map (·.node)
def joinsOf (evs : List Obs) : List Node := (evs.filter (! ·.isLeft)).map (·.node)

/-- what is wrong with one step, if anything.  `b` = blocked sets before the step. -/
def stepVerdict (h : List Op) (i : Nat) (b : Blocked) (op : Op) (evs : List Obs) : Option String :=
  if evs.any (·.node == self) then
    some (if (evs.filter (·.isLeft)).any (·.node == self) then "self-reported-left" else "self-reported-joined")
  else if !(leftsOf evs).Nodup then some "two-NodeLeft-in-one-step"
  else if !(joinsOf evs).Nodup then some "two-NodeJoined-in-one-step"
  -- (when both kinds are emitted for one node in one step, each is the other's opposite event:
  --  their order inside the step is not observed, so this is read permissively)
  else if (leftsOf evs).any (fun n => (unblock b op).l.contains n && !(joinsOf evs).contains n) then
    some "second-NodeLeft-without-opposite-event"
  else if (joinsOf evs).any (fun n => (unblock b op).j.contains n && !(leftsOf evs).contains n) then
    some "second-NodeJoined-without-opposite-event"
  else
    match (evs.filter (·.isLeft)).find? (fun e => !gateOK h i e.node e.ts) with
    | some e => some s!"gate node={e.node} step={i} ts={e.ts}"
    | none => none

def stepBlocked (b : Blocked) (op : Op) (evs : List Obs) : Blocked :=
  -- both kinds for one node in one step: their order inside the step is not observed, so
  -- neither blocks afterwards (the permissive reading)
  { l := ((unblock b op).l ++ leftsOf evs).filter (!(joinsOf evs).contains ·),
    j := ((unblock b op).j ++ joinsOf evs).filter (!(leftsOf evs).contains ·) }

/-- first violation in an observed run, `none` = the property holds on it -/
def verdictFrom (h : List Op) : Nat → Blocked → List Op → List (List Obs) → Option String
  | i, b, op :: ops, evs :: rest =>
    match stepVerdict h i b op evs with
    | some w => some w
    | none => verdictFrom h (i + 1) (stepBlocked b op evs) ops rest
  | _, _, _, _ => none

def verdict (h : List Op) (obs : List (List Obs)) : Option String :=
  if obs.length ≠ h.length then some "wrong-number-of-steps" else verdictFrom h 0 ⟨[], []⟩ h obs

/-! ### the model's output as an observed run (what the driver prints, as data) -/

def renderNode (n : Node) (e : Ev) : List Obs :=
  (match e.left with | some t => [⟨true, n, t⟩] | none => []) ++
  (match e.join with | some t => [⟨false, n, t⟩] | none => [])

/-- the events of one step, for the nodes in `U` -/
def renderStep (U : List Node) (o : Node → Ev) : List Obs := U.flatMap fun n => renderNode n (o n)

/-- the model's run on `h`, observed on the nodes in `U` -/
def renderRun (U : List Node) (h : List Op) : List (List Obs) := (run h).1.map (renderStep U)

end GoaktVerif.Spec.C34

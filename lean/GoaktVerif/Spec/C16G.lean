/-
C16, grain requester — the property as a decidable oracle over what the harness observes (core Lean only).
Written from the text; it never consults the model's transitions.
-/
import GoaktVerif.Model.C16G

namespace GoaktVerif.Spec.C16G
open GoaktVerif.Model.C16G

structure StepObs where
  res : Res
  counters : Option (Int × Int × Int × Int × Int)   -- inFlight, blocking, states, queued, responses; none = deactivated
  delta : List Entry
  deriving Repr

def isOrdinary : Entry → Bool
  | .cb _ _ _ => false
  | _ => true

def cbLabels (d : List Entry) : List Nat := d.filterMap fun | .cb k _ _ => some k | _ => none

def nodup : List Nat → Bool
  | [] => true
  | x :: xs => !xs.contains x && nodup xs

def isDelivery : Op → Bool
  | .q _ _ _ | .m _ | .H | .S => true
  | _ => false

def matchesOp : Entry → Op → Bool
  | .handled k, .m k' => k == k'
  | .req k, .q k' _ _ => k == k'
  | .held, .H => true
  | .deactivated, .S => true
  | _, _ => false

def consume : List Entry → List Op → Option (List Op)
  | [], w => some w
  | _ :: _, [] => none
  | e :: es, o :: w => if matchesOp e o then consume es w else none

structure Track where
  seenCb : List Nat := []
  issued : List Nat := []
  prevBlocking : Int := 0
  waiting : List Op := []     -- delivered to the user mailbox, not handled yet, in arrival order
  registered : List Nat := [] -- requests whose continuation has been registered (Then at issue time, or a later T)

def thenFlagOf (ops : List Op) (k : Nat) : Bool :=
  ops.any fun | .q k' _ t => k' == k && t | _ => false

def judgeStep (installed : Bool) (max : Nat) (hasHold : Bool) (allOps : List Op) (t : Track) (op : Op) (o : StepObs) : Option String × Track :=
  let cbs := cbLabels o.delta
  let ord := o.delta.filter isOrdinary
  if !(nodup cbs) || cbs.any (fun k => t.seenCb.contains k) then (some "a continuation ran twice", t) else
  if (match op with
      | .T k => o.delta.any (fun | .cb k' _ _ => k' != k | _ => false)
      | _ => o.delta.any (fun | .cb _ _ turn => !turn | _ => false)) then
    (some "a continuation ran off the grain's turn", t) else
  let issued := t.issued ++ (o.delta.filterMap fun | .req k => some k | _ => none)
  if cbs.any (fun k => !issued.contains k) then (some "a continuation ran for a request that was never issued", t) else
  let okCounters := match o.counters with
    | none => true
    | some (i, b, st, _, _) =>
      if !installed then i == -1 && b == -1 && st == -1
      else decide (0 ≤ b) && decide (b ≤ i) && i == st && (max == 0 || decide (i ≤ max)) && (st != 0 || (i == 0 && b == 0))
  if !okCounters then (some "in-flight counters inconsistent or over the limit", t) else
  -- the pause: with a blocking request outstanding a newly delivered ordinary message is not handled
  if decide (t.prevBlocking > 0) && (match op with | .q _ _ _ | .m _ | .H => true | _ => false) && !ord.isEmpty then
    (some "an ordinary message was handled while a blocking request was outstanding", t) else
  -- global arrival order of the user mailbox
  let waiting := if isDelivery op && o.res == .ok then t.waiting ++ [op] else t.waiting
  match consume ord waiting with
  | none => (some "ordinary messages were not handled in arrival order", t)
  | some left =>
    let blockingNow : Int := match o.counters with | some (_, b, _, _, _) => b | none => 0
    if !hasHold && decide (blockingNow ≤ 0) && !left.isEmpty then
      (some "a buffered message was not handled after the blocking request completed", t)
    else
    -- exactly once: whatever completes a request runs its registered continuation
    let seen := t.seenCb ++ cbs
    let registered := t.registered ++ (o.delta.filterMap fun | .req k => if thenFlagOf allOps k then some k else none | _ => none)
      ++ (match op with | .T k => if o.res == .ok then [k] else [] | _ => [])
    let deactivated := o.delta.any fun | .deactivated => true | _ => false
    if deactivated && registered.any (fun k => issued.contains k && !seen.contains k) then
      (some "the grain deactivated with a registered continuation that never ran", t) else
    let completing : Option Nat := match op with | .r k | .x k | .c k => if o.res == .ok then some k else none | _ => none
    if !hasHold && o.counters.isSome && (match completing with
        | some k => issued.contains k && registered.contains k && !seen.contains k
        | none => false) then
      (some "a completed request did not run its continuation", t)
    else (none, { seenCb := seen, issued := issued, prevBlocking := blockingNow, waiting := left, registered := registered })

def judgeLoop (installed : Bool) (max : Nat) (hasHold : Bool) (allOps : List Op) : Track → List Op → List StepObs → Nat → Option String
  | _, [], _, _ => none
  | _, _ :: _, [], _ => some "missing step"
  | t, op :: ops, o :: os, i =>
    match judgeStep installed max hasHold allOps t op o with
    | (some why, _) => some s!"step {i}: {why}"
    | (none, t') => judgeLoop installed max hasHold allOps t' ops os (i + 1)

def judgeAll (installed : Bool) (max : Nat) (ops : List Op) (obs : List StepObs) : Option String :=
  judgeLoop installed max (ops.any fun | .H | .L => true | _ => false) ops {} ops obs 0

end GoaktVerif.Spec.C16G

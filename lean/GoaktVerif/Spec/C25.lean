/-
C25 spec side: decidable oracle predicates evaluated on the implementation's outputs.
-/
import GoaktVerif.Model.C25

namespace GoaktVerif.Spec.C25
open GoaktVerif.Model.C25

variable {M : Type}

/-- some interface entry accepting `m` comes before an exact-type entry accepting `m`
    (then the documented rule "exact concrete type first" and a single pass in registration order differ) -/
def shadowedFrom : List (Entry M) → M → Bool → Bool
  | [], _, _ => false
  | e :: es, m, seenIface =>
    if e.accepts m then
      if e.exact then seenIface else shadowedFrom es m true
    else shadowedFrom es m seenIface

def shadowed (es : List (Entry M)) (m : M) : Bool := shadowedFrom es m false

/-- round-trip oracle: the decoded value is the value sent -/
def rtOK [DecidableEq M] (sent : M) : Except Err M → Bool
  | .ok m => m == sent
  | .error _ => false

/-- the hypothesis of the dispatch theorem, evaluated on one concrete frame:
    every registered entry rejects the frame or decodes it to `m`, and some entry decodes it to `m` -/
def agreeB [DecidableEq M] (es : List (Entry M)) (d : Bytes) (m : M) : Bool :=
  es.all (fun e => match e.deser d with | .ok m' => m' == m | .error _ => true)

def someDecodesB [DecidableEq M] (es : List (Entry M)) (d : Bytes) (m : M) : Bool :=
  es.any (fun e => match e.deser d with | .ok m' => m' == m | .error _ => false)

end GoaktVerif.Spec.C25

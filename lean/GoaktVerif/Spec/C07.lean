/-
C07 — the property text transcribed as a decidable oracle over OBSERVATIONS (core Lean only).

"When a handler panics or reports an error, the parent applies the directive configured for that
 error type (or the any-error directive, or suspension if none): Stop stops the child (and its
 siblings under one-for-all), Restart re-runs PreStart with fresh state and bumps the restart count,
 Resume keeps the child's state and it processes later messages, and Escalate hands the failure to
 the grandparent. Once the restart budget of a positive window is exhausted the group is suspended
 instead of restarted."

The oracle never looks at the model's control flow: it reads the configuration (the option list),
keeps its own per-child history of fault times, decides what the text says must happen
(`expect`), and checks the observation before/after the op (`check`).  `Variant.text` is the
property as written; `Variant.code` differs in exactly the place where the current code does
something else (see Props/C07.lean): who receives the escalated failure.  (A second deviation, the
restart count of a sibling restarted while running, was repaired by fix 6e40710.)
-/
import GoaktVerif.Model.C07

namespace GoaktVerif.Spec.C07
open GoaktVerif.Model.C07

/-! ### which directive is configured -/

/-- the last `WithDirective` for `ty` in the option list -/
def lastTyped (opts : List Opt) (ty : ErrType) : Option Directive :=
  opts.foldl (fun acc o => match o with
    | .directive ty' d => if ty' = ty then some d else acc
    | _ => acc) none

/-- constructor defaults: PanicError -> Stop, runtime.PanicNilError -> Restart -/
def defaultDirective (ty : ErrType) : Option Directive :=
  if ty = tyPanic then some dStop else if ty = tyPanicNil then some dRestart else none

/-- "the directive configured for that error type (or the any-error directive, or suspension if none)";
    an any-error directive is the sole rule (doc of `Supervisor`) -/
def specDirective (opts : List Opt) (ty : ErrType) : Option Directive :=
  match lastTyped opts tyAny with
  | some d => some d
  | none =>
    match lastTyped opts ty with
    | some d => some d
    | none => defaultDirective ty

/-! ### the restart budget -/

/-- consecutive faults ending at the newest one (`hist` newest first): a fault-free gap longer than
    a positive window starts a new run -/
def specCount (w : Int) : List Int → Nat
  | [] => 0
  | [_] => 1
  | t :: t' :: rest => if w > 0 ∧ t' > 0 ∧ t - t' > w then 1 else specCount w (t' :: rest) + 1

def exhausted (s : Supervisor) (hist : List Int) : Bool :=
  decide (s.maxRetries > 0 ∧ window s > 0 ∧ specCount (window s) hist > s.maxRetries)

/-! ### expectations -/

inductive Expect
  | dead            -- target not running: the send is refused, nothing happens
  | ignored         -- ErrDead: not a failure
  | suspendOnly     -- no directive: the child is suspended
  | stop            -- group ends not running and deregistered
  | restart         -- group re-runs PreStart, fresh state, restart count + 1
  | exhausted       -- group suspended, not restarted
  | resume          -- state kept, keeps running
  | escalate        -- failure handed upwards
  | invalid         -- a directive value outside the enum: the child stays suspended
  deriving DecidableEq, Repr

inductive Variant | text | code
  deriving DecidableEq, Repr

/-- spec-side state: per child, the times of the faults answered with the Restart directive -/
abbrev Hists := List (List Int)

def group (strategy : Strategy) (b : Obs) (i j : Nat) : Bool :=
  j == i || (strategy == .oneForAll && ((b.cs[i]?).map (·.reg)).getD false && ((b.cs[j]?).map (·.reg)).getD false)

def recordHists (strategy : Strategy) (b : Obs) (i : Nat) (now : Int) (h : Hists) : Hists :=
  h.mapIdx (fun j l => if group strategy b i j then now :: l else l)

/-- what the text says must happen when child `i` fails with an error of kind `k` -/
def expect (opts : List Opt) (h : Hists) (now : Int) (b : Obs) (i : Nat) (k : Kind) : Expect × Hists :=
  let s := newSupervisor opts
  if !(((b.cs[i]?).map (·.alive)).getD false) then (.dead, h) else
  match k.ty with
  | none => (.ignored, h)
  | some ty =>
    match specDirective opts ty with
    | none => (.suspendOnly, h)
    | some d =>
      if d = dStop then (.stop, h)
      else if d = dResume then (.resume, h)
      else if d = dEscalate then (.escalate, h)
      else if d = dRestart then
        let h' := recordHists s.strategy b i now h
        if exhausted s (h'.getD i []) then (.exhausted, h') else (.restart, h')
      else (.invalid, h)

/-! ### checks on observations -/

/-- everything a user can see of a child, i.e. all but the two internal fault counters -/
def visible (c : CObs) : CObs := { c with cf := 0, lk := 0 }

def checkChild (v : Variant) (e : Expect) (isFaulty inGrp : Bool) (b a : CObs) : Bool :=
  if !inGrp then visible a == visible b else
  match e with
  | .dead | .ignored | .resume => visible a == visible b
  | .suspendOnly | .escalate | .invalid =>
      visible a == { visible b with alive := false, susp := true }
  | .stop =>
      !a.alive && !a.reg && !a.susp && a.pre == b.pre && a.handled == b.handled
      && a.post == b.post + (if b.alive || b.susp then 1 else 0)
  | .restart =>
      a.alive && a.reg && !a.susp && a.pre == b.pre + 1 && a.handled == 0
      && a.post == b.post + (if !isFaulty && b.alive then 1 else 0)
      && a.rc == b.rc + 1
  | .exhausted =>
      !a.alive && a.reg == b.reg && a.pre == b.pre && a.post == b.post && a.handled == b.handled && a.rc == b.rc
      && (if isFaulty || b.alive then a.susp else a.susp == b.susp)

/-- `P j b[j] a[j]` for every index, and equal lengths -/
def allIdx (b a : List CObs) (P : Nat → CObs → CObs → Bool) : Bool :=
  a.length == b.length &&
  (List.range b.length).all (fun j =>
    match b[j]?, a[j]? with
    | some bj, some aj => P j bj aj
    | _, _ => false)

/-- whom an expectation concerns: the whole group for Stop / Restart / exhausted budget, else the child alone -/
def groupFor (e : Expect) (strategy : Strategy) (b : Obs) (i j : Nat) : Bool :=
  match e with
  | .stop | .restart | .exhausted => group strategy b i j
  | _ => j == i

def checkChildren (v : Variant) (strategy : Strategy) (e : Expect) (i : Nat) (b a : Obs) : Bool :=
  allIdx b.cs a.cs (fun j bj aj => checkChild v e (j == i) (groupFor e strategy b i j) bj aj)

def checkSignals (v : Variant) (e : Expect) (i : Nat) (b a : Obs) : Bool :=
  match e, v with
  | .escalate, .text => a.gSig == b.gSig ++ [i] && a.pSig == b.pSig
  | .escalate, .code => a.pSig == b.pSig ++ [i] && a.gSig == b.gSig
  | _, _ => a.pSig == b.pSig && a.gSig == b.gSig

def check (v : Variant) (strategy : Strategy) (e : Expect) (i : Nat) (b a : Obs) : Bool :=
  checkChildren v strategy e i b a && checkSignals v e i b a

/-- ops other than `fail`: ping on a running child is handled ("it processes later messages"),
    refused otherwise; reinstate / age do not touch anything visible except the suspension flag -/
def checkPing (i : Nat) (b a : Obs) (res : Res) : Bool :=
  a.pSig == b.pSig && a.gSig == b.gSig &&
  allIdx b.cs a.cs (fun j bj aj =>
    if j == i && bj.alive then res == .ok && visible aj == { visible bj with handled := bj.handled + 1 }
    else (j != i || res == .dead) && visible aj == visible bj)

def checkReinstate (i : Nat) (b a : Obs) (res : Res) : Bool :=
  a.pSig == b.pSig && a.gSig == b.gSig &&
  allIdx b.cs a.cs (fun j bj aj =>
    if j == i && bj.reg && bj.susp then res == .ok && visible aj == { visible bj with susp := false, alive := true }
    else (j != i || res == (if bj.reg then .ok else .err)) && visible aj == visible bj)

def checkAge (b a : Obs) : Bool :=
  a.pSig == b.pSig && a.gSig == b.gSig && allIdx b.cs a.cs (fun _ bj aj => visible aj == visible bj)

/-- the public `PID.Restart` on child `i`: the restart clause of the text for that child alone ("re-runs PreStart
    with fresh state and bumps the restart count"; PostStop ran when it was running), nobody else is touched -/
def checkRestartPub (v : Variant) (i : Nat) (b a : Obs) (res : Res) : Bool :=
  a.pSig == b.pSig && a.gSig == b.gSig &&
  allIdx b.cs a.cs (fun j bj aj =>
    if j == i && bj.reg then res == .ok && checkChild v .restart false true bj aj
    else (j != i || res == .err) && visible aj == visible bj)

/-- the harness' `age` op moves the current run of consecutive faults of child `i` into the distant past -/
def ageHists (w : Int) (i : Nat) (h : Hists) : Hists :=
  h.mapIdx (fun j l => if j == i then List.replicate (specCount w l) 1 else l)

/-- one step of the oracle: returns the verdict for this op and the next history state -/
def judgeStep (v : Variant) (opts : List Opt) (h : Hists) (now : Int) (op : Op) (b a : Obs) (res : Res) : Bool × Hists :=
  match op with
  | .fail i k =>
    let (e, h') := expect opts h now b i k
    (check v (newSupervisor opts).strategy e i b a && (res == (if e == .dead then .dead else .ok)), h')
  | .ping i => (checkPing i b a res, h)
  | .reinstate i => (checkReinstate i b a res, h)
  | .age i => (checkAge b a && res == .ok, ageHists (window (newSupervisor opts)) i h)
  -- a harness intervention on the test actor (its next PreStart calls fail); nothing observable changes
  | .failPre _ _ => (checkAge b a && res == .ok, h)
  | .restartPub i => (checkRestartPub v i b a res, h)

/-- the oracle over a whole script, for any per-step verdict `js`: `b` is the observation before the
    first op, the list holds the observation and the op's result after each op -/
def judgeRunWith (js : Hists → Int → Op → Obs → Obs → Res → Bool × Hists) :
    Hists → Int → List Op → Obs → List (Obs × Res) → Bool
  | _, _, [], _, _ => true
  | _, _, _ :: _, _, [] => false
  | h, now, op :: ops, b, (a, res) :: rest =>
    (js h (now + tick) op b a res).1 && judgeRunWith js (js h (now + tick) op b a res).2 (now + tick) ops a rest

def judgeRun (v : Variant) (opts : List Opt) : Hists → Int → List Op → Obs → List (Obs × Res) → Bool :=
  judgeRunWith (judgeStep v opts)

/-- the decidable guard of the partial theorem, per step: the configured directive is not Escalate -/
def stepGuard (opts : List Opt) (h : Hists) (now : Int) (op : Op) (b : Obs) : Bool :=
  match op with
  | .fail i k =>
    match (expect opts h now b i k).1 with
    | .escalate => false
    | _ => true
  | _ => true

/-- the property text, checked on the steps the guard admits -/
def judgeStepGuarded (opts : List Opt) (h : Hists) (now : Int) (op : Op) (b a : Obs) (res : Res) : Bool × Hists :=
  (!stepGuard opts h now op b || (judgeStep .text opts h now op b a res).1, (judgeStep .text opts h now op b a res).2)

/-- index of the first failing step (for the report), `none` when all pass -/
def firstBad (v : Variant) (opts : List Opt) : Hists → Int → List Op → Obs → List (Obs × Res) → Nat → Option Nat
  | _, _, [], _, _, _ => none
  | _, _, _ :: _, _, [], k => some k
  | h, now, op :: ops, b, (a, res) :: rest, k =>
    let now := now + tick
    let (ok, h') := judgeStep v opts h now op b a res
    if ok then firstBad v opts h' now ops a rest (k + 1) else some k

end GoaktVerif.Spec.C07

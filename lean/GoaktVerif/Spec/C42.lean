/-
C42 / C43 spec side: a monitor (observer automaton) over what can be SEEN of a run — the messages the two
controllers send and the confirmations the consumer endpoint hands back.  It knows nothing about the
controllers' fields.  The theorems (Props/C42, Props/C43) say the model never drives the monitor into a
bad state; the driver's judge mode runs the same monitor over the trace printed by the real code.
-/
namespace GoaktVerif.Spec.C42

/-- observable events, in the order they happen -/
inductive Obs
  /-- the producer controller told its endpoint `Stored(id, seq)`: message `id` got sequence `seq` -/
  | stored (id seq : Nat)
  /-- the producer controller sent `SequencedMessage(seq)` to the consumer controller -/
  | sent (seq : Nat)
  /-- the consumer controller sent `Request(.., requestUpToSeq = upTo)` -/
  | requested (upTo : Nat)
  /-- the consumer controller handed `Delivery(id, seq, payload)` to the consumer endpoint -/
  | present (id seq payload : Nat)
  /-- the consumer endpoint answered `Confirmed(seq)` -/
  | confirm (seq : Nat)
  /-- after a consumer-controller handler: window, confirmedSeq, requestUpToSeq, len(buffer) -/
  | cstate (window confirmed upTo bufLen : Nat)
  deriving DecidableEq, Repr, Inhabited

structure Mon where
  /-- production order as announced by the producer controller: `ids[k]` is the MessageID of sequence `k+1` -/
  ids : List Nat := []
  /-- highest sequence presented to the consumer endpoint so far (0 = none) -/
  last : Nat := 0
  /-- has `last` been confirmed by the consumer endpoint (vacuously true at the start) -/
  lastConfirmed : Bool := true
  /-- highest `requestUpToSeq` the consumer controller has sent -/
  maxReq : Nat := 0
  /-- C42: presentations are 1,2,3,… in production order with the produced payloads; a sequence is
      presented again only while it is the unconfirmed one -/
  okOrder : Bool := true
  /-- C43: no SequencedMessage beyond the highest sequence requested so far -/
  okDemand : Bool := true
  /-- C43: receive buffer within the window, granted demand within one window of the confirmed watermark -/
  okWindow : Bool := true
  deriving DecidableEq, Repr, Inhabited

/-- the payload the producer endpoint attaches to message `id` (shared with the model's endpoint) -/
def payloadOf (k : Nat) : Nat := 1000 + 7 * k

def Mon.step (m : Mon) : Obs → Mon
  | .stored id seq =>
    -- the first announcement of the next sequence extends production order; repeats (tick resends) do not
    if seq == m.ids.length + 1 then { m with ids := m.ids ++ [id] } else m
  | .sent seq => { m with okDemand := m.okDemand && decide (seq ≤ m.maxReq) }
  | .requested u => { m with maxReq := max m.maxReq u }
  | .present id seq pl =>
    let content := decide (seq ≥ 1) && (m.ids[seq - 1]? == some id) && (pl == payloadOf id)
    if seq == m.last + 1 then
      { m with last := seq, lastConfirmed := false, okOrder := m.okOrder && m.lastConfirmed && content }
    else
      { m with okOrder := m.okOrder && (seq == m.last) && !m.lastConfirmed && content }
  | .confirm seq => if seq == m.last then { m with lastConfirmed := true } else m
  | .cstate w conf upTo bufLen =>
    { m with okWindow := m.okWindow && decide (bufLen ≤ w) && decide (upTo ≤ conf + w) }

def Mon.run (m : Mon) : List Obs → Mon
  | [] => m
  | o :: os => (m.step o).run os

def Mon.ok (m : Mon) : Bool := m.okOrder && m.okDemand && m.okWindow

end GoaktVerif.Spec.C42

/-
C27 spec side.  What "remote tells keep order, each at most once, and none is dropped silently"
demands of an observed history, as decidable predicates over plain lists.  Messages are
(sender thread, sequence number) pairs.  Used by the theorems (Props/C27) on the model's ghost
history and by the driver's judge mode on the implementation's recorded history.
-/
namespace GoaktVerif.Spec.C27

abbrev M := Nat × Nat   -- (thread, per-thread sequence number)

def ofThread (t : Nat) (l : List M) : List M := l.filter (fun m => m.1 == t)

/-- ORDER / AT MOST ONCE: for every thread, what reached the transport (all flushed batches
    concatenated, in flush order) restricted to that thread is a subsequence of what the thread
    sent, in send order (`isSublist`: order kept, every sent occurrence used at most once). -/
def orderOK (sent flushed : List M) : Bool :=
  (flushed.map (·.1)).all (fun t => (ofThread t flushed).isSublist (ofThread t sent))

/-- ACCOUNTED: every accepted message was delivered or handed to the dead letters -/
def accounted (accepted delivered dead : List M) : Bool :=
  accepted.all (fun m => delivered.contains m || dead.contains m)

/-- the accepted messages that were neither delivered nor dead-lettered -/
def unaccounted (accepted delivered dead : List M) : List M :=
  accepted.filter (fun m => !(delivered.contains m || dead.contains m))

end GoaktVerif.Spec.C27

/-
C40 spec side: what "CRDT values survive encoding" demands of the implementation's observations.
The harness prints, for a state x (and a second state y of the same type), x' = Decode(Encode(x)):
  0 dump(x) | 1 ok/err | 2 dump(x') | 3 core(x) | 4 core(x') | 5 core(x⊔y) | 6 core(x'⊔y) | 7 core(y⊔x) | 8 core(y⊔x') | …
where `core` is the canonical print of value + causal metadata (no delta/dirty bookkeeping).
-/
namespace GoaktVerif.Spec.C40

/-- the decoded value has the same core, and merges identically on either side -/
def roundTripOK (fields : List String) : Bool :=
  match fields with
  | _ :: "ok" :: _ :: cx :: cx' :: mxy :: mx'y :: myx :: myx' :: _ =>
    cx == cx' && mxy == mx'y && myx == myx'
  | _ => false

/-- Encode may fail only for a value outside the serializer's domain: the only such state the
    scripts can build is an LWW register that was never set (its value is nil; dump starts `_/`) -/
def encodeErrOK (ty : String) (fields : List String) : Bool :=
  match fields with
  | [dx, "err"] => ty == "lw" && dx.startsWith "_/"
  | _ => false

def stateOK (ty : String) (fields : List String) : Bool :=
  roundTripOK fields || encodeErrOK ty fields

/-- keys: a valid data type (0..6) round-trips with its id; anything else may only be rejected -/
def keyOK (id : String) (dt : Int) (out : String) : Bool :=
  if 0 ≤ dt ∧ dt ≤ 6 then out == s!"enc={id}/{dt + 1} dec={id}/{dt}"
  else out == s!"enc={id}/{dt + 1} dec=err"

/-- raw wire keys: enum values 1..7 decode to type (w-1); 0 (UNSPECIFIED) and everything else are errors -/
def rawKeyOK (id : String) (w : Int) (out : String) : Bool :=
  if 1 ≤ w ∧ w ≤ 7 then out == s!"dec={id}/{w - 1}" else out == "dec=err"

end GoaktVerif.Spec.C40

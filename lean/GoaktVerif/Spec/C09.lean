/-
C09 spec side: the consistency predicate of the actor tree, stated on a pointer-free DUMP of the
tree (what the harness can print of the real `tree` and what `Model.C09.toDump` produces of the model),
and the children-first predicate on an observed PostStop order.
Decidable (`Bool`) so the driver's judge mode can run it on the implementation's output.
-/
namespace GoaktVerif.Spec.C09

structure DNode where
  id : Nat
  tag : Nat
  name : Nat
  /-- `none`: parentNode is nil; `some (id, live)`: the id field of the parent node object and whether
      that object is still live (its pid not cleared) -/
  parent : Option (Nat × Bool)
  watchers : List (Nat × Nat)      -- key (watcher id), tag of the stored *PID
  watchees : List (Nat × Nat)
  desc : List (Nat × Bool)         -- key (child id), pointed node object still live
  deriving Repr

structure Dump where
  counter : Int
  names : List (Nat × Nat × Bool)  -- name, id of the pointed node object, object live
  /-- name ↦ the nodes whose names entry was taken over (oldest first): id, object live -/
  shadowed : List (Nat × List (Nat × Bool)) := []
  nodes : List DNode
  deriving Repr

def Dump.find (d : Dump) (id : Nat) : Option DNode := d.nodes.find? (fun n => n.id == id)

def nodupB : List Nat → Bool
  | [] => true
  | x :: xs => !xs.contains x && nodupB xs

/-- `counter` equals the number of registered nodes and ids are distinct -/
def counterOK (d : Dump) : Bool := d.counter == (d.nodes.length : Int) && nodupB (d.nodes.map (·.id))

/-- every `names` entry points to a live registered node that carries this name -/
def namesOK (d : Dump) : Bool :=
  d.names.all fun e => e.2.2 && (match d.find e.2.1 with | some n => n.name == e.1 | none => false)

/-- watcher and watchee maps are mutually inverse and mention registered nodes only -/
def watchOK (d : Dump) : Bool :=
  d.nodes.all fun a =>
    a.watchers.all (fun w => match d.find w.1 with
      | some nw => nw.watchees.any (fun e => e.1 == a.id)
      | none => false)
    && a.watchees.all (fun e => match d.find e.1 with
      | some ne => ne.watchers.any (fun w => w.1 == a.id)
      | none => false)

/-- every shadowed node is live, registered, carries that name and is not the current entry; and every
    registered node is reachable through its name: it is the `names` entry or waits in `shadowed` -/
def shadowOK (d : Dump) : Bool :=
  d.shadowed.all (fun e => e.2.all fun q =>
    q.2 && (match d.find q.1 with | some n => n.name == e.1 | none => false)
      && !(d.names.any fun m => m.1 == e.1 && m.2.1 == q.1))
  && d.nodes.all (fun n =>
    (d.names.any fun m => m.1 == n.name && m.2.1 == n.id)
      || (d.shadowed.any fun e => e.1 == n.name && e.2.any fun q => q.1 == n.id))

def wfDump (d : Dump) : Bool := counterOK d && namesOK d && watchOK d && shadowOK d

/-! ### stop order -/

/-- position of `x` in the observed PostStop order -/
def pos (x : Nat) : List Nat → Option Nat
  | [] => none
  | y :: ys => if y = x then some 0 else (pos x ys).map (· + 1)

/-- `edges` = (parent, child) pairs of the tree that was stopped; `order` = actors in the order
    their PostStop ran.  Children first: every child that stopped did so before its parent. -/
def childrenFirst (edges : List (Nat × Nat)) (order : List Nat) : Bool :=
  edges.all fun e => match pos e.1 order, pos e.2 order with
    | some ip, some ic => ic < ip
    | some _, none => false          -- parent stopped but child did not
    | none, _ => true

/-- every member of `expected` occurs exactly once in `order` and nothing else does -/
def exactlyOnce (expected order : List Nat) : Bool :=
  nodupB order && expected.all (order.contains ·) && order.all (expected.contains ·)

end GoaktVerif.Spec.C09

/-
C26 — specification side (independent of the model of the code): what the English property
demands of the OBSERVED outputs for one address.

"For every valid actor address …, parsing its string form yields an address equal to it with the
 same parent name, and the host:port extracted from the string equals the address's host and
 port.  Parsing any string never panics."
-/
namespace GoaktVerif.Spec.C26

/-- what was observed of a parse: `none` = error or panic -/
structure Parsed where
  name : List Char
  system : List Char
  host : List Char
  port : Int
  parentName : List Char
  deriving DecidableEq, Repr

/-- hosts that cannot be confused with the delimiters of the text form.  Every host name,
    IPv4 literal and IPv6 literal (with or without zone) satisfies it. -/
def hostClean (h : List Char) : Bool := !h.contains '/' && !h.contains '@'

/-- alphabet of host names, IPv4 and IPv6 literals incl. zone identifiers -/
def isHostChar (c : Char) : Bool :=
  let n := c.toNat
  (48 ≤ n && n ≤ 57) || (65 ≤ n && n ≤ 90) || (97 ≤ n && n ≤ 122) || c == '.' || c == '-' || c == ':' || c == '%' || c == '_'

def hostLike (h : List Char) : Bool := !h.isEmpty && h.all isHostChar

/-- the round-trip demand: the parsed address equals the original on name, system, host, port
    (this is `Address.Equals`) and carries the same parent name; the extracted endpoint is
    `host:port` and is reported as found -/
def roundtripOK (name system host : List Char) (port : Int) (parentName : List Char)
    (parsed : Option Parsed) (hpof : List Char × Bool) : Bool :=
  (match parsed with
   | some p => p.name == name && p.system == system && p.host == host && p.port == port && p.parentName == parentName
   | none => false) &&
  hpof.2 && hpof.1 == host ++ [':'] ++ (toString port).toList

end GoaktVerif.Spec.C26

/-
C16 — the property as a decidable oracle over what the harness observes (core Lean only).

"Each Request/RequestName/RequestGrain completes exactly once with a reply, an error, a timeout or a
 cancellation, and its continuation runs on the requesting actor's turn. In StashNonReentrant mode no
 ordinary message is handled while a blocking request is outstanding and the held messages are handled
 afterwards in arrival order; the in-flight limit is never exceeded and the in-flight counters return
 to zero."

The oracle reads the script and, per op, the counters and the requester's log delta.  It keeps its own
bookkeeping (which requests are pending, which continuation is registered, which ordinary messages are
waiting) and never consults the model.
-/
import GoaktVerif.Model.C16

namespace GoaktVerif.Spec.C16
open GoaktVerif.Model.C16

structure StepObs where
  res : Res
  inFlight : Int
  blocking : Int
  states : Int
  stashed : Int
  delta : List Entry
  deriving Repr

def isOrdinary : Entry → Bool
  | .cb _ _ _ => false
  | _ => true

def cbLabels (d : List Entry) : List Nat := d.filterMap fun | .cb k _ _ => some k | _ => none

def nodup : List Nat → Bool
  | [] => true
  | x :: xs => !xs.contains x && nodup xs

/-- counters clause: in-flight = tracked states, blocking ≤ in-flight, the limit holds, all zero with an
    empty table -/
def countersOK (installed : Bool) (max : Nat) (o : StepObs) : Bool :=
  if !installed then o.inFlight == -1 && o.blocking == -1 && o.states == -1
  else
    decide (0 ≤ o.blocking) && decide (o.blocking ≤ o.inFlight) && o.inFlight == o.states
    && (max == 0 || decide (o.inFlight ≤ max))
    && (o.states != 0 || (o.inFlight == 0 && o.blocking == 0))

def isDelivery : Op → Bool
  | .q _ _ _ | .m _ | .a _ | .H => true
  | _ => false

def isSimple : Op → Bool
  | .H | .L | .S => false
  | _ => true

/-- oracle bookkeeping for the "exactly once" and "arrival order" clauses (scripts without H/L/S) -/
structure Track where
  seenCb : List Nat := []               -- continuations that ran so far
  prevBlocking : Int := 0
  waiting : List Op := []               -- ordinary messages delivered and not yet handled, in arrival order
  pending : List (Nat × Bool) := []     -- issued, not completed: label, continuation registered
  done : List (Nat × Outcome × Bool) := []  -- completed: label, outcome, continuation registered
  deriving Repr

def matchesOp : Entry → Op → Bool
  | .handled k, .m k' => k == k'
  | .handled k, .a k' => k == 100 + k'
  | .req k _, .q k' _ _ => k == k'
  | _, _ => false

/-- the ordinary entries of a delta must be the first waiting messages, in order; returns what is left waiting -/
def consume : List Entry → List Op → Option (List Op)
  | [], w => some w
  | _ :: _, [] => none
  | e :: es, o :: w => if matchesOp e o then consume es w else none

def lookupPending (l : List (Nat × Bool)) (k : Nat) : Option Bool :=
  match l with
  | [] => none
  | (k', b) :: rest => if k' == k then some b else lookupPending rest k

def lookupDone (l : List (Nat × Outcome × Bool)) (k : Nat) : Option (Outcome × Bool) :=
  match l with
  | [] => none
  | (k', v) :: rest => if k' == k then some v else lookupDone rest k

def thenFlagOf (ops : List Op) (k : Nat) : Bool :=
  ops.any fun | .q k' _ t => k' == k && t | _ => false

/-- one step of the oracle; `none` = fine, `some why` = the clause that failed -/
def judgeStep (installed : Bool) (max : Nat) (allOps : List Op) (simple : Bool) (t : Track) (op : Op) (o : StepObs) :
    Option String × Track :=
  let cbs := cbLabels o.delta
  let ord := o.delta.filter isOrdinary
  -- at most once
  if !(nodup cbs) || cbs.any (fun k => t.seenCb.contains k) then (some "a continuation ran twice", t) else
  -- on the requester's turn (a late Then registered from outside runs in the caller, by contract)
  if (match op with
      | .T k => o.delta.any (fun | .cb k' _ _ => k' != k | _ => false)
      | _ => o.delta.any (fun | .cb _ _ turn => !turn | _ => false)) then
    (some "a continuation ran off the requester's turn", t) else
  if !countersOK installed max o then (some "in-flight counters inconsistent or over the limit", t) else
  -- the stash gate: with a blocking request outstanding, a newly delivered ordinary message is not handled
  if decide (t.prevBlocking > 0) && isDelivery op && !ord.isEmpty then
    (some "an ordinary message was handled while a blocking request was outstanding", t) else
  let t1 := { t with seenCb := t.seenCb ++ cbs, prevBlocking := o.blocking }
  if !simple then (none, t1) else
  -- arrival order of held messages
  let waiting := if isDelivery op && o.res == .ok then t1.waiting ++ [op] else t1.waiting
  match consume ord waiting with
  | none => (some "held messages were not handled in arrival order", t1)
  | some left =>
    if decide (o.blocking ≤ 0) && !left.isEmpty then (some "a held message was not handled after the blocking request completed", t1) else
    let t2 := { t1 with waiting := left }
    -- new requests
    let issued := o.delta.filterMap fun | .req k .ok => some (k, thenFlagOf allOps k) | _ => none
    let t3 := { t2 with pending := t2.pending ++ issued }
    -- exactly once
    let complete (k : Nat) (out : Outcome) : Option String × Track :=
      if !(cbs.all (· == k)) then (some "a continuation of another request ran", t3) else
      match lookupPending t3.pending k with
      | none =>
        -- not pending: nothing may fire
        if cbs.contains k then (some "a continuation ran for a request that was not pending", t3) else (none, t3)
      | some reg =>
        let want : List Entry := if reg then [.cb k out true] else []
        if (o.delta.filter fun | .cb k' _ _ => k' == k | _ => false) != want then
          (some "a completed request did not run its continuation exactly once with the completing outcome", t3)
        else (none, { t3 with pending := t3.pending.filter (fun p => p.1 != k), done := t3.done ++ [(k, out, reg)] })
    match op with
    | .r k => complete k .ok
    | .x k => complete k .timeout
    | .c k => complete k .canceled
    | .T k =>
      match lookupDone t3.done k with
      | some (out, false) =>
        if o.delta != [.cb k out false] then (some "a late Then on a completed request did not run at once", t3)
        else (none, { t3 with done := t3.done.map fun d => if d.1 == k then (k, out, true) else d })
      | some (_, true) => if cbs.isEmpty then (none, t3) else (some "a second Then ran", t3)
      | none =>
        if !cbs.isEmpty then (some "Then ran before completion", t3)
        else (none, { t3 with pending := t3.pending.map fun p => if p.1 == k then (k, true) else p })
    | _ => if cbs.isEmpty then (none, t3) else (some "a continuation ran without a completing event", t3)

def judgeLoop (installed : Bool) (max : Nat) (allOps : List Op) (simple : Bool) :
    Track → List Op → List StepObs → Nat → Option String
  | _, [], _, _ => none
  | _, _ :: _, [], _ => some "missing step"
  | t, op :: ops, o :: os, i =>
    match judgeStep installed max allOps simple t op o with
    | (some why, _) => some s!"step {i}: {why}"
    | (none, t') => judgeLoop installed max allOps simple t' ops os (i + 1)

def judgeAll (installed : Bool) (max : Nat) (ops : List Op) (obs : List StepObs) : Option String :=
  judgeLoop installed max ops (ops.all isSimple) {} ops obs 0

end GoaktVerif.Spec.C16

import GoaktVerif.Spec.C42

/-
Chunk-aware variant of the C42/C43 monitor, used by the judge on traces of flows with WithReliableChunking:
a business message occupies several sequences, its Stored / Delivery carry the LAST chunk's sequence, so
presentations follow production order (the order of the Stored announcements) instead of 1,2,3,….
-/
namespace GoaktVerif.Spec.C42c
open GoaktVerif.Spec.C42 (Obs payloadOf)

structure Mon where
  /-- production order: (MessageID, sequence announced by Stored) -/
  prods : List (Nat × Nat) := []
  lastStored : Nat := 0
  /-- number of distinct messages presented so far -/
  presented : Nat := 0
  lastConfirmed : Bool := true
  maxReq : Nat := 0
  okOrder : Bool := true
  okDemand : Bool := true
  okWindow : Bool := true
  deriving Repr, Inhabited

def Mon.step (m : Mon) : Obs → Mon
  | .stored id seq => if seq > m.lastStored then { m with prods := m.prods ++ [(id, seq)], lastStored := seq } else m
  | .sent seq => { m with okDemand := m.okDemand && decide (seq ≤ m.maxReq) }
  | .requested u => { m with maxReq := max m.maxReq u }
  | .present id seq pl =>
    let content := pl == payloadOf id
    if m.lastConfirmed && m.prods[m.presented]? == some (id, seq) then
      { m with presented := m.presented + 1, lastConfirmed := false, okOrder := m.okOrder && content }
    else
      { m with okOrder := m.okOrder && !m.lastConfirmed && decide (m.presented ≥ 1) &&
                 (m.prods[m.presented - 1]? == some (id, seq)) && content }
  | .confirm seq =>
    if m.presented ≥ 1 && (m.prods[m.presented - 1]?.map (·.2)) == some seq then { m with lastConfirmed := true } else m
  | .cstate w conf upTo bufLen =>
    { m with okWindow := m.okWindow && decide (bufLen ≤ w) && decide (upTo ≤ conf + w) }

def Mon.run (m : Mon) : List Obs → Mon
  | [] => m
  | o :: os => (m.step o).run os

def Mon.ok (m : Mon) : Bool := m.okOrder && m.okDemand && m.okWindow

end GoaktVerif.Spec.C42c

/-
C37 — specification side: "the configuration an actor gets when it is spawned remotely or relocated
is the same as the one it was spawned with locally".  On the implementation's outputs the
configuration is the canonical dump of every observable accessor (rules and dependencies sorted);
the demand is equality of the dump before and after the wire.
-/
namespace GoaktVerif.Spec.C37

/-- `B{before} W{wire} A{after}` → (before, after) -/
def beforeAfter (out : String) : Option (String × String) :=
  match out.splitOn "} W{" with
  | [b, rest] =>
    match rest.splitOn "} A{" with
    | [_, a] =>
      if b.startsWith "B{" && a.endsWith "}" then some ((b.drop 2).toString, (a.dropEnd 1).toString) else none
    | _ => none
  | _ => none

def sameConfig (out : String) : Bool :=
  match beforeAfter out with
  | some (b, a) => b == a
  | none => false

end GoaktVerif.Spec.C37

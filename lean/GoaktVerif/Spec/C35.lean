/-
C35 spec side.
(1) predicates on a model `Run` used by the theorems: every wait ends by a deadline, the total
    waiting is bounded, the return time is bounded;
(2) what the property demands of an OBSERVED send (the judge): only quantities that do not depend
    on timer jitter are checked — which error comes back, that no resolution is attempted after one
    that already returned past the caller's deadline, that the final delivery is bounded by the
    caller's deadline, that the asynchronous path resolves exactly once.
-/
import GoaktVerif.Model.C35

namespace GoaktVerif.Spec.C35
open GoaktVerif.Model.C35

/-- every wait ends by `dl` -/
def sleepsEndBy (dl : Nat) (l : List Sleep) : Bool := l.all fun s => decide (s.start + s.dur ≤ dl)

/-- time at which the call returns (for `delivered`: the time `deliver` is invoked) -/
def returnTime : Outcome → Option Nat
  | .delivered t _ => some t
  | .gaveUpRelocating t => some t
  | .gaveUpErr t => some t
  | .failed t => some t
  | .outOfFuel => none

/-- the error surfaced when masking gives up is one of the two retryable ones -/
def retryableOrFinal : Outcome → Bool
  | .outOfFuel => false
  | _ => true

/-! ### observed sends -/

structure Obs where
  lookups : Nat
  out : String
  recd : Nat
  tin : Nat
  thi : Nat
  lk : List Nat
  dl : Option Nat
  ret : Nat
  deriving Repr

/-- the outcome a send must have when its last resolution was `c` (a script letter) and masking
    was (`clustered`) or was not available -/
def expectedOut (clustered : Bool) (c : Char) : String :=
  if c = 'P' then (if clustered then "relocating" else "delivered")
  else if c = 'L' ∨ c = 'l' then "delivered"
  else if c = 'N' ∨ c = 'n' then "err:addrnotfound"
  else if c = 'A' then "err:actornotfound"
  else "failed:terminal"

def letterAt (script : List Char) (i : Nat) : Char :=
  match script[i]? with
  | some c => c
  | none => script.getLast?.getD 'T'

/-- no resolution is attempted after a resolution that returned at or after `limit` -/
def noLookupAfter (limit : Nat) : List Nat → Bool
  | a :: b :: rest => (decide (a < limit)) && noLookupAfter limit (b :: rest)
  | _ => true

/-- synchronous, clustered send with caller timeout `maxWait` ns (0 = none) -/
def syncVerdict (maxWait : Nat) (script : List Char) (o : Obs) : Option String :=
  if o.lookups = 0 ∨ o.lk.length ≠ o.lookups then some "no-resolution-observed"
  else if o.out ≠ expectedOut true (letterAt script (o.lookups - 1)) then
    some s!"wrong-result {o.out}"
  else if decide (maxWait > 0) && !noLookupAfter (o.thi + maxWait) o.lk then
    some "resolution-attempted-after-the-caller-deadline"
  else if decide (maxWait > 0) && o.out == "delivered" && (match o.dl with | some x => decide (o.thi + maxWait < x) | none => true) then
    some "delivery-not-bounded-by-the-caller-deadline"
  else none

/-- one resolution, the result decided by it alone (async path, and the non-clustered sync path) -/
def singleVerdict (clustered : Bool) (script : List Char) (o : Obs) : Option String :=
  if o.lookups ≠ 1 then some s!"resolved-{o.lookups}-times"
  else if o.out ≠ expectedOut clustered (letterAt script 0) then some s!"wrong-result {o.out}"
  else none

end GoaktVerif.Spec.C35

/-
C06 spec side: the lifecycle-hook events of ONE actor (all incarnations, in logical-clock order)
and the monitor that decides the four clauses of the property on such a history.

The same monitor is (a) what the theorems in Props/C06 are stated with (the model appends its
events to a ghost log and `monOf log` must stay `ok`), and (b) what the driver's judge mode runs on
the event log recorded from the REAL actor system by harness/verifdrv/c06.
-/
namespace GoaktVerif.Spec.C06

/-- how a stop (PostStop) or a start (PreStart) was entered -/
inductive Via where
  | spawn | pill | self | kill | stop | parent | sup | ctx | pass | restart | direct | ppill | other
  deriving DecidableEq, Repr, Inhabited

def Via.toString : Via → String
  | .spawn => "spawn" | .pill => "pill" | .self => "self" | .kill => "kill" | .stop => "stop"
  | .parent => "parent" | .sup => "sup" | .ctx => "ctx" | .pass => "pass" | .restart => "restart"
  | .direct => "direct" | .ppill => "ppill" | .other => "other"

def Via.ofString (s : String) : Via :=
  if s = "spawn" then .spawn else if s = "pill" then .pill else if s = "self" then .self
  else if s = "kill" then .kill else if s = "stop" then .stop else if s = "parent" then .parent
  else if s = "sup" then .sup else if s = "ctx" then .ctx else if s = "pass" then .pass
  else if s = "restart" then .restart else if s = "direct" then .direct
  else if s = "ppill" then .ppill else .other

/-- stop paths that run inside the actor's own dispatch turn -/
def Via.inTurn : Via → Bool
  | .pill | .self | .ppill => true
  | _ => false

/-- hook events; the `Nat` is the goroutine (model: thread) the hook runs on -/
inductive Ev where
  | preB (g : Nat) (v : Via)
  | preE (g : Nat)
  | recvB (g : Nat)
  | recvE (g : Nat)
  | postB (g : Nat) (v : Via)
  | postE (g : Nat)
  deriving DecidableEq, Repr, Inhabited

/-- monitor state.  An incarnation starts at `preB`. -/
structure Mon where
  /-- PreStart of the current incarnation has completed -/
  preDone : Bool
  /-- PostStop starts seen in the current incarnation -/
  posts : Nat
  /-- goroutine currently inside Receive -/
  recvBy : Option Nat
  /-- goroutines currently inside PostStop -/
  postBy : List Nat
  /-- clause 1: PreStart completes before the first Receive -/
  c1 : Bool
  /-- clause 2: PostStop runs at most once -/
  c2 : Bool
  /-- clause 3: no Receive starts after PostStop has started -/
  c3 : Bool
  /-- clause 4: PostStop never runs on one goroutine while Receive runs on another -/
  c4 : Bool
  deriving DecidableEq, Repr

def Mon.init : Mon :=
  { preDone := false, posts := 0, recvBy := none, postBy := [], c1 := true, c2 := true, c3 := true, c4 := true }

def Mon.ok (m : Mon) : Bool := m.c1 && m.c2 && m.c3 && m.c4

def sameOrNone (r : Option Nat) (g : Nat) : Bool :=
  match r with
  | none => true
  | some h => h == g

def monStep (m : Mon) : Ev → Mon
  | .preB _ _ => { m with preDone := false, posts := 0 }
  | .preE _ => { m with preDone := true }
  | .recvB g =>
    { m with c1 := m.c1 && m.preDone, c3 := m.c3 && (m.posts == 0),
             c4 := m.c4 && m.postBy.all (· == g), recvBy := some g }
  | .recvE _ => { m with recvBy := none }
  | .postB g _ =>
    { m with c2 := m.c2 && (m.posts == 0), posts := m.posts + 1,
             c4 := m.c4 && sameOrNone m.recvBy g, postBy := g :: m.postBy }
  | .postE g => { m with postBy := m.postBy.filter (· != g) }

/-- monitor state after a history given NEWEST FIRST (the order the model's ghost log is kept in) -/
def monOf : List Ev → Mon
  | [] => Mon.init
  | e :: es => monStep (monOf es) e

/-- the property on a history given oldest first (the order the harness prints) -/
def holdsOn (h : List Ev) : Bool := (monOf h.reverse).ok

/-- first violated clause and the event at which it is violated (history oldest first) -/
def firstBad (h : List Ev) : Option (Nat × Ev) :=
  let rec go (m : Mon) : List Ev → Option (Nat × Ev)
    | [] => none
    | e :: es =>
      let m' := monStep m e
      if m.c1 && !m'.c1 then some (1, e)
      else if m.c2 && !m'.c2 then some (2, e)
      else if m.c3 && !m'.c3 then some (3, e)
      else if m.c4 && !m'.c4 then some (4, e)
      else go m' es
  go Mon.init h

/-- every clause violation of a history (oldest first) as `c<k>:<stop paths involved>`:
    c1: how the incarnation was started; c2: the PostStops of the incarnation so far; c3: the same;
    c4: the PostStops that are in progress on another goroutine (recvB) or the one starting (postB) -/
def violations (h : List Ev) : List String :=
  let rec go (m : Mon) (posts : List Via) (active : List (Nat × Via)) (start : Via) :
      List Ev → List String → List String
    | [], acc => acc.reverse
    | e :: es, acc =>
      let m' := monStep m e
      let posts' := match e with
        | .preB _ _ => []
        | .postB _ v => posts ++ [v]
        | _ => posts
      let active' := match e with
        | .postB g v => active ++ [(g, v)]
        | .postE g => active.filter (fun (p : Nat × Via) => p.1 != g)
        | _ => active
      let start' := match e with
        | .preB _ v => v
        | _ => start
      let join := fun (l : List Via) => "+".intercalate (l.map Via.toString)
      let c4v := match e with
        | .postB _ v => v.toString
        | .recvB g => join ((active.filter (fun (p : Nat × Via) => p.1 != g)).map (fun (p : Nat × Via) => p.2))
        | _ => ""
      let acc := if m.c1 && !m'.c1 then s!"c1:{start'.toString}" :: acc else acc
      let acc := if m.c2 && !m'.c2 then s!"c2:{join posts'}" :: acc else acc
      let acc := if m.c3 && !m'.c3 then s!"c3:{join posts'}" :: acc else acc
      let acc := if m.c4 && !m'.c4 then s!"c4:{c4v}" :: acc else acc
      -- keep looking for further violations (other clauses, later incarnations)
      let m'' := { m' with c1 := true, c2 := true, c3 := true, c4 := true }
      go m'' posts' active' start' es acc
  go Mon.init [] [] .spawn h []

end GoaktVerif.Spec.C06

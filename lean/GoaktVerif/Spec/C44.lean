/-
C44 spec side: a monitor over what can be SEEN of a run of the work-pulling controller — after every handled
input, the MessageIDs it holds (pending pool + every worker's unconfirmed list) and the DeliveryConfirmed
notices it sent.  The judge runs it over the real trace.
-/
namespace GoaktVerif.Spec.C44

/-- kind of input: 1 = producer endpoint reaction, 2 = worker Request / Ack, 0 = anything else -/
structure Snap where
  kind : Nat
  held : List Nat
  notices : List Nat
  /-- jobs in the pending pool, and the largest free demand among ALL registered bindings -/
  pending : Nat := 0
  maxFree : Nat := 0
  deriving Repr, Inhabited

structure Mon where
  prev : List Nat := []
  confirmed : List Nat := []
  maxSeen : Nat := 0
  ok : Bool := true
  why : String := ""
  deriving Repr, Inhabited

def sameMembers (a b : List Nat) : Bool := a.length == b.length && a.all b.contains && b.all a.contains

def Mon.step (dc : Bool) (m : Mon) (s : Snap) : Mon :=
  let entered := s.held.filter (fun j => !m.prev.contains j)
  let left := m.prev.filter (fun j => !s.held.contains j)
  let bad : Option String :=
    if s.held.eraseDups.length != s.held.length then some "a job is held twice"
    else if entered.any m.confirmed.contains then some "a confirmed job is held again"
    else if !entered.isEmpty && (s.kind != 1 || entered.length > 1 || entered.any (· ≤ m.maxSeen)) then some "jobs appeared out of nowhere"
    else if !left.isEmpty && s.kind != 2 then some "jobs vanished without a worker confirmation"
    else if dc && !sameMembers s.notices left then some "DeliveryConfirmed notices do not match the confirmed jobs"
    else if !dc && !s.notices.isEmpty then some "unexpected DeliveryConfirmed"
    else if s.pending > 0 && s.maxFree > 0 then some "a job waits in the pending pool although a registered worker has free demand"
    else none
  { prev := s.held, confirmed := m.confirmed ++ left, maxSeen := entered.foldl max m.maxSeen,
    ok := m.ok && bad.isNone, why := if m.ok then bad.getD "" else m.why }

def Mon.run (dc : Bool) (m : Mon) : List Snap → Mon
  | [] => m
  | s :: ss => (m.step dc s).run dc ss

end GoaktVerif.Spec.C44

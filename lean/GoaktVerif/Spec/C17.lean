/-
C17 spec side: what the property demands of the hook history recorded around one ActorSystem.Stop.
Events are `(who, kind, goroutine)`; `STOP b` / `STOP e` mark the call and the return of Stop.
Used by the driver's judge mode on the REAL system's history; the model-level theorems
(Props/C17) state the same facts about `Model.C17.Stops`.
-/
namespace GoaktVerif.Spec.C17

structure E where
  who : String
  kind : String
  g : Nat
  via : String := ""
  inst : Nat := 0
  deriving Repr, DecidableEq, Inhabited

def isStopB (e : E) : Bool := e.who == "STOP" && e.kind == "b"
def isStopE (e : E) : Bool := e.who == "STOP" && e.kind == "e"

/-- split the history at the STOP markers: (before Stop was called, during, after it returned) -/
def split3 (h : List E) : List E × List E × List E :=
  let pre := h.takeWhile (fun e => !isStopB e)
  let rest := (h.dropWhile (fun e => !isStopB e)).drop 1
  let mid := rest.takeWhile (fun e => !isStopE e)
  let post := (rest.dropWhile (fun e => !isStopE e)).drop 1
  (pre, mid, post)

def countK (h : List E) (who kind : String) : Nat := (h.filter fun e => e.who == who && e.kind == kind).length

def indexOf? (h : List E) (p : E → Bool) : Option Nat :=
  let rec go : List E → Nat → Option Nat
    | [], _ => none
    | e :: es, i => if p e then some i else go es (i + 1)
  go h 0

/-- actors: exactly one PostStop (from Stop's call on) for an actor that was running when Stop was called,
    none for one that had already stopped -/
def postOnce (h : List E) (actors : List String) : List String :=
  let (pre, mid, post) := split3 h
  actors.filterMap fun a =>
    -- not running when Stop was called: its last incarnation before the marker was stopped (or it never started)
    let stoppedBefore := countK pre a "postB" ≥ countK pre a "preE"
    let n := countK mid a "postB" + countK post a "postB"
    if stoppedBefore then (if n == 0 then none else some s!"post:{a}={n}(stopped-before)")
    else if n == 1 then none else some s!"post:{a}={n}"

/-- children before parents: the child's PostStop has ended before the parent's begins -/
def childrenFirst (h : List E) (edges : List (String × String)) : List String :=
  let (pre, _, _) := split3 h
  edges.filterMap fun (c, p) =>
    if countK pre c "postB" ≥ countK pre c "preE" || countK pre p "postB" ≥ countK pre p "preE" then none else
    let off := pre.length
    let tl := h.drop off
    match indexOf? tl (fun e => e.who == c && e.kind == "postE"), indexOf? tl (fun e => e.who == p && e.kind == "postB") with
    | some i, some j => if i < j then none else some s!"order:{c}>{p}"
    | none, some _ => some s!"order:{c}-never-stopped-before-{p}"
    | _, none => none

/-- grains, per INSTANCE: never more than one OnDeactivate; an instance that was active when Stop was
    called (activated before, not yet deactivated) gets exactly one once Stop has returned successfully.
    Instances whose activation only began after Stop was called (a send racing the shutdown) are not
    judged for "exactly". -/
def deaOnce (h : List E) (grains : List String) (stopOk : Bool) : List String :=
  let (pre, _, _) := split3 h
  grains.flatMap fun gname =>
    let evs := h.filter fun e => e.who == gname
    let insts := (evs.map (·.inst)).eraseDups
    insts.filterMap fun i =>
      let n := (evs.filter fun e => e.inst == i && e.kind == "deaB").length
      let activeAtStop :=
        (pre.any fun e => e.who == gname && e.inst == i && e.kind == "actE") &&
        !(pre.any fun e => e.who == gname && e.inst == i && e.kind == "deaB")
      if n > 1 then some s!"dea:{gname}#{i}={n}"
      else if activeAtStop && stopOk && n == 0 then some s!"dea:{gname}#{i}=0"
      else none

/-- a grain instance whose OnActivate only began after Stop was called (a send racing the shutdown) -/
def lateInstance (h : List E) (e : E) : Bool :=
  let (pre, _, _) := split3 h
  e.inst != 0 && !(pre.any fun x => x.who == e.who && x.inst == e.inst && x.kind == "actB")

/-- after Stop returned no user handler runs: none is still inside (`in:`), none starts (`new:`), no
    hook runs late (`late:`).  Handlers of a grain instance that was activated after Stop had been
    called are reported as `leak:` (the instance escaped poisonAllGrains). -/
def quietAfter (h : List E) : List String :=
  let (pre, mid, post) := split3 h
  let before := pre ++ mid
  let keys := (before.map fun e => (e.who, e.inst)).eraseDups
  let inside := keys.filterMap fun (w, i) =>
    let evs := before.filter fun e => e.who == w && e.inst == i
    let b := countK evs w "recvB" + countK evs w "rcvB"
    let e := countK evs w "recvE" + countK evs w "rcvE"
    if b > e then
      some (if lateInstance h { who := w, kind := "", g := 0, inst := i } then s!"leak:{w}" else s!"in:{w}")
    else none
  -- handlers that START after Stop returned, with their number per actor / grain: one per actor can
  -- come from a worker that had picked the behaviour before reset() cleared it; more cannot
  let startedEv := post.filter fun e => e.kind == "recvB" || e.kind == "rcvB"
  let started := (startedEv.map fun e =>
    if lateInstance h e then s!"leak:{e.who}"
    else s!"new:{e.who}x{(startedEv.filter fun x => x.who == e.who && !lateInstance h x).length}")
  let hooks := (post.filter fun e => e.kind == "postB" || e.kind == "deaB").map fun e =>
    if lateInstance h e then s!"leak:{e.who}" else s!"late:{e.who}"
  if h.any isStopE then (inside ++ started ++ hooks).eraseDups else []

/-- a grain instance never starts an OnReceive after its OnDeactivate began (inherits C31 clause 3) -/
def noReceiveAfterDeactivate (h : List E) (grains : List String) : List String :=
  grains.filterMap fun gname =>
    let evs := h.filter fun e => e.who == gname
    let insts := (evs.map (·.inst)).eraseDups
    if insts.any fun i =>
        let hi := evs.filter (·.inst == i)
        match indexOf? hi (fun e => e.kind == "deaB") with
        | some d => (hi.drop d).any (fun e => e.kind == "rcvB")
        | none => false
    then some s!"recv-after-dea:{gname}" else none

end GoaktVerif.Spec.C17

/-
C04 — sequential specifications of the mailboxes and the history oracle.

* `RQ`: the RESERVATION QUEUE, the honest sequential specification of every Vyukov-style queue in
  goakt (intrusive MPSC list, bounded ring, segmented list): `reserve` appends a pending cell (this
  fixes the order), `publish` makes it ready, `deq` pops the head iff it is ready and otherwise
  answers "nothing" — also while ready cells wait behind a pending one.
* `PQ`: priority queue (a bag; `deq` removes a minimum; the stable variant breaks ties by arrival).
* `History` oracle: Bool-valued checks of one finished run (operations with the logical time stamps
  of their invocation and return, then the sequential drain) against the English property:
  exactly-once, real-time FIFO / priority order, empty-soundness, capacity.  The same functions
  judge the implementation's output (Driver `judge`) and state `C04_full` over the models (Props).
-/
import GoaktVerif.Model.C04.Core

namespace GoaktVerif.Spec.C04
open GoaktVerif.Model.C04

/-! ### reservation queue -/

inductive Cell where
  | pending (v : Nat)
  | ready (v : Nat)
  deriving Repr, DecidableEq

def Cell.val : Cell → Nat
  | .pending v => v
  | .ready v => v

abbrev RQ := List Cell

/-- the events of a reservation queue -/
inductive Ev where
  | reserve (v : Nat)
  | publish (v : Nat)
  | deq (r : Option Nat)      -- a dequeue attempt and its answer
  deriving Repr, DecidableEq

def publish (q : RQ) (v : Nat) : RQ :=
  q.map fun c => if c = .pending v then .ready v else c

/-- one event; `none` when the event is not enabled (publish of something not pending, a dequeue
answer that is not the one the queue gives) -/
def RQ.step (q : RQ) : Ev → Option RQ
  | .reserve v => some (q ++ [.pending v])
  | .publish v => if Cell.pending v ∈ q then some (publish q v) else none
  | .deq r =>
    match q with
    | .ready v :: rest => if r = some v then some rest else none
    | _ => if r = none then some q else none

def RQ.run (q : RQ) : List Ev → Option RQ
  | [] => some q
  | e :: es => (q.step e).bind fun q' => RQ.run q' es

def reservedOf : List Ev → List Nat
  | [] => []
  | .reserve v :: es => v :: reservedOf es
  | _ :: es => reservedOf es

def dequeuedOf : List Ev → List Nat
  | [] => []
  | .deq (some v) :: es => v :: dequeuedOf es
  | _ :: es => dequeuedOf es

/-! ### priority queue -/

/-- `x` may be removed from bag `q` under the strict weak order `lt` ("higher priority first"):
nothing in the bag outranks it -/
def isMin (lt : Nat → Nat → Bool) (x : Nat) (q : List Nat) : Bool := q.all fun y => !lt y x

/-- entries carry an arrival number; the stable order is priority, then arrival -/
def stableLt (lt : Nat → Nat → Bool) (a b : Nat × Nat) : Bool :=
  lt a.1 b.1 || (!lt b.1 a.1 && a.2 < b.2)

/-! ### the history oracle -/

/-- what a mailbox promises -/
structure Setup where
  fifo : Bool := false                      -- FIFO (real-time order of enqueues)
  perKey : Bool := false                    -- … only among messages of one sender key (fair mailbox)
  prio : Option (Nat → Nat → Bool) := none  -- priority order
  stable : Bool := false                    -- ties by arrival
  cap : Option Nat := none                  -- effective capacity

/-- a finished run: every finished operation of every thread, the ids drained afterwards, final `Len()` -/
structure History where
  ops : List Done
  drained : List Nat
  finalLen : Int

def enqId : Done → Option Nat
  | ⟨.enq v _, _, _, _⟩ => some v
  | _ => none

def isAccepted (d : Done) : Bool :=
  match d.op, d.res with
  | .enq _ _, .ok => true
  | _, _ => false

def isRejected (d : Done) : Bool :=
  match d.op, d.res with
  | .enq _ _, .full => true
  | _, _ => false

def deqVal (d : Done) : Option Nat :=
  match d.op, d.res with
  | .deq, .val v => some v
  | _, _ => none

def keyOf (d : Done) : Nat :=
  match d.op with
  | .enq _ k => k
  | _ => 0

def insertBy (x : Done) : List Done → List Done
  | [] => [x]
  | y :: ys => if x.inv ≤ y.inv then x :: y :: ys else y :: insertBy x ys

def sortByInv (l : List Done) : List Done := l.foldr insertBy []

/-- successful removals in order: the consumer's dequeues by invocation time, then the drain.
Each entry: (id, invoked, returned); drained entries carry `none` stamps (after everything). -/
def removals (h : History) : List (Nat × Option (Nat × Nat)) :=
  ((sortByInv h.ops).filterMap fun d => (deqVal d).map fun v => (v, some (d.inv, d.ret)))
    ++ h.drained.map fun v => (v, none)

def acceptedIds (h : History) : List Nat := (h.ops.filter isAccepted).filterMap enqId

def posOf (x : Nat) : List Nat → Option Nat
  | [] => none
  | y :: ys => if x = y then some 0 else (posOf x ys).map (· + 1)

def nodupB : List Nat → Bool
  | [] => true
  | x :: xs => !xs.contains x && nodupB xs

/-- every accepted message comes out exactly once and nothing else comes out -/
def exactlyOnce (h : History) : Bool :=
  let out := (removals h).map (·.1)
  let acc := acceptedIds h
  nodupB out && out.all acc.contains && acc.all out.contains

def enqOf (h : History) (v : Nat) : Option Done := h.ops.find? fun d => enqId d == some v

/-- FIFO in real-time order: if `Enqueue a` returned before `Enqueue b` was invoked then `a` comes out first -/
def fifoOK (s : Setup) (h : History) : Bool :=
  let out := (removals h).map (·.1)
  let acc := h.ops.filter isAccepted
  acc.all fun a => acc.all fun b =>
    if a.ret < b.inv && (!s.perKey || keyOf a == keyOf b) then
      match enqId a, enqId b with
      | some x, some y =>
        match posOf x out, posOf y out with
        | some p, some q => p < q
        | _, _ => true
      | _, _ => true
    else true

/-- was the enqueue of `y` complete before time `t` (`none` = the drain, after everything)? -/
def doneBefore (d : Done) : Option (Nat × Nat) → Bool
  | none => true
  | some (inv, _) => d.ret < inv

/-- priority order at every removal: nothing that was surely inside outranks what came out -/
def prioOK (s : Setup) (h : History) : Bool :=
  match s.prio with
  | none => true
  | some lt =>
    let rem := removals h
    let out := rem.map (·.1)
    let acc := h.ops.filter isAccepted
    (rem.zipIdx).all fun ((x, t), p) =>
      acc.all fun ey =>
        match enqId ey with
        | none => true
        | some y =>
          if y = x || !doneBefore ey t then true
          else
            match posOf y out with
            | some q => if q < p then true else
                !lt y x && (if s.stable && !lt x y then
                              match enqOf h x with
                              | some ex => !(ey.ret < ex.inv)
                              | none => true
                            else true)
            | none => true   -- lost messages are reported by `exactlyOnce`

/-- never "empty" (Dequeue = nil, IsEmpty = true) while a completed enqueue has not been dequeued -/
def emptySound (h : History) : Bool :=
  let acc := h.ops.filter isAccepted
  h.ops.all fun x =>
    let reportsEmpty := match x.op, x.res with
      | .deq, .none => true
      | .emp, .bool true => true
      | _, _ => false
    if !reportsEmpty then true
    else acc.all fun e =>
      if e.ret < x.inv then
        match enqId e with
        | some v => h.ops.any fun d => deqVal d == some v && d.inv < x.ret
        | none => true
      else true

/-- bounded mailboxes: never more than `cap` held; rejected only when possibly full -/
def capOK (s : Setup) (h : History) : Bool :=
  match s.cap with
  | none => h.ops.all fun d => !isRejected d
  | some cap =>
    let acc := h.ops.filter isAccepted
    let deqs := h.ops.filter fun d => (deqVal d).isSome
    (acc.all fun a =>
      (acc.filter fun e => e.ret ≤ a.ret).length ≤ cap + (deqs.filter fun d => d.inv ≤ a.ret).length)
    && ((h.ops.filter isRejected).all fun x =>
      cap + (deqs.filter fun d => d.ret < x.inv).length ≤ (acc.filter fun e => e.inv < x.ret).length)

/-- the first clause that fails, as the oracle names it; `none` = the run satisfies the property -/
def verdict (s : Setup) (h : History) : Option String :=
  if !exactlyOnce h then some "exactly-once"
  else if h.finalLen != 0 then some "len"
  else if (s.fifo || s.perKey) && !fifoOK s h then some "order"
  else if !prioOK s h then some "prio"
  else if !emptySound h then some "empty-unsound"
  else if !capOK s h then some "cap"
  else none

def historyOK (s : Setup) (h : History) : Bool := (verdict s h).isNone

end GoaktVerif.Spec.C04

/-
C13 spec — what "stashed messages are neither lost, duplicated nor reordered" demands of an
OBSERVED run of a scripted actor.  Input: whether a stash buffer exists, the stream of first
arrivals (ids, distinct), and per delivery (in delivery order): the id handled, the stash calls the
handler made, and the outcome of each call.  The oracle replays a plain list as the stash:

  * no buffer: every call reports ErrStashBufferNotSet, nothing is ever re-delivered;
  * Stash reports no error and appends the current id;
  * Unstash on an empty stash reports the "empty" error; otherwise it reports no error and releases the OLDEST id;
  * UnstashAll reports no error and releases every id, oldest first;
  * the deliveries are: each id of the stream once, in stream order (first deliveries), interleaved with
    exactly the released ids, in release order, each AFTER the delivery during which it was released;
  * StashSize() at the end = what the list still holds.

It does not predict where a released message lands among the fresh ones (that is the model's job).
Core Lean only, executable (the driver's judge runs it).
-/
import GoaktVerif.Model.C13

namespace GoaktVerif.Spec.C13
open GoaktVerif.Model.C13 (Act Code)

structure Obs where
  id : Nat
  acts : List Act
  codes : List Code
  deriving Repr

structure Chk where
  stash : List Nat := []
  released : List (Nat × Nat) := []   -- (id, index of the delivery during which it left the stash)
  bad : Option String := none
  deriving Repr

def Chk.fail (s : Chk) (why : String) : Chk := if s.bad.isSome then s else { s with bad := some why }

def checkAct (buf : Bool) (cur idx : Nat) (s : Chk) (a : Act) (c : Code) : Chk :=
  if !buf then
    if c = .notSet then s else s.fail s!"delivery {idx}: a stash call without a stash buffer did not report ErrStashBufferNotSet"
  else match a with
    | .stash =>
      let s' := { s with stash := s.stash ++ [cur] }
      if c = .ok then s' else s'.fail s!"delivery {idx}: Stash reported an error although a buffer exists"
    | .unstash =>
      match s.stash with
      | [] => if c = .empty then s else s.fail s!"delivery {idx}: Unstash on an empty stash did not report the empty-stash error"
      | x :: xs =>
        let s' := { s with stash := xs, released := s.released ++ [(x, idx)] }
        if c = .ok then s' else s'.fail s!"delivery {idx}: Unstash reported an error although the stash holds messages"
    | .unstashAll =>
      let s' := { s with stash := [], released := s.released ++ s.stash.map (·, idx) }
      if c = .ok then s' else s'.fail s!"delivery {idx}: UnstashAll reported an error although a buffer exists"

def checkActs (buf : Bool) (cur idx : Nat) : Chk → List Act → List Code → Chk
  | s, [], [] => s
  | s, a :: as, c :: cs => checkActs buf cur idx (checkAct buf cur idx s a c) as cs
  | s, _, _ => s.fail s!"delivery {idx}: number of reported outcomes differs from the number of calls"

def checkObs (buf : Bool) : Nat → Chk → List Obs → Chk
  | _, s, [] => s
  | idx, s, o :: os => checkObs buf (idx + 1) (checkActs buf o.id idx s o.acts o.codes) os

/-- split deliveries into first occurrences and later occurrences (with their delivery index) -/
def splitFirst : Nat → List Nat → List Nat → List Nat × List (Nat × Nat)
  | _, _, [] => ([], [])
  | idx, seen, d :: ds =>
    if seen.contains d then
      let r := splitFirst (idx + 1) seen ds
      (r.1, (d, idx) :: r.2)
    else
      let r := splitFirst (idx + 1) (d :: seen) ds
      (d :: r.1, r.2)

/-- released ids are re-delivered exactly once each, in release order, after their release -/
def matchReleased : List (Nat × Nat) → List (Nat × Nat) → Bool
  | [], [] => true
  | (x, at_) :: rs, (y, idx) :: ds => x == y && decide (at_ < idx) && matchReleased rs ds
  | _, _ => false

def nodup : List Nat → Bool
  | [] => true
  | x :: xs => !xs.contains x && nodup xs

/-- the whole oracle; `none` = property holds on this observation -/
def check (buf : Bool) (stream : List Nat) (obs : List Obs) (finalStash : Nat) : Option String :=
  let s := checkObs buf 0 {} obs
  match s.bad with
  | some why => some why
  | none =>
    let ds := obs.map (·.id)
    if finalStash ≠ s.stash.length then some s!"StashSize {finalStash} but {s.stash.length} stashed messages were never released" else
    if ds.length ≠ stream.length + s.released.length then
      some s!"{ds.length} deliveries for {stream.length} sent messages and {s.released.length} released ones (lost or duplicated)" else
    if !nodup stream then none else
    let sp := splitFirst 0 [] ds
    if sp.1 ≠ stream then some "first deliveries are not the sent messages in sending order" else
    if !matchReleased s.released sp.2 then some "re-deliveries are not exactly the released messages, in release order, after their release" else
    none

end GoaktVerif.Spec.C13

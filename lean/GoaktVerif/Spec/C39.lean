/-
C39 spec side: what "replicas that have seen the same set of updates expose the same value, and no
add / remove / increment is lost or resurrected" demands, independently of any CRDT implementation.

An execution is a history of UPDATES (each performed at one replica, with the set `ctx` of updates
that replica had seen for the key at that moment) and, per replica and key, the set `seen` of
updates it has seen so far.  The value a replica must expose is a function of its `seen` set and of
the causal relation recorded in the `ctx` sets:
  counters: the sum of the seen increments (minus the seen decrements);
  flag: some seen enable;           mv register: the seen writes not overwritten by a seen write;
  or-set / or-map keys: the elements with a seen add that no seen remove had observed;
  lww register: the seen write with the greatest EFFECTIVE (timestamp, node) stamp — "last writer wins
    by effective stamp; a writer's own consecutive writes are ordered": a write whose stamp loses
    against the greatest stamp its replica has seen is refused (it never happened), and a write by
    the node that owns that greatest stamp, under the same timestamp, takes the next tick
    (`lwEffective`, the Set rule of the code since 670e96a / 17f90ec).
Two replicas with the same `seen` set must expose the same value (this is all that is demanded of
OR-map values).
-/
namespace GoaktVerif.Spec.C39

inductive Mut where
  | gcInc (n : Nat) | pnInc (n : Nat) | pnDec (n : Nat) | flEnable
  /-- an LWW write with its EFFECTIVE timestamp; a refused write is recorded as `lwRefused` -/
  | lwSet (v : Nat) (ts : Int) | lwRefused | mvSet (v : Nat)
  | osAdd (e : Nat) | osRem (e : Nat) | omSet (k n : Nat) | omRem (k : Nat)
  deriving Repr, DecidableEq

structure Upd where
  id : Nat
  rep : Nat
  key : String
  op : Mut
  /-- updates of the same key seen by `rep` just before this one -/
  ctx : List Nat
  deriving Repr

/-- a public value, canonically: numbers, or sorted duplicate-free lists -/
inductive Val where
  | nat (n : Int) | bool (b : Bool) | opt (o : Option Nat) | set (l : List Nat)
  deriving Repr, DecidableEq

def sortDedup (l : List Nat) : List Nat :=
  (l.mergeSort (· ≤ ·)).foldr (fun x acc => match acc with
    | y :: _ => if x = y then acc else x :: acc
    | [] => [x]) []

def seenUpds (hist : List Upd) (key : String) (seen : List Nat) : List Upd :=
  hist.filter fun u => u.key == key && seen.contains u.id

/-- elements / keys with a seen add that no seen remove of the same element had observed -/
def liveElems (us : List Upd) (isAdd : Mut → Option Nat) (isRem : Mut → Option Nat) : List Nat :=
  sortDedup <| us.filterMap fun a =>
    match isAdd a.op with
    | none => none
    | some e =>
      if us.any (fun r => isRem r.op == some e && r.ctx.contains a.id) then none else some e

/-- the stamp order of LWW: timestamp, then node (= replica index, same order as the node names) -/
def stampLt (a b : Int × Nat) : Bool := a.1 < b.1 || (a.1 == b.1 && a.2 < b.2)

/-- the greatest effective stamp among the seen LWW writes of a key (`none` = never written) -/
def lwStored (us : List Upd) : Option (Int × Nat) :=
  us.foldl (fun best u =>
    match u.op with
    | .lwSet _ ts =>
      match best with
      | none => some (ts, u.rep)
      | some b => if stampLt b (ts, u.rep) then some (ts, u.rep) else some b
    | _ => best) none

/-- the Set rule: what timestamp a write `(ts, replica)` takes at a replica whose seen writes are
    `us` — `none` when it is refused (its stamp loses against the stored one; a fresh register carries
    stamp (0, "") which is below every node's stamp at ts ≥ 0) -/
def lwEffective (us : List Upd) (rep : Nat) (ts : Int) : Option Int :=
  match lwStored us with
  | none => if ts < 0 then none else some ts
  | some (sts, srep) =>
    if ts < sts || (ts == sts && rep < srep) then none
    else if ts == sts && rep == srep then some (ts + 1)
    else some ts

/-- the values the spec allows (a list: more than one only for an LWW stamp tie) -/
def expected (hist : List Upd) (key : String) (seen : List Nat) : List Val :=
  let us := seenUpds hist key seen
  match key with
  | "gc" => [.nat (us.foldl (fun t u => match u.op with | .gcInc n => t + n | _ => t) 0)]
  | "pn" => [.nat (us.foldl (fun t u => match u.op with | .pnInc n => t + n | .pnDec n => t - n | _ => t) 0)]
  | "fl" => [.bool (us.any fun u => u.op == .flEnable)]
  | "mv" => [.set (sortDedup <| us.filterMap fun u =>
      match u.op with
      | .mvSet v => if us.any (fun u' => u'.ctx.contains u.id) then none else some v
      | _ => none)]
  | "os" => [.set (liveElems us (fun | .osAdd e => some e | _ => none) (fun | .osRem e => some e | _ => none))]
  | "om" => [.set (liveElems us (fun | .omSet k _ => some k | _ => none) (fun | .omRem k => some k | _ => none))]
  | "lw" =>
    let ws := us.filterMap fun u => match u.op with | .lwSet v ts => some ((ts, u.rep), v) | _ => none
    match ws with
    | [] => [.opt none]
    | _ => (ws.filter fun w => !ws.any (fun w' => stampLt w.1 w'.1)).map fun w => .opt (some w.2)
  | _ => []

def valueOK (hist : List Upd) (key : String) (seen : List Nat) (actual : Val) : Bool :=
  (expected hist key seen).contains actual

def sameSet (a b : List Nat) : Bool := a.all b.contains && b.all a.contains

end GoaktVerif.Spec.C39

/-
C36 — specification side (oracle): at most one instance of the singleton runs in the cluster at any time.
-/
namespace GoaktVerif.Spec.C36

def atMostOne (maxSimultaneous : Nat) (livePerNode : List Nat) : Bool :=
  decide (maxSimultaneous ≤ 1) && decide (livePerNode.foldl (· + ·) 0 ≤ 1)

end GoaktVerif.Spec.C36

/-
C47 spec side: the textbook circuit-breaker state machine over a rolling window, written without
the ring buffer, the semaphore channel, or the transition helper of the implementation.

* The window is a QUEUE of per-bucket counters, newest first: as time passes one bucket width the
  queue shifts (a fresh empty bucket in front, the oldest dropped); if the whole window went stale
  everything is dropped and the window is re-aligned at `now`.
* The machine: Closed admits everybody; Open rejects until `openUntil`, then the first caller
  turns it HalfOpen (fresh window); HalfOpen admits a caller iff fewer than `hmax` probes are in
  flight; an outcome is counted in the window and then: enough samples ∧ rate ≥ threshold ⇒ Open
  (from Closed or HalfOpen, `openUntil = now + openTimeout`); enough samples ∧ rate < threshold ∧
  HalfOpen ⇒ Closed (fresh window).
Used by the theorems (Props/C47) and by the driver's judge mode.
-/
namespace GoaktVerif.Spec.C47

inductive SSt where
  | closed
  | opened
  | halfOpen
  deriving Repr, DecidableEq

structure SConf where
  p : Nat
  q : Nat
  minReq : Nat
  openTimeout : Int
  bucketNanos : Int
  num : Nat
  hmax : Nat
  deriving Repr, DecidableEq

/-- rolling window as a queue of (successes, failures), newest bucket first -/
structure SWin where
  q : List (Nat × Nat)
  lastUpdate : Int            -- start of the newest bucket
  deriving Repr, DecidableEq

def SWin.fresh (num : Nat) (now : Int) : SWin := ⟨List.replicate num (0, 0), now⟩

/-- shift by one bucket: new empty bucket in front, oldest one falls out -/
def shift1 (q : List (Nat × Nat)) : List (Nat × Nat) := (0, 0) :: q.dropLast

def shiftN : Nat → List (Nat × Nat) → List (Nat × Nat)
  | 0, q => q
  | n + 1, q => shiftN n (shift1 q)

def SWin.advance (cf : SConf) (now : Int) (w : SWin) : SWin :=
  let elapsed := now - w.lastUpdate
  if elapsed < cf.bucketNanos then w
  else
    let steps := elapsed / cf.bucketNanos
    if steps ≥ (cf.num : Int) then ⟨w.q.map (fun _ => (0, 0)), now⟩
    else ⟨shiftN steps.toNat w.q, w.lastUpdate + steps * cf.bucketNanos⟩

def sumS (q : List (Nat × Nat)) : Nat := (q.map Prod.fst).sum
def sumF (q : List (Nat × Nat)) : Nat := (q.map Prod.snd).sum

def bump (success : Bool) : List (Nat × Nat) → List (Nat × Nat)
  | [] => []
  | b :: rest => (if success then (b.1 + 1, b.2) else (b.1, b.2 + 1)) :: rest

structure SBr where
  state : SSt
  openUntil : Int
  probes : Nat                -- admitted half-open probes that have not finished
  win : SWin
  deriving Repr, DecidableEq

def SBr.new (cf : SConf) (now : Int) : SBr := ⟨.closed, 0, 0, SWin.fresh cf.num now⟩

/-- admission decision: (admitted, counts as probe) -/
def SBr.acquire (cf : SConf) (now : Int) (b : SBr) : (Bool × Bool) × SBr :=
  match b.state with
  | .closed => ((true, false), b)
  | .opened =>
    if now < b.openUntil then ((false, false), b)
    else
      let b' : SBr := { b with state := .halfOpen, win := ⟨b.win.q.map (fun _ => (0, 0)), now⟩ }
      if b'.probes < cf.hmax then ((true, true), { b' with probes := b'.probes + 1 }) else ((false, false), b')
  | .halfOpen =>
    if b.probes < cf.hmax then ((true, true), { b with probes := b.probes + 1 }) else ((false, false), b)

/-- the rate test on exact integers: fail/total ≥ p/q -/
def rateReached (cf : SConf) (s f : Nat) : Bool := decide (cf.p * (s + f) ≤ f * cf.q)

/-- an outcome (success/failure) is observed at `now` -/
def SBr.observe (cf : SConf) (now : Int) (success : Bool) (b : SBr) : SBr :=
  let w1 := b.win.advance cf now
  let w2 : SWin := { w1 with q := bump success w1.q }
  let s := sumS w2.q
  let f := sumF w2.q
  let b1 := { b with win := w2 }
  if s + f < cf.minReq then b1
  else if rateReached cf s f then
    (if b1.state = .opened then b1 else { b1 with state := .opened, openUntil := now + cf.openTimeout })
  else if b1.state = .halfOpen then { b1 with state := .closed, win := ⟨w2.q.map (fun _ => (0, 0)), now⟩ }
  else b1

/-- a call finishes: `res = some success` (counted) or `none` (caller cancelled: not counted) -/
def SBr.finish (cf : SConf) (now : Int) (res : Option Bool) (probe : Bool) (b : SBr) : SBr :=
  let b1 := match res with
    | some s => b.observe cf now s
    | none => b
  if probe then { b1 with probes := b1.probes - 1 } else b1

/-! ### the spec at system level: callers overlap; each `begin` / `finish` is one indivisible event -/

inductive SOp where
  | begin (id : Nat)
  | finish (id : Nat) (res : Option Bool)   -- `some success` is counted, `none` (caller cancelled) is not
  | precancelled
  | metrics
  | tick (d : Nat)
  deriving Repr, DecidableEq

inductive SOut where
  | unit
  | admitted (probe : Bool)
  | rejected
  | totals (s f : Nat)
  | unknownCaller
  deriving Repr, DecidableEq

structure SSys where
  now : Int
  b : SBr
  inflight : List (Nat × Bool)      -- (caller, is a half-open probe)
  deriving Repr, DecidableEq

def SSys.new (cf : SConf) (t0 : Int) : SSys := ⟨t0, SBr.new cf t0, []⟩

def sstep (cf : SConf) (s : SSys) : SOp → SSys × SOut
  | .begin id =>
    if s.inflight.any (fun c => c.1 == id) then (s, .unknownCaller)
    else
      let r := s.b.acquire cf s.now
      if r.1.1 then ({ s with b := r.2, inflight := (id, r.1.2) :: s.inflight }, .admitted r.1.2)
      else ({ s with b := r.2 }, .rejected)
  | .finish id res =>
    match s.inflight.find? (fun c => c.1 == id) with
    | none => (s, .unknownCaller)
    | some c =>
      ({ s with b := s.b.finish cf s.now res c.2, inflight := s.inflight.filter (fun c => c.1 != id) }, .unit)
  | .precancelled => (s, .unit)
  | .metrics =>
    let w := s.b.win.advance cf s.now
    ({ s with b := { s.b with win := w } }, .totals (sumS w.q) (sumF w.q))
  | .tick d => ({ s with now := s.now + d }, .unit)

def srun (cf : SConf) (s : SSys) : List SOp → SSys × List SOut
  | [] => (s, [])
  | op :: ops =>
    let r := sstep cf s op
    let r' := srun cf r.1 ops
    (r'.1, r.2 :: r'.2)

end GoaktVerif.Spec.C47

/-
C10 spec side: what the property demands of a scenario script, computed from the script alone
(independent of the tree model): how many `Terminated(y)` each watcher `w` must have received at the end.

Reading of the property: a watcher is whoever called Watch (or is the parent: spawn registers the parent as
a watcher of its child) and has not called UnWatch since; it must get exactly one Terminated when the
watched actor terminates (stop of any kind, or the shutdown phase of a restart), provided it is running and
is not itself being stopped by the same call.  A RESTART of the watcher is not an UnWatch.
A SUSPENDED actor (failed, parked by supervision) is alive: it can be watched and its later termination owes
the Terminated like any other; as a watcher it cannot receive (Tell answers ErrDead), so nothing is owed to it.
-/
namespace GoaktVerif.Spec.C10

inductive SOp where
  | spawn (x : Nat)
  | child (p x : Nat)
  | watch (a b : Nat)
  | unwatch (a b : Nat)
  | fail (x : Nat)                         -- x fails and is suspended by supervision (alive, not running)
  | stop (x : Nat)
  | restart (x : Nat)
  | stopAll
  deriving Repr, DecidableEq

structure St where
  parent : List (Nat × Nat) := []        -- (child, parent)
  running : List Nat := []
  watch : List (Nat × Nat) := []         -- (watcher, watchee)
  expect : List (Nat × Nat) := []        -- one entry per Terminated(y) owed to w: (w, y)
  racy : List Nat := []                  -- actors stopped by the system-wide stop (deliveries not judged)
  suspended : List Nat := []             -- alive but suspended: cannot receive, still can be watched
  deriving Repr

def St.sub (s : St) : Nat → Nat → List Nat
  | 0, x => [x]
  | f + 1, x => x :: ((s.parent.filter (·.2 == x)).map (·.1)).flatMap (s.sub f)

def addEdge (e : Nat × Nat) (l : List (Nat × Nat)) : List (Nat × Nat) := if l.contains e then l else e :: l

def St.step (s : St) : SOp → St
  | .spawn x => { s with running := x :: s.running }
  | .child p x =>
    if s.running.contains p && !s.suspended.contains p then
      { s with parent := (x, p) :: s.parent, running := x :: s.running, watch := addEdge (p, x) s.watch }
    else s
  | .fail x => if s.running.contains x && !s.suspended.contains x then { s with suspended := x :: s.suspended } else s
  | .watch a b => if s.running.contains a && s.running.contains b then { s with watch := addEdge (a, b) s.watch } else s
  | .unwatch a b => { s with watch := s.watch.filter (· != (a, b)) }
  | .stop x =>
    let dead := (s.sub 8 x).filter (s.running.contains ·)
    let owed := s.watch.filter (fun e => dead.contains e.2 && !dead.contains e.1 && s.running.contains e.1
                                        && !s.suspended.contains e.1)
    { s with expect := owed ++ s.expect
             suspended := s.suspended.filter (!dead.contains ·)
             watch := s.watch.filter (fun e => !dead.contains e.1 && !dead.contains e.2)
             running := s.running.filter (!dead.contains ·) }
  | .restart x =>
    let dead := (s.sub 8 x).filter (s.running.contains ·)
    let owed := s.watch.filter (fun e => dead.contains e.2 && !dead.contains e.1 && s.running.contains e.1
                                        && !s.suspended.contains e.1)
    -- watchers of the restarted actors were told and released; the restarted actors keep what THEY watch;
    -- parent/child edges come back with the re-attach
    let kept := s.watch.filter (fun e => !dead.contains e.2)
    let family := (s.parent.filter (fun e => dead.contains e.1 && e.1 != x)).map (fun e => (e.2, e.1))
    let back := match s.parent.find? (·.1 == x) with
      | some e => [(e.2, e.1)]
      | none => []
    { s with expect := owed ++ s.expect, watch := (family ++ back).foldl (fun l e => addEdge e l) kept
             suspended := s.suspended.filter (!dead.contains ·) }
  | .stopAll => { s with racy := s.running ++ s.racy, running := [], watch := [] }

def run (ops : List SOp) : St := ops.foldl St.step {}

def count (l : List (Nat × Nat)) (e : Nat × Nat) : Nat := (l.filter (· == e)).length

/-- `got` = observed (w, y, n) triples.  Every judged pair must have received exactly what is owed. -/
def countsOK (s : St) (got : List (Nat × Nat × Nat)) : Bool :=
  let judged (y : Nat) := !s.racy.contains y
  got.all (fun g => !judged g.2.1 || g.2.2 == count s.expect (g.1, g.2.1))
  && s.expect.all (fun e => !judged e.2 || (got.any fun g => g.1 == e.1 && g.2.1 == e.2 && g.2.2 == count s.expect e))

/-- the first pair that is wrong, for the message -/
def firstBad (s : St) (got : List (Nat × Nat × Nat)) : Option (Nat × Nat × Nat × Nat) :=
  let judged (y : Nat) := !s.racy.contains y
  match got.find? (fun g => judged g.2.1 && g.2.2 != count s.expect (g.1, g.2.1)) with
  | some g => some (g.1, g.2.1, g.2.2, count s.expect (g.1, g.2.1))
  | none =>
    match s.expect.find? (fun e => judged e.2 && !(got.any fun g => g.1 == e.1 && g.2.1 == e.2)) with
    | some e => some (e.1, e.2, 0, count s.expect e)
    | none => none

end GoaktVerif.Spec.C10

/-
C08 spec side: the documented backoff law and the fault-window rule, in unbounded Int.
-/
namespace GoaktVerif.Spec.C08

/-- min(initial × 2^(n-1), maximum); zero when backoff is disabled or there is no fault -/
def specDelay (n i m : Int) : Int :=
  if i ≤ 0 ∨ n < 1 then 0 else min (i * 2 ^ (n - 1).toNat) m

/-- the same value computed without building 2^(n-1) for astronomically large n (the judge runs this;
    Props/C08 `specDelayExec_eq` proves it equal to `specDelay` whenever max < 2^63) -/
def specDelayExec (n i m : Int) : Int :=
  if i ≤ 0 ∨ n < 1 then 0
  else if n - 1 ≥ 63 ∧ m < 2 ^ 63 then m
  else min (i * 2 ^ (n - 1).toNat) m

def delayOK (n i m out : Int) : Bool := out == specDelayExec n i m

/-- the delay stays within [0, max] -/
def boundsOK (m out : Int) : Bool := decide (0 ≤ out) && decide (out ≤ m)

/-- consecutive-fault counter: restarts from one when the previous fault (at `last`, 0 = none)
    is older than a positive window, otherwise previous + 1 -/
def specCount (window last now prev : Int) : Int :=
  if window > 0 ∧ last > 0 ∧ now - last > window then 1 else prev + 1

/-- monotone (never decreases) -/
def nondecreasing : List Int → Bool
  | a :: b :: rest => decide (a ≤ b) && nondecreasing (b :: rest)
  | _ => true

end GoaktVerif.Spec.C08

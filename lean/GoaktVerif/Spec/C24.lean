/-
C24 spec side: what transparency means for the bytes received, as decidable checks.
-/
import GoaktVerif.Model.C24

namespace GoaktVerif.Spec.C24
open GoaktVerif.Model.C24

/-- bytes read = bytes written, in order -/
def transparent (written : List Bytes) (received : Bytes) : Bool := received == written.flatten

/-- the receiver never sees anything but a prefix of what was written -/
def prefixOK (written : List Bytes) (received : Bytes) : Bool := received == written.flatten.take received.length

/-- a cheap order-sensitive checksum (both sides of the differential print it) -/
def checksum (b : Bytes) : Nat := b.foldl (fun h x => (h * 31 + x + 1) % 4294967291) 7

end GoaktVerif.Spec.C24

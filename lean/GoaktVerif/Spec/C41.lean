/-
C41 spec side: what "a deleted key stays deleted until its tombstone expires" demands of ONE
handled message, given what an observer sees of the replica before and after it.
Used by the theorems (Props/C41: the model satisfies `stepOK` for every message) and by the
driver's judge mode on the implementation's dumps.
-/
namespace GoaktVerif.Spec.C41

/-- what the oracle looks at: the keys present in the store, and the tombstones (key, deletedAt) -/
structure View where
  stored : List Nat
  tombs : List (Nat × Int)
  deriving Repr

/-- the kind of message, as far as the property cares -/
inductive Kind where
  /-- a Get / read request for key `k`; `nil` = it answered "no data" -/
  | read (k : Nat) (nil : Bool)
  /-- a prune tick at clock value `now` -/
  | prune (now : Int)
  | other
  deriving Repr

def tombed (v : View) (k : Nat) : Bool := v.tombs.any (fun t => t.1 == k)

/-- (a) no tombstoned key is present in the store afterwards -/
def absentOK (after : View) : Bool := after.tombs.all (fun t => !after.stored.contains t.1)

/-- (b) a read of a key that is tombstoned when the message is handled returns nothing -/
def readOK (before : View) : Kind → Bool
  | .read k nil => !tombed before k || nil
  | _ => true

/-- (c) a tombstone disappears only through a prune tick after `now - deletedAt > ttl` -/
def keepOK (ttl : Int) (before after : View) (kind : Kind) : Bool :=
  before.tombs.all fun t =>
    tombed after t.1 ||
      match kind with
      | .prune now => decide (now - t.2 > ttl)
      | _ => false

/-- (d) a tombstone the message delivers (a local delete, or a peer's tombstone — alone or in a
    batch — that was not issued by this very node) is RECORDED: the key is tombstoned afterwards,
    whether or not the replica had ever seen the key -/
def recordOK (after : View) (delivered : List Nat) : Bool := delivered.all (tombed after)

def stepOK (ttl : Int) (before after : View) (kind : Kind) : Bool :=
  absentOK after && readOK before kind && keepOK ttl before after kind

end GoaktVerif.Spec.C41

/-
C05 — spec oracles evaluated on the IMPLEMENTATION's outputs.

* concurrent cases (`rq n | progs | schedule`): conservation (every pushed id is either returned by
  exactly one take or still sits in exactly one ring), ring self-consistency of the final state,
  nobody parked at the end, and termination for the case families where it is guaranteed
  (a lost wake-up shows up as an unfinished run);
* sequential cases (`seq n | ops`): the List-level queue machine below — per-ring FIFO, spill on a
  full local ring, `stealHalf` moving ⌈size/2⌉ items in order — must reproduce the implementation's
  results and final ring contents exactly.
-/
namespace GoaktVerif.Spec.C05

def words (s : String) : List String := (s.splitOn " ").filter (· ≠ "")

def insertSorted (x : Nat) : List Nat → List Nat
  | [] => [x]
  | y :: ys => if x ≤ y then x :: y :: ys else y :: insertSorted x ys
def sortNats (l : List Nat) : List Nat := l.foldr insertSorted []

/-! ### the List-level machine (sequential spec) -/

structure LState where
  cap : Nat
  locals : List (List Nat)
  global : List Nat
  closed : Bool
  deriving Repr, DecidableEq

def LState.getL (s : LState) (w : Nat) : List Nat := s.locals.getD w []
def LState.setL (s : LState) (w : Nat) (l : List Nat) : LState := { s with locals := s.locals.set w l }

def lpush (s : LState) (x : Nat) : LState := { s with global := s.global ++ [x] }

def lpushLocal (s : LState) (w x : Nat) : LState :=
  if (s.getL w).length = s.cap then lpush s x else s.setL w (s.getL w ++ [x])

def lpopFront (s : LState) (w : Nat) : LState × Option Nat :=
  match s.getL w with
  | [] => (s, none)
  | x :: r => (s.setL w r, some x)

def lpopGlobal (s : LState) : LState × Option Nat :=
  match s.global with
  | [] => (s, none)
  | x :: r => ({ s with global := r }, some x)

/-- steal from `a` into `b`: the caller gets the head; of the next ⌈size/2⌉-1 items as many as fit move, in order -/
def lstealHalf (s : LState) (a b : Nat) : LState × Option Nat :=
  if a = b then (s, none) else
  match s.getL a with
  | [] => (s, none)
  | x :: r =>
    let want := ((r.length + 1) + 1) / 2 - 1
    let k := min want (s.cap - (s.getL b).length)
    let s1 := s.setL a (r.drop k)
    (s1.setL b (s.getL b ++ r.take k), some x)

def ltrySteal (s : LState) (w : Nat) : LState × Option Nat :=
  let n := s.locals.length
  let rec go (fuel i : Nat) : LState × Option Nat :=
    match fuel with
    | 0 => (s, none)
    | fuel + 1 =>
      if i < n then
        let v := (w + i) % n
        if (s.getL v).isEmpty then go fuel (i + 1) else lstealHalf s v w
      else (s, none)
  go n 1

inductive LOp where
  | push (x : Nat) | pushLocal (w x : Nat) | popFront (w : Nat) | popGlobal | trySteal (w : Nat)
  | stealHalf (a b : Nat) | parkAndTake | take (w : Nat) | close
  deriving Repr, DecidableEq

def showOpt : Option Nat → String
  | none => "nil"
  | some x => toString x

def lstep (s : LState) : LOp → LState × String
  | .push x => (lpush s x, "ok")
  | .pushLocal w x => (lpushLocal s w x, "ok")
  | .popFront w => let (s, r) := lpopFront s w; (s, showOpt r)
  | .popGlobal => let (s, r) := lpopGlobal s; (s, showOpt r)
  | .trySteal w => let (s, r) := ltrySteal s w; (s, showOpt r)
  | .stealHalf a b => let (s, r) := lstealHalf s a b; (s, showOpt r)
  | .parkAndTake =>
    if s.closed then (s, "closed")
    else match s.global with
      | [] => (s, "wouldblock")
      | x :: r => ({ s with global := r }, toString x)
  | .take w =>
    match lpopFront s w with
    | (s1, some x) => (s1, toString x)
    | (_, none) =>
      match lpopGlobal s with
      | (s1, some x) => (s1, toString x)
      | (_, none) =>
        match ltrySteal s w with
        | (s1, some x) => (s1, toString x)
        | (_, none) => if s.closed then (s, "closed") else (s, "wouldblock")
  | .close => ({ s with closed := true }, "ok")

def pair? (s : String) : Option (Nat × Nat) :=
  match s.splitOn "." with
  | [a, b] => match a.toNat?, b.toNat? with | some a, some b => some (a, b) | _, _ => none
  | _ => none

def parseLOp (n : Nat) (s : String) : Option LOp :=
  let chk (w : Nat) (o : LOp) : Option LOp := if w < n then some o else none
  if s = "pg" then some .popGlobal
  else if s = "pk" then some .parkAndTake
  else if s = "cl" then some .close
  else if s.startsWith "pf" then (s.drop 2).toString.toNat?.bind fun w => chk w (.popFront w)
  else if s.startsWith "ts" then (s.drop 2).toString.toNat?.bind fun w => chk w (.trySteal w)
  else if s.startsWith "tk" then (s.drop 2).toString.toNat?.bind fun w => chk w (.take w)
  else if s.startsWith "sh" then (pair? (s.drop 2).toString).bind fun (a, b) => if a < n ∧ b < n then some (.stealHalf a b) else none
  else if s.startsWith "p" then (s.drop 1).toString.toNat?.bind fun x => if x = 0 then none else some (.push x)
  else if s.startsWith "l" then (pair? (s.drop 1).toString).bind fun (w, x) => if w < n ∧ x ≠ 0 then some (.pushLocal w x) else none
  else none

def lrun : LState → List LOp → List String → LState × List String
  | s, [], acc => (s, acc.reverse)
  | s, op :: ops, acc => let (s', r) := lstep s op; lrun s' ops (r :: acc)

/-! ### parsing the implementation's state digest -/

structure RingDump where
  name : String
  nums : List Nat      -- the numeric fields before the item list
  items : List Nat
  deriving Repr

def parseRing (seg : String) : Option RingDump :=
  match seg.splitOn "[" with
  | [pre, post] =>
    match words pre with
    | name :: rest =>
      match rest.mapM String.toNat?, (words (post.replace "]" "")).mapM String.toNat? with
      | some nums, some items => some { name, nums, items }
      | _, _ => none
    | [] => none
  | _ => none

structure Dump where
  locals : List RingDump   -- nums = sizeAtomic head tail size nonNil
  global : RingDump        -- nums = cap globalCount head tail size nonNil
  parked : Nat
  closed : Bool
  deriving Repr

def parseDump (d : String) : Option Dump :=
  let segs := (d.splitOn " / ").map fun s => s.trimAscii.toString
  let ls := segs.filter (·.startsWith "L")
  let gs := segs.filter (·.startsWith "G")
  let ps := segs.filter (·.startsWith "P")
  match ls.mapM parseRing, gs.mapM parseRing, ps with
  | some ls, some [g], [p] =>
    match words p with
    | ["P", k, c] => k.toNat?.map fun k => { locals := ls, global := g, parked := k, closed := c = "true" }
    | _ => none
  | _, _, _ => none

/-- size fields agree with each other and with the live window -/
def ringConsistent (d : Dump) : Option String :=
  let badL := d.locals.filter fun r =>
    match r.nums with
    | [a, _, _, n, nn] => !(a = n ∧ nn = n ∧ r.items.length = n ∧ r.items.all (· ≠ 0))
    | _ => true
  match d.global.nums with
  | [cap, cnt, _, _, n, nn] =>
    if !(cnt = n ∧ nn = n ∧ d.global.items.length = n ∧ n ≤ cap ∧ d.global.items.all (· ≠ 0)) then some "global ring inconsistent"
    else if !badL.isEmpty then some "local ring inconsistent"
    else none
  | _ => some "unparsable global ring"

def Dump.items (d : Dump) : List Nat := d.locals.flatMap (·.items) ++ d.global.items

/-! ### sequential judge -/

def judgeSeq (n : Nat) (ops : String) (impl : String) : String :=
  match (words ops).mapM (parseLOp n) with
  | none => if impl = "bad-case" then "ok" else "bad unparsable case accepted"
  | some lops =>
    let (s, rs) := lrun { cap := 256, locals := List.replicate n [], global := [], closed := false } lops []
    match impl.splitOn " | " with
    | [r, d] =>
      if r ≠ ",".intercalate rs then s!"bad results differ from the FIFO/steal spec: want {",".intercalate rs}"
      else match parseDump d with
        | none => "bad unparsable digest"
        | some dump =>
          match ringConsistent dump with
          | some why => "bad " ++ why
          | none =>
            if dump.locals.map (·.items) ≠ s.locals then "bad local ring contents differ from the spec"
            else if dump.global.items ≠ s.global then "bad global ring contents differ from the spec"
            else if dump.closed ≠ s.closed then "bad closed flag"
            else if dump.parked ≠ 0 then "bad parked count"
            else "ok"
    | _ => "bad malformed output"

/-! ### concurrent judge -/

inductive COp where
  | push (x : Nat) | pushLocal (x : Nat) | take | run | close
  deriving Repr, DecidableEq

def parseCOp (s : String) : Option COp :=
  if s = "t" then some .take else if s = "run" then some .run else if s = "c" then some .close
  else if s.startsWith "p" then (s.drop 1).toString.toNat?.map .push
  else if s.startsWith "l" then (s.drop 1).toString.toNat?.map .pushLocal
  else none

def isProducerOnly (p : List COp) : Bool :=
  p.all fun o => match o with | .push _ => true | .close => true | _ => false

/-- the run must terminate under every schedule: either some thread that can never block closes
the queue, or there are no local pushes / run loops and at most as many takes as global pushes -/
def guaranteed (progs : List (List COp)) : Bool :=
  let all := progs.flatten
  progs.any (fun p => isProducerOnly p && p.contains .close) ||
  (all.all (fun o => match o with | .pushLocal _ => false | .run => false | _ => true) &&
    (all.filter (· == .take)).length ≤ (all.filter fun o => match o with | .push _ => true | _ => false).length)

def resItems (r : String) : Option (List Nat) :=
  if r = "ok" ∨ r = "closed" then some []
  else if r.startsWith "run:" then
    let body := (r.drop 4).toString
    if body = "" then some [] else (body.splitOn "+").mapM String.toNat?
  else r.toNat?.map fun x => [x]

def judgeConc (progs : String) (impl : String) : String :=
  match (progs.splitOn ";").mapM (fun p => (words p).mapM parseCOp) with
  | none => "ok"
  | some ps =>
    match impl.splitOn " | " with
    | [t, r, f] =>
      let f := (f.drop 2).toString
      if f = "unfinished" || t.endsWith " cap" then
        if guaranteed ps then "bad threads stayed blocked although termination is guaranteed (lost wake-up or deadlock)"
        else
          -- a run that legitimately never ends (a worker waits for work nobody will push globally):
          -- still, a PARKED worker must not have work in its OWN local ring
          match parseDump f with
          | none => "ok"
          | some dump =>
            let steps := (words ((t.drop 2).toString)).filterMap fun w =>
              match w.splitOn ":" with
              | tid :: rest => tid.toNat?.map fun n => (n, ":".intercalate rest)
              | [] => none
            let parkedWithWork := (List.range dump.locals.length).filter fun i =>
              (match (steps.filter (·.1 == i)).getLast? with
                | some (_, l) => l == "Wake:cond!blocked"
                | none => false) &&
              (match dump.locals[i]? with
                | some r => !r.items.isEmpty
                | none => false)
            if parkedWithWork.isEmpty then "ok"
            else s!"bad worker(s) {parkedWithWork} parked while their own local ring holds work"
      else
        let rs := ((r.drop 2).toString.splitOn ";").map fun t => if t.trimAscii.toString = "" then [] else (t.trimAscii.toString.splitOn ",")
        if rs.map (·.length) ≠ ps.map (·.length) then "bad result count differs from op count"
        else
          let pushed := ps.flatten.filterMap fun o => match o with | .push x => some x | .pushLocal x => some x | _ => none
          match (rs.flatten.mapM resItems), parseDump f with
          | some taken, some dump =>
            match ringConsistent dump with
            | some why => "bad " ++ why
            | none =>
              if sortNats pushed ≠ sortNats (taken.flatten ++ dump.items) then
                s!"bad conservation: pushed {sortNats pushed} taken {sortNats taken.flatten} left {sortNats dump.items}"
              else if dump.parked ≠ 0 then "bad parked count non-zero after every thread finished"
              else if rs.flatten.contains "closed" && !ps.flatten.contains .close then "bad take reported closed without close"
              else "ok"
          | _, _ => "bad unparsable results or digest"
    | _ => if impl = "bad-case" then "ok" else "bad malformed output"

def judgeLine (case impl : String) : String :=
  match case.splitOn "|" with
  | [cfg, ops] =>
    match words cfg with
    | ["seq", n] => match n.toNat? with | some n => judgeSeq n ops impl | none => "ok"
    | _ => "ok"
  | [_, progs, _] => judgeConc progs impl
  | _ => "ok"

end GoaktVerif.Spec.C05

/-
C29 spec side: the headers restored for a message equal (as maps) the headers injected for that
same message, keys in canonical MIME form.
-/
namespace GoaktVerif.Spec.C29

/-- equality of association lists as maps (order-insensitive; used on lists with distinct keys) -/
def sameMap {α : Type} [BEq α] (a b : List α) : Bool :=
  a.length == b.length && a.all (b.contains ·) && b.all (a.contains ·)

end GoaktVerif.Spec.C29

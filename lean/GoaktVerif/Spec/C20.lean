import GoaktVerif.Driver.Util
import GoaktVerif.Model.C20.Stream
import GoaktVerif.Model.C20.Queue

/-
C20 — specification side.

1. The FIFO specification of the subscriber queue as a replay of linearization events
   (`replay`, `legal`) and the facts every legal history has (`Props.C20`).
2. The outcome oracle for a finished controlled run of the REAL queue (`judgeQueue`): every published
   value is received exactly once (by some consumer or by the final drain), nothing is invented, every
   consumer sees the values of one producer in that producer's order, `Iterator` does not panic and the
   length counter is 0 once everything is drained.
3. The per-subscriber specification of the event stream (`View`, `specRun`): a subscriber is an
   independent automaton (alive?, subscribed topics, pending messages) — no shared maps — and the oracle
   for stream op sequences (`judgeStream`).
-/
namespace GoaktVerif.Spec.C20
open GoaktVerif.Driver
open GoaktVerif.Model.C20

/-! ### 1. FIFO replay -/

abbrev Ev := Queue.Ev

/-- run a history on an abstract FIFO; `none` = the history is not a FIFO history -/
def replay : List Ev → List Nat → Option (List Nat)
  | [], q => some q
  | .enq v :: es, q => replay es (q ++ [v])
  | .deq none :: es, q => if q.isEmpty then replay es q else none
  | .deq (some v) :: es, q =>
    match q with
    | [] => none
    | x :: q' => if x = v then replay es q' else none

def legal (es : List Ev) : Bool := (replay es []).isSome

def enqVals : List Ev → List Nat
  | [] => []
  | .enq v :: es => v :: enqVals es
  | _ :: es => enqVals es

def deqVals : List Ev → List Nat
  | [] => []
  | .deq (some v) :: es => v :: deqVals es
  | _ :: es => deqVals es

/-! ### 2. outcome oracle for E3 runs -/

/-- is `l` (values received, in order) consistent with the producer order `p`: the values of `p` that
occur in `l` occur in the same relative order -/
def orderedWrt (p l : List Nat) : Bool :=
  let sub := l.filter (p.contains ·)
  let exp := p.filter (sub.contains ·)
  sub == exp

def dupFree : List Nat → Bool
  | [] => true
  | x :: xs => !xs.contains x && dupFree xs

structure QueueRun where
  produced : List (List Nat)      -- per producer thread: values of its e/s ops in program order
  optional : Bool                 -- some thread shuts the subscriber down: `s` values may be dropped
  required : List Nat             -- values that must be delivered
  consumed : List (List Nat)      -- per thread: values it received (d results, it items), in order
  drain : List Nat                -- final sequential drain
  panicked : Bool
  len2 : Int
  finished : Bool

def outcome (r : QueueRun) : String :=
  let allIn := r.produced.flatten
  let got := r.consumed.flatten ++ r.drain
  if !r.finished then "ok unfinished"
  else if r.panicked then "bad panic Iterator panicked (negative length)"
  else if !dupFree got then "bad dup a value was delivered twice"
  else if got.any (fun v => !allIn.contains v) then "bad invented a delivered value was never published"
  else match r.required.find? (fun v => !got.contains v) with
    | some v => s!"bad lost value {v} was published but is neither received nor left in the queue"
    | none =>
      if r.consumed.any (fun c => r.produced.any (fun p => !orderedWrt p (c ++ r.drain))) then
        "bad order a consumer received one publisher's values out of publish order"
      else if r.len2 ≠ 0 then s!"bad len Length() is {r.len2} after the queue was drained"
      else "ok"

def opVal (pfx : String) (w : String) : Option Nat :=
  if w.startsWith pfx && w.length > 1 then (w.drop 1).toString.toNat? else none

def fieldOf (fs : List String) (k : String) : Option String :=
  (fs.find? (·.startsWith (k ++ "="))).map fun s => (s.drop (k.length + 1)).toString

def dotted (s : String) : List Nat :=
  if s = "-" || s = "" then [] else (s.splitOn ".").filterMap String.toNat?

def parseRun (case out : String) : Option QueueRun :=
  match case.splitOn "|", out.splitOn "|" with
  | [_, progs, _], [tr, rs, fin] =>
    let progs := (progs.splitOn ";").map words
    let rs := ((rs.trimAscii.toString.drop 1).toString.splitOn ";").map fun r => (r.trimAscii.toString.splitOn ",")
    let fs := words fin
    let produced := progs.map fun p => p.filterMap fun w =>
      if w = "sh" then none else match opVal "e" w with | some v => some v | none => opVal "s" w
    let optional := progs.any (·.contains "sh")
    let required := (progs.map fun p => p.filterMap fun w =>
      match opVal "e" w with | some v => some v | none => if optional then none else opVal "s" w).flatten
    let consumed := (progs.zip rs).map fun (p, r) =>
      ((p.zip r).map fun (op, res) =>
        if op = "d" then (match res.toNat? with | some v => [v] | none => [])
        else if op = "it" then dotted res else []).flatten
    let panicked := rs.any (·.any (·.startsWith "panic"))
    let finished := !(words tr).contains "cap" && (fieldOf fs "drain").isSome
    some { produced, optional, required, consumed, drain := dotted ((fieldOf fs "drain").getD "-"), panicked,
           len2 := ((fieldOf fs "len2").bind String.toInt?).getD 0, finished }
  | _, _ => none

def judgeQueue (case out : String) : String :=
  if out.startsWith "CRASH" || out.startsWith "panic" then "bad crash " ++ out
  else match parseRun case out with
    | some r => outcome r
    | none => "bad unparsable " ++ out

/-! ### 3. event stream: per-subscriber specification -/

open Stream in
structure View where
  alive : Bool
  subscribed : List Topic
  pending : List Msg
  deriving Repr, DecidableEq

open Stream in
/-- what operation `op` means for subscriber `i` alone -/
def viewStep (i : SubId) (v : View) : Op → View
  | .sub j t => if j = i ∧ v.alive then { v with subscribed := t :: v.subscribed } else v
  | .unsub j t => if j = i then { v with subscribed := v.subscribed.filter (· ≠ t) } else v
  | .rm j => if j = i then { v with alive := false, subscribed := [] } else v
  | .shut j => if j = i then { v with alive := false } else v
  | .close => { v with alive := false, subscribed := [] }
  | .pub t k => if v.alive ∧ t ∈ v.subscribed then { v with pending := v.pending ++ [(t, k)] } else v
  | .bc k ts => { v with pending := v.pending ++ (if v.alive then (ts.filter (· ∈ v.subscribed)).map (·, k) else []) }
  | .it j => if j = i then { v with pending := [] } else v
  | _ => v

open Stream in
/-- the specification run: a list of independent views, one per subscriber created so far; returns the
result of every `it` (`none` when the subscriber does not exist) -/
def specRun : List View → List Op → List (Option (List Msg))
  | _, [] => []
  | vs, op :: ops =>
    let out : List (Option (List Msg)) := match op with
      | .it i => [vs[i]?.map (·.pending)]
      | _ => []
    let vs' := match op with
      | .add => vs ++ [{ alive := true, subscribed := [], pending := [] }]
      | _ => vs.mapIdx fun i v => viewStep i v op
    out ++ specRun vs' ops

open Stream in
def itOutputs : List Op → List Out → List (Option (List Msg))
  | .it _ :: ops, .msgs l :: outs => some l :: itOutputs ops outs
  | .it _ :: ops, _ :: outs => none :: itOutputs ops outs
  | _ :: ops, _ :: outs => itOutputs ops outs
  | _, _ => []

def parseMsgs (s : String) : Option (List (Nat × Nat)) :=
  if s = "-" then some []
  else (s.splitOn ".").mapM fun m =>
    match m.splitOn "/" with
    | [t, k] => do some ((← t.toNat?), (← k.toNat?))
    | _ => none

def judgeStream (ws : List String) (out : String) : String :=
  match ws.mapM Stream.parseOp with
  | none => "ok bad-case"
  | some ops =>
    let outs := words out
    if outs.length ≠ ops.length then "bad arity " ++ out
    else
      let got : List (Option (List (Nat × Nat))) := (ops.zip outs).filterMap fun (op, o) =>
        match op with
        | .it _ => some (if o = "nosub" then none else parseMsgs o)
        | _ => none
      let want := specRun [] ops
      if got == want then "ok"
      else "bad delivery an Iterator() result differs from the messages published while subscribed and active"

end GoaktVerif.Spec.C20

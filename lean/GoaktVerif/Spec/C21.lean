/-
C21 spec side: what the strategies promise, as decidable checks on observed outcomes.
-/
namespace GoaktVerif.Spec.C21

/-- x is the successor of h on the ring of hashes `hs`: the least hash ≥ h, or (wrap) the least hash -/
def IsSucc (hs : List Nat) (h x : Nat) : Prop :=
  x ∈ hs ∧ ((∃ y ∈ hs, h ≤ y) → h ≤ x ∧ ∀ y ∈ hs, h ≤ y → x ≤ y)
    ∧ ((¬ ∃ y ∈ hs, h ≤ y) → ∀ y ∈ hs, x ≤ y)

/-- executable successor (no sorting): least element ≥ h, else least element -/
def succOf (hs : List Nat) (h : Nat) : Option Nat :=
  match (hs.filter (fun y => decide (h ≤ y))).min? with
  | some x => some x
  | none => hs.min?

/-- round-robin over `n` routees: receivers (routee indices; none = message lost) are all present and
    cyclic with period n over n distinct routees: recv[j+1] follows recv[j] in one fixed order -/
def rrCyclic (n : Nat) (recv : List (Option Nat)) : Bool :=
  recv.all (·.isSome)
  && (List.range recv.length).all (fun j =>
        if j + n < recv.length then recv[j + n]? == recv[j]? else true)
  && ((recv.take n).eraseDups.length == min n recv.length)

/-- fan-out: every running routee exactly once, nothing else -/
def fanoutOK (running : List Nat) (recv : List Nat) : Bool :=
  running.all (fun id => recv.count id == 1) && recv.all (fun id => running.contains id)

end GoaktVerif.Spec.C21

/-
C33 — executable specification (oracle) evaluated on the IMPLEMENTATION's observable trace of one
relocation: which node handled which item successfully, what the RelocationFailed event(s) list,
whether the job was released.  Core Lean only; it does not call the model's `relocate`.
-/
import GoaktVerif.Model.C33
import GoaktVerif.Spec.C32

namespace GoaktVerif.Spec.C33
open GoaktVerif.Model.C32 GoaktVerif.Model.C33 GoaktVerif.Spec.C32

/-- observable trace of a run: per node the items handled successfully (actor ids, grain ids),
    the ids listed as failed, number of events -/
structure Trace where
  okA : List (List Nat)     -- okA[n] = actor ids handled by node n (0 = leader)
  okG : List (List Nat)
  failA : List Nat
  failG : List Nat

/-- every actor of the snapshot and every relocatable grain has exactly one outcome; nothing else
    has one -/
def accounted (actors : List Actor) (grains : List Grain) (t : Trace) : Option String :=
  let rel := grains.filter (fun g => !g.disabled)
  if !sameIds (t.okA.flatten ++ t.failA) (actors.map (·.id)) then
    some "an actor is not (recreated on exactly one node) xor (listed as failed), or a foreign actor shows up"
  else if !sameIds (t.okG.flatten ++ t.failG) (rel.map (·.id)) then
    some "a relocatable grain is not (handled by exactly one node) xor (listed as failed), or a disabled/foreign grain shows up"
  else none

/-- an actor handled by node `n` sits on a node advertising its role; singletons only on the leader -/
def placedOK (targets : List (List Role)) (actors : List Actor) (t : Trace) : Option String :=
  let bad := (t.okA.zipIdx).any (fun (ids, n) =>
    ids.any (fun i => match actors.find? (fun a => a.id == i) with
      | some a => if a.singleton then n != 0 else !eligibleForRole (targets.getD n []) a.role
      | none => true))
  if bad then some "an actor was recreated on a node that does not advertise its role (or a singleton off the leader)" else none

def firstSome : List (Option String) → Option String
  | [] => none
  | some s :: _ => some s
  | none :: rest => firstSome rest

/-- full-relocation oracle. `aborted` = cluster.Peers failed (abort accounting: the event is always
    published); `faultFree` = the case scripts no failure at all -/
def rlCheck (targets : List (List Role)) (actors : List Actor) (grains : List Grain) (aborted faultFree : Bool)
    (t : Trace) (events : Nat) (jobReleased : Bool) (dels : Nat) : Option String :=
  let anyFailed := !(t.failA.isEmpty && t.failG.isEmpty)
  firstSome [
    accounted actors grains t,
    placedOK targets actors t,
    (if events > 1 then some "more than one RelocationFailed event for one departure" else none),
    (if aborted then (if events = 1 then none else some "aborted relocation did not publish its RelocationFailed event")
     else if anyFailed && events = 0 then some "items failed but no RelocationFailed event was published"
     else if !anyFailed && events ≠ 0 then some "RelocationFailed event without a failed item"
     else none),
    (if jobReleased then none else some "relocation job still registered after the worker finished"),
    (if dels = 1 then none else some "peer state snapshot not removed exactly once"),
    (if faultFree && !aborted then
       let orphans := (actors.filter (fun a => !a.singleton && !eligibleSomewhere targets a.role)).map (·.id)
       if sameIds t.failA orphans && t.failG.isEmpty then none
       else some "fault-free run: the failed items are not exactly the actors no node can host"
     else none)]

/-- share-redistribution oracle (`relocateShare`) -/
def rsCheck (targets : List (List Role)) (actors : List Actor) (grains : List Grain) (t : Trace)
    (target : Nat) (clean : Bool) : Option String :=
  firstSome [
    -- `clean`: only batches to the unreachable target are rejected and no item fails anywhere: then
    -- an actor may be recorded as failed only when neither the leader nor ANY other peer advertises
    -- its role, and no grain fails
    (if clean then
       let others := (targets.zipIdx.filter (fun (_, n) => n ≠ target + 1)).map (·.1)
       let delivered := t.okA.getD (target + 1) []     -- what the target took before it became unreachable
       let orphans := ((actors.filter (fun a => !eligibleSomewhere others a.role)).map (·.id)).filter (fun i => !delivered.contains i)
       if sameIds t.failA orphans && t.failG.isEmpty then none
       else some "redistribution without further faults: the failed items are not exactly the actors that no surviving node (leader or other peer) can host"
     else none),
    (if !sameIds (t.okA.flatten ++ t.failA) (actors.map (·.id)) then
       some "an actor of the share is not (recreated on exactly one node) xor (recorded as failed)" else none),
    (if !sameIds (t.okG.flatten ++ t.failG) (grains.map (·.id)) then
       some "a grain of the share is not (handled by exactly one node) xor (recorded as failed)" else none),
    placedOK targets actors t]

end GoaktVerif.Spec.C33

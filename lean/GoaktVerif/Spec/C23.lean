/-
C23 spec side: the documented wire layout and what a correct codec must deliver, stated
independently of the model of the Go code (no bounds-checked slicing, no error plumbing).
Used by the theorems in Props/C23 and by the driver's judge mode on the IMPLEMENTATION's output.
-/
namespace GoaktVerif.Spec.C23

abbrev Bytes := List UInt8
abbrev Headers := List (Bytes × Bytes)

/-- `k`-byte big-endian representation of `n mod 256^k` -/
def be : Nat → Nat → Bytes
  | 0, _ => []
  | k + 1, n => UInt8.ofNat (n / 256 ^ k) :: be k n

/-- big-endian value of a byte string -/
def beVal (bs : Bytes) : Nat := bs.foldl (fun acc b => acc * 256 + b.toNat) 0

/-- documented legacy layout: totalLen | nameLen | name | proto bytes -/
def frame (name payload : Bytes) : Bytes :=
  be 4 (8 + name.length + payload.length) ++ (be 4 name.length ++ (name ++ payload))

/-- extended layout as implemented: totalLen | nameLen | metaLen | name | metadata | proto bytes -/
def frameM (name metaBytes payload : Bytes) : Bytes :=
  be 4 (12 + name.length + metaBytes.length + payload.length) ++
    (be 4 name.length ++ (be 4 metaBytes.length ++ (name ++ (metaBytes ++ payload))))

def header (kv : Bytes × Bytes) : Bytes := be 2 kv.1.length ++ kv.1 ++ (be 2 kv.2.length ++ kv.2)

/-- metadata layout: count | (klen key vlen val)* | remaining (int64, two's complement) -/
def metadata (hs : Headers) (remaining : Int) : Bytes :=
  be 2 hs.length ++ (hs.flatMap header ++ be 8 (remaining % 2 ^ 64).toNat)

/-- the wire limits of the property: fewer than 65536 headers, keys and values shorter than 65536 bytes -/
def inLimits (hs : Headers) : Bool :=
  decide (hs.length < 65536) && hs.all fun kv => decide (kv.1.length < 65536) && decide (kv.2.length < 65536)

/-- a header list that is a map: no key twice -/
def distinctKeys : Headers → Bool
  | [] => true
  | kv :: rest => !(rest.any fun kv' => kv'.1 == kv.1) && distinctKeys rest

/-- protobuf full names start with an ASCII letter -/
def asciiLetter (b : UInt8) : Bool := (65 ≤ b.toNat && b.toNat ≤ 90) || (97 ≤ b.toNat && b.toNat ≤ 122)
def validName (name : Bytes) : Bool :=
  match name with
  | [] => false
  | b :: _ => asciiLetter b

/-- a complete frame whose length prefix is its length, within the receiver's limit -/
def wellFramed (maxFrameSize : Nat) (f : Bytes) : Bool :=
  decide (8 ≤ f.length) && decide (f.length ≤ maxFrameSize) && decide (f.length < 2 ^ 32) && (f.take 4 == be 4 f.length)

/-- lexicographic order on byte strings (Go's string order) -/
def bytesLe : Bytes → Bytes → Bool
  | [], _ => true
  | _ :: _, [] => false
  | a :: as, b :: bs => a.toNat < b.toNat || (a == b && bytesLe as bs)

def sortHeaders (hs : Headers) : Headers := hs.mergeSort fun a b => bytesLe a.1 b.1

/-- the two header lists denote the same map (both have distinct keys) -/
def sameMap (a b : Headers) : Bool := sortHeaders a == sortHeaders b

/-- signed reading of a difference modulo 2^64 -/
def sdiff64 (a b : Int) : Int :=
  let d := (a - b) % 2 ^ 64
  if d < 2 ^ 63 then d else d - 2 ^ 64

/-- sender stored deadline `dlin` (0 = none), encoded at a time in [t0,t1]: the wire field must be
    `dlin − now` for some `now` in the window, −1 standing in for an exact 0 -/
def remainingOK (dlin t0 t1 rem : Int) : Bool :=
  if dlin = 0 then rem == 0
  else
    let now := sdiff64 dlin rem          -- the clock reading that explains `rem`
    (rem != 0) && ((decide (t0 ≤ now) && decide (now ≤ t1)) || (rem == -1 && decide (t0 ≤ dlin) && decide (dlin ≤ t1)))

/-- a wire field `rem` decoded at a time in [t0,t1] must give the stored deadline `dl` -/
def deadlineOK (rem t0 t1 dl : Int) : Bool :=
  if rem = 0 then dl == 0
  else
    let now := sdiff64 dl rem
    decide (t0 ≤ now) && decide (now ≤ t1)

/-- end to end inside one time window [t0,t1] (encode then decode): the receiver's deadline is the
    sender's shifted by the (non-negative) time that passed, at most the window; "no deadline" is preserved -/
def transferOK (dlin t0 t1 dlout : Int) : Bool :=
  if dlin = 0 then dlout == 0
  else
    let d := sdiff64 dlout dlin
    decide (-1 ≤ d) && decide (d ≤ t1 - t0)

/-! ### a plain parser for the metadata layout (spec-level: take/drop, no error kinds) -/

def parseHeaders : Nat → Bytes → Option (Headers × Bytes)
  | 0, bs => some ([], bs)
  | n + 1, bs =>
    match bs with
    | a :: b :: bs =>
      let kl := a.toNat * 256 + b.toNat
      let k := bs.take kl
      if k.length < kl then none else
      match bs.drop kl with
      | c :: d :: bs =>
        let vl := c.toNat * 256 + d.toNat
        let v := bs.take vl
        if v.length < vl then none else
        match parseHeaders n (bs.drop vl) with
        | none => none
        | some (hs, rest) => some ((k, v) :: hs, rest)
      | _ => none
    | _ => none

/-- headers in wire order and the remaining field, when `mb` is exactly one metadata block -/
def parseMetadata (mb : Bytes) : Option (Headers × Int) :=
  match parseHeaders (beVal (mb.take 2)) (mb.drop 2) with
  | none => none
  | some (hs, rest) =>
    if rest.length ≠ 8 then none else
    let u := beVal rest
    some (hs, if u < 2 ^ 63 then (u : Int) else (u : Int) - 2 ^ 64)

/-! ### frame pool sizing -/

/-- the smallest bucket (sizes `2^(minShift+i)`, `i < numBuckets`) that holds `n`, or `numBuckets` -/
def smallestBucket (minShift numBuckets : Nat) (n : Nat) : Nat :=
  (List.range numBuckets).find? (fun i => n ≤ 2 ^ (minShift + i)) |>.getD numBuckets

end GoaktVerif.Spec.C23

import GoaktVerif.Driver.Util

/-
C15 — outcome oracle for a finished controlled run of the real Ask / Response code.

From the case (programs) and the implementation's output (trace of executed steps, per-operation results) it
reconstructs, for every Ask with request id k: its result, the position in the trace of its `select` step and the
position at which the target's `Response` for k returned.  Then

* own reply:   a result `r<v>` must have v = k                                  (else `bad cross`)
* no loss:     if `Response` for k returned before the select step of Ask k, the result must be `r<k>`
               (a `timeout` there is `bad lost`)
-/
namespace GoaktVerif.Spec.C15
open GoaktVerif.Driver

structure TState where
  opIdx : Nat := 0     -- index of the operation in progress
  phase : Nat := 0     -- caller: 0 build, 1 select, 2 close; worker: 0 before Deq, 1 before CAS
  deriving Repr

structure Acc where
  ts : List TState
  selectAt : List (Nat × Nat) := []   -- (request id, trace position)
  respAt : List (Nat × Nat) := []
  deriving Repr

def reqOf (op : String) : Option Nat :=
  if op.startsWith "a" || op.startsWith "b" || op.startsWith "c" then (op.drop 1).toString.toNat? else none

def handledOf (res : String) : Option Nat := if res.startsWith "h" then (res.drop 1).toString.toNat? else none

/-- consume one trace entry `tid:label` at position `pos` -/
def feed (fixed : Bool) (progs res : List (List String)) (a : Acc) (pos : Nat) (entry : String) : Acc :=
  match entry.splitOn ":" with
  | tidS :: rest =>
    let lab := ":".intercalate rest
    match tidS.toNat? with
    | none => a
    | some tid =>
      match a.ts[tid]?, progs[tid]? with
      | some st, some prog =>
        if lab.endsWith "!blocked" || lab.startsWith "!" then a
        else
          match prog[st.opIdx]? with
          | none => a
          | some op =>
            match reqOf op with
            | some k =>
              -- caller
              if st.phase = 0 then { a with ts := a.ts.set tid { st with phase := 1 } }
              else if st.phase = 1 then
                if fixed then { a with ts := a.ts.set tid { opIdx := st.opIdx + 1, phase := 0 }, selectAt := (k, pos) :: a.selectAt }
                else { a with ts := a.ts.set tid { st with phase := 2 }, selectAt := (k, pos) :: a.selectAt }
              else { a with ts := a.ts.set tid { opIdx := st.opIdx + 1, phase := 0 } }
            | none =>
              -- worker: `Deq` then (when a message was dequeued) `CAS:responseClosed`
              let r := ((res[tid]?).bind (·[st.opIdx]?)).getD ""
              if st.phase = 0 then
                if r = "empty" then { a with ts := a.ts.set tid { opIdx := st.opIdx + 1, phase := 0 } }
                else { a with ts := a.ts.set tid { st with phase := 1 } }
              else
                match handledOf r with
                | some k => { a with ts := a.ts.set tid { opIdx := st.opIdx + 1, phase := 0 }, respAt := (k, pos) :: a.respAt }
                | none => { a with ts := a.ts.set tid { opIdx := st.opIdx + 1, phase := 0 } }
      | _, _ => a
  | [] => a

def feedAll (fixed : Bool) (progs res : List (List String)) : Acc → Nat → List String → Acc
  | a, _, [] => a
  | a, pos, e :: es => feedAll fixed progs res (feed fixed progs res a pos e) (pos + 1) es

def lookup (l : List (Nat × Nat)) (k : Nat) : Option Nat := (l.find? (·.1 == k)).map (·.2)

def verdict (progs res : List (List String)) (a : Acc) : String :=
  let asks : List (Nat × String) := ((progs.zip res).map fun (p, r) => (p.zip r).filterMap fun (op, x) => (reqOf op).map (·, x)).flatten
  match asks.find? (fun (k, x) => x.startsWith "r" && (x.drop 1).toString.toNat? != some k) with
  | some (k, x) => s!"bad cross Ask {k} returned {x}: the reply of another request"
  | none =>
    match asks.find? (fun (k, x) => x = "timeout" && (match lookup a.respAt k, lookup a.selectAt k with
        | some r, some s => r < s
        | _, _ => false)) with
    | some (k, _) => s!"bad lost Ask {k} timed out although Response for it had returned before its deadline"
    | none => "ok"

/-! ### position-based reading of a trace (used for the grain path, whose callers have more steps per Ask)

The n-th executed select step of a caller thread (`selLabel`, not `!blocked`) belongs to its n-th Ask; the n-th executed
`CAS:responseClosed` of the worker belongs to its n-th non-empty `h`. -/

def nthPositions (tr : List String) (tid : Nat) (lab : String) : List Nat :=
  ((tr.zipIdx).filterMap fun (e, pos) => if e == s!"{tid}:{lab}" then some pos else none)

def judgeBy (selLabel : String) (progs res : List (List String)) (tr : List String) : String :=
  let perThread := (progs.zipIdx).zip res
  let selectAt : List (Nat × Nat) := (perThread.map fun ((p, tid), _) =>
    ((p.filterMap reqOf).zip (nthPositions tr tid selLabel))).flatten
  let respAt : List (Nat × Nat) := (perThread.map fun ((_, tid), r) =>
    ((r.filterMap handledOf).zip (nthPositions tr tid "CAS:responseClosed"))).flatten
  verdict progs res { ts := [], selectAt := selectAt, respAt := respAt }

def judgeGrain (case out : String) : String :=
  if out.startsWith "HANG-skipped" then "ok skipped"
  else if out.startsWith "HANG" then "bad hang an Ask never returned: a logical thread blocked outside every schedule point"
  else if out.startsWith "CRASH" || out.startsWith "panic" then "bad crash " ++ out
  else match case.splitOn "|", out.splitOn "|" with
    | [_, progs, _], [tr, rs, _] =>
      let progs := (progs.splitOn ";").map words
      let res := ((rs.trimAscii.toString.drop 1).toString.splitOn ";").map fun r => (r.trimAscii.toString.splitOn ",")
      let tr := (words tr).drop 1
      if tr.contains "cap" then "ok unfinished" else judgeBy "Add:len" progs res tr
    | _, _ => "bad unparsable " ++ out

/-- the final digest reports a timer that was pooled twice -/
def timerDup (out : String) : Bool := (out.splitOn "timers=dup").length > 1

def judgeMain (case out : String) : String :=
  if case.startsWith "gask" then judgeGrain case out else
  if out.startsWith "HANG-skipped" then "ok skipped"
  else if out.startsWith "HANG" then "bad hang an Ask never returned: a logical thread blocked outside every schedule point"
  else if out.startsWith "CRASH" || out.startsWith "panic" then "bad crash " ++ out
  else match case.splitOn "|", out.splitOn "|" with
    | [_, progs, _], [tr, rs, _] =>
      let progs := (progs.splitOn ";").map words
      let res := ((rs.trimAscii.toString.drop 1).toString.splitOn ";").map fun r => (r.trimAscii.toString.splitOn ",")
      let tr := (words tr).drop 1
      -- one `Store:responseClosed` per Ask: the code without the late store; two: the code with it
      let nasks := (progs.map fun p => (p.filter fun w => (reqOf w).isSome).length).foldl (· + ·) 0
      let nstores := (tr.filter fun e => e.endsWith ":Store:responseClosed").length
      let fixed := nstores == nasks
      if tr.contains "cap" then "ok unfinished"
      else verdict progs res (feedAll fixed progs res { ts := progs.map fun _ => {} } 0 tr)
    | _, _ => "bad unparsable " ++ out

def judge (case out : String) : String :=
  if timerDup out then "bad timer the same *time.Timer was put into the Ask timer pool twice: two later Asks share one deadline"
  else judgeMain case out

end GoaktVerif.Spec.C15

/-
C46 spec side: what each junction must deliver, as list predicates, and the decidable /
witness-producing checkers the driver evaluates on the implementation's outputs.  Core Lean only.
-/
namespace GoaktVerif.Spec.C46

/-- `Interleave srcs out`: `out` is obtained by repeatedly taking the head of one of the sources
    until all are exhausted — every source is a subsequence of `out`, in its own order, and `out` is
    their union as a multiset. -/
inductive Interleave {α : Type} : List (List α) → List α → Prop where
  | nil {srcs : List (List α)} : (∀ s ∈ srcs, s = []) → Interleave srcs []
  | cons {srcs : List (List α)} {out : List α} (i : Nat) (x : α) (rest : List α) :
      srcs[i]? = some (x :: rest) → Interleave (srcs.set i rest) out → Interleave srcs (x :: out)

/-- replay a certificate: `w[j]` names the source the j-th output element is taken from -/
def checkWitness {α : Type} [DecidableEq α] : List (List α) → List α → List Nat → Bool
  | srcs, [], [] => srcs.all (·.isEmpty)
  | srcs, x :: out, i :: w =>
    match srcs[i]? with
    | some (y :: rest) => x == y && checkWitness (srcs.set i rest) out w
    | _ => false
  | _, _, _ => false

/-- search for a certificate: frontier of (remaining sources, choices so far), deduplicated by the remaining sources -/
def stepFrontier {α : Type} [DecidableEq α] (x : α) (fr : List (List (List α) × List Nat)) :
    List (List (List α) × List Nat) :=
  let next := fr.flatMap fun (srcs, w) =>
    (List.range srcs.length).filterMap fun i =>
      match srcs[i]? with
      | some (y :: rest) => if x = y then some (srcs.set i rest, i :: w) else none
      | _ => none
  next.foldl (fun acc p => if acc.any (fun q => q.1 == p.1) then acc else acc ++ [p]) []

def findWitness {α : Type} [DecidableEq α] (srcs : List (List α)) (out : List α) : Option (List Nat) :=
  let fin := out.foldl (fun fr x => stepFrontier x fr) [(srcs, [])]
  (fin.find? fun p => p.1.all (·.isEmpty)).map fun p => p.2.reverse

/-- decided by producing a certificate and re-checking it -/
def isInterleaving {α : Type} [DecidableEq α] (srcs : List (List α)) (out : List α) : Bool :=
  match findWitness srcs out with
  | some w => checkWitness srcs out w
  | none => false

/-- Zip: positional tuples up to the shortest source -/
def zipN : List (List Int) → List (List Int)
  | [] => []
  | srcs =>
    let k := (srcs.map List.length).foldl min (srcs.head!.length)
    (List.range k).map fun j => srcs.map fun s => s.getD j 0

/-- Balance round-robin split when every branch always has demand -/
def roundRobin (n : Nat) (src : List Int) : List (List Int) :=
  (List.range n).map fun i => (src.zipIdx.filter fun (_, j) => j % n = i).map (·.1)

/-- Partition by the selector x ↦ x mod m into n branches (selections ≥ n are dropped by contract) -/
def partitionBy (n m : Nat) (src : List Int) : List (List Int) :=
  (List.range n).map fun i => src.filter fun x => (x.emod m).toNat = i

inductive Junction where
  | merge | concat | zip
  | broadcast (n : Nat)
  | balance (n : Nat)
  | partition (n m : Nat)
  deriving Repr, DecidableEq

/-- judge the outputs of the branches (fan-in junctions have one branch): `none` = conforms -/
def judgeJunction (j : Junction) (srcs : List (List Int)) (outs : List (List Int)) (tuples : List (List Int)) : Option String :=
  match j with
  | .merge =>
    if isInterleaving srcs (outs.headD []) then none else some "Merge output is not an interleaving of its sources"
  | .concat =>
    if outs.headD [] = srcs.flatten then none else some "Concat output is not the sources one after another"
  | .zip =>
    if tuples = zipN srcs then none else some "Zip output is not the positional pairing up to the shortest source"
  | .broadcast n =>
    if outs.length = n && outs.all (· == srcs.headD []) then none else some "a Broadcast branch did not get exactly the source's elements"
  | .balance n =>
    if outs.length ≠ n then some "wrong number of branches"
    else if isInterleaving outs (srcs.headD []) then none
    else some "Balance branches do not partition the source (an element went to no branch, to several, or out of order)"
  | .partition n m =>
    if outs = partitionBy n m (srcs.headD []) then none else some "a Partition branch is not the selected sub-list of the source"

end GoaktVerif.Spec.C46

/-
C11 — specification side (oracle) on what an observer of one actor system sees.
-/
namespace GoaktVerif.Spec.C11

/-- a successful spawn must hand back a running actor: token `p<k>r`, never `p<k>s` -/
def resultOK (tok : String) : Bool :=
  !(tok.startsWith "p" && tok.endsWith "s" && ((tok.drop 1).dropEnd 1).toString.toNat?.isSome)

/-- settled state (no call in progress): the actor count equals the number of running user actors -/
def settledOK (numActors live : Nat) : Bool := numActors = live

end GoaktVerif.Spec.C11

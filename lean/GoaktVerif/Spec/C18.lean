/-
C18 spec side: what the dead-letter stream must contain for a history of drop events, and the
decidable checks the judge evaluates on the implementation's output.
-/
import GoaktVerif.Model.C18

namespace GoaktVerif.Spec.C18
open GoaktVerif.Model.C18

def senderOf : Option Addr → Addr
  | some a => a
  | none => noSender

/-- the dead letter a well-formed message of a failed batch must produce -/
def batchDL (m : BatchMsg) : Option DL :=
  match m.receiver, m.payload with
  | some r, some p => some ⟨p, senderOf m.sender, r, .batch⟩
  | _, _ => none

/-- the dead letters one event owes: exactly one per dropped user message, carrying the original
    message, sender and receiver; nothing for control traffic or for wire messages that cannot be interpreted -/
def expectedOf : Ev → List DL
  | .localDrop true .user sd r m c => [⟨m, senderOf sd, r, c⟩]
  | .remoteDrop sd (some r) (some m) c => [⟨m, senderOf sd, r, c⟩]
  | .batchFail ms => ms.filterMap batchDL
  | _ => []

def expected (evs : List Ev) : List DL := evs.flatMap expectedOf

/-- multiset equality of two dead-letter lists (decidable form used by the judge) -/
def sameMultiset (a b : List DL) : Bool :=
  a.length == b.length && a.all (fun d => a.count d == b.count d)

/-- per-receiver tally of a published list -/
def tally (pub : List DL) (r : Addr) : Nat := (pub.filter (fun d => d.receiver == r)).length

end GoaktVerif.Spec.C18

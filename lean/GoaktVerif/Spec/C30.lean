/-
C30 — specification side (oracle): what an observer of the whole cluster may see.
`act` = number of ACTIVE grain instances per node, `reg` = the node named by the registry record,
`maxSeen` = the largest number of simultaneously active instances observed during the run.
-/
namespace GoaktVerif.Spec.C30

def total (act : List Nat) : Nat := act.foldl (· + ·) 0

/-- at most one node holds an active instance -/
def atMostOne (act : List Nat) : Bool := total act ≤ 1

/-- once settled, the registry names the node that holds the instance -/
def named (reg : Option Nat) (act : List Nat) : Bool :=
  (List.range act.length).all fun n => act.getD n 0 = 0 || reg = some n

def okFinal (reg : Option Nat) (act : List Nat) (maxSeen : Nat) : Bool :=
  decide (maxSeen ≤ 1) && atMostOne act && named reg act

end GoaktVerif.Spec.C30

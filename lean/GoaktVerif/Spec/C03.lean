/-
C03 — the reservation-queue specification shared by every Vyukov-style FIFO mailbox of goakt
(intrusive MPSC list, bounded ring, segmented ring; the fair mailbox is a family of them, one per
sender) and the per-sender order oracle evaluated on the implementation's dequeue sequences.

An `Enqueue(m)` is two events: `reserve m` (swap of tail / CAS of enqueuePos / fetch-add of writeIdx:
fixes the position) and later `publish m` (the store that makes the cell visible; Enqueue returns
after it). `deq` pops the head cell iff it is published.  Histories are ARBITRARY lists of these events.
-/
namespace GoaktVerif.Spec.C03

/-- (sender, sequence number) -/
abbrev Msg := Nat × Nat

inductive Cell where
  | pending (m : Msg)
  | ready (m : Msg)
  deriving Repr, DecidableEq

def Cell.msg : Cell → Msg
  | .pending m => m
  | .ready m => m

inductive Ev where
  | reserve (m : Msg)
  | publish (m : Msg)
  | deq
  deriving Repr, DecidableEq

structure St where
  cells : List Cell
  /-- dequeued so far, oldest first -/
  out : List Msg
  deriving Repr, DecidableEq

def St.init : St := { cells := [], out := [] }

def publishCell (m : Msg) (c : Cell) : Cell := if c = .pending m then .ready m else c

def step (s : St) : Ev → St
  | .reserve m => { s with cells := s.cells ++ [.pending m] }
  | .publish m => { s with cells := s.cells.map (publishCell m) }
  | .deq =>
    match s.cells with
    | .ready m :: rest => { cells := rest, out := s.out ++ [m] }
    | _ => s

def run (s : St) (h : List Ev) : St := h.foldl step s

/-- the messages in reservation order -/
def reserves : List Ev → List Msg
  | [] => []
  | .reserve m :: h => m :: reserves h
  | _ :: h => reserves h

/-! ### the fair mailbox: one reservation queue per sender, `deq s` serves sender `s` -/

inductive FEv where
  | reserve (m : Msg)
  | publish (m : Msg)
  | deq (sender : Nat)
  deriving Repr, DecidableEq

structure FSt where
  cells : Nat → List Cell
  out : List Msg

def FSt.init : FSt := { cells := fun _ => [], out := [] }

def fstep (s : FSt) : FEv → FSt
  | .reserve m => { s with cells := fun k => if k = m.1 then s.cells k ++ [.pending m] else s.cells k }
  | .publish m => { s with cells := fun k => if k = m.1 then (s.cells k).map (publishCell m) else s.cells k }
  | .deq k =>
    match s.cells k with
    | .ready m :: rest => { cells := fun j => if j = k then rest else s.cells j, out := s.out ++ [m] }
    | _ => s

def frun (s : FSt) (h : List FEv) : FSt := h.foldl fstep s

def freserves : List FEv → List Msg
  | [] => []
  | .reserve m :: h => m :: freserves h
  | _ :: h => freserves h

/-! ### the oracle -/

/-- sequence numbers of sender `s` in `l`, in order -/
def seqsOf (s : Nat) (l : List Msg) : List Nat := (l.filter (·.1 = s)).map (·.2)

def increasing : List Nat → Bool
  | [] => true
  | [_] => true
  | a :: b :: r => a < b && increasing (b :: r)

def senders (l : List Msg) : List Nat := (l.map (·.1)).eraseDups

/-- every sender's messages appear in strictly increasing sequence order (hence also: no duplicates) -/
def perSenderOrdered (l : List Msg) : Bool := (senders l).all fun s => increasing (seqsOf s l)

/-! ### line-protocol judge (used by Driver/C03) -/

def words (s : String) : List String := (s.splitOn " ").filter (· ≠ "")

def parseMsg (s : String) : Option Msg :=
  match s.splitOn "." with
  | [a, b] => match a.toNat?, b.toNat? with | some a, some b => some (a, b) | _, _ => none
  | _ => none

/-- E3 output `T … | R r,r;r,… | F m m …`: the consumer's dequeues in program order, then the final drain -/
def judgeMb (impl : String) : String :=
  match impl.splitOn " | " with
  | [t, r, f] =>
    if t.endsWith " cap" || t.endsWith "!stuck" then "bad a thread did not finish" else
    let rs := ((r.drop 2).toString.splitOn ";").flatMap fun th => (th.splitOn ",").map fun x => x.trimAscii.toString
    let deqd := rs.filterMap parseMsg
    let fin := (words (f.drop 2).toString).filterMap parseMsg
    let seq := deqd ++ fin
    if perSenderOrdered seq then "ok" else s!"bad per-sender order violated in {seq}"
  | _ => if impl = "bad-case" then "ok" else "bad malformed output"

def judgeConc (impl : String) : String :=
  if impl.startsWith "TIMEOUT" then "ok"      -- inconclusive: loss / wedging is C02/C04's subject, not an order violation
  else match (words impl).mapM parseMsg with
    | some seq => if perSenderOrdered seq then "ok" else "bad per-sender order violated"
    | none => if impl = "bad-case" then "ok" else "bad " ++ impl

def judgeLine (case impl : String) : String :=
  match words ((case.splitOn "|").headD "") with
  | "mb" :: _ => judgeMb impl
  | "conc" :: _ => judgeConc impl
  | _ => "ok"

end GoaktVerif.Spec.C03

/-
C28 spec side.  A request frame is tagged (call, position); a response frame carries the tag of
the request it answers.  "Each caller receives the response to its own request, batch responses in
request order": the responses a successful call returns are exactly its own requests, in order.
-/
namespace GoaktVerif.Spec.C28

abbrev Tag := Nat × Nat

/-- the requests of call `k` with `n` frames -/
def requestsOf (k n : Nat) : List Tag := (List.range n).map fun i => (k, i)

/-- the replies returned to call `k` answer its own `n` requests, in request order -/
def ownReplies (k n : Nat) (replies : List Tag) : Bool := replies == requestsOf k n

end GoaktVerif.Spec.C28

/-
C22 spec side: what "always pick a configured node, round-robin in cyclic order" demands of an
observed output sequence.  Used by the theorems (Props/C22) and by the driver's judge mode.
-/
namespace GoaktVerif.Spec.C22

/-- every index names a configured node -/
def allInRange (n : Nat) (outs : List Nat) : Bool := outs.all (· < n)

/-- consecutive picks advance by one, cyclically -/
def cyclic (n : Nat) : List Nat → Bool
  | a :: b :: rest => (b == (a + 1) % n) && cyclic n (b :: rest)
  | _ => true

def rrOK (n : Nat) (outs : List Nat) : Bool := allInRange n outs && cyclic n outs

end GoaktVerif.Spec.C22

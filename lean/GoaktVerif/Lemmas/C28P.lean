import GoaktVerif.Model.C28
namespace GoaktVerif.C28
open GoaktVerif.Model.C28.Payload

def arrays (s : PSt) : List Nat := s.pool ++ s.owned.map (·.2)

def PInv (s : PSt) : Prop := (arrays s).Nodup ∧ ∀ b ∈ arrays s, b < s.next

theorem inj_of_nodup_map {α β : Type} (f : α → β) (l : List α) (h : (l.map f).Nodup)
    {x y : α} (hx : x ∈ l) (hy : y ∈ l) (hxy : f x = f y) : x = y := by
  induction l with
  | nil => cases hx
  | cons a as ih =>
    simp only [List.map_cons, List.nodup_cons] at h
    simp only [List.mem_cons] at hx hy
    rcases hx with hx | hx <;> rcases hy with hy | hy
    · rw [hx, hy]
    · subst hx; exact absurd (List.mem_map.mpr ⟨y, hy, hxy.symm⟩) h.1
    · subst hy; exact absurd (List.mem_map.mpr ⟨x, hx, hxy⟩) h.1
    · exact ih h.2 hx hy

theorem pinv_init : PInv {} := by simp [PInv, arrays]

theorem pinv_step (s : PSt) (a : PAct) (ha : a.legal = true) (h : PInv s) : PInv (pstep s a) := by
  obtain ⟨h1, h2⟩ := h
  cases a with
  | get call =>
    simp only [pstep]
    split
    · exact ⟨h1, h2⟩
    · split
      · rename_i b rest hp
        simp only [PInv, arrays, hp, List.map_cons] at h1 h2 ⊢
        constructor
        · have : (rest ++ b :: List.map (·.2) s.owned).Perm (b :: rest ++ List.map (·.2) s.owned) := by
            simpa using List.perm_middle (l₁ := rest) (a := b) (l₂ := List.map (·.2) s.owned)
          exact this.nodup_iff.mpr h1
        · intro x hx
          apply h2
          simp only [List.mem_append, List.mem_cons, List.cons_append] at hx ⊢
          rcases hx with hx | hx | hx
          · exact Or.inr (Or.inl hx)
          · exact Or.inl hx
          · exact Or.inr (Or.inr hx)
      · rename_i hp
        simp only [PInv, arrays, hp, List.map_cons, List.nil_append] at h1 h2 ⊢
        constructor
        · rw [List.nodup_cons]
          exact ⟨fun hm => Nat.lt_irrefl _ (h2 _ hm), h1⟩
        · intro x hx
          simp only [List.mem_cons] at hx
          rcases hx with hx | hx
          · omega
          · have := h2 x hx; omega
  | put call =>
    simp only [pstep]
    split
    · rename_i e he
      have hmem : e ∈ s.owned := List.mem_of_find?_eq_some he
      have hcall : (e.1 == call) = true := List.find?_some (p := fun (x : Nat × Nat) => x.1 == call) he
      simp only [PInv, arrays] at h1 h2 ⊢
      have hsub : List.Sublist ((s.owned.filter (fun x => !(x.1 == call))).map (·.2)) (s.owned.map (·.2)) :=
        List.Sublist.map _ List.filter_sublist
      have hnd := List.nodup_append.mp h1
      constructor
      · simp only [List.cons_append, List.nodup_cons]
        constructor
        · intro hm
          rw [List.mem_append] at hm
          rcases hm with hm | hm
          · exact hnd.2.2 e.2 hm e.2 (List.mem_map.mpr ⟨e, hmem, rfl⟩) rfl
          · -- e.2 also belongs to an entry that survived the filter: two entries with the same array
            obtain ⟨x, hx, hxe⟩ := List.mem_map.mp hm
            have hx' := List.mem_filter.mp hx
            have hne : x ≠ e := by
              intro hxe'; subst hxe'; simp [hcall] at hx'
            exact hne (inj_of_nodup_map (·.2) s.owned hnd.2.1 hx'.1 hmem hxe)
        · exact List.nodup_append.mpr ⟨hnd.1, hnd.2.1.sublist hsub, fun a ha b hb => hnd.2.2 a ha b (hsub.subset hb)⟩
      · intro x hx
        apply h2
        simp only [List.cons_append, List.mem_cons, List.mem_append] at hx ⊢
        rcases hx with hx | hx | hx
        · subst hx; exact Or.inr (List.mem_map.mpr ⟨e, hmem, rfl⟩)
        · exact Or.inl hx
        · exact Or.inr (hsub.subset hx)
    · exact ⟨h1, h2⟩
  | putAgain arr => simp [PAct.legal] at ha

theorem pinv_run (acts : List PAct) (s : PSt) (hl : ∀ a ∈ acts, a.legal = true) (h : PInv s) : PInv (prun s acts) := by
  induction acts generalizing s with
  | nil => exact h
  | cons a as ih =>
    exact ih (pstep s a) (fun b hb => hl b (List.mem_cons_of_mem _ hb)) (pinv_step s a (hl a List.mem_cons_self) h)

end GoaktVerif.C28

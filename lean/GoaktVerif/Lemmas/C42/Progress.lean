import GoaktVerif.Lemmas.C42.Inv3

/-!
Progress (non-temporal): from EVERY reachable world a fixed fault-free continuation of five steps — two
consumer-controller ticks, then delivery of the newest RegisterConsumer, RegistrationAck and timeout Request —
makes the producer controller adopt the consumer's confirmation watermark and re-send the oldest message
that is still unconfirmed.  No reachable state is stuck.
-/
namespace GoaktVerif.C42
open GoaktVerif.Model.C42 GoaktVerif.Spec.C42

/-- a tick of the consumer controller: the producer side and the producer→consumer link are untouched, the
    traffic flag is cleared; with the flag already clear the controller re-registers with a fresh nonce -/
theorem tickC_facts (w : World) (hf : w.c.failed = false) :
    let w' := (w.step .tickC).1
    w'.p = w.p ∧ w'.netPC = w.netPC ∧ w'.c.sawValidTraffic = false ∧ w'.c.failed = false ∧
    (w.c.sawValidTraffic = false →
      w'.netCP = w.netCP ++ [.register (w.c.nonceCtr + 1)] ∧ w'.c.nonce = w.c.nonceCtr + 1 ∧ w'.c.hasProducer = true) := by
  simp only [World.step, World.stepC, Consumer.handle, hf, Bool.false_eq_true, if_false]
  refine ⟨trivial, trivial, ?_, ?_, ?_⟩
  · simp [Consumer.handleTick]
  · have : ∀ c : Consumer, ∀ now, (c.handleTick now).1.failed = c.failed := by
      intro c now
      unfold Consumer.handleTick
      simp only []
      split
      · rfl
      · split
        · rfl
        · split
          · unfold Consumer.sendGapRequest; split
            · unfold Consumer.solicitGapRequest Consumer.sendRequest; split <;> rfl
            · rfl
          · rfl
    rw [this]; exact hf
  · intro hs
    simp [Consumer.handleTick, hs, Consumer.register, cpOf]

theorem getLast_snoc {α} (pre : List α) (x : α) : (pre ++ [x])[(pre ++ [x]).length - 1]? = some x := by
  simp

theorem eraseLast_snoc {α} (pre : List α) (x : α) : (pre ++ [x]).eraseIdx ((pre ++ [x]).length - 1) = pre := by
  simp [List.eraseIdx_append_of_length_le]

/-- delivering the newest consumer→producer message when it is a RegisterConsumer -/
theorem deliverCP_register (w : World) (pre : List CMsg) (n : Nat) (hnet : w.netCP = pre ++ [.register n])
    (hf : w.p.failed = false) :
    let w' := (w.step (.deliverCP (w.netCP.length - 1))).1
    w'.c = w.c ∧ w'.netCP = pre ∧ w'.netPC = w.netPC ++ [.regAck w.p.session (w.p.confirmedSeq + 1) n] ∧
    w'.p.registered = true ∧ w'.p.nonce = n ∧ w'.p.session = w.p.session ∧ w'.p.failed = false := by
  simp only [World.step, hnet, getLast_snoc, eraseLast_snoc, World.stepP, Producer.handle, hf, Bool.false_eq_true, if_false]
  unfold Producer.handleRegister
  simp only []
  split
  · simp [pcOf, hf]
  · rename_i h; simp at h; simp [pcOf, hf, h.1, h.2]

/-- delivering the newest producer→consumer message when it is the RegistrationAck of the latest registration -/
theorem deliverPC_regAck (w : World) (pre : List PMsg) (s nx n : Nat) (hnet : w.netPC = pre ++ [.regAck s nx n])
    (hf : w.c.failed = false) (hp : w.c.hasProducer = true) (hn : w.c.nonce = n) (hs : s ≠ 0)
    (hcs : w.c.session = 0 ∨ w.c.session = s) :
    let w' := (w.step (.deliverPC (w.netPC.length - 1))).1
    w'.p = w.p ∧ w'.c.session = s ∧ w'.c.nonce = n ∧ w'.c.window = w.c.window ∧ w'.c.failed = false ∧
    w'.netCP = w.netCP ++ [.request s n w'.c.confirmedSeq (w'.c.confirmedSeq + w.c.window) true] ∧
    w'.c.hasProducer = true ∧ w'.c.requestUpToSeq = w'.c.confirmedSeq + w.c.window := by
  simp only [World.step, hnet, getLast_snoc, eraseLast_snoc, World.stepC, Consumer.handle, hf, Bool.false_eq_true, if_false]
  unfold Consumer.handleRegAck
  simp only [hp, Bool.not_true, Bool.false_eq_true, if_false, hn, bne_self_eq_false]
  rcases hcs with h0 | h1
  · have : (s != w.c.session) = true := by simp [h0]; exact hs
    simp only [this, if_true]
    unfold Consumer.sendRequest
    have e : (s == 0) = false := by simpa using hs
    simp [e, cpOf, hf]
  · have : (s != w.c.session) = false := by simp [h1]
    simp only [this, Bool.false_eq_true, if_false]
    unfold Consumer.sendRequest
    have e : (w.c.session == 0) = false := by rw [h1]; simpa using hs
    simp [cpOf, hf, h1, hs]

theorem advance_fields (p : Producer) (c : Nat) :
    (p.advanceConfirmed c).1.registered = p.registered ∧ (p.advanceConfirmed c).1.session = p.session ∧
    (p.advanceConfirmed c).1.currentSeq = p.currentSeq ∧ (p.advanceConfirmed c).1.failed = p.failed ∧
    (p.advanceConfirmed c).1.confirmedSeq = max p.confirmedSeq c := by
  unfold Producer.advanceConfirmed
  split
  · rename_i h; exact ⟨rfl, rfl, rfl, rfl, by show p.confirmedSeq = _; omega⟩
  · rename_i h; exact ⟨rfl, rfl, rfl, rfl, by show c = _; omega⟩

/-- a timeout Request from the registered consumer controller makes the producer controller adopt the
    consumer's watermark and re-send the oldest message that is still unconfirmed -/
theorem request_resends (p : Producer) (cc win : Nat) (hf : p.failed = false) (hr : p.registered = true) (hpc : PCons p)
    (hle : p.confirmedSeq ≤ cc) (hcur : cc ≤ p.currentSeq) (hw1 : 1 ≤ win) (hw2 : win ≤ maxWindow) :
    (p.handleRequest p.session p.nonce cc (cc + win) true).1.failed = false ∧
    (p.handleRequest p.session p.nonce cc (cc + win) true).1.confirmedSeq = cc ∧
    (p.handleRequest p.session p.nonce cc (cc + win) true).1.session = p.session ∧
    ∀ mm, (p.handleRequest p.session p.nonce cc (cc + win) true).1.unconfirmed.head? = some mm →
      POut.toConsumer (.sequenced p.session mm.id mm.seq mm.payload) ∈ (p.handleRequest p.session p.nonce cc (cc + win) true).2 := by
  unfold Producer.handleRequest
  have hfr : p.fromRegistered p.session p.nonce = true := by simp [Producer.fromRegistered, hr]
  have hleg : (decide (cc > p.currentSeq) || decide (cc + win < cc) || decide (cc + win > cc + maxWindow)) = false := by
    simp; omega
  simp only [hfr, Bool.not_true, Bool.false_eq_true, if_false, hleg, if_true]
  obtain ⟨a1, a2, a3, a4, a5⟩ := advance_fields p cc
  have hp1 := hpc.advance cc hcur
  generalize hp2 : ({ (p.advanceConfirmed cc).1 with demandUpTo := cc + win, windowSpan := cc + win - cc } : Producer) = p2
  have b : p2.registered = true ∧ p2.session = p.session ∧ p2.currentSeq = p.currentSeq ∧ p2.failed = false ∧
      p2.confirmedSeq = cc ∧ p2.demandUpTo = cc + win ∧ p2.unconfirmed = (p.advanceConfirmed cc).1.unconfirmed := by
    subst hp2; exact ⟨a1.trans hr, a2, a3, a4.trans hf, by rw [a5]; omega, rfl, rfl⟩
  obtain ⟨b1, b2, b3, b4, b5, b6, b7⟩ := b
  have hpc2 : PCons p2 := by subst hp2; exact ⟨hp1.consec, hp1.len⟩
  have hallow : p2.allowNextRequest.1.failed = p2.failed ∧ p2.allowNextRequest.1.confirmedSeq = p2.confirmedSeq ∧
      p2.allowNextRequest.1.session = p2.session ∧ p2.allowNextRequest.1.unconfirmed = p2.unconfirmed := by
    rcases allowNext_cases p2 with e | ⟨_, _, e⟩ <;> rw [e] <;> exact ⟨rfl, rfl, rfl, rfl⟩
  refine ⟨by rw [hallow.1, b4], by rw [hallow.2.1, b5], by rw [hallow.2.2.1, b2], ?_⟩
  intro mm hmm
  rw [hallow.2.2.2] at hmm
  apply List.mem_append_left
  apply List.mem_append_right
  -- the head of the unconfirmed buffer is within both limits
  cases hu : p2.unconfirmed with
  | nil => rw [hu] at hmm; cases hmm
  | cons m0 r =>
    rw [hu] at hmm; simp at hmm; subst hmm
    have hc := hpc2.consec; rw [hu] at hc
    have hl := hpc2.len; rw [hu] at hl; simp only [List.length_cons] at hl
    have hseq : m0.seq = cc + 1 := by rw [← b5]; exact hc.1
    unfold Producer.resendUnconfirmed
    rw [hu]
    have : decide (m0.seq ≤ min p2.currentSeq p2.demandUpTo) = true := by simp; omega
    simp only [List.takeWhile_cons, this, if_true, List.flatMap_cons]
    apply List.mem_append_left
    unfold Producer.emitSequenced
    have : (!p2.registered || decide (m0.seq > p2.demandUpTo)) = false := by simp [b1]; omega
    simp [this, b2]

theorem mem_pcOf {x : PMsg} {o : List POut} (h : POut.toConsumer x ∈ o) : x ∈ pcOf o := by
  induction o with
  | nil => cases h
  | cons y ys ih =>
    cases y with
    | toConsumer z =>
      simp [pcOf]
      rcases List.mem_cons.mp h with e | h
      · left; cases e; rfl
      · right; exact ih h
    | toUser z =>
      simp [pcOf]
      rcases List.mem_cons.mp h with e | h
      · cases e
      · exact ih h

/-- delivering the newest consumer→producer message when it is the timeout Request of the current registration -/
theorem deliverCP_request (w : World) (pre : List CMsg) (cc win : Nat)
    (hnet : w.netCP = pre ++ [.request w.p.session w.p.nonce cc (cc + win) true])
    (hf : w.p.failed = false) (hr : w.p.registered = true) (hpc : PCons w.p)
    (hle : w.p.confirmedSeq ≤ cc) (hcur : cc ≤ w.p.currentSeq) (hw1 : 1 ≤ win) (hw2 : win ≤ maxWindow) :
    let w' := (w.step (.deliverCP (w.netCP.length - 1))).1
    w'.c = w.c ∧ w'.p.failed = false ∧ w'.p.confirmedSeq = cc ∧
    (∀ mm, w'.p.unconfirmed.head? = some mm → PMsg.sequenced w'.p.session mm.id mm.seq mm.payload ∈ w'.netPC) ∧
    w'.p.session = w.p.session := by
  have hq := request_resends w.p cc win hf hr hpc hle hcur hw1 hw2
  simp only [World.step, hnet, getLast_snoc, eraseLast_snoc, World.stepP, Producer.handle, hf, Bool.false_eq_true, if_false]
  refine ⟨trivial, hq.1, hq.2.1, ?_, hq.2.2.1⟩
  intro mm hmm
  rw [hq.2.2.1]
  exact List.mem_append_right _ (mem_pcOf (hq.2.2.2 mm hmm))

/-- the recovery continuation -/
def recover (w : World) : World :=
  let w1 := (w.step .tickC).1
  let w2 := (w1.step .tickC).1
  let w3 := (w2.step (.deliverCP (w2.netCP.length - 1))).1
  let w4 := (w3.step (.deliverPC (w3.netPC.length - 1))).1
  (w4.step (.deliverCP (w4.netCP.length - 1))).1

/-- … is a script of five ordinary steps -/
theorem recover_is_script (w : World) : ∃ ss : List Step, ss.length = 5 ∧ (w.run ss).1 = recover w :=
  ⟨[.tickC, .tickC, .deliverCP _, .deliverPC _, .deliverCP _], rfl, rfl⟩

theorem recover_progress (w : World) (m : Mon) (h : Inv w m) (h2 : Inv2 w) (h3 : Inv3 w) :
    (recover w).p.failed = false ∧ (recover w).p.confirmedSeq = (recover w).c.confirmedSeq ∧
    (∀ mm, (recover w).p.unconfirmed.head? = some mm →
      PMsg.sequenced (recover w).p.session mm.id mm.seq mm.payload ∈ (recover w).netPC) ∧
    (recover w).c.hasProducer = true ∧ (recover w).c.session = (recover w).p.session ∧
    (recover w).c.requestUpToSeq = (recover w).c.confirmedSeq + (recover w).c.window := by
  simp only [recover]
  -- world 1 and 2: two ticks
  have t1 := tickC_facts w h.cl.nf
  have i1 := h.step .tickC; have j1 := h2.step h .tickC; have k1 := h3.step h .tickC
  generalize (w.step .tickC).1 = w1 at *
  have t2 := tickC_facts w1 t1.2.2.2.1
  have i2 := i1.step .tickC; have j2 := j1.step i1 .tickC; have k2 := k1.step i1 .tickC
  obtain ⟨t2p, t2n, _, t2f, t2r⟩ := t2
  obtain ⟨t2net, t2nonce, t2hp⟩ := t2r t1.2.2.1
  generalize (w1.step .tickC).1 = w2 at *
  -- world 3: the RegisterConsumer reaches the producer controller
  have r3 := deliverCP_register w2 _ _ t2net j2.u.nf
  have i3 := i2.step (.deliverCP (w2.netCP.length - 1))
  have j3 := j2.step i2 (.deliverCP (w2.netCP.length - 1))
  have k3 := k2.step i2 (.deliverCP (w2.netCP.length - 1))
  obtain ⟨r3c, _, r3net, r3reg, r3nonce, r3sess, r3f⟩ := r3
  generalize (w2.step (.deliverCP (w2.netCP.length - 1))).1 = w3 at *
  -- world 4: the RegistrationAck reaches the consumer controller
  have hcs : w3.c.session = 0 ∨ w3.c.session = w2.p.session := by
    rcases i3.cl.sess with e | e
    · exact Or.inl e
    · exact Or.inr (e.trans r3sess)
  have r4 := deliverPC_regAck w3 _ _ _ _ r3net i3.cl.nf (by rw [r3c]; exact t2hp) (by rw [r3c]; exact t2nonce) i2.pl.sess hcs
  have i4 := i3.step (.deliverPC (w3.netPC.length - 1))
  have j4 := j3.step i3 (.deliverPC (w3.netPC.length - 1))
  have k4 := k3.step i3 (.deliverPC (w3.netPC.length - 1))
  obtain ⟨r4p, r4sess, r4nonce, r4win, r4f, r4net, r4hp, r4up⟩ := r4
  generalize (w3.step (.deliverPC (w3.netPC.length - 1))).1 = w4 at *
  -- world 5: the timeout Request reaches the producer controller
  have e1 : w2.p.session = w4.p.session := by rw [r4p]; exact r3sess.symm
  have e2 : w1.c.nonceCtr + 1 = w4.p.nonce := by rw [r4p]; exact r3nonce.symm
  rw [e1, e2, ← r4win] at r4net
  have hcur : w4.c.confirmedSeq ≤ w4.p.currentSeq := by rw [← i4.pl.len]; exact i4.cl.cle
  have r5 := deliverCP_request w4 _ _ _ r4net j4.u.nf (by rw [r4p]; exact r3reg) k4.pc k4.pcle hcur k4.wpos j4.win
  obtain ⟨r5c, r5f, r5conf, r5head, r5sess⟩ := r5
  exact ⟨r5f, by rw [r5conf, r5c], r5head, by rw [r5c]; exact r4hp, by rw [r5c, r5sess, r4sess, e1],
    by rw [r5c, r4up, r4win]⟩

end GoaktVerif.C42

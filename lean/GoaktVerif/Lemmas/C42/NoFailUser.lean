import GoaktVerif.Lemmas.C42.NoFail

/-! The producer endpoint's reactions keep `UInv` (second half of the non-failure argument). -/
namespace GoaktVerif.C42
open GoaktVerif.Model.C42 GoaktVerif.Spec.C42

variable {p : Producer} {m0 : PUMsg} {rest : List PUMsg} {u : UserP}

/-- the endpoint consumed (or lost) the head of its mailbox -/
theorem UInv.tail (h : UInv p (m0 :: rest) u) : UInv p rest u :=
  ⟨h.nf, h.rest, fun m hm => h.range m (by simp [hm]), (List.pairwise_cons.mp h.sorted).2,
   fun m hm => h.sess m (by simp [hm]), h.idle, h.cred, h.sack, fun s t i q hm => h.stor s t i q (by simp [hm])⟩

/-- a duplicate Produced / StoredAck that the controller ignores -/
theorem produced_dup (h : UInv p (m0 :: rest) u) (t i pl : Nat) (ht : ansTok u = t) (hi : ansId u = i) (h1 : 1 ≤ t) :
    (p.handleProduced p.session t i pl) = (p, []) := by
  unfold Producer.handleProduced
  simp only [bne_self_eq_false, Bool.false_eq_true, if_false]
  cases hh : p.handshake with
  | idle =>
    obtain ⟨a, b, c⟩ := h.idle hh
    have e1 : (t == p.lastToken) = true := by simp; omega
    have e2 : (i == p.lastId) = true := by simp; rw [← hi]; exact c (by omega)
    simp [e1, e2]
  | credit =>
    obtain ⟨a, b, c, d, e⟩ := h.cred hh
    have e1 : (t == p.lastToken) = true := by simp; omega
    have e2 : (i == p.lastId) = true := by simp; rw [← hi]; exact e (by omega)
    simp [e1, e2]
  | storedAck =>
    obtain ⟨a, b, c, d, e, _⟩ := h.sack hh
    have e1 : (t == p.token) = true := by simp; omega
    have e2 : (i == p.pendingId) = true := by simp; rw [← hi]; exact d
    simp [e1, e2]
  | store => exact absurd hh h.rest.1
  | accept => exact absurd hh h.rest.2

/-- the endpoint handles a RequestNext at the head of its mailbox -/
theorem UInv.reactRequestNext {s t : Nat} (h : UInv p (.requestNext s t :: rest) u) :
    ∃ pin, (u.react (.requestNext s t)).2 = some pin ∧
      UInv (p.handle pin).1 (rest ++ puOf (p.handle pin).2) (u.react (.requestNext s t)).1 := by
  have hs : s = p.session := h.sess (.requestNext s t) (by simp)
  obtain ⟨r1, r2, r3⟩ := h.range _ (List.mem_cons_self ..) t rfl
  subst hs
  by_cases hdup : ansTok u = t
  · -- re-answer of the token answered last
    cases ha : u.answered with
    | none => simp [ansTok, ha] at hdup; omega
    | some x =>
      obtain ⟨t', i, pl⟩ := x
      have ht' : t' = t := by simpa [ansTok, ha] using hdup
      subst ht'
      refine ⟨.produced p.session t' i pl, by simp [UserP.react, ha], ?_⟩
      have hu : (u.react (.requestNext p.session t')).1 = u := by simp [UserP.react, ha]
      have hdp := produced_dup h t' i pl hdup (by simp [ansId, ha]) r3
      simp only [Producer.handle, h.nf, Bool.false_eq_true, if_false, hdp, hu, puOf, List.append_nil]
      exact h.tail
  · -- a fresh grant: the controller must be waiting for exactly this token
    have hlt : ansTok u < t := by omega
    have hcred : p.handshake = .credit := by
      cases hh : p.handshake with
      | idle => have := (h.idle hh).1; omega
      | credit => rfl
      | storedAck => have := (h.sack hh).2.2.1; omega
      | store => exact absurd hh h.rest.1
      | accept => exact absurd hh h.rest.2
    obtain ⟨c1, c2, c3, c4, c5⟩ := h.cred hcred
    have htT : t = p.tokenCtr := by omega
    have hreact : u.react (.requestNext p.session t) =
        ({ answered := some (t, u.jobs + 1, payloadOf (u.jobs + 1)), jobs := u.jobs + 1 },
          some (.produced p.session t (u.jobs + 1) (payloadOf (u.jobs + 1)))) := by
      unfold UserP.react
      cases ha : u.answered with
      | none => rfl
      | some x =>
        obtain ⟨t', i, pl⟩ := x
        have : (t' == t) = false := by simp; simp [ansTok, ha] at hdup; exact hdup
        simp [this]
    refine ⟨_, by rw [hreact], ?_⟩
    rw [hreact]
    have hprod : p.handleProduced p.session t (u.jobs + 1) (payloadOf (u.jobs + 1)) = p.completeStore (u.jobs + 1) (payloadOf (u.jobs + 1)) := by
      unfold Producer.handleProduced
      have e1 : (t == p.lastToken) = false := by simp; omega
      have e2 : (t != p.token) = false := by simp; omega
      simp [hcred, e1, e2]
    simp only [Producer.handle, h.nf, Bool.false_eq_true, if_false, hprod, Producer.completeStore, puOf]
    have ht := h.tail
    refine ⟨by first | rfl | exact h.nf, by simp, ?_, ?_, ?_, by simp, by simp, ?_, ?_⟩
    · intro m hm t1 ht1
      rcases List.mem_append.mp hm with hm | hm
      · have hle : TokLe (.requestNext p.session t) m := List.rel_of_pairwise_cons h.sorted hm
        have := hle t t1 rfl ht1
        have r := ht.range m hm t1 ht1
        exact ⟨(show t ≤ t1 from this), r.2.1, r.2.2⟩
      · simp at hm; subst hm; simp [tokOf] at ht1; subst ht1
        exact ⟨(show t ≤ p.token from by omega), (show p.token ≤ p.tokenCtr from by omega), by omega⟩
    · refine List.pairwise_append.mpr ⟨ht.sorted, by simp, ?_⟩
      intro a ha b hb t1 t2 e1 e2
      simp at hb; subst hb; simp [tokOf] at e2; subst e2
      have := (ht.range a ha t1 e1).2.1; omega
    · intro m hm
      rcases List.mem_append.mp hm with hm | hm
      · exact ht.sess m hm
      · simp at hm; subst hm; rfl
    · intro _
      exact ⟨c1, c2, (show t = p.tokenCtr from htT), rfl, c3, ⟨_, rfl⟩⟩
    · intro s' t' i' q' hm
      rcases List.mem_append.mp hm with hm | hm
      · rcases ht.stor s' t' i' q' hm with ⟨_, hsa, _⟩ | hr
        · rw [hcred] at hsa; cases hsa
        · exact Or.inr hr
      · simp at hm; obtain ⟨_, rfl, rfl, _⟩ := hm; exact Or.inl ⟨rfl, rfl, rfl⟩

theorem emit_pu (p : Producer) (m : UMsg) : puOf (p.emitSequenced m) = [] := by
  unfold Producer.emitSequenced; split <;> rfl

/-- the endpoint acknowledges a Stored at the head of its mailbox -/
theorem UInv.reactStored {s t i q : Nat} (h : UInv p (.stored s t i q :: rest) u) :
    UInv (p.handle (.storedAck s t i)).1 (rest ++ puOf (p.handle (.storedAck s t i)).2) u := by
  have hs : s = p.session := h.sess (.stored s t i q) (by simp)
  obtain ⟨r1, r2, r3⟩ := h.range _ (List.mem_cons_self ..) t rfl
  subst hs
  have ht := h.tail
  simp only [Producer.handle, h.nf, Bool.false_eq_true, if_false]
  rcases h.stor _ t i q (List.mem_cons_self ..) with ⟨e1, hsa, e2⟩ | ⟨e1, e2⟩
  · -- the acknowledgement the controller is waiting for
    obtain ⟨k1, k2, k3, k4, k5, _⟩ := h.sack hsa
    have hacc : p.handleStoredAck p.session t i = Producer.completeAccept { p with handshake := .accept, storedMessage := none } := by
      unfold Producer.handleStoredAck
      simp [hsa, e1, e2]
    rw [hacc]
    unfold Producer.completeAccept
    simp only [puOf_append, emit_pu, List.nil_append]
    apply UInv.allow
    refine ⟨h.nf, by simp [Producer.resetHandshake], ?_, ht.sorted, ht.sess, ?_, by simp [Producer.resetHandshake], by simp [Producer.resetHandshake], ?_⟩
    · exact ht.range
    · intro _
      exact ⟨(show ansTok u = p.tokenCtr from k3), (show p.token = p.tokenCtr from k1), fun _ => (show ansId u = p.pendingId from k4)⟩
    · intro s' t' i' q' hm
      right
      rcases ht.stor s' t' i' q' hm with ⟨a, _, b⟩ | ⟨a, b⟩
      · exact ⟨a, b⟩
      · have := (ht.range _ hm t' rfl).1
        exact absurd a (by omega)
  · -- a late duplicate of a completed handshake
    have hdup : p.handleStoredAck p.session t i = (p, []) := by
      unfold Producer.handleStoredAck
      have e3 : (t == p.lastToken) = true := by simp [e1]
      have e4 : (i == p.lastId) = true := by simp [e2]
      have e5 : (p.handshake == HS.accept) = false := by
        cases hh : p.handshake <;> simp
        exact absurd hh h.rest.2
      have e6 : (p.handshake == HS.storedAck && t == p.token && i == p.pendingId) = false := by
        cases hh : p.handshake <;> simp
        intro ht'
        have := (h.sack hh).2.2.2.2.1
        have := (h.sack hh).1
        omega
      simp [e3, e4, e5, e6]
    rw [hdup]
    simpa [puOf] using ht

end GoaktVerif.C42

import GoaktVerif.Model.C42
import GoaktVerif.Spec.C42

/-!
Producer-controller half of the C42/C43 invariant: facts about `Producer.handle` alone, against an
abstract stored log and an abstract bound `R` (the consumer controller's requestUpToSeq).
-/
namespace GoaktVerif.C42
open GoaktVerif.Model.C42 GoaktVerif.Spec.C42

theorem mem_dropWhile {α} (f : α → Bool) (l : List α) (x : α) (h : x ∈ l.dropWhile f) : x ∈ l :=
  (List.dropWhile_sublist f).mem h

theorem mem_takeWhile {α} (f : α → Bool) (l : List α) (x : α) (h : x ∈ l.takeWhile f) : x ∈ l :=
  (List.takeWhile_sublist f).mem h

/-- a stored-log entry as the triple carried by messages -/
abbrev InLog (stored : List UMsg) (id seq pl : Nat) : Prop := (⟨id, seq, pl⟩ : UMsg) ∈ stored

/-- the log is indexed by sequence: the k-th stored message has sequence k -/
def Indexed (stored : List UMsg) : Prop := ∀ i m, stored[i]? = some m → m.seq = i + 1

/-- producer controller against the stored log -/
structure PLoc (p : Producer) (stored : List UMsg) : Prop where
  sess : p.session ≠ 0
  idx : Indexed stored
  len : stored.length = p.currentSeq
  pay : ∀ m ∈ stored, m.payload = payloadOf m.id
  unc : ∀ m ∈ p.unconfirmed, m ∈ stored
  pend : p.handshake = .storedAck → InLog stored p.pendingId p.pendingSeq p.pendingPayload
  stmsg : ∀ x, p.storedMessage = some x → ∃ s t i q, x = .stored s t i q ∧ q ≤ p.currentSeq

/-- producer controller against the demand the consumer controller has granted so far (`R`) -/
structure PDem (p : Producer) (R : Nat) : Prop where
  dem : p.demandUpTo ≤ R
  cur : p.currentSeq ≤ R
  cred : p.handshake = .credit → p.currentSeq < R

/-- the ghost log entry a handler call adds (same expression as in `World.stepP`) -/
def newStored (p p' : Producer) (m : PIn) : List UMsg :=
  if p'.currentSeq > p.currentSeq then
    (match m with | .produced _ _ i pl => [⟨i, p'.currentSeq, pl⟩] | _ => []) else []

/-- what the link invariants demand of one output of the producer controller -/
def POutOK (p' : Producer) (stored' : List UMsg) (R : Nat) : POut → Prop
  | .toConsumer (.sequenced s i q pl) => s = p'.session ∧ InLog stored' i q pl ∧ q ≤ R
  | .toConsumer (.regAck s nx _) => s = p'.session ∧ nx = p'.confirmedSeq + 1
  | .toUser (.stored _ _ _ q) => q ≤ p'.currentSeq
  | _ => True

/-- what an incoming message must satisfy (guaranteed by the link invariants) -/
def PInOK (R : Nat) : PIn → Prop
  | .fromConsumer (.request _ _ _ u _) => u ≤ R
  | .produced _ _ i pl => pl = payloadOf i
  | _ => True

theorem Mon.step_sent_ok (m : Mon) (q : Nat) (h : q ≤ m.maxReq) : m.step (.sent q) = m := by
  simp [Mon.step, h]

theorem Mon.step_stored_old (m : Mon) (i q : Nat) (h : q ≤ m.ids.length) : m.step (.stored i q) = m := by
  have : (q == m.ids.length + 1) = false := by simp; omega
  simp [Mon.step, this]

theorem Mon.step_stored_new (m : Mon) (i q : Nat) (h : q = m.ids.length + 1) :
    m.step (.stored i q) = { m with ids := m.ids ++ [i] } := by
  simp [Mon.step, h]

/-- the post-condition every producer-controller handler call establishes -/
structure PPost (p : Producer) (stored : List UMsg) (R : Nat) (pin : PIn) (p' : Producer) (o : List POut) : Prop where
  loc : PLoc p' (stored ++ newStored p p' pin)
  dem : PDem p' R
  outs : ∀ x ∈ o, POutOK p' (stored ++ newStored p p' pin) R x
  sess : p'.session = p.session
  conf : p'.confirmedSeq = p.confirmedSeq ∨ (∃ s n c u v, pin = .fromConsumer (.request s n c u v)) ∨
    (∃ s n c, pin = .fromConsumer (.ack s n c))
  mon : ∀ m : Mon, m.ids = stored.map (·.id) → m.maxReq = R →
    m.run (obsOfP o) = { m with ids := (stored ++ newStored p p' pin).map (·.id) }

theorem newStored_same (p p' : Producer) (pin : PIn) (h : p'.currentSeq = p.currentSeq) : newStored p p' pin = [] := by
  simp [newStored, h]

/-- a handler call that changes nothing and sends nothing -/
theorem PPost.noop (p : Producer) (stored : List UMsg) (R : Nat) (pin : PIn) (hL : PLoc p stored) (hD : PDem p R) :
    PPost p stored R pin p [] := by
  have hs : newStored p p pin = [] := newStored_same _ _ _ rfl
  refine ⟨by simpa [hs] using hL, hD, by simp, rfl, Or.inl rfl, ?_⟩
  intro m h1 _
  simp [hs, obsOfP, Mon.run, ← h1]

/-- `terminate` -/
theorem PPost.terminate (p : Producer) (stored : List UMsg) (R : Nat) (pin : PIn) (hL : PLoc p stored) (hD : PDem p R) :
    PPost p stored R pin p.terminate.1 p.terminate.2 := by
  have hs : newStored p p.terminate.1 pin = [] := newStored_same _ _ _ rfl
  refine ⟨?_, ⟨hD.dem, hD.cur, hD.cred⟩, by simp [Producer.terminate], rfl, Or.inl rfl, ?_⟩
  · rw [hs]; simp only [List.append_nil]
    exact ⟨hL.sess, hL.idx, hL.len, hL.pay, hL.unc, hL.pend, hL.stmsg⟩
  · intro m h1 _
    rw [hs]
    simp [Producer.terminate, obsOfP, Mon.run, ← h1]

theorem PPost.tick (p : Producer) (stored : List UMsg) (R : Nat) (hL : PLoc p stored) (hD : PDem p R) :
    PPost p stored R .tick p.handleTick.1 p.handleTick.2 := by
  have hp : p.handleTick.1 = p := by unfold Producer.handleTick; split <;> rfl
  have hs : newStored p p.handleTick.1 .tick = [] := newStored_same _ _ _ (by rw [hp])
  rw [hp] at hs ⊢
  refine ⟨by simpa [hs] using hL, hD, ?_, rfl, Or.inl rfl, ?_⟩
  · intro x hx
    unfold Producer.handleTick at hx
    split at hx
    · simp at hx; subst hx; trivial
    · split at hx
      · rename_i m hm
        obtain ⟨s, t, i, q, rfl, hq⟩ := hL.stmsg _ hm
        simp at hx; subst hx; exact hq
      · simp at hx
    · simp at hx
  · intro m h1 _
    rw [hs]
    have hlen : m.ids.length = p.currentSeq := by rw [h1, List.length_map, hL.len]
    unfold Producer.handleTick
    split
    · simp [obsOfP, Mon.run, ← h1]
    · split
      · rename_i x hm
        obtain ⟨s, t, i, q, rfl, hq⟩ := hL.stmsg _ hm
        simp only [obsOfP, Mon.run]
        rw [Mon.step_stored_old _ _ _ (by omega)]
        simp [← h1]
      · simp [obsOfP, Mon.run, ← h1]
    · simp [obsOfP, Mon.run, ← h1]

theorem PPost.register (p : Producer) (stored : List UMsg) (R : Nat) (n : Nat) (hL : PLoc p stored) (hD : PDem p R) :
    PPost p stored R (.fromConsumer (.register n)) (p.handleRegister n).1 (p.handleRegister n).2 := by
  have hc : (p.handleRegister n).1.currentSeq = p.currentSeq := by unfold Producer.handleRegister; split <;> rfl
  have hs := newStored_same p (p.handleRegister n).1 (.fromConsumer (.register n)) hc
  refine ⟨?_, ?_, ?_, ?_, ?_, ?_⟩
  · rw [hs]; simp only [List.append_nil]
    unfold Producer.handleRegister
    split <;> exact ⟨hL.sess, hL.idx, hL.len, hL.pay, hL.unc, hL.pend, hL.stmsg⟩
  · unfold Producer.handleRegister
    split
    · exact ⟨Nat.le_trans (Nat.min_le_left _ _) hD.dem, hD.cur, hD.cred⟩
    · exact hD
  · intro x hx
    unfold Producer.handleRegister at hx ⊢
    simp at hx; subst hx
    split <;> simp_all [POutOK]
  · unfold Producer.handleRegister; split <;> rfl
  · left; unfold Producer.handleRegister; split <;> rfl
  · intro m h1 _
    rw [hs]
    unfold Producer.handleRegister
    simp [obsOfP, Mon.run, ← h1]

theorem obsOfP_append (a b : List POut) : obsOfP (a ++ b) = obsOfP a ++ obsOfP b := by
  induction a with
  | nil => rfl
  | cons x xs ih =>
    cases x with
    | toConsumer m => cases m <;> simp [obsOfP, ih]
    | toUser m => cases m <;> simp [obsOfP, ih]

theorem Mon.run_append (m : Mon) (a b : List Obs) : m.run (a ++ b) = (m.run a).run b := by
  induction a generalizing m with
  | nil => rfl
  | cons x xs ih => simp [Mon.run, ih]

/-- outputs that leave the monitor unchanged: no `Stored`, every SequencedMessage within `R` -/
def QuietP (R : Nat) : POut → Prop
  | .toUser (.stored _ _ _ _) => False
  | .toConsumer (.sequenced _ _ q _) => q ≤ R
  | _ => True

theorem Mon.run_quiet (m : Mon) (o : List POut) (h : ∀ x ∈ o, QuietP m.maxReq x) : m.run (obsOfP o) = m := by
  induction o with
  | nil => rfl
  | cons x xs ih =>
    have hx := h x (by simp)
    have ih := ih (fun y hy => h y (by simp [hy]))
    cases x with
    | toConsumer c =>
      cases c with
      | regAck => simpa [obsOfP] using ih
      | sequenced s i q pl =>
        simp only [obsOfP, Mon.run]
        rw [Mon.step_sent_ok _ _ hx]; exact ih
    | toUser u =>
      cases u with
      | stored => exact absurd hx (by simp [QuietP])
      | requestNext => simpa [obsOfP] using ih
      | deliveryConfirmed => simpa [obsOfP] using ih

/-- the post-condition for handlers that store nothing: the log and the monitor stay as they are -/
theorem PPost.of_quiet (p : Producer) (stored : List UMsg) (R : Nat) (pin : PIn) (p' : Producer) (o : List POut)
    (hc : p'.currentSeq = p.currentSeq) (hL : PLoc p' stored) (hD : PDem p' R)
    (ho : ∀ x ∈ o, POutOK p' stored R x ∧ QuietP R x) (hs : p'.session = p.session)
    (hconf : p'.confirmedSeq = p.confirmedSeq ∨ (∃ s n c u v, pin = .fromConsumer (.request s n c u v)) ∨
      (∃ s n c, pin = .fromConsumer (.ack s n c))) :
    PPost p stored R pin p' o := by
  have hns := newStored_same p p' pin hc
  refine ⟨by simpa [hns] using hL, hD, ?_, hs, hconf, ?_⟩
  · intro x hx; rw [hns]; simpa using (ho x hx).1
  · intro m h1 h2
    rw [hns, Mon.run_quiet _ _ (fun x hx => h2 ▸ (ho x hx).2)]
    simp [← h1]

theorem advanceConfirmed_outs (p : Producer) (c : Nat) :
    ∀ x ∈ (p.advanceConfirmed c).2, ∃ s i q, x = POut.toUser (.deliveryConfirmed s i q) := by
  intro x hx
  unfold Producer.advanceConfirmed Producer.confirmations at hx
  split at hx
  · simp at hx
  · split at hx
    · simp only [List.mem_map] at hx
      obtain ⟨m, _, rfl⟩ := hx
      exact ⟨_, _, _, rfl⟩
    · simp at hx

theorem advanceConfirmed_loc (p : Producer) (c : Nat) (stored : List UMsg) (hL : PLoc p stored) :
    PLoc (p.advanceConfirmed c).1 stored := by
  unfold Producer.advanceConfirmed
  split
  · exact hL
  · exact ⟨hL.sess, hL.idx, hL.len, hL.pay, fun m hm => hL.unc m (mem_dropWhile _ _ _ hm), hL.pend, hL.stmsg⟩

theorem advanceConfirmed_dem (p : Producer) (c : Nat) (R : Nat) (hD : PDem p R) : PDem (p.advanceConfirmed c).1 R := by
  unfold Producer.advanceConfirmed
  split
  · exact hD
  · exact ⟨hD.dem, hD.cur, hD.cred⟩

theorem PPost.ack (p : Producer) (stored : List UMsg) (R : Nat) (s n c : Nat) (hL : PLoc p stored) (hD : PDem p R) :
    PPost p stored R (.fromConsumer (.ack s n c)) (p.handleAck s n c).1 (p.handleAck s n c).2 := by
  unfold Producer.handleAck
  split
  · exact PPost.noop _ _ _ _ hL hD
  · split
    · exact PPost.terminate _ _ _ _ hL hD
    · apply PPost.of_quiet
      · unfold Producer.advanceConfirmed; split <;> rfl
      · exact advanceConfirmed_loc _ _ _ hL
      · exact advanceConfirmed_dem _ _ _ hD
      · intro x hx
        obtain ⟨_, _, _, rfl⟩ := advanceConfirmed_outs _ _ x hx
        exact ⟨trivial, trivial⟩
      · unfold Producer.advanceConfirmed; split <;> rfl
      · right; right; exact ⟨_, _, _, rfl⟩

/-- every message `resendUnconfirmed` emits is an unconfirmed entry within the granted demand -/
theorem resend_outs (p : Producer) :
    ∀ x ∈ p.resendUnconfirmed, ∃ m ∈ p.unconfirmed,
      x = POut.toConsumer (.sequenced p.session m.id m.seq m.payload) ∧ m.seq ≤ p.demandUpTo := by
  intro x hx
  unfold Producer.resendUnconfirmed at hx
  simp only [List.mem_flatMap] at hx
  obtain ⟨m, hm, hx⟩ := hx
  unfold Producer.emitSequenced at hx
  split at hx
  · simp at hx
  · rename_i h
    simp at hx
    simp at h
    exact ⟨m, mem_takeWhile _ _ _ hm, hx, by omega⟩

theorem allowNext_cases (p : Producer) :
    (p.allowNextRequest = (p, [])) ∨
    (p.handshake = .idle ∧ p.currentSeq < p.demandUpTo ∧
      p.allowNextRequest = ({ p with handshake := .credit, token := p.tokenCtr + 1, tokenCtr := p.tokenCtr + 1 },
        [.toUser (.requestNext p.session (p.tokenCtr + 1))])) := by
  unfold Producer.allowNextRequest
  split
  · left; rfl
  · rename_i h
    right
    simp at h
    exact ⟨h.1, h.2, rfl⟩

theorem PPost.request (p : Producer) (stored : List UMsg) (R : Nat) (s n c u : Nat) (v : Bool)
    (hL : PLoc p stored) (hD : PDem p R) (hu : u ≤ R) :
    PPost p stored R (.fromConsumer (.request s n c u v)) (p.handleRequest s n c u v).1 (p.handleRequest s n c u v).2 := by
  unfold Producer.handleRequest
  split
  · exact PPost.noop _ _ _ _ hL hD
  · split
    · exact PPost.terminate _ _ _ _ hL hD
    · -- name the intermediate states
      generalize hp1 : p.advanceConfirmed c = r1
      obtain ⟨p1, o1⟩ := r1
      have hL1 : PLoc p1 stored := by have := advanceConfirmed_loc p c stored hL; rwa [hp1] at this
      have hD1 : PDem p1 R := by have := advanceConfirmed_dem p c R hD; rwa [hp1] at this
      have ho1 := advanceConfirmed_outs p c; rw [hp1] at ho1
      have hc1 : p1.currentSeq = p.currentSeq := by
        have : (p.advanceConfirmed c).1.currentSeq = p.currentSeq := by unfold Producer.advanceConfirmed; split <;> rfl
        rwa [hp1] at this
      have hs1 : p1.session = p.session := by
        have : (p.advanceConfirmed c).1.session = p.session := by unfold Producer.advanceConfirmed; split <;> rfl
        rwa [hp1] at this
      simp only []
      generalize hp2 : ({ p1 with demandUpTo := u, windowSpan := u - c } : Producer) = p2
      have hL2 : PLoc p2 stored := by subst hp2; exact ⟨hL1.sess, hL1.idx, hL1.len, hL1.pay, hL1.unc, hL1.pend, hL1.stmsg⟩
      have hD2 : p2.demandUpTo = u := by subst hp2; rfl
      have hc2 : p2.currentSeq = p.currentSeq := by subst hp2; exact hc1
      have hs2 : p2.session = p.session := by subst hp2; exact hs1
      have hh2 : p2.handshake = p1.handshake := by subst hp2; rfl
      have hres : ∀ x ∈ (if v then p2.resendUnconfirmed else []), POutOK p2 stored R x ∧ QuietP R x := by
        intro x hx
        split at hx
        · obtain ⟨m, hm, rfl, hq⟩ := resend_outs p2 x hx
          exact ⟨⟨rfl, hL2.unc m hm, by omega⟩, by simp only [QuietP]; omega⟩
        · simp at hx
      rcases allowNext_cases p2 with h3 | ⟨hi, hlt, h3⟩
      · rw [h3]
        apply PPost.of_quiet _ _ _ _ _ _ hc2 hL2 ⟨by omega, by rw [hc2]; exact hD.cur, fun h => by have := hD1.cred (hh2 ▸ h); omega⟩
        · intro x hx
          simp only [List.append_nil, List.mem_append] at hx
          rcases hx with hx | hx
          · obtain ⟨_, _, _, rfl⟩ := ho1 x hx; exact ⟨trivial, trivial⟩
          · exact hres x hx
        · exact hs2
        · right; left; exact ⟨_, _, _, _, _, rfl⟩
      · rw [h3]
        apply PPost.of_quiet
        · exact hc2
        · exact ⟨hL2.sess, hL2.idx, hL2.len, hL2.pay, hL2.unc, by simp, hL2.stmsg⟩
        · exact ⟨by simp only; omega, by simp only; rw [hc2]; exact hD.cur, fun _ => by simp only; omega⟩
        · intro x hx
          simp only [List.mem_append, List.mem_singleton] at hx
          rcases hx with (hx | hx) | hx
          · obtain ⟨_, _, _, rfl⟩ := ho1 x hx; exact ⟨trivial, trivial⟩
          · have := hres x hx
            exact ⟨by cases x with
                | toConsumer m => cases m <;> exact this.1
                | toUser m => cases m <;> exact this.1, this.2⟩
          · subst hx; exact ⟨trivial, trivial⟩
        · exact hs2
        · right; left; exact ⟨_, _, _, _, _, rfl⟩

theorem Indexed.snoc (stored : List UMsg) (e : UMsg) (h : Indexed stored) (he : e.seq = stored.length + 1) :
    Indexed (stored ++ [e]) := by
  intro i m hm
  by_cases hi : i < stored.length
  · rw [List.getElem?_append_left hi] at hm; exact h i m hm
  · rw [List.getElem?_append_right (by omega)] at hm
    by_cases h0 : i - stored.length = 0
    · rw [h0] at hm; simp at hm; subst hm; omega
    · have : ([e] : List UMsg)[i - stored.length]? = none := by
        apply List.getElem?_eq_none; simp; omega
      rw [this] at hm; cases hm

theorem PPost.produced (p : Producer) (stored : List UMsg) (R : Nat) (s t i pl : Nat)
    (hL : PLoc p stored) (hD : PDem p R) (hpl : pl = payloadOf i) :
    PPost p stored R (.produced s t i pl) (p.handleProduced s t i pl).1 (p.handleProduced s t i pl).2 := by
  unfold Producer.handleProduced
  split
  · exact PPost.noop _ _ _ _ hL hD
  split
  · exact PPost.noop _ _ _ _ hL hD
  split
  · exact PPost.noop _ _ _ _ hL hD
  split
  · exact PPost.terminate _ _ _ _ hL hD
  split
  · exact PPost.terminate _ _ _ _ hL hD
  rename_i _ _ _ hcred _
  have hcred : p.handshake = .credit := by simpa using hcred
  have hns : newStored p (p.completeStore i pl).1 (.produced s t i pl) = [⟨i, p.currentSeq + 1, pl⟩] := by
    simp [newStored, Producer.completeStore]
  refine ⟨?_, ?_, ?_, rfl, Or.inl rfl, ?_⟩
  · rw [hns]
    simp only [Producer.completeStore]
    refine ⟨hL.sess, Indexed.snoc _ _ hL.idx (by simp [hL.len]), by simp [hL.len], ?_, ?_, ?_, ?_⟩
    · intro m hm
      simp only [List.mem_append, List.mem_singleton] at hm
      rcases hm with hm | rfl
      · exact hL.pay m hm
      · exact hpl
    · intro m hm
      simp only [List.mem_append, List.mem_singleton] at hm ⊢
      rcases hm with hm | rfl
      · exact Or.inl (hL.unc m hm)
      · exact Or.inr rfl
    · intro _; simp [InLog]
    · intro x hx; simp at hx; subst hx; exact ⟨_, _, _, _, rfl, Nat.le_refl _⟩
  · exact ⟨hD.dem, hD.cred hcred, by simp [Producer.completeStore]⟩
  · intro x hx
    simp [Producer.completeStore] at hx; subst hx
    simp [POutOK, Producer.completeStore]
  · intro m h1 _
    rw [hns]
    simp only [Producer.completeStore, obsOfP, Mon.run]
    rw [Mon.step_stored_new _ _ _ (by rw [h1, List.length_map, hL.len])]
    simp [h1]

theorem PPost.storedAck (p : Producer) (stored : List UMsg) (R : Nat) (s t i : Nat)
    (hL : PLoc p stored) (hD : PDem p R) :
    PPost p stored R (.storedAck s t i) (p.handleStoredAck s t i).1 (p.handleStoredAck s t i).2 := by
  unfold Producer.handleStoredAck
  split
  · exact PPost.noop _ _ _ _ hL hD
  split
  · rename_i _ hc
    have hsa : p.handshake = .storedAck := by simp at hc; exact hc.1.1
    unfold Producer.completeAccept
    simp only []
    generalize hp1 : (Producer.resetHandshake { p with handshake := .accept, storedMessage := none, lastToken := p.token, lastId := p.pendingId }) = p1
    have e1 : p1.session = p.session ∧ p1.currentSeq = p.currentSeq ∧ p1.unconfirmed = p.unconfirmed ∧ p1.handshake = .idle
        ∧ p1.storedMessage = none ∧ p1.demandUpTo = p.demandUpTo ∧ p1.confirmedSeq = p.confirmedSeq := by
      subst hp1; simp [Producer.resetHandshake]
    obtain ⟨e1s, e1c, e1u, e1h, e1m, e1d, e1f⟩ := e1
    have hL1 : PLoc p1 stored := ⟨e1s ▸ hL.sess, hL.idx, e1c ▸ hL.len, hL.pay, e1u ▸ hL.unc, by simp [e1h], by simp [e1m]⟩
    have hemit : ∀ x ∈ Producer.emitSequenced { p with handshake := .accept, storedMessage := none } ⟨p.pendingId, p.pendingSeq, p.pendingPayload⟩,
        ∀ p' : Producer, p'.session = p.session → POutOK p' stored R x ∧ QuietP R x := by
      intro x hx p' hp'
      unfold Producer.emitSequenced at hx
      split at hx
      · simp at hx
      · rename_i h
        simp at h hx
        subst hx
        exact ⟨⟨hp'.symm, hL.pend hsa, by have := hD.dem; omega⟩, by simp only [QuietP]; have := hD.dem; omega⟩
    rcases allowNext_cases p1 with h3 | ⟨hi, hlt, h3⟩
    · rw [h3]
      apply PPost.of_quiet _ _ _ _ _ _ e1c hL1 ⟨e1d ▸ hD.dem, e1c ▸ hD.cur, by simp [e1h]⟩
      · intro x hx
        simp only [List.append_nil] at hx
        exact hemit x hx p1 e1s
      · exact e1s
      · exact Or.inl e1f
    · rw [h3]
      apply PPost.of_quiet
      · exact e1c
      · exact ⟨hL1.sess, hL1.idx, hL1.len, hL1.pay, hL1.unc, by simp, hL1.stmsg⟩
      · exact ⟨by simp only; rw [e1d]; exact hD.dem, by simp only; rw [e1c]; exact hD.cur,
          fun _ => by simp only; have := hD.dem; omega⟩
      · intro x hx
        simp only [List.mem_append, List.mem_singleton] at hx
        rcases hx with hx | hx
        · exact hemit x hx _ e1s
        · subst hx; exact ⟨trivial, trivial⟩
      · exact e1s
      · exact Or.inl e1f
  split
  · exact PPost.noop _ _ _ _ hL hD
  split
  · exact PPost.noop _ _ _ _ hL hD
  · exact PPost.terminate _ _ _ _ hL hD

/-- every producer-controller handler call re-establishes the producer half of the invariant -/
theorem PPost.handle (p : Producer) (stored : List UMsg) (R : Nat) (pin : PIn)
    (hL : PLoc p stored) (hD : PDem p R) (hin : PInOK R pin) :
    PPost p stored R pin (p.handle pin).1 (p.handle pin).2 := by
  unfold Producer.handle
  split
  · exact PPost.noop _ _ _ _ hL hD
  · split
    · exact PPost.register _ _ _ _ hL hD
    · exact PPost.request _ _ _ _ _ _ _ _ hL hD hin
    · exact PPost.ack _ _ _ _ _ _ hL hD
    · exact PPost.produced _ _ _ _ _ _ _ hL hD hin
    · exact PPost.storedAck _ _ _ _ _ _ hL hD
    · exact PPost.tick _ _ _ hL hD

end GoaktVerif.C42

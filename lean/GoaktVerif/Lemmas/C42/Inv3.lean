import GoaktVerif.Lemmas.C42.Consec
import GoaktVerif.Lemmas.C42.NoFailWorld

/-! World level: contiguous unconfirmed buffer, and the producer never believes more confirmed than the consumer confirmed. -/
namespace GoaktVerif.C42
open GoaktVerif.Model.C42 GoaktVerif.Spec.C42

/-- the confirmation watermark only moves to a value carried by a Request / Ack -/
theorem handle_conf_le (p : Producer) (pin : PIn) (B : Nat) (hB : p.confirmedSeq ≤ B)
    (hreq : ∀ s n c u v, pin = .fromConsumer (.request s n c u v) → c ≤ B)
    (hack : ∀ s n c, pin = .fromConsumer (.ack s n c) → c ≤ B) :
    (p.handle pin).1.confirmedSeq ≤ B := by
  have hadv : ∀ c, c ≤ B → (p.advanceConfirmed c).1.confirmedSeq ≤ B := by
    intro c hc; unfold Producer.advanceConfirmed; split
    · exact hB
    · exact hc
  unfold Producer.handle
  split
  · exact hB
  · split
    · unfold Producer.handleRegister; split <;> exact hB
    · rename_i s n c u v
      unfold Producer.handleRequest
      split; · exact hB
      split; · exact hB
      simp only []
      have := hadv c (hreq s n c u v rfl)
      rcases allowNext_cases { (p.advanceConfirmed c).1 with demandUpTo := u, windowSpan := u - c } with e | ⟨_, _, e⟩ <;> rw [e] <;> exact this
    · rename_i s n c
      unfold Producer.handleAck
      split; · exact hB
      split; · exact hB
      exact hadv c (hack s n c rfl)
    · unfold Producer.handleProduced Producer.terminate Producer.completeStore
      repeat' split
      all_goals exact hB
    · unfold Producer.handleStoredAck Producer.terminate
      split; · exact hB
      split
      · unfold Producer.completeAccept
        simp only []
        rcases allowNext_cases (Producer.resetHandshake { p with handshake := .accept, storedMessage := none, lastToken := p.token, lastId := p.pendingId }) with e | ⟨_, _, e⟩ <;> rw [e] <;> exact hB
      split; · exact hB
      split; · exact hB
      exact hB
    · unfold Producer.handleTick; split <;> exact hB

structure Inv3 (w : World) : Prop where
  pc : PCons w.p
  pcle : w.p.confirmedSeq ≤ w.c.confirmedSeq
  wpos : 1 ≤ w.c.window

theorem Inv3.stepP {w : World} (h3 : Inv3 w) (pin : PIn)
    (hreq : ∀ s n c u v, pin = .fromConsumer (.request s n c u v) → c ≤ w.c.confirmedSeq)
    (hack : ∀ s n c, pin = .fromConsumer (.ack s n c) → c ≤ w.c.confirmedSeq) : Inv3 (w.stepP pin).1 :=
  ⟨h3.pc.handle pin, handle_conf_le w.p pin _ h3.pcle hreq hack, h3.wpos⟩

theorem Inv3.stepC {w : World} {m : Mon} (h : Inv w m) (h3 : Inv3 w) (cin : CIn) (hin : CInOK w.stored w.p.session w.c cin) :
    Inv3 (w.stepC cin).1 := by
  have hc := CPost.handle h.logOK h.pl.sess h.cl h.cm cin w.now hin
  exact ⟨h3.pc, Nat.le_trans h3.pcle hc.cmono, by show 1 ≤ (w.c.handle cin w.now).1.window; rw [hc.wnd]; exact h3.wpos⟩

theorem net_conf {w : World} {m : Mon} (h : Inv w m) (x : CMsg) (hx : x ∈ w.netCP) :
    (∀ s n c u v, PIn.fromConsumer x = .fromConsumer (.request s n c u v) → c ≤ w.c.confirmedSeq) ∧
    (∀ s n c, PIn.fromConsumer x = .fromConsumer (.ack s n c) → c ≤ w.c.confirmedSeq) := by
  have := h.netCP x hx
  constructor
  · intro s n c u v e; cases e; exact this.2.2.1
  · intro s n c e; cases e; exact this.2

theorem notNet (pin : PIn) (h : (∃ a b c d, pin = .produced a b c d) ∨ (∃ a b c, pin = .storedAck a b c) ∨ pin = .tick) (B : Nat) :
    (∀ s n c u v, pin = .fromConsumer (.request s n c u v) → c ≤ B) ∧ (∀ s n c, pin = .fromConsumer (.ack s n c) → c ≤ B) := by
  constructor
  · intro s n c u v e; rcases h with ⟨_, _, _, _, rfl⟩ | ⟨_, _, _, rfl⟩ | rfl <;> cases e
  · intro s n c e; rcases h with ⟨_, _, _, _, rfl⟩ | ⟨_, _, _, rfl⟩ | rfl <;> cases e

theorem Inv3.step {w : World} {m : Mon} (h : Inv w m) (h3 : Inv3 w) (s : Step) : Inv3 (w.step s).1 := by
  cases s with
  | deliverPC i =>
    simp only [World.step]
    split
    · rename_i x hx
      have h1 : Inv { w with netPC := w.netPC.eraseIdx i } m :=
        h.shrink _ rfl rfl rfl h.user (fun y hy => mem_eraseIdx hy) (fun _ h => h) (fun _ h => h)
      exact Inv3.stepC h1 ⟨h3.pc, h3.pcle, h3.wpos⟩ (.fromProducer x) (CInOK.ofNet h x (mem_of_getElem? hx))
    · exact h3
  | dupPC i =>
    simp only [World.step]
    split
    · rename_i x hx
      exact Inv3.stepC h h3 (.fromProducer x) (CInOK.ofNet h x (mem_of_getElem? hx))
    · exact h3
  | dropPC i => exact ⟨h3.pc, h3.pcle, h3.wpos⟩
  | deliverCP i =>
    simp only [World.step]
    split
    · rename_i x hx
      have hn := net_conf h x (mem_of_getElem? hx)
      exact Inv3.stepP (w := { w with netCP := w.netCP.eraseIdx i }) ⟨h3.pc, h3.pcle, h3.wpos⟩ _ hn.1 hn.2
    · exact h3
  | dupCP i =>
    simp only [World.step]
    split
    · rename_i x hx
      have hn := net_conf h x (mem_of_getElem? hx)
      exact h3.stepP _ hn.1 hn.2
    · exact h3
  | dropCP i => exact ⟨h3.pc, h3.pcle, h3.wpos⟩
  | tickP =>
    have hn := notNet .tick (Or.inr (Or.inr rfl)) w.c.confirmedSeq
    exact h3.stepP _ hn.1 hn.2
  | tickC => exact Inv3.stepC h h3 .tick trivial
  | userP =>
    simp only [World.step]
    split
    · exact h3
    · rename_i m0 rest hin
      split
      · rename_i pin hp
        have hk : (∃ a b c d, pin = .produced a b c d) ∨ (∃ a b c, pin = .storedAck a b c) ∨ pin = .tick := by
          cases m0 with
          | requestNext s t =>
            simp only [UserP.react] at hp
            split at hp
            · split at hp <;> (simp at hp; exact Or.inl ⟨_, _, _, _, hp.symm⟩)
            · simp at hp; exact Or.inl ⟨_, _, _, _, hp.symm⟩
          | stored s t i q => simp [UserP.react] at hp; exact Or.inr (Or.inl ⟨_, _, _, hp.symm⟩)
          | deliveryConfirmed s i q => simp [UserP.react] at hp
        have hn := notNet pin hk w.c.confirmedSeq
        exact Inv3.stepP (w := { w with inboxP := rest, userP := (w.userP.react m0).1 }) ⟨h3.pc, h3.pcle, h3.wpos⟩ _ hn.1 hn.2
      · exact ⟨h3.pc, h3.pcle, h3.wpos⟩
  | userPDrop => exact ⟨h3.pc, h3.pcle, h3.wpos⟩
  | userC confirm =>
    simp only [World.step]
    split
    · exact h3
    · rename_i d rest hin
      have hd := h.inboxC d (by rw [hin]; simp)
      split
      · have h1 : Inv { w with inboxC := rest, confirmedByUser := w.confirmedByUser ++ [d.seq] } m :=
          h.shrink _ rfl rfl rfl h.user (fun _ h => h) (fun _ h => h) (fun y hy => by rw [hin]; simp [hy])
        exact Inv3.stepC h1 ⟨h3.pc, h3.pcle, h3.wpos⟩ (.confirmed d.session d.id d.seq) ⟨⟨_, hd.1⟩, hd.2.1⟩
      · exact ⟨h3.pc, h3.pcle, h3.wpos⟩
  | userCDrop => exact ⟨h3.pc, h3.pcle, h3.wpos⟩
  | time t => exact ⟨h3.pc, h3.pcle, h3.wpos⟩

theorem Inv3.init (window interval : Nat) (dc : Bool) (hw : 1 ≤ window) : Inv3 (World.init window interval dc) :=
  ⟨⟨trivial, rfl⟩, Nat.le_refl _, hw⟩

/-- all invariants along a run -/
theorem run_inv3 (w : World) (m : Mon) (ss : List Step) (h : Inv w m) (h2 : Inv2 w) (h3 : Inv3 w) :
    ∃ m', Inv (w.run ss).1 m' ∧ Inv2 (w.run ss).1 ∧ Inv3 (w.run ss).1 := by
  induction ss generalizing w m with
  | nil => exact ⟨m, h, h2, h3⟩
  | cons s ss ih => simp only [World.run]; exact ih _ _ (h.step s) (h2.step h s) (h3.step h s)

end GoaktVerif.C42

import GoaktVerif.Lemmas.C42.Progress

/-!
"Eventually confirmed" in the reachability form: from every reachable world there EXISTS a finite continuation
without drops, duplications or producer-endpoint activity after which every message the producer controller has
stored is confirmed (its unconfirmed buffer is empty, confirmedSeq = currentSeq).
The continuation repeats a round — `recover`, deliver the re-sent oldest unconfirmed message, tick (re-tell
the in-flight Delivery), let the consumer endpoint work through its mailbox — and each round raises the consumer
controller's confirmation watermark; induction on currentSeq − consumer confirmedSeq.
-/
namespace GoaktVerif.C42
open GoaktVerif.Model.C42 GoaktVerif.Spec.C42

/-- all invariants of a reachable world -/
structure Good (w : World) : Prop where
  inv : ∃ m, Inv w m
  i2 : Inv2 w
  i3 : Inv3 w

theorem Good.step {w : World} (g : Good w) (s : Step) : Good (w.step s).1 := by
  obtain ⟨m, h⟩ := g.inv
  exact ⟨⟨_, h.step s⟩, g.i2.step h s, g.i3.step h s⟩

theorem Good.run {w : World} (g : Good w) (ss : List Step) : Good (w.run ss).1 := by
  induction ss generalizing w with
  | nil => exact g
  | cons s ss ih => simp only [World.run]; exact ih (g.step s)

theorem run_append (w : World) (a b : List Step) : (w.run (a ++ b)).1 = ((w.run a).1.run b).1 := by
  induction a generalizing w with
  | nil => rfl
  | cons s ss ih => simp only [List.cons_append, World.run]; exact ih _

/-- steps of the consumer side and of the links never touch the producer controller's stored sequence -/
def quiet : Step → Bool
  | .userP => false
  | _ => true

theorem handle_cur (p : Producer) (pin : PIn) (h : ∀ s t i pl, pin ≠ .produced s t i pl) :
    (p.handle pin).1.currentSeq = p.currentSeq := by
  unfold Producer.handle
  split
  · rfl
  · split
    · unfold Producer.handleRegister; split <;> rfl
    · rename_i s n c u v
      unfold Producer.handleRequest
      split; · rfl
      split; · rfl
      simp only []
      have := (advance_fields p c).2.2.1
      rcases allowNext_cases { (p.advanceConfirmed c).1 with demandUpTo := u, windowSpan := u - c } with e | ⟨_, _, e⟩ <;> rw [e] <;> exact this
    · rename_i s n c
      unfold Producer.handleAck
      split; · rfl
      split; · rfl
      exact (advance_fields p c).2.2.1
    · rename_i s t i pl; exact absurd rfl (h s t i pl)
    · unfold Producer.handleStoredAck Producer.terminate
      split; · rfl
      split
      · unfold Producer.completeAccept
        simp only []
        rcases allowNext_cases (Producer.resetHandshake { p with handshake := .accept, storedMessage := none, lastToken := p.token, lastId := p.pendingId }) with e | ⟨_, _, e⟩ <;> rw [e] <;> rfl
      split; · rfl
      split; · rfl
      rfl
    · unfold Producer.handleTick; split <;> rfl

theorem step_cur (w : World) (s : Step) (hq : quiet s = true) : (w.step s).1.p.currentSeq = w.p.currentSeq := by
  cases s with
  | userP => cases hq
  | deliverCP i =>
    simp only [World.step]; split
    · rename_i x _; exact handle_cur _ (.fromConsumer x) (by intro _ _ _ _ e; cases e)
    · rfl
  | dupCP i =>
    simp only [World.step]; split
    · rename_i x _; exact handle_cur _ (.fromConsumer x) (by intro _ _ _ _ e; cases e)
    · rfl
  | tickP => exact handle_cur _ .tick (by intro _ _ _ _ e; cases e)
  | deliverPC i => simp only [World.step]; split <;> rfl
  | dupPC i => simp only [World.step]; split <;> rfl
  | userC c =>
    simp only [World.step]; split
    · rfl
    · split <;> rfl
  | dropPC i => rfl
  | dropCP i => rfl
  | tickC => rfl
  | userPDrop => rfl
  | userCDrop => rfl
  | time t => rfl

theorem run_cur (w : World) (ss : List Step) (hq : ss.all quiet = true) : (w.run ss).1.p.currentSeq = w.p.currentSeq := by
  induction ss generalizing w with
  | nil => rfl
  | cons s ss ih =>
    simp only [List.all_cons, Bool.and_eq_true] at hq
    simp only [World.run]
    rw [ih _ hq.2, step_cur w s hq.1]

/-- the consumer controller's confirmation watermark never goes back -/
theorem step_conf_mono {w : World} (g : Good w) (s : Step) : w.c.confirmedSeq ≤ (w.step s).1.c.confirmedSeq := by
  obtain ⟨m, h⟩ := g.inv
  have hC : ∀ (w0 : World) (m0 : Mon), Inv w0 m0 → ∀ cin, CInOK w0.stored w0.p.session w0.c cin →
      w0.c.confirmedSeq ≤ (w0.stepC cin).1.c.confirmedSeq := by
    intro w0 m0 h0 cin hin
    exact (CPost.handle h0.logOK h0.pl.sess h0.cl h0.cm cin w0.now hin).cmono
  cases s with
  | deliverPC i =>
    simp only [World.step]; split
    · rename_i x hx
      have h1 : Inv { w with netPC := w.netPC.eraseIdx i } m :=
        h.shrink _ rfl rfl rfl h.user (fun y hy => mem_eraseIdx hy) (fun _ h => h) (fun _ h => h)
      exact hC _ m h1 (.fromProducer x) (CInOK.ofNet h x (mem_of_getElem? hx))
    · exact Nat.le_refl _
  | dupPC i =>
    simp only [World.step]; split
    · rename_i x hx; exact hC _ m h (.fromProducer x) (CInOK.ofNet h x (mem_of_getElem? hx))
    · exact Nat.le_refl _
  | tickC => exact hC _ m h .tick trivial
  | userC confirm =>
    simp only [World.step]; split
    · exact Nat.le_refl _
    · rename_i d rest hin
      have hd := h.inboxC d (by rw [hin]; simp)
      split
      · have h1 : Inv { w with inboxC := rest, confirmedByUser := w.confirmedByUser ++ [d.seq] } m :=
          h.shrink _ rfl rfl rfl h.user (fun _ h => h) (fun _ h => h) (fun y hy => by rw [hin]; simp [hy])
        exact hC _ m h1 (.confirmed d.session d.id d.seq) ⟨⟨_, hd.1⟩, hd.2.1⟩
      · exact Nat.le_refl _
  | deliverCP i => simp only [World.step]; split <;> exact Nat.le_refl _
  | dupCP i => simp only [World.step]; split <;> exact Nat.le_refl _
  | userP =>
    simp only [World.step]; split
    · exact Nat.le_refl _
    · split <;> exact Nat.le_refl _
  | dropPC i => exact Nat.le_refl _
  | dropCP i => exact Nat.le_refl _
  | tickP => exact Nat.le_refl _
  | userPDrop => exact Nat.le_refl _
  | userCDrop => exact Nat.le_refl _
  | time t => exact Nat.le_refl _

theorem run_conf_mono {w : World} (g : Good w) (ss : List Step) : w.c.confirmedSeq ≤ (w.run ss).1.c.confirmedSeq := by
  induction ss generalizing w with
  | nil => exact Nat.le_refl _
  | cons s ss ih => simp only [World.run]; exact Nat.le_trans (step_conf_mono g s) (ih (g.step s))

/-- delivering the re-sent oldest unconfirmed message: it is (or already was) handed to the endpoint -/
theorem deliver_head (w : World) (i s id q pl : Nat) (hx : w.netPC[i]? = some (.sequenced s id q pl))
    (hf : w.c.failed = false) (hp : w.c.hasProducer = true) (hs : w.c.session = s) (hs0 : s ≠ 0)
    (hq : q = w.c.confirmedSeq + 1) (hu : q ≤ w.c.requestUpToSeq) (hce : w.c.expectedSeq = w.c.confirmedSeq + 1)
    (hinfl : ∀ d, w.c.inFlight = some d → d.seq = w.c.expectedSeq ∧ d.session = w.c.session) :
    (∃ d, (w.step (.deliverPC i)).1.c.inFlight = some d ∧ d.seq = q ∧ d.session = (w.step (.deliverPC i)).1.c.session) ∧
    (w.step (.deliverPC i)).1.c.sawValidTraffic = true ∧ (w.step (.deliverPC i)).1.c.session = s ∧
    (w.step (.deliverPC i)).1.c.failed = false := by
  have e0 : (w.c.session == 0) = false := by rw [hs]; simpa using hs0
  have e1 : (s != w.c.session) = false := by simp [hs]
  have e2 : (decide (q < 1) || decide (q > w.c.requestUpToSeq)) = false := by simp; omega
  have e3 : decide (q < w.c.expectedSeq) = false := by simp; omega
  have e3' : ¬ q < w.c.expectedSeq := by omega
  simp only [World.step, hx, World.stepC, Consumer.handle, hf, Bool.false_eq_true, if_false]
  unfold Consumer.handleSequenced
  simp only [hp, Bool.not_true, Bool.false_eq_true, if_false, e0, e1, Bool.or_self, e2, e3]
  cases hin : w.c.inFlight with
  | none =>
    have : (q == w.c.expectedSeq) = true := by simp; omega
    simp [this, hin, Consumer.deliver, hf, hs, e3']
  | some d =>
    have hd := hinfl d hin
    have hqd : q = d.seq := by omega
    simp only [hin, Option.isNone_some, Bool.and_false, Bool.false_eq_true, if_false, e3', decide_false]
    simp [Consumer.isInFlightSeq, hqd, hf, hd.2, hs]

/-- a tick with traffic seen and a Delivery in flight re-tells it -/
theorem tick_retell (w : World) (d : Delivery) (hf : w.c.failed = false) (hs0 : w.c.session ≠ 0)
    (hsaw : w.c.sawValidTraffic = true) (hin : w.c.inFlight = some d) :
    (w.step .tickC).1.inboxC = w.inboxC ++ [d] ∧ (w.step .tickC).1.c.inFlight = some d ∧
    (w.step .tickC).1.c.session = w.c.session := by
  have e0 : (w.c.session == 0) = false := by simpa using hs0
  simp [World.step, World.stepC, Consumer.handle, hf, Consumer.handleTick, e0, hsaw, hin, cuOf]

theorem sendRequest_conf (c : Consumer) (v : Bool) : (c.sendRequest v).1.confirmedSeq = c.confirmedSeq := by
  unfold Consumer.sendRequest; split <;> rfl

theorem drain_conf (c : Consumer) : c.drain.1.confirmedSeq = c.confirmedSeq := by
  unfold Consumer.drain
  split
  · split
    · rfl
    · rfl
  · rfl

theorem batch_conf (c : Consumer) : c.batchConfirmation.1.confirmedSeq = c.confirmedSeq := by
  unfold Consumer.batchConfirmation
  split
  · exact sendRequest_conf _ _
  · split <;> rfl

/-- a Confirmed that matches the in-flight Delivery moves the watermark to its sequence -/
theorem confirmed_match (c : Consumer) (d : Delivery) (now : Nat) (hin : c.inFlight = some d) (hs : d.session = c.session) :
    (c.handleConfirmed d.session d.id d.seq now).1.confirmedSeq = d.seq := by
  unfold Consumer.handleConfirmed
  simp only [hin, hs, bne_self_eq_false, Bool.or_self, Bool.false_eq_true, if_false]
  split
  · unfold Consumer.solicitGapRequest
    rw [sendRequest_conf]
    simp only []
    rw [drain_conf, batch_conf]; rfl
  · simp only []
    rw [drain_conf, batch_conf]; rfl

/-- any other Confirmed is ignored -/
theorem confirmed_other (c : Consumer) (d : Delivery) (s i q now : Nat) (hin : c.inFlight = some d)
    (hne : ¬(s = c.session ∧ i = d.id ∧ q = d.seq)) : c.handleConfirmed s i q now = (c, []) := by
  unfold Consumer.handleConfirmed
  simp only [hin]
  have : (s != c.session || i != d.id || q != d.seq) = true := by
    simp only [Bool.or_eq_true, bne_iff_ne, ne_eq]
    by_cases h1 : s = c.session
    · by_cases h2 : i = d.id
      · right; intro h3; exact hne ⟨h1, h2, h3⟩
      · left; right; exact h2
    · left; left; exact h1
  simp [this]

/-- the consumer endpoint works through its mailbox until the in-flight Delivery (the last entry) is confirmed -/
theorem drain_inbox (pre : List Delivery) : ∀ (w : World), Good w → ∀ d, w.inboxC = pre ++ [d] → w.c.inFlight = some d →
    d.session = w.c.session →
    ∃ cont : List Step, cont.all quiet = true ∧ d.seq ≤ (w.run cont).1.c.confirmedSeq := by
  induction pre with
  | nil =>
    intro w g d hin hinf hds
    refine ⟨[.userC true], rfl, ?_⟩
    obtain ⟨m, h⟩ := g.inv
    simp only [World.run, World.step, hin, List.nil_append, World.stepC, Consumer.handle, h.cl.nf, Bool.false_eq_true, if_false, if_true]
    rw [confirmed_match w.c d w.now hinf hds]; exact Nat.le_refl _
  | cons x pre' ih =>
    intro w g d hin hinf hds
    obtain ⟨m, h⟩ := g.inv
    by_cases hm : x.session = w.c.session ∧ x.id = d.id ∧ x.seq = d.seq
    · refine ⟨[.userC true], rfl, ?_⟩
      simp only [World.run, World.step, hin, List.cons_append, World.stepC, Consumer.handle, h.cl.nf, Bool.false_eq_true, if_false, if_true]
      have := confirmed_match w.c d w.now hinf hds
      rw [hm.1, hm.2.1, hm.2.2, ← hds, this]; exact Nat.le_refl _
    · have hno := confirmed_other w.c d x.session x.id x.seq w.now hinf hm
      have g1 := g.step (.userC true)
      have hstep : (w.step (.userC true)).1.c = w.c ∧ (w.step (.userC true)).1.inboxC = pre' ++ [d] := by
        simp only [World.step, hin, List.cons_append, World.stepC, Consumer.handle, h.cl.nf, Bool.false_eq_true, if_false, if_true, hno, cuOf, List.append_nil]
        exact ⟨trivial, trivial⟩
      obtain ⟨cont, hq, hc⟩ := ih _ g1 d hstep.2 (by rw [hstep.1]; exact hinf) (by rw [hstep.1]; exact hds)
      exact ⟨.userC true :: cont, by simp [quiet, hq], by simpa [World.run] using hc⟩

theorem recover_script_quiet (w : World) : ∃ ss : List Step, ss.all quiet = true ∧ (w.run ss).1 = recover w :=
  ⟨[.tickC, .tickC, .deliverCP _, .deliverPC _, .deliverCP _], rfl, rfl⟩

/-- what "everything stored is confirmed" means for the producer controller -/
def AllConfirmed (w0 w' : World) : Prop :=
  w'.p.currentSeq = w0.p.currentSeq ∧ w'.p.confirmedSeq = w'.p.currentSeq ∧ w'.p.unconfirmed = [] ∧ w'.p.failed = false

theorem PCons.empty_of_eq {p : Producer} (h : PCons p) (e : p.confirmedSeq = p.currentSeq) : p.unconfirmed = [] := by
  have := h.len
  cases hu : p.unconfirmed with
  | nil => rfl
  | cons a r => rw [hu] at this; simp at this; omega

/-- from every world satisfying the invariants there is a finite quiet continuation (no drop, no duplicate, no
    producer-endpoint activity) after which every stored message is confirmed -/
theorem eventually_confirmed (n : Nat) : ∀ (w : World), Good w → w.p.currentSeq - w.c.confirmedSeq ≤ n →
    ∃ cont : List Step, cont.all quiet = true ∧ AllConfirmed w (w.run cont).1 := by
  induction n with
  | zero =>
    intro w g hn
    obtain ⟨ss, hq, hr⟩ := recover_script_quiet w
    obtain ⟨m, h⟩ := g.inv
    obtain ⟨rf, rc, _, _, _, _⟩ := recover_progress w m h g.i2 g.i3
    have g5 := g.run ss
    have hcur := run_cur w ss hq
    have hmono := run_conf_mono g ss
    rw [hr] at g5 hcur hmono
    obtain ⟨m5, h5⟩ := g5.inv
    have hle : (recover w).c.confirmedSeq ≤ (recover w).p.currentSeq := by rw [← h5.pl.len]; exact h5.cl.cle
    have hcle : w.c.confirmedSeq ≤ w.p.currentSeq := by rw [← h.pl.len]; exact h.cl.cle
    refine ⟨ss, hq, ?_⟩
    rw [hr]
    have e : (recover w).p.confirmedSeq = (recover w).p.currentSeq := by omega
    exact ⟨hcur, e, g5.i3.pc.empty_of_eq e, rf⟩
  | succ n ih =>
    intro w g hn
    obtain ⟨ss, hq, hr⟩ := recover_script_quiet w
    obtain ⟨m, h⟩ := g.inv
    obtain ⟨rf, rc, rhead, rhp, rsess, rup⟩ := recover_progress w m h g.i2 g.i3
    have g5 := g.run ss
    have hcur := run_cur w ss hq
    have hmono := run_conf_mono g ss
    rw [hr] at g5 hcur hmono
    generalize hw5 : recover w = w5 at *
    obtain ⟨m5, h5⟩ := g5.inv
    by_cases hdone : w5.p.confirmedSeq = w5.p.currentSeq
    · exact ⟨ss, hq, by rw [hr]; exact ⟨hcur, hdone, g5.i3.pc.empty_of_eq hdone, rf⟩⟩
    · -- the oldest unconfirmed message has sequence confirmedSeq + 1 and was re-sent
      have hlen := g5.i3.pc.len
      cases hu : w5.p.unconfirmed with
      | nil => rw [hu] at hlen; simp at hlen; exact absurd hlen hdone
      | cons mm rest =>
        have hcons := g5.i3.pc.consec; rw [hu] at hcons
        have hmem := rhead mm (by rw [hu]; rfl)
        obtain ⟨i, hi⟩ := List.getElem?_of_mem hmem
        have hs0 : w5.p.session ≠ 0 := h5.pl.sess
        have hinfl : ∀ d, w5.c.inFlight = some d → d.seq = w5.c.expectedSeq ∧ d.session = w5.c.session :=
          fun d hd => ⟨(h5.cl.infl d hd).2.2, (h5.cl.infl d hd).2.1⟩
        have hwpos := g5.i3.wpos
        have r1 := deliver_head w5 i _ _ _ _ hi h5.cl.nf rhp rsess hs0 (by rw [hcons.1, rc]) (by rw [hcons.1, rc, rup]; omega) h5.cl.ce hinfl
        have g6 := g5.step (.deliverPC i)
        have hcur6 := step_cur w5 (.deliverPC i) rfl
        have hmono6 := step_conf_mono g5 (.deliverPC i)
        generalize hw6 : (w5.step (.deliverPC i)).1 = w6 at *
        obtain ⟨⟨d, hd, hdq, hds⟩, hsaw, hsess6, hf6⟩ := r1
        have r2 := tick_retell w6 d hf6 (by rw [hsess6]; exact hs0) hsaw hd
        have g7 := g6.step .tickC
        have hcur7 := step_cur w6 .tickC rfl
        have hmono7 := step_conf_mono g6 .tickC
        generalize hw7 : (w6.step .tickC).1 = w7 at *
        obtain ⟨r2in, r2inf, r2s⟩ := r2
        obtain ⟨c3, hq3, hc3⟩ := drain_inbox w6.inboxC w7 g7 d r2in r2inf (by rw [r2s]; exact hds)
        have g8 := g7.run c3
        have hcur8 := run_cur w7 c3 hq3
        -- the measure went down: apply the induction hypothesis
        have hmeasure : (w7.run c3).1.p.currentSeq - (w7.run c3).1.c.confirmedSeq ≤ n := by
          have hcle : w.c.confirmedSeq ≤ w.p.currentSeq := by rw [← h.pl.len]; exact h.cl.cle
          rw [hcur8, hcur7, hcur6, hcur]
          have : mm.seq = w5.c.confirmedSeq + 1 := by rw [hcons.1, rc]
          omega
        obtain ⟨c4, hq4, hall⟩ := ih _ g8 hmeasure
        refine ⟨ss ++ ([.deliverPC i, .tickC] ++ (c3 ++ c4)), by simp [hq, hq3, hq4, quiet], ?_⟩
        have hrun : (w.run (ss ++ ([.deliverPC i, .tickC] ++ (c3 ++ c4)))).1 = ((w7.run c3).1.run c4).1 := by
          rw [run_append, hr, run_append, run_append]
          simp only [World.run, hw6, hw7]
        rw [hrun]
        obtain ⟨a1, a2, a3, a4⟩ := hall
        exact ⟨by rw [a1, hcur8, hcur7, hcur6, hcur], a2, a3, a4⟩

end GoaktVerif.C42

import GoaktVerif.Lemmas.C42.Consumer

/-!
The global inductive invariant behind C42 (order, gaps, payloads) and C43 (demand, window), and its
preservation by every step of `World.step` — i.e. by every drop / duplicate / reorder / tick / endpoint
decision, in any order and number.
-/
namespace GoaktVerif.C42
open GoaktVerif.Model.C42 GoaktVerif.Spec.C42

/-- a message in flight from the producer controller to the consumer controller -/
def NetPCOK (w : World) : PMsg → Prop
  | .sequenced s i q pl => s = w.p.session ∧ InLog w.stored i q pl
  | .regAck s nx _ => s = w.p.session ∧ (w.c.session = 0 → nx = 1)

structure Inv (w : World) (m : Mon) : Prop where
  pl : PLoc w.p w.stored
  pd : PDem w.p w.c.requestUpToSeq
  cl : CLoc w.c w.stored w.p.session
  cm : CMon w.c w.stored m
  dm : m.okDemand = true
  user : ∀ t i pl, w.userP.answered = some (t, i, pl) → pl = payloadOf i
  netPC : ∀ x ∈ w.netPC, NetPCOK w x
  netCP : ∀ x ∈ w.netCP, COutOK w.c w.stored (.toProducer x)
  inboxC : ∀ d ∈ w.inboxC, COutOK w.c w.stored (.toUser d)
  fresh : w.c.session = 0 → w.p.confirmedSeq = 0

theorem Inv.logOK {w : World} {m : Mon} (h : Inv w m) : LogOK w.stored := ⟨h.pl.idx, h.pl.pay⟩

theorem Inv.ok {w : World} {m : Mon} (h : Inv w m) : m.ok = true := by
  simp [Mon.ok, h.cm.ord, h.dm, h.cm.win]

/-- what the world guarantees about a message handed to the producer controller -/
def PInW (w : World) (pin : PIn) : Prop :=
  PInOK w.c.requestUpToSeq pin ∧
  ((∃ s n c u v, pin = .fromConsumer (.request s n c u v)) ∨ (∃ s n c, pin = .fromConsumer (.ack s n c)) → w.c.session ≠ 0)

theorem CLoc.mono_log {c : Consumer} {stored st : List UMsg} {psess : Nat} (h : CLoc c stored psess) :
    CLoc c (stored ++ st) psess :=
  ⟨h.sess, h.fresh, fun b hb => List.mem_append_left _ (h.buf b hb), h.buflen,
    fun d hd => ⟨List.mem_append_left _ (h.infl d hd).1, (h.infl d hd).2⟩, h.win, h.ce, h.nf,
    by rw [List.length_append]; exact Nat.le_trans h.cle (Nat.le_add_right _ _)⟩

theorem COutOK.mono_log {c : Consumer} {stored st : List UMsg} {x : COut} (h : COutOK c stored x) :
    COutOK c (stored ++ st) x := by
  cases x with
  | toProducer m => cases m <;> exact h
  | toUser d => exact ⟨List.mem_append_left _ h.1, h.2⟩

/-- a producer-controller handler run inside the world keeps the invariant -/
theorem Inv.stepP {w : World} {m : Mon} (h : Inv w m) (pin : PIn) (hin : PInW w pin) :
    Inv (w.stepP pin).1 (m.run (obsOfP (w.stepP pin).2)) := by
  have hp := PPost.handle w.p w.stored w.c.requestUpToSeq pin h.pl h.pd hin.1
  have hns : (w.stepP pin).1.stored = w.stored ++ newStored w.p (w.p.handle pin).1 pin := rfl
  have hmon := hp.mon m h.cm.ids h.cm.req
  have hconf : w.c.session = 0 → (w.p.handle pin).1.confirmedSeq = 0 := by
    intro h0
    rcases hp.conf with e | e | e
    · rw [e]; exact h.fresh h0
    · exact absurd h0 (hin.2 (Or.inl e))
    · exact absurd h0 (hin.2 (Or.inr e))
  show Inv (w.stepP pin).1 (m.run (obsOfP (w.p.handle pin).2))
  rw [hmon]
  refine ⟨hp.loc, hp.dem, ?_, ?_, h.dm, h.user, ?_, ?_, ?_, hconf⟩
  · show CLoc w.c (w.stored ++ _) (w.p.handle pin).1.session
    rw [hp.sess]; exact h.cl.mono_log
  · exact ⟨rfl, h.cm.infl, h.cm.idle, h.cm.req, h.cm.ord, h.cm.win⟩
  · intro x hx
    have hx : x ∈ w.netPC ++ pcOf (w.p.handle pin).2 := hx
    rcases List.mem_append.mp hx with hx | hx
    · have := h.netPC x hx
      cases x with
      | sequenced s i q pl => exact ⟨by rw [this.1]; exact hp.sess.symm, List.mem_append_left _ this.2⟩
      | regAck s nx n => exact ⟨by rw [this.1]; exact hp.sess.symm, this.2⟩
    · have hmem : POut.toConsumer x ∈ (w.p.handle pin).2 := by
        generalize (w.p.handle pin).2 = o at hx
        induction o with
        | nil => simp [pcOf] at hx
        | cons y ys ih =>
          cases y with
          | toConsumer z => simp [pcOf] at hx; rcases hx with rfl | hx <;> simp [*]
          | toUser z => simp [pcOf] at hx; simp [ih hx]
      have := hp.outs _ hmem
      cases x with
      | sequenced s i q pl => exact ⟨this.1, this.2.1⟩
      | regAck s nx n => exact ⟨this.1, fun h0 => by rw [this.2, hconf h0]⟩
  · intro x hx; exact (h.netCP x hx).mono_log
  · intro d hd; exact (h.inboxC d hd).mono_log

theorem mem_cpOf {x : CMsg} {o : List COut} (h : x ∈ cpOf o) : COut.toProducer x ∈ o := by
  induction o with
  | nil => simp [cpOf] at h
  | cons y ys ih =>
    cases y with
    | toProducer z => simp [cpOf] at h; rcases h with rfl | h <;> simp [*]
    | toUser z => simp [cpOf] at h; simp [ih h]

theorem mem_cuOf {d : Delivery} {o : List COut} (h : d ∈ cuOf o) : COut.toUser d ∈ o := by
  induction o with
  | nil => simp [cuOf] at h
  | cons y ys ih =>
    cases y with
    | toProducer z => simp [cuOf] at h; simp [ih h]
    | toUser z => simp [cuOf] at h; rcases h with rfl | h <;> simp [*]

/-- a consumer-controller handler run inside the world keeps the invariant -/
theorem Inv.stepC {w : World} {m : Mon} (h : Inv w m) (cin : CIn) (hin : CInOK w.stored w.p.session w.c cin) :
    Inv (w.stepC cin).1 (postMon m cin (w.stepC cin).1.c (w.stepC cin).2) := by
  have hc := CPost.handle h.logOK h.pl.sess h.cl h.cm cin w.now hin
  have hs0 : (w.c.handle cin w.now).1.session = 0 → w.c.session = 0 := by
    intro h0
    apply Classical.byContradiction
    intro hne
    rw [hc.sess hne] at h0; exact hne h0
  show Inv (w.stepC cin).1 (postMon m cin (w.c.handle cin w.now).1 (w.c.handle cin w.now).2)
  refine ⟨h.pl, ⟨Nat.le_trans h.pd.dem hc.mono, Nat.le_trans h.pd.cur hc.mono, fun hcr => Nat.lt_of_lt_of_le (h.pd.cred hcr) hc.mono⟩,
    hc.loc, hc.mon, by rw [hc.dem]; exact h.dm, h.user, ?_, ?_, ?_, fun h0 => h.fresh (hs0 h0)⟩
  · intro x hx
    have := h.netPC x hx
    cases x with
    | sequenced s i q pl => exact this
    | regAck s nx n => exact ⟨this.1, fun h0 => this.2 (hs0 h0)⟩
  · intro x hx
    have hx : x ∈ w.netCP ++ cpOf (w.c.handle cin w.now).2 := hx
    rcases List.mem_append.mp hx with hx | hx
    · exact (h.netCP x hx).lift hc.mono hc.sess hc.wnd hc.cmono
    · exact hc.outs _ (mem_cpOf hx)
  · intro d hd
    have hd : d ∈ w.inboxC ++ cuOf (w.c.handle cin w.now).2 := hd
    rcases List.mem_append.mp hd with hd | hd
    · exact (h.inboxC d hd).lift hc.mono hc.sess hc.wnd hc.cmono
    · exact hc.outs _ (mem_cuOf hd)

/-- the invariant only speaks about members of the links and mailboxes: losing messages keeps it -/
theorem Inv.shrink {w : World} {m : Mon} (h : Inv w m) (w' : World)
    (hp : w'.p = w.p) (hc : w'.c = w.c) (hs : w'.stored = w.stored)
    (hu : ∀ t i pl, w'.userP.answered = some (t, i, pl) → pl = payloadOf i)
    (h1 : ∀ x ∈ w'.netPC, x ∈ w.netPC) (h2 : ∀ x ∈ w'.netCP, x ∈ w.netCP) (h3 : ∀ x ∈ w'.inboxC, x ∈ w.inboxC) :
    Inv w' m := by
  refine ⟨?_, ?_, ?_, ?_, h.dm, ?_, ?_, ?_, ?_, ?_⟩
  · rw [hp, hs]; exact h.pl
  · rw [hp, hc]; exact h.pd
  · rw [hp, hc, hs]; exact h.cl
  · rw [hc, hs]; exact h.cm
  · exact hu
  · intro x hx
    have := h.netPC x (h1 x hx)
    cases x <;> simpa [NetPCOK, hp, hc, hs] using this
  · intro x hx; rw [hc, hs]; exact h.netCP x (h2 x hx)
  · intro x hx; rw [hc, hs]; exact h.inboxC x (h3 x hx)
  · rw [hp, hc]; exact h.fresh

theorem mem_of_getElem? {α} {l : List α} {i : Nat} {x : α} (h : l[i]? = some x) : x ∈ l :=
  List.mem_of_getElem? h

theorem PInW.ofNet {w : World} {m : Mon} (h : Inv w m) (x : CMsg) (hx : x ∈ w.netCP) : PInW w (.fromConsumer x) := by
  have := h.netCP x hx
  cases x with
  | register n => exact ⟨trivial, fun e => by rcases e with ⟨_, _, _, _, _, e⟩ | ⟨_, _, _, e⟩ <;> cases e⟩
  | request s n c u v => exact ⟨this.1, fun _ => this.2.1⟩
  | ack s n c => exact ⟨trivial, fun _ => this.1⟩

theorem CInOK.ofNet {w : World} {m : Mon} (h : Inv w m) (x : PMsg) (hx : x ∈ w.netPC) :
    CInOK w.stored w.p.session w.c (.fromProducer x) := by
  have := h.netPC x hx
  cases x with
  | regAck s nx n => exact this
  | sequenced s i q pl => exact this.2

theorem mem_eraseIdx {α} {l : List α} {i : Nat} {x : α} (h : x ∈ l.eraseIdx i) : x ∈ l :=
  (List.eraseIdx_sublist l i).mem h

/-- the producer endpoint keeps its contract and only ever hands over legitimate messages -/
theorem react_ok {w : World} {m : Mon} (h : Inv w m) (m0 : PUMsg) :
    (∀ t i pl, (w.userP.react m0).1.answered = some (t, i, pl) → pl = payloadOf i) ∧
    (∀ pin, (w.userP.react m0).2 = some pin → PInW w pin) := by
  have nreq : ∀ (pin : PIn), (∃ a b c d, pin = .produced a b c d) ∨ (∃ a b c, pin = .storedAck a b c) →
      ((∃ s n c u v, pin = .fromConsumer (.request s n c u v)) ∨ (∃ s n c, pin = .fromConsumer (.ack s n c)) → w.c.session ≠ 0) := by
    intro pin hp e
    rcases hp with ⟨_, _, _, _, rfl⟩ | ⟨_, _, _, rfl⟩ <;> rcases e with ⟨_, _, _, _, _, e⟩ | ⟨_, _, _, e⟩ <;> cases e
  cases m0 with
  | requestNext s t =>
    simp only [UserP.react]
    split
    · rename_i t' i pl ha
      split
      · refine ⟨h.user, ?_⟩
        intro pin hp; simp at hp; subst hp
        exact ⟨h.user _ _ _ ha, nreq _ (Or.inl ⟨_, _, _, _, rfl⟩)⟩
      · refine ⟨?_, ?_⟩
        · intro t i pl e; simp at e; obtain ⟨_, rfl, rfl⟩ := e; rfl
        · intro pin hp; simp at hp; subst hp
          exact ⟨rfl, nreq _ (Or.inl ⟨_, _, _, _, rfl⟩)⟩
    · refine ⟨?_, ?_⟩
      · intro t i pl e; simp at e; obtain ⟨_, rfl, rfl⟩ := e; rfl
      · intro pin hp; simp at hp; subst hp
        exact ⟨rfl, nreq _ (Or.inl ⟨_, _, _, _, rfl⟩)⟩
  | stored s t i q =>
    refine ⟨h.user, ?_⟩
    intro pin hp; simp [UserP.react] at hp; subst hp
    exact ⟨trivial, nreq _ (Or.inr ⟨_, _, _, rfl⟩)⟩
  | deliveryConfirmed s i q =>
    refine ⟨h.user, ?_⟩
    intro pin hp; simp [UserP.react] at hp

/-- observations of a producer-side step -/
theorem obs_P (w : World) (s : Step) (w' : World) (o : List POut)
    (hs : s ≠ .userC true) :
    w.obsOfStep s w' { who := 1, pouts := o } = obsOfP o := by
  unfold World.obsOfStep
  have : (match s, w.inboxC with | .userC true, d :: _ => [Obs.confirm d.seq] | _, _ => []) = [] := by
    split
    · exact absurd rfl hs
    · rfl
  simp [obsOfC]
  exact this

theorem run_C (m : Mon) (cin : CIn) (c' : Consumer) (o : List COut) (pre : List Obs)
    (hpre : m.run pre = preMon m cin) :
    m.run (pre ++ obsOfP [] ++ obsOfC o ++ [cstateOf c']) = postMon m cin c' o := by
  simp only [obsOfP, List.append_nil, Mon.run_append, hpre, postMon, Mon.run]

/-- the invariant is inductive: every step of the world preserves it, and the monitor that watches the
    step's observations stays in agreement -/
theorem Inv.step {w : World} {m : Mon} (h : Inv w m) (s : Step) :
    Inv (w.step s).1 (m.run (w.obsOfStep s (w.step s).1 (w.step s).2)) := by
  cases s with
  | deliverPC i =>
    simp only [World.step]
    split
    · rename_i x hx
      have hmem := mem_of_getElem? hx
      have h1 : Inv { w with netPC := w.netPC.eraseIdx i } m :=
        h.shrink _ rfl rfl rfl h.user (fun y hy => mem_eraseIdx hy) (fun _ h => h) (fun _ h => h)
      have h2 := h1.stepC (.fromProducer x) (CInOK.ofNet h x hmem)
      have : w.obsOfStep (.deliverPC i) (({ w with netPC := w.netPC.eraseIdx i } : World).stepC (.fromProducer x)).1
          { who := 2, couts := (({ w with netPC := w.netPC.eraseIdx i } : World).stepC (.fromProducer x)).2 }
          = [] ++ obsOfP [] ++ obsOfC (({ w with netPC := w.netPC.eraseIdx i } : World).stepC (.fromProducer x)).2
            ++ [cstateOf (({ w with netPC := w.netPC.eraseIdx i } : World).stepC (.fromProducer x)).1.c] := by
        simp [World.obsOfStep]
      rw [this, run_C m (.fromProducer x) _ _ [] rfl]
      exact h2
    · simpa [World.obsOfStep, obsOfP, obsOfC, Mon.run] using h
  | dupPC i =>
    simp only [World.step]
    split
    · rename_i x hx
      have h2 := h.stepC (.fromProducer x) (CInOK.ofNet h x (mem_of_getElem? hx))
      have : w.obsOfStep (.dupPC i) (w.stepC (.fromProducer x)).1 { who := 2, couts := (w.stepC (.fromProducer x)).2 }
          = [] ++ obsOfP [] ++ obsOfC (w.stepC (.fromProducer x)).2 ++ [cstateOf (w.stepC (.fromProducer x)).1.c] := by
        simp [World.obsOfStep]
      rw [this, run_C m (.fromProducer x) _ _ [] rfl]
      exact h2
    · simpa [World.obsOfStep, obsOfP, obsOfC, Mon.run] using h
  | dropPC i =>
    simp only [World.step, World.obsOfStep, obsOfP, obsOfC, Mon.run, List.append_nil]
    exact h.shrink _ rfl rfl rfl h.user (fun y hy => mem_eraseIdx hy) (fun _ h => h) (fun _ h => h)
  | deliverCP i =>
    simp only [World.step]
    split
    · rename_i x hx
      have h1 : Inv { w with netCP := w.netCP.eraseIdx i } m :=
        h.shrink _ rfl rfl rfl h.user (fun _ h => h) (fun y hy => mem_eraseIdx hy) (fun _ h => h)
      have h2 := h1.stepP (.fromConsumer x) (PInW.ofNet h x (mem_of_getElem? hx))
      rw [obs_P _ _ _ _ (by intro e; cases e)]
      exact h2
    · simpa [World.obsOfStep, obsOfP, obsOfC, Mon.run] using h
  | dupCP i =>
    simp only [World.step]
    split
    · rename_i x hx
      have h2 := h.stepP (.fromConsumer x) (PInW.ofNet h x (mem_of_getElem? hx))
      rw [obs_P _ _ _ _ (by intro e; cases e)]
      exact h2
    · simpa [World.obsOfStep, obsOfP, obsOfC, Mon.run] using h
  | dropCP i =>
    simp only [World.step, World.obsOfStep, obsOfP, obsOfC, Mon.run, List.append_nil]
    exact h.shrink _ rfl rfl rfl h.user (fun _ h => h) (fun y hy => mem_eraseIdx hy) (fun _ h => h)
  | tickP =>
    simp only [World.step]
    rw [obs_P _ _ _ _ (by intro e; cases e)]
    exact h.stepP .tick ⟨trivial, fun e => by rcases e with ⟨_, _, _, _, _, e⟩ | ⟨_, _, _, e⟩ <;> cases e⟩
  | tickC =>
    simp only [World.step]
    have h2 := h.stepC .tick trivial
    have : w.obsOfStep .tickC (w.stepC .tick).1 { who := 2, couts := (w.stepC .tick).2 }
        = [] ++ obsOfP [] ++ obsOfC (w.stepC .tick).2 ++ [cstateOf (w.stepC .tick).1.c] := by
      simp [World.obsOfStep]
    rw [this, run_C m .tick _ _ [] rfl]
    exact h2
  | userP =>
    simp only [World.step]
    split
    · simpa [World.obsOfStep, obsOfP, obsOfC, Mon.run] using h
    · rename_i m0 rest hin
      obtain ⟨hu', hr⟩ := react_ok h m0
      have h1 : Inv { w with inboxP := rest, userP := (w.userP.react m0).1 } m :=
        h.shrink _ rfl rfl rfl hu' (fun _ h => h) (fun _ h => h) (fun _ h => h)
      split
      · rename_i pin hpin
        rw [obs_P _ _ _ _ (by intro e; cases e)]
        exact h1.stepP pin (hr pin hpin)
      · simpa [World.obsOfStep, obsOfP, obsOfC, Mon.run] using h1
  | userPDrop =>
    simp only [World.step, World.obsOfStep, obsOfP, obsOfC, Mon.run, List.append_nil]
    exact h.shrink _ rfl rfl rfl h.user (fun _ h => h) (fun _ h => h) (fun _ h => h)
  | userC confirm =>
    simp only [World.step]
    split
    · rename_i hin
      simpa [World.obsOfStep, obsOfP, obsOfC, Mon.run, hin] using h
    · rename_i d rest hin
      have hd := h.inboxC d (by rw [hin]; simp)
      have h1 : Inv { w with inboxC := rest } m :=
        h.shrink _ rfl rfl rfl h.user (fun _ h => h) (fun _ h => h) (fun y hy => by rw [hin]; simp [hy])
      split
      · rename_i hc
        subst hc
        have h2 : Inv { w with inboxC := rest, confirmedByUser := w.confirmedByUser ++ [d.seq] } m :=
          h1.shrink _ rfl rfl rfl h.user (fun _ h => h) (fun _ h => h) (fun _ h => h)
        have h3 := h2.stepC (.confirmed d.session d.id d.seq) ⟨⟨_, hd.1⟩, hd.2.1⟩
        generalize hw2 : ({ w with inboxC := rest, confirmedByUser := w.confirmedByUser ++ [d.seq] } : World) = w2 at h3 ⊢
        have : w.obsOfStep (.userC true) (w2.stepC (.confirmed d.session d.id d.seq)).1
            { who := 2, couts := (w2.stepC (.confirmed d.session d.id d.seq)).2 }
            = [Obs.confirm d.seq] ++ obsOfP [] ++ obsOfC (w2.stepC (.confirmed d.session d.id d.seq)).2
              ++ [cstateOf (w2.stepC (.confirmed d.session d.id d.seq)).1.c] := by
          simp [World.obsOfStep, hin]
        rw [this, run_C m (.confirmed d.session d.id d.seq) _ _ [Obs.confirm d.seq] rfl]
        exact h3
      · rename_i hc
        have hc : confirm = false := by simpa using hc
        subst hc
        simpa [World.obsOfStep, obsOfP, obsOfC, Mon.run] using h1
  | userCDrop =>
    simp only [World.step, World.obsOfStep, obsOfP, obsOfC, Mon.run, List.append_nil]
    exact h.shrink _ rfl rfl rfl h.user (fun _ h => h) (fun _ h => h) (fun y hy => List.mem_of_mem_drop hy)
  | time t =>
    simp only [World.step, World.obsOfStep, obsOfP, obsOfC, Mon.run, List.append_nil]
    exact h.shrink _ rfl rfl rfl h.user (fun _ h => h) (fun _ h => h) (fun _ h => h)


/-- the invariant holds right after both controllers handled PostStart -/
theorem Inv.init (window interval : Nat) (dc : Bool) :
    Inv (World.init window interval dc) (Mon.run {} (World.init window interval dc).initObs) := by
  have hm : Mon.run {} (World.init window interval dc).initObs = {} := by
    simp [World.initObs, World.init, Consumer.register, cstateOf, Mon.run, Mon.step]
  rw [hm]
  refine ⟨⟨?_, ?_, rfl, ?_, ?_, ?_, ?_⟩, ⟨Nat.le_refl _, Nat.le_refl _, ?_⟩, ⟨Or.inl rfl, ?_, ?_, ?_, ?_, ?_, rfl, rfl, ?_⟩,
    ⟨rfl, ?_, ?_, rfl, rfl, rfl⟩, rfl, ?_, ?_, ?_, ?_, fun _ => rfl⟩
  all_goals simp [World.init, Consumer.register, Indexed, cpOf, COutOK]

/-- … and therefore along every script, of any length, with any fault decisions -/
theorem Inv.observe {w : World} {m : Mon} (h : Inv w m) (ss : List Step) :
    ∃ w', Inv w' (m.run (w.observe ss)) := by
  induction ss generalizing w m with
  | nil => exact ⟨w, h⟩
  | cons s ss ih =>
    simp only [World.observe, Mon.run_append]
    exact ih (h.step s)

/-- the monitor over a whole run from the initial world -/
def monitorOf (window interval : Nat) (dc : Bool) (ss : List Step) : Mon :=
  Mon.run {} ((World.init window interval dc).initObs ++ (World.init window interval dc).observe ss)

theorem monitor_inv (window interval : Nat) (dc : Bool) (ss : List Step) :
    ∃ w', Inv w' (monitorOf window interval dc ss) := by
  unfold monitorOf
  rw [Mon.run_append]
  exact (Inv.init window interval dc).observe ss

end GoaktVerif.C42

import GoaktVerif.Lemmas.C42.World

/-!
The producer controller never takes its terminal failure path (`terminate`), under the endpoint contract:
the producer endpoint's mailbox is FIFO (lossy), the endpoint answers a RequestNext with a fresh job,
re-answers the token it answered last with the same Produced, and acknowledges every Stored.
`UInv` relates the controller's handshake fields, the endpoint's mailbox and the endpoint's memory.
-/
namespace GoaktVerif.C42
open GoaktVerif.Model.C42 GoaktVerif.Spec.C42

def tokOf : PUMsg → Option Nat
  | .requestNext _ t => some t
  | .stored _ t _ _ => some t
  | .deliveryConfirmed _ _ _ => none

def sessOf : PUMsg → Nat
  | .requestNext s _ => s
  | .stored s _ _ _ => s
  | .deliveryConfirmed s _ _ => s

def ansTok (u : UserP) : Nat := match u.answered with | some (t, _, _) => t | none => 0
def ansId (u : UserP) : Nat := match u.answered with | some (_, i, _) => i | none => 0

/-- mailbox order: tokens never decrease -/
def TokLe (m1 m2 : PUMsg) : Prop := ∀ t1 t2, tokOf m1 = some t1 → tokOf m2 = some t2 → t1 ≤ t2

structure UInv (p : Producer) (inbox : List PUMsg) (u : UserP) : Prop where
  nf : p.failed = false
  rest : p.handshake ≠ .store ∧ p.handshake ≠ .accept
  range : ∀ m ∈ inbox, ∀ t, tokOf m = some t → ansTok u ≤ t ∧ t ≤ p.tokenCtr ∧ 1 ≤ t
  sorted : inbox.Pairwise TokLe
  sess : ∀ m ∈ inbox, sessOf m = p.session
  idle : p.handshake = .idle → ansTok u = p.tokenCtr ∧ p.lastToken = p.tokenCtr ∧ (1 ≤ p.tokenCtr → ansId u = p.lastId)
  cred : p.handshake = .credit → p.token = p.tokenCtr ∧ 1 ≤ p.tokenCtr ∧ p.lastToken + 1 = p.tokenCtr ∧
    ansTok u + 1 = p.tokenCtr ∧ (1 ≤ p.lastToken → ansId u = p.lastId)
  sack : p.handshake = .storedAck → p.token = p.tokenCtr ∧ 1 ≤ p.tokenCtr ∧ ansTok u = p.tokenCtr ∧
    ansId u = p.pendingId ∧ p.lastToken + 1 = p.tokenCtr ∧ ∃ q, p.storedMessage = some (.stored p.session p.token p.pendingId q)
  stor : ∀ s t i q, PUMsg.stored s t i q ∈ inbox →
    (t = p.token ∧ p.handshake = .storedAck ∧ i = p.pendingId) ∨ (t = p.lastToken ∧ i = p.lastId)

/-- the fields `UInv` reads -/
structure USame (p p' : Producer) : Prop where
  failed : p'.failed = p.failed
  hs : p'.handshake = p.handshake
  ctr : p'.tokenCtr = p.tokenCtr
  tok : p'.token = p.token
  lt : p'.lastToken = p.lastToken
  lid : p'.lastId = p.lastId
  pid : p'.pendingId = p.pendingId
  sm : p'.storedMessage = p.storedMessage
  sess : p'.session = p.session

theorem UInv.of_same {p p' : Producer} {inbox : List PUMsg} {u : UserP} (h : UInv p inbox u) (e : USame p p') :
    UInv p' inbox u := by
  refine ⟨e.failed ▸ h.nf, by rw [e.hs]; exact h.rest, ?_, h.sorted, ?_, ?_, ?_, ?_, ?_⟩
  · rw [e.ctr]; exact h.range
  · rw [e.sess]; exact h.sess
  · rw [e.hs, e.ctr, e.lt, e.lid]; exact h.idle
  · rw [e.hs, e.ctr, e.lt, e.lid, e.tok]; exact h.cred
  · rw [e.hs, e.ctr, e.lt, e.tok, e.pid, e.sm, e.sess]; exact h.sack
  · rw [e.hs, e.lt, e.lid, e.tok, e.pid]; exact h.stor

/-- appending messages without a token (DeliveryConfirmed) -/
theorem UInv.append_quiet {p : Producer} {inbox : List PUMsg} {u : UserP} (h : UInv p inbox u) (l : List PUMsg)
    (hl : ∀ m ∈ l, ∃ i q, m = .deliveryConfirmed p.session i q) : UInv p (inbox ++ l) u := by
  refine ⟨h.nf, h.rest, ?_, ?_, ?_, h.idle, h.cred, h.sack, ?_⟩
  · intro m hm t ht
    rcases List.mem_append.mp hm with hm | hm
    · exact h.range m hm t ht
    · obtain ⟨_, _, rfl⟩ := hl m hm; cases ht
  · refine List.pairwise_append.mpr ⟨h.sorted, ?_, ?_⟩
    · refine List.pairwise_iff_forall_sublist.mpr ?_
      intro a b hab t1 t2 h1 _
      obtain ⟨_, _, rfl⟩ := hl a (hab.subset (by simp)); cases h1
    · intro a _ b hb t1 t2 _ h2
      obtain ⟨_, _, rfl⟩ := hl b hb; cases h2
  · intro m hm
    rcases List.mem_append.mp hm with hm | hm
    · exact h.sess m hm
    · obtain ⟨_, _, rfl⟩ := hl m hm; rfl
  · intro s t i q hm
    rcases List.mem_append.mp hm with hm | hm
    · exact h.stor s t i q hm
    · obtain ⟨_, _, e⟩ := hl _ hm; cases e

/-- appending one message that carries the current (= highest) token -/
theorem UInv.append_top {p : Producer} {inbox : List PUMsg} {u : UserP} (h : UInv p inbox u) (m0 : PUMsg)
    (ht : tokOf m0 = some p.tokenCtr) (h1 : 1 ≤ p.tokenCtr) (ha : ansTok u ≤ p.tokenCtr) (hs : sessOf m0 = p.session)
    (hst : ∀ s t i q, m0 = .stored s t i q → (t = p.token ∧ p.handshake = .storedAck ∧ i = p.pendingId) ∨ (t = p.lastToken ∧ i = p.lastId)) :
    UInv p (inbox ++ [m0]) u := by
  refine ⟨h.nf, h.rest, ?_, ?_, ?_, h.idle, h.cred, h.sack, ?_⟩
  · intro m hm t htm
    rcases List.mem_append.mp hm with hm | hm
    · exact h.range m hm t htm
    · simp at hm; subst hm; rw [ht] at htm; cases htm; exact ⟨ha, Nat.le_refl _, h1⟩
  · refine List.pairwise_append.mpr ⟨h.sorted, by simp, ?_⟩
    intro a ha' b hb t1 t2 e1 e2
    simp at hb; subst hb; rw [ht] at e2; cases e2
    exact (h.range a ha' t1 e1).2.1
  · intro m hm
    rcases List.mem_append.mp hm with hm | hm
    · exact h.sess m hm
    · simp at hm; subst hm; exact hs
  · intro s t i q hm
    rcases List.mem_append.mp hm with hm | hm
    · exact h.stor s t i q hm
    · simp at hm; exact hst s t i q hm.symm

theorem puOf_append (a b : List POut) : puOf (a ++ b) = puOf a ++ puOf b := by
  induction a with
  | nil => rfl
  | cons x xs ih => cases x <;> simp [puOf, ih]

theorem UInv.allow {p : Producer} {inbox : List PUMsg} {u : UserP} (h : UInv p inbox u) :
    UInv p.allowNextRequest.1 (inbox ++ puOf p.allowNextRequest.2) u := by
  rcases allowNext_cases p with e | ⟨hi, _, e⟩
  · rw [e]; simpa [puOf] using h
  · rw [e]
    obtain ⟨i1, i2, i3⟩ := h.idle hi
    simp only [puOf]
    refine ⟨h.nf, by simp, ?_, ?_, ?_, by simp, ?_, by simp, ?_⟩
    · intro m hm t ht
      rcases List.mem_append.mp hm with hm | hm
      · have := h.range m hm t ht; exact ⟨this.1, by simp only; omega, this.2.2⟩
      · simp at hm; subst hm; simp [tokOf] at ht; subst ht; exact ⟨by omega, Nat.le_refl _, by omega⟩
    · refine List.pairwise_append.mpr ⟨h.sorted, by simp, ?_⟩
      intro a ha b hb t1 t2 e1 e2
      simp at hb; subst hb; simp [tokOf] at e2; subst e2
      have := (h.range a ha t1 e1).2.1; omega
    · intro m hm
      rcases List.mem_append.mp hm with hm | hm
      · exact h.sess m hm
      · simp at hm; subst hm; rfl
    · intro _
      exact ⟨rfl, by simp only; omega, by simp only; omega, by simp only; omega, fun hl => i3 (by simp only at hl; omega)⟩
    · intro s t i q hm
      rcases List.mem_append.mp hm with hm | hm
      · rcases h.stor s t i q hm with ⟨_, hsa, _⟩ | hr
        · rw [hi] at hsa; cases hsa
        · exact Or.inr hr
      · simp at hm

theorem advance_same (p : Producer) (c : Nat) : USame p (p.advanceConfirmed c).1 := by
  unfold Producer.advanceConfirmed; split <;> exact ⟨rfl, rfl, rfl, rfl, rfl, rfl, rfl, rfl, rfl⟩

theorem advance_pu (p : Producer) (c : Nat) :
    ∀ m ∈ puOf (p.advanceConfirmed c).2, ∃ i q, m = .deliveryConfirmed p.session i q := by
  intro m hm
  unfold Producer.advanceConfirmed Producer.confirmations at hm
  split at hm
  · simp [puOf] at hm
  · split at hm
    · generalize (List.takeWhile (fun m => decide (m.seq ≤ c)) p.unconfirmed) = l at hm
      induction l with
      | nil => simp [puOf] at hm
      | cons x xs ih =>
        simp [puOf] at hm
        rcases hm with rfl | hm
        · exact ⟨_, _, rfl⟩
        · exact ih (by simpa using hm)
    · simp [puOf] at hm

theorem resend_pu (p : Producer) : puOf p.resendUnconfirmed = [] := by
  have h := resend_outs p
  generalize p.resendUnconfirmed = l at h
  induction l with
  | nil => rfl
  | cons x xs ih =>
    obtain ⟨m, _, rfl, _⟩ := h x (by simp)
    simp only [puOf]
    exact ih (fun y hy => h y (by simp [hy]))

/-- legality of what the consumer controller sends, as far as the producer controller checks it -/
def PLegal (p : Producer) : PIn → Prop
  | .fromConsumer (.request s n c u _) => p.fromRegistered s n = true → c ≤ p.currentSeq ∧ c ≤ u ∧ u ≤ c + maxWindow
  | .fromConsumer (.ack s n c) => p.fromRegistered s n = true → c ≤ p.currentSeq
  | _ => True

theorem UInv.request {p : Producer} {inbox : List PUMsg} {u : UserP} (h : UInv p inbox u) (s n c up : Nat) (v : Bool)
    (hl : PLegal p (.fromConsumer (.request s n c up v))) :
    UInv (p.handleRequest s n c up v).1 (inbox ++ puOf (p.handleRequest s n c up v).2) u := by
  unfold Producer.handleRequest
  split
  · simpa [puOf] using h
  · rename_i hr
    have hr : p.fromRegistered s n = true := by simpa using hr
    obtain ⟨l1, l2, l3⟩ := hl hr
    split
    · rename_i hbad; simp at hbad; omega
    · simp only []
      have h1 : UInv (p.advanceConfirmed c).1 (inbox ++ puOf (p.advanceConfirmed c).2) u :=
        (h.of_same (advance_same p c)).append_quiet _ (by
          intro m hm; have := advance_pu p c m hm; rwa [(advance_same p c).sess])
      have h2 := h1.of_same (p' := { (p.advanceConfirmed c).1 with demandUpTo := up, windowSpan := up - c })
        ⟨rfl, rfl, rfl, rfl, rfl, rfl, rfl, rfl, rfl⟩
      have h3 := h2.allow
      have : puOf (if v = true then Producer.resendUnconfirmed { (p.advanceConfirmed c).1 with demandUpTo := up, windowSpan := up - c } else []) = [] := by
        split
        · exact resend_pu _
        · rfl
      simp only [puOf_append, this, List.append_nil, ← List.append_assoc]
      exact h3

theorem UInv.ack {p : Producer} {inbox : List PUMsg} {u : UserP} (h : UInv p inbox u) (s n c : Nat)
    (hl : PLegal p (.fromConsumer (.ack s n c))) :
    UInv (p.handleAck s n c).1 (inbox ++ puOf (p.handleAck s n c).2) u := by
  unfold Producer.handleAck
  split
  · simpa [puOf] using h
  · rename_i hr
    have hr : p.fromRegistered s n = true := by simpa using hr
    have := hl hr
    split
    · omega
    · exact (h.of_same (advance_same p c)).append_quiet _ (by
        intro m hm; have := advance_pu p c m hm; rwa [(advance_same p c).sess])

theorem UInv.register {p : Producer} {inbox : List PUMsg} {u : UserP} (h : UInv p inbox u) (n : Nat) :
    UInv (p.handleRegister n).1 (inbox ++ puOf (p.handleRegister n).2) u := by
  unfold Producer.handleRegister
  simp only [puOf, List.append_nil]
  split
  · exact h.of_same ⟨rfl, rfl, rfl, rfl, rfl, rfl, rfl, rfl, rfl⟩
  · exact h

theorem UInv.tick {p : Producer} {inbox : List PUMsg} {u : UserP} (h : UInv p inbox u) :
    UInv p.handleTick.1 (inbox ++ puOf p.handleTick.2) u := by
  unfold Producer.handleTick
  split
  · rename_i hc
    obtain ⟨c1, c2, c3, c4, c5⟩ := h.cred hc
    simp only [puOf]
    exact h.append_top _ (by simp [tokOf, c1]) c2 (by omega) rfl (by intro _ _ _ _ e; cases e)
  · rename_i hc
    obtain ⟨c1, c2, c3, c4, c5, q, hq⟩ := h.sack hc
    simp only [hq, puOf]
    exact h.append_top _ (by simp [tokOf, c1]) c2 (by omega) rfl (by
      intro s t i q' e; cases e; exact Or.inl ⟨rfl, hc, rfl⟩)
  · simpa [puOf] using h

end GoaktVerif.C42

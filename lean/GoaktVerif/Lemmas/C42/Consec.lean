import GoaktVerif.Lemmas.C42.Producer

/-!
The producer controller's `unconfirmed` buffer holds exactly the sequences confirmedSeq+1 … currentSeq, in
order ("ascending contiguous sequence order" in the Go comment) — for ANY input sequence.
-/
namespace GoaktVerif.C42
open GoaktVerif.Model.C42

/-- `l` carries the sequences a+1, a+2, … -/
def Consec : List UMsg → Nat → Prop
  | [], _ => True
  | m :: r, a => m.seq = a + 1 ∧ Consec r (a + 1)

structure PCons (p : Producer) : Prop where
  consec : Consec p.unconfirmed p.confirmedSeq
  len : p.confirmedSeq + p.unconfirmed.length = p.currentSeq

theorem consec_dropWhile (l : List UMsg) (a c cur : Nat) (h : Consec l a) (hl : a + l.length = cur) (h1 : a ≤ c) (h2 : c ≤ cur) :
    Consec (l.dropWhile (fun m => m.seq ≤ c)) c ∧ c + (l.dropWhile (fun m => m.seq ≤ c)).length = cur := by
  induction l generalizing a with
  | nil => simp at hl; exact ⟨trivial, by simp; omega⟩
  | cons m r ih =>
    obtain ⟨hm, hr⟩ := h
    simp only [List.length_cons] at hl
    by_cases hle : m.seq ≤ c
    · have : (decide (m.seq ≤ c)) = true := by simpa using hle
      simp only [List.dropWhile_cons, this, if_true]
      exact ih (a + 1) hr (by omega) (by omega)
    · have : (decide (m.seq ≤ c)) = false := by simpa using hle
      simp only [List.dropWhile_cons, this]
      have : c = a := by omega
      subst this
      exact ⟨⟨hm, hr⟩, by simp; omega⟩

theorem consec_snoc (l : List UMsg) (a cur : Nat) (x : UMsg) (h : Consec l a) (hl : a + l.length = cur) (hx : x.seq = cur + 1) :
    Consec (l ++ [x]) a := by
  induction l generalizing a with
  | nil => simp at hl; subst hl; exact ⟨hx, trivial⟩
  | cons m r ih =>
    obtain ⟨hm, hr⟩ := h
    simp only [List.length_cons] at hl
    exact ⟨hm, ih (a + 1) hr (by omega)⟩

theorem PCons.advance {p : Producer} (h : PCons p) (c : Nat) (hc : c ≤ p.currentSeq) : PCons (p.advanceConfirmed c).1 := by
  unfold Producer.advanceConfirmed
  split
  · exact h
  · rename_i hlt
    have := consec_dropWhile p.unconfirmed p.confirmedSeq c p.currentSeq h.consec h.len (by omega) hc
    exact ⟨this.1, this.2⟩

theorem PCons.allow {p : Producer} (h : PCons p) : PCons p.allowNextRequest.1 := by
  rcases allowNext_cases p with e | ⟨_, _, e⟩ <;> rw [e] <;> exact ⟨h.consec, h.len⟩

/-- every handler call keeps the buffer contiguous, whatever the input -/
theorem PCons.handle {p : Producer} (h : PCons p) (pin : PIn) : PCons (p.handle pin).1 := by
  unfold Producer.handle
  split
  · exact h
  · split
    · unfold Producer.handleRegister; split <;> exact ⟨h.consec, h.len⟩
    · rename_i s n c u v
      unfold Producer.handleRequest
      split
      · exact h
      · split
        · exact ⟨h.consec, h.len⟩
        · rename_i hleg
          have hc : c ≤ p.currentSeq := by simp at hleg; omega
          have h1 := h.advance c hc
          simp only []
          have h2 : PCons { (p.advanceConfirmed c).1 with demandUpTo := u, windowSpan := u - c } := ⟨h1.consec, h1.len⟩
          exact h2.allow
    · rename_i s n c
      unfold Producer.handleAck
      split
      · exact h
      · split
        · exact ⟨h.consec, h.len⟩
        · rename_i hleg
          exact h.advance c (by omega)
    · rename_i s t i pl
      unfold Producer.handleProduced Producer.terminate Producer.completeStore
      split; · exact h
      split; · exact h
      split; · exact h
      split; · exact ⟨h.consec, h.len⟩
      split; · exact ⟨h.consec, h.len⟩
      refine ⟨consec_snoc _ _ p.currentSeq _ h.consec h.len rfl, ?_⟩
      have := h.len
      simp only [List.length_append, List.length_cons, List.length_nil]
      omega
    · rename_i s t i
      unfold Producer.handleStoredAck Producer.terminate
      split; · exact h
      split
      · unfold Producer.completeAccept
        simp only []
        have h2 : PCons (Producer.resetHandshake { p with handshake := .accept, storedMessage := none, lastToken := p.token, lastId := p.pendingId }) :=
          ⟨h.consec, h.len⟩
        exact h2.allow
      split; · exact h
      split; · exact h
      exact ⟨h.consec, h.len⟩
    · unfold Producer.handleTick
      split
      · exact h
      · exact h
      · exact h

end GoaktVerif.C42

import GoaktVerif.Lemmas.C42.Producer

/-!
Consumer-controller half of the C42/C43 invariant: facts about `Consumer.handle` alone, against an
abstract stored log, the producer session and the Spec monitor.  Handlers are compositions of a few
primitive transitions; `CTrans` is closed under composition.
-/
namespace GoaktVerif.C42
open GoaktVerif.Model.C42 GoaktVerif.Spec.C42

/-- the stored log is indexed by sequence and carries the endpoint's payloads -/
structure LogOK (stored : List UMsg) : Prop where
  idx : Indexed stored
  pay : ∀ m ∈ stored, m.payload = payloadOf m.id

theorem LogOK.content {stored : List UMsg} (h : LogOK stored) {i q pl : Nat} (hm : InLog stored i q pl) :
    1 ≤ q ∧ (stored.map (·.id))[q - 1]? = some i ∧ pl = payloadOf i ∧ q ≤ stored.length := by
  obtain ⟨j, hj⟩ := List.getElem?_of_mem hm
  have hq := h.idx j _ hj
  have hjl : j < stored.length := by
    apply Classical.byContradiction; intro hc
    rw [List.getElem?_eq_none (by omega)] at hj; cases hj
  simp only at hq
  refine ⟨by omega, ?_, h.pay _ hm, by omega⟩
  have : q - 1 = j := by omega
  rw [this, List.getElem?_map, hj]; rfl

/-- consumer controller against the stored log and the producer session -/
structure CLoc (c : Consumer) (stored : List UMsg) (psess : Nat) : Prop where
  sess : c.session = 0 ∨ c.session = psess
  fresh : c.session = 0 → c.requestUpToSeq = 0 ∧ c.inFlight = none ∧ c.expectedSeq = 1 ∧ c.buffer = [] ∧ c.confirmedSeq = 0
  buf : ∀ b ∈ c.buffer, InLog stored b.id b.seq b.payload
  buflen : c.buffer.length ≤ c.window
  infl : ∀ d, c.inFlight = some d → InLog stored d.id d.seq d.payload ∧ d.session = c.session ∧ d.seq = c.expectedSeq
  win : c.requestUpToSeq ≤ c.confirmedSeq + c.window
  ce : c.expectedSeq = c.confirmedSeq + 1
  /-- the unchunked consumer controller never takes its terminal `fail` path -/
  nf : c.failed = false
  /-- the consumer controller has confirmed nothing the producer controller has not stored -/
  cle : c.confirmedSeq ≤ stored.length

/-- the Spec monitor agrees with the consumer controller -/
structure CMon (c : Consumer) (stored : List UMsg) (m : Mon) : Prop where
  ids : m.ids = stored.map (·.id)
  infl : ∀ d, c.inFlight = some d → m.last = d.seq ∧ m.lastConfirmed = false
  idle : c.inFlight = none → m.last + 1 = c.expectedSeq ∧ m.lastConfirmed = true
  req : m.maxReq = c.requestUpToSeq
  ord : m.okOrder = true
  win : m.okWindow = true

/-- what the link invariants demand of one output of the consumer controller -/
def COutOK (c' : Consumer) (stored : List UMsg) : COut → Prop
  | .toProducer (.request _ _ cf u _) => u ≤ c'.requestUpToSeq ∧ c'.session ≠ 0 ∧ cf ≤ c'.confirmedSeq ∧ u = cf + c'.window
  | .toProducer (.ack _ _ cf) => c'.session ≠ 0 ∧ cf ≤ c'.confirmedSeq
  | .toProducer (.register _) => True
  | .toUser d => InLog stored d.id d.seq d.payload ∧ d.session = c'.session ∧ c'.session ≠ 0

/-- a (partial) handler run from `c` to `c'` emitting `o`, seen by monitor `m` -/
structure CTrans (stored : List UMsg) (psess : Nat) (c : Consumer) (m : Mon) (c' : Consumer) (o : List COut) : Prop where
  loc : CLoc c' stored psess
  mon : CMon c' stored (m.run (obsOfC o))
  outs : ∀ x ∈ o, COutOK c' stored x
  mono : c.requestUpToSeq ≤ c'.requestUpToSeq
  sess : c.session ≠ 0 → c'.session = c.session
  dem : (m.run (obsOfC o)).okDemand = m.okDemand
  wnd : c'.window = c.window
  cmono : c.confirmedSeq ≤ c'.confirmedSeq

theorem obsOfC_append (a b : List COut) : obsOfC (a ++ b) = obsOfC a ++ obsOfC b := by
  induction a with
  | nil => rfl
  | cons x xs ih =>
    cases x with
    | toProducer m => cases m <;> simp [obsOfC, ih]
    | toUser m => simp [obsOfC, ih]

theorem COutOK.lift {c c' : Consumer} {stored : List UMsg} {x : COut} (h : COutOK c stored x)
    (hm : c.requestUpToSeq ≤ c'.requestUpToSeq) (hs : c.session ≠ 0 → c'.session = c.session)
    (hw : c'.window = c.window) (hc : c.confirmedSeq ≤ c'.confirmedSeq) :
    COutOK c' stored x := by
  cases x with
  | toProducer m =>
    cases m with
    | register => trivial
    | request s n cf u v => exact ⟨by have := h.1; omega, by rw [hs h.2.1]; exact h.2.1, by have := h.2.2.1; omega, by rw [hw]; exact h.2.2.2⟩
    | ack s n cf => exact ⟨by rw [hs h.1]; exact h.1, by have := h.2; omega⟩
  | toUser d => exact ⟨h.1, by rw [hs h.2.2]; exact h.2.1, by rw [hs h.2.2]; exact h.2.2⟩

/-- composition of handler fragments -/
theorem CTrans.comp {stored : List UMsg} {psess : Nat} {c c1 c2 : Consumer} {m : Mon} {o1 o2 : List COut}
    (h1 : CTrans stored psess c m c1 o1) (h2 : CTrans stored psess c1 (m.run (obsOfC o1)) c2 o2) :
    CTrans stored psess c m c2 (o1 ++ o2) := by
  have hrun : m.run (obsOfC (o1 ++ o2)) = (m.run (obsOfC o1)).run (obsOfC o2) := by
    rw [obsOfC_append, Mon.run_append]
  refine ⟨h2.loc, hrun ▸ h2.mon, ?_, Nat.le_trans h1.mono h2.mono, ?_, ?_, by rw [h2.wnd, h1.wnd], Nat.le_trans h1.cmono h2.cmono⟩
  · intro x hx
    rcases List.mem_append.mp hx with hx | hx
    · exact (h1.outs x hx).lift h2.mono h2.sess h2.wnd h2.cmono
    · exact h2.outs x hx
  · intro h0
    rw [h2.sess (by rw [h1.sess h0]; exact h0), h1.sess h0]
  · rw [hrun, h2.dem, h1.dem]

/-- the empty fragment -/
theorem CTrans.refl {stored : List UMsg} {psess : Nat} {c : Consumer} {m : Mon}
    (hL : CLoc c stored psess) (hM : CMon c stored m) : CTrans stored psess c m c [] :=
  ⟨hL, hM, by simp, Nat.le_refl _, fun _ => rfl, rfl, rfl, Nat.le_refl _⟩

variable {stored : List UMsg} {psess : Nat} {c : Consumer} {m : Mon}

/-- a state change that touches none of the fields the invariant reads -/
theorem CTrans.frame (hL : CLoc c stored psess) (hM : CMon c stored m) (c' : Consumer)
    (h1 : c'.session = c.session) (h2 : c'.requestUpToSeq = c.requestUpToSeq) (h3 : c'.inFlight = c.inFlight)
    (h4 : c'.expectedSeq = c.expectedSeq) (h5 : c'.buffer = c.buffer) (h6 : c'.confirmedSeq = c.confirmedSeq)
    (h7 : c'.window = c.window) (h8 : c'.failed = c.failed := by rfl) : CTrans stored psess c m c' [] := by
  refine ⟨⟨?_, ?_, ?_, ?_, ?_, ?_, ?_, h8 ▸ hL.nf, h6 ▸ hL.cle⟩, ⟨hM.ids, ?_, ?_, ?_, hM.ord, hM.win⟩, by simp, by omega, fun _ => h1, rfl, h7, by omega⟩
  · rw [h1]; exact hL.sess
  · rw [h1, h2, h3, h4, h5, h6]; exact hL.fresh
  · rw [h5]; exact hL.buf
  · rw [h5, h7]; exact hL.buflen
  · rw [h3, h1, h4]; exact hL.infl
  · rw [h2, h6, h7]; exact hL.win
  · rw [h4, h6]; exact hL.ce
  · rw [h3]; exact hM.infl
  · rw [h3, h4]; exact hM.idle
  · rw [h2]; exact hM.req

theorem Mon.step_requested (m : Mon) (u : Nat) (h : m.maxReq ≤ u) : m.step (.requested u) = { m with maxReq := u } := by
  simp [Mon.step, Nat.max_eq_right h]

/-- `sendRequest` -/
theorem CTrans.sendRequest (hL : CLoc c stored psess) (hM : CMon c stored m) (v : Bool) :
    CTrans stored psess c m (c.sendRequest v).1 (c.sendRequest v).2 := by
  unfold Consumer.sendRequest
  split
  · exact CTrans.refl hL hM
  · rename_i hg
    simp at hg
    have hmr : m.maxReq ≤ c.confirmedSeq + c.window := by rw [hM.req]; exact hL.win
    have hrun : m.run (obsOfC [COut.toProducer (CMsg.request c.session c.nonce c.confirmedSeq (c.confirmedSeq + c.window) v)])
        = { m with maxReq := c.confirmedSeq + c.window } := by
      simp only [obsOfC, Mon.run]; exact Mon.step_requested _ _ hmr
    refine ⟨⟨hL.sess, fun h => absurd h hg.2, hL.buf, hL.buflen, hL.infl, Nat.le_refl _, hL.ce, hL.nf, hL.cle⟩, ?_, ?_, hL.win, fun _ => rfl, ?_, rfl, Nat.le_refl _⟩
    · rw [hrun]; exact ⟨hM.ids, hM.infl, hM.idle, rfl, hM.ord, hM.win⟩
    · intro x hx; simp at hx; subst hx; exact ⟨Nat.le_refl _, hg.2, Nat.le_refl _, rfl⟩
    · rw [hrun]

/-- `sendAck` (no state change) -/
theorem CTrans.sendAck (hL : CLoc c stored psess) (hM : CMon c stored m) :
    CTrans stored psess c m c c.sendAck := by
  unfold Consumer.sendAck
  split
  · exact CTrans.refl hL hM
  · rename_i hg
    simp at hg
    refine ⟨hL, ?_, ?_, Nat.le_refl _, fun _ => rfl, ?_, rfl, Nat.le_refl _⟩
    · simpa [obsOfC, Mon.run] using hM
    · intro x hx; simp at hx; subst hx; exact ⟨hg.2, Nat.le_refl _⟩
    · simp [obsOfC, Mon.run]

theorem Mon.step_present_new (m : Mon) (i q pl : Nat) (h1 : q = m.last + 1) (h2 : m.lastConfirmed = true)
    (h3 : m.okOrder = true) (h4 : 1 ≤ q) (h5 : m.ids[q - 1]? = some i) (h6 : pl = payloadOf i) :
    m.step (.present i q pl) = { m with last := q, lastConfirmed := false } := by
  simp [Mon.step, h1, h2, h3, h6]
  rw [h1] at h5; simpa using h5

theorem Mon.step_present_again (m : Mon) (i q pl : Nat) (h1 : q = m.last) (h2 : m.lastConfirmed = false)
    (h3 : m.okOrder = true) (h4 : 1 ≤ q) (h5 : m.ids[q - 1]? = some i) (h6 : pl = payloadOf i) :
    m.step (.present i q pl) = m := by
  subst h1
  simp [Mon.step, h2, h3, h6]
  have e1 : decide (1 ≤ m.last) = true := by simpa using h4
  have e2 : (m.ids[m.last - 1]? == some i) = true := by rw [h5]; simp
  rw [e1, e2]
  cases m; simp_all

/-- `deliver` of the expected sequence while nothing is in flight -/
theorem CTrans.deliver (hLog : LogOK stored) (hL : CLoc c stored psess) (hM : CMon c stored m) (b : BMsg)
    (hn : c.inFlight = none) (hq : b.seq = c.expectedSeq) (hb : InLog stored b.id b.seq b.payload) (hs : c.session ≠ 0) :
    CTrans stored psess c m (c.deliver b).1 (c.deliver b).2 := by
  unfold Consumer.deliver
  obtain ⟨hq1, hid, hpl, _⟩ := hLog.content hb
  have hidle := hM.idle hn
  have hrun : m.run (obsOfC [COut.toUser ⟨c.session, b.id, b.seq, b.payload⟩]) = { m with last := b.seq, lastConfirmed := false } := by
    simp only [obsOfC, Mon.run]
    exact Mon.step_present_new _ _ _ _ (by omega) hidle.2 hM.ord hq1 (by rw [hM.ids]; exact hid) hpl
  refine ⟨⟨hL.sess, fun h => absurd h hs, hL.buf, hL.buflen, ?_, hL.win, hL.ce, hL.nf, hL.cle⟩, ?_, ?_, Nat.le_refl _, fun _ => rfl, ?_, rfl, Nat.le_refl _⟩
  · intro d hd; simp at hd; subst hd; exact ⟨hb, rfl, hq⟩
  · rw [hrun]
    refine ⟨hM.ids, ?_, ?_, hM.req, hM.ord, hM.win⟩
    · intro d hd; simp at hd; subst hd; exact ⟨rfl, rfl⟩
    · intro h; simp at h
  · intro x hx; simp at hx; subst hx; exact ⟨hb, rfl, hs⟩
  · rw [hrun]

/-- the tick re-tells the in-flight Delivery -/
theorem CTrans.retell (hLog : LogOK stored) (hL : CLoc c stored psess) (hM : CMon c stored m) (d : Delivery)
    (hd : c.inFlight = some d) (hs : c.session ≠ 0) : CTrans stored psess c m c [.toUser d] := by
  obtain ⟨hb, hds, hdq⟩ := hL.infl d hd
  obtain ⟨hq1, hid, hpl, _⟩ := hLog.content hb
  obtain ⟨hl, hlc⟩ := hM.infl d hd
  have hrun : m.run (obsOfC [COut.toUser d]) = m := by
    simp only [obsOfC, Mon.run]
    exact Mon.step_present_again _ _ _ _ hl.symm hlc hM.ord hq1 (by rw [hM.ids]; exact hid) hpl
  refine ⟨hL, by rw [hrun]; exact hM, ?_, Nat.le_refl _, fun _ => rfl, by rw [hrun], rfl, Nat.le_refl _⟩
  intro x hx; simp at hx; subst hx; exact ⟨hb, hds, hs⟩

/-- replacing the buffer by entries that are all in the log and fit the window -/
theorem CTrans.setBuffer (hL : CLoc c stored psess) (hM : CMon c stored m) (l : List BMsg)
    (h1 : ∀ b ∈ l, InLog stored b.id b.seq b.payload) (h2 : l.length ≤ c.window) (h3 : c.session = 0 → l = []) :
    CTrans stored psess c m { c with buffer := l } [] := by
  refine ⟨⟨hL.sess, ?_, h1, h2, hL.infl, hL.win, hL.ce, hL.nf, hL.cle⟩, ⟨hM.ids, hM.infl, hM.idle, hM.req, hM.ord, hM.win⟩, by simp, Nat.le_refl _, fun _ => rfl, rfl, rfl, Nat.le_refl _⟩
  intro h0
  obtain ⟨a, b, c', _, e⟩ := hL.fresh h0
  exact ⟨a, b, c', h3 h0, e⟩

/-- sending a RegisterConsumer changes nothing the invariant reads -/
theorem CTrans.emitRegister (hL : CLoc c stored psess) (hM : CMon c stored m) (n : Nat) :
    CTrans stored psess c m c [.toProducer (.register n)] := by
  refine ⟨hL, by simpa [obsOfC, Mon.run] using hM, ?_, Nat.le_refl _, fun _ => rfl, by simp [obsOfC, Mon.run], rfl, Nat.le_refl _⟩
  intro x hx; simp at hx; subst hx; trivial

theorem CTrans.register (hL : CLoc c stored psess) (hM : CMon c stored m) :
    CTrans stored psess c m c.register.1 c.register.2 := by
  unfold Consumer.register
  have h1 := CTrans.frame hL hM { c with hasProducer := true, nonce := c.nonceCtr + 1, nonceCtr := c.nonceCtr + 1 } rfl rfl rfl rfl rfl rfl rfl
  have h2 := CTrans.emitRegister h1.loc h1.mon (c.nonceCtr + 1)
  simpa using h1.comp h2

theorem CTrans.sendGapRequest (hL : CLoc c stored psess) (hM : CMon c stored m) (now : Nat) :
    CTrans stored psess c m (c.sendGapRequest now).1 (c.sendGapRequest now).2 := by
  unfold Consumer.sendGapRequest
  split
  · unfold Consumer.solicitGapRequest
    have h1 := CTrans.frame hL hM { c with lastGap := some now } rfl rfl rfl rfl rfl rfl rfl
    have h2 := CTrans.sendRequest h1.loc h1.mon true
    simpa using h1.comp h2
  · exact CTrans.refl hL hM

theorem mem_insertBySeq (b x : BMsg) (l : List BMsg) (h : x ∈ Consumer.insertBySeq b l) : x = b ∨ x ∈ l := by
  induction l with
  | nil => simp [Consumer.insertBySeq] at h; exact Or.inl h
  | cons y ys ih =>
    unfold Consumer.insertBySeq at h
    split at h
    · simp at h; rcases h with h | h | h
      · exact Or.inl h
      · exact Or.inr (by simp [h])
      · exact Or.inr (by simp [h])
    · simp at h; rcases h with h | h
      · exact Or.inr (by simp [h])
      · rcases ih h with h | h
        · exact Or.inl h
        · exact Or.inr (by simp [h])

theorem length_insertBySeq (b : BMsg) (l : List BMsg) : (Consumer.insertBySeq b l).length = l.length + 1 := by
  induction l with
  | nil => rfl
  | cons y ys ih => unfold Consumer.insertBySeq; split <;> simp [ih]

theorem CTrans.bufferMessage (hL : CLoc c stored psess) (hM : CMon c stored m) (b : BMsg) (now : Nat)
    (hb : InLog stored b.id b.seq b.payload) (hs : c.session ≠ 0) :
    CTrans stored psess c m (c.bufferMessage b now).1 (c.bufferMessage b now).2 := by
  have h1 : CTrans stored psess c m (c.bufferInsert b) [] := by
    unfold Consumer.bufferInsert
    split
    · exact CTrans.refl hL hM
    · split
      · exact CTrans.refl hL hM
      · rename_i hlen
        apply CTrans.setBuffer hL hM
        · intro x hx
          rcases mem_insertBySeq _ _ _ hx with rfl | hx
          · exact hb
          · exact hL.buf x hx
        · rw [length_insertBySeq]; omega
        · intro h0; exact absurd h0 hs
  unfold Consumer.bufferMessage
  simp only []
  split
  · simpa using h1.comp (CTrans.sendGapRequest h1.loc h1.mon now)
  · exact h1

theorem CTrans.drain (hLog : LogOK stored) (hL : CLoc c stored psess) (hM : CMon c stored m) :
    CTrans stored psess c m c.drain.1 c.drain.2 := by
  unfold Consumer.drain
  split
  · rename_i b bs hin hbuf
    split
    · rename_i hq
      have hq : b.seq = c.expectedSeq := by simpa using hq
      have hs : c.session ≠ 0 := by
        intro h0; have := (hL.fresh h0).2.2.2.1; rw [hbuf] at this; cases this
      have hbl : InLog stored b.id b.seq b.payload := hL.buf b (by rw [hbuf]; simp)
      have h1 := CTrans.setBuffer hL hM bs (fun x hx => hL.buf x (by rw [hbuf]; simp [hx]))
        (by have := hL.buflen; rw [hbuf] at this; simp at this; omega) (fun h0 => absurd h0 hs)
      have h2 := CTrans.deliver hLog h1.loc h1.mon b hin hq hbl hs
      simpa using h1.comp h2
    · exact CTrans.refl hL hM
  · exact CTrans.refl hL hM

theorem CTrans.handleRegAck (hL : CLoc c stored psess) (hM : CMon c stored m) (s nx n : Nat)
    (hps : psess ≠ 0) (hs : s = psess) (hnx : c.session = 0 → nx = 1) :
    CTrans stored psess c m (c.handleRegAck s nx n).1 (c.handleRegAck s nx n).2 := by
  unfold Consumer.handleRegAck
  split
  · exact CTrans.refl hL hM
  split
  · exact CTrans.refl hL hM
  simp only []
  have h1 := CTrans.frame hL hM { c with sawValidTraffic := true } rfl rfl rfl rfl rfl rfl rfl
  split
  · rename_i hne
    have hne : s ≠ c.session := by simpa using hne
    have h0 : c.session = 0 := by
      rcases hL.sess with h | h
      · exact h
      · exact absurd (hs.trans h.symm) hne
    obtain ⟨f1, f2, f3, f4, f5⟩ := hL.fresh h0
    have hnx := hnx h0
    subst hnx hs
    have hidle := hM.idle f2
    have h2 : CTrans stored s c m { c with sawValidTraffic := true, session := s, expectedSeq := 1, confirmedSeq := 1 - 1, buffer := [], inFlight := none } [] := by
      refine ⟨⟨Or.inr rfl, fun h => absurd h hps, by simp, by simp, by simp, by simp [f1], rfl, hL.nf, Nat.zero_le _⟩, ?_,
        by simp, by simp [f1], fun h => absurd h0 h, rfl, rfl, by simp [f5]⟩
      show CMon _ _ m
      exact ⟨hM.ids, by simp, fun _ => ⟨by simpa [f3] using hidle.1, hidle.2⟩, by simpa [f1] using hM.req, hM.ord, hM.win⟩
    have h3 := CTrans.sendRequest h2.loc h2.mon true
    simpa using h2.comp h3
  · have h3 := CTrans.sendRequest h1.loc h1.mon true
    simpa using h1.comp h3

theorem CTrans.handleSequenced (hLog : LogOK stored) (hL : CLoc c stored psess) (hM : CMon c stored m) (s i q pl now : Nat)
    (hb : InLog stored i q pl) :
    CTrans stored psess c m (c.handleSequenced s i q pl now).1 (c.handleSequenced s i q pl now).2 := by
  unfold Consumer.handleSequenced
  split
  · exact CTrans.refl hL hM
  split
  · exact CTrans.refl hL hM
  rename_i _ hsess
  have hs0 : c.session ≠ 0 := by simp at hsess; exact hsess.1
  simp only []
  have h1 := CTrans.frame hL hM { c with sawValidTraffic := true } rfl rfl rfl rfl rfl rfl rfl
  split
  · exact h1
  split
  · simpa using h1.comp (CTrans.sendAck h1.loc h1.mon)
  split
  · rename_i hc
    simp at hc
    exact by simpa using h1.comp (CTrans.deliver hLog h1.loc h1.mon ⟨i, q, pl⟩ hc.2 hc.1 hb hs0)
  split
  · exact h1
  · have h2 := CTrans.bufferMessage h1.loc h1.mon ⟨i, q, pl⟩ now hb hs0
    have h3 := CTrans.drain hLog h2.loc h2.mon
    have := h1.comp (h2.comp h3)
    simpa using this

theorem LogOK.unique (h : LogOK stored) {i i' q pl pl' : Nat} (h1 : InLog stored i q pl) (h2 : InLog stored i' q pl') : i = i' := by
  have a := (h.content h1).2.1
  have b := (h.content h2).2.1
  rw [a] at b; exact Option.some.inj b

theorem CTrans.batchConfirmation (hL : CLoc c stored psess) (hM : CMon c stored m) :
    CTrans stored psess c m c.batchConfirmation.1 c.batchConfirmation.2 := by
  unfold Consumer.batchConfirmation
  split
  · exact CTrans.sendRequest hL hM false
  · split
    · exact CTrans.sendAck hL hM
    · exact CTrans.refl hL hM

theorem CTrans.solicit (hL : CLoc c stored psess) (hM : CMon c stored m) (now : Nat) :
    CTrans stored psess c m (c.solicitGapRequest now).1 (c.solicitGapRequest now).2 := by
  unfold Consumer.solicitGapRequest
  have h1 := CTrans.frame hL hM { c with lastGap := some now } rfl rfl rfl rfl rfl rfl rfl
  simpa using h1.comp (CTrans.sendRequest h1.loc h1.mon true)

theorem Mon.step_confirm_okDemand (m : Mon) (q : Nat) : (m.step (.confirm q)).okDemand = m.okDemand := by
  simp only [Mon.step]; split <;> rfl

/-- `handleConfirmed`, seen by a monitor that has just observed the endpoint's `Confirmed(q)` -/
theorem handleConfirmed_ok (hLog : LogOK stored) (hL : CLoc c stored psess) (hM : CMon c stored m) (s i q now : Nat)
    (hin : ∃ pl0, InLog stored i q pl0) (hs : s = c.session) :
    ∃ c0 : Consumer, c0.requestUpToSeq = c.requestUpToSeq ∧ c0.session = c.session ∧ c0.window = c.window ∧
      c.confirmedSeq ≤ c0.confirmedSeq ∧
      CTrans stored psess c0 (m.step (.confirm q)) (c.handleConfirmed s i q now).1 (c.handleConfirmed s i q now).2 := by
  obtain ⟨pl0, hin⟩ := hin
  unfold Consumer.handleConfirmed
  split
  · rename_i hn
    refine ⟨c, rfl, rfl, rfl, Nat.le_refl _, CTrans.refl hL ?_⟩
    have hidle := hM.idle hn
    have : m.step (.confirm q) = m := by
      simp only [Mon.step]; split
      · cases m; simp_all
      · rfl
    rw [this]; exact hM
  · rename_i d hd
    obtain ⟨hdl, hds, hdq⟩ := hL.infl d hd
    obtain ⟨hml, hmc⟩ := hM.infl d hd
    split
    · rename_i hmis
      refine ⟨c, rfl, rfl, rfl, Nat.le_refl _, CTrans.refl hL ?_⟩
      have hne : q ≠ d.seq := by
        intro he
        subst he
        have := hLog.unique hin hdl
        simp [hs, this] at hmis
      have : m.step (.confirm q) = m := by
        have : (q == m.last) = false := by simp; omega
        simp [Mon.step, this]
      rw [this]; exact hM
    · rename_i hmat
      have hq : q = d.seq := by simp at hmat; exact hmat.2
      have hs0 : c.session ≠ 0 := by
        intro h0; have := (hL.fresh h0).2.1; rw [hd] at this; cases this
      have hm0 : m.step (.confirm q) = { m with lastConfirmed := true } := by
        simp [Mon.step, hq, hml]
      rw [hm0]
      generalize hc0 : Consumer.purgeBuffer { c with confirmedSeq := d.seq, expectedSeq := d.seq + 1, inFlight := none } = c0
      have e : c0.requestUpToSeq = c.requestUpToSeq ∧ c0.session = c.session ∧ c0.window = c.window ∧ c0.inFlight = none ∧
          c0.expectedSeq = d.seq + 1 ∧ c0.confirmedSeq = d.seq ∧ (∀ b ∈ c0.buffer, b ∈ c.buffer) ∧ c0.buffer.length ≤ c.buffer.length ∧ c0.failed = c.failed := by
        subst hc0
        simp only [Consumer.purgeBuffer, true_and]
        exact ⟨fun b hb => mem_dropWhile _ _ _ hb, (List.dropWhile_sublist _).length_le, trivial⟩
      obtain ⟨e1, e2, e3, e4, e5, e6, e7, e8, e9⟩ := e
      have hL0 : CLoc c0 stored psess := by
        refine ⟨e2 ▸ hL.sess, fun h => absurd (e2 ▸ h) hs0, fun b hb => hL.buf b (e7 b hb), ?_, by simp [e4], ?_, by rw [e5, e6], e9 ▸ hL.nf, by rw [e6]; exact (hLog.content hdl).2.2.2⟩
        · rw [e3]; exact Nat.le_trans e8 hL.buflen
        · rw [e1, e6, e3]; have := hL.win; have := hL.ce; omega
      have hM0 : CMon c0 stored { m with lastConfirmed := true } :=
        ⟨hM.ids, by simp [e4], fun _ => ⟨by simp only; rw [e5, hml], rfl⟩, by simp only; rw [e1]; exact hM.req, hM.ord, hM.win⟩
      refine ⟨c0, e1, e2, e3, by rw [e6]; have := hL.ce; omega, ?_⟩
      simp only []
      have h2 := CTrans.batchConfirmation hL0 hM0
      have h3 := CTrans.drain hLog h2.loc h2.mon
      split
      · have h4 := CTrans.solicit h3.loc h3.mon now
        simpa [List.append_assoc] using h2.comp (h3.comp h4)
      · exact h2.comp h3

theorem CTrans.handleTick (hLog : LogOK stored) (hL : CLoc c stored psess) (hM : CMon c stored m) (now : Nat) :
    CTrans stored psess c m (c.handleTick now).1 (c.handleTick now).2 := by
  unfold Consumer.handleTick
  have key : CTrans stored psess c m
      (if c.session == 0 || !c.sawValidTraffic then c.register
        else match c.inFlight with
          | some d => (c, [COut.toUser d])
          | none => if c.gapOpen then c.sendGapRequest now else (c, [])).1
      (if c.session == 0 || !c.sawValidTraffic then c.register
        else match c.inFlight with
          | some d => (c, [COut.toUser d])
          | none => if c.gapOpen then c.sendGapRequest now else (c, [])).2 := by
    split
    · exact CTrans.register hL hM
    · rename_i hg
      have hs0 : c.session ≠ 0 := by simp at hg; exact hg.1
      split
      · rename_i d hd; exact CTrans.retell hLog hL hM d hd hs0
      · split
        · exact CTrans.sendGapRequest hL hM now
        · exact CTrans.refl hL hM
  generalize (if c.session == 0 || !c.sawValidTraffic then c.register
        else match c.inFlight with
          | some d => (c, [COut.toUser d])
          | none => if c.gapOpen then c.sendGapRequest now else (c, [])) = r at key ⊢
  obtain ⟨c1, o1⟩ := r
  have h2 := CTrans.frame key.loc key.mon { c1 with sawValidTraffic := false } rfl rfl rfl rfl rfl rfl rfl
  simpa using key.comp h2

/-- what an incoming message must satisfy (guaranteed by the link and mailbox invariants) -/
def CInOK (stored : List UMsg) (psess : Nat) (c : Consumer) : CIn → Prop
  | .fromProducer (.regAck s nx _) => s = psess ∧ (c.session = 0 → nx = 1)
  | .fromProducer (.sequenced _ i q pl) => InLog stored i q pl
  | .confirmed s i q => (∃ pl, InLog stored i q pl) ∧ s = c.session
  | .tick => True

/-- what the monitor sees before the handler runs: the endpoint's confirmation -/
def preMon (m : Mon) : CIn → Mon
  | .confirmed _ _ q => m.step (.confirm q)
  | _ => m

/-- the monitor after a consumer-controller handler call (its outputs, then the state digest) -/
def postMon (m : Mon) (cin : CIn) (c' : Consumer) (o : List COut) : Mon :=
  ((preMon m cin).run (obsOfC o)).step (cstateOf c')

structure CPost (stored : List UMsg) (psess : Nat) (c : Consumer) (m : Mon) (cin : CIn) (c' : Consumer) (o : List COut) : Prop where
  loc : CLoc c' stored psess
  mon : CMon c' stored (postMon m cin c' o)
  outs : ∀ x ∈ o, COutOK c' stored x
  mono : c.requestUpToSeq ≤ c'.requestUpToSeq
  sess : c.session ≠ 0 → c'.session = c.session
  dem : (postMon m cin c' o).okDemand = m.okDemand
  wnd : c'.window = c.window
  cmono : c.confirmedSeq ≤ c'.confirmedSeq

theorem Mon.step_cstate {c : Consumer} {m : Mon} (hL : CLoc c stored psess) (hM : CMon c stored m) :
    m.step (cstateOf c) = m := by
  have h1 : decide (c.buffer.length ≤ c.window) = true := by simpa using hL.buflen
  have h2 : decide (c.requestUpToSeq ≤ c.confirmedSeq + c.window) = true := by simpa using hL.win
  have hw := hM.win
  simp only [cstateOf, Mon.step, h1, h2]
  cases m; simp_all

theorem CPost.of_trans {cin : CIn} {c0 c' : Consumer} {o : List COut}
    (h : CTrans stored psess c0 (preMon m cin) c' o) (e1 : c0.requestUpToSeq = c.requestUpToSeq)
    (e2 : c0.session = c.session) (e3 : c0.window = c.window) (e4 : (preMon m cin).okDemand = m.okDemand)
    (e5 : c.confirmedSeq ≤ c0.confirmedSeq := by exact Nat.le_refl _) :
    CPost stored psess c m cin c' o := by
  have hst : postMon m cin c' o = (preMon m cin).run (obsOfC o) := Mon.step_cstate h.loc h.mon
  exact ⟨h.loc, hst ▸ h.mon, h.outs, e1 ▸ h.mono, e2 ▸ h.sess, by rw [hst, h.dem, e4], by rw [h.wnd, e3], Nat.le_trans e5 h.cmono⟩

/-- every consumer-controller handler call re-establishes the consumer half of the invariant -/
theorem CPost.handle (hLog : LogOK stored) (hps : psess ≠ 0) (hL : CLoc c stored psess) (hM : CMon c stored m)
    (cin : CIn) (now : Nat) (hin : CInOK stored psess c cin) :
    CPost stored psess c m cin (c.handle cin now).1 (c.handle cin now).2 := by
  unfold Consumer.handle
  split
  · rename_i hf; rw [hL.nf] at hf; cases hf
  · split
    · rename_i s nx n
      exact CPost.of_trans (cin := .fromProducer (.regAck s nx n)) (CTrans.handleRegAck hL hM s nx n hps hin.1 hin.2) rfl rfl rfl rfl
    · rename_i s i q pl
      exact CPost.of_trans (cin := .fromProducer (.sequenced s i q pl)) (CTrans.handleSequenced hLog hL hM s i q pl now hin) rfl rfl rfl rfl
    · rename_i s i q
      obtain ⟨c0, e1, e2, e3, e5, h⟩ := handleConfirmed_ok hLog hL hM s i q now hin.1 hin.2
      exact CPost.of_trans (cin := .confirmed s i q) h e1 e2 e3 (Mon.step_confirm_okDemand _ _) e5
    · exact CPost.of_trans (cin := .tick) (CTrans.handleTick hLog hL hM now) rfl rfl rfl rfl

end GoaktVerif.C42

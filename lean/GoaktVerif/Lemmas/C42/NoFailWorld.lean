import GoaktVerif.Lemmas.C42.NoFailUser

/-! World level: the producer controller never fails along any script (window ≤ MaxReliableFlowControlWindow). -/
namespace GoaktVerif.C42
open GoaktVerif.Model.C42 GoaktVerif.Spec.C42

structure Inv2 (w : World) : Prop where
  u : UInv w.p w.inboxP w.userP
  win : w.c.window ≤ maxWindow

/-- what is in flight from the consumer controller is legal for the producer controller -/
theorem legal_of_net {w : World} {m : Mon} (h : Inv w m) (h2 : Inv2 w) (x : CMsg) (hx : x ∈ w.netCP) :
    PLegal w.p (.fromConsumer x) := by
  have hc := h.netCP x hx
  have hle : w.c.confirmedSeq ≤ w.p.currentSeq := by rw [← h.pl.len]; exact h.cl.cle
  cases x with
  | register n => trivial
  | request s n c u v =>
    intro _
    obtain ⟨_, _, a, b⟩ := hc
    have := h2.win
    exact ⟨by omega, by omega, by omega⟩
  | ack s n c =>
    intro _
    have := hc.2
    omega

theorem UInv.handleNet {p : Producer} {inbox : List PUMsg} {u : UserP} (h : UInv p inbox u) (x : CMsg)
    (hl : PLegal p (.fromConsumer x)) :
    UInv (p.handle (.fromConsumer x)).1 (inbox ++ puOf (p.handle (.fromConsumer x)).2) u := by
  simp only [Producer.handle, h.nf, Bool.false_eq_true, if_false]
  cases x with
  | register n => exact h.register n
  | request s n c u' v => exact h.request s n c u' v hl
  | ack s n c => exact h.ack s n c hl

theorem UInv.handleTick {p : Producer} {inbox : List PUMsg} {u : UserP} (h : UInv p inbox u) :
    UInv (p.handle .tick).1 (inbox ++ puOf (p.handle .tick).2) u := by
  simp only [Producer.handle, h.nf, Bool.false_eq_true, if_false]
  exact h.tick

/-- steps of the consumer side leave the producer side alone -/
theorem stepC_frame (w : World) (cin : CIn) :
    (w.stepC cin).1.p = w.p ∧ (w.stepC cin).1.inboxP = w.inboxP ∧ (w.stepC cin).1.userP = w.userP := ⟨rfl, rfl, rfl⟩

theorem Inv2.stepC {w : World} {m : Mon} (h : Inv w m) (h2 : Inv2 w) (cin : CIn) (hin : CInOK w.stored w.p.session w.c cin) :
    Inv2 (w.stepC cin).1 := by
  have hc := CPost.handle h.logOK h.pl.sess h.cl h.cm cin w.now hin
  exact ⟨h2.u, by show (w.c.handle cin w.now).1.window ≤ maxWindow; rw [hc.wnd]; exact h2.win⟩

theorem Inv2.step {w : World} {m : Mon} (h : Inv w m) (h2 : Inv2 w) (s : Step) : Inv2 (w.step s).1 := by
  cases s with
  | deliverPC i =>
    simp only [World.step]
    split
    · rename_i x hx
      have h1 : Inv { w with netPC := w.netPC.eraseIdx i } m :=
        h.shrink _ rfl rfl rfl h.user (fun y hy => mem_eraseIdx hy) (fun _ h => h) (fun _ h => h)
      exact Inv2.stepC h1 ⟨h2.u, h2.win⟩ (.fromProducer x) (CInOK.ofNet h x (mem_of_getElem? hx))
    · exact h2
  | dupPC i =>
    simp only [World.step]
    split
    · rename_i x hx
      exact Inv2.stepC h h2 (.fromProducer x) (CInOK.ofNet h x (mem_of_getElem? hx))
    · exact h2
  | dropPC i => exact ⟨h2.u, h2.win⟩
  | deliverCP i =>
    simp only [World.step]
    split
    · rename_i x hx
      exact ⟨h2.u.handleNet x (legal_of_net h h2 x (mem_of_getElem? hx)), h2.win⟩
    · exact h2
  | dupCP i =>
    simp only [World.step]
    split
    · rename_i x hx
      exact ⟨h2.u.handleNet x (legal_of_net h h2 x (mem_of_getElem? hx)), h2.win⟩
    · exact h2
  | dropCP i => exact ⟨h2.u, h2.win⟩
  | tickP => exact ⟨h2.u.handleTick, h2.win⟩
  | tickC => exact Inv2.stepC h h2 .tick trivial
  | userP =>
    simp only [World.step]
    split
    · exact h2
    · rename_i m0 rest hin
      have hu : UInv w.p (m0 :: rest) w.userP := hin ▸ h2.u
      cases m0 with
      | requestNext s t =>
        obtain ⟨pin, hp, hu'⟩ := hu.reactRequestNext
        simp only [hp]
        exact ⟨hu', h2.win⟩
      | stored s t i q =>
        have hu' := hu.reactStored
        simp only [UserP.react]
        exact ⟨hu', h2.win⟩
      | deliveryConfirmed s i q =>
        simp only [UserP.react]
        exact ⟨hu.tail, h2.win⟩
  | userPDrop =>
    simp only [World.step]
    refine ⟨?_, h2.win⟩
    cases hin : w.inboxP with
    | nil => simpa [hin] using h2.u
    | cons m0 rest => have hu : UInv w.p (m0 :: rest) w.userP := hin ▸ h2.u; simpa using hu.tail
  | userC confirm =>
    simp only [World.step]
    split
    · exact h2
    · rename_i d rest hin
      have hd := h.inboxC d (by rw [hin]; simp)
      split
      · have h1 : Inv { w with inboxC := rest, confirmedByUser := w.confirmedByUser ++ [d.seq] } m :=
          h.shrink _ rfl rfl rfl h.user (fun _ h => h) (fun _ h => h) (fun y hy => by rw [hin]; simp [hy])
        exact Inv2.stepC h1 ⟨h2.u, h2.win⟩ (.confirmed d.session d.id d.seq) ⟨⟨_, hd.1⟩, hd.2.1⟩
      · exact ⟨h2.u, h2.win⟩
  | userCDrop => exact ⟨h2.u, h2.win⟩
  | time t => exact ⟨h2.u, h2.win⟩

theorem Inv2.init (window interval : Nat) (dc : Bool) (hw : window ≤ maxWindow) : Inv2 (World.init window interval dc) := by
  refine ⟨⟨rfl, by simp [World.init], ?_, ?_, ?_, ?_, ?_, ?_, ?_⟩, hw⟩
  all_goals simp [World.init, ansTok, ansId]

/-- both invariants along a run -/
theorem run_inv (w : World) (m : Mon) (ss : List Step) (h : Inv w m) (h2 : Inv2 w) :
    ∃ m', Inv (w.run ss).1 m' ∧ Inv2 (w.run ss).1 := by
  induction ss generalizing w m with
  | nil => exact ⟨m, h, h2⟩
  | cons s ss ih => simp only [World.run]; exact ih _ _ (h.step s) (h2.step h s)

end GoaktVerif.C42

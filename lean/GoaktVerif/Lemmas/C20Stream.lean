import GoaktVerif.Model.C20.Stream
import GoaktVerif.Spec.C20

/-
C20 — the sequential event-stream model (`Model.C20.Stream`: shared topic relation, registry, per-subscriber
queues, exactly as `EventsStream` keeps them) delivers, for EVERY operation sequence, exactly what the
per-subscriber specification (`Spec.C20.viewStep`/`specRun`) prescribes.
-/
set_option linter.unusedSimpArgs false

namespace GoaktVerif.C20
open GoaktVerif.Model.C20.Stream GoaktVerif.Spec.C20

/-- simulation relation between the model state and the list of independent views -/
structure Rel (s : State) (vs : List View) : Prop where
  len : vs.length = s.subs.length
  reg : ∀ i sb, s.subs[i]? = some sb → sb.active = true → i ∈ s.registry
  bound : ∀ (t : Nat) (i : Nat), (t, i) ∈ s.rel → i < s.subs.length
  view : ∀ i sb, s.subs[i]? = some sb →
    ∃ v, vs[i]? = some v ∧ v.alive = sb.active ∧ v.pending = sb.queue ∧
      (sb.active = true → ∀ t, (t, i) ∈ s.rel ↔ t ∈ v.subscribed)

theorem rel_init : Rel init [] := by
  constructor
  · rfl
  · intro i sb h; simp [init] at h
  · intro t i h; simp [init] at h
  · intro i sb h; simp [init] at h

theorem mem_insertNew {α} [DecidableEq α] (l : List α) (a b : α) : b ∈ insertNew l a ↔ b ∈ l ∨ b = a := by
  unfold insertNew
  split
  · constructor
    · intro h; exact Or.inl h
    · intro h; cases h with
      | inl h => exact h
      | inr h => subst h; assumption
  · simp

theorem getElem?_modify' {α} (l : List α) (i j : Nat) (f : α → α) :
    (l.modify i f)[j]? = (l[j]?).map (fun a => if i = j then f a else a) := by
  rw [List.getElem?_modify]; rfl

/-- the views after an operation that is not `add` -/
abbrev stepViews (vs : List View) (op : Op) : List View := vs.mapIdx fun i v => viewStep i v op

theorem getElem?_stepViews (vs : List View) (op : Op) (i : Nat) :
    (stepViews vs op)[i]? = (vs[i]?).map (fun v => viewStep i v op) := by
  simp [stepViews, List.getElem?_mapIdx]

/-! #### publish -/

theorem rel_publish {s vs} (h : Rel s vs) (t k) : Rel (publish s t k) (stepViews vs (.pub t k)) := by
  constructor
  · simp [publish, h.len]
  · intro i sb hi hact
    simp only [publish, List.getElem?_mapIdx] at hi
    cases hs : s.subs[i]? with
    | none => simp [hs] at hi
    | some sb0 =>
      simp only [hs, Option.map_some, Option.some.injEq] at hi
      have : sb0.active = true := by
        subst hi; split at hact <;> simpa using hact
      exact h.reg i sb0 hs this
  · intro t' i hm
    simpa [publish] using h.bound t' i hm
  · intro i sb hi
    simp only [publish, List.getElem?_mapIdx] at hi
    cases hs : s.subs[i]? with
    | none => simp [hs] at hi
    | some sb0 =>
      simp only [hs, Option.map_some, Option.some.injEq] at hi
      obtain ⟨v, hv, ha, hp, hsub⟩ := h.view i sb0 hs
      refine ⟨viewStep i v (.pub t k), ?_, ?_, ?_, ?_⟩
      · simp [hv]
      · subst hi; simp only [viewStep]; split <;> split <;> simp_all
      · subst hi
        simp only [viewStep]
        by_cases hact : sb0.active = true
        · have := hsub hact t
          by_cases hm : (t, i) ∈ s.rel
          · have hm' := this.mp hm
            simp [hact, hm, hm', ha, hp]
          · have hm' : t ∉ v.subscribed := fun x => hm (this.mpr x)
            simp [hm, hm', hp]
        · simp [hact, ha, hp]
      · subst hi
        intro hact t'
        have hact0 : sb0.active = true := by split at hact <;> simpa using hact
        have := hsub hact0 t'
        simp only [publish, viewStep]
        split <;> simpa using this

theorem rel_foldl_publish {s vs} (h : Rel s vs) (k) (ts : List Topic) :
    Rel (ts.foldl (fun s t => publish s t k) s) (ts.foldl (fun vs t => stepViews vs (.pub t k)) vs) := by
  induction ts generalizing s vs with
  | nil => simpa using h
  | cons t ts ih => simpa using ih (rel_publish h t k)

/-- a broadcast is, view by view, the sequence of its publishes -/
theorem viewStep_bc (i : SubId) (v : View) (k : Nat) (ts : List Topic) :
    viewStep i v (.bc k ts) = ts.foldl (fun v t => viewStep i v (.pub t k)) v := by
  induction ts generalizing v with
  | nil => simp [viewStep]
  | cons t ts ih =>
    rw [List.foldl_cons, ← ih]
    simp only [viewStep]
    by_cases ha : v.alive = true <;> by_cases hm : t ∈ v.subscribed <;> simp [ha, hm]

theorem stepViews_bc (vs : List View) (k : Nat) (ts : List Topic) :
    stepViews vs (.bc k ts) = ts.foldl (fun vs t => stepViews vs (.pub t k)) vs := by
  induction ts generalizing vs with
  | nil =>
    apply List.ext_getElem?
    intro i
    simp only [getElem?_stepViews, List.foldl_nil]
    cases vs[i]? <;> simp [viewStep]
  | cons t ts ih =>
    rw [List.foldl_cons, ← ih]
    apply List.ext_getElem?
    intro i
    simp only [getElem?_stepViews]
    cases vs[i]? with
    | none => simp
    | some v =>
      simp only [Option.map_some]
      rw [viewStep_bc, viewStep_bc, List.foldl_cons]

/-! #### unsubscribe -/

theorem rel_unsubscribe {s vs} (h : Rel s vs) (i t) :
    Rel (unsubscribe s i t) (stepViews vs (.unsub i t)) := by
  constructor
  · simp [unsubscribe, h.len]
  · intro j sb hj hact
    simp only [unsubscribe, getElem?_modify'] at hj
    cases hs : s.subs[j]? with
    | none => simp [hs] at hj
    | some sb0 =>
      simp only [hs, Option.map_some, Option.some.injEq] at hj
      have : sb0.active = true := by subst hj; split at hact <;> simpa using hact
      exact h.reg j sb0 hs this
  · intro t' j hm
    simp only [unsubscribe, List.mem_filter] at hm
    simpa [unsubscribe] using h.bound t' j hm.1
  · intro j sb hj
    simp only [unsubscribe, getElem?_modify'] at hj
    cases hs : s.subs[j]? with
    | none => simp [hs] at hj
    | some sb0 =>
      simp only [hs, Option.map_some, Option.some.injEq] at hj
      obtain ⟨v, hv, ha, hp, hsub⟩ := h.view j sb0 hs
      refine ⟨viewStep j v (.unsub i t), ?_, ?_, ?_, ?_⟩
      · simp [hv]
      · subst hj; by_cases hij : i = j <;> simp [viewStep, hij, ha]
      · subst hj; by_cases hij : i = j <;> simp [viewStep, hij, hp]
      · subst hj
        intro hact t'
        have hact0 : sb0.active = true := by split at hact <;> simpa using hact
        have := hsub hact0 t'
        simp only [unsubscribe, viewStep, List.mem_filter]
        by_cases hij : i = j
        · subst hij
          simp only [if_true]
          by_cases htt : t' = t
          · subst htt; simp
          · simp [htt, this]
        · have : ¬ (t', j) = (t, i) := by
            intro e; exact hij (by injection e with _ e2; exact e2.symm)
          simp_all

/-- effect of the unsubscribe loop of `RemoveSubscriber` on everything except subscriber `i`'s topic set -/
theorem foldl_unsubscribe_frame (ts : List Topic) (s : State) (i : SubId) :
    let s' := ts.foldl (fun s t => unsubscribe s i t) s
    s'.registry = s.registry ∧ s'.subs.length = s.subs.length ∧
    (∀ j : Nat, (s'.subs[j]?).map (fun sb : Sub => (sb.active, sb.queue)) = (s.subs[j]?).map (fun sb : Sub => (sb.active, sb.queue))) ∧
    (∀ t j, j ≠ i → ((t, j) ∈ s'.rel ↔ (t, j) ∈ s.rel)) ∧ (∀ p, p ∈ s'.rel → p ∈ s.rel) := by
  induction ts generalizing s with
  | nil => simp
  | cons t ts ih =>
    simp only [List.foldl_cons]
    obtain ⟨h1, h2, h3, h4, h5⟩ := ih (unsubscribe s i t)
    refine ⟨by simpa [unsubscribe] using h1, by simpa [unsubscribe] using h2, ?_, ?_, ?_⟩
    rotate_left 2
    · intro p hp
      have := h5 p hp
      simp only [unsubscribe, List.mem_filter] at this
      exact this.1
    · intro j
      rw [h3 j]
      simp only [unsubscribe, getElem?_modify']
      cases s.subs[j]? with
      | none => simp
      | some sb => by_cases hij : i = j <;> simp [hij]
    · intro t' j hj
      rw [h4 t' j hj]
      simp only [unsubscribe, List.mem_filter]
      have : ¬ (t', j) = (t, i) := by
        intro e; exact hj (by injection e)
      simp [this]

/-! #### the remaining operations -/

theorem rel_of_pointwise {s s' : State} {vs vs' : List View} (h : Rel s vs)
    (hlen : s'.subs.length = s.subs.length) (hvlen : vs'.length = vs.length)
    (hreg : ∀ i sb', s'.subs[i]? = some sb' → sb'.active = true → i ∈ s'.registry)
    (hbound : ∀ (t : Nat) (i : Nat), (t, i) ∈ s'.rel → i < s'.subs.length)
    (hview : ∀ i sb v, s.subs[i]? = some sb → vs[i]? = some v → v.alive = sb.active → v.pending = sb.queue →
        (sb.active = true → ∀ t, (t, i) ∈ s.rel ↔ t ∈ v.subscribed) →
        ∃ sb' v', s'.subs[i]? = some sb' ∧ vs'[i]? = some v' ∧ v'.alive = sb'.active ∧ v'.pending = sb'.queue ∧
          (sb'.active = true → ∀ t, (t, i) ∈ s'.rel ↔ t ∈ v'.subscribed)) : Rel s' vs' := by
  constructor
  · rw [hvlen, h.len, hlen]
  · exact hreg
  · exact hbound
  · intro i sb' hi
    have hlt : i < s.subs.length := by
      rw [← hlen]; exact (List.getElem?_eq_some_iff.mp hi).1
    have hs : s.subs[i]? = some s.subs[i] := List.getElem?_eq_getElem hlt
    obtain ⟨v, hv, ha, hp, hsub⟩ := h.view i _ hs
    obtain ⟨sb'', v', h1, h2, h3, h4, h5⟩ := hview i _ v hs hv ha hp hsub
    rw [hi] at h1
    cases h1
    exact ⟨v', h2, h3, h4, h5⟩

theorem stepViews_length (vs : List View) (op : Op) : (stepViews vs op).length = vs.length := by
  simp [stepViews]

/-- an operation on a subscriber index that does not exist changes nothing -/
theorem rel_nosub {s vs} (h : Rel s vs) (i : SubId) (op : Op) (hs : s.subs[i]? = none)
    (hop : ∀ j v, i ≠ j → viewStep j v op = v) : Rel s (stepViews vs op) := by
  apply rel_of_pointwise h rfl (stepViews_length _ _) h.reg h.bound
  intro j sb v hj hv ha hp hsub
  have hij : i ≠ j := by intro e; subst e; rw [hs] at hj; cases hj
  exact ⟨sb, v, hj, by simp [hv, hop j v hij], ha, hp, hsub⟩

/-- registry membership survives an update of the subscriber list that never activates anybody -/
theorem reg_of_modify {s : State} {vs} (h : Rel s vs) (i : SubId) (f : Sub → Sub)
    (hf : ∀ sb, (f sb).active = true → sb.active = true) :
    ∀ j sb', (s.subs.modify i f)[j]? = some sb' → sb'.active = true → j ∈ s.registry := by
  intro j sb' hj ha'
  simp only [getElem?_modify'] at hj
  cases hsj : s.subs[j]? with
  | none => simp [hsj] at hj
  | some sb0 =>
    simp only [hsj, Option.map_some, Option.some.injEq] at hj
    have : sb0.active = true := by
      subst hj
      split at ha'
      · exact hf _ ha'
      · exact ha'
    exact h.reg j sb0 hsj this

theorem rel_sub {s vs} (h : Rel s vs) (i t) : Rel (step s (.sub i t)).1 (stepViews vs (.sub i t)) := by
  simp only [step]
  cases hs : s.subs[i]? with
  | none =>
    exact rel_nosub h i _ hs (by intro j v hij; simp [viewStep, hij])
  | some sbi =>
    by_cases hact : sbi.active = true
    · simp only [hact, if_true]
      apply rel_of_pointwise h (by simp) (stepViews_length _ _)
      · exact reg_of_modify h i _ (by intro sb hx; exact hx)
      · intro t' j hm
        simp only [mem_insertNew] at hm
        simp only [List.length_modify]
        cases hm with
        | inl hm => exact h.bound t' j hm
        | inr hm =>
          injection hm with _ e; subst e
          exact (List.getElem?_eq_some_iff.mp hs).1
      · intro j sb v hj hv ha hp hsub
        by_cases hij : i = j
        · subst hij
          rw [hs] at hj; cases hj
          refine ⟨{ sbi with topics := insertNew sbi.topics t }, viewStep i v (.sub i t), ?_, ?_, ?_, ?_, ?_⟩
          · simp [getElem?_modify', hs]
          · simp [hv]
          · simp [viewStep, ha, hact]
          · simp [viewStep, ha, hact, hp]
          · intro _ t'
            simp only [viewStep, ha, hact, and_self, if_true, mem_insertNew, List.mem_cons, hsub hact t']
            constructor
            · intro x; cases x with
              | inl x => exact Or.inr x
              | inr x => injection x with x _; exact Or.inl x
            · intro x; cases x with
              | inl x => subst x; exact Or.inr rfl
              | inr x => exact Or.inl x
        · refine ⟨sb, v, by simp [getElem?_modify', hj, hij], by simp [hv, viewStep, hij], ha, hp, ?_⟩
          intro ha' t'
          have : ¬ (t', j) = (t, i) := by intro e; injection e with _ e; exact hij e.symm
          simp [mem_insertNew, this, hsub ha' t']
    · simp only [hact, Bool.false_eq_true, if_false]
      apply rel_of_pointwise h rfl (stepViews_length _ _) h.reg h.bound
      intro j sb v hj hv ha hp hsub
      refine ⟨sb, v, hj, ?_, ha, hp, hsub⟩
      by_cases hij : i = j
      · subst hij; rw [hs] at hj; cases hj
        simp [hv, viewStep, ha, hact]
      · simp [hv, viewStep, hij]

theorem rel_shut {s vs} (h : Rel s vs) (i) : Rel (step s (.shut i)).1 (stepViews vs (.shut i)) := by
  simp only [step]
  cases hs : s.subs[i]? with
  | none => exact rel_nosub h i _ hs (by intro j v hij; simp [viewStep, hij])
  | some sbi =>
    apply rel_of_pointwise h (by simp) (stepViews_length _ _)
    · exact reg_of_modify h i _ (by intro sb hx; simp at hx)
    · intro t' j hm; simpa using h.bound t' j hm
    · intro j sb v hj hv ha hp hsub
      by_cases hij : i = j
      · subst hij
        refine ⟨{ sb with active := false }, viewStep i v (.shut i), ?_, ?_, ?_, ?_, ?_⟩
        · simp [getElem?_modify', hj]
        · simp [hv]
        · simp [viewStep]
        · simp [viewStep, hp]
        · simp
      · exact ⟨sb, v, by simp [getElem?_modify', hj, hij], by simp [hv, viewStep, hij], ha, hp, hsub⟩

theorem rel_it {s vs} (h : Rel s vs) (i) : Rel (step s (.it i)).1 (stepViews vs (.it i)) := by
  simp only [step]
  cases hs : s.subs[i]? with
  | none => exact rel_nosub h i _ hs (by intro j v hij; simp [viewStep, hij])
  | some sbi =>
    apply rel_of_pointwise h (by simp) (stepViews_length _ _)
    · exact reg_of_modify h i _ (by intro sb hx; exact hx)
    · intro t' j hm; simpa using h.bound t' j hm
    · intro j sb v hj hv ha hp hsub
      by_cases hij : i = j
      · subst hij
        refine ⟨{ sb with queue := [] }, viewStep i v (.it i), ?_, ?_, ?_, ?_, ?_⟩
        · simp [getElem?_modify', hj]
        · simp [hv]
        · simp [viewStep, ha]
        · simp [viewStep]
        · simpa [viewStep] using hsub
      · exact ⟨sb, v, by simp [getElem?_modify', hj, hij], by simp [hv, viewStep, hij], ha, hp, hsub⟩

theorem rel_close {s vs} (h : Rel s vs) : Rel (step s .close).1 (stepViews vs .close) := by
  simp only [step]
  have dead : ∀ j (sb : Sub), s.subs[j]? = some sb →
      (if decide (j ∈ s.registry) then { sb with active := false } else sb).active = false := by
    intro j sb hj
    by_cases hr : j ∈ s.registry
    · simp [hr]
    · cases hb : sb.active with
      | false => simp [hr, hb]
      | true => exact absurd (h.reg j sb hj hb) hr
  apply rel_of_pointwise h (by simp) (stepViews_length _ _)
  · intro j sb' hj ha'
    simp only [List.getElem?_mapIdx] at hj
    cases hsj : s.subs[j]? with
    | none => simp [hsj] at hj
    | some sb0 =>
      simp only [hsj, Option.map_some, Option.some.injEq] at hj
      have := dead j sb0 hsj
      rw [hj, ha'] at this
      cases this
  · intro t' j hm; simp at hm
  · intro j sb v hj hv ha hp hsub
    refine ⟨if decide (j ∈ s.registry) then { sb with active := false } else sb, viewStep j v .close, ?_, ?_, ?_, ?_, ?_⟩
    · simp [List.getElem?_mapIdx, hj]
    · simp [hv]
    · rw [dead j sb hj]; simp [viewStep]
    · by_cases hr : j ∈ s.registry <;> simp [viewStep, hr, hp]
    · intro ha'
      rw [dead j sb hj] at ha'
      cases ha'

theorem rel_rm {s vs} (h : Rel s vs) (i) : Rel (step s (.rm i)).1 (stepViews vs (.rm i)) := by
  simp only [step]
  cases hs : s.subs[i]? with
  | none => exact rel_nosub h i _ hs (by intro j v hij; simp [viewStep, hij])
  | some sbi =>
    obtain ⟨f1, f2, f3, f4, f5⟩ := foldl_unsubscribe_frame sbi.topics s i
    apply rel_of_pointwise h (by simp [f2]) (stepViews_length _ _)
    · intro j sb' hj ha'
      simp only [getElem?_modify'] at hj
      have hf := f3 j
      cases hfj : (List.foldl (fun s t => unsubscribe s i t) s sbi.topics).subs[j]? with
      | none => simp [hfj] at hj
      | some sbf =>
        simp only [hfj, Option.map_some, Option.some.injEq] at hj
        cases hsj : s.subs[j]? with
        | none => simp [hfj, hsj] at hf
        | some sb0 =>
          simp only [hfj, hsj, Option.map_some, Option.some.injEq, Prod.mk.injEq] at hf
          by_cases hij : i = j
          · subst hj; simp [hij] at ha'
          · subst hj
            simp only [hij, if_false] at ha'
            have := h.reg j sb0 hsj (by rw [← hf.1]; exact ha')
            simp only [List.mem_filter, f1, this, true_and]
            simpa using fun e => hij e.symm
    · intro t' j hm
      simp only [List.length_modify, f2]
      exact h.bound t' j (f5 _ hm)
    · intro j sb v hj hv ha hp hsub
      have hf := f3 j
      cases hfj : (List.foldl (fun s t => unsubscribe s i t) s sbi.topics).subs[j]? with
      | none => simp [hfj, hj] at hf
      | some sbf =>
        simp only [hfj, hj, Option.map_some, Option.some.injEq, Prod.mk.injEq] at hf
        by_cases hij : i = j
        · subst hij
          refine ⟨{ sbf with active := false }, viewStep i v (.rm i), ?_, ?_, ?_, ?_, ?_⟩
          · simp [getElem?_modify', hfj]
          · simp [hv]
          · simp [viewStep]
          · simp [viewStep, hp, hf.2]
          · simp
        · refine ⟨sbf, v, by simp [getElem?_modify', hfj, hij], by simp [hv, viewStep, hij], by rw [ha, hf.1],
            by rw [hp, hf.2], ?_⟩
          intro ha' t'
          rw [f4 t' j (fun e => hij e.symm)]
          exact hsub (by rw [← hf.1]; exact ha') t'

theorem stepViews_noop (vs : List View) (op : Op) (h : ∀ i v, viewStep i v op = v) : stepViews vs op = vs := by
  apply List.ext_getElem?
  intro i
  simp only [getElem?_stepViews]
  cases vs[i]? <;> simp [h]

theorem rel_add {s vs} (h : Rel s vs) :
    Rel (step s .add).1 (vs ++ [{ alive := true, subscribed := [], pending := [] }]) := by
  simp only [step]
  constructor
  · simp [h.len]
  · intro (j : Nat) sb hj ha
    simp only [List.getElem?_append] at hj
    split at hj
    · exact List.mem_append_left _ (h.reg j sb hj ha)
    · have : j = s.subs.length := by
        have := (List.getElem?_eq_some_iff.mp hj).1
        simp only [List.length_singleton] at this; omega
      simp [this]
  · intro t (j : Nat) hm
    have := h.bound t j hm
    show j < (s.subs ++ [_]).length
    rw [List.length_append]; omega
  · intro (j : Nat) sb hj
    simp only [List.getElem?_append] at hj
    split at hj
    · rename_i hlt
      obtain ⟨v, hv, ha, hp, hsub⟩ := h.view j sb hj
      exact ⟨v, by rw [List.getElem?_append_left (by rw [h.len]; exact hlt)]; exact hv, ha, hp, hsub⟩
    · have hjl : j = s.subs.length := by
        have := (List.getElem?_eq_some_iff.mp hj).1
        simp only [List.length_singleton] at this; omega
      subst hjl
      simp at hj
      subst hj
      refine ⟨{ alive := true, subscribed := [], pending := [] }, by simp [List.getElem?_append, h.len], rfl, rfl, ?_⟩
      intro _ t
      constructor
      · intro hm
        exact absurd (h.bound t _ hm) (Nat.lt_irrefl _)
      · intro hm; cases hm

/-- the views after any operation -/
def nextViews (vs : List View) : Op → List View
  | .add => vs ++ [{ alive := true, subscribed := [], pending := [] }]
  | op => stepViews vs op

theorem rel_step {s vs} (h : Rel s vs) (op : Op) : Rel (step s op).1 (nextViews vs op) := by
  cases op with
  | add => exact rel_add h
  | sub i t => exact rel_sub h i t
  | unsub i t =>
    simp only [step, nextViews]
    cases hs : s.subs[i]? with
    | none => exact rel_nosub h i _ hs (by intro j v hij; simp [viewStep, hij])
    | some sb => exact rel_unsubscribe h i t
  | rm i => exact rel_rm h i
  | pub t k => exact rel_publish h t k
  | bc k ts =>
    simp only [step, nextViews]
    rw [stepViews_bc]
    exact rel_foldl_publish h k ts
  | it i => exact rel_it h i
  | shut i => exact rel_shut h i
  | close => exact rel_close h
  | count t =>
    simp only [step, nextViews]
    rw [stepViews_noop _ _ (by intro i v; simp [viewStep])]; exact h
  | tops i =>
    simp only [step, nextViews]
    rw [stepViews_noop _ _ (by intro i v; simp [viewStep])]
    cases s.subs[i]? <;> exact h
  | act i =>
    simp only [step, nextViews]
    rw [stepViews_noop _ _ (by intro i v; simp [viewStep])]
    cases s.subs[i]? <;> exact h

/-- what the specification says an operation returns, when it is an `it` -/
theorem specRun_cons (vs : List View) (op : Op) (ops : List Op) :
    specRun vs (op :: ops) =
      (match op with | .it i => [vs[i]?.map (·.pending)] | _ => []) ++ specRun (nextViews vs op) ops := by
  cases op <;> simp [specRun, nextViews, stepViews]

theorem stream_refines (ops : List Op) : ∀ s vs, Rel s vs → itOutputs ops (run s ops) = specRun vs ops := by
  induction ops with
  | nil => intro s vs _; simp [run, itOutputs, specRun]
  | cons op ops ih =>
    intro s vs h
    have ih' := ih (step s op).1 (nextViews vs op) (rel_step h op)
    rw [specRun_cons, ← ih']
    cases op with
    | it i =>
      simp only [run, step]
      cases hs : s.subs[i]? with
      | none =>
        have : vs[i]? = none := by
          apply List.getElem?_eq_none
          have := List.getElem?_eq_none_iff.mp hs
          rw [h.len]; exact this
        simp [itOutputs, this, hs, step]
      | some sb =>
        obtain ⟨v, hv, _, hp, _⟩ := h.view i sb hs
        simp [itOutputs, hv, hp, hs, step]
    | add => simp [run, itOutputs, step]
    | sub i t => simp only [run]; cases h1 : (step s (.sub i t)).2 <;> simp [itOutputs]
    | unsub i t => simp only [run]; cases h1 : (step s (.unsub i t)).2 <;> simp [itOutputs]
    | rm i => simp only [run]; cases h1 : (step s (.rm i)).2 <;> simp [itOutputs]
    | pub t k => simp only [run]; cases h1 : (step s (.pub t k)).2 <;> simp [itOutputs]
    | bc k ts => simp only [run]; cases h1 : (step s (.bc k ts)).2 <;> simp [itOutputs]
    | shut i => simp only [run]; cases h1 : (step s (.shut i)).2 <;> simp [itOutputs]
    | close => simp only [run]; cases h1 : (step s .close).2 <;> simp [itOutputs]
    | count t => simp only [run]; cases h1 : (step s (.count t)).2 <;> simp [itOutputs]
    | tops i => simp only [run]; cases h1 : (step s (.tops i)).2 <;> simp [itOutputs]
    | act i => simp only [run]; cases h1 : (step s (.act i)).2 <;> simp [itOutputs]

end GoaktVerif.C20

/-
C46 lemmas, part 4: Broadcast and Partition hubs with slot cancellation: a branch is sent every
(selected) element the hub handles until it cancels; afterwards nothing more.
-/
import GoaktVerif.Lemmas.C46.Hub

namespace GoaktVerif.C46
open GoaktVerif.Model.C45 (Val Down)
open GoaktVerif.Model.C46

theorem proj_filter_fst {α : Type} (L : List (Nat × α)) (p : Nat → Bool) (i : Nat) :
    proj (L.filter fun q => p q.1) i = if p i then proj L i else [] := by
  induction L with
  | nil => simp [proj]
  | cons q L ih =>
    simp only [proj] at ih ⊢
    by_cases hq : q.1 = i
    · by_cases hp : p i = true
      · simp [List.filter_cons, hq, hp] at ih ⊢; exact ih
      · have hp' : p i = false := by simpa using hp
        simp [List.filter_cons, hq, hp'] at ih ⊢; exact ih
    · by_cases hpq : p q.1 = true
      · simp [List.filter_cons, hq, hpq] at ih ⊢; exact ih
      · have hpq' : p q.1 = false := by simpa using hpq
        simp [List.filter_cons, hq, hpq'] at ih ⊢; exact ih

theorem liveSlots_map (s : HubSt) (v : Val) :
    (liveSlots s).map (fun i => (i, v)) =
      ((List.range s.n).map fun j => (j, v)).filter fun q => s.live.getD q.1 false := by
  simp [liveSlots, List.filter_map, Function.comp_def]

/-- each slot: everything while live, a prefix once cancelled -/
structure BcInvC (n : Nat) (s : HubSt) (t : HTrace) : Prop where
  size : s.n = n
  slots : ∀ i, i < n → (s.live.getD i false = true → proj t.sent i = t.ins) ∧ proj t.sent i <+: t.ins

theorem hubStep_n (k : HubKind) (s : HubSt) (ev : HEv) : (hubStep k s ev).1.n = s.n := by
  cases ev with
  | wire => rfl
  | slotDemand slot n => simp only [hubStep]; split <;> (try split) <;> simp
  | elem v =>
    cases k with
    | broadcast => simp [hubStep]
    | balance => simp [hubStep]
    | partition m => simp only [hubStep]; split <;> (split <;> simp)
  | complete => simp only [hubStep]; split <;> rfl
  | error e => rfl
  | slotCancel slot => simp only [hubStep]; split <;> simp

theorem getD_set_false (l : List Bool) (slot i : Nat) (h : (l.set slot false).getD i false = true) :
    l.getD i false = true := by
  simp only [List.getD_eq_getElem?_getD, List.getElem?_set] at h ⊢
  split at h
  · split at h <;> simp at h
  · exact h

theorem BcInvC.step {n : Nat} {s : HubSt} {t : HTrace} (h : BcInvC n s t) (ev : HEv) :
    BcInvC n (hubStep .broadcast s ev).1 (t.add ev (hubStep .broadcast s ev).2) := by
  refine ⟨by rw [hubStep_n]; exact h.size, ?_⟩
  cases ev with
  | elem v =>
    intro i hi
    obtain ⟨h1, h2⟩ := h.slots i hi
    have hlive : (hubStep .broadcast s (.elem v)).1.live = s.live := by simp [hubStep]
    have hsent : proj (t.add (.elem v) (hubStep .broadcast s (.elem v)).2).sent i =
        proj t.sent i ++ (if s.live.getD i false then [v] else []) := by
      simp only [HTrace.add, hubStep, elemsTo_map_elem, proj_append]
      have : liveSlots { s with pending := s.pending - 1 } = liveSlots s := rfl
      rw [this, liveSlots_map, proj_filter_fst _ (fun j => s.live.getD j false) i, h.size, proj_fanout n v i hi]
    have hins : (t.add (.elem v) (hubStep .broadcast s (.elem v)).2).ins = t.ins ++ [v] := rfl
    rw [hsent, hins, hlive]
    by_cases hl : s.live.getD i false = true
    · simp only [hl, if_true]
      exact ⟨fun _ => by rw [h1 hl], by rw [h1 hl]; exact List.prefix_refl _⟩
    · have hl' : s.live.getD i false = false := by simpa using hl
      simp only [hl', Bool.false_eq_true, if_false, List.append_nil]
      exact ⟨fun hh => by simp at hh, h2.trans (List.prefix_append _ _)⟩
  | slotCancel slot =>
    intro i hi
    obtain ⟨h1, h2⟩ := h.slots i hi
    have hsent : (t.add (.slotCancel slot) (hubStep .broadcast s (.slotCancel slot)).2).sent = t.sent := by
      simp only [HTrace.add, hubStep]; split <;> simp [elemsTo]
    have hins : (t.add (.slotCancel slot) (hubStep .broadcast s (.slotCancel slot)).2).ins = t.ins := rfl
    rw [hsent, hins]
    refine ⟨fun hl => h1 ?_, h2⟩
    have hlv : (hubStep .broadcast s (.slotCancel slot)).1.live = s.live.set slot false := by
      simp only [hubStep]; split <;> simp
    rw [hlv] at hl
    exact getD_set_false _ _ _ hl
  | wire =>
    intro i hi; obtain ⟨a, b⟩ := add_other .broadcast (by simp) s t .wire (by simp)
    rw [a, b]; exact h.slots i hi
  | slotDemand slot k =>
    intro i hi; obtain ⟨a, b⟩ := add_other .broadcast (by simp) s t (.slotDemand slot k) (by simp)
    have hlv : (hubStep .broadcast s (.slotDemand slot k)).1.live = s.live := by simp [hubStep]
    rw [a, b, hlv]; exact h.slots i hi
  | complete =>
    intro i hi; obtain ⟨a, b⟩ := add_other .broadcast (by simp) s t .complete (by simp)
    have hlv : (hubStep .broadcast s .complete).1.live = s.live := by simp [hubStep]
    rw [a, b, hlv]; exact h.slots i hi
  | error e =>
    intro i hi; obtain ⟨a, b⟩ := add_other .broadcast (by simp) s t (.error e) (by simp)
    rw [a, b]; exact h.slots i hi

theorem bcRunC_inv (n : Nat) (s : HubSt) (t : HTrace) (evs : List HEv) (h : BcInvC n s t) :
    BcInvC n (hubRun .broadcast (s, t) evs).1 (hubRun .broadcast (s, t) evs).2 := by
  induction evs generalizing s t with
  | nil => exact h
  | cons ev evs ih =>
    simp only [hubRun]
    by_cases ha : s.alive = true
    · simp only [ha, if_true]; exact ih _ _ (h.step ev)
    · simp only [ha]; exact ih _ _ h

/-! ### Partition with slot cancellation -/

structure PtInvC (n m : Nat) (s : HubSt) (t : HTrace) : Prop where
  size : s.n = n
  slots : ∀ i, i < n →
    (s.live.getD i false = true → proj t.sent i = t.ins.filter (fun v => sel m v = i)) ∧
    proj t.sent i <+: t.ins.filter (fun v => sel m v = i)

theorem PtInvC.step {n m : Nat} {s : HubSt} {t : HTrace} (h : PtInvC n m s t) (ev : HEv)
    (hint : ∀ v, ev = .elem v → ∃ x, v = Val.int x) :
    PtInvC n m (hubStep (.partition m) s ev).1 (t.add ev (hubStep (.partition m) s ev).2) := by
  refine ⟨by rw [hubStep_n]; exact h.size, ?_⟩
  cases ev with
  | elem v =>
    obtain ⟨x, rfl⟩ := hint v rfl
    intro i hi
    obtain ⟨h1, h2⟩ := h.slots i hi
    have hlive : (hubStep (.partition m) s (.elem (.int x))).1.live = s.live := by
      simp only [hubStep]; split <;> simp
    have hins : (t.add (.elem (.int x)) (hubStep (.partition m) s (.elem (.int x))).2).ins = t.ins ++ [.int x] := rfl
    rw [hins, hlive, List.filter_append]
    by_cases hgo : ((x.emod m).toNat < s.n && s.live.getD (x.emod m).toNat false) = true
    · have hsent : (t.add (.elem (.int x)) (hubStep (.partition m) s (.elem (.int x))).2).sent =
          t.sent ++ [((x.emod m).toNat, .int x)] := by
        simp only [HTrace.add, hubStep]
        simp only [hgo, if_true]
        simp [elemsTo]
      rw [hsent, proj_append]
      simp only [Bool.and_eq_true, decide_eq_true_eq] at hgo
      by_cases hxi : (x.emod m).toNat = i
      · have hl : s.live.getD i false = true := by rw [← hxi]; exact hgo.2
        have e1 : proj [((x.emod m).toNat, Val.int x)] i = [Val.int x] := by simp [proj, hxi]
        have e2 : List.filter (fun v => decide (sel m v = i)) [Val.int x] = [Val.int x] := by simp [sel, hxi]
        rw [e1, e2]
        exact ⟨fun _ => by rw [h1 hl], by rw [h1 hl]; exact List.prefix_refl _⟩
      · have : ¬ (sel m (.int x) = i) := by simpa [sel] using hxi
        have e1 : proj [((x.emod m).toNat, Val.int x)] i = [] := by simp [proj, hxi]
        have e2 : List.filter (fun v => decide (sel m v = i)) [Val.int x] = [] := by simp [sel, hxi]
        rw [e1, e2, List.append_nil, List.append_nil]
        exact ⟨h1, h2⟩
    · have hgo' : ((x.emod m).toNat < s.n && s.live.getD (x.emod m).toNat false) = false := by simpa using hgo
      have hsent : (t.add (.elem (.int x)) (hubStep (.partition m) s (.elem (.int x))).2).sent = t.sent := by
        simp only [HTrace.add, hubStep]
        simp only [hgo', Bool.false_eq_true, if_false]
        simp [elemsTo]
      rw [hsent]
      by_cases hxi : (x.emod m).toNat = i
      · -- selected but not live: the branch has cancelled, it only keeps its prefix
        have hl : s.live.getD i false = false := by
          rw [← hxi]
          simp only [Bool.and_eq_false_iff, decide_eq_false_iff_not] at hgo'
          rcases hgo' with hh | hh
          · rw [h.size, hxi] at hh; exact absurd hi hh
          · exact hh
        refine ⟨fun hh => by rw [hl] at hh; simp at hh, h2.trans (List.prefix_append _ _)⟩
      · have e2 : List.filter (fun v => decide (sel m v = i)) [Val.int x] = [] := by simp [sel, hxi]
        rw [e2, List.append_nil]
        exact ⟨h1, h2⟩
  | slotCancel slot =>
    intro i hi
    obtain ⟨h1, h2⟩ := h.slots i hi
    have hsent : (t.add (.slotCancel slot) (hubStep (.partition m) s (.slotCancel slot)).2).sent = t.sent := by
      simp only [HTrace.add, hubStep]; split <;> simp [elemsTo]
    have hins : (t.add (.slotCancel slot) (hubStep (.partition m) s (.slotCancel slot)).2).ins = t.ins := rfl
    rw [hsent, hins]
    refine ⟨fun hl => h1 ?_, h2⟩
    have hlv : (hubStep (.partition m) s (.slotCancel slot)).1.live = s.live.set slot false := by
      simp only [hubStep]; split <;> simp
    rw [hlv] at hl
    exact getD_set_false _ _ _ hl
  | wire =>
    intro i hi; obtain ⟨a, b⟩ := add_other (.partition m) (by simp) s t .wire (by simp)
    rw [a, b]; exact h.slots i hi
  | slotDemand slot k =>
    intro i hi; obtain ⟨a, b⟩ := add_other (.partition m) (by simp) s t (.slotDemand slot k) (by simp)
    have hlv : (hubStep (.partition m) s (.slotDemand slot k)).1.live = s.live := by simp [hubStep]
    rw [a, b, hlv]; exact h.slots i hi
  | complete =>
    intro i hi; obtain ⟨a, b⟩ := add_other (.partition m) (by simp) s t .complete (by simp)
    have hlv : (hubStep (.partition m) s .complete).1.live = s.live := by simp [hubStep]
    rw [a, b, hlv]; exact h.slots i hi
  | error e =>
    intro i hi; obtain ⟨a, b⟩ := add_other (.partition m) (by simp) s t (.error e) (by simp)
    rw [a, b]; exact h.slots i hi

theorem ptRunC_inv (n m : Nat) (s : HubSt) (t : HTrace) (evs : List HEv) (h : PtInvC n m s t)
    (hi : ∀ ev ∈ evs, ∀ v, ev = .elem v → ∃ x, v = Val.int x) :
    PtInvC n m (hubRun (.partition m) (s, t) evs).1 (hubRun (.partition m) (s, t) evs).2 := by
  induction evs generalizing s t with
  | nil => exact h
  | cons ev evs ih =>
    have hi' : ∀ e ∈ evs, ∀ v, e = .elem v → ∃ x, v = Val.int x := fun e he => hi e (by simp [he])
    simp only [hubRun]
    by_cases ha : s.alive = true
    · simp only [ha, if_true]; exact ih _ _ (h.step ev (hi ev (by simp))) hi'
    · simp only [ha]; exact ih _ _ h hi'

end GoaktVerif.C46

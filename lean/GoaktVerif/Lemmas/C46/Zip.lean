/-
C46 lemmas, part 5: Zip pairs positionally — the i-th components of the tuples sent so far, followed by
what slot i still buffers, are exactly the values that arrived on slot i, in order.
-/
import GoaktVerif.Model.C46
import GoaktVerif.Lemmas.C46.Interleave

namespace GoaktVerif.C46
open GoaktVerif.Model.C45 (Val)
open GoaktVerif.Model.C46

/-- the i-th component of an emitted tuple -/
def tupAt (i : Nat) : Val → Option Val
  | .list l => (l[i]?).map Val.int
  | _ => none

/-- every buffered value is an int and the buffer heads exist -/
def IntBufs (bufs : List (List Val)) : Prop := ∀ b ∈ bufs, ∀ v ∈ b, ∃ x, v = Val.int x

theorem heads_get (bufs : List (List Val)) (hi : IntBufs bufs) (hr : allReady bufs = true) :
    ∀ i, i < bufs.length → ∃ x tl, bufs[i]? = some (Val.int x :: tl) ∧ tupAt i (headsTuple bufs) = some (Val.int x) := by
  -- generalise over the position offset inside the heads list
  suffices h : ∀ (pre : List Int) (bufs : List (List Val)), IntBufs bufs → allReady bufs = true →
      ∀ i, i < bufs.length → ∃ x tl, bufs[i]? = some (Val.int x :: tl) ∧
        (pre ++ bufs.filterMap headInt)[pre.length + i]? = some x by
    intro i hlt
    obtain ⟨x, tl, h1, h2⟩ := h [] bufs hi hr i hlt
    exact ⟨x, tl, h1, by simpa [tupAt, headsTuple] using h2⟩
  intro pre bufs
  induction bufs generalizing pre with
  | nil => intro _ _ i hlt; simp at hlt
  | cons b bs ih =>
    intro hi hr i hlt
    have hb : ∃ x tl, b = Val.int x :: tl := by
      cases b with
      | nil => simp [allReady] at hr
      | cons v tl =>
        obtain ⟨x, rfl⟩ := hi (v :: tl) (by simp) v (by simp)
        exact ⟨x, tl, rfl⟩
    obtain ⟨x, tl, rfl⟩ := hb
    have hi' : IntBufs bs := fun b hb v hv => hi b (by simp [hb]) v hv
    have hr' : allReady bs = true := by simp [allReady] at hr ⊢; exact hr
    cases i with
    | zero => exact ⟨x, tl, by simp, by simp [headInt]⟩
    | succ i =>
      obtain ⟨y, tl', h1, h2⟩ := ih (pre ++ [x]) hi' hr' i (by simpa using hlt)
      refine ⟨y, tl', by simpa using h1, ?_⟩
      simp only [List.filterMap_cons, headInt, List.length_append, List.length_singleton] at h2 ⊢
      have : pre.length + (i + 1) = pre.length + 1 + i := by omega
      rw [this]
      simpa [List.append_assoc] using h2

theorem proj_append' {α : Type} (a b : List (Nat × α)) (i : Nat) : proj (a ++ b) i = proj a i ++ proj b i := by
  simp [proj]

/-- what the emit loop sends and leaves, per slot -/
theorem zipEmit_spec (n : Nat) : ∀ (fuel : Nat) (d : Int) (bufs : List (List Val)), bufs.length = n → IntBufs bufs →
    (zipEmit fuel d bufs).2.1.length = n ∧ IntBufs (zipEmit fuel d bufs).2.1 ∧
    ∀ i, i < n → (zipEmit fuel d bufs).2.2.filterMap (tupAt i) ++ (zipEmit fuel d bufs).2.1.getD i [] = bufs.getD i [] := by
  intro fuel
  induction fuel with
  | zero => intro d bufs hl hi; exact ⟨hl, hi, fun i _ => by simp [zipEmit]⟩
  | succ fuel ih =>
    intro d bufs hl hi
    simp only [zipEmit]
    split
    · rename_i hc
      simp only [Bool.and_eq_true, decide_eq_true_eq] at hc
      have hr := hc.1.2
      have hl' : (bufs.map List.tail).length = n := by simpa using hl
      have hi' : IntBufs (bufs.map List.tail) := by
        intro b hb v hv
        obtain ⟨b0, hb0, rfl⟩ := List.mem_map.mp hb
        exact hi b0 hb0 v (List.mem_of_mem_tail hv)
      obtain ⟨r1, r2, r3⟩ := ih (d - 1) (bufs.map List.tail) hl' hi'
      refine ⟨r1, r2, fun i hlt => ?_⟩
      obtain ⟨x, tl, hb, ht⟩ := heads_get bufs hi hr i (by omega)
      have := r3 i hlt
      simp only [List.filterMap_cons, ht, List.cons_append]
      rw [this]
      simp [List.getD_eq_getElem?_getD, hb]
    · exact ⟨hl, hi, fun i _ => by simp⟩

/-- ghost record: arrivals (slot, value) and tuples sent -/
structure ZTrace where
  arr : List (Nat × Val) := []
  sent : List Val := []

def ZTrace.add (t : ZTrace) (ev : JEv) (o : ZOut) : ZTrace :=
  { arr := match ev with | .value slot v => t.arr ++ [(slot, v)] | _ => t.arr, sent := t.sent ++ o.elems }

def zipRun (n : Nat) : ZipSt × ZTrace → List JEv → ZipSt × ZTrace
  | st, [] => st
  | (s, t), ev :: evs =>
    if s.alive then let r := zipStep n s ev; zipRun n (r.1, t.add ev r.2) evs
    else zipRun n (s, t) evs

structure ZInv (n : Nat) (s : ZipSt) (t : ZTrace) : Prop where
  len : s.bufs.length = n
  ints : IntBufs s.bufs
  cols : ∀ i, i < n → t.sent.filterMap (tupAt i) ++ s.bufs.getD i [] = proj t.arr i

theorem tryEmit_spec {n : Nat} {s : ZipSt} (hl : s.bufs.length = n) (hi : IntBufs s.bufs) :
    (s.tryEmit).1.bufs.length = n ∧ IntBufs (s.tryEmit).1.bufs ∧
    ∀ i, i < n → (s.tryEmit).2.1.filterMap (tupAt i) ++ (s.tryEmit).1.bufs.getD i [] = s.bufs.getD i [] := by
  obtain ⟨r1, r2, r3⟩ := zipEmit_spec n (zipFuel s.bufs) s.demand s.bufs hl hi
  unfold ZipSt.tryEmit
  dsimp only
  split <;> exact ⟨r1, r2, r3⟩

/-- events the theorem covers: int values on existing slots, no second wire -/
def zipOK (n : Nat) (evs : List JEv) : Prop :=
  ∀ ev ∈ evs, (∀ (_ : ev = .wire), False) ∧ ∀ slot v, ev = .value slot v → slot < n ∧ ∃ x, v = Val.int x

theorem ZInv.step {n : Nat} {s : ZipSt} {t : ZTrace} (h : ZInv n s t) (ev : JEv)
    (hw : ∀ (_ : ev = .wire), False) (hv : ∀ slot v, ev = .value slot v → slot < n ∧ ∃ x, v = Val.int x) :
    ZInv n (zipStep n s ev).1 (t.add ev (zipStep n s ev).2) := by
  cases ev with
  | wire => exact (hw rfl).elim
  | cancel => exact ⟨h.len, h.ints, by simpa [zipStep, ZTrace.add] using h.cols⟩
  | req k =>
    obtain ⟨r1, r2, r3⟩ := tryEmit_spec (s := { s with demand := s.demand + k }) h.len h.ints
    refine ⟨r1, r2, fun i hlt => ?_⟩
    simp only [zipStep, ZTrace.add, List.filterMap_append, List.append_assoc]
    rw [r3 i hlt]; exact h.cols i hlt
  | done slot =>
    obtain ⟨r1, r2, r3⟩ := tryEmit_spec (s := { s with done := s.done.set slot true }) h.len h.ints
    refine ⟨r1, r2, fun i hlt => ?_⟩
    simp only [zipStep, ZTrace.add, List.filterMap_append, List.append_assoc]
    rw [r3 i hlt]; exact h.cols i hlt
  | value slot v =>
    obtain ⟨hs, x, rfl⟩ := hv slot v rfl
    have hl0 : (s.bufs.modify slot (· ++ [Val.int x])).length = n := by simpa using h.len
    have hi0 : IntBufs (s.bufs.modify slot (· ++ [Val.int x])) := by
      intro b hb w hw'
      obtain ⟨j, hj⟩ := List.getElem?_of_mem hb
      rw [List.getElem?_modify] at hj
      split at hj
      · cases hb0 : s.bufs[j]? with
        | none => simp [hb0] at hj
        | some b0 =>
          simp [hb0] at hj; subst hj
          rcases List.mem_append.mp hw' with hw' | hw'
          · exact h.ints b0 (List.mem_of_getElem? hb0) w hw'
          · exact ⟨x, by simpa using hw'⟩
      · cases hb0 : s.bufs[j]? with
        | none => simp [hb0] at hj
        | some b0 => simp [hb0] at hj; subst hj; exact h.ints b0 (List.mem_of_getElem? hb0) w hw'
    obtain ⟨r1, r2, r3⟩ := tryEmit_spec (s := { s with bufs := s.bufs.modify slot (· ++ [Val.int x]) }) hl0 hi0
    refine ⟨r1, r2, fun i hlt => ?_⟩
    simp only [zipStep, ZTrace.add, List.filterMap_append, List.append_assoc]
    rw [r3 i hlt]
    have hc := h.cols i hlt
    rw [proj_append', ← hc]
    simp only [List.getD_eq_getElem?_getD, List.getElem?_modify]
    by_cases hsi : slot = i
    · subst hsi
      have hlt' : slot < s.bufs.length := by rw [h.len]; exact hlt
      simp [List.getElem?_eq_getElem hlt', proj]
    · have : proj [(slot, Val.int x)] i = [] := by simp [proj, hsi]
      simp [hsi, this]

theorem zipRun_inv (n : Nat) (s : ZipSt) (t : ZTrace) (evs : List JEv) (h : ZInv n s t) (hok : zipOK n evs) :
    ZInv n (zipRun n (s, t) evs).1 (zipRun n (s, t) evs).2 := by
  induction evs generalizing s t with
  | nil => exact h
  | cons ev evs ih =>
    have hok' : zipOK n evs := fun e he => hok e (by simp [he])
    simp only [zipRun]
    by_cases ha : s.alive = true
    · simp only [ha, if_true]
      exact ih _ _ (h.step ev (hok ev (by simp)).1 (hok ev (by simp)).2) hok'
    · simp only [ha]; exact ih _ _ h hok'

/-- the Zip source after its stageWire (n ≥ 1 sub-sources) -/
def zipInit (n : Nat) : ZipSt × ZTrace :=
  ((zipStep n { bufs := [], done := [] } .wire).1, {})

theorem ZInv.init (n : Nat) (hn : 0 < n) : ZInv n (zipInit n).1 (zipInit n).2 := by
  have : ¬ n = 0 := by omega
  simp only [zipInit, zipStep, this, if_false]
  refine ⟨by simp, ?_, fun i hi => ?_⟩
  · intro b hb v hv; simp [List.mem_replicate] at hb; rw [hb.2] at hv; simp at hv
  · simp [proj, List.getD_eq_getElem?_getD, List.getElem?_replicate, hi]

/-- ZIP, for every sequence of requests / int sub-values / sub-dones / cancels after the wire: for every slot i,
    the i-th components of the tuples sent so far followed by what slot i still buffers are the values that
    arrived on slot i, in order — the j-th tuple pairs the j-th arrivals of all slots. -/
theorem zip_correct (n : Nat) (hn : 0 < n) (evs : List JEv) (hok : zipOK n evs) :
    let r := zipRun n (zipInit n) evs
    ∀ i, i < n → r.2.sent.filterMap (tupAt i) ++ r.1.bufs.getD i [] = proj r.2.arr i :=
  (zipRun_inv n _ _ evs (ZInv.init n hn) hok).cols

end GoaktVerif.C46
